/-
  Lemmas/SqlPratt.lean — helper lemmas for Props/C09Parse.lean (precedence-climbing round trip for SQL).

  Layout
  * §1  levels of the tokens an operator loop can meet (`stops`), "eventually" predicates for the four
        fuelled parser functions, one-step unfoldings of the parser
  * §2  token-level reading statements: `Opd` (operand in continuation-passing form), `Atom`, `ReadsAt`,
        `ReadsL`; one lemma per operator / special form of the parser
  * §3  pieces → tokens
  * §4  the printer side: `CoreR` (the statement proved for every expression), operands, identifiers, literals
        (signed numbers, Booleans, durations), operators, lists
  * §5  function templates: a non-recursive copy `mirrorCall'` of `Spec.mirrorCall`, one lemma per template
        shape (`tpl_*`), one lemma per built-in (`call_*`)
  * §6  assembly: `Goal` per constructor, the mutual structural recursion `core` / `coreL`, `parse_of_core`
-/
import ODataVerif.Model.SqlPieces
import ODataVerif.Spec.SqlMirror
namespace OQ.SqlPratt
open Spec

/-! ## §1 levels, eventual results, step lemmas -/

def wordLvl (w : Str) : Nat :=
  if w == "OR".toList then 1
  else if w == "AND".toList then 2
  else if w == "IS".toList then 4
  else if w == "IN".toList then 4
  else if w == "LIKE".toList then 4
  else 0

def opLvl (s : Str) : Nat :=
  if isCmpOp s then 4 else if isAddOp s || isCatOp s then 5 else if isMulOp s then 6 else 100

/-- an operator loop at minimum level `k` (and every expression read at a level `≥ k`) ends in front of
    `ts`: the head is `)`, `,`, a neutral word, or an operator of level `< k`.  Never `ESCAPE`, an
    unknown operator, or a token that would extend an atom (`.`, `(`, a literal). -/
def stops (k : Nat) : List SqlTok → Bool
  | [] => true
  | .rp :: _ => true
  | .comma :: _ => true
  | .word w :: _ => (wordLvl w == 0 || wordLvl w < k) && w != "ESCAPE".toList
  | .op s :: _ => decide (opLvl s < k) && decide (opLvl s ≤ 6)
  | _ => false

/-- what must not follow an expression whose top operator has level `L` -/
def bnd (L : Nat) : Nat := if L = 4 then 4 else L + 1

abbrev EvE (N m : Nat) (ts : List SqlTok) (R : SqlTree × Bool × List SqlTok) : Prop :=
  ∀ f, N ≤ f → pExpr f m ts = some R
abbrev EvL (N m : Nat) (lhs : SqlTree) (a : Bool) (ts : List SqlTok) (R : SqlTree × Bool × List SqlTok) : Prop :=
  ∀ f, N ≤ f → pLoop f m lhs a ts = some R
abbrev EvP (N m : Nat) (ts : List SqlTok) (R : SqlTree × Bool × List SqlTok) : Prop :=
  ∀ f, N ≤ f → pPrefix f m ts = some R
abbrev EvA (N : Nat) (ts : List SqlTok) (R : SqlTrees × List SqlTok) : Prop :=
  ∀ f, N ≤ f → pArgs f ts = some R

theorem stops_mono {k k' : Nat} {ts : List SqlTok} (h : stops k ts = true) (hk : k ≤ k') : stops k' ts = true := by
  cases ts with
  | nil => rfl
  | cons t r =>
    cases t <;> simp [stops] at h ⊢
    · rcases h with ⟨h | h, h2⟩
      · exact ⟨Or.inl h, h2⟩
      · exact ⟨Or.inr (by omega), h2⟩
    · omega

theorem wordLvl_cases (w : Str) : wordLvl w = 0 ∨ wordLvl w = 1 ∨ wordLvl w = 2 ∨ wordLvl w = 4 := by
  unfold wordLvl; repeat' split
  all_goals simp

theorem opLvl_cases (s : Str) : opLvl s = 4 ∨ opLvl s = 5 ∨ opLvl s = 6 ∨ opLvl s = 100 := by
  unfold opLvl; repeat' split
  all_goals simp

/-- there is no infix operator of level 3 -/
theorem stops_4_3 {ts : List SqlTok} (h : stops 4 ts = true) : stops 3 ts = true := by
  cases ts with
  | nil => rfl
  | cons t r =>
    cases t <;> simp [stops] at h ⊢
    · rename_i w
      rcases wordLvl_cases w with h' | h' | h' | h' <;> simp [h'] at h ⊢ <;> exact h
    · rename_i s
      rcases opLvl_cases s with h' | h' | h' | h' <;> omega

/-- … nor of level 7 or 8 -/
theorem stops_9_7 {ts : List SqlTok} (h : stops 9 ts = true) : stops 7 ts = true := by
  cases ts with
  | nil => rfl
  | cons t r =>
    cases t <;> simp [stops] at h ⊢
    · rename_i w
      rcases wordLvl_cases w with h' | h' | h' | h' <;> simp [h'] at h ⊢ <;> exact h
    · rename_i s
      rcases opLvl_cases s with h' | h' | h' | h' <;> omega

theorem bnd_ge (L : Nat) : L ≤ bnd L := by unfold bnd; split <;> omega
theorem bnd_mono {L L' : Nat} (h : L ≤ L') : bnd L ≤ bnd L' := by unfold bnd; split <;> split <;> omega

theorem cmpHead_of_stops4 {ts : List SqlTok} (h : stops 4 ts = true) : cmpHead ts = false := by
  cases ts with
  | nil => rfl
  | cons t r =>
    cases t <;> simp [stops] at h <;> simp [cmpHead]
    · rename_i w
      refine ⟨⟨?_, ?_⟩, ?_⟩ <;> intro hw <;> subst hw <;> revert h <;> decide
    · rename_i s
      unfold opLvl at h
      split at h
      · omega
      · rename_i hc; simpa using hc

theorem loop_stop (f m lhs a ts) (h : stops m ts = true) :
    pLoop (f+1) m lhs a ts = some (lhs, a, ts) := by
  cases ts with
  | nil => simp [pLoop]
  | cons t r =>
    cases t with
    | word w =>
      simp only [stops, Bool.and_eq_true, Bool.or_eq_true, beq_iff_eq, decide_eq_true_eq, bne_iff_ne] at h
      obtain ⟨h, -⟩ := h
      unfold wordLvl at h
      simp only [pLoop]
      split at h
      · rename_i h1; rw [if_pos h1, if_neg (by omega)]
      rename_i h1; rw [if_neg h1]
      split at h
      · rename_i h2; rw [if_pos h2, if_neg (by omega)]
      rename_i h2; rw [if_neg h2]
      split at h
      · rename_i h3; rw [if_pos h3, if_neg (by omega)]
      rename_i h3; rw [if_neg h3]
      split at h
      · rename_i h4; rw [if_pos h4, if_neg (by omega)]
      rename_i h4; rw [if_neg h4]
      split at h
      · rename_i h5; rw [if_pos h5, if_neg (by omega)]
      rename_i h5; rw [if_neg h5]
    | op s =>
      simp only [stops, Bool.and_eq_true, decide_eq_true_eq] at h
      obtain ⟨h, h6⟩ := h
      unfold opLvl at h h6
      simp only [pLoop]
      split at h
      · rename_i h1; rw [if_pos h1, if_neg (by omega)]
      rename_i h1; rw [if_neg h1]
      split at h
      · rename_i h2; rw [if_pos h2, if_neg (by omega)]
      rename_i h2; rw [if_neg h2]
      split at h
      · rename_i h3; rw [if_pos h3, if_neg (by omega)]
      · rename_i h3; simp [h1, h2, h3] at h6
    | _ => first | simp [pLoop] | simp [stops] at h

theorem expr_step (f m ts t a r) (h : pPrefix f m ts = some (t, a, r)) :
    pExpr (f+1) m ts = pLoop f m t a r := by simp [pExpr, h]

theorem loop_or (f m lhs a r rhs ra r') (hm : m ≤ 1) (h : pExpr f 2 r = some (rhs, ra, r')) :
    pLoop (f+1) m lhs a (.word "OR".toList :: r) = pLoop f m (.bin "OR".toList lhs rhs) false r' := by
  simp [pLoop, hm, h]

theorem loop_and (f m lhs a r rhs ra r') (hm : m ≤ 2) (h : pExpr f 3 r = some (rhs, ra, r')) :
    pLoop (f+1) m lhs a (.word "AND".toList :: r) = pLoop f m (.bin "AND".toList lhs rhs) false r' := by
  simp [pLoop, hm, h]

theorem loop_cmp (f m lhs a s r rhs ra r') (hs : isCmpOp s = true) (hm : m ≤ 4)
    (h : pExpr f 5 r = some (rhs, ra, r')) (hc : cmpHead r' = false) :
    pLoop (f+1) m lhs a (.op s :: r) = pLoop f m (.bin s lhs rhs) false r' := by
  simp [pLoop, hm, h, hs, hc]

theorem loop_add (f m lhs a s r rhs ra r') (hc : isCmpOp s = false) (hs : (isAddOp s || isCatOp s) = true) (hm : m ≤ 5)
    (h : pExpr f 6 r = some (rhs, ra, r'))
    (hbad : (if isCatOp s then (!a && isArithTree lhs) || (!ra && isArithTree rhs)
             else (!a && isCatTree lhs) || (!ra && isCatTree rhs)) = false) :
    pLoop (f+1) m lhs a (.op s :: r) = pLoop f m (.bin s lhs rhs) false r' := by
  simp only [pLoop, hc, hs, if_true, hm, h, hbad]; simp

theorem loop_mul (f m lhs a s r rhs ra r') (hc : isCmpOp s = false) (hs' : (isAddOp s || isCatOp s) = false)
    (hs : isMulOp s = true) (hm : m ≤ 6)
    (h : pExpr f 7 r = some (rhs, ra, r'))
    (hbad : ((!a && isCatTree lhs) || (!ra && isCatTree rhs)) = false) :
    pLoop (f+1) m lhs a (.op s :: r) = pLoop f m (.bin s lhs rhs) false r' := by
  simp only [pLoop, hc, hs', hs, if_true, hm, h, hbad]; simp

theorem loop_is_null (f m lhs a r rhs ra r') (hm : m ≤ 4)
    (h : pExpr f 5 (.word "NULL".toList :: r) = some (rhs, ra, r')) (hc : cmpHead r' = false) :
    pLoop (f+1) m lhs a (.word "IS".toList :: .word "NULL".toList :: r)
      = pLoop f m (.bin "IS".toList lhs rhs) false r' := by
  simp at h
  simp [pLoop, hm, h, hc]

theorem loop_isnot (f m lhs a r rhs ra r') (hm : m ≤ 4)
    (h : pExpr f 5 r = some (rhs, ra, r')) (hc : cmpHead r' = false) :
    pLoop (f+1) m lhs a (.word "IS".toList :: .word "NOT".toList :: r)
      = pLoop f m (.bin "ISNOT".toList lhs rhs) false r' := by
  simp [pLoop, hm, h, hc]

theorem loop_in (f m lhs a r items r') (hm : m ≤ 4)
    (h : pArgs f r = some (items, r')) (hc : cmpHead r' = false) :
    pLoop (f+1) m lhs a (.word "IN".toList :: .lp :: r) = pLoop f m (.inl lhs items) false r' := by
  simp [pLoop, hm, h, hc]

theorem loop_like_esc (f m lhs a r pat ra c r'') (hm : m ≤ 4)
    (h : pExpr f 5 r = some (pat, ra, .word "ESCAPE".toList :: .str c :: r'')) (hc : cmpHead r'' = false) :
    pLoop (f+1) m lhs a (.word "LIKE".toList :: r) = pLoop f m (.like lhs pat (some c)) false r'' := by
  simp [pLoop, hm, h, hc]

theorem loop_like (f m lhs a r pat ra r') (hm : m ≤ 4)
    (h : pExpr f 5 r = some (pat, ra, r')) (hs : stops 4 r' = true) :
    pLoop (f+1) m lhs a (.word "LIKE".toList :: r) = pLoop f m (.like lhs pat none) false r' := by
  have hc := cmpHead_of_stops4 hs
  simp only [pLoop]
  simp [hm, h]
  split
  · rename_i e c r'' 
    simp [stops] at hs
    simp [hs.2, hc]
  · simp [hc]

/-! ### pPrefix -/

/-- a word that starts none of the special forms -/
def plainWord (w : Str) : Bool :=
  !(w == "NOT".toList) && !(w == "CAST".toList) && !(w == "EXTRACT".toList) && !(w == "POSITION".toList)
    && !(w == "SUBSTRING".toList) && !(w == "INTERVAL".toList)

theorem prefix_num (f m s r) : pPrefix (f+1) m (.num s :: r) = some (.num s, true, r) := by simp [pPrefix]
theorem prefix_str (f m s r) : pPrefix (f+1) m (.str s :: r) = some (.str s, true, r) := by simp [pPrefix]
theorem prefix_qcol (f m a b r) : pPrefix (f+1) m (.qid a :: .dot :: .qid b :: r) = some (.col (some a) b, true, r) := by
  simp [pPrefix]
theorem prefix_col (f m a r k) (h : stops k r = true) : pPrefix (f+1) m (.qid a :: r) = some (.col none a, true, r) := by
  cases r with
  | nil => simp [pPrefix]
  | cons t r' => cases t <;> simp [stops] at h <;> simp [pPrefix]

theorem prefix_sign (f m s r e ea r') (hs : isAddOp s = true) (h : pExpr f 7 r = some (e, ea, r')) :
    pPrefix (f+1) m (.op s :: r) = some (.un s e, false, r') := by
  simp [pPrefix, hs, h]

theorem prefix_paren1 (f m r e r') (h : pArgs f r = some (.cons e .nil, r')) :
    pPrefix (f+1) m (.lp :: r) = some (e, true, r') := by
  simp [pPrefix, h]

theorem prefix_row (f m r items r') (h : pArgs f r = some (items, r')) (hne : ∀ e, items ≠ .cons e .nil) :
    pPrefix (f+1) m (.lp :: r) = some (.row items, true, r') := by
  simp only [pPrefix, h]

theorem prefix_not (f m r e ea r') (hm : m ≤ 3) (h : pExpr f 3 r = some (e, ea, r')) :
    pPrefix (f+1) m (.word "NOT".toList :: r) = some (.un "NOT".toList e, false, r') := by
  simp [pPrefix, hm, h]

theorem prefix_cast (f m r1 e ea ty r')
    (h : pExpr f 0 r1 = some (e, ea, .word "AS".toList :: .word ty :: .rp :: r')) :
    pPrefix (f+1) m (.word "CAST".toList :: .lp :: r1) = some (.cast e ty, true, r') := by
  simp at h
  simp [pPrefix, h]

theorem prefix_extract (f m part r1 e ea r')
    (h : pExpr f 0 r1 = some (e, ea, .rp :: r')) :
    pPrefix (f+1) m (.word "EXTRACT".toList :: .lp :: .word part :: .word "FROM".toList :: r1)
      = some (.extract part e, true, r') := by
  simp [pPrefix, h]

theorem prefix_position (f m r1 n na r2 hay ha r')
    (h1 : pExpr f 5 r1 = some (n, na, .word "IN".toList :: r2))
    (h2 : pExpr f 5 r2 = some (hay, ha, .rp :: r')) :
    pPrefix (f+1) m (.word "POSITION".toList :: .lp :: r1) = some (.position n hay, true, r') := by
  simp at h1
  simp [pPrefix, h1, h2]

theorem prefix_substring2 (f m r1 s sa r2 st sta r')
    (h1 : pExpr f 5 r1 = some (s, sa, .word "FROM".toList :: r2))
    (h2 : pExpr f 5 r2 = some (st, sta, .rp :: r')) :
    pPrefix (f+1) m (.word "SUBSTRING".toList :: .lp :: r1) = some (.substring s st .none, true, r') := by
  simp at h1
  simp [pPrefix, h1, h2]

theorem prefix_substring3 (f m r1 s sa r2 st sta r3 ln lna r')
    (h1 : pExpr f 5 r1 = some (s, sa, .word "FROM".toList :: r2))
    (h2 : pExpr f 5 r2 = some (st, sta, .word "FOR".toList :: r3))
    (h3 : pExpr f 5 r3 = some (ln, lna, .rp :: r')) :
    pPrefix (f+1) m (.word "SUBSTRING".toList :: .lp :: r1) = some (.substring s st (.some ln), true, r') := by
  simp at h1 h2
  simp [pPrefix, h1, h2, h3]

theorem prefix_interval (f m n u r) :
    pPrefix (f+1) m (.word "INTERVAL".toList :: .str n :: .word u :: r) = some (.interval n u, true, r) := by
  simp [pPrefix]

theorem plainWord_ne {w : Str} (h : plainWord w = true) :
    (w == "NOT".toList) = false ∧ (w == "CAST".toList) = false ∧ (w == "EXTRACT".toList) = false ∧
    (w == "POSITION".toList) = false ∧ (w == "SUBSTRING".toList) = false ∧ (w == "INTERVAL".toList) = false := by
  simp [plainWord] at h
  simp [h]

theorem prefix_call (f m w r1 args r') (hw : plainWord w = true) (h : pArgs f r1 = some (args, r')) :
    pPrefix (f+1) m (.word w :: .lp :: r1) = some (.call w args, true, r') := by
  obtain ⟨h1, h2, h3, h4, h5, h6⟩ := plainWord_ne hw
  simp only [pPrefix, h1, h2, h3, h4, h5, h6, h]
  simp

theorem prefix_typed (f m w s r) (hw : plainWord w = true) (hk : typedKinds.contains (String.ofList w) = true) :
    pPrefix (f+1) m (.word w :: .str s :: r) = some (.typed w s, true, r) := by
  obtain ⟨h1, h2, h3, h4, h5, h6⟩ := plainWord_ne hw
  simp only [pPrefix, h1, h2, h3, h4, h5, h6, hk]
  simp

theorem prefix_kw (f m w r k) (hw : plainWord w = true) (hk : kwAtoms.contains (String.ofList w) = true)
    (hr : stops k r = true) :
    pPrefix (f+1) m (.word w :: r) = some (.kw w, true, r) := by
  obtain ⟨h1, h2, h3, h4, h5, h6⟩ := plainWord_ne hw
  simp only [pPrefix, h1, h2, h3, h4, h5, h6]
  have hk' : String.ofList w ∈ kwAtoms := by simpa using hk
  cases r with
  | nil => simp [hk']
  | cons t r' => cases t <;> simp [stops] at hr <;> simp [hk']

/-! ### pArgs -/

theorem pExpr_rp_none (f m r) : pExpr f m (.rp :: r) = none := by
  cases f with
  | zero => simp [pExpr]
  | succ f => cases f <;> simp [pExpr, pPrefix]

theorem args_nil (f r) : pArgs (f+1) (.rp :: r) = some (.nil, r) := by simp [pArgs]

theorem args_last (f ts e ea r) (h : pExpr f 0 ts = some (e, ea, .rp :: r)) :
    pArgs (f+1) ts = some (.cons e .nil, r) := by
  cases ts with
  | nil => simp [pArgs, h]
  | cons t r0 =>
    cases t <;> first | (rw [pExpr_rp_none] at h; simp at h) | simp [pArgs, h]

theorem args_more (f ts e ea r rest r') (h : pExpr f 0 ts = some (e, ea, .comma :: r))
    (h2 : pArgs f r = some (rest, r')) :
    pArgs (f+1) ts = some (.cons e rest, r') := by
  cases ts with
  | nil => simp [pArgs, h, h2]
  | cons t r0 =>
    cases t <;> first | (rw [pExpr_rp_none] at h; simp at h) | simp [pArgs, h, h2]

/-! ## §2 token-level reading statements -/

/-- `T` reads as an operand whose top operator has level `L`, in continuation-passing form: whatever the
    operator loop makes of the tree `t` (with atomicity flag `a`) in front of `rest`, `pExpr` makes of `T ++ rest` -/
def Opd (L : Nat) (T : List SqlTok) (t : SqlTree) (a : Bool) : Prop :=
  ∀ (m : Nat) (rest : List SqlTok) (R : SqlTree × Bool × List SqlTok) (N : Nat), 1 ≤ N → m ≤ L →
    stops (bnd L) rest = true → EvL N m t a rest R → EvE (N + 4 * T.length + 1) m (T ++ rest) R

/-- `pPrefix` reads `T` completely, as an atom -/
def Atom (T : List SqlTok) (t : SqlTree) : Prop :=
  ∀ (m : Nat) (rest : List SqlTok), stops 9 rest = true → EvP (4 * T.length) m (T ++ rest) (t, true, rest)

/-- `pExpr` at level `m` reads exactly `T` -/
def ReadsAt (m : Nat) (T : List SqlTok) (t : SqlTree) : Prop :=
  ∀ rest, stops m rest = true → ∃ a, EvE (4 * T.length + 2) m (T ++ rest) (t, a, rest)

theorem evl_stop {m : Nat} {rest : List SqlTok} (t : SqlTree) (a : Bool) (h : stops m rest = true) :
    EvL 1 m t a rest (t, a, rest) := by
  intro f hf
  obtain ⟨f', rfl⟩ : ∃ f', f = f' + 1 := ⟨f - 1, by omega⟩
  exact loop_stop _ _ _ _ _ h

theorem opd_mono {L L' T t a} (h : Opd L T t a) (hL : L' ≤ L) : Opd L' T t a := by
  intro m rest R N hN hm hst hl
  exact h m rest R N hN (by omega) (stops_mono hst (bnd_mono hL)) hl

theorem atom_opd {T t} (h : Atom T t) : Opd 8 T t true := by
  intro m rest R N hN _ hst hl f hf
  obtain ⟨f', rfl⟩ : ∃ f', f = f' + 1 := ⟨f - 1, by omega⟩
  rw [expr_step _ _ _ _ _ _ (h m rest hst f' (by omega))]
  exact hl f' (by omega)

theorem opd_reads {L T t a m} (h : Opd L T t a) (hm : m ≤ L) : ReadsAt m T t := by
  intro rest hst
  refine ⟨a, ?_⟩
  have := h m rest (t, a, rest) 1 (Nat.le_refl 1) hm (stops_mono hst (Nat.le_trans hm (bnd_ge L))) (evl_stop t a hst)
  intro f hf
  exact this f (by omega)

theorem opd_reads' {L T t a m} (h : Opd L T t a) (hm : m ≤ L) {rest} (hst : stops m rest = true) :
    EvE (4 * T.length + 2) m (T ++ rest) (t, a, rest) := by
  have := h m rest (t, a, rest) 1 (Nat.le_refl 1) hm (stops_mono hst (Nat.le_trans hm (bnd_ge L))) (evl_stop t a hst)
  intro f hf
  exact this f (by omega)

theorem atom_paren {L T t a} (h : Opd L T t a) : Atom (.lp :: (T ++ [.rp])) t := by
  intro m rest _ f hf
  simp only [List.length_cons, List.length_append, List.length_nil] at hf
  obtain ⟨f', rfl⟩ : ∃ f', f = f' + 2 := ⟨f - 2, by omega⟩
  have h1 := opd_reads' h (Nat.zero_le L) (rest := .rp :: rest) rfl f' (by omega)
  have h2 := args_last _ _ _ _ _ h1
  simpa using prefix_paren1 _ m _ _ _ h2

/-- generic binary operator: operator tokens `tk :: tks`, right operand read at level `rl` -/
theorem opd_binary (Lop rl : Nat) (tk : SqlTok) (tks : List SqlTok) (mk : SqlTree → SqlTree → SqlTree)
    {La A ta aa Lb B tb ab}
    (hstopTok : ∀ ts, stops (bnd La) (tk :: ts) = true)
    (hA : Opd La A ta aa) (hLa : Lop ≤ La)
    (hB : Opd Lb B tb ab) (hLb : rl ≤ Lb) (hrl : bnd Lop ≤ rl)
    (hstep : ∀ f m rest, m ≤ Lop → stops (bnd Lop) rest = true → pExpr f rl (B ++ rest) = some (tb, ab, rest) →
       pLoop (f+1) m ta aa (tk :: (tks ++ (B ++ rest))) = pLoop f m (mk ta tb) false rest) :
    Opd Lop (A ++ tk :: (tks ++ B)) (mk ta tb) false := by
  intro m rest R N hN hm hst hl f hf
  simp only [List.length_cons, List.length_append] at hf
  have hstr : stops rl rest = true := stops_mono hst hrl
  have key : EvL (N + 4 * B.length + 3) m ta aa (tk :: (tks ++ (B ++ rest))) R := by
    intro f hf
    obtain ⟨f', rfl⟩ : ∃ f', f = f' + 1 := ⟨f - 1, by omega⟩
    rw [hstep f' m rest hm hst (opd_reads' hB hLb hstr f' (by omega))]
    exact hl f' (by omega)
  have := hA m (tk :: (tks ++ (B ++ rest))) R (N + 4 * B.length + 3) (by omega) (by omega) (hstopTok _) key f (by omega)
  simpa using this

theorem lt_bnd {k L : Nat} (h : k ≤ L) (h' : k ≠ 4) : k < bnd L := by
  unfold bnd; split <;> omega

theorem stops_word_lvl (k : Nat) (w : Str) (ts : List SqlTok) (hw : wordLvl w < k) (he : (w != "ESCAPE".toList) = true) :
    stops k (.word w :: ts) = true := by
  simp only [stops, Bool.and_eq_true, Bool.or_eq_true, decide_eq_true_eq]
  exact ⟨Or.inr hw, he⟩

theorem stops_op_lvl (k : Nat) (s : Str) (ts : List SqlTok) (hs : opLvl s < k) (h6 : opLvl s ≤ 6) :
    stops k (.op s :: ts) = true := by
  simp only [stops, Bool.and_eq_true, decide_eq_true_eq]
  exact ⟨hs, h6⟩

theorem opd_or {La A ta aa Lb B tb ab} (hA : Opd La A ta aa) (hLa : 1 ≤ La) (hB : Opd Lb B tb ab) (hLb : 2 ≤ Lb) :
    Opd 1 (A ++ .word "OR".toList :: B) (.bin "OR".toList ta tb) false := by
  have := opd_binary 1 2 (.word "OR".toList) [] (.bin "OR".toList) (fun ts => stops_word_lvl _ _ ts
    (by have := bnd_ge La; show 1 < bnd La; unfold bnd; split <;> omega) (by decide)) hA hLa hB hLb (by decide)
    (fun f m rest hm _ h => loop_or f m ta aa _ tb ab rest hm h)
  simpa using this

theorem opd_and {La A ta aa Lb B tb ab} (hA : Opd La A ta aa) (hLa : 2 ≤ La) (hB : Opd Lb B tb ab) (hLb : 3 ≤ Lb) :
    Opd 2 (A ++ .word "AND".toList :: B) (.bin "AND".toList ta tb) false := by
  have := opd_binary 2 3 (.word "AND".toList) [] (.bin "AND".toList) (fun ts => stops_word_lvl _ _ ts
    (by show 2 < bnd La; unfold bnd; split <;> omega) (by decide)) hA hLa hB hLb (by decide)
    (fun f m rest hm _ h => loop_and f m ta aa _ tb ab rest hm h)
  simpa using this

theorem opd_cmp (s : Str) (hs : isCmpOp s = true) {La A ta aa Lb B tb ab}
    (hA : Opd La A ta aa) (hLa : 5 ≤ La) (hB : Opd Lb B tb ab) (hLb : 5 ≤ Lb) :
    Opd 4 (A ++ .op s :: B) (.bin s ta tb) false := by
  have := opd_binary 4 5 (.op s) [] (.bin s) (fun ts => stops_op_lvl _ _ ts
    (by simp only [opLvl, hs, if_true]; unfold bnd; split <;> omega) (by simp [opLvl, hs])) hA (by omega) hB hLb (by decide)
    (fun f m rest hm hst h => loop_cmp f m ta aa s _ tb ab rest hs hm h (cmpHead_of_stops4 hst))
  simpa using this

theorem atom_kw_null : Atom [.word "NULL".toList] (.kw "NULL".toList) := by
  intro m rest hst f hf
  obtain ⟨f', rfl⟩ : ∃ f', f = f' + 1 := ⟨f - 1, by simp at hf; omega⟩
  exact prefix_kw f' m _ rest 9 (by decide) (by decide) hst

theorem opd_is_null {La A ta aa} (hA : Opd La A ta aa) (hLa : 5 ≤ La) :
    Opd 4 (A ++ [.word "IS".toList, .word "NULL".toList]) (.bin "IS".toList ta (.kw "NULL".toList)) false := by
  have := opd_binary 4 5 (.word "IS".toList) [] (.bin "IS".toList) (fun ts => stops_word_lvl _ _ ts
    (by show 4 < bnd La; unfold bnd; split <;> omega) (by decide)) hA (by omega) (atom_opd atom_kw_null) (by omega) (by decide)
    (fun f m rest hm hst h => loop_is_null f m ta aa rest _ _ rest hm h (cmpHead_of_stops4 hst))
  simpa using this

theorem opd_isnot_null {La A ta aa} (hA : Opd La A ta aa) (hLa : 5 ≤ La) :
    Opd 4 (A ++ [.word "IS".toList, .word "NOT".toList, .word "NULL".toList])
      (.bin "ISNOT".toList ta (.kw "NULL".toList)) false := by
  have := opd_binary 4 5 (.word "IS".toList) [.word "NOT".toList] (.bin "ISNOT".toList) (fun ts => stops_word_lvl _ _ ts
    (by show 4 < bnd La; unfold bnd; split <;> omega) (by decide)) hA (by omega) (atom_opd atom_kw_null) (by omega) (by decide)
    (fun f m rest hm hst h => loop_isnot f m ta aa _ _ _ rest hm h (cmpHead_of_stops4 hst))
  simpa using this

/-- the `||`-versus-arithmetic check of the parser, for one operand -/
def mixOk (s : Str) (a : Bool) (t : SqlTree) : Bool :=
  if isCatOp s then a || !isArithTree t else a || !isCatTree t

theorem opd_add (s : Str) (hc : isCmpOp s = false) (hs : (isAddOp s || isCatOp s) = true) {La A ta aa Lb B tb ab}
    (hA : Opd La A ta aa) (hLa : 5 ≤ La) (hB : Opd Lb B tb ab) (hLb : 6 ≤ Lb)
    (hma : mixOk s aa ta = true) (hmb : mixOk s ab tb = true) :
    Opd 5 (A ++ .op s :: B) (.bin s ta tb) false := by
  have := opd_binary 5 6 (.op s) [] (.bin s) (fun ts => stops_op_lvl _ _ ts
    (by simp only [opLvl, hc, hs, if_true, Bool.false_eq_true, if_false]; exact lt_bnd hLa (by omega)) (by simp [opLvl, hs, hc])) hA hLa hB hLb (by decide)
    (fun f m rest hm hst h => loop_add f m ta aa s _ tb ab rest hc hs hm h (by
      unfold mixOk at hma hmb
      split
      · rename_i h1; simp only [h1, if_true] at hma hmb
        cases aa <;> cases ab <;> simp_all
      · rename_i h1; simp only [h1] at hma hmb
        cases aa <;> cases ab <;> simp_all))
  simpa using this

theorem opd_mul (s : Str) (hc : isCmpOp s = false) (hs' : (isAddOp s || isCatOp s) = false) (hs : isMulOp s = true)
    {La A ta aa Lb B tb ab}
    (hA : Opd La A ta aa) (hLa : 6 ≤ La) (hB : Opd Lb B tb ab) (hLb : 7 ≤ Lb)
    (hma : (aa || !isCatTree ta) = true) (hmb : (ab || !isCatTree tb) = true) :
    Opd 6 (A ++ .op s :: B) (.bin s ta tb) false := by
  have := opd_binary 6 7 (.op s) [] (.bin s) (fun ts => stops_op_lvl _ _ ts
    (by simp only [opLvl, hc, hs, hs', if_true, Bool.false_eq_true, if_false]; exact lt_bnd hLa (by omega)) (by simp [opLvl, hs, hs', hc])) hA hLa hB hLb (by decide)
    (fun f m rest hm hst h => loop_mul f m ta aa s _ tb ab rest hc hs' hs hm h (by
      cases aa <;> cases ab <;> simp_all))
  simpa using this

theorem stops_word_neutral (k : Nat) (w : Str) (ts : List SqlTok) (hw : wordLvl w = 0) (he : (w != "ESCAPE".toList) = true) :
    stops k (.word w :: ts) = true := by
  simp only [stops, Bool.and_eq_true, Bool.or_eq_true, decide_eq_true_eq, beq_iff_eq]
  exact ⟨Or.inl hw, he⟩

theorem opd_neg (s : Str) (hs : isAddOp s = true) {L X t a} (hX : Opd L X t a) (hL : 7 ≤ L) :
    Opd 8 (.op s :: X) (.un s t) false := by
  intro m rest R N hN _ hst hl f hf
  simp only [List.length_cons] at hf
  obtain ⟨f', rfl⟩ : ∃ f', f = f' + 2 := ⟨f - 2, by omega⟩
  have h7 : stops 7 rest = true := stops_9_7 hst
  have h1 := opd_reads' hX hL h7 f' (by omega)
  have h2 := prefix_sign f' m s _ _ _ _ hs h1
  rw [List.cons_append, expr_step _ _ _ _ _ _ h2]
  exact hl _ (by omega)

theorem opd_not {L X t a} (hX : Opd L X t a) (hL : 3 ≤ L) :
    Opd 3 (.word "NOT".toList :: X) (.un "NOT".toList t) false := by
  intro m rest R N hN hm hst hl f hf
  simp only [List.length_cons] at hf
  obtain ⟨f', rfl⟩ : ∃ f', f = f' + 2 := ⟨f - 2, by omega⟩
  have h3 : stops 3 rest = true := stops_4_3 hst
  have h1 := opd_reads' hX hL h3 f' (by omega)
  have h2 := prefix_not f' m _ _ _ _ hm h1
  rw [List.cons_append, expr_step _ _ _ _ _ _ h2]
  exact hl _ (by omega)

theorem opd_like {La A ta aa Lp P pat ap} (hA : Opd La A ta aa) (hLa : 5 ≤ La) (hP : Opd Lp P pat ap) (hLp : 5 ≤ Lp) :
    Opd 4 (A ++ .word "LIKE".toList :: P) (.like ta pat none) false := by
  have := opd_binary 4 5 (.word "LIKE".toList) [] (fun l p => .like l p none) (fun ts => stops_word_lvl _ _ ts
    (by show 4 < bnd La; unfold bnd; split <;> omega) (by decide)) hA (by omega) hP hLp (by decide)
    (fun f m rest hm hst h => loop_like f m ta aa _ _ _ rest hm h hst)
  simpa using this

theorem loop_stop_escape (f m lhs a r) :
    pLoop (f+1) m lhs a (.word "ESCAPE".toList :: r) = some (lhs, a, .word "ESCAPE".toList :: r) := by
  simp [pLoop]

theorem opd_like_esc {La A ta aa} (s c : Str) (hA : Opd La A ta aa) (hLa : 5 ≤ La) :
    Opd 4 (A ++ [.word "LIKE".toList, .str s, .word "ESCAPE".toList, .str c]) (.like ta (.str s) (some c)) false := by
  intro m rest R N hN hm hst hl f hf
  simp only [List.length_cons, List.length_append, List.length_nil] at hf
  have key : EvL (N + 3) m ta aa (.word "LIKE".toList :: .str s :: .word "ESCAPE".toList :: .str c :: rest) R := by
    intro f hf
    obtain ⟨f', rfl⟩ : ∃ f', f = f' + 3 := ⟨f - 3, by omega⟩
    have h1 : pExpr (f'+2) 5 (.str s :: .word "ESCAPE".toList :: .str c :: rest)
        = some (.str s, true, .word "ESCAPE".toList :: .str c :: rest) := by
      rw [expr_step _ _ _ _ _ _ (prefix_str _ _ _ _), loop_stop_escape]
    rw [loop_like_esc _ m ta aa _ _ _ c rest hm h1 (cmpHead_of_stops4 hst)]
    exact hl _ (by omega)
  have := hA m _ R (N + 3) (by omega) (by omega) (stops_word_lvl _ _ _
    (by show 4 < bnd La; unfold bnd; split <;> omega) (by decide)) key f (by omega)
  simpa using this

theorem opd_in {La A ta aa} (TA : List SqlTok) (items : SqlTrees) (hA : Opd La A ta aa) (hLa : 5 ≤ La)
    (hargs : ∀ rest, EvA (4 * TA.length + 3) (TA ++ .rp :: rest) (items, rest)) :
    Opd 4 (A ++ .word "IN".toList :: .lp :: (TA ++ [.rp])) (.inl ta items) false := by
  intro m rest R N hN hm hst hl f hf
  simp only [List.length_cons, List.length_append, List.length_nil] at hf
  have key : EvL (N + 4 * TA.length + 4) m ta aa (.word "IN".toList :: .lp :: (TA ++ .rp :: rest)) R := by
    intro f hf
    obtain ⟨f', rfl⟩ : ∃ f', f = f' + 1 := ⟨f - 1, by omega⟩
    rw [loop_in _ m ta aa _ _ rest hm (hargs rest f' (by omega)) (cmpHead_of_stops4 hst)]
    exact hl _ (by omega)
  have := hA m _ R _ (by omega) (by omega) (stops_word_lvl _ _ _
    (by show 4 < bnd La; unfold bnd; split <;> omega) (by decide)) key f (by omega)
  simpa using this

/-! ### argument lists -/

def joinT : List (List SqlTok) → List SqlTok
  | [] => []
  | [a] => a
  | a :: rest => a ++ .comma :: joinT rest

def ReadsL : List (List SqlTok) → SqlTrees → Prop
  | [], .nil => True
  | T :: Ts, .cons t ts => ReadsAt 0 T t ∧ ReadsL Ts ts
  | _, _ => False

theorem args_reads : ∀ (Ts : List (List SqlTok)) (trees : SqlTrees), ReadsL Ts trees →
    ∀ rest, EvA (4 * (joinT Ts).length + 3) (joinT Ts ++ .rp :: rest) (trees, rest)
  | [], .nil, _ => by
      intro rest f hf
      obtain ⟨f', rfl⟩ : ∃ f', f = f' + 1 := ⟨f - 1, by omega⟩
      simpa [joinT] using args_nil f' rest
  | [], .cons _ _, h => by simp [ReadsL] at h
  | _ :: _, .nil, h => by simp [ReadsL] at h
  | [T], .cons t .nil, h => by
      intro rest f hf
      simp only [joinT] at hf ⊢
      obtain ⟨f', rfl⟩ : ∃ f', f = f' + 1 := ⟨f - 1, by omega⟩
      obtain ⟨a, ha⟩ := h.1 (.rp :: rest) rfl
      exact args_last _ _ _ _ _ (ha f' (by omega))
  | [T], .cons t (.cons _ _), h => by simp [ReadsL] at h
  | T :: T2 :: Ts, .cons t ts, h => by
      intro rest f hf
      simp only [joinT, List.length_append, List.length_cons] at hf ⊢
      obtain ⟨f', rfl⟩ : ∃ f', f = f' + 1 := ⟨f - 1, by omega⟩
      obtain ⟨a, ha⟩ := h.1 (.comma :: (joinT (T2 :: Ts) ++ .rp :: rest)) rfl
      have ih := args_reads (T2 :: Ts) ts h.2 rest f' (by omega)
      have := args_more _ _ _ _ _ _ _ (ha f' (by omega)) ih
      simpa using this

/-! ### atoms -/

theorem atom_num (s : Str) : Atom [.num s] (.num s) := by
  intro m rest _ f hf
  obtain ⟨f', rfl⟩ : ∃ f', f = f' + 1 := ⟨f - 1, by simp at hf; omega⟩
  exact prefix_num _ _ _ _
theorem atom_str (s : Str) : Atom [.str s] (.str s) := by
  intro m rest _ f hf
  obtain ⟨f', rfl⟩ : ∃ f', f = f' + 1 := ⟨f - 1, by simp at hf; omega⟩
  exact prefix_str _ _ _ _
theorem atom_col (a : Str) : Atom [.qid a] (.col none a) := by
  intro m rest hst f hf
  obtain ⟨f', rfl⟩ : ∃ f', f = f' + 1 := ⟨f - 1, by simp at hf; omega⟩
  exact prefix_col _ _ _ _ _ hst
theorem atom_qcol (a b : Str) : Atom [.qid a, .dot, .qid b] (.col (some a) b) := by
  intro m rest _ f hf
  obtain ⟨f', rfl⟩ : ∃ f', f = f' + 1 := ⟨f - 1, by simp at hf; omega⟩
  exact prefix_qcol _ _ _ _ _
theorem atom_kw (w : Str) (hw : plainWord w = true) (hk : kwAtoms.contains (String.ofList w) = true) :
    Atom [.word w] (.kw w) := by
  intro m rest hst f hf
  obtain ⟨f', rfl⟩ : ∃ f', f = f' + 1 := ⟨f - 1, by simp at hf; omega⟩
  exact prefix_kw f' m _ rest 9 hw hk hst
theorem atom_typed (w s : Str) (hw : plainWord w = true) (hk : typedKinds.contains (String.ofList w) = true) :
    Atom [.word w, .str s] (.typed w s) := by
  intro m rest _ f hf
  obtain ⟨f', rfl⟩ : ∃ f', f = f' + 1 := ⟨f - 1, by simp at hf; omega⟩
  exact prefix_typed f' m _ _ rest hw hk
theorem atom_interval (n u : Str) : Atom [.word "INTERVAL".toList, .str n, .word u] (.interval n u) := by
  intro m rest _ f hf
  obtain ⟨f', rfl⟩ : ∃ f', f = f' + 1 := ⟨f - 1, by simp at hf; omega⟩
  exact prefix_interval _ _ _ _ _

theorem atom_call (w : Str) (hw : plainWord w = true) (Ts : List (List SqlTok)) (trees : SqlTrees)
    (h : ReadsL Ts trees) : Atom (.word w :: .lp :: (joinT Ts ++ [.rp])) (.call w trees) := by
  intro m rest _ f hf
  simp only [List.length_cons, List.length_append, List.length_nil] at hf
  obtain ⟨f', rfl⟩ : ∃ f', f = f' + 1 := ⟨f - 1, by omega⟩
  have := prefix_call f' m w _ _ _ hw (args_reads Ts trees h rest f' (by omega))
  simpa using this

theorem atom_row (Ts : List (List SqlTok)) (trees : SqlTrees) (h : ReadsL Ts trees)
    (hne : ∀ e, trees ≠ .cons e .nil) : Atom (.lp :: (joinT Ts ++ [.rp])) (.row trees) := by
  intro m rest _ f hf
  simp only [List.length_cons, List.length_append, List.length_nil] at hf
  obtain ⟨f', rfl⟩ : ∃ f', f = f' + 1 := ⟨f - 1, by omega⟩
  have := prefix_row f' m _ _ _ (args_reads Ts trees h rest f' (by omega)) hne
  simpa using this

theorem atom_cast {T t} (ty : Str) (h : ReadsAt 0 T t) :
    Atom (.word "CAST".toList :: .lp :: (T ++ [.word "AS".toList, .word ty, .rp])) (.cast t ty) := by
  intro m rest _ f hf
  simp only [List.length_cons, List.length_append, List.length_nil] at hf
  obtain ⟨f', rfl⟩ : ∃ f', f = f' + 1 := ⟨f - 1, by omega⟩
  obtain ⟨a, ha⟩ := h (.word "AS".toList :: .word ty :: .rp :: rest) (stops_word_neutral _ _ _ (by decide) (by decide))
  have := prefix_cast f' m _ _ _ _ _ (ha f' (by omega))
  simpa using this

theorem atom_extract {T t} (part : Str) (h : ReadsAt 0 T t) :
    Atom (.word "EXTRACT".toList :: .lp :: .word part :: .word "FROM".toList :: (T ++ [.rp])) (.extract part t) := by
  intro m rest _ f hf
  simp only [List.length_cons, List.length_append, List.length_nil] at hf
  obtain ⟨f', rfl⟩ : ∃ f', f = f' + 1 := ⟨f - 1, by omega⟩
  obtain ⟨a, ha⟩ := h (.rp :: rest) rfl
  have := prefix_extract f' m part _ _ _ _ (ha f' (by omega))
  simpa using this

theorem atom_position {T1 t1 T0 t0} (h1 : ReadsAt 5 T1 t1) (h0 : ReadsAt 5 T0 t0) :
    Atom (.word "POSITION".toList :: .lp :: (T1 ++ .word "IN".toList :: (T0 ++ [.rp]))) (.position t1 t0) := by
  intro m rest _ f hf
  simp only [List.length_cons, List.length_append, List.length_nil] at hf
  obtain ⟨f', rfl⟩ : ∃ f', f = f' + 1 := ⟨f - 1, by omega⟩
  obtain ⟨a1, ha1⟩ := h1 (.word "IN".toList :: (T0 ++ .rp :: rest)) (stops_word_lvl _ _ _ (by decide) (by decide))
  obtain ⟨a0, ha0⟩ := h0 (.rp :: rest) rfl
  have := prefix_position f' m _ _ _ _ _ _ _ (ha1 f' (by omega)) (ha0 f' (by omega))
  simpa using this

theorem atom_substring2 {T0 t0 T1 t1} (h0 : ReadsAt 5 T0 t0) (h1 : ReadsAt 5 T1 t1) :
    Atom (.word "SUBSTRING".toList :: .lp :: (T0 ++ .word "FROM".toList :: (T1 ++ [.rp]))) (.substring t0 t1 .none) := by
  intro m rest _ f hf
  simp only [List.length_cons, List.length_append, List.length_nil] at hf
  obtain ⟨f', rfl⟩ : ∃ f', f = f' + 1 := ⟨f - 1, by omega⟩
  obtain ⟨a0, ha0⟩ := h0 (.word "FROM".toList :: (T1 ++ .rp :: rest)) (stops_word_neutral _ _ _ (by decide) (by decide))
  obtain ⟨a1, ha1⟩ := h1 (.rp :: rest) rfl
  have := prefix_substring2 f' m _ _ _ _ _ _ _ (ha0 f' (by omega)) (ha1 f' (by omega))
  simpa using this

theorem atom_substring3 {T0 t0 T1 t1 T2 t2} (h0 : ReadsAt 5 T0 t0) (h1 : ReadsAt 5 T1 t1) (h2 : ReadsAt 5 T2 t2) :
    Atom (.word "SUBSTRING".toList :: .lp :: (T0 ++ .word "FROM".toList :: (T1 ++ .word "FOR".toList :: (T2 ++ [.rp]))))
      (.substring t0 t1 (.some t2)) := by
  intro m rest _ f hf
  simp only [List.length_cons, List.length_append, List.length_nil] at hf
  obtain ⟨f', rfl⟩ : ∃ f', f = f' + 1 := ⟨f - 1, by omega⟩
  obtain ⟨a0, ha0⟩ := h0 (.word "FROM".toList :: (T1 ++ .word "FOR".toList :: (T2 ++ .rp :: rest))) (stops_word_neutral _ _ _ (by decide) (by decide))
  obtain ⟨a1, ha1⟩ := h1 (.word "FOR".toList :: (T2 ++ .rp :: rest)) (stops_word_neutral _ _ _ (by decide) (by decide))
  obtain ⟨a2, ha2⟩ := h2 (.rp :: rest) rfl
  have := prefix_substring3 f' m _ _ _ _ _ _ _ _ _ _ (ha0 f' (by omega)) (ha1 f' (by omega)) (ha2 f' (by omega))
  simpa using this

/-! ## §3 pieces → tokens -/

@[simp] theorem pieceToks_nil : pieceToks [] = [] := rfl
@[simp] theorem pieceToks_cons (p : Piece) (ps : List Piece) : pieceToks (p :: ps) = p.toks ++ pieceToks ps := rfl
@[simp] theorem pieceToks_append (a b : List Piece) : pieceToks (a ++ b) = pieceToks a ++ pieceToks b := by
  induction a with
  | nil => rfl
  | cons p ps ih => simp [ih]
@[simp] theorem toks_tok (t : SqlTok) : (Piece.tok t).toks = [t] := rfl
@[simp] theorem toks_sq (s : Str) : (Piece.sq s).toks = [.str s] := rfl
@[simp] theorem toks_dq (s : Str) : (Piece.dq s).toks = [.qid s] := rfl
@[simp] theorem toks_raw (s : Str) : (Piece.raw s).toks = numToks s := rfl
@[simp] theorem toks_ws (s : Str) : (Piece.ws s).toks = [] := rfl
@[simp] theorem toks_w (s : String) : (w s).toks = [.word s.toList] := rfl
@[simp] theorem toks_o (s : String) : (o s).toks = [.op s.toList] := rfl
@[simp] theorem toks_sp : sp.toks = [] := rfl
@[simp] theorem toks_lp : OQ.lp.toks = [.lp] := rfl
@[simp] theorem toks_rp : OQ.rp.toks = [.rp] := rfl
@[simp] theorem toks_comma : OQ.comma.toks = [.comma] := rfl
@[simp] theorem pieceToks_parenP (ps : List Piece) : pieceToks (parenP ps) = .lp :: (pieceToks ps ++ [.rp]) := by
  simp [parenP]

theorem pieceToks_joinComma : ∀ (items : List (List Piece)), pieceToks (joinComma items) = joinT (items.map pieceToks)
  | [] => rfl
  | [a] => by simp [joinComma, joinT]
  | a :: b :: rest => by
      have ih := pieceToks_joinComma (b :: rest)
      simp only [joinComma, pieceToks_append, pieceToks_cons, toks_comma, toks_sp, ih]
      simp [joinT]

/-! ## §4 the printer side -/

/-- what is known when the parser reports a non-atomic result -/
def FlagOk (a : Bool) (t : SqlTree) (e : Expr) : Prop :=
  a = false → (isCatTree t = true → isConcatE e = true) ∧ (isArithTree t = true → isArithE e = true)

def CoreR (e : Expr) (t : SqlTree) (ps : List Piece) : Prop :=
  ∃ a, FlagOk a t e ∧ Opd (sqlPrec e) (pieceToks ps) t a

theorem core_of_atom {e t ps} (hp : sqlPrec e = 8) (h : Atom (pieceToks ps) t) : CoreR e t ps :=
  ⟨true, fun h => by simp at h, by rw [hp]; exact atom_opd h⟩

theorem sqlPrec_le (e : Expr) : sqlPrec e ≤ 8 := by
  unfold sqlPrec
  split <;> try omega
  split
  · unfold funcPrec; split
    · rename_i e' he
      have := List.find?_some he
      have hm := List.mem_of_find?_eq_some he
      revert hm; simp [funcPrecTable]; rintro (h|h|h|h|h|h) <;> subst h <;> simp
    · omega
  · omega

def wrapped (e : Expr) (parent : Nat) (oe : Bool) : Bool :=
  decide (sqlPrec e < parent) || (oe && sqlPrec e == parent)

/-- an operand as `_visit_operand` renders it -/
theorem wrap_opd {e t ps} (h : CoreR e t ps) (parent : Nat) (oe : Bool) (K : Nat) (hK8 : K ≤ 8)
    (hK : wrapped e parent oe = false → K ≤ sqlPrec e) :
    ∃ a, Opd K (pieceToks (wrapOperand e parent oe ps)) t a ∧
      (a = false → wrapped e parent oe = false ∧ FlagOk false t e) := by
  obtain ⟨a, hf, ho⟩ := h
  cases hw : wrapped e parent oe with
  | true =>
    refine ⟨true, ?_, by simp⟩
    have : wrapOperand e parent oe ps = parenP ps := by
      unfold wrapOperand; unfold wrapped at hw; rw [if_pos hw]
    rw [this, pieceToks_parenP]
    exact opd_mono (atom_opd (atom_paren ho)) hK8
  | false =>
    refine ⟨a, ?_, ?_⟩
    · have : wrapOperand e parent oe ps = ps := by
        unfold wrapOperand; unfold wrapped at hw; rw [if_neg (by simp [hw])]
      rw [this]
      exact opd_mono ho (hK hw)
    · intro ha; subst ha; exact ⟨rfl, hf⟩

/-! ### identifiers -/

theorem athenaClean_eq (s : Str) : athenaClean s = athenaName s := by
  rfl

theorem ident_core (d : Dialect) (al : Option Str) (i : Ident) :
    CoreR (.ident i) (colOf d al i.name) (identPieces d al i.name) := by
  apply core_of_atom rfl
  unfold colOf identPieces
  rw [athenaClean_eq]
  cases al with
  | none => simpa using atom_col _
  | some a =>
    by_cases ha : a.isEmpty = true
    · simpa [ha] using atom_col _
    · simpa [ha] using atom_qcol _ _

/-! ### literals -/

theorem numForm (v : Str) : (∃ t, v = '-' :: t ∧ numToks v = [.op ['-'], .num t] ∧ numOf v = .un ['-'] (.num t)) ∨
    (∃ t, v = '+' :: t ∧ numToks v = [.op ['+'], .num t] ∧ numOf v = .un ['+'] (.num t)) ∨
    (numToks v = [.num v] ∧ numOf v = .num v) := by
  cases v with
  | nil => right; right; simp [numToks, numOf]
  | cons c t =>
    by_cases h1 : c = '-'
    · subst h1; left; exact ⟨t, rfl, rfl, rfl⟩
    by_cases h2 : c = '+'
    · subst h2; right; left; exact ⟨t, rfl, rfl, rfl⟩
    right; right
    constructor
    · unfold numToks; split <;> simp_all
    · unfold numOf; split <;> simp_all

theorem num_core (k : LitKind) (v : Str) : CoreR (.lit k v) (numOf v) [.raw v] := by
  rcases numForm v with ⟨t, -, h1, h2⟩ | ⟨t, -, h1, h2⟩ | ⟨h1, h2⟩
  · refine ⟨false, fun _ => by simp [h2, isCatTree, isArithTree], ?_⟩
    simp only [pieceToks_cons, toks_raw, pieceToks_nil, List.append_nil, h1, h2]
    exact opd_neg _ (by decide) (atom_opd (atom_num t)) (by omega)
  · refine ⟨false, fun _ => by simp [h2, isCatTree, isArithTree], ?_⟩
    simp only [pieceToks_cons, toks_raw, pieceToks_nil, List.append_nil, h1, h2]
    exact opd_neg _ (by decide) (atom_opd (atom_num t)) (by omega)
  · apply core_of_atom rfl
    simp only [pieceToks_cons, toks_raw, pieceToks_nil, List.append_nil, h1, h2]
    exact atom_num v

theorem reads_str (m : Nat) (hm : m ≤ 8) (s : Str) : ReadsAt m [.str s] (.str s) :=
  opd_reads (atom_opd (atom_str s)) hm

theorem readsL_one {T t} (h : ReadsAt 0 T t) : ReadsL [T] (.cons t .nil) := ⟨h, trivial⟩
theorem readsL_two {T t T' t'} (h : ReadsAt 0 T t) (h' : ReadsAt 0 T' t') : ReadsL [T, T'] (.cons t (.cons t' .nil)) :=
  ⟨h, h', trivial⟩
theorem readsL_three {T t T' t' T'' t''} (h : ReadsAt 0 T t) (h' : ReadsAt 0 T' t') (h'' : ReadsAt 0 T'' t'') :
    ReadsL [T, T', T''] (.cons t (.cons t' (.cons t'' .nil))) :=
  ⟨h, h', h'', trivial⟩

/-- `NAME('text')` -/
theorem atom_call_str (nm : String) (hw : plainWord nm.toList = true) (v : Str) :
    Atom [.word nm.toList, .lp, .str v, .rp] (.call nm.toList (.cons (.str v) .nil)) := by
  have := atom_call nm.toList hw [[.str v]] _ (readsL_one (reads_str 0 (by omega) v))
  simpa [joinT] using this

/-! ### Boolean literals -/

def lowFn (c : Char) : Char := if 'A' ≤ c && c ≤ 'Z' then Char.ofNat (c.toNat + 32) else c

theorem lowerAscii_eq (v : Str) : lowerAscii v = v.map lowFn := rfl

def lowerLetters : List Char := "abcdefghijklmnopqrstuvwxyz".toList

theorem lower_mem (c : Char) (h : isAsciiLower c = true) : c ∈ lowerLetters := by
  simp only [isAsciiLower, Bool.and_eq_true, decide_eq_true_eq, Char.le_def, UInt32.le_iff_toNat_le] at h
  have h1 : 97 ≤ c.toNat := h.1
  have h2 : c.toNat ≤ 122 := h.2
  have key : ∀ n, n < 123 → 97 ≤ n → Char.ofNat n ∈ lowerLetters := by decide
  have := key c.toNat (by omega) h1
  rwa [Char.ofNat_toNat] at this

/-- a character that `str.upper()` maps to one of T, R, U, E is that letter in either case -/
def trueCharOk (c : Char) : Bool :=
  ['T', 'R', 'U', 'E'].all (fun x => !(pyUpperC c == x) || (pyLowerC c == asciiLower x && lowFn c == asciiLower x))

theorem trueChar (c : Char) : trueCharOk c = true := by
  by_cases hl : isAsciiLower c = true
  · have key : ∀ c ∈ lowerLetters, trueCharOk c = true := by decide
    exact key c (lower_mem c hl)
  · unfold trueCharOk pyUpperC asciiUpper
    simp only [hl]
    by_cases h1 : (c.toNat == 0x17F) = true
    · simp only [h1, if_true]; simp
    by_cases h2 : (c.toNat == 0x131) = true
    · simp only [h1, h2, if_true]; simp
    simp only [h1, h2, Bool.false_eq_true, if_false]
    simp only [List.all_cons, List.all_nil, Bool.and_true, Bool.and_eq_true, Bool.or_eq_true, Bool.not_eq_true', beq_eq_false_iff_ne, beq_iff_eq]
    refine ⟨?_, ?_, ?_, ?_⟩
    · by_cases hc : c = 'T'
      · right; subst hc; decide
      · left; exact hc
    · by_cases hc : c = 'R'
      · right; subst hc; decide
      · left; exact hc
    · by_cases hc : c = 'U'
      · right; subst hc; decide
      · left; exact hc
    · by_cases hc : c = 'E'
      · right; subst hc; decide
      · left; exact hc

theorem trueChar' (c x : Char) (hx : x ∈ ['T', 'R', 'U', 'E']) (h : pyUpperC c = x) :
    pyLowerC c = asciiLower x ∧ lowFn c = asciiLower x := by
  have := trueChar c
  simp only [trueCharOk, List.all_eq_true] at this
  have := this x hx
  simpa [h] using this

theorem bool_true (v : Str) (h : pyUpper v = "TRUE".toList) :
    lowerAscii v = "true".toList ∧ pyLower v = "true".toList := by
  rw [lowerAscii_eq]
  unfold pyUpper at h
  unfold pyLower
  match v, h with
  | [c1, c2, c3, c4], h =>
    simp at h
    obtain ⟨h1, h2, h3, h4⟩ := h
    have e1 := trueChar' c1 'T' (by decide) h1
    have e2 := trueChar' c2 'R' (by decide) h2
    have e3 := trueChar' c3 'U' (by decide) h3
    have e4 := trueChar' c4 'E' (by decide) h4
    simp [e1, e2, e3, e4]
    decide
  | [], h => simp at h
  | [_], h => simp at h
  | [_, _], h => simp at h
  | [_, _, _], h => simp at h
  | _ :: _ :: _ :: _ :: _ :: _, h => simp at h

theorem bool_false (v : Str) (h : pyUpper v = "FALSE".toList) :
    lowerAscii v ≠ "true".toList ∧ pyLower v ≠ "true".toList := by
  have hl : v.length = 5 := by
    have := congrArg List.length h
    simpa [pyUpper] using this
  constructor
  · intro h'
    have := congrArg List.length h'
    simp [lowerAscii, hl] at this
  · intro h'
    have := congrArg List.length h'
    simp [pyLower, hl] at this

/-! ### durations -/

def optL (x : Option Str) (u : String) : List (Str × String) :=
  match x with
  | some n => if n.isEmpty then [] else [(n, u)]
  | none => []

def durList (p : DurParts) : List (Str × String) :=
  optL p.years "YEAR" ++ optL p.months "MONTH" ++ optL p.days "DAY" ++ optL p.hours "HOUR"
    ++ optL p.minutes "MINUTE" ++ optL p.seconds "SECOND"

def ivP (x : Str × String) : List Piece := intervalP x.1 x.2
def ivT (x : Str × String) : SqlTree := .interval x.1 (S x.2)
def ivToks (x : Str × String) : List SqlTok := [.word "INTERVAL".toList, .str x.1, .word x.2.toList]

theorem durIntervals_eq (p : DurParts) : durIntervals p = (durList p).map ivT := by
  simp only [durIntervals, durList, List.map_append]
  congr 1; congr 1; congr 1; congr 1; congr 1
  all_goals (split <;> simp only [optL, *] <;> (try split) <;> simp_all [ivT])

def sgP (s : Option Char) : List Piece :=
  match s with
  | some c => [.tok (.op [c])]
  | none => []

def durOut (s : Option Char) (ivs : List (List Piece)) : Outcome (List Piece) :=
  match ivs with
  | [] => .lib .value
  | [one] => .ok (sgP s ++ one)
  | ivs => .ok (sgP s ++ parenP (joinPlus ivs))

theorem durationPieces_eq (isD : Char → Bool) (v : Str) (p : DurParts) (h : durUnpack isD v = some p) :
    durationPieces isD v = durOut p.sign ((durList p).map ivP) := by
  simp only [durationPieces, h]
  generalize hL : (_ ++ _ ++ _ ++ _ ++ _ ++ _ : List (List Piece)) = L
  have hL' : L = (durList p).map ivP := by
    rw [← hL]
    simp only [durList, List.map_append]
    congr 1; congr 1; congr 1; congr 1; congr 1
    all_goals (split <;> simp only [optL, *] <;> (try split) <;> simp_all [ivP])
  rw [← hL']
  match L with
  | [] => rfl
  | [a] => cases p.sign <;> rfl
  | a :: b :: c => cases p.sign <;> rfl

theorem durUnpack_sign (isD : Char → Bool) (v : Str) (p : DurParts) (h : durUnpack isD v = some p) :
    p.sign = none ∨ p.sign = some '+' ∨ p.sign = some '-' := by
  unfold durUnpack at h
  split at h
  rename_i sg r hsg
  have hs : sg = none ∨ sg = some '+' ∨ sg = some '-' := by
    split at hsg <;> simp at hsg <;> simp [← hsg.1]
  repeat' (split at h)
  all_goals first | (injection h with h; subst h; exact hs) | (simp at h)

@[simp] theorem pieceToks_ivP (x : Str × String) : pieceToks (ivP x) = ivToks x := rfl

theorem atom_iv (x : Str × String) : Atom (ivToks x) (ivT x) := atom_interval _ _

theorem pieceToks_joinPlus : ∀ (x : Str × String) (xs : List (Str × String)),
    pieceToks (joinPlus ((x :: xs).map ivP)) = ivToks x ++ xs.flatMap (fun y => .op ['+'] :: ivToks y)
  | x, [] => by simp [joinPlus]
  | x, y :: ys => by
      have ih := pieceToks_joinPlus y ys
      simp only [List.map_cons] at ih ⊢
      simp only [joinPlus, pieceToks_append, pieceToks_cons, ih, pieceToks_ivP, toks_sp, toks_o]
      simp

theorem sum_opd : ∀ (xs : List (Str × String)) (A : List SqlTok) (ta : SqlTree) (aa : Bool) (La : Nat),
    Opd La A ta aa → 5 ≤ La → (aa || !isCatTree ta) = true →
    ∃ a, Opd 5 (A ++ xs.flatMap (fun y => .op ['+'] :: ivToks y)) (sumTrees ta (xs.map ivT)) a
  | [], A, ta, aa, La, h, hL, _ => ⟨aa, by simpa [sumTrees] using opd_mono h hL⟩
  | x :: xs, A, ta, aa, La, h, hL, hf => by
      have h1 := opd_add ['+'] (by decide) (by decide) h hL (atom_opd (atom_iv x)) (by omega)
        (by simpa [mixOk, isCatOp] using hf) (by simp [mixOk])
      obtain ⟨a, ha⟩ := sum_opd xs _ _ false 5 h1 (Nat.le_refl 5) (by simp [isCatTree, isCatOp])
      exact ⟨a, by simpa [sumTrees] using ha⟩

theorem duration_core (isD : Char → Bool) (d : Dialect) (v : Str) (t : SqlTree) (ps : List Piece)
    (hm : litMirror isD d .duration v = some t) (hv : durationPieces isD v = .ok ps) :
    CoreR (.lit .duration v) t ps := by
  simp only [litMirror] at hm
  cases hu : durUnpack isD v with
  | none => simp [hu] at hm
  | some p =>
    rw [durationPieces_eq isD v p hu] at hv
    simp only [hu, durIntervals_eq] at hm
    have hsign := durUnpack_sign isD v p hu
    -- the body without the sign
    have body : ∃ (B : List Piece) (tb : SqlTree),
        ps = sgP p.sign ++ B ∧
        t = (match p.sign with | some c => .un [c] tb | none => tb) ∧ Atom (pieceToks B) tb := by
      cases hl : durList p with
      | nil => simp [hl] at hm
      | cons x xs =>
        cases xs with
        | nil =>
          simp only [hl, List.map_cons, List.map_nil, sumTrees] at hm hv
          refine ⟨ivP x, ivT x, ?_, ?_, atom_iv x⟩
          · simpa [durOut] using hv.symm
          · cases hs : p.sign <;> simp [hs] at hm ⊢ <;> exact hm.symm
        | cons y ys =>
          simp only [hl, List.map_cons] at hm hv
          refine ⟨parenP (joinPlus ((x :: y :: ys).map ivP)), sumTrees (ivT x) ((y :: ys).map ivT), ?_, ?_, ?_⟩
          · simpa [durOut] using hv.symm
          · cases hs : p.sign <;> simp [hs] at hm ⊢ <;> exact hm.symm
          · rw [pieceToks_parenP, pieceToks_joinPlus]
            obtain ⟨a, ha⟩ := sum_opd (y :: ys) _ _ true 8 (atom_opd (atom_iv x)) (by omega) rfl
            exact atom_paren ha
    obtain ⟨B, tb, hps, ht, hB⟩ := body
    rcases hsign with hs | hs | hs
    · rw [hs] at hps ht; subst hps ht
      exact core_of_atom rfl (by simpa [sgP] using hB)
    · rw [hs] at hps ht; subst hps ht
      refine ⟨false, fun _ => by simp [isCatTree, isArithTree], ?_⟩
      simpa [sgP, sqlPrec] using opd_neg ['+'] (by decide) (atom_opd hB) (by omega)
    · rw [hs] at hps ht; subst hps ht
      refine ⟨false, fun _ => by simp [isCatTree, isArithTree], ?_⟩
      simpa [sgP, sqlPrec] using opd_neg ['-'] (by decide) (atom_opd hB) (by omega)

theorem lit_core (isD : Char → Bool) (d : Dialect) (k : LitKind) (v : Str) (t : SqlTree) (ps : List Piece)
    (hl : litTextOk isD k v = true)
    (hm : litMirror isD d k v = some t) (hv : litPieces isD d k v = .ok ps) : CoreR (.lit k v) t ps := by
  cases k with
  | null =>
    simp [litMirror, litPieces] at hm hv; subst hm hv
    exact core_of_atom rfl atom_kw_null
  | int =>
    simp [litMirror, litPieces] at hm hv; subst hm hv
    exact num_core _ v
  | float =>
    simp [litMirror, litPieces] at hm hv; subst hm hv
    exact num_core _ v
  | bool =>
    simp only [litTextOk, boolText, Bool.or_eq_true, beq_iff_eq] at hl
    have hcond : (pyLower v == "true".toList) = (lowerAscii v == S "true") ∧
        pyUpper v = (if (lowerAscii v == S "true") = true then S "TRUE" else S "FALSE") := by
      rcases hl with hl | hl
      · have := bool_true v hl
        simp [this.1, this.2, hl, S]
      · have := bool_false v hl
        have h1 : (pyLower v == "true".toList) = false := by simpa using this.2
        have h2 : (lowerAscii v == S "true") = false := by simpa [S] using this.1
        rw [h1, h2]; simp [hl, S]
    simp only [litMirror, litPieces] at hm hv
    by_cases hd : d = .sqlite
    · simp only [hd, if_true, Option.some.injEq, Outcome.ok.injEq] at hm hv; subst hm hv
      apply core_of_atom rfl
      rw [hcond.1]
      exact atom_num _
    · simp only [hd, if_false, Option.some.injEq, Outcome.ok.injEq] at hm hv; subst hm hv
      apply core_of_atom rfl
      rw [hcond.2]
      split
      · exact atom_kw _ (by decide) (by decide)
      · exact atom_kw _ (by decide) (by decide)
  | str =>
    simp [litMirror, litPieces] at hm hv; subst hm hv
    exact core_of_atom rfl (atom_str v)
  | geo => simp [litMirror] at hm
  | date =>
    simp only [litMirror, litPieces] at hm hv
    by_cases hd : d = .sqlite
    · simp only [hd, if_true, Option.some.injEq, Outcome.ok.injEq] at hm hv; subst hm hv
      exact core_of_atom rfl (atom_call_str "DATE" (by decide) v)
    · simp only [hd, if_false, Option.some.injEq, Outcome.ok.injEq] at hm hv; subst hm hv
      exact core_of_atom rfl (atom_typed _ v (by decide) (by decide))
  | time =>
    simp only [litMirror, litPieces] at hm hv
    by_cases hd : d = .sqlite
    · simp only [hd, if_true, Option.some.injEq, Outcome.ok.injEq] at hm hv; subst hm hv
      exact core_of_atom rfl (atom_call_str "TIME" (by decide) v)
    · simp only [hd, if_false, Option.some.injEq, Outcome.ok.injEq] at hm hv; subst hm hv
      exact core_of_atom rfl (atom_typed _ v (by decide) (by decide))
  | datetime =>
    simp only [litMirror, litPieces] at hm hv
    cases d with
    | std =>
      simp only [Option.some.injEq, Outcome.ok.injEq] at hm hv; subst hm hv
      exact core_of_atom rfl (atom_typed _ _ (by decide) (by decide))
    | sqlite =>
      simp only [Option.some.injEq, Outcome.ok.injEq] at hm hv; subst hm hv
      exact core_of_atom rfl (atom_call_str "DATETIME" (by decide) v)
    | athena =>
      simp only [Option.some.injEq, Outcome.ok.injEq] at hm hv; subst hm hv
      exact core_of_atom rfl (atom_call_str "FROM_ISO8601_TIMESTAMP" (by decide) v)
  | duration => exact duration_core isD d v t ps hm hv
  | guid =>
    simp [litMirror, litPieces] at hm hv; subst hm hv
    exact core_of_atom rfl (atom_str v)

/-! ### operators -/

theorem ofList_eq {s : Str} {n : String} (h : String.ofList s = n) : s = n.toList := by
  have := congrArg String.toList h
  simpa using this

theorem prec_of_concat {e : Expr} (h : isConcatE e = true) : sqlPrec e = 5 := by
  cases e <;> simp [isConcatE, isBuiltin] at h
  rename_i f args
  obtain ⟨h1, h2⟩ := h
  have := ofList_eq h2
  simp only [sqlPrec, List.isEmpty_iff.mpr h1, if_true, this]
  decide

theorem prec_of_arith {e : Expr} (h : isArithE e = true) : sqlPrec e = 5 ∨ sqlPrec e = 6 := by
  cases e <;> simp [isArithE, isBinopE, isBuiltin] at h
  · rename_i op l r; cases op <;> simp [sqlPrec]
  · rename_i f args
    obtain ⟨h1, h2⟩ := h
    have := ofList_eq h2
    simp only [sqlPrec, List.isEmpty_iff.mpr h1, if_true, this]
    left; decide

theorem wrapped_false_lt {e : Expr} {parent : Nat} (h : wrapped e parent false = false) : parent ≤ sqlPrec e := by
  simp [wrapped] at h; exact h
theorem wrapped_false_le {e : Expr} {parent : Nat} (h : wrapped e parent true = false) : parent < sqlPrec e := by
  simp [wrapped] at h; omega

theorem flag_un (s : Str) (t : SqlTree) (e : Expr) : FlagOk false (.un s t) e :=
  fun _ => by simp [isCatTree, isArithTree]

theorem core_unary (op : UnOp) (e : Expr) (te : SqlTree) (es : List Piece) (he : CoreR e te es) :
    CoreR (.unary op e) (.un (if op == .not_ then S "NOT" else S "-") te)
      ((if op == .not_ then w "NOT" else o "-") :: sp :: wrapOperand e (sqlPrec (.unary op e)) false es) := by
  cases op with
  | not_ =>
    obtain ⟨a, ha, -⟩ := wrap_opd he 3 false 3 (by omega) wrapped_false_lt
    exact ⟨false, flag_un _ _ _, by simpa [sqlPrec, S] using opd_not ha (Nat.le_refl 3)⟩
  | neg =>
    obtain ⟨a, ha, -⟩ := wrap_opd he 7 false 7 (by omega) wrapped_false_lt
    refine ⟨false, flag_un _ _ _, ?_⟩
    have := opd_mono (opd_neg ['-'] (by decide) ha (Nat.le_refl 7)) (show 7 ≤ 8 by omega)
    simpa [sqlPrec, S] using this

theorem cat_flag {e : Expr} {t : SqlTree} {a : Bool} {parent : Nat} {oe : Bool}
    (h : a = false → wrapped e parent oe = false ∧ FlagOk false t e)
    (hp : wrapped e parent oe = false → sqlPrec e ≠ 5) : (a || !isCatTree t) = true := by
  cases a with
  | true => rfl
  | false =>
    obtain ⟨hw, hf⟩ := h rfl
    cases hc : isCatTree t with
    | false => rfl
    | true => exact absurd (prec_of_concat ((hf rfl).1 hc)) (hp hw)

theorem core_binop (op : ArithOp) (l r : Expr) (tl tr : SqlTree) (ls rs : List Piece)
    (hl : CoreR l tl ls) (hr : CoreR r tr rs)
    (hs : (!(isConcatE l && (op == .add || op == .sub))) = true) :
    CoreR (.binop op l r) (.bin (arithName op) tl tr)
      (wrapOperand l (sqlPrec (.binop op l r)) false ls ++ sp :: o (arithSym op) :: sp ::
        wrapOperand r (sqlPrec (.binop op l r)) true rs) := by
  have hflag : FlagOk false (.bin (arithName op) tl tr) (.binop op l r) :=
    fun _ => ⟨by cases op <;> simp [isCatTree, arithName, S, isCatOp], fun _ => by simp [isArithE, isBinopE]⟩
  refine ⟨false, hflag, ?_⟩
  have hadd : ∀ s : Str, (isAddOp s = true) → sqlPrec (.binop op l r) = 5 → (op == .add || op == .sub) = true →
      Opd 5 (pieceToks (wrapOperand l 5 false ls) ++ .op s :: pieceToks (wrapOperand r 5 true rs)) (.bin s tl tr) false := by
    intro s hs' _ hop
    obtain ⟨al, hal, hfl⟩ := wrap_opd hl 5 false 5 (by omega) wrapped_false_lt
    obtain ⟨ar, har, hfr⟩ := wrap_opd hr 5 true 6 (by omega) (fun h => wrapped_false_le h)
    have hcs : isCatOp s = false := by
      simp [isAddOp] at hs'; rcases hs' with h | h <;> subst h <;> decide
    have hcm : isCmpOp s = false := by
      simp [isAddOp] at hs'; rcases hs' with h | h <;> subst h <;> decide
    refine opd_add s hcm (by simp [hs']) hal (Nat.le_refl 5) har (Nat.le_refl 6) ?_ ?_
    · simp only [mixOk, hcs, Bool.false_eq_true, if_false]
      cases al with
      | true => rfl
      | false =>
        obtain ⟨_, hf⟩ := hfl rfl
        cases hc : isCatTree tl with
        | false => rfl
        | true =>
          have := (hf rfl).1 hc
          simp [this, hop] at hs
    · simp only [mixOk, hcs, Bool.false_eq_true, if_false]
      exact cat_flag hfr (fun h => by have := wrapped_false_le h; omega)
  have hmul : ∀ s : Str, (isMulOp s = true) → sqlPrec (.binop op l r) = 6 →
      Opd 6 (pieceToks (wrapOperand l 6 false ls) ++ .op s :: pieceToks (wrapOperand r 6 true rs)) (.bin s tl tr) false := by
    intro s hs' _
    obtain ⟨al, hal, hfl⟩ := wrap_opd hl 6 false 6 (by omega) wrapped_false_lt
    obtain ⟨ar, har, hfr⟩ := wrap_opd hr 6 true 7 (by omega) (fun h => wrapped_false_le h)
    have hcs : (isAddOp s || isCatOp s) = false := by
      simp [isMulOp] at hs'; rcases hs' with (h | h) | h <;> subst h <;> decide
    have hcm : isCmpOp s = false := by
      simp [isMulOp] at hs'; rcases hs' with (h | h) | h <;> subst h <;> decide
    exact opd_mul s hcm hcs hs' hal (Nat.le_refl 6) har (Nat.le_refl 7)
      (cat_flag hfl (fun h => by have := wrapped_false_lt h; omega))
      (cat_flag hfr (fun h => by have := wrapped_false_le h; omega))
  cases op with
  | add => simpa [sqlPrec, arithSym, arithName, S] using hadd ['+'] (by decide) rfl rfl
  | sub => simpa [sqlPrec, arithSym, arithName, S] using hadd ['-'] (by decide) rfl rfl
  | mul => simpa [sqlPrec, arithSym, arithName, S] using hmul ['*'] (by decide) rfl
  | div => simpa [sqlPrec, arithSym, arithName, S] using hmul ['/'] (by decide) rfl
  | mod => simpa [sqlPrec, arithSym, arithName, S] using hmul ['%'] (by decide) rfl

theorem flag_notbin_like (l p : SqlTree) (c : Option Str) (e : Expr) : FlagOk false (.like l p c) e :=
  fun _ => by simp [isCatTree, isArithTree]
theorem flag_inl (l : SqlTree) (xs : SqlTrees) (e : Expr) : FlagOk false (.inl l xs) e :=
  fun _ => by simp [isCatTree, isArithTree]
theorem flag_bin (s : Str) (l r : SqlTree) (e : Expr) (h1 : isCatOp s = false) (h2 : isAddOp s = false)
    (h3 : isMulOp s = false) : FlagOk false (.bin s l r) e :=
  fun _ => by simp [isCatTree, isArithTree, h1, h2, h3]

/-- the left operand of a comparison-level operator -/
theorem cmp_left {l tl ls} (hl : CoreR l tl ls) : ∃ a, Opd 5 (pieceToks (wrapOperand l 4 true ls)) tl a := by
  obtain ⟨a, ha, -⟩ := wrap_opd hl 4 true 5 (by omega) (fun h => wrapped_false_le h)
  exact ⟨a, ha⟩

theorem core_compare (op : CmpOp) (hop : op ≠ .in_) (l r : Expr) (tl tr : SqlTree) (ls rs : List Piece)
    (hl : CoreR l tl ls) (hr : CoreR r tr rs) (hn : isNullLit r = false ∨ (op ≠ .eq ∧ op ≠ .ne)) :
    CoreR (.compare op l r) (.bin (cmpName op) tl tr)
      (wrapOperand l 4 true ls ++ sp :: cmpPieces op r ++ sp :: wrapOperand r 4 true rs) := by
  obtain ⟨al, hal⟩ := cmp_left hl
  obtain ⟨ar, har⟩ := cmp_left hr
  have hcp : cmpPieces op r = cmpSym op := by
    unfold cmpPieces
    rcases hn with hn | hn
    · simp [hn]
    · have h1 : (op == .eq) = false := by simpa using hn.1
      have h2 : (op == .ne) = false := by simpa using hn.2
      simp [h1, h2]
  rw [hcp]
  have key : ∀ s : Str, isCmpOp s = true → isCatOp s = false → isAddOp s = false → isMulOp s = false →
      CoreR (.compare op l r) (.bin s tl tr) (wrapOperand l 4 true ls ++ sp :: [Piece.tok (.op s)] ++ sp :: wrapOperand r 4 true rs) := by
    intro s h0 h1 h2 h3
    refine ⟨false, flag_bin s _ _ _ h1 h2 h3, ?_⟩
    simpa [sqlPrec] using opd_cmp s h0 hal (Nat.le_refl 5) har (Nat.le_refl 5)
  cases op with
  | in_ => exact absurd rfl hop
  | eq => exact key ['='] (by decide) (by decide) (by decide) (by decide)
  | ne => exact key ['!', '='] (by decide) (by decide) (by decide) (by decide)
  | lt => exact key ['<'] (by decide) (by decide) (by decide) (by decide)
  | le => exact key ['<', '='] (by decide) (by decide) (by decide) (by decide)
  | gt => exact key ['>'] (by decide) (by decide) (by decide) (by decide)
  | ge => exact key ['>', '='] (by decide) (by decide) (by decide) (by decide)

theorem core_is_null (l : Expr) (v : Str) (tl : SqlTree) (ls : List Piece) (hl : CoreR l tl ls) :
    CoreR (.compare .eq l (.lit .null v)) (.bin (S "IS") tl (.kw (S "NULL")))
      (wrapOperand l 4 true ls ++ sp :: cmpPieces .eq (.lit .null v) ++ sp :: wrapOperand (.lit .null v) 4 true [w "NULL"]) := by
  obtain ⟨al, hal⟩ := cmp_left hl
  refine ⟨false, flag_bin _ _ _ _ (by decide) (by decide) (by decide), ?_⟩
  simpa [sqlPrec, cmpPieces, isNullLit, wrapOperand, S] using opd_is_null hal (Nat.le_refl 5)

theorem core_isnot_null (l : Expr) (v : Str) (tl : SqlTree) (ls : List Piece) (hl : CoreR l tl ls) :
    CoreR (.compare .ne l (.lit .null v)) (.bin (S "ISNOT") tl (.kw (S "NULL")))
      (wrapOperand l 4 true ls ++ sp :: cmpPieces .ne (.lit .null v) ++ sp :: wrapOperand (.lit .null v) 4 true [w "NULL"]) := by
  obtain ⟨al, hal⟩ := cmp_left hl
  refine ⟨false, flag_bin _ _ _ _ (by decide) (by decide) (by decide), ?_⟩
  simpa [sqlPrec, cmpPieces, isNullLit, wrapOperand, S] using opd_isnot_null hal (Nat.le_refl 5)

/-- `null eq x`: the visitor swaps the operands, the text is `x IS NULL` -/
theorem core_is_null_swap (r : Expr) (v : Str) (tr : SqlTree) (rs : List Piece) (hr : CoreR r tr rs) :
    CoreR (.compare .eq (.lit .null v) r) (.bin (S "IS") tr (.kw (S "NULL")))
      (wrapOperand r 4 true rs ++ sp :: cmpPieces .eq (.lit .null v) ++ sp :: wrapOperand (.lit .null v) 4 true [w "NULL"]) := by
  obtain ⟨ar, har⟩ := cmp_left hr
  refine ⟨false, flag_bin _ _ _ _ (by decide) (by decide) (by decide), ?_⟩
  simpa [sqlPrec, cmpPieces, isNullLit, wrapOperand, S] using opd_is_null har (Nat.le_refl 5)

theorem core_isnot_null_swap (r : Expr) (v : Str) (tr : SqlTree) (rs : List Piece) (hr : CoreR r tr rs) :
    CoreR (.compare .ne (.lit .null v) r) (.bin (S "ISNOT") tr (.kw (S "NULL")))
      (wrapOperand r 4 true rs ++ sp :: cmpPieces .ne (.lit .null v) ++ sp :: wrapOperand (.lit .null v) 4 true [w "NULL"]) := by
  obtain ⟨ar, har⟩ := cmp_left hr
  refine ⟨false, flag_bin _ _ _ _ (by decide) (by decide) (by decide), ?_⟩
  simpa [sqlPrec, cmpPieces, isNullLit, wrapOperand, S] using opd_isnot_null har (Nat.le_refl 5)

/-! ### lists -/

def CoreRL : Exprs → SqlTrees → List (List Piece) → Prop
  | .nil, .nil, [] => True
  | .cons h t, .cons h' t', p :: ps => CoreR h h' p ∧ CoreRL t t' ps
  | _, _, _ => False

theorem core_reads0 {e t ps} (h : CoreR e t ps) : ReadsAt 0 (pieceToks ps) t := by
  obtain ⟨a, -, ha⟩ := h
  exact opd_reads ha (Nat.zero_le _)

theorem readsL_of_core : ∀ (xs : Exprs) (ts : SqlTrees) (items : List (List Piece)), CoreRL xs ts items →
    ReadsL (items.map pieceToks) ts
  | .nil, .nil, [], _ => trivial
  | .cons h t, .cons h' t', p :: ps, hc => ⟨core_reads0 hc.1, readsL_of_core t t' ps hc.2⟩
  | .nil, .nil, _ :: _, hc => by simp [CoreRL] at hc
  | .nil, .cons _ _, _, hc => by simp [CoreRL] at hc
  | .cons _ _, .nil, _, hc => by simp [CoreRL] at hc
  | .cons _ _, .cons _ _, [], hc => by simp [CoreRL] at hc

theorem core_in (l : Expr) (xs : Exprs) (tl : SqlTree) (ts : SqlTrees) (ls : List Piece) (items : List (List Piece))
    (hl : CoreR l tl ls) (hxs : CoreRL xs ts items) :
    CoreR (.compare .in_ l (.list xs)) (.inl tl ts)
      (wrapOperand l 4 true ls ++ sp :: cmpPieces .in_ (.list xs) ++ sp ::
        wrapOperand (.list xs) 4 true (parenP (joinComma items))) := by
  obtain ⟨al, hal⟩ := cmp_left hl
  refine ⟨false, flag_inl _ _ _, ?_⟩
  have := opd_in (joinT (items.map pieceToks)) ts hal (Nat.le_refl 5) (args_reads _ _ (readsL_of_core xs ts items hxs))
  simpa [sqlPrec, cmpPieces, isNullLit, wrapOperand, cmpSym, pieceToks_joinComma] using this

theorem core_list_one (a : Expr) (ta : SqlTree) (as : List Piece) (ha : CoreR a ta as) :
    CoreR (.list (.cons a .nil)) ta (parenP (joinComma [as])) := by
  obtain ⟨f, -, hf⟩ := ha
  apply core_of_atom rfl
  simpa [joinComma] using atom_paren hf

theorem core_list_row (xs : Exprs) (ts : SqlTrees) (items : List (List Piece)) (hxs : CoreRL xs ts items)
    (hne : ∀ e, ts ≠ .cons e .nil) : CoreR (.list xs) (.row ts) (parenP (joinComma items)) := by
  apply core_of_atom rfl
  simpa [pieceToks_joinComma] using atom_row _ ts (readsL_of_core xs ts items hxs) hne

/-! ### and / or -/

theorem funcPrec_ge (n : Str) : 4 ≤ funcPrec n := by
  unfold funcPrec; split
  · rename_i e' he
    have hm := List.mem_of_find?_eq_some he
    revert hm; simp [funcPrecTable]; rintro (h|h|h|h|h|h) <;> subst h <;> simp
  · omega

theorem prec_ge3_of_not_bool {e : Expr} (h : isBoolOp e = none) : 3 ≤ sqlPrec e := by
  cases e with
  | boolop op l r => simp [isBoolOp] at h
  | unary op e => cases op <;> simp [sqlPrec]
  | binop op l r => cases op <;> simp [sqlPrec]
  | call f args =>
    simp only [sqlPrec]; split
    · have := funcPrec_ge (pyLower f.name); omega
    · omega
  | _ => simp [sqlPrec]

theorem core_boolop (op : BoolOp) (l r : Expr) (tl tr : SqlTree) (ls rs : List Piece)
    (hl : CoreR l tl ls) (hr : CoreR r tr rs) :
    CoreR (.boolop op l r) (.bin (if op == .and_ then S "AND" else S "OR") tl tr)
      (boolWrapL op l ls ++ sp :: w (if op == .and_ then "AND" else "OR") :: sp :: boolWrapR r rs) := by
  obtain ⟨al, -, hal⟩ := hl
  obtain ⟨ar, -, har⟩ := hr
  -- right operand: readable at level 3
  have hR : ∃ a, Opd 3 (pieceToks (boolWrapR r rs)) tr a := by
    unfold boolWrapR
    cases hb : isBoolOp r with
    | none => exact ⟨ar, by simpa using opd_mono har (prec_ge3_of_not_bool hb)⟩
    | some ro => exact ⟨true, by simpa using opd_mono (atom_opd (atom_paren har)) (by omega)⟩
  -- left operand: readable at the level of the operator
  have hL : ∃ a, Opd (sqlPrec (.boolop op l r)) (pieceToks (boolWrapL op l ls)) tl a := by
    unfold boolWrapL
    cases hb : isBoolOp l with
    | none =>
      refine ⟨al, ?_⟩
      have h3 := prec_ge3_of_not_bool hb
      have : sqlPrec (.boolop op l r) ≤ 3 := by cases op <;> simp [sqlPrec]
      simpa using opd_mono hal (by omega)
    | some lo =>
      by_cases hlo : lo = op
      · refine ⟨al, ?_⟩
        have : sqlPrec l = sqlPrec (.boolop op l r) := by
          cases l <;> simp [isBoolOp] at hb
          rename_i lo' l1 l2
          subst hb; subst hlo; cases lo' <;> simp [sqlPrec]
        simpa [hlo, this] using hal
      · refine ⟨true, ?_⟩
        have h8 := sqlPrec_le (.boolop op l r)
        simpa [hlo] using opd_mono (atom_opd (atom_paren hal)) h8
  obtain ⟨a1, h1⟩ := hL
  obtain ⟨a2, h2⟩ := hR
  cases op with
  | and_ =>
    refine ⟨false, flag_bin _ _ _ _ (by decide) (by decide) (by decide), ?_⟩
    simpa [sqlPrec, S] using opd_and h1 (by simp [sqlPrec]) h2 (Nat.le_refl 3)
  | or_ =>
    refine ⟨false, flag_bin _ _ _ _ (by decide) (by decide) (by decide), ?_⟩
    simpa [sqlPrec, S] using opd_or h1 (by simp [sqlPrec]) (opd_mono h2 (show 2 ≤ 3 by omega)) (Nat.le_refl 2)

/-! ## §5 function templates

`Spec.mirrorCall` is part of a structurally recursive mutual block for which Lean cannot generate
unfolding equations; `mirrorCall'` is a verbatim, non-recursive copy of its body (the recursive calls
replaced by `Spec.mirror`), definitionally equal to it on every shape of argument list. -/

def mirrorCall' (isDigit : Char → Bool) (d : Dialect) (alias : Option Str) (name : String) (args : Exprs) : Option SqlTree :=
  let like2 (pre suf : Str) : Option SqlTree :=
    match args with
    | .cons a0 (.cons a1 .nil) =>
        if strOverload [inferType a0, inferType a1] then do
          let t0 ← mirror isDigit d alias a0
          let t1 ← mirror isDigit d alias a1
          let (pat, esc) := patternOf a1 t1 pre suf
          pure (.like t0 pat esc)
        else none
    | _ => none
  let unary (k : SqlTree → Option SqlTree) : Option SqlTree :=
    match args with
    | .cons a .nil => (mirror isDigit d alias a).bind k
    | _ => none
  let part (p : String) (fmt : String) : Option SqlTree :=
    unary (fun t =>
      if d = .sqlite then some (.cast (.call (S "STRFTIME") (two (.str (S fmt)) t)) (S "INTEGER"))
      else some (.extract (S p) t))
  match name with
  | "concat" =>
      match args with
      | .cons a0 (.cons a1 .nil) => do
          let t0 ← mirror isDigit d alias a0
          let t1 ← mirror isDigit d alias a1
          pure (.bin (S "||") t0 t1)
      | _ => none
  | "contains" => like2 ['%'] ['%']
  | "startswith" => like2 [] ['%']
  | "endswith" => like2 ['%'] []
  | "indexof" =>
      match args with
      | .cons a0 (.cons a1 .nil) =>
          if strOverload [inferType a0, inferType a1] then do
            let t0 ← mirror isDigit d alias a0
            let t1 ← mirror isDigit d alias a1
            if d = .sqlite then pure (.bin (S "-") (.call (S "INSTR") (two t0 t1)) (.num ['1']))
            else pure (.bin (S "-") (.position t1 t0) (.num ['1']))
          else none
      | _ => none
  | "length" =>
      match args with
      | .cons a .nil => do
          let t ← mirror isDigit d alias a
          let ty := inferType a
          if d = .sqlite then pure (.call (S "LENGTH") (one t))
          else if isStrTy ty || ty == none then pure (.call (S (if d = .athena then "LENGTH" else "CHAR_LENGTH")) (one t))
          else if isListTy ty then pure (.call (S "CARDINALITY") (one t))
          else none
      | _ => none
  | "substring" =>
      match args with
      | .cons a0 (.cons a1 rest) =>
          let ty := inferType a0
          if isStrTy ty || ty == none then do
            let t0 ← mirror isDigit d alias a0
            let t1 ← mirror isDigit d alias a1
            let start := SqlTree.bin (S "+") t1 (.num ['1'])
            match rest with
            | .nil => if d = .std then pure (.substring t0 start .none) else pure (.call (S "SUBSTR") (two t0 start))
            | .cons a2 .nil => do
                let t2 ← mirror isDigit d alias a2
                if d = .std then pure (.substring t0 start (.some t2)) else pure (.call (S "SUBSTR") (three t0 start t2))
            | _ => none
          else if isListTy ty && d = .athena then do
            let t0 ← mirror isDigit d alias a0
            let t1 ← mirror isDigit d alias a1
            match rest with
            | .nil => pure (.call (S "SLICE") (two t0 t1))
            | .cons a2 .nil => do
                let t2 ← mirror isDigit d alias a2
                pure (.call (S "SLICE") (three t0 t1 t2))
            | _ => none
          else none
      | _ => none
  | "tolower" => unary (fun t => some (.call (S "LOWER") (one t)))
  | "toupper" => unary (fun t => some (.call (S "UPPER") (one t)))
  | "trim" => unary (fun t => some (.call (S "TRIM") (one t)))
  | "year" => part "YEAR" "%Y"
  | "month" => part "MONTH" "%m"
  | "day" => part "DAY" "%d"
  | "hour" => part "HOUR" "%H"
  | "minute" => part "MINUTE" "%M"
  | "date" => unary (fun t => if d = .sqlite then some (.call (S "DATE") (one t)) else some (.cast t (S "DATE")))
  | "now" =>
      match args with
      | .nil => if d = .sqlite then some (.call (S "DATETIME") (one (.str (S "now")))) else some (.kw (S "CURRENT_TIMESTAMP"))
      | _ => none
  | "round" =>
      unary (fun t =>
        match d with
        | .std => some (.cast (.bin (S "+") t (.num (S "0.5"))) (S "INTEGER"))
        | .sqlite => some (.call (S "TRUNC") (one (.bin (S "+") t (.num (S "0.5")))))
        | .athena => some (.call (S "ROUND") (one t)))
  | "floor" => unary (fun t => some (.call (S "FLOOR") (one t)))
  | "ceiling" => unary (fun t => some (.call (S "CEILING") (one t)))
  | "hassubset" =>
      if d = .athena then
        match args with
        | .cons a0 (.cons a1 .nil) => do
            let t0 ← mirror isDigit d alias a0
            let t1 ← mirror isDigit d alias a1
            pure (.bin (S "=") (.call (S "CARDINALITY") (one (.call (S "ARRAY_INTERSECT") (two t0 t1))))
                               (.call (S "CARDINALITY") (one t1)))
        | _ => none
      else none
  | _ => none

theorem mirrorCall_eq (isD : Char → Bool) (d : Dialect) (al : Option Str) (name : String) :
    ∀ args : Exprs, mirrorCall isD d al name args = mirrorCall' isD d al name args
  | .nil => rfl
  | .cons _ .nil => rfl
  | .cons _ (.cons _ .nil) => rfl
  | .cons _ (.cons _ (.cons _ .nil)) => rfl
  | .cons _ (.cons _ (.cons _ (.cons _ _))) => rfl

def handlerNames : List String :=
  ["concat", "contains", "startswith", "endswith", "indexof", "length", "substring", "tolower", "toupper", "trim",
   "year", "month", "day", "hour", "minute", "date", "now", "round", "floor", "ceiling", "hassubset"]

theorem mirrorCall'_name (isD : Char → Bool) (d : Dialect) (al : Option Str) (name : String) (args : Exprs) (t : SqlTree)
    (h : mirrorCall' isD d al name args = some t) : name ∈ handlerNames := by
  by_cases hn : name ∈ handlerNames
  · exact hn
  · exfalso
    simp only [handlerNames, List.mem_cons, List.not_mem_nil, or_false, not_or] at hn
    obtain ⟨h1, h2, h3, h4, h5, h6, h7, h8, h9, h10, h11, h12, h13, h14, h15, h16, h17, h18, h19, h20, h21⟩ := hn
    simp [mirrorCall'] at h

theorem outcome_bind_ok {α β} {x : Outcome α} {f : α → Outcome β} {b : β} (h : (x >>= f) = .ok b) :
    ∃ a, x = .ok a ∧ f a = .ok b := by
  cases x with
  | ok a => exact ⟨a, rfl, h⟩
  | lib e => cases h
  | notImplemented => cases h
  | foreign c => cases h

theorem handler_key : ∀ nm ∈ handlerNames,
    String.ofList (pyLower (funcKey ⟨nm.toList, []⟩)) = nm ∧ sqlHandlers.contains nm = true := by decide

section
variable (isD : Char → Bool) (d : Dialect) (al : Option Str)

theorem visit_call_inv (nm : String) (hn : nm ∈ handlerNames) (args : Exprs) (ps : List Piece)
    (hv : sqlVisit isD d al (.call ⟨nm.toList, []⟩ args) = .ok ps) :
    ∃ items tpl, sqlVisitList isD d al args = .ok items ∧
      selectTpl d nm (args.toList.map inferType) = .ok tpl ∧ ps = instantiate tpl args.toList items := by
  obtain ⟨hk, hh⟩ := handler_key nm hn
  rw [sqlVisit] at hv
  simp only [hk, hh, Bool.not_true, Bool.false_eq_true, if_false] at hv
  cases hp : preCheck d nm args.length with
  | some err =>
    simp only [hp] at hv
    -- a failed pre-check is never `ok`
    exfalso
    unfold preCheck at hp
    split at hp
    · simp at hp; subst hp; cases hv
    · split at hp <;> simp at hp; subst hp; cases hv
    · repeat' (split at hp)
      all_goals (simp at hp; try (subst hp; cases hv))
  | none =>
    simp only [hp] at hv
    obtain ⟨items, h1, hv⟩ := outcome_bind_ok hv
    obtain ⟨tpl, h2, hv⟩ := outcome_bind_ok hv
    exact ⟨items, tpl, h1, h2, by simpa using hv.symm⟩

/-- the induction hypothesis for an argument list -/
def IHL (args : Exprs) : Prop :=
  ∀ ts items, mirrorList isD d al args = some ts → sqlVisitList isD d al args = .ok items → CoreRL args ts items

theorem ihl_zero {items} (hv : sqlVisitList isD d al .nil = .ok items) : items = [] := by
  rw [sqlVisitList] at hv; cases hv; rfl

theorem ihl_one {a0 t0 items} (ih : IHL isD d al (.cons a0 .nil)) (h0 : mirror isD d al a0 = some t0)
    (hv : sqlVisitList isD d al (.cons a0 .nil) = .ok items) : ∃ p0, items = [p0] ∧ CoreR a0 t0 p0 := by
  have hm : mirrorList isD d al (.cons a0 .nil) = some (.cons t0 .nil) := by simp [mirrorList, h0]
  have := ih _ _ hm hv
  match items, this with
  | [p0], h => exact ⟨p0, rfl, h.1⟩
  | [], h => simp [CoreRL] at h
  | _ :: _ :: _, h => simp [CoreRL] at h

theorem ihl_two {a0 a1 t0 t1 items} (ih : IHL isD d al (.cons a0 (.cons a1 .nil)))
    (h0 : mirror isD d al a0 = some t0) (h1 : mirror isD d al a1 = some t1)
    (hv : sqlVisitList isD d al (.cons a0 (.cons a1 .nil)) = .ok items) :
    ∃ p0 p1, items = [p0, p1] ∧ CoreR a0 t0 p0 ∧ CoreR a1 t1 p1 := by
  have hm : mirrorList isD d al (.cons a0 (.cons a1 .nil)) = some (.cons t0 (.cons t1 .nil)) := by
    simp [mirrorList, h0, h1]
  have := ih _ _ hm hv
  match items, this with
  | [p0, p1], h => exact ⟨p0, p1, rfl, h.1, h.2.1⟩
  | [], h => simp [CoreRL] at h
  | [_], h => simp [CoreRL] at h
  | _ :: _ :: _ :: _, h => simp [CoreRL] at h

theorem ihl_three {a0 a1 a2 t0 t1 t2 items} (ih : IHL isD d al (.cons a0 (.cons a1 (.cons a2 .nil))))
    (h0 : mirror isD d al a0 = some t0) (h1 : mirror isD d al a1 = some t1) (h2 : mirror isD d al a2 = some t2)
    (hv : sqlVisitList isD d al (.cons a0 (.cons a1 (.cons a2 .nil))) = .ok items) :
    ∃ p0 p1 p2, items = [p0, p1, p2] ∧ CoreR a0 t0 p0 ∧ CoreR a1 t1 p1 ∧ CoreR a2 t2 p2 := by
  have hm : mirrorList isD d al (.cons a0 (.cons a1 (.cons a2 .nil))) = some (.cons t0 (.cons t1 (.cons t2 .nil))) := by
    simp [mirrorList, h0, h1, h2]
  have := ih _ _ hm hv
  match items, this with
  | [p0, p1, p2], h => exact ⟨p0, p1, p2, rfl, h.1, h.2.1, h.2.2.1⟩
  | [], h => simp [CoreRL] at h
  | [_], h => simp [CoreRL] at h
  | [_, _], h => simp [CoreRL] at h
  | _ :: _ :: _ :: _ :: _, h => simp [CoreRL] at h
end

/-! ### template shapes -/

theorem callPrec8 (nm : String) (args : Exprs) (h : funcPrec (pyLower nm.toList) = 8) :
    sqlPrec (.call ⟨nm.toList, []⟩ args) = 8 := by
  simp [sqlPrec, h]

/-- `NAME(a)` -/
theorem tpl_call1 (e : Expr) (hp : sqlPrec e = 8) (nm : String) (hw : plainWord nm.toList = true)
    {a t p} (h : CoreR a t p) :
    CoreR e (.call (S nm) (one t)) (instantiate (tcall nm [[.arg 0]]) [a] [p]) := by
  apply core_of_atom hp
  have := atom_call nm.toList hw [pieceToks p] _ (readsL_one (core_reads0 h))
  simpa [instantiate, tcall, tcall.join, instItem, tw, tlp, trp, joinT, S, one, two, three] using this

/-- `NAME(a, b)` -/
theorem tpl_call2 (e : Expr) (hp : sqlPrec e = 8) (nm : String) (hw : plainWord nm.toList = true)
    {a0 t0 p0 a1 t1 p1} (h0 : CoreR a0 t0 p0) (h1 : CoreR a1 t1 p1) :
    CoreR e (.call (S nm) (two t0 t1)) (instantiate (tcall nm [[.arg 0], [.arg 1]]) [a0, a1] [p0, p1]) := by
  apply core_of_atom hp
  have := atom_call nm.toList hw [pieceToks p0, pieceToks p1] _ (readsL_two (core_reads0 h0) (core_reads0 h1))
  simpa [instantiate, tcall, tcall.join, instItem, tw, tlp, trp, tsp, joinT, S, one, two, three] using this

/-- `NAME(a, b, c)` -/
theorem tpl_call3 (e : Expr) (hp : sqlPrec e = 8) (nm : String) (hw : plainWord nm.toList = true)
    {a0 t0 p0 a1 t1 p1 a2 t2 p2} (h0 : CoreR a0 t0 p0) (h1 : CoreR a1 t1 p1) (h2 : CoreR a2 t2 p2) :
    CoreR e (.call (S nm) (three t0 t1 t2))
      (instantiate (tcall nm [[.arg 0], [.arg 1], [.arg 2]]) [a0, a1, a2] [p0, p1, p2]) := by
  apply core_of_atom hp
  have := atom_call nm.toList hw [pieceToks p0, pieceToks p1, pieceToks p2] _
    (readsL_three (core_reads0 h0) (core_reads0 h1) (core_reads0 h2))
  simpa [instantiate, tcall, tcall.join, instItem, tw, tlp, trp, tsp, joinT, S, one, two, three] using this

/-- `x + 1`, `x + 0.5`: an argument spliced in front of `+ literal` -/
theorem plus_lit {a t p} (n : Str) (h : CoreR a t p) (hp : 5 ≤ sqlPrec a) (hc : isConcatE a = false) :
    Opd 5 (pieceToks p ++ [.op ['+'], .num n]) (.bin ['+'] t (.num n)) false := by
  obtain ⟨f, hf, ho⟩ := h
  refine opd_add ['+'] (by decide) (by decide) ho hp (atom_opd (atom_num n)) (by omega) ?_ (by simp [mixOk])
  simp only [mixOk, show isCatOp ['+'] = false by decide, Bool.false_eq_true, if_false]
  cases f with
  | true => rfl
  | false =>
    cases hct : isCatTree t with
    | false => rfl
    | true => have := (hf rfl).1 hct; simp [this] at hc

theorem atom_reads0 {T t} (h : Atom T t) : ReadsAt 0 T t := opd_reads (atom_opd h) (Nat.zero_le _)

/-- `CAST ( a AS TY )` -/
theorem tpl_cast (e : Expr) (hp : sqlPrec e = 8) (ty : String) {a t p} (h : CoreR a t p) :
    CoreR e (.cast t (S ty))
      (instantiate [tw "CAST", tsp, tlp, .arg 0, tsp, tw "AS", tsp, tw ty, trp] [a] [p]) := by
  apply core_of_atom hp
  have := atom_cast ty.toList (core_reads0 h)
  simpa [instantiate, instItem, tw, tlp, trp, tsp, S] using this

/-- `EXTRACT(PART FROM a)` / `CAST(STRFTIME('fmt', a) AS INTEGER)` -/
theorem tpl_part (d : Dialect) (e : Expr) (hp : sqlPrec e = 8) (part fmt : String) {a t p} (h : CoreR a t p) :
    CoreR e (if d = .sqlite then .cast (.call (S "STRFTIME") (two (.str (S fmt)) t)) (S "INTEGER") else .extract (S part) t)
      (instantiate (extractTpl d part fmt) [a] [p]) := by
  apply core_of_atom hp
  by_cases hd : d = .sqlite
  · have h1 := atom_call "STRFTIME".toList (by decide) [[.str fmt.toList], pieceToks p] _
      (readsL_two (reads_str 0 (by omega) _) (core_reads0 h))
    have := atom_cast "INTEGER".toList (atom_reads0 h1)
    simpa [hd, extractTpl, instantiate, tcall, tcall.join, instItem, tw, tlp, trp, tsp, tstr, joinT, S, two] using this
  · have := atom_extract part.toList (core_reads0 h)
    simpa [hd, extractTpl, instantiate, instItem, tw, tlp, trp, tsp, S] using this

/-- `CAST ( a + 0.5 AS INTEGER )` -/
theorem tpl_round_std (e : Expr) (hp : sqlPrec e = 8) {a t p} (h : CoreR a t p)
    (h5 : 5 ≤ sqlPrec a) (hc : isConcatE a = false) :
    CoreR e (.cast (.bin (S "+") t (.num (S "0.5"))) (S "INTEGER"))
      (instantiate [tw "CAST", tsp, tlp, .arg 0, tsp, to_ "+", tsp, tnum "0.5", tsp, tw "AS", tsp, tw "INTEGER", trp] [a] [p]) := by
  apply core_of_atom hp
  have := atom_cast "INTEGER".toList (opd_reads (plus_lit "0.5".toList h h5 hc) (Nat.zero_le 5))
  simpa [instantiate, instItem, tw, tlp, trp, tsp, to_, tnum, S] using this

/-- `TRUNC(a + 0.5)` -/
theorem tpl_round_sqlite (e : Expr) (hp : sqlPrec e = 8) {a t p} (h : CoreR a t p)
    (h5 : 5 ≤ sqlPrec a) (hc : isConcatE a = false) :
    CoreR e (.call (S "TRUNC") (one (.bin (S "+") t (.num (S "0.5")))))
      (instantiate (tcall "TRUNC" [[.arg 0, tsp, to_ "+", tsp, tnum "0.5"]]) [a] [p]) := by
  apply core_of_atom hp
  have := atom_call "TRUNC".toList (by decide) [pieceToks p ++ [.op ['+'], .num "0.5".toList]] _
    (readsL_one (opd_reads (plus_lit "0.5".toList h h5 hc) (Nat.zero_le 5)))
  simpa [instantiate, tcall, tcall.join, instItem, tw, tlp, trp, tsp, to_, tnum, joinT, S, one] using this

theorem mul_of_arith6 {e : Expr} (h : isArithE e = true) (h6 : sqlPrec e = 6) : isMulE e = true := by
  cases e with
  | binop op l r => cases op <;> simp [sqlPrec] at h6 <;> rfl
  | call f args =>
    simp [isArithE, isBinopE, isBuiltin] at h
    have := ofList_eq h.2
    simp only [sqlPrec, List.isEmpty_iff.mpr h.1, if_true, this] at h6
    exact absurd h6 (by decide)
  | _ => simp [isArithE, isBinopE, isBuiltin] at h

/-- operand of `||`: atomic, or not an arithmetic tree -/
theorem arith_flag {e : Expr} {t : SqlTree} {a : Bool} {parent : Nat} {oe : Bool}
    (h : a = false → wrapped e parent oe = false ∧ FlagOk false t e)
    (hp : wrapped e parent oe = false → isArithE e = false) : (a || !isArithTree t) = true := by
  cases a with
  | true => rfl
  | false =>
    obtain ⟨hw, hf⟩ := h rfl
    cases hc : isArithTree t with
    | false => rfl
    | true => have := (hf rfl).2 hc; simp [hp hw] at this

/-- `a || b` -/
theorem tpl_concat (e : Expr) (hp : sqlPrec e = 5) (he : isConcatE e = true) {a0 t0 p0 a1 t1 p1}
    (h0 : CoreR a0 t0 p0) (h1 : CoreR a1 t1 p1) (hs0 : isArithE a0 = false) (hs1 : isMulE a1 = false) :
    CoreR e (.bin (S "||") t0 t1)
      (instantiate [.argW 0 5 false, tsp, to_ "||", tsp, .argW 1 5 true] [a0, a1] [p0, p1]) := by
  obtain ⟨al, hal, hfl⟩ := wrap_opd h0 5 false 5 (by omega) wrapped_false_lt
  obtain ⟨ar, har, hfr⟩ := wrap_opd h1 5 true 6 (by omega) (fun h => wrapped_false_le h)
  refine ⟨false, fun _ => ⟨fun _ => he, fun h => by simp [isArithTree, S, isAddOp, isMulOp] at h⟩, ?_⟩
  have := opd_add ['|', '|'] (by decide) (by decide) hal (Nat.le_refl 5) har (Nat.le_refl 6)
    (by simpa [mixOk, isCatOp] using arith_flag hfl (fun _ => hs0))
    (by
      simp only [mixOk, show isCatOp ['|', '|'] = true by decide, if_true]
      refine arith_flag hfr (fun hw => ?_)
      cases hA : isArithE a1 with
      | false => rfl
      | true =>
        have h56 := prec_of_arith hA
        have := wrapped_false_le hw
        have := mul_of_arith6 hA (by omega)
        simp [this] at hs1)
  simpa [hp, instantiate, instItem, tsp, to_, S] using this

theorem likeEscape_eq : ∀ s : Str, likeEscape s = likeLit s
  | [] => rfl
  | c :: t => by simp only [likeEscape, likeLit, likeEscape_eq t]

theorem sqlPattern_nonlit {a1 : Expr} (h : isStrLitE a1 = false) (p1 : List Piece) (pre suf : Str) :
    sqlPattern a1 p1 pre suf =
      (let res := wrapOperand a1 5 true p1
       let res := if pre.isEmpty then res else .tok (.str pre) :: sp :: o "||" :: sp :: res
       if suf.isEmpty then res else res ++ [sp, o "||", sp, .tok (.str suf)]) := by
  unfold sqlPattern
  split
  · simp [isStrLitE] at h
  · rfl

theorem patternOf_nonlit {a1 : Expr} (h : isStrLitE a1 = false) (t1 : SqlTree) (pre suf : Str) :
    patternOf a1 t1 pre suf =
      (let t := if pre.isEmpty then t1 else .bin (S "||") (.str pre) t1
       (if suf.isEmpty then t else .bin (S "||") t (.str suf), none)) := by
  unfold patternOf
  split
  · simp [isStrLitE] at h
  · rfl

/-- `a LIKE pattern` -/
theorem tpl_like (e : Expr) (hp : sqlPrec e = 4) (pre suf : Str) {a0 t0 p0 a1 t1 p1}
    (h0 : CoreR a0 t0 p0) (h1 : CoreR a1 t1 p1) (h5 : 5 ≤ sqlPrec a0)
    (hs1 : (isStrLitE a1 || !isMulE a1) = true) :
    CoreR e (.like t0 (patternOf a1 t1 pre suf).1 (patternOf a1 t1 pre suf).2)
      (instantiate [.arg 0, tsp, tw "LIKE", tsp, .pat 1 pre suf] [a0, a1] [p0, p1]) := by
  obtain ⟨al, -, hal⟩ := h0
  refine ⟨false, flag_notbin_like _ _ _ _, ?_⟩
  rw [hp]
  cases hlit : isStrLitE a1 with
  | true =>
    -- a literal pattern
    cases a1 <;> simp [isStrLitE] at hlit
    rename_i k raw
    cases k <;> simp at hlit
    simp only [patternOf, sqlPattern, instantiate, instItem, List.flatMap_cons, List.flatMap_nil, likeEscape_eq]
    by_cases hesc : (likeLit raw != raw) = true
    · have := opd_like_esc (pre ++ likeLit raw ++ suf) ['\\'] hal h5
      simpa [hesc, tsp, tw] using this
    · have := opd_like hal h5 (atom_opd (atom_str (pre ++ likeLit raw ++ suf))) (by omega)
      simpa [hesc, tsp, tw] using this
  | false =>
    have hm1 : isMulE a1 = false := by simpa [hlit] using hs1
    obtain ⟨ar, har, hfr⟩ := wrap_opd h1 5 true 6 (by omega) (fun h => wrapped_false_le h)
    have hmix : mixOk ['|', '|'] ar t1 = true := by
      simp only [mixOk, show isCatOp ['|', '|'] = true by decide, if_true]
      refine arith_flag hfr (fun hw => ?_)
      cases hA : isArithE a1 with
      | false => rfl
      | true =>
        have h56 := prec_of_arith hA
        have := wrapped_false_le hw
        have := mul_of_arith6 hA (by omega)
        simp [this] at hm1
    have hcatmix : ∀ (x y : SqlTree), mixOk ['|', '|'] false (.bin ['|', '|'] x y) = true := by
      intro x y; rfl
    have hstr : ∀ s : Str, mixOk ['|', '|'] true (.str s) = true := by intro s; simp [mixOk]
    -- the pattern is an operand of level ≥ 5
    have hpat : ∃ ap, Opd 5 (pieceToks (sqlPattern a1 p1 pre suf)) (patternOf a1 t1 pre suf).1 ap ∧
        (patternOf a1 t1 pre suf).2 = none := by
      rw [sqlPattern_nonlit hlit, patternOf_nonlit hlit]
      by_cases hpre : pre.isEmpty = true <;> by_cases hsuf : suf.isEmpty = true
      · exact ⟨ar, by simpa [hpre, hsuf] using opd_mono har (show 5 ≤ 6 by omega), rfl⟩
      · have := opd_add ['|', '|'] (by decide) (by decide) har (show 5 ≤ 6 by omega) (atom_opd (atom_str suf)) (by omega)
          hmix (hstr _)
        exact ⟨false, by simpa [hpre, hsuf, S] using this, rfl⟩
      · have := opd_add ['|', '|'] (by decide) (by decide) (atom_opd (atom_str pre)) (by omega) har (Nat.le_refl 6)
          (hstr _) hmix
        exact ⟨false, by simpa [hpre, hsuf, S] using this, rfl⟩
      · have h1 := opd_add ['|', '|'] (by decide) (by decide) (atom_opd (atom_str pre)) (by omega) har (Nat.le_refl 6)
          (hstr _) hmix
        have := opd_add ['|', '|'] (by decide) (by decide) h1 (Nat.le_refl 5) (atom_opd (atom_str suf)) (by omega)
          (hcatmix _ _) (hstr _)
        exact ⟨false, by simpa [hpre, hsuf, S] using this, rfl⟩
    obtain ⟨ap, hap, hnone⟩ := hpat
    rw [hnone]
    have := opd_like hal h5 hap (Nat.le_refl 5)
    simpa [instantiate, instItem, tsp, tw] using this

theorem core_reads5 {e t ps} (h : CoreR e t ps) (h5 : 5 ≤ sqlPrec e) : ReadsAt 5 (pieceToks ps) t := by
  obtain ⟨a, -, ha⟩ := h
  exact opd_reads ha h5

theorem flag_minus (l r : SqlTree) (e : Expr) (he : isArithE e = true) : FlagOk false (.bin ['-'] l r) e :=
  fun _ => ⟨fun h => by simp [isCatTree, isCatOp] at h, fun _ => he⟩

theorem minus_one {T t} (h : Atom T t) : Opd 5 (T ++ [.op ['-'], .num ['1']]) (.bin ['-'] t (.num ['1'])) false :=
  opd_add ['-'] (by decide) (by decide) (atom_opd h) (by omega) (atom_opd (atom_num ['1'])) (by omega) rfl rfl

/-- `INSTR(a, b) - 1` -/
theorem tpl_indexof_sqlite (e : Expr) (hp : sqlPrec e = 5) (he : isArithE e = true) {a0 t0 p0 a1 t1 p1}
    (h0 : CoreR a0 t0 p0) (h1 : CoreR a1 t1 p1) :
    CoreR e (.bin (S "-") (.call (S "INSTR") (two t0 t1)) (.num ['1']))
      (instantiate (tcall "INSTR" [[.arg 0], [.arg 1]] ++ [tsp, to_ "-", tsp, tnum "1"]) [a0, a1] [p0, p1]) := by
  refine ⟨false, flag_minus _ _ _ he, ?_⟩
  have h := atom_call "INSTR".toList (by decide) [pieceToks p0, pieceToks p1] _ (readsL_two (core_reads0 h0) (core_reads0 h1))
  have := minus_one h
  simpa [hp, instantiate, tcall, tcall.join, instItem, tw, tlp, trp, tsp, to_, tnum, joinT, S, two] using this

/-- `POSITION(b IN a) - 1` -/
theorem tpl_indexof_std (e : Expr) (hp : sqlPrec e = 5) (he : isArithE e = true) {a0 t0 p0 a1 t1 p1}
    (h0 : CoreR a0 t0 p0) (h1 : CoreR a1 t1 p1) (h50 : 5 ≤ sqlPrec a0) (h51 : 5 ≤ sqlPrec a1) :
    CoreR e (.bin (S "-") (.position t1 t0) (.num ['1']))
      (instantiate [tw "POSITION", tlp, .arg 1, tsp, tw "IN", tsp, .arg 0, trp, tsp, to_ "-", tsp, tnum "1"] [a0, a1] [p0, p1]) := by
  refine ⟨false, flag_minus _ _ _ he, ?_⟩
  have h := atom_position (core_reads5 h1 h51) (core_reads5 h0 h50)
  have := minus_one h
  simpa [hp, instantiate, instItem, tw, tlp, trp, tsp, to_, tnum, S] using this

theorem plus_one_reads {a t p} (m : Nat) (hm : m ≤ 5) (h : CoreR a t p) (hp : 5 ≤ sqlPrec a) (hc : isConcatE a = false) :
    ReadsAt m (pieceToks p ++ [.op ['+'], .num ['1']]) (.bin ['+'] t (.num ['1'])) :=
  opd_reads (plus_lit ['1'] h hp hc) hm

/-- `SUBSTRING(a FROM b + 1)` -/
theorem tpl_substring2_std (e : Expr) (hp : sqlPrec e = 8) {a0 t0 p0 a1 t1 p1}
    (h0 : CoreR a0 t0 p0) (h1 : CoreR a1 t1 p1) (h50 : 5 ≤ sqlPrec a0) (h51 : 5 ≤ sqlPrec a1) (hc : isConcatE a1 = false) :
    CoreR e (.substring t0 (.bin (S "+") t1 (.num ['1'])) .none)
      (instantiate ([tw "SUBSTRING", tlp, .arg 0, tsp, tw "FROM", tsp, .arg 1] ++ [tsp, to_ "+", tsp, tnum "1"] ++ [trp])
        [a0, a1] [p0, p1]) := by
  apply core_of_atom hp
  have := atom_substring2 (core_reads5 h0 h50) (plus_one_reads 5 (Nat.le_refl 5) h1 h51 hc)
  simpa [instantiate, instItem, tw, tlp, trp, tsp, to_, tnum, S] using this

/-- `SUBSTRING(a FROM b + 1 FOR c)` -/
theorem tpl_substring3_std (e : Expr) (hp : sqlPrec e = 8) {a0 t0 p0 a1 t1 p1 a2 t2 p2}
    (h0 : CoreR a0 t0 p0) (h1 : CoreR a1 t1 p1) (h2 : CoreR a2 t2 p2)
    (h50 : 5 ≤ sqlPrec a0) (h51 : 5 ≤ sqlPrec a1) (h52 : 5 ≤ sqlPrec a2) (hc : isConcatE a1 = false) :
    CoreR e (.substring t0 (.bin (S "+") t1 (.num ['1'])) (.some t2))
      (instantiate ([tw "SUBSTRING", tlp, .arg 0, tsp, tw "FROM", tsp, .arg 1] ++ [tsp, to_ "+", tsp, tnum "1"] ++
        [tsp, tw "FOR", tsp, .arg 2, trp]) [a0, a1, a2] [p0, p1, p2]) := by
  apply core_of_atom hp
  have := atom_substring3 (core_reads5 h0 h50) (plus_one_reads 5 (Nat.le_refl 5) h1 h51 hc) (core_reads5 h2 h52)
  simpa [instantiate, instItem, tw, tlp, trp, tsp, to_, tnum, S] using this

/-- `SUBSTR(a, b + 1)` -/
theorem tpl_substr2 (e : Expr) (hp : sqlPrec e = 8) {a0 t0 p0 a1 t1 p1}
    (h0 : CoreR a0 t0 p0) (h1 : CoreR a1 t1 p1) (h51 : 5 ≤ sqlPrec a1) (hc : isConcatE a1 = false) :
    CoreR e (.call (S "SUBSTR") (two t0 (.bin (S "+") t1 (.num ['1']))))
      (instantiate (tcall "SUBSTR" [[.arg 0], .arg 1 :: [tsp, to_ "+", tsp, tnum "1"]]) [a0, a1] [p0, p1]) := by
  apply core_of_atom hp
  have := atom_call "SUBSTR".toList (by decide) [pieceToks p0, pieceToks p1 ++ [.op ['+'], .num ['1']]] _
    (readsL_two (core_reads0 h0) (plus_one_reads 0 (by omega) h1 h51 hc))
  simpa [instantiate, tcall, tcall.join, instItem, tw, tlp, trp, tsp, to_, tnum, joinT, S, two] using this

/-- `SUBSTR(a, b + 1, c)` -/
theorem tpl_substr3 (e : Expr) (hp : sqlPrec e = 8) {a0 t0 p0 a1 t1 p1 a2 t2 p2}
    (h0 : CoreR a0 t0 p0) (h1 : CoreR a1 t1 p1) (h2 : CoreR a2 t2 p2) (h51 : 5 ≤ sqlPrec a1) (hc : isConcatE a1 = false) :
    CoreR e (.call (S "SUBSTR") (three t0 (.bin (S "+") t1 (.num ['1'])) t2))
      (instantiate (tcall "SUBSTR" [[.arg 0], .arg 1 :: [tsp, to_ "+", tsp, tnum "1"], [.arg 2]]) [a0, a1, a2] [p0, p1, p2]) := by
  apply core_of_atom hp
  have := atom_call "SUBSTR".toList (by decide) [pieceToks p0, pieceToks p1 ++ [.op ['+'], .num ['1']], pieceToks p2] _
    (readsL_three (core_reads0 h0) (plus_one_reads 0 (by omega) h1 h51 hc) (core_reads0 h2))
  simpa [instantiate, tcall, tcall.join, instItem, tw, tlp, trp, tsp, to_, tnum, joinT, S, three] using this

/-- `CARDINALITY(ARRAY_INTERSECT(a, b)) = CARDINALITY(b)` -/
theorem tpl_hassubset (e : Expr) (hp : sqlPrec e = 4) {a0 t0 p0 a1 t1 p1}
    (h0 : CoreR a0 t0 p0) (h1 : CoreR a1 t1 p1) :
    CoreR e (.bin (S "=") (.call (S "CARDINALITY") (one (.call (S "ARRAY_INTERSECT") (two t0 t1))))
                          (.call (S "CARDINALITY") (one t1)))
      (instantiate (tcall "CARDINALITY" [tcall "ARRAY_INTERSECT" [[.arg 0], [.arg 1]]] ++ [tsp, to_ "=", tsp] ++
        tcall "CARDINALITY" [[.arg 1]]) [a0, a1] [p0, p1]) := by
  refine ⟨false, flag_bin _ _ _ _ (by decide) (by decide) (by decide), ?_⟩
  have hi := atom_call "ARRAY_INTERSECT".toList (by decide) [pieceToks p0, pieceToks p1] _
    (readsL_two (core_reads0 h0) (core_reads0 h1))
  have hl := atom_call "CARDINALITY".toList (by decide) [_] _ (readsL_one (atom_reads0 hi))
  have hr := atom_call "CARDINALITY".toList (by decide) [pieceToks p1] _ (readsL_one (core_reads0 h1))
  have := opd_cmp ['='] (by decide) (atom_opd hl) (by omega) (atom_opd hr) (by omega)
  simpa [hp, instantiate, tcall, tcall.join, instItem, tw, tlp, trp, tsp, to_, joinT, S, one, two] using this

theorem callPrec (nm : String) (args : Exprs) (k : Nat) (h : funcPrec (pyLower nm.toList) = k) :
    sqlPrec (.call ⟨nm.toList, []⟩ args) = k := by
  simp [sqlPrec, h]

theorem overload_str {tys : List (Option Ty)} (h : strOverload tys = true) : overloadOf tys = .str := by
  unfold overloadOf
  exact if_pos h

section
variable (isD : Char → Bool) (d : Dialect) (al : Option Str)

/-! ### one lemma per built-in -/
theorem call_tolower (args : Exprs) (t : SqlTree) (ps : List Piece) (ih : IHL isD d al args)
    (hs : sqlSafe d (.call ⟨"tolower".toList, []⟩ args) = true)
    (hm : mirrorCall' isD d al "tolower" args = some t)
    (hv : sqlVisit isD d al (.call ⟨"tolower".toList, []⟩ args) = .ok ps) :
    CoreR (.call ⟨"tolower".toList, []⟩ args) t ps := by
  obtain ⟨items, tpl, hvl, htpl, rfl⟩ := visit_call_inv isD d al "tolower" (by decide) args ps hv
  match args, ih, hs, hm, hvl, htpl with
  | .cons a0 .nil, ih, hs, hm, hvl, htpl =>
    cases h0 : mirror isD d al a0 with
    | none => simp [mirrorCall', h0] at hm
    | some t0 =>
    obtain ⟨p0, rfl, c0⟩ := ihl_one isD d al ih h0 hvl
    have hp8 := callPrec "tolower" (.cons a0 .nil) 8 (by decide)
    simp only [Exprs.toList, List.map_cons, List.map_nil] at htpl ⊢
    simp [mirrorCall', h0] at hm; subst hm
    simp [selectTpl] at htpl; subst htpl
    exact tpl_call1 _ hp8 "LOWER" (by decide) c0
  | .nil, _, _, hm, _, _ => simp [mirrorCall'] at hm
  | .cons _ (.cons _ _), _, _, hm, _, _ => simp [mirrorCall'] at hm

theorem call_toupper (args : Exprs) (t : SqlTree) (ps : List Piece) (ih : IHL isD d al args)
    (hs : sqlSafe d (.call ⟨"toupper".toList, []⟩ args) = true)
    (hm : mirrorCall' isD d al "toupper" args = some t)
    (hv : sqlVisit isD d al (.call ⟨"toupper".toList, []⟩ args) = .ok ps) :
    CoreR (.call ⟨"toupper".toList, []⟩ args) t ps := by
  obtain ⟨items, tpl, hvl, htpl, rfl⟩ := visit_call_inv isD d al "toupper" (by decide) args ps hv
  match args, ih, hs, hm, hvl, htpl with
  | .cons a0 .nil, ih, hs, hm, hvl, htpl =>
    cases h0 : mirror isD d al a0 with
    | none => simp [mirrorCall', h0] at hm
    | some t0 =>
    obtain ⟨p0, rfl, c0⟩ := ihl_one isD d al ih h0 hvl
    have hp8 := callPrec "toupper" (.cons a0 .nil) 8 (by decide)
    simp only [Exprs.toList, List.map_cons, List.map_nil] at htpl ⊢
    simp [mirrorCall', h0] at hm; subst hm
    simp [selectTpl] at htpl; subst htpl
    exact tpl_call1 _ hp8 "UPPER" (by decide) c0
  | .nil, _, _, hm, _, _ => simp [mirrorCall'] at hm
  | .cons _ (.cons _ _), _, _, hm, _, _ => simp [mirrorCall'] at hm

theorem call_trim (args : Exprs) (t : SqlTree) (ps : List Piece) (ih : IHL isD d al args)
    (hs : sqlSafe d (.call ⟨"trim".toList, []⟩ args) = true)
    (hm : mirrorCall' isD d al "trim" args = some t)
    (hv : sqlVisit isD d al (.call ⟨"trim".toList, []⟩ args) = .ok ps) :
    CoreR (.call ⟨"trim".toList, []⟩ args) t ps := by
  obtain ⟨items, tpl, hvl, htpl, rfl⟩ := visit_call_inv isD d al "trim" (by decide) args ps hv
  match args, ih, hs, hm, hvl, htpl with
  | .cons a0 .nil, ih, hs, hm, hvl, htpl =>
    cases h0 : mirror isD d al a0 with
    | none => simp [mirrorCall', h0] at hm
    | some t0 =>
    obtain ⟨p0, rfl, c0⟩ := ihl_one isD d al ih h0 hvl
    have hp8 := callPrec "trim" (.cons a0 .nil) 8 (by decide)
    simp only [Exprs.toList, List.map_cons, List.map_nil] at htpl ⊢
    simp [mirrorCall', h0] at hm; subst hm
    simp [selectTpl] at htpl; subst htpl
    exact tpl_call1 _ hp8 "TRIM" (by decide) c0
  | .nil, _, _, hm, _, _ => simp [mirrorCall'] at hm
  | .cons _ (.cons _ _), _, _, hm, _, _ => simp [mirrorCall'] at hm

theorem call_floor (args : Exprs) (t : SqlTree) (ps : List Piece) (ih : IHL isD d al args)
    (hs : sqlSafe d (.call ⟨"floor".toList, []⟩ args) = true)
    (hm : mirrorCall' isD d al "floor" args = some t)
    (hv : sqlVisit isD d al (.call ⟨"floor".toList, []⟩ args) = .ok ps) :
    CoreR (.call ⟨"floor".toList, []⟩ args) t ps := by
  obtain ⟨items, tpl, hvl, htpl, rfl⟩ := visit_call_inv isD d al "floor" (by decide) args ps hv
  match args, ih, hs, hm, hvl, htpl with
  | .cons a0 .nil, ih, hs, hm, hvl, htpl =>
    cases h0 : mirror isD d al a0 with
    | none => simp [mirrorCall', h0] at hm
    | some t0 =>
    obtain ⟨p0, rfl, c0⟩ := ihl_one isD d al ih h0 hvl
    have hp8 := callPrec "floor" (.cons a0 .nil) 8 (by decide)
    simp only [Exprs.toList, List.map_cons, List.map_nil] at htpl ⊢
    have hd : ¬ d = .std := by simp [sqlSafe] at hs; exact hs.2
    simp [mirrorCall', h0] at hm; subst hm
    simp [selectTpl, hd] at htpl; subst htpl
    exact tpl_call1 _ hp8 "FLOOR" (by decide) c0
  | .nil, _, _, hm, _, _ => simp [mirrorCall'] at hm
  | .cons _ (.cons _ _), _, _, hm, _, _ => simp [mirrorCall'] at hm

theorem call_ceiling (args : Exprs) (t : SqlTree) (ps : List Piece) (ih : IHL isD d al args)
    (hs : sqlSafe d (.call ⟨"ceiling".toList, []⟩ args) = true)
    (hm : mirrorCall' isD d al "ceiling" args = some t)
    (hv : sqlVisit isD d al (.call ⟨"ceiling".toList, []⟩ args) = .ok ps) :
    CoreR (.call ⟨"ceiling".toList, []⟩ args) t ps := by
  obtain ⟨items, tpl, hvl, htpl, rfl⟩ := visit_call_inv isD d al "ceiling" (by decide) args ps hv
  match args, ih, hs, hm, hvl, htpl with
  | .cons a0 .nil, ih, hs, hm, hvl, htpl =>
    cases h0 : mirror isD d al a0 with
    | none => simp [mirrorCall', h0] at hm
    | some t0 =>
    obtain ⟨p0, rfl, c0⟩ := ihl_one isD d al ih h0 hvl
    have hp8 := callPrec "ceiling" (.cons a0 .nil) 8 (by decide)
    simp only [Exprs.toList, List.map_cons, List.map_nil] at htpl ⊢
    have hd : ¬ d = .std := by simp [sqlSafe] at hs; exact hs.2
    simp [mirrorCall', h0] at hm; subst hm
    simp [selectTpl, hd] at htpl; subst htpl
    exact tpl_call1 _ hp8 "CEILING" (by decide) c0
  | .nil, _, _, hm, _, _ => simp [mirrorCall'] at hm
  | .cons _ (.cons _ _), _, _, hm, _, _ => simp [mirrorCall'] at hm

theorem call_year (args : Exprs) (t : SqlTree) (ps : List Piece) (ih : IHL isD d al args)
    (hs : sqlSafe d (.call ⟨"year".toList, []⟩ args) = true)
    (hm : mirrorCall' isD d al "year" args = some t)
    (hv : sqlVisit isD d al (.call ⟨"year".toList, []⟩ args) = .ok ps) :
    CoreR (.call ⟨"year".toList, []⟩ args) t ps := by
  obtain ⟨items, tpl, hvl, htpl, rfl⟩ := visit_call_inv isD d al "year" (by decide) args ps hv
  match args, ih, hs, hm, hvl, htpl with
  | .cons a0 .nil, ih, hs, hm, hvl, htpl =>
    cases h0 : mirror isD d al a0 with
    | none => simp [mirrorCall', h0] at hm
    | some t0 =>
    obtain ⟨p0, rfl, c0⟩ := ihl_one isD d al ih h0 hvl
    have hp8 := callPrec "year" (.cons a0 .nil) 8 (by decide)
    simp only [Exprs.toList, List.map_cons, List.map_nil] at htpl ⊢
    simp [selectTpl] at htpl; subst htpl
    have key := tpl_part d _ hp8 "YEAR" "%Y" c0
    cases d <;> (simp [mirrorCall', h0] at hm; subst hm; simpa using key)
  | .nil, _, _, hm, _, _ => simp [mirrorCall'] at hm
  | .cons _ (.cons _ _), _, _, hm, _, _ => simp [mirrorCall'] at hm

theorem call_month (args : Exprs) (t : SqlTree) (ps : List Piece) (ih : IHL isD d al args)
    (hs : sqlSafe d (.call ⟨"month".toList, []⟩ args) = true)
    (hm : mirrorCall' isD d al "month" args = some t)
    (hv : sqlVisit isD d al (.call ⟨"month".toList, []⟩ args) = .ok ps) :
    CoreR (.call ⟨"month".toList, []⟩ args) t ps := by
  obtain ⟨items, tpl, hvl, htpl, rfl⟩ := visit_call_inv isD d al "month" (by decide) args ps hv
  match args, ih, hs, hm, hvl, htpl with
  | .cons a0 .nil, ih, hs, hm, hvl, htpl =>
    cases h0 : mirror isD d al a0 with
    | none => simp [mirrorCall', h0] at hm
    | some t0 =>
    obtain ⟨p0, rfl, c0⟩ := ihl_one isD d al ih h0 hvl
    have hp8 := callPrec "month" (.cons a0 .nil) 8 (by decide)
    simp only [Exprs.toList, List.map_cons, List.map_nil] at htpl ⊢
    simp [selectTpl] at htpl; subst htpl
    have key := tpl_part d _ hp8 "MONTH" "%m" c0
    cases d <;> (simp [mirrorCall', h0] at hm; subst hm; simpa using key)
  | .nil, _, _, hm, _, _ => simp [mirrorCall'] at hm
  | .cons _ (.cons _ _), _, _, hm, _, _ => simp [mirrorCall'] at hm

theorem call_day (args : Exprs) (t : SqlTree) (ps : List Piece) (ih : IHL isD d al args)
    (hs : sqlSafe d (.call ⟨"day".toList, []⟩ args) = true)
    (hm : mirrorCall' isD d al "day" args = some t)
    (hv : sqlVisit isD d al (.call ⟨"day".toList, []⟩ args) = .ok ps) :
    CoreR (.call ⟨"day".toList, []⟩ args) t ps := by
  obtain ⟨items, tpl, hvl, htpl, rfl⟩ := visit_call_inv isD d al "day" (by decide) args ps hv
  match args, ih, hs, hm, hvl, htpl with
  | .cons a0 .nil, ih, hs, hm, hvl, htpl =>
    cases h0 : mirror isD d al a0 with
    | none => simp [mirrorCall', h0] at hm
    | some t0 =>
    obtain ⟨p0, rfl, c0⟩ := ihl_one isD d al ih h0 hvl
    have hp8 := callPrec "day" (.cons a0 .nil) 8 (by decide)
    simp only [Exprs.toList, List.map_cons, List.map_nil] at htpl ⊢
    simp [selectTpl] at htpl; subst htpl
    have key := tpl_part d _ hp8 "DAY" "%d" c0
    cases d <;> (simp [mirrorCall', h0] at hm; subst hm; simpa using key)
  | .nil, _, _, hm, _, _ => simp [mirrorCall'] at hm
  | .cons _ (.cons _ _), _, _, hm, _, _ => simp [mirrorCall'] at hm

theorem call_hour (args : Exprs) (t : SqlTree) (ps : List Piece) (ih : IHL isD d al args)
    (hs : sqlSafe d (.call ⟨"hour".toList, []⟩ args) = true)
    (hm : mirrorCall' isD d al "hour" args = some t)
    (hv : sqlVisit isD d al (.call ⟨"hour".toList, []⟩ args) = .ok ps) :
    CoreR (.call ⟨"hour".toList, []⟩ args) t ps := by
  obtain ⟨items, tpl, hvl, htpl, rfl⟩ := visit_call_inv isD d al "hour" (by decide) args ps hv
  match args, ih, hs, hm, hvl, htpl with
  | .cons a0 .nil, ih, hs, hm, hvl, htpl =>
    cases h0 : mirror isD d al a0 with
    | none => simp [mirrorCall', h0] at hm
    | some t0 =>
    obtain ⟨p0, rfl, c0⟩ := ihl_one isD d al ih h0 hvl
    have hp8 := callPrec "hour" (.cons a0 .nil) 8 (by decide)
    simp only [Exprs.toList, List.map_cons, List.map_nil] at htpl ⊢
    simp [selectTpl] at htpl; subst htpl
    have key := tpl_part d _ hp8 "HOUR" "%H" c0
    cases d <;> (simp [mirrorCall', h0] at hm; subst hm; simpa using key)
  | .nil, _, _, hm, _, _ => simp [mirrorCall'] at hm
  | .cons _ (.cons _ _), _, _, hm, _, _ => simp [mirrorCall'] at hm

theorem call_minute (args : Exprs) (t : SqlTree) (ps : List Piece) (ih : IHL isD d al args)
    (hs : sqlSafe d (.call ⟨"minute".toList, []⟩ args) = true)
    (hm : mirrorCall' isD d al "minute" args = some t)
    (hv : sqlVisit isD d al (.call ⟨"minute".toList, []⟩ args) = .ok ps) :
    CoreR (.call ⟨"minute".toList, []⟩ args) t ps := by
  obtain ⟨items, tpl, hvl, htpl, rfl⟩ := visit_call_inv isD d al "minute" (by decide) args ps hv
  match args, ih, hs, hm, hvl, htpl with
  | .cons a0 .nil, ih, hs, hm, hvl, htpl =>
    cases h0 : mirror isD d al a0 with
    | none => simp [mirrorCall', h0] at hm
    | some t0 =>
    obtain ⟨p0, rfl, c0⟩ := ihl_one isD d al ih h0 hvl
    have hp8 := callPrec "minute" (.cons a0 .nil) 8 (by decide)
    simp only [Exprs.toList, List.map_cons, List.map_nil] at htpl ⊢
    simp [selectTpl] at htpl; subst htpl
    have key := tpl_part d _ hp8 "MINUTE" "%M" c0
    cases d <;> (simp [mirrorCall', h0] at hm; subst hm; simpa using key)
  | .nil, _, _, hm, _, _ => simp [mirrorCall'] at hm
  | .cons _ (.cons _ _), _, _, hm, _, _ => simp [mirrorCall'] at hm

theorem call_date (args : Exprs) (t : SqlTree) (ps : List Piece) (ih : IHL isD d al args)
    (hs : sqlSafe d (.call ⟨"date".toList, []⟩ args) = true)
    (hm : mirrorCall' isD d al "date" args = some t)
    (hv : sqlVisit isD d al (.call ⟨"date".toList, []⟩ args) = .ok ps) :
    CoreR (.call ⟨"date".toList, []⟩ args) t ps := by
  obtain ⟨items, tpl, hvl, htpl, rfl⟩ := visit_call_inv isD d al "date" (by decide) args ps hv
  match args, ih, hs, hm, hvl, htpl with
  | .cons a0 .nil, ih, hs, hm, hvl, htpl =>
    cases h0 : mirror isD d al a0 with
    | none => simp [mirrorCall', h0] at hm
    | some t0 =>
    obtain ⟨p0, rfl, c0⟩ := ihl_one isD d al ih h0 hvl
    have hp8 := callPrec "date" (.cons a0 .nil) 8 (by decide)
    simp only [Exprs.toList, List.map_cons, List.map_nil] at htpl ⊢
    cases d with
    | sqlite =>
      simp [mirrorCall', h0] at hm; subst hm
      simp [selectTpl] at htpl; subst htpl
      exact tpl_call1 _ hp8 "DATE" (by decide) c0
    | std =>
      simp [mirrorCall', h0] at hm; subst hm
      simp [selectTpl] at htpl; subst htpl
      exact tpl_cast _ hp8 "DATE" c0
    | athena =>
      simp [mirrorCall', h0] at hm; subst hm
      simp [selectTpl] at htpl; subst htpl
      exact tpl_cast _ hp8 "DATE" c0
  | .nil, _, _, hm, _, _ => simp [mirrorCall'] at hm
  | .cons _ (.cons _ _), _, _, hm, _, _ => simp [mirrorCall'] at hm

theorem call_round (args : Exprs) (t : SqlTree) (ps : List Piece) (ih : IHL isD d al args)
    (hs : sqlSafe d (.call ⟨"round".toList, []⟩ args) = true)
    (hm : mirrorCall' isD d al "round" args = some t)
    (hv : sqlVisit isD d al (.call ⟨"round".toList, []⟩ args) = .ok ps) :
    CoreR (.call ⟨"round".toList, []⟩ args) t ps := by
  obtain ⟨items, tpl, hvl, htpl, rfl⟩ := visit_call_inv isD d al "round" (by decide) args ps hv
  match args, ih, hs, hm, hvl, htpl with
  | .cons a0 .nil, ih, hs, hm, hvl, htpl =>
    cases h0 : mirror isD d al a0 with
    | none => simp [mirrorCall', h0] at hm
    | some t0 =>
    obtain ⟨p0, rfl, c0⟩ := ihl_one isD d al ih h0 hvl
    have hp8 := callPrec "round" (.cons a0 .nil) 8 (by decide)
    simp only [Exprs.toList, List.map_cons, List.map_nil] at htpl ⊢
    have hs' : d = .athena ∨ 5 ≤ sqlPrec a0 ∧ isConcatE a0 = false := by simp [sqlSafe] at hs; exact hs.2
    cases d with
    | std =>
      simp [mirrorCall', h0] at hm; subst hm
      simp [selectTpl] at htpl; subst htpl
      rcases hs' with h | h
      · cases h
      · exact tpl_round_std _ hp8 c0 h.1 h.2
    | sqlite =>
      simp [mirrorCall', h0] at hm; subst hm
      simp [selectTpl] at htpl; subst htpl
      rcases hs' with h | h
      · cases h
      · exact tpl_round_sqlite _ hp8 c0 h.1 h.2
    | athena =>
      simp [mirrorCall', h0] at hm; subst hm
      simp [selectTpl] at htpl; subst htpl
      exact tpl_call1 _ hp8 "ROUND" (by decide) c0
  | .nil, _, _, hm, _, _ => simp [mirrorCall'] at hm
  | .cons _ (.cons _ _), _, _, hm, _, _ => simp [mirrorCall'] at hm

theorem call_length (args : Exprs) (t : SqlTree) (ps : List Piece) (ih : IHL isD d al args)
    (hs : sqlSafe d (.call ⟨"length".toList, []⟩ args) = true)
    (hm : mirrorCall' isD d al "length" args = some t)
    (hv : sqlVisit isD d al (.call ⟨"length".toList, []⟩ args) = .ok ps) :
    CoreR (.call ⟨"length".toList, []⟩ args) t ps := by
  obtain ⟨items, tpl, hvl, htpl, rfl⟩ := visit_call_inv isD d al "length" (by decide) args ps hv
  match args, ih, hs, hm, hvl, htpl with
  | .cons a0 .nil, ih, hs, hm, hvl, htpl =>
    cases h0 : mirror isD d al a0 with
    | none => simp [mirrorCall', h0] at hm
    | some t0 =>
    obtain ⟨p0, rfl, c0⟩ := ihl_one isD d al ih h0 hvl
    have hp8 := callPrec "length" (.cons a0 .nil) 8 (by decide)
    simp only [Exprs.toList, List.map_cons, List.map_nil] at htpl ⊢
    have e1 : tyIsStr = isStrTy := rfl
    have e2 : tyIsList = isListTy := rfl
    cases d with
    | sqlite =>
      simp [mirrorCall', h0] at hm; subst hm
      simp [selectTpl] at htpl; subst htpl
      exact tpl_call1 _ hp8 "LENGTH" (by decide) c0
    | std =>
      by_cases hty : (isStrTy (inferType a0) || inferType a0 == none) = true
      · simp only [mirrorCall', h0, hty] at hm; simp at hm; subst hm
        simp only [selectTpl, e1, e2, List.getD_cons_zero, hty] at htpl; simp at htpl; subst htpl
        exact tpl_call1 _ hp8 "CHAR_LENGTH" (by decide) c0
      · by_cases hl : isListTy (inferType a0) = true
        · simp only [mirrorCall', h0, hty, hl] at hm; simp at hm; subst hm
          simp only [selectTpl, e1, e2, List.getD_cons_zero, hty, hl] at htpl; simp at htpl; subst htpl
          exact tpl_call1 _ hp8 "CARDINALITY" (by decide) c0
        · simp only [mirrorCall', h0, hty, hl] at hm; simp at hm
    | athena =>
      by_cases hty : (isStrTy (inferType a0) || inferType a0 == none) = true
      · simp only [mirrorCall', h0, hty] at hm; simp at hm; subst hm
        simp only [selectTpl, e1, e2, List.getD_cons_zero, hty] at htpl; simp at htpl; subst htpl
        exact tpl_call1 _ hp8 "LENGTH" (by decide) c0
      · by_cases hl : isListTy (inferType a0) = true
        · simp only [mirrorCall', h0, hty, hl] at hm; simp at hm; subst hm
          simp only [selectTpl, e1, e2, List.getD_cons_zero, hty, hl] at htpl; simp at htpl; subst htpl
          exact tpl_call1 _ hp8 "CARDINALITY" (by decide) c0
        · simp only [mirrorCall', h0, hty, hl] at hm; simp at hm
  | .nil, _, _, hm, _, _ => simp [mirrorCall'] at hm
  | .cons _ (.cons _ _), _, _, hm, _, _ => simp [mirrorCall'] at hm

theorem call_concat (args : Exprs) (t : SqlTree) (ps : List Piece) (ih : IHL isD d al args)
    (hs : sqlSafe d (.call ⟨"concat".toList, []⟩ args) = true)
    (hm : mirrorCall' isD d al "concat" args = some t)
    (hv : sqlVisit isD d al (.call ⟨"concat".toList, []⟩ args) = .ok ps) :
    CoreR (.call ⟨"concat".toList, []⟩ args) t ps := by
  obtain ⟨items, tpl, hvl, htpl, rfl⟩ := visit_call_inv isD d al "concat" (by decide) args ps hv
  match args, ih, hs, hm, hvl, htpl with
  | .cons a0 (.cons a1 .nil), ih, hs, hm, hvl, htpl =>
    cases h0 : mirror isD d al a0 with
    | none => simp [mirrorCall', h0] at hm
    | some t0 =>
    cases h1 : mirror isD d al a1 with
    | none => simp [mirrorCall', h0, h1] at hm
    | some t1 =>
    obtain ⟨p0, p1, rfl, c0, c1⟩ := ihl_two isD d al ih h0 h1 hvl
    simp only [Exprs.toList, List.map_cons, List.map_nil] at htpl ⊢
    simp [mirrorCall', h0, h1] at hm; subst hm
    simp [selectTpl] at htpl; subst htpl
    simp [sqlSafe] at hs
    exact tpl_concat _ (callPrec "concat" _ 5 (by decide)) rfl c0 c1 hs.2.1 hs.2.2
  | .nil, _, _, hm, _, _ => simp [mirrorCall'] at hm
  | .cons _ .nil, _, _, hm, _, _ => simp [mirrorCall'] at hm
  | .cons _ (.cons _ (.cons _ _)), _, _, hm, _, _ => simp [mirrorCall'] at hm

theorem call_contains (args : Exprs) (t : SqlTree) (ps : List Piece) (ih : IHL isD d al args)
    (hs : sqlSafe d (.call ⟨"contains".toList, []⟩ args) = true)
    (hm : mirrorCall' isD d al "contains" args = some t)
    (hv : sqlVisit isD d al (.call ⟨"contains".toList, []⟩ args) = .ok ps) :
    CoreR (.call ⟨"contains".toList, []⟩ args) t ps := by
  obtain ⟨items, tpl, hvl, htpl, rfl⟩ := visit_call_inv isD d al "contains" (by decide) args ps hv
  match args, ih, hs, hm, hvl, htpl with
  | .cons a0 (.cons a1 .nil), ih, hs, hm, hvl, htpl =>
    cases h0 : mirror isD d al a0 with
    | none => simp [mirrorCall', h0] at hm
    | some t0 =>
    cases h1 : mirror isD d al a1 with
    | none => simp [mirrorCall', h0, h1] at hm
    | some t1 =>
    obtain ⟨p0, p1, rfl, c0, c1⟩ := ihl_two isD d al ih h0 h1 hvl
    simp only [Exprs.toList, List.map_cons, List.map_nil] at htpl ⊢
    by_cases hso : strOverload [inferType a0, inferType a1] = true
    · simp [mirrorCall', h0, h1, hso] at hm; subst hm
      simp [selectTpl, likeTpl, overload_str hso] at htpl; subst htpl
      simp [sqlSafe] at hs
      exact tpl_like _ (callPrec "contains" _ 4 (by decide)) ['%'] ['%'] c0 c1 hs.2.1 (by simpa using hs.2.2)
    · simp [mirrorCall', hso] at hm
  | .nil, _, _, hm, _, _ => simp [mirrorCall'] at hm
  | .cons _ .nil, _, _, hm, _, _ => simp [mirrorCall'] at hm
  | .cons _ (.cons _ (.cons _ _)), _, _, hm, _, _ => simp [mirrorCall'] at hm

theorem call_startswith (args : Exprs) (t : SqlTree) (ps : List Piece) (ih : IHL isD d al args)
    (hs : sqlSafe d (.call ⟨"startswith".toList, []⟩ args) = true)
    (hm : mirrorCall' isD d al "startswith" args = some t)
    (hv : sqlVisit isD d al (.call ⟨"startswith".toList, []⟩ args) = .ok ps) :
    CoreR (.call ⟨"startswith".toList, []⟩ args) t ps := by
  obtain ⟨items, tpl, hvl, htpl, rfl⟩ := visit_call_inv isD d al "startswith" (by decide) args ps hv
  match args, ih, hs, hm, hvl, htpl with
  | .cons a0 (.cons a1 .nil), ih, hs, hm, hvl, htpl =>
    cases h0 : mirror isD d al a0 with
    | none => simp [mirrorCall', h0] at hm
    | some t0 =>
    cases h1 : mirror isD d al a1 with
    | none => simp [mirrorCall', h0, h1] at hm
    | some t1 =>
    obtain ⟨p0, p1, rfl, c0, c1⟩ := ihl_two isD d al ih h0 h1 hvl
    simp only [Exprs.toList, List.map_cons, List.map_nil] at htpl ⊢
    by_cases hso : strOverload [inferType a0, inferType a1] = true
    · simp [mirrorCall', h0, h1, hso] at hm; subst hm
      simp [selectTpl, likeTpl, overload_str hso] at htpl; subst htpl
      simp [sqlSafe] at hs
      exact tpl_like _ (callPrec "startswith" _ 4 (by decide)) [] ['%'] c0 c1 hs.2.1 (by simpa using hs.2.2)
    · simp [mirrorCall', hso] at hm
  | .nil, _, _, hm, _, _ => simp [mirrorCall'] at hm
  | .cons _ .nil, _, _, hm, _, _ => simp [mirrorCall'] at hm
  | .cons _ (.cons _ (.cons _ _)), _, _, hm, _, _ => simp [mirrorCall'] at hm

theorem call_endswith (args : Exprs) (t : SqlTree) (ps : List Piece) (ih : IHL isD d al args)
    (hs : sqlSafe d (.call ⟨"endswith".toList, []⟩ args) = true)
    (hm : mirrorCall' isD d al "endswith" args = some t)
    (hv : sqlVisit isD d al (.call ⟨"endswith".toList, []⟩ args) = .ok ps) :
    CoreR (.call ⟨"endswith".toList, []⟩ args) t ps := by
  obtain ⟨items, tpl, hvl, htpl, rfl⟩ := visit_call_inv isD d al "endswith" (by decide) args ps hv
  match args, ih, hs, hm, hvl, htpl with
  | .cons a0 (.cons a1 .nil), ih, hs, hm, hvl, htpl =>
    cases h0 : mirror isD d al a0 with
    | none => simp [mirrorCall', h0] at hm
    | some t0 =>
    cases h1 : mirror isD d al a1 with
    | none => simp [mirrorCall', h0, h1] at hm
    | some t1 =>
    obtain ⟨p0, p1, rfl, c0, c1⟩ := ihl_two isD d al ih h0 h1 hvl
    simp only [Exprs.toList, List.map_cons, List.map_nil] at htpl ⊢
    by_cases hso : strOverload [inferType a0, inferType a1] = true
    · simp [mirrorCall', h0, h1, hso] at hm; subst hm
      simp [selectTpl, likeTpl, overload_str hso] at htpl; subst htpl
      simp [sqlSafe] at hs
      exact tpl_like _ (callPrec "endswith" _ 4 (by decide)) ['%'] [] c0 c1 hs.2.1 (by simpa using hs.2.2)
    · simp [mirrorCall', hso] at hm
  | .nil, _, _, hm, _, _ => simp [mirrorCall'] at hm
  | .cons _ .nil, _, _, hm, _, _ => simp [mirrorCall'] at hm
  | .cons _ (.cons _ (.cons _ _)), _, _, hm, _, _ => simp [mirrorCall'] at hm

theorem call_indexof (args : Exprs) (t : SqlTree) (ps : List Piece) (ih : IHL isD d al args)
    (hs : sqlSafe d (.call ⟨"indexof".toList, []⟩ args) = true)
    (hm : mirrorCall' isD d al "indexof" args = some t)
    (hv : sqlVisit isD d al (.call ⟨"indexof".toList, []⟩ args) = .ok ps) :
    CoreR (.call ⟨"indexof".toList, []⟩ args) t ps := by
  obtain ⟨items, tpl, hvl, htpl, rfl⟩ := visit_call_inv isD d al "indexof" (by decide) args ps hv
  match args, ih, hs, hm, hvl, htpl with
  | .cons a0 (.cons a1 .nil), ih, hs, hm, hvl, htpl =>
    cases h0 : mirror isD d al a0 with
    | none => simp [mirrorCall', h0] at hm
    | some t0 =>
    cases h1 : mirror isD d al a1 with
    | none => simp [mirrorCall', h0, h1] at hm
    | some t1 =>
    obtain ⟨p0, p1, rfl, c0, c1⟩ := ihl_two isD d al ih h0 h1 hvl
    simp only [Exprs.toList, List.map_cons, List.map_nil] at htpl ⊢
    have hp5 := callPrec "indexof" (.cons a0 (.cons a1 .nil)) 5 (by decide)
    by_cases hso : strOverload [inferType a0, inferType a1] = true
    · cases d with
      | sqlite =>
        simp [mirrorCall', h0, h1, hso] at hm; subst hm
        simp [selectTpl, overload_str hso] at htpl; subst htpl
        exact tpl_indexof_sqlite _ hp5 rfl c0 c1
      | std =>
        simp [sqlSafe] at hs
        simp [mirrorCall', h0, h1, hso] at hm; subst hm
        simp [selectTpl, overload_str hso] at htpl; subst htpl
        exact tpl_indexof_std _ hp5 rfl c0 c1 hs.2.1 hs.2.2
      | athena =>
        simp [sqlSafe] at hs
        simp [mirrorCall', h0, h1, hso] at hm; subst hm
        simp [selectTpl, overload_str hso] at htpl; subst htpl
        exact tpl_indexof_std _ hp5 rfl c0 c1 hs.2.1 hs.2.2
    · simp [mirrorCall', hso] at hm
  | .nil, _, _, hm, _, _ => simp [mirrorCall'] at hm
  | .cons _ .nil, _, _, hm, _, _ => simp [mirrorCall'] at hm
  | .cons _ (.cons _ (.cons _ _)), _, _, hm, _, _ => simp [mirrorCall'] at hm

theorem call_hassubset (args : Exprs) (t : SqlTree) (ps : List Piece) (ih : IHL isD d al args)
    (hs : sqlSafe d (.call ⟨"hassubset".toList, []⟩ args) = true)
    (hm : mirrorCall' isD d al "hassubset" args = some t)
    (hv : sqlVisit isD d al (.call ⟨"hassubset".toList, []⟩ args) = .ok ps) :
    CoreR (.call ⟨"hassubset".toList, []⟩ args) t ps := by
  obtain ⟨items, tpl, hvl, htpl, rfl⟩ := visit_call_inv isD d al "hassubset" (by decide) args ps hv
  match args, ih, hs, hm, hvl, htpl with
  | .cons a0 (.cons a1 .nil), ih, hs, hm, hvl, htpl =>
    cases h0 : mirror isD d al a0 with
    | none => simp [mirrorCall', h0] at hm
    | some t0 =>
    cases h1 : mirror isD d al a1 with
    | none => simp [mirrorCall', h0, h1] at hm
    | some t1 =>
    obtain ⟨p0, p1, rfl, c0, c1⟩ := ihl_two isD d al ih h0 h1 hvl
    simp only [Exprs.toList, List.map_cons, List.map_nil] at htpl ⊢
    cases d with
    | athena =>
      simp [mirrorCall', h0, h1] at hm; subst hm
      simp [selectTpl] at htpl; subst htpl
      exact tpl_hassubset _ (callPrec "hassubset" _ 4 (by decide)) c0 c1
    | std => simp [mirrorCall'] at hm
    | sqlite => simp [mirrorCall'] at hm
  | .nil, _, _, hm, _, _ => simp [mirrorCall'] at hm
  | .cons _ .nil, _, _, hm, _, _ => simp [mirrorCall'] at hm
  | .cons _ (.cons _ (.cons _ _)), _, _, hm, _, _ => simp [mirrorCall'] at hm

theorem call_now (args : Exprs) (t : SqlTree) (ps : List Piece) (ih : IHL isD d al args)
    (hs : sqlSafe d (.call ⟨"now".toList, []⟩ args) = true)
    (hm : mirrorCall' isD d al "now" args = some t)
    (hv : sqlVisit isD d al (.call ⟨"now".toList, []⟩ args) = .ok ps) :
    CoreR (.call ⟨"now".toList, []⟩ args) t ps := by
  obtain ⟨items, tpl, hvl, htpl, rfl⟩ := visit_call_inv isD d al "now" (by decide) args ps hv
  match args, hm, hvl, htpl with
  | .nil, hm, hvl, htpl =>
    have := ihl_zero isD d al hvl; subst this
    have hp8 := callPrec "now" .nil 8 (by decide)
    simp only [Exprs.toList, List.map_nil] at htpl ⊢
    have hkw : CoreR (.call ⟨"now".toList, []⟩ .nil) (.kw (S "CURRENT_TIMESTAMP")) (instantiate [tw "CURRENT_TIMESTAMP"] [] []) := by
      apply core_of_atom hp8
      simpa [instantiate, instItem, tw, S] using atom_kw "CURRENT_TIMESTAMP".toList (by decide) (by decide)
    cases d with
    | sqlite =>
      simp [mirrorCall'] at hm; subst hm
      simp [selectTpl] at htpl; subst htpl
      apply core_of_atom hp8
      simpa [instantiate, tcall, tcall.join, instItem, tw, tlp, trp, tstr, S, one] using atom_call_str "DATETIME" (by decide) "now".toList
    | std =>
      simp [mirrorCall'] at hm; subst hm
      simp [selectTpl] at htpl; subst htpl
      exact hkw
    | athena =>
      simp [mirrorCall'] at hm; subst hm
      simp [selectTpl] at htpl; subst htpl
      exact hkw
  | .cons _ _, hm, _, _ => simp [mirrorCall'] at hm

end

theorem not_list_of_str {ty : Option Ty} (h : (isStrTy ty || ty == none) = true) : isListTy ty = false := by
  cases ty with
  | none => rfl
  | some x => cases x <;> simp [isStrTy, isListTy] at *

section
variable (isD : Char → Bool) (d : Dialect) (al : Option Str)

theorem call_substring (args : Exprs) (t : SqlTree) (ps : List Piece) (ih : IHL isD d al args)
    (hs : sqlSafe d (.call ⟨"substring".toList, []⟩ args) = true)
    (hm : mirrorCall' isD d al "substring" args = some t)
    (hv : sqlVisit isD d al (.call ⟨"substring".toList, []⟩ args) = .ok ps) :
    CoreR (.call ⟨"substring".toList, []⟩ args) t ps := by
  obtain ⟨items, tpl, hvl, htpl, rfl⟩ := visit_call_inv isD d al "substring" (by decide) args ps hv
  have e1 : tyIsStr = isStrTy := rfl
  have e2 : tyIsList = isListTy := rfl
  match args, ih, hs, hm, hvl, htpl with
  | .cons a0 (.cons a1 .nil), ih, hs, hm, hvl, htpl =>
    cases h0 : mirror isD d al a0 with
    | none => simp [mirrorCall', h0] at hm
    | some t0 =>
    cases h1 : mirror isD d al a1 with
    | none => simp [mirrorCall', h0, h1] at hm
    | some t1 =>
    obtain ⟨p0, p1, rfl, c0, c1⟩ := ihl_two isD d al ih h0 h1 hvl
    have hp8 := callPrec "substring" (.cons a0 (.cons a1 .nil)) 8 (by decide)
    simp only [Exprs.toList, List.map_cons, List.map_nil] at htpl ⊢
    by_cases hty : (isStrTy (inferType a0) || inferType a0 == none) = true
    · have hnl := not_list_of_str hty
      cases d with
      | std =>
        simp [sqlSafe, hnl] at hs
        simp only [mirrorCall', h0, h1, hty] at hm; simp at hm; subst hm
        simp only [selectTpl, e1, e2, List.getD_cons_zero, hty] at htpl; simp at htpl; subst htpl
        exact tpl_substring2_std _ hp8 c0 c1 hs.2.2 hs.2.1.1 hs.2.1.2
      | sqlite =>
        simp [sqlSafe, hnl] at hs
        simp only [mirrorCall', h0, h1, hty] at hm; simp at hm; subst hm
        simp only [selectTpl, e1, e2, List.getD_cons_zero, hty] at htpl; simp at htpl; subst htpl
        exact tpl_substr2 _ hp8 c0 c1 hs.2.1 hs.2.2
      | athena =>
        simp [sqlSafe, hnl] at hs
        simp only [mirrorCall', h0, h1, hty] at hm; simp at hm; subst hm
        simp only [selectTpl, e1, e2, List.getD_cons_zero, hty] at htpl; simp at htpl; subst htpl
        exact tpl_substr2 _ hp8 c0 c1 hs.2.1 hs.2.2
    · by_cases hl : isListTy (inferType a0) = true
      · cases d with
        | athena =>
          simp only [mirrorCall', h0, h1, hty, hl] at hm; simp at hm; subst hm
          simp only [selectTpl, e1, e2, List.getD_cons_zero, hty, hl] at htpl; simp at htpl; subst htpl
          exact tpl_call2 _ hp8 "SLICE" (by decide) c0 c1
        | std => simp only [mirrorCall', h0, h1, hty, hl] at hm; simp at hm
        | sqlite => simp only [mirrorCall', h0, h1, hty, hl] at hm; simp at hm
      · simp only [mirrorCall', h0, h1, hty, hl] at hm; simp at hm
  | .cons a0 (.cons a1 (.cons a2 .nil)), ih, hs, hm, hvl, htpl =>
    cases h0 : mirror isD d al a0 with
    | none => simp [mirrorCall', h0] at hm
    | some t0 =>
    cases h1 : mirror isD d al a1 with
    | none => simp [mirrorCall', h0, h1] at hm
    | some t1 =>
    cases h2 : mirror isD d al a2 with
    | none => simp [mirrorCall', h0, h1, h2] at hm
    | some t2 =>
    obtain ⟨p0, p1, p2, rfl, c0, c1, c2⟩ := ihl_three isD d al ih h0 h1 h2 hvl
    have hp8 := callPrec "substring" (.cons a0 (.cons a1 (.cons a2 .nil))) 8 (by decide)
    simp only [Exprs.toList, List.map_cons, List.map_nil] at htpl ⊢
    by_cases hty : (isStrTy (inferType a0) || inferType a0 == none) = true
    · have hnl := not_list_of_str hty
      cases d with
      | std =>
        simp [sqlSafe, hnl] at hs
        simp only [mirrorCall', h0, h1, h2, hty] at hm; simp at hm; subst hm
        simp only [selectTpl, e1, e2, List.getD_cons_zero, hty] at htpl; simp at htpl; subst htpl
        exact tpl_substring3_std _ hp8 c0 c1 c2 hs.2.2.1 hs.2.1.1 hs.2.2.2 hs.2.1.2
      | sqlite =>
        simp [sqlSafe, hnl] at hs
        simp only [mirrorCall', h0, h1, h2, hty] at hm; simp at hm; subst hm
        simp only [selectTpl, e1, e2, List.getD_cons_zero, hty] at htpl; simp at htpl; subst htpl
        exact tpl_substr3 _ hp8 c0 c1 c2 hs.2.1 hs.2.2
      | athena =>
        simp [sqlSafe, hnl] at hs
        simp only [mirrorCall', h0, h1, h2, hty] at hm; simp at hm; subst hm
        simp only [selectTpl, e1, e2, List.getD_cons_zero, hty] at htpl; simp at htpl; subst htpl
        exact tpl_substr3 _ hp8 c0 c1 c2 hs.2.1 hs.2.2
    · by_cases hl : isListTy (inferType a0) = true
      · cases d with
        | athena =>
          simp only [mirrorCall', h0, h1, h2, hty, hl] at hm; simp at hm; subst hm
          simp only [selectTpl, e1, e2, List.getD_cons_zero, hty, hl] at htpl; simp at htpl; subst htpl
          exact tpl_call3 _ hp8 "SLICE" (by decide) c0 c1 c2
        | std => simp only [mirrorCall', h0, h1, h2, hty, hl] at hm; simp at hm
        | sqlite => simp only [mirrorCall', h0, h1, h2, hty, hl] at hm; simp at hm
      · simp only [mirrorCall', h0, h1, h2, hty, hl] at hm; simp at hm
  | .nil, _, _, hm, _, _ => simp [mirrorCall'] at hm
  | .cons _ .nil, _, _, hm, _, _ => simp [mirrorCall'] at hm
  | .cons _ (.cons _ (.cons _ (.cons _ _))), _, _, hm, _, _ => simp [mirrorCall'] at hm
end

/-! ## §6 assembly -/

section
variable (isD : Char → Bool) (d : Dialect) (al : Option Str)

/-- the statement proved by structural recursion -/
def Goal (e : Expr) : Prop :=
  ∀ t ps, litOk isD d e = true → sqlSafe d e = true → mirror isD d al e = some t →
    sqlVisit isD d al e = .ok ps → CoreR e t ps

def GoalL (xs : Exprs) : Prop := litOkList isD d xs = true → sqlSafeList d xs = true → IHL isD d al xs

theorem goal_ident (i : Ident) : Goal isD d al (.ident i) := by
  intro t ps _ _ hm hv
  rw [mirror] at hm; rw [sqlVisit] at hv
  cases hm; cases hv
  exact ident_core d al i

theorem goal_lit (k : LitKind) (v : Str) : Goal isD d al (.lit k v) := by
  intro t ps hl _ hm hv
  rw [mirror] at hm; rw [sqlVisit] at hv; rw [litOk] at hl
  exact lit_core isD d k v t ps hl hm hv

theorem goal_attr (o : Expr) (n : Str) : Goal isD d al (.attr o n) := by
  intro t ps _ _ hm _; rw [mirror] at hm; cases hm
theorem goal_named (n : Ident) (e : Expr) : Goal isD d al (.named n e) := by
  intro t ps _ _ hm _; rw [mirror] at hm; cases hm
theorem goal_coll (o : Expr) (op : CollOp) (l : OptLam) : Goal isD d al (.coll o op l) := by
  intro t ps _ _ hm _; rw [mirror] at hm; cases hm

theorem goal_unary (op : UnOp) (e : Expr) (ih : Goal isD d al e) : Goal isD d al (.unary op e) := by
  intro t ps hl hs hm hv
  rw [mirror] at hm; rw [sqlVisit] at hv; rw [litOk] at hl; rw [sqlSafe] at hs
  cases he : mirror isD d al e with
  | none => simp [he] at hm
  | some te =>
    simp only [he, Option.bind_eq_bind, Option.bind_some, Option.pure_def, Option.some.injEq] at hm; subst hm
    obtain ⟨es, hes, hv⟩ := outcome_bind_ok hv
    cases hv
    exact core_unary op e te es (ih te es hl hs he hes)

theorem goal_binop (op : ArithOp) (l r : Expr) (ihl : Goal isD d al l) (ihr : Goal isD d al r) :
    Goal isD d al (.binop op l r) := by
  intro t ps hl hs hm hv
  rw [mirror] at hm; rw [sqlVisit] at hv; rw [litOk] at hl; rw [sqlSafe] at hs
  simp only [Bool.and_eq_true] at hl hs
  cases h1 : mirror isD d al l with
  | none => simp [h1] at hm
  | some tl =>
  cases h2 : mirror isD d al r with
  | none => simp [h1, h2] at hm
  | some tr =>
    simp [h1, h2] at hm; subst hm
    obtain ⟨ls, hls, hv⟩ := outcome_bind_ok hv
    obtain ⟨rs, hrs, hv⟩ := outcome_bind_ok hv
    cases hv
    exact core_binop op l r tl tr ls rs (ihl tl ls hl.1 hs.1.1 h1 hls) (ihr tr rs hl.2 hs.1.2 h2 hrs) hs.2

theorem goal_boolop (op : BoolOp) (l r : Expr) (ihl : Goal isD d al l) (ihr : Goal isD d al r) :
    Goal isD d al (.boolop op l r) := by
  intro t ps hl hs hm hv
  rw [mirror] at hm; rw [sqlVisit] at hv; rw [litOk] at hl; rw [sqlSafe] at hs
  simp only [Bool.and_eq_true] at hl hs
  cases h1 : mirror isD d al l with
  | none => simp [h1] at hm
  | some tl =>
  cases h2 : mirror isD d al r with
  | none => simp [h1, h2] at hm
  | some tr =>
    simp only [h1, h2, Option.bind_eq_bind, Option.bind_some, Option.pure_def, Option.some.injEq] at hm; subst hm
    obtain ⟨ls, hls, hv⟩ := outcome_bind_ok hv
    obtain ⟨rs, hrs, hv⟩ := outcome_bind_ok hv
    cases hv
    exact core_boolop op l r tl tr ls rs (ihl tl ls hl.1 hs.1 h1 hls) (ihr tr rs hl.2 hs.2 h2 hrs)

end

section
variable (isD : Char → Bool) (d : Dialect) (al : Option Str)

theorem isNullLit_inv {r : Expr} (h : isNullLit r = true) : ∃ v, r = .lit .null v := by
  cases r <;> simp [isNullLit] at h
  rename_i k v
  cases k <;> simp at h
  exact ⟨v, rfl⟩

theorem goal_compare (op : CmpOp) (hop : op ≠ .in_) (l r : Expr) (ihl : Goal isD d al l) (ihr : Goal isD d al r) :
    Goal isD d al (.compare op l r) := by
  intro t ps hl hs hm hv
  rw [mirror] at hm
  rotate_left
  · intro xs h; exact absurd h hop
  · intro h; exact absurd h hop
  rw [sqlVisit] at hv; rw [litOk] at hl; rw [sqlSafe] at hs
  simp only [Bool.and_eq_true] at hl hs
  cases h1 : mirror isD d al l with
  | none => simp [h1] at hm
  | some tl =>
  cases h2 : mirror isD d al r with
  | none => simp [h1, h2] at hm
  | some tr =>
    simp only [h1, h2, Option.bind_eq_bind, Option.bind_some] at hm
    obtain ⟨ls, hls, hv⟩ := outcome_bind_ok hv
    obtain ⟨rs, hrs, hv⟩ := outcome_bind_ok hv
    by_cases hc : (isNullLit l && (op == CmpOp.eq || op == CmpOp.ne)) = true
    · -- `null eq x` / `null ne x`: operands swapped
      rw [if_pos hc] at hv
      cases hv
      simp only [Bool.and_eq_true, Bool.or_eq_true, beq_iff_eq] at hc
      obtain ⟨v, rfl⟩ := isNullLit_inv hc.1
      have cr := ihr tr rs hl.2 hs.2 h2 hrs
      rw [mirror] at h1; rw [sqlVisit] at hls
      simp [litMirror] at h1; simp [litPieces] at hls
      subst h1 hls
      rcases hc.2 with rfl | rfl
      · cases hm
        exact core_is_null_swap r _ tr rs cr
      · cases hm
        exact core_isnot_null_swap r _ tr rs cr
    rw [if_neg hc] at hv
    cases hv
    have cl := ihl tl ls hl.1 hs.1 h1 hls
    split at hm
    · exact absurd (by simp [isNullLit]) hc
    · exact absurd (by simp [isNullLit]) hc
    · -- `= null`
      cases hm
      rw [mirror] at h2; rw [sqlVisit] at hrs
      simp [litMirror] at h2; simp [litPieces] at hrs
      subst h2 hrs
      exact core_is_null l _ tl ls cl
    · cases hm
      rw [mirror] at h2; rw [sqlVisit] at hrs
      simp [litMirror] at h2; simp [litPieces] at hrs
      subst h2 hrs
      exact core_isnot_null l _ tl ls cl
    · rename_i x1 x2 x3 x4
      cases hm
      refine core_compare op hop l r tl tr ls rs cl (ihr tr rs hl.2 hs.2 h2 hrs) ?_
      cases hn : isNullLit r with
      | false => exact Or.inl rfl
      | true =>
        obtain ⟨v, rfl⟩ := isNullLit_inv hn
        exact Or.inr ⟨fun h => x3 v rfl h, fun h => x4 v rfl h⟩

theorem goal_in_none (l r : Expr) (hr : ∀ xs, r ≠ .list xs) : Goal isD d al (.compare .in_ l r) := by
  intro t ps _ _ hm _
  rw [mirror] at hm
  · cases hm
  · intro xs h; exact hr xs h

theorem goal_in (l : Expr) (xs : Exprs) (ihl : Goal isD d al l) (ihxs : GoalL isD d al xs) :
    Goal isD d al (.compare .in_ l (.list xs)) := by
  intro t ps hl hs hm hv
  rw [mirror] at hm
  rw [sqlVisit] at hv; rw [litOk, litOk] at hl; rw [sqlSafe, sqlSafe] at hs
  simp only [Bool.and_eq_true] at hl hs
  cases h1 : mirror isD d al l with
  | none => simp [h1] at hm
  | some tl =>
  cases h2 : mirrorList isD d al xs with
  | none => simp [h1, h2] at hm
  | some ts =>
    simp only [h1, h2, Option.bind_eq_bind, Option.bind_some, Option.pure_def, Option.some.injEq] at hm; subst hm
    obtain ⟨ls, hls, hv⟩ := outcome_bind_ok hv
    obtain ⟨rs, hrs, hv⟩ := outcome_bind_ok hv
    rw [if_neg (by simp)] at hv
    cases hv
    rw [sqlVisit] at hrs
    obtain ⟨items, hitems, hrs⟩ := outcome_bind_ok hrs
    cases hrs
    exact core_in l xs tl ts ls items (ihl tl ls hl.1 hs.1 h1 hls) (ihxs hl.2 hs.2 ts items h2 hitems)

theorem goal_list_one (a : Expr) (iha : Goal isD d al a) : Goal isD d al (.list (.cons a .nil)) := by
  intro t ps hl hs hm hv
  rw [mirror] at hm
  rw [sqlVisit] at hv; rw [litOk, litOkList, litOkList] at hl; rw [sqlSafe, sqlSafeList, sqlSafeList] at hs
  simp only [Bool.and_true] at hl hs
  obtain ⟨items, hitems, hv⟩ := outcome_bind_ok hv
  cases hv
  rw [sqlVisitList, sqlVisitList] at hitems
  obtain ⟨as, has, hitems⟩ := outcome_bind_ok hitems
  cases hitems
  exact core_list_one a t as (iha t as hl hs hm has)

theorem goal_list_row (xs : Exprs) (hne : ∀ a, xs ≠ .cons a .nil) (ihxs : GoalL isD d al xs) :
    Goal isD d al (.list xs) := by
  intro t ps hl hs hm hv
  rw [mirror] at hm
  rotate_left
  · intro a h; exact hne a h
  rw [sqlVisit] at hv; rw [litOk] at hl; rw [sqlSafe] at hs
  cases h2 : mirrorList isD d al xs with
  | none => simp [h2] at hm
  | some ts =>
    simp [h2] at hm; subst hm
    obtain ⟨items, hitems, hv⟩ := outcome_bind_ok hv
    cases hv
    have hc := ihxs hl hs ts items h2 hitems
    refine core_list_row xs ts items hc ?_
    intro e he
    subst he
    match xs, items, hc, hne with
    | .cons a .nil, _, _, hne => exact hne a rfl
    | .nil, _, hc, _ => simp [CoreRL] at hc
    | .cons _ (.cons _ _), [], hc, _ => simp [CoreRL] at hc
    | .cons _ (.cons _ _), [_], hc, _ => simp [CoreRL] at hc
    | .cons _ (.cons _ _), _ :: _ :: _, hc, _ => simp [CoreRL] at hc

theorem goalL_nil : GoalL isD d al .nil := by
  intro _ _ ts items hm hv
  rw [mirrorList] at hm; rw [sqlVisitList] at hv
  cases hm; cases hv
  trivial

theorem goalL_cons (a : Expr) (t : Exprs) (iha : Goal isD d al a) (iht : GoalL isD d al t) :
    GoalL isD d al (.cons a t) := by
  intro hl hs ts items hm hv
  rw [mirrorList] at hm; rw [sqlVisitList] at hv; rw [litOkList] at hl; rw [sqlSafeList] at hs
  simp only [Bool.and_eq_true] at hl hs
  cases h1 : mirror isD d al a with
  | none => simp [h1] at hm
  | some ta =>
  cases h2 : mirrorList isD d al t with
  | none => simp [h1, h2] at hm
  | some tt =>
    simp [h1, h2] at hm; subst hm
    obtain ⟨as, has, hv⟩ := outcome_bind_ok hv
    obtain ⟨rest, hrest, hv⟩ := outcome_bind_ok hv
    cases hv
    exact ⟨iha ta as hl.1 hs.1 h1 has, iht hl.2 hs.2 tt rest h2 hrest⟩

theorem goal_call (f : Ident) (args : Exprs) (ihargs : GoalL isD d al args) : Goal isD d al (.call f args) := by
  intro t ps hl hs hm hv
  rw [mirror] at hm
  rw [litOk] at hl
  have hsl : sqlSafeList d args = true := by
    have hs' := hs
    simp only [sqlSafe, Bool.and_eq_true] at hs'; exact hs'.1
  have ih := ihargs hl hsl
  obtain ⟨nm, ns⟩ := f
  by_cases hns : ns = []
  · subst hns
    simp only [List.isEmpty_nil, Bool.not_true, Bool.false_eq_true, if_false] at hm
    rw [mirrorCall_eq] at hm
    have hmem := mirrorCall'_name isD d al _ args t hm
    simp only [handlerNames, List.mem_cons, List.not_mem_nil, or_false] at hmem
    rcases hmem with h | h | h | h | h | h | h | h | h | h | h | h | h | h | h | h | h | h | h | h | h <;>
      (have hn := ofList_eq h; subst hn; rw [h] at hm)
    · exact call_concat isD d al args t ps ih hs hm hv
    · exact call_contains isD d al args t ps ih hs hm hv
    · exact call_startswith isD d al args t ps ih hs hm hv
    · exact call_endswith isD d al args t ps ih hs hm hv
    · exact call_indexof isD d al args t ps ih hs hm hv
    · exact call_length isD d al args t ps ih hs hm hv
    · exact call_substring isD d al args t ps ih hs hm hv
    · exact call_tolower isD d al args t ps ih hs hm hv
    · exact call_toupper isD d al args t ps ih hs hm hv
    · exact call_trim isD d al args t ps ih hs hm hv
    · exact call_year isD d al args t ps ih hs hm hv
    · exact call_month isD d al args t ps ih hs hm hv
    · exact call_day isD d al args t ps ih hs hm hv
    · exact call_hour isD d al args t ps ih hs hm hv
    · exact call_minute isD d al args t ps ih hs hm hv
    · exact call_date isD d al args t ps ih hs hm hv
    · exact call_now isD d al args t ps ih hs hm hv
    · exact call_round isD d al args t ps ih hs hm hv
    · exact call_floor isD d al args t ps ih hs hm hv
    · exact call_ceiling isD d al args t ps ih hs hm hv
    · exact call_hassubset isD d al args t ps ih hs hm hv
  · have : (!List.isEmpty ns) = true := by
      cases ns with
      | nil => exact absurd rfl hns
      | cons _ _ => rfl
    simp [this] at hm

end

section
variable (isD : Char → Bool) (d : Dialect) (al : Option Str)

mutual
theorem core : (e : Expr) → Goal isD d al e
  | .ident i => goal_ident isD d al i
  | .attr o n => goal_attr isD d al o n
  | .lit k v => goal_lit isD d al k v
  | .list .nil => goal_list_row isD d al .nil (fun _ h => by cases h) (coreL .nil)
  | .list (.cons a .nil) => goal_list_one isD d al a (core a)
  | .list (.cons a (.cons b t)) =>
      goal_list_row isD d al (.cons a (.cons b t)) (fun _ h => by cases h) (coreL (.cons a (.cons b t)))
  | .binop op l r => goal_binop isD d al op l r (core l) (core r)
  | .compare .eq l r => goal_compare isD d al .eq (by decide) l r (core l) (core r)
  | .compare .ne l r => goal_compare isD d al .ne (by decide) l r (core l) (core r)
  | .compare .lt l r => goal_compare isD d al .lt (by decide) l r (core l) (core r)
  | .compare .le l r => goal_compare isD d al .le (by decide) l r (core l) (core r)
  | .compare .gt l r => goal_compare isD d al .gt (by decide) l r (core l) (core r)
  | .compare .ge l r => goal_compare isD d al .ge (by decide) l r (core l) (core r)
  | .compare .in_ l (.list xs) => goal_in isD d al l xs (core l) (coreL xs)
  | .compare .in_ l (.ident _) => goal_in_none isD d al l _ (fun _ h => by cases h)
  | .compare .in_ l (.attr _ _) => goal_in_none isD d al l _ (fun _ h => by cases h)
  | .compare .in_ l (.lit _ _) => goal_in_none isD d al l _ (fun _ h => by cases h)
  | .compare .in_ l (.binop _ _ _) => goal_in_none isD d al l _ (fun _ h => by cases h)
  | .compare .in_ l (.compare _ _ _) => goal_in_none isD d al l _ (fun _ h => by cases h)
  | .compare .in_ l (.boolop _ _ _) => goal_in_none isD d al l _ (fun _ h => by cases h)
  | .compare .in_ l (.unary _ _) => goal_in_none isD d al l _ (fun _ h => by cases h)
  | .compare .in_ l (.named _ _) => goal_in_none isD d al l _ (fun _ h => by cases h)
  | .compare .in_ l (.call _ _) => goal_in_none isD d al l _ (fun _ h => by cases h)
  | .compare .in_ l (.coll _ _ _) => goal_in_none isD d al l _ (fun _ h => by cases h)
  | .boolop op l r => goal_boolop isD d al op l r (core l) (core r)
  | .unary op e => goal_unary isD d al op e (core e)
  | .named n e => goal_named isD d al n e
  | .call f args => goal_call isD d al f args (coreL args)
  | .coll o op l => goal_coll isD d al o op l
theorem coreL : (xs : Exprs) → GoalL isD d al xs
  | .nil => goalL_nil isD d al
  | .cons a t => goalL_cons isD d al a t (core a) (coreL t)
end

/-- the round trip at the token level -/
theorem parse_of_core (e : Expr) (t : SqlTree) (ps : List Piece) (h : CoreR e t ps) :
    sqlParse (pieceToks ps) = some t := by
  obtain ⟨a, -, ho⟩ := h
  have := ho 0 [] (t, a, []) 1 (Nat.le_refl 1) (Nat.zero_le _) rfl (evl_stop t a rfl) (sqlFuel (pieceToks ps))
    (by unfold sqlFuel; omega)
  unfold sqlParse
  rw [List.append_nil] at this
  rw [this]

end

end OQ.SqlPratt
