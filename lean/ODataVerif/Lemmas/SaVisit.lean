/- Lemmas/SaVisit.lean — helper lemmas for Props/C03.lean, part 1: equations of the SQLAlchemy visitor model on the shapes the
   typed grammar produces, the kinds / shapes of the trees it returns (no foreign exception), ORM = Core. -/
import ODataVerif.Props.C01
import ODataVerif.Spec.OrmSql
import ODataVerif.Spec.OrmSemOk
import ODataVerif.Lemmas.SqlTotal
namespace OQ.SaSound
open Spec SqliteSound SqliteLike

/-! ### Outcome -/
theorem bind_ok_inv {α β} {x : Outcome α} {f : α → Outcome β} {b : β} (h : (x >>= f) = .ok b) :
    ∃ a, x = .ok a ∧ f a = .ok b := by
  cases x with
  | ok a => exact ⟨a, rfl, h⟩
  | lib e => cases h
  | notImplemented => cases h
  | foreign c => cases h

/-! ### equations of `saVisit` on the shapes the typed grammar produces -/
section
variable (fields : List Str) (core : Bool)

theorem litParam_int (v : Str) : litParam .int v = .ok (.param .int v) := by
  have h : ∀ c, pyVal .int v ≠ .foreign c := by
    intro c
    simp only [pyVal, pyInt]
    split <;> split <;> simp
  simp only [litParam]

theorem visit_intLit (v : Str) : saVisit fields core (.lit .int v) = .ok (.param .int v, .value) := by
  rw [saVisit.eq_7 _ _ _ _ (by simp) (by simp) (by simp), litParam_int]; rfl
theorem visit_strLit (v : Str) : saVisit fields core (.lit .str v) = .ok (.param .str v, .value) := by
  rw [saVisit.eq_7 _ _ _ _ (by simp) (by simp) (by simp)]; rfl
theorem visit_boolLit (v : Str) : saVisit fields core (.lit .bool v) =
    .ok (.const (if pyLower v == "true".toList then "TRUE" else "FALSE"), .value) := saVisit.eq_5 fields core v
theorem visit_nullLit (v : Str) : saVisit fields core (.lit .null v) = .ok (.const "NULL", .value) := saVisit.eq_4 fields core v
theorem visit_id (c : Str) : saVisit fields core (idE c) =
    if fields.contains c then .ok (.col [c], .field) else .lib (.invalidField c) := saVisit.eq_1 fields core ⟨c, []⟩

def isConstT : OTree → Bool
  | .const _ => true
  | _ => false

theorem visit_binop (op : ArithOp) (l r : Expr) : saVisit fields core (.binop op l r) =
    (saVisit fields core l >>= fun p => saVisit fields core r >>= fun q =>
      if p.2 == .list || q.2 == .list then .foreign "unmodelled" else .ok (on2 (OQ.arithName op) p.1 q.1, .expr)) := by
  rw [saVisit.eq_9]; rfl
/-- the comparison when the operands are NOT swapped: the left operand is not the null literal (every left operand of the typed grammar), … -/
theorem visit_compare (op : CmpOp) (l r : Expr) (hl : isNullLit l = false) : saVisit fields core (.compare op l r) =
    (saVisit fields core l >>= fun p => saVisit fields core r >>= fun q =>
      if op == .in_ then (if p.2 == .list then .foreign "AttributeError" else .ok (on2 "in" p.1 q.1, .cond))
      else if p.2 == .list || q.2 == .list then .foreign "unmodelled"
      else if (op == .lt || op == .le || op == .gt || op == .ge) && (isConstT p.1 || isConstT q.1) then
        .lib (.type_ (cmpClass op).toList)
      else .ok (on2 (cmpLookup op) p.1 q.1, .cond)) := by
  rw [saVisit.eq_10]; simp only [hl, Bool.false_and, Bool.false_eq_true, if_false]; rfl
/-- … or the comparator is `in` -/
theorem visit_compare_in (l r : Expr) : saVisit fields core (.compare .in_ l r) =
    (saVisit fields core l >>= fun p => saVisit fields core r >>= fun q =>
      if CmpOp.in_ == CmpOp.in_ then (if p.2 == .list then .foreign "AttributeError" else .ok (on2 "in" p.1 q.1, .cond))
      else if p.2 == .list || q.2 == .list then .foreign "unmodelled"
      else if (CmpOp.in_ == .lt || CmpOp.in_ == .le || CmpOp.in_ == .gt || CmpOp.in_ == .ge) && (isConstT p.1 || isConstT q.1) then
        .lib (.type_ (cmpClass .in_).toList)
      else .ok (on2 (cmpLookup .in_) p.1 q.1, .cond)) := by
  rw [saVisit.eq_10]
  simp only [show (CmpOp.in_ == CmpOp.eq) = false from rfl, show (CmpOp.in_ == CmpOp.ne) = false from rfl, Bool.or_false,
    Bool.and_false, Bool.false_eq_true, if_false]
  rfl
theorem visit_boolop (op : BoolOp) (l r : Expr) : saVisit fields core (.boolop op l r) =
    (saVisit fields core l >>= fun p => saVisit fields core r >>= fun q =>
      .ok (on2 (if op == .and_ then "and" else "or") p.1 q.1, .cond)) := by
  rw [saVisit.eq_11]; rfl
theorem visit_unary (op : UnOp) (e : Expr) : saVisit fields core (.unary op e) =
    (saVisit fields core e >>= fun p =>
      if op == .not_ then .ok (on1 "not" p.1, .cond) else .lib (.type_ "USub".toList)) := by
  rw [saVisit.eq_12]; rfl
theorem visit_list (xs : Exprs) : saVisit fields core (.list xs) =
    (saVisitList fields core xs >>= fun items => .ok (.node "list" (OTrees.ofList items), .list)) := by
  rw [saVisit.eq_8]; rfl
theorem visitList_nil : saVisitList fields core .nil = .ok [] := saVisitList.eq_1 fields core
theorem visitList_cons (h : Expr) (t : Exprs) : saVisitList fields core (.cons h t) =
    (saVisit fields core h >>= fun p => saVisitList fields core t >>= fun rest => .ok (p.1 :: rest)) := by
  rw [saVisitList.eq_2]; rfl

theorem visit_length (a : Expr) : saVisit fields core (.call ⟨"length".toList, []⟩ (.cons a .nil)) =
    (saVisit fields core a >>= fun p => .ok (on1 "char_length" p.1, .expr)) := by
  rw [saVisit.eq_14, show String.ofList (pyLower (funcKey ⟨"length".toList, []⟩)) = "length" by decide,
    if_neg (by decide), saFunc.eq_4]; rfl
theorem visit_tolower (a : Expr) : saVisit fields core (.call ⟨"tolower".toList, []⟩ (.cons a .nil)) =
    (saVisit fields core a >>= fun p => .ok (on1 "lower" p.1, .expr)) := by
  rw [saVisit.eq_14, show String.ofList (pyLower (funcKey ⟨"tolower".toList, []⟩)) = "tolower" by decide,
    if_neg (by decide), saFunc.eq_13]; rfl
theorem visit_toupper (a : Expr) : saVisit fields core (.call ⟨"toupper".toList, []⟩ (.cons a .nil)) =
    (saVisit fields core a >>= fun p => .ok (on1 "upper" p.1, .expr)) := by
  rw [saVisit.eq_14, show String.ofList (pyLower (funcKey ⟨"toupper".toList, []⟩)) = "toupper" by decide,
    if_neg (by decide), saFunc.eq_14]; rfl
theorem visit_trim (a : Expr) : saVisit fields core (.call ⟨"trim".toList, []⟩ (.cons a .nil)) =
    (saVisit fields core a >>= fun p => .ok (on1 "ltrim" (on1 "rtrim" p.1), .expr)) := by
  rw [saVisit.eq_14, show String.ofList (pyLower (funcKey ⟨"trim".toList, []⟩)) = "trim" by decide,
    if_neg (by decide), saFunc.eq_15]; rfl
theorem visit_indexof (a b : Expr) : saVisit fields core (.call ⟨"indexof".toList, []⟩ (.cons a (.cons b .nil))) =
    (saVisit fields core a >>= fun p => saVisit fields core b >>= fun q =>
      .ok (on2 "-" (on2 "strpos" p.1 q.1) (.pint 1), .expr)) := by
  rw [saVisit.eq_14, show String.ofList (pyLower (funcKey ⟨"indexof".toList, []⟩)) = "indexof" by decide,
    if_neg (by decide), saFunc.eq_6]; rfl
theorem visit_concat (args : Exprs) : saVisit fields core (.call ⟨"concat".toList, []⟩ args) =
    (saVisitList fields core args >>= fun items => .ok (.node "concat" (OTrees.ofList items), .expr)) := by
  rw [saVisit.eq_14, show String.ofList (pyLower (funcKey ⟨"concat".toList, []⟩)) = "concat" by decide,
    if_neg (by decide), saFunc.eq_5]; rfl
theorem visit_substring2 (a b : Expr) : saVisit fields core (.call ⟨"substring".toList, []⟩ (.cons a (.cons b .nil))) =
    (saVisit fields core a >>= fun p => saVisit fields core b >>= fun q =>
      .ok (on2 "substr" p.1 (on2 "+" q.1 (.pint 1)), .expr)) := by
  rw [saVisit.eq_14, show String.ofList (pyLower (funcKey ⟨"substring".toList, []⟩)) = "substring" by decide,
    if_neg (by decide), saFunc.eq_8]; rfl
theorem visit_substring3 (a b c : Expr) :
    saVisit fields core (.call ⟨"substring".toList, []⟩ (.cons a (.cons b (.cons c .nil)))) =
    (saVisit fields core a >>= fun p => saVisit fields core b >>= fun q => saVisit fields core c >>= fun r =>
      .ok (on3 "substr" p.1 (on2 "+" q.1 (.pint 1)) r.1, .expr)) := by
  rw [saVisit.eq_14, show String.ofList (pyLower (funcKey ⟨"substring".toList, []⟩)) = "substring" by decide,
    if_neg (by decide), saFunc.eq_9]; rfl
theorem visit_like (k : LikeK) (a b : Expr) : saVisit fields core (.call ⟨k.name.toList, []⟩ (.cons a (.cons b .nil))) =
    (substrTypecheck a b >>= fun _ => saVisit fields core a >>= fun p => saVisit fields core b >>= fun q =>
      .ok (on2 (if litNeedsEscape b then k.name ++ "_autoescape" else k.name) p.1 q.1, .cond)) := by
  cases k
  · rw [saVisit.eq_14, show String.ofList (pyLower (funcKey ⟨LikeK.contains.name.toList, []⟩)) = "contains" by decide,
      if_neg (by decide), saFunc.eq_1]; rfl
  · rw [saVisit.eq_14, show String.ofList (pyLower (funcKey ⟨LikeK.startswith.name.toList, []⟩)) = "startswith" by decide,
      if_neg (by decide), saFunc.eq_2]; rfl
  · rw [saVisit.eq_14, show String.ofList (pyLower (funcKey ⟨LikeK.endswith.name.toList, []⟩)) = "endswith" by decide,
      if_neg (by decide), saFunc.eq_3]; rfl

/-! ### kinds and shapes of the results; no foreign exception -/
/-- a tree that is not a list and not an inline constant, or a library exception -/
def okI : Outcome (OTree × OKind) → Bool
  | .ok (t, k) => k != .list && !isConstT t
  | .lib _ => true
  | _ => false
/-- a tree that is not a list and not the NULL constant, or a library exception -/
def okB : Outcome (OTree × OKind) → Bool
  | .ok (t, k) => k != .list && !isNullConst t
  | .lib _ => true
  | _ => false

theorem okI_ok {t : OTree} {k : OKind} (h : okI (.ok (t, k)) = true) : k ≠ .list ∧ isConstT t = false := by
  simpa [okI] using h
theorem okB_ok {t : OTree} {k : OKind} (h : okB (.ok (t, k)) = true) : k ≠ .list ∧ isNullConst t = false := by
  simpa [okB] using h
theorem okB_of_okI {o : Outcome (OTree × OKind)} (h : okI o = true) : okB o = true := by
  rcases o with ⟨t, k⟩ | _ | _ | _ <;> simp_all [okI, okB]
  cases t <;> simp_all [isConstT, isNullConst]
theorem clean_of_okI {o : Outcome (OTree × OKind)} (h : okI o = true) : SqlTotal.clean o = true := by
  rcases o with ⟨t, k⟩ | _ | _ | _ <;> simp_all [okI, SqlTotal.clean]
theorem clean_of_okB {o : Outcome (OTree × OKind)} (h : okB o = true) : SqlTotal.clean o = true := by
  rcases o with ⟨t, k⟩ | _ | _ | _ <;> simp_all [okB, SqlTotal.clean]

theorem substrTypecheck_clean (a b : Expr) : SqlTotal.clean (substrTypecheck a b) = true := by
  unfold substrTypecheck
  repeat' split
  all_goals rfl

mutual
theorem okI_I : (e : IntE) → okI (saVisit fields core e.toExpr) = true
  | .lit neg ds => by rw [IntE.toExpr, visit_intLit]; rfl
  | .col c => by rw [IntE.toExpr, visit_id]; split <;> rfl
  | .neg e => by
      have h := okI_I e
      rw [IntE.toExpr, visit_unary]
      revert h; generalize saVisit fields core e.toExpr = x
      rcases x with ⟨a, ka⟩ | _ | _ | _ <;> simp [okI]
  | .arith k l r => by
      have hl := okI_I l
      have hr := okI_I r
      rw [IntE.toExpr, visit_binop]
      revert hl hr; generalize saVisit fields core l.toExpr = x; generalize saVisit fields core r.toExpr = y
      rcases x with ⟨a, ka⟩ | _ | _ | _ <;> rcases y with ⟨b, kb⟩ | _ | _ | _ <;> simp [okI, isConstT, on2]
      intro h1 _ h2 _; simp [h1, h2]
  | .length s => by
      have h := okI_S s
      rw [IntE.toExpr, visit_length]
      revert h; generalize saVisit fields core s.toExpr = x
      rcases x with ⟨a, ka⟩ | _ | _ | _ <;> simp [okI, isConstT, on1]
  | .indexof a b => by
      have hl := okI_S a
      have hr := okI_S b
      rw [IntE.toExpr, visit_indexof]
      revert hl hr; generalize saVisit fields core a.toExpr = x; generalize saVisit fields core b.toExpr = y
      rcases x with ⟨a, ka⟩ | _ | _ | _ <;> rcases y with ⟨b, kb⟩ | _ | _ | _ <;> simp [okI, isConstT, on2]
theorem okI_S : (e : StrE) → okI (saVisit fields core e.toExpr) = true
  | .lit s => by rw [StrE.toExpr, visit_strLit]; rfl
  | .col c => by rw [StrE.toExpr, visit_id]; split <;> rfl
  | .concat a b => by
      have hl := okI_S a
      have hr := okI_S b
      rw [StrE.toExpr, visit_concat, visitList_cons, visitList_cons, visitList_nil]
      revert hl hr; generalize saVisit fields core a.toExpr = x; generalize saVisit fields core b.toExpr = y
      rcases x with ⟨a, ka⟩ | _ | _ | _ <;> rcases y with ⟨b, kb⟩ | _ | _ | _ <;> simp [okI, isConstT]
  | .substring s i => by
      have hl := okI_S s
      have hr := okI_I i
      rw [StrE.toExpr, visit_substring2]
      revert hl hr; generalize saVisit fields core s.toExpr = x; generalize saVisit fields core i.toExpr = y
      rcases x with ⟨a, ka⟩ | _ | _ | _ <;> rcases y with ⟨b, kb⟩ | _ | _ | _ <;> simp [okI, isConstT, on2]
  | .substring3 s i n => by
      have hl := okI_S s
      have hr := okI_I i
      have hn := okI_I n
      rw [StrE.toExpr, visit_substring3]
      revert hl hr hn; generalize saVisit fields core s.toExpr = x; generalize saVisit fields core i.toExpr = y
      generalize saVisit fields core n.toExpr = z
      rcases x with ⟨a, ka⟩ | _ | _ | _ <;> rcases y with ⟨b, kb⟩ | _ | _ | _ <;> rcases z with ⟨c, kc⟩ | _ | _ | _ <;>
        simp [okI, isConstT, on3]
  | .tolower s => by
      have h := okI_S s
      rw [StrE.toExpr, visit_tolower]
      revert h; generalize saVisit fields core s.toExpr = x
      rcases x with ⟨a, ka⟩ | _ | _ | _ <;> simp [okI, isConstT, on1]
  | .toupper s => by
      have h := okI_S s
      rw [StrE.toExpr, visit_toupper]
      revert h; generalize saVisit fields core s.toExpr = x
      rcases x with ⟨a, ka⟩ | _ | _ | _ <;> simp [okI, isConstT, on1]
  | .trim s => by
      have h := okI_S s
      rw [StrE.toExpr, visit_trim]
      revert h; generalize saVisit fields core s.toExpr = x
      rcases x with ⟨a, ka⟩ | _ | _ | _ <;> simp [okI, isConstT, on1]
end

theorem cleanIs : (xs : List IntE) → SqlTotal.clean (saVisitList fields core (intsToExprs xs)) = true
  | [] => by rw [intsToExprs, visitList_nil]; rfl
  | e :: t => by
      have h := okI_I fields core e
      have ht := cleanIs t
      rw [intsToExprs, visitList_cons]
      revert h ht; generalize saVisit fields core e.toExpr = x; generalize saVisitList fields core (intsToExprs t) = y
      rcases x with ⟨a, ka⟩ | _ | _ | _ <;> rcases y with b | _ | _ | _ <;> simp [okI, SqlTotal.clean]
theorem cleanSs : (xs : List StrE) → SqlTotal.clean (saVisitList fields core (strsToExprs xs)) = true
  | [] => by rw [strsToExprs, visitList_nil]; rfl
  | e :: t => by
      have h := okI_S fields core e
      have ht := cleanSs t
      rw [strsToExprs, visitList_cons]
      revert h ht; generalize saVisit fields core e.toExpr = x; generalize saVisitList fields core (strsToExprs t) = y
      rcases x with ⟨a, ka⟩ | _ | _ | _ <;> rcases y with b | _ | _ | _ <;> simp [okI, SqlTotal.clean]

theorem toOp_in (k : CmpK) : (k.toOp == CmpOp.in_) = false := by cases k <;> rfl

theorem okB_ite {c : Prop} [Decidable c] {a b : Outcome (OTree × OKind)} (ha : okB a = true) (hb : okB b = true) :
    okB (if c then a else b) = true := by
  split <;> assumption

theorem okB_cmp (k : CmpK) (l r : Expr) (hn : isNullLit l = false) (hl : okB (saVisit fields core l) = true) (hr : okB (saVisit fields core r) = true) :
    okB (saVisit fields core (.compare k.toOp l r)) = true := by
  rw [visit_compare _ _ _ _ _ hn]
  revert hl hr; generalize saVisit fields core l = x; generalize saVisit fields core r = y
  rcases x with ⟨a, ka⟩ | _ | _ | _ <;> rcases y with ⟨b, kb⟩ | _ | _ | _ <;> simp [okB, toOp_in]
  intro h1 _ h2 _
  rw [if_neg (by simp [h1, h2])]
  exact okB_ite rfl (by simp [okB, isNullConst, on2])

theorem okB_in (l : Expr) (xs : Exprs) (hl : okI (saVisit fields core l) = true)
    (hxs : SqlTotal.clean (saVisitList fields core xs) = true) :
    okB (saVisit fields core (.compare .in_ l (.list xs))) = true := by
  rw [visit_compare_in, visit_list]
  revert hl hxs; generalize saVisit fields core l = x; generalize saVisitList fields core xs = y
  rcases x with ⟨a, ka⟩ | _ | _ | _ <;> rcases y with b | _ | _ | _ <;> simp [okI, okB, SqlTotal.clean]
  intro h1 _
  simp [h1, isNullConst, on2]

theorem okB_bool (op : BoolOp) (l r : Expr) (hl : okB (saVisit fields core l) = true) (hr : okB (saVisit fields core r) = true) :
    okB (saVisit fields core (.boolop op l r)) = true := by
  rw [visit_boolop]
  revert hl hr; generalize saVisit fields core l = x; generalize saVisit fields core r = y
  rcases x with ⟨a, ka⟩ | _ | _ | _ <;> rcases y with ⟨b, kb⟩ | _ | _ | _ <;> simp [okB, isNullConst, on2]

theorem okB_B : (b : BoolE) → okB (saVisit fields core b.toExpr) = true
  | .cmpI k l r => by
      rw [BoolE.toExpr]
      exact okB_cmp fields core k _ _ (C01.isNullLit_I l) (okB_of_okI (okI_I fields core l)) (okB_of_okI (okI_I fields core r))
  | .cmpS k l r => by
      rw [BoolE.toExpr]
      exact okB_cmp fields core k _ _ (C01.isNullLit_S l) (okB_of_okI (okI_S fields core l)) (okB_of_okI (okI_S fields core r))
  | .cmpB k l r => by
      rw [BoolE.toExpr]
      exact okB_cmp fields core k _ _ (C01.isNullLit_B l) (okB_B l) (okB_B r)
  | .isNull _ c negated => by
      rw [BoolE.toExpr, visit_compare _ _ _ _ _ rfl, visit_id, visit_nullLit]
      cases negated <;> (split <;> simp [okB, isNullConst, on2, isConstT])
  | .inI e xs => by
      rw [BoolE.toExpr]; exact okB_in fields core _ _ (okI_I fields core e) (cleanIs fields core xs)
  | .inS e xs => by
      rw [BoolE.toExpr]; exact okB_in fields core _ _ (okI_S fields core e) (cleanSs fields core xs)
  | .and l r => by rw [BoolE.toExpr]; exact okB_bool fields core _ _ _ (okB_B l) (okB_B r)
  | .or l r => by rw [BoolE.toExpr]; exact okB_bool fields core _ _ _ (okB_B l) (okB_B r)
  | .not e => by
      have h := okB_B e
      rw [BoolE.toExpr, visit_unary]
      revert h; generalize saVisit fields core e.toExpr = x
      rcases x with ⟨a, ka⟩ | _ | _ | _ <;> simp [okB, isNullConst, on1]
  | .like k a b => by
      have hl := okI_S fields core a
      have hr := okI_S fields core b
      have hc := substrTypecheck_clean a.toExpr b.toExpr
      rw [BoolE.toExpr, visit_like]
      revert hl hr hc; generalize saVisit fields core a.toExpr = x; generalize saVisit fields core b.toExpr = y
      generalize substrTypecheck a.toExpr b.toExpr = z
      rcases z with _ | _ | _ | _ <;> rcases x with ⟨a, ka⟩ | _ | _ | _ <;> rcases y with ⟨b, kb⟩ | _ | _ | _ <;>
        simp [okI, okB, isNullConst, on2, SqlTotal.clean]
  | .col c => by rw [BoolE.toExpr, visit_id]; split <;> rfl
  | .lit b => by rw [BoolE.toExpr, visit_boolLit]; cases b <;> rfl
end

/-! ### ORM = Core on the typed grammar -/
section
variable (fields : List Str)
mutual
theorem agreeI : (e : IntE) → saVisit fields false e.toExpr = saVisit fields true e.toExpr
  | .lit _ _ => by rw [IntE.toExpr, visit_intLit, visit_intLit]
  | .col c => by rw [IntE.toExpr, visit_id, visit_id]
  | .neg e => by rw [IntE.toExpr, visit_unary, visit_unary, agreeI e]
  | .arith k l r => by rw [IntE.toExpr, visit_binop, visit_binop, agreeI l, agreeI r]
  | .length s => by rw [IntE.toExpr, visit_length, visit_length, agreeS s]
  | .indexof a b => by rw [IntE.toExpr, visit_indexof, visit_indexof, agreeS a, agreeS b]
theorem agreeS : (e : StrE) → saVisit fields false e.toExpr = saVisit fields true e.toExpr
  | .lit _ => by rw [StrE.toExpr, visit_strLit, visit_strLit]
  | .col c => by rw [StrE.toExpr, visit_id, visit_id]
  | .concat a b => by
      rw [StrE.toExpr, visit_concat, visit_concat]
      simp only [visitList_cons, visitList_nil]
      rw [agreeS a, agreeS b]
  | .substring s i => by rw [StrE.toExpr, visit_substring2, visit_substring2, agreeS s, agreeI i]
  | .substring3 s i n => by rw [StrE.toExpr, visit_substring3, visit_substring3, agreeS s, agreeI i, agreeI n]
  | .tolower s => by rw [StrE.toExpr, visit_tolower, visit_tolower, agreeS s]
  | .toupper s => by rw [StrE.toExpr, visit_toupper, visit_toupper, agreeS s]
  | .trim s => by rw [StrE.toExpr, visit_trim, visit_trim, agreeS s]
end

theorem agreeIs : (xs : List IntE) → saVisitList fields false (intsToExprs xs) = saVisitList fields true (intsToExprs xs)
  | [] => by rw [intsToExprs, visitList_nil, visitList_nil]
  | e :: t => by rw [intsToExprs, visitList_cons, visitList_cons, agreeI fields e, agreeIs t]
theorem agreeSs : (xs : List StrE) → saVisitList fields false (strsToExprs xs) = saVisitList fields true (strsToExprs xs)
  | [] => by rw [strsToExprs, visitList_nil, visitList_nil]
  | e :: t => by rw [strsToExprs, visitList_cons, visitList_cons, agreeS fields e, agreeSs t]

theorem agreeB : (b : BoolE) → saVisit fields false b.toExpr = saVisit fields true b.toExpr
  | .cmpI k l r => by rw [BoolE.toExpr, visit_compare _ _ _ _ _ (C01.isNullLit_I l), visit_compare _ _ _ _ _ (C01.isNullLit_I l), agreeI fields l, agreeI fields r]
  | .cmpS k l r => by rw [BoolE.toExpr, visit_compare _ _ _ _ _ (C01.isNullLit_S l), visit_compare _ _ _ _ _ (C01.isNullLit_S l), agreeS fields l, agreeS fields r]
  | .cmpB k l r => by rw [BoolE.toExpr, visit_compare _ _ _ _ _ (C01.isNullLit_B l), visit_compare _ _ _ _ _ (C01.isNullLit_B l), agreeB l, agreeB r]
  | .isNull _ c n => by rw [BoolE.toExpr, visit_compare _ _ _ _ _ rfl, visit_compare _ _ _ _ _ rfl, visit_id, visit_id, visit_nullLit, visit_nullLit]
  | .inI e xs => by
      rw [BoolE.toExpr, visit_compare_in, visit_compare_in, visit_list, visit_list, agreeI fields e, agreeIs fields xs]
  | .inS e xs => by
      rw [BoolE.toExpr, visit_compare_in, visit_compare_in, visit_list, visit_list, agreeS fields e, agreeSs fields xs]
  | .and l r => by rw [BoolE.toExpr, visit_boolop, visit_boolop, agreeB l, agreeB r]
  | .or l r => by rw [BoolE.toExpr, visit_boolop, visit_boolop, agreeB l, agreeB r]
  | .not e => by rw [BoolE.toExpr, visit_unary, visit_unary, agreeB e]
  | .like k a b => by rw [BoolE.toExpr, visit_like, visit_like, agreeS fields a, agreeS fields b]
  | .col c => by rw [BoolE.toExpr, visit_id, visit_id]
  | .lit b => by rw [BoolE.toExpr, visit_boolLit, visit_boolLit]
end

end OQ.SaSound
