/- Lemmas/DjangoSoundB.lean — the soundness invariants of the three sorts for the Django visitor model composed with
   `djSql` (helper of Props/C02.lean). -/
import ODataVerif.Lemmas.DjangoSound
namespace OQ.DjangoSound
open Spec SqliteSound SqliteLike

section
variable (ρ : Row)

theorem unary_neg_not_ok {e : Expr} {r : OTree × OKind} (h : djVisit (.unary .neg e) = .ok r) : False := by
  rw [visit_unary] at h
  obtain ⟨p, _, h⟩ := bind_eq_ok h
  split at h
  · cases h
  · rw [if_pos (by decide)] at h
    cases h

mutual
theorem djSoundI : (e : IntE) → semOkDjI ρ e = true → ∀ t k, djVisit e.toExpr = .ok (t, k) →
    ∃ s, djSql t = some s ∧ sqlEval ρ s = some (valI (evalI ρ e))
  | .lit neg ds, hs, t, k, hv => by
      rw [IntE.toExpr, visit_litInt] at hv
      cases hv
      simp only [semOkDjI] at hs
      obtain ⟨s, h1, h2⟩ := eval_paramInt ρ neg ds hs
      exact ⟨s, by rw [sql_param]; exact h1, by rw [evalI]; exact h2⟩
  | .col c, hs, t, k, hv => by
      rw [IntE.toExpr, visit_ident] at hv
      cases hv
      simp only [semOkDjI] at hs
      exact ⟨.col none c, sql_col c, by rw [eval_col, evalI, C01.ofVal_int ρ c hs]⟩
  | .neg e, _, t, k, hv => by
      rw [IntE.toExpr] at hv
      exact (unary_neg_not_ok hv).elim
  | .arith k l r, hs, t, kk, hv => by
      simp only [semOkDjI, Bool.and_eq_true] at hs
      rw [IntE.toExpr, visit_binop] at hv
      obtain ⟨⟨a, ka⟩, hp, hv⟩ := bind_eq_ok hv
      obtain ⟨⟨b, kb⟩, hq, hv⟩ := bind_eq_ok hv
      dsimp only at hv
      split at hv
      · cases hv
      · cases hv
        obtain ⟨sa, hsa, hea⟩ := djSoundI l hs.1 a ka hp
        obtain ⟨sb, hsb, heb⟩ := djSoundI r hs.2 b kb hq
        refine ⟨.bin (Spec.arithName k.toOp) sa sb, by rw [sql_arith, hsa, hsb]; rfl, ?_⟩
        have : evalI ρ (.arith k l r) = lift2 (arith k) (evalI ρ l) (evalI ρ r) := by
          rw [evalI]; cases evalI ρ l <;> cases evalI ρ r <;> rfl
        rw [this]; exact eval_arith ρ k sa sb _ _ hea heb
  | .length s, hs, t, k, hv => by
      simp only [semOkDjI] at hs
      rw [IntE.toExpr, visit_length] at hv
      obtain ⟨⟨a, ka⟩, hp, hv⟩ := bind_eq_ok hv
      cases hv
      obtain ⟨sa, hsa, hea⟩ := djSoundS s hs a ka hp
      refine ⟨.call (S "LENGTH") (one sa), by rw [sql_length, hsa]; rfl, ?_⟩
      rw [evalI]; exact eval_length ρ sa _ hea
  | .indexof x y, hs, t, k, hv => by
      simp only [semOkDjI, Bool.and_eq_true] at hs
      rw [IntE.toExpr, visit_indexof] at hv
      obtain ⟨⟨a, ka⟩, hp, hv⟩ := bind_eq_ok hv
      obtain ⟨⟨b, kb⟩, hq, hv⟩ := bind_eq_ok hv
      cases hv
      obtain ⟨sa, hsa, hea⟩ := djSoundS x hs.1 a ka hp
      obtain ⟨sb, hsb, heb⟩ := djSoundS y hs.2 b kb hq
      refine ⟨.bin (S "-") (.call (S "INSTR") (two sa sb)) (.num ['1']),
        by rw [sql_sub, sql_strindex, hsa, hsb, sql_pint1]; rfl, ?_⟩
      have : evalI ρ (.indexof x y) = lift2 (fun x y => some (indexOf x y)) (evalS ρ x) (evalS ρ y) := by
        rw [evalI]; cases evalS ρ x <;> cases evalS ρ y <;> rfl
      rw [this]; exact eval_indexof ρ sa sb _ _ hea heb
theorem djSoundS : (e : StrE) → semOkDjS ρ e = true → ∀ t k, djVisit e.toExpr = .ok (t, k) →
    ∃ s, djSql t = some s ∧ sqlEval ρ s = some (valS (evalS ρ e))
  | .lit s, _, t, k, hv => by
      rw [StrE.toExpr, visit_litStr] at hv
      cases hv
      exact ⟨.str s, rfl, by rw [eval_str, evalS]; rfl⟩
  | .col c, hs, t, k, hv => by
      rw [StrE.toExpr, visit_ident] at hv
      cases hv
      simp only [semOkDjS] at hs
      exact ⟨.col none c, sql_col c, by rw [eval_col, evalS, C01.ofVal_str ρ c hs]⟩
  | .concat x y, hs, t, k, hv => by
      simp only [semOkDjS, Bool.and_eq_true] at hs
      rw [StrE.toExpr, visit_concat] at hv
      obtain ⟨⟨a, ka⟩, hp, hv⟩ := bind_eq_ok hv
      obtain ⟨⟨b, kb⟩, hq, hv⟩ := bind_eq_ok hv
      cases hv
      obtain ⟨sa, hsa, hea⟩ := djSoundS x hs.1.1.1 a ka hp
      obtain ⟨sb, hsb, heb⟩ := djSoundS y hs.1.1.2 b kb hq
      obtain ⟨vx, hx⟩ := Option.isSome_iff_exists.mp hs.1.2
      obtain ⟨vy, hy⟩ := Option.isSome_iff_exists.mp hs.2
      rw [hx] at hea
      rw [hy] at heb
      refine ⟨_, by rw [sql_concat, hsa, hsb], ?_⟩
      rw [evalS, hx, hy]
      exact eval_concat_dj ρ sa sb vx vy hea heb
  | .substring x i, hs, t, k, hv => by
      simp only [semOkDjS, Bool.and_eq_true] at hs
      rw [StrE.toExpr, visit_substring2] at hv
      obtain ⟨⟨a, ka⟩, hp, hv⟩ := bind_eq_ok hv
      obtain ⟨⟨b, kb⟩, hq, hv⟩ := bind_eq_ok hv
      cases hv
      obtain ⟨sa, hsa, hea⟩ := djSoundS x hs.1.1 a ka hp
      obtain ⟨sb, hsb, heb⟩ := djSoundI i hs.1.2 b kb hq
      refine ⟨.call (S "SUBSTR") (two sa (.bin (S "+") sb (.num ['1']))),
        by rw [sql_substr2, sql_add, hsa, hsb, sql_pint1]; rfl, ?_⟩
      have : evalS ρ (.substring x i) = lift2 (fun x k => some (x.drop k.toNat)) (evalS ρ x) (evalI ρ i) := by
        rw [evalS]; cases evalS ρ x <;> cases evalI ρ i <;> rfl
      rw [this]; exact eval_substring2 ρ sa sb _ _ hea heb (C01.nonnegO_of _ hs.2)
  | .substring3 x i n, hs, t, k, hv => by
      simp only [semOkDjS, Bool.and_eq_true] at hs
      rw [StrE.toExpr, visit_substring3] at hv
      obtain ⟨⟨a, ka⟩, hp, hv⟩ := bind_eq_ok hv
      obtain ⟨⟨b, kb⟩, hq, hv⟩ := bind_eq_ok hv
      obtain ⟨⟨c, kc⟩, hr, hv⟩ := bind_eq_ok hv
      cases hv
      obtain ⟨sa, hsa, hea⟩ := djSoundS x hs.1.1.1.1 a ka hp
      obtain ⟨sb, hsb, heb⟩ := djSoundI i hs.1.1.1.2 b kb hq
      obtain ⟨sc, hsc, hec⟩ := djSoundI n hs.1.1.2 c kc hr
      refine ⟨.call (S "SUBSTR") (three sa (.bin (S "+") sb (.num ['1'])) sc),
        by rw [sql_substr3, sql_add, hsa, hsb, hsc, sql_pint1]; rfl, ?_⟩
      have : evalS ρ (.substring3 x i n) =
          lift3 (fun x k m => some ((x.drop k.toNat).take m.toNat)) (evalS ρ x) (evalI ρ i) (evalI ρ n) := by
        rw [evalS]; cases evalS ρ x <;> cases evalI ρ i <;> cases evalI ρ n <;> rfl
      rw [this]
      exact eval_substring3 ρ sa sb sc _ _ _ hea heb hec (C01.nonnegO_of _ hs.1.2) (C01.nonnegO_of _ hs.2)
  | .tolower x, hs, t, k, hv => by
      simp only [semOkDjS] at hs
      rw [StrE.toExpr, visit_tolower] at hv
      obtain ⟨⟨a, ka⟩, hp, hv⟩ := bind_eq_ok hv
      cases hv
      obtain ⟨sa, hsa, hea⟩ := djSoundS x hs a ka hp
      refine ⟨.call (S "LOWER") (one sa), by rw [sql_lower, hsa]; rfl, ?_⟩
      rw [evalS]; exact eval_lower ρ sa _ hea
  | .toupper x, hs, t, k, hv => by
      simp only [semOkDjS] at hs
      rw [StrE.toExpr, visit_toupper] at hv
      obtain ⟨⟨a, ka⟩, hp, hv⟩ := bind_eq_ok hv
      cases hv
      obtain ⟨sa, hsa, hea⟩ := djSoundS x hs a ka hp
      refine ⟨.call (S "UPPER") (one sa), by rw [sql_upper, hsa]; rfl, ?_⟩
      rw [evalS]; exact eval_upper ρ sa _ hea
  | .trim x, hs, t, k, hv => by
      simp only [semOkDjS] at hs
      rw [StrE.toExpr, visit_trim] at hv
      obtain ⟨⟨a, ka⟩, hp, hv⟩ := bind_eq_ok hv
      cases hv
      obtain ⟨sa, hsa, hea⟩ := djSoundS x hs a ka hp
      refine ⟨.call (S "TRIM") (one sa), by rw [sql_trim, hsa]; rfl, ?_⟩
      rw [evalS]; exact eval_trim ρ sa _ hea
end

theorem djSoundIs : (xs : List IntE) → semOkDjIs ρ xs = true → ∀ items, djVisitList (intsToExprs xs) = .ok items →
    ∃ ts, djSqlList (OTrees.ofList items) = some ts ∧ sqlEvalList ρ ts = some ((evalIs ρ xs).map valI)
  | [], _, items, hv => by
      rw [intsToExprs, visitList_nil] at hv
      cases hv
      exact ⟨.nil, rfl, by rw [sqlEvalList]; rfl⟩
  | e :: r, hs, items, hv => by
      simp only [semOkDjIs, Bool.and_eq_true] at hs
      rw [intsToExprs, visitList_cons] at hv
      obtain ⟨⟨a, ka⟩, hp, hv⟩ := bind_eq_ok hv
      obtain ⟨rest, hq, hv⟩ := bind_eq_ok hv
      cases hv
      obtain ⟨sa, hsa, hea⟩ := djSoundI ρ e hs.1 a ka hp
      obtain ⟨ts, hts, het⟩ := djSoundIs r hs.2 rest hq
      refine ⟨.cons sa ts, by rw [OTrees.ofList, sqlList_cons, hsa, hts], ?_⟩
      rw [sqlEvalList, hea, het]; rfl
theorem djSoundSs : (xs : List StrE) → semOkDjSs ρ xs = true → ∀ items, djVisitList (strsToExprs xs) = .ok items →
    ∃ ts, djSqlList (OTrees.ofList items) = some ts ∧ sqlEvalList ρ ts = some ((evalSs ρ xs).map valS)
  | [], _, items, hv => by
      rw [strsToExprs, visitList_nil] at hv
      cases hv
      exact ⟨.nil, rfl, by rw [sqlEvalList]; rfl⟩
  | e :: r, hs, items, hv => by
      simp only [semOkDjSs, Bool.and_eq_true] at hs
      rw [strsToExprs, visitList_cons] at hv
      obtain ⟨⟨a, ka⟩, hp, hv⟩ := bind_eq_ok hv
      obtain ⟨rest, hq, hv⟩ := bind_eq_ok hv
      cases hv
      obtain ⟨sa, hsa, hea⟩ := djSoundS ρ e hs.1 a ka hp
      obtain ⟨ts, hts, het⟩ := djSoundSs r hs.2 rest hq
      refine ⟨.cons sa ts, by rw [OTrees.ofList, sqlList_cons, hsa, hts], ?_⟩
      rw [sqlEvalList, hea, het]; rfl

theorem ofVal_bool_dj (c : Str) (h : semOkDj ρ (.col c) = true) :
    SqlVal.ofVal (ρ.get c) = v3ToVal (evalB ρ (.col c)) := by
  simp only [semOkDj] at h
  rw [evalB]
  unfold Row.int
  cases hg : ρ.get c with
  | null => rfl
  | str s => simp [hg] at h
  | int z =>
    simp only [hg, Bool.or_eq_true, beq_iff_eq] at h
    rcases h with h | h <;> subst h <;> rfl

theorem djSoundB : (b : BoolE) → semOkDj ρ b = true → ∀ t k, djVisit b.toExpr = .ok (t, k) →
    ∃ s, djSql t = some s ∧ sqlEval ρ s = some (v3ToVal (evalB ρ b))
  | .cmpI k l r, hs, t, kk, hv => by
      simp only [semOkDj, Bool.and_eq_true] at hs
      rw [BoolE.toExpr, visit_compare _ _ _ (C01.isNullLit_I l) (C01.isNullLit_I r)] at hv
      obtain ⟨⟨a, ka⟩, hp, hv⟩ := bind_eq_ok hv
      obtain ⟨⟨b, kb⟩, hq, hv⟩ := bind_eq_ok hv
      cases hv
      obtain ⟨sa, hsa, hea⟩ := djSoundI ρ l hs.1 a ka hp
      obtain ⟨sb, hsb, heb⟩ := djSoundI ρ r hs.2 b kb hq
      refine ⟨.bin (djCmp k) sa sb, by rw [sql_cmp, hsa, hsb]; rfl, ?_⟩
      have : evalB ρ (.cmpI k l r) = cmp2 (cmpInt k) (evalI ρ l) (evalI ρ r) := by
        rw [evalB]; cases evalI ρ l <;> cases evalI ρ r <;> rfl
      rw [this, eval_djcmp ρ k sa sb _ _ hea heb, cmpVals_int]
  | .cmpS k l r, hs, t, kk, hv => by
      simp only [semOkDj, Bool.and_eq_true] at hs
      rw [BoolE.toExpr, visit_compare _ _ _ (C01.isNullLit_S l) (C01.isNullLit_S r)] at hv
      obtain ⟨⟨a, ka⟩, hp, hv⟩ := bind_eq_ok hv
      obtain ⟨⟨b, kb⟩, hq, hv⟩ := bind_eq_ok hv
      cases hv
      obtain ⟨sa, hsa, hea⟩ := djSoundS ρ l hs.1 a ka hp
      obtain ⟨sb, hsb, heb⟩ := djSoundS ρ r hs.2 b kb hq
      refine ⟨.bin (djCmp k) sa sb, by rw [sql_cmp, hsa, hsb]; rfl, ?_⟩
      have : evalB ρ (.cmpS k l r) = cmp2 (cmpStr k) (evalS ρ l) (evalS ρ r) := by
        rw [evalB]; cases evalS ρ l <;> cases evalS ρ r <;> rfl
      rw [this, eval_djcmp ρ k sa sb _ _ hea heb, cmpVals_str]
  | .cmpB k l r, hs, t, kk, hv => by
      simp only [semOkDj, Bool.and_eq_true] at hs
      rw [BoolE.toExpr, visit_compare _ _ _ (C01.isNullLit_B l) (C01.isNullLit_B r)] at hv
      obtain ⟨⟨a, ka⟩, hp, hv⟩ := bind_eq_ok hv
      obtain ⟨⟨b, kb⟩, hq, hv⟩ := bind_eq_ok hv
      cases hv
      obtain ⟨sa, hsa, hea⟩ := djSoundB l hs.1.1.1.1.2 a ka hp
      obtain ⟨sb, hsb, heb⟩ := djSoundB r hs.1.1.1.2 b kb hq
      refine ⟨.bin (djCmp k) sa sb, by rw [sql_cmp, hsa, hsb]; rfl, ?_⟩
      have : evalB ρ (.cmpB k l r) = cmpB3 k (evalB ρ l) (evalB ρ r) := by
        rw [evalB]; cases evalB ρ l <;> cases evalB ρ r <;> rfl
      rw [this, eval_djcmp ρ k sa sb _ _ hea heb, cmpVals_bool k (by simpa using hs.1.1.1.1.1)]
  | .isNull _ c negated, _, t, kk, hv => by
      rw [BoolE.toExpr, visit_isNull] at hv
      cases hv
      cases negated
      · refine ⟨.bin (S "IS") (.col none c) (.kw (S "NULL")), rfl, ?_⟩
        rw [eval_isNull, evalB]; simp
      · refine ⟨.bin (S "ISNOT") (.col none c) (.kw (S "NULL")), rfl, ?_⟩
        rw [eval_isNotNull, evalB]; simp
  | .inI e xs, hs, t, kk, hv => by
      simp only [semOkDj, Bool.and_eq_true] at hs
      rw [BoolE.toExpr, visit_compare _ _ _ (C01.isNullLit_I e) rfl] at hv
      obtain ⟨⟨a, ka⟩, hp, hv⟩ := bind_eq_ok hv
      obtain ⟨⟨b, kb⟩, hq, hv⟩ := bind_eq_ok hv
      cases hv
      rw [visit_list] at hq
      obtain ⟨items, hq', hv⟩ := bind_eq_ok hq
      cases hv
      obtain ⟨sa, hsa, hea⟩ := djSoundI ρ e hs.1.1 a ka hp
      obtain ⟨ts, hts, het⟩ := djSoundIs ρ xs hs.1.2 items hq'
      refine ⟨.inl sa ts, ?_, ?_⟩
      · show djSql (on2 "in" a (.node "list" (OTrees.ofList items))) = _
        rw [sql_in, hsa, hts]
      · rw [evalB]; exact eval_inI ρ sa ts _ _ hea het
  | .inS e xs, hs, t, kk, hv => by
      simp only [semOkDj, Bool.and_eq_true] at hs
      rw [BoolE.toExpr, visit_compare _ _ _ (C01.isNullLit_S e) rfl] at hv
      obtain ⟨⟨a, ka⟩, hp, hv⟩ := bind_eq_ok hv
      obtain ⟨⟨b, kb⟩, hq, hv⟩ := bind_eq_ok hv
      cases hv
      rw [visit_list] at hq
      obtain ⟨items, hq', hv⟩ := bind_eq_ok hq
      cases hv
      obtain ⟨sa, hsa, hea⟩ := djSoundS ρ e hs.1.1 a ka hp
      obtain ⟨ts, hts, het⟩ := djSoundSs ρ xs hs.1.2 items hq'
      refine ⟨.inl sa ts, ?_, ?_⟩
      · show djSql (on2 "in" a (.node "list" (OTrees.ofList items))) = _
        rw [sql_in, hsa, hts]
      · rw [evalB]; exact eval_inS ρ sa ts _ _ hea het
  | .and l r, hs, t, kk, hv => by
      simp only [semOkDj, Bool.and_eq_true] at hs
      rw [BoolE.toExpr, visit_boolop] at hv
      obtain ⟨⟨a, ka⟩, hp, hv⟩ := bind_eq_ok hv
      obtain ⟨⟨b, kb⟩, hq, hv⟩ := bind_eq_ok hv
      dsimp only at hv
      split at hv
      · cases hv
      · split at hv
        · cases hv
        · cases hv
          obtain ⟨sa, hsa, hea⟩ := djSoundB l hs.1 a ka hp
          obtain ⟨sb, hsb, heb⟩ := djSoundB r hs.2 b kb hq
          refine ⟨.bin (S "AND") sa sb, ?_, ?_⟩
          · show djSql (on2 "and" a b) = _
            rw [sql_and, hsa, hsb]; rfl
          · rw [evalB]; exact eval_and ρ sa sb _ _ hea heb
  | .or l r, hs, t, kk, hv => by
      simp only [semOkDj, Bool.and_eq_true] at hs
      rw [BoolE.toExpr, visit_boolop] at hv
      obtain ⟨⟨a, ka⟩, hp, hv⟩ := bind_eq_ok hv
      obtain ⟨⟨b, kb⟩, hq, hv⟩ := bind_eq_ok hv
      dsimp only at hv
      split at hv
      · cases hv
      · split at hv
        · cases hv
        · cases hv
          obtain ⟨sa, hsa, hea⟩ := djSoundB l hs.1 a ka hp
          obtain ⟨sb, hsb, heb⟩ := djSoundB r hs.2 b kb hq
          refine ⟨.bin (S "OR") sa sb, ?_, ?_⟩
          · show djSql (on2 "or" a b) = _
            rw [sql_or, hsa, hsb]; rfl
          · rw [evalB]; exact eval_or ρ sa sb _ _ hea heb
  | .not e, hs, t, kk, hv => by
      simp only [semOkDj] at hs
      rw [BoolE.toExpr, visit_unary] at hv
      obtain ⟨⟨a, ka⟩, hp, hv⟩ := bind_eq_ok hv
      dsimp only at hv
      split at hv
      · cases hv
      · rw [if_neg (by decide)] at hv
        split at hv
        · cases hv
        · cases hv
          obtain ⟨sa, hsa, hea⟩ := djSoundB e hs a ka hp
          refine ⟨.un (S "NOT") sa, by rw [sql_not, hsa]; rfl, ?_⟩
          rw [evalB]; exact eval_not ρ sa _ hea
  | .like k x y, hs, t, kk, hv => by
      simp only [semOkDj, Bool.and_eq_true] at hs
      rw [BoolE.toExpr, visit_like] at hv
      obtain ⟨_, _, hv⟩ := bind_eq_ok hv
      obtain ⟨⟨a, ka⟩, hp, hv⟩ := bind_eq_ok hv
      obtain ⟨⟨b, kb⟩, hq, hv⟩ := bind_eq_ok hv
      cases hv
      obtain ⟨sa, hsa, hea⟩ := djSoundS ρ x hs.1.1 a ka hp
      obtain ⟨sb, hsb, heb⟩ := djSoundS ρ y hs.1.2 b kb hq
      have hev : evalB ρ (.like k x y) = cmp2 (likeSem k) (evalS ρ x) (evalS ρ y) := by
        rw [evalB]; cases evalS ρ x <;> cases evalS ρ y <;> rfl
      have hci : cmp2 (likeCI k) (evalS ρ x) (evalS ρ y) = cmp2 (likeSem k) (evalS ρ x) (evalS ρ y) := by
        have h2 := hs.2
        cases ha : evalS ρ x with
        | none => rfl
        | some h =>
          cases hb : evalS ρ y with
          | none => rfl
          | some n =>
            rw [ha, hb] at h2
            simp only [cmp2, (by simpa using h2 : likeCI k h n = likeSem k h n)]
      refine ⟨.like sa (catPat (preOf k) (sufOf k) (djEscape sb)) (some ['\\']), by rw [sql_like, hsa, hsb]; rfl, ?_⟩
      rw [hev, ← hci]
      exact eval_like_dj ρ k sa sb _ _ hea heb
  | .col c, hs, t, kk, hv => by
      rw [BoolE.toExpr, visit_ident] at hv
      cases hv
      exact ⟨.col none c, sql_col c, by rw [eval_col, ofVal_bool_dj ρ c hs]⟩
  | .lit b, _, t, kk, hv => by
      rw [BoolE.toExpr, visit_litBool] at hv
      cases hv
      obtain ⟨s, h1, h2⟩ := eval_paramBool ρ b
      exact ⟨s, by rw [sql_param]; exact h1, by rw [evalB]; exact h2⟩

end
end OQ.DjangoSound
