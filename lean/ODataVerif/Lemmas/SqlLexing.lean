/- Lemmas/SqlLexing.lean — helper lemmas for Props/C07Lex.lean (character-level lexing of rendered pieces). -/
import ODataVerif.Model.SqlPieces
namespace OQ.SqlLexing
open Spec

/-! ### 1. characters as numbers -/

theorem le_char_iff (a c : Char) : a ≤ c ↔ a.toNat ≤ c.toNat := by
  rw [Char.le_def, UInt32.le_iff_toNat_le]; rfl

theorem beq_char_iff (c k : Char) : (c == k) = true ↔ c.toNat = k.toNat := by
  simp [← Char.toNat_inj]

theorem isDig_iff (c : Char) : isDig c = true ↔ 48 ≤ c.toNat ∧ c.toNat ≤ 57 := by
  simp only [isDig, Bool.and_eq_true, decide_eq_true_eq, le_char_iff]; rfl

theorem isLetter_iff (c : Char) :
    isLetter c = true ↔ (97 ≤ c.toNat ∧ c.toNat ≤ 122) ∨ (65 ≤ c.toNat ∧ c.toNat ≤ 90) ∨ c.toNat = 95 := by
  simp only [isLetter, Bool.and_eq_true, Bool.or_eq_true, decide_eq_true_eq, le_char_iff, beq_char_iff, or_assoc]
  rfl

theorem isBlank_iff (c : Char) :
    isBlank c = true ↔ c.toNat = 32 ∨ c.toNat = 10 ∨ c.toNat = 9 ∨ c.toNat = 13 := by
  simp only [isBlank, Bool.or_eq_true, beq_char_iff, or_assoc]; rfl

theorem isWordCh_iff (c : Char) : isWordCh c = true ↔ isLetter c = true ∨ isDig c = true := by
  simp [isWordCh]

/-! ### 2. running without finishing -/

def runS : LSt → Str → Option (List SqlTok × LSt)
  | st, [] => some ([], st)
  | st, c :: r =>
      match stepSt st c with
      | none => none
      | some (out, st') =>
          match runS st' r with
          | none => none
          | some (ts, st'') => some (out ++ ts, st'')

theorem run_append (st : LSt) (a b : Str) :
    run st (a ++ b) = match runS st a with
      | none => none
      | some (em, st') => (match run st' b with
          | none => none
          | some ts => some (em ++ ts)) := by
  induction a generalizing st with
  | nil =>
      simp only [List.nil_append, runS]
      cases run st b <;> simp
  | cons c r ih =>
      simp only [List.cons_append, run, runS]
      cases hs : stepSt st c with
      | none => simp
      | some p =>
          obtain ⟨out, st'⟩ := p
          simp only [ih]
          cases hr : runS st' r with
          | none => simp
          | some q =>
              obtain ⟨ts, st''⟩ := q
              simp only
              cases run st'' b <;> simp

theorem runS_append (st : LSt) (a b : Str) :
    runS st (a ++ b) = match runS st a with
      | none => none
      | some (em, st') => (match runS st' b with
          | none => none
          | some (ts, st'') => some (em ++ ts, st'')) := by
  induction a generalizing st with
  | nil =>
      simp only [List.nil_append, runS]
      cases runS st b <;> simp
  | cons c r ih =>
      simp only [List.cons_append, runS]
      cases hs : stepSt st c with
      | none => simp
      | some p =>
          obtain ⟨out, st'⟩ := p
          simp only [ih]
          cases hr : runS st' r with
          | none => simp
          | some q =>
              obtain ⟨ts, st''⟩ := q
              simp only
              cases runS st'' b <;> simp

/-- a silent step -/
theorem runS_cons_silent {st st' : LSt} {c : Char} (h : stepSt st c = some ([], st')) (r : Str) :
    runS st (c :: r) = runS st' r := by
  simp only [runS, h]
  cases runS st' r <;> simp

theorem runS_cons_emit {st st' : LSt} {c : Char} {out : List SqlTok} (h : stepSt st c = some (out, st'))
    (r : Str) {ts : List SqlTok} {st'' : LSt} (hr : runS st' r = some (ts, st'')) :
    runS st (c :: r) = some (out ++ ts, st'') := by
  simp only [runS, h, hr]


/-! ### 3. states that hold a complete (pending) token -/

inductive EndK | top | strQ | qidQ | num | word | lt | gt | minus | slash
  deriving DecidableEq, Repr

def kindOf : LSt → Option EndK
  | .top => some .top
  | .strQ _ => some .strQ
  | .qidQ _ => some .qidQ
  | .int _ | .frac _ | .exp _ => some .num
  | .word _ => some .word
  | .lt => some .lt
  | .gt => some .gt
  | .minus => some .minus
  | .slash => some .slash
  | _ => none

/-- the tokens `finish` emits -/
def fin (st : LSt) : List SqlTok := (finish st).getD []

/-- `c` does not extend a pending token of kind `k` -/
def sepK : EndK → Char → Bool
  | .top, _ => true
  | .strQ, c => c != '\''
  | .qidQ, c => c != '"'
  | .num, c => !isWordCh c && c != '.'
  | .word, c => !isWordCh c
  | .lt, c => c != '=' && c != '>'
  | .gt, c => c != '='
  | .minus, c => c != '-'
  | .slash, c => c != '*'

def sepHead (k : EndK) : Str → Bool
  | [] => true
  | c :: _ => sepK k c

theorem finish_of_kind {st : LSt} {k : EndK} (h : kindOf st = some k) : finish st = some (fin st) := by
  cases st <;> simp [kindOf] at h <;> simp [fin, finish]

theorem isDig_wordCh {c : Char} (h : isDig c = true) : isWordCh c = true := by simp [isWordCh, h]

theorem step_flush {st : LSt} {k : EndK} (h : kindOf st = some k) {c : Char} (hs : sepK k c = true) :
    stepSt st c = match fromTop c with
      | some (out, s) => some (fin st ++ out, s)
      | none => none := by
  cases st <;> simp [kindOf] at h <;> subst h
  case top => simp [stepSt, fin, finish]; cases fromTop c <;> simp
  case strQ acc => simp [sepK] at hs; simp [stepSt, hs, flush, fin, finish] <;> cases fromTop c <;> rfl
  case qidQ acc => simp [sepK] at hs; simp [stepSt, hs, flush, fin, finish] <;> cases fromTop c <;> rfl
  case int acc =>
    simp [sepK] at hs
    have hd : isDig c = false := by
      cases hd : isDig c with
      | false => rfl
      | true => rw [isDig_wordCh hd] at hs; simp at hs
    have he : (c == 'e' || c == 'E') = false := by
      cases he : (c == 'e' || c == 'E') with
      | false => rfl
      | true =>
        simp at he
        rcases he with rfl | rfl <;> simp [isWordCh, isLetter] at hs
    have he' : ¬(c = 'e' ∨ c = 'E') := by simpa using he
    simp [stepSt, hs, hd, he', endNum, flush, fin, finish]
    cases fromTop c <;> rfl
  case frac acc =>
    simp [sepK] at hs
    have hd : isDig c = false := by
      cases hd : isDig c with
      | false => rfl
      | true => rw [isDig_wordCh hd] at hs; simp at hs
    have he : (c == 'e' || c == 'E') = false := by
      cases he : (c == 'e' || c == 'E') with
      | false => rfl
      | true =>
        simp at he
        rcases he with rfl | rfl <;> simp [isWordCh, isLetter] at hs
    have he' : ¬(c = 'e' ∨ c = 'E') := by simpa using he
    simp [stepSt, hs, hd, he', endNum, flush, fin, finish]
    cases fromTop c <;> rfl
  case exp acc =>
    simp [sepK] at hs
    have hd : isDig c = false := by
      cases hd : isDig c with
      | false => rfl
      | true => rw [isDig_wordCh hd] at hs; simp at hs
    simp [stepSt, hs, hd, endNum, flush, fin, finish] <;> cases fromTop c <;> rfl
  case word acc => simp [sepK] at hs; simp [stepSt, hs, flush, fin, finish] <;> cases fromTop c <;> rfl
  case lt => simp [sepK] at hs; simp [stepSt, hs, flush, fin, finish] <;> cases fromTop c <;> rfl
  case gt => simp [sepK] at hs; simp [stepSt, hs, flush, fin, finish] <;> cases fromTop c <;> rfl
  case minus => simp [sepK] at hs; simp [stepSt, hs, flush, fin, finish] <;> cases fromTop c <;> rfl
  case slash => simp [sepK] at hs; simp [stepSt, hs, flush, fin, finish] <;> cases fromTop c <;> rfl


@[simp] theorem stepSt_top (c : Char) : stepSt .top c = fromTop c := rfl

theorem run_sep {st : LSt} {k : EndK} (h : kindOf st = some k) (rest : Str) (hs : sepHead k rest = true) :
    run st rest = match run .top rest with
      | none => none
      | some ts => some (fin st ++ ts) := by
  cases rest with
  | nil =>
    have h0 : finish .top = some [] := rfl
    simp only [run, finish_of_kind h, h0, List.append_nil]
  | cons c r =>
    simp only [run, stepSt_top, step_flush h hs]
    cases fromTop c with
    | none => simp
    | some p =>
      obtain ⟨out, s⟩ := p
      simp only
      cases run s r <;> simp

theorem runS_sep {st : LSt} {k : EndK} (h : kindOf st = some k) (c : Char) (r : Str) (hs : sepK k c = true) :
    runS st (c :: r) = match runS .top (c :: r) with
      | none => none
      | some (ts, s) => some (fin st ++ ts, s) := by
  simp only [runS, stepSt_top, step_flush h hs]
  cases fromTop c with
  | none => simp
  | some p =>
    obtain ⟨out, s⟩ := p
    simp only
    cases runS s r <;> simp

/-- the shape every per-piece lemma is used in -/
theorem piece_core {sp : Str} {em : List SqlTok} {st : LSt} {k : EndK} {toks : List SqlTok}
    (hr : runS .top sp = some (em, st)) (hk : kindOf st = some k) (ht : em ++ fin st = toks)
    (rest : Str) (ts : List SqlTok) (hs : sepHead k rest = true) (hrest : run .top rest = some ts) :
    run .top (sp ++ rest) = some (toks ++ ts) := by
  rw [run_append, hr]
  simp only [run_sep hk rest hs, hrest, ← ht, List.append_assoc]

/-! ### 4. runs inside a token -/

theorem runS_str_body (s acc : Str) :
    runS (.str acc) (dblQuote '\'' s ++ ['\'']) = some ([], .strQ (acc ++ s)) := by
  induction s generalizing acc with
  | nil =>
    have h : stepSt (.str acc) '\'' = some ([], .strQ acc) := by simp [stepSt]
    simp [dblQuote, runS_cons_silent h, runS]
  | cons c t ih =>
    by_cases hc : c = '\''
    · subst hc
      have h1 : stepSt (.str acc) '\'' = some ([], .strQ acc) := by simp [stepSt]
      have h2 : stepSt (.strQ acc) '\'' = some ([], .str (acc ++ ['\''])) := by simp [stepSt]
      simp only [dblQuote, beq_self_eq_true, if_true, List.cons_append, runS_cons_silent h1, runS_cons_silent h2, ih]
      simp
    · have h1 : stepSt (.str acc) c = some ([], .str (acc ++ [c])) := by simp [stepSt, hc]
      have hb : (c == '\'') = false := by simp [hc]
      simp only [dblQuote, hb, Bool.false_eq_true, if_false, List.cons_append]
      rw [runS_cons_silent h1, ih]
      simp

theorem runS_qid_body (s acc : Str) :
    runS (.qid acc) (dblQuote '"' s ++ ['"']) = some ([], .qidQ (acc ++ s)) := by
  induction s generalizing acc with
  | nil =>
    have h : stepSt (.qid acc) '"' = some ([], .qidQ acc) := by simp [stepSt]
    simp [dblQuote, runS_cons_silent h, runS]
  | cons c t ih =>
    by_cases hc : c = '"'
    · subst hc
      have h1 : stepSt (.qid acc) '"' = some ([], .qidQ acc) := by simp [stepSt]
      have h2 : stepSt (.qidQ acc) '"' = some ([], .qid (acc ++ ['"'])) := by simp [stepSt]
      simp only [dblQuote, beq_self_eq_true, if_true, List.cons_append, runS_cons_silent h1, runS_cons_silent h2, ih]
      simp
    · have h1 : stepSt (.qid acc) c = some ([], .qid (acc ++ [c])) := by simp [stepSt, hc]
      have hb : (c == '"') = false := by simp [hc]
      simp only [dblQuote, hb, Bool.false_eq_true, if_false, List.cons_append]
      rw [runS_cons_silent h1, ih]
      simp

theorem dblQuote_of_not_contains (q : Char) (s : Str) (h : (!s.contains q) = true) : dblQuote q s = s := by
  induction s with
  | nil => rfl
  | cons c t ih =>
    simp at h
    have hb : (c == q) = false := by simp; exact fun e => h.1 e.symm
    simp only [dblQuote, hb]
    rw [ih (by simpa using h.2)]
    simp

theorem runS_word_body (s acc : Str) (h : s.all isWordCh = true) :
    runS (.word acc) s = some ([], .word (acc ++ s)) := by
  induction s generalizing acc with
  | nil => simp [runS]
  | cons c t ih =>
    simp at h
    have h1 : stepSt (.word acc) c = some ([], .word (acc ++ [c])) := by simp [stepSt, h.1]
    rw [runS_cons_silent h1, ih _ (by simpa using h.2)]
    simp

theorem runS_int_body (s acc : Str) (h : s.all isDig = true) :
    runS (.int acc) s = some ([], .int (acc ++ s)) := by
  induction s generalizing acc with
  | nil => simp [runS]
  | cons c t ih =>
    simp at h
    have h1 : stepSt (.int acc) c = some ([], .int (acc ++ [c])) := by simp [stepSt, h.1]
    rw [runS_cons_silent h1, ih _ (by simpa using h.2)]
    simp

theorem runS_frac_body (s acc : Str) (h : s.all isDig = true) :
    runS (.frac acc) s = some ([], .frac (acc ++ s)) := by
  induction s generalizing acc with
  | nil => simp [runS]
  | cons c t ih =>
    simp at h
    have h1 : stepSt (.frac acc) c = some ([], .frac (acc ++ [c])) := by simp [stepSt, h.1]
    rw [runS_cons_silent h1, ih _ (by simpa using h.2)]
    simp

theorem runS_exp_body (s acc : Str) (h : s.all isDig = true) :
    runS (.exp acc) s = some ([], .exp (acc ++ s)) := by
  induction s generalizing acc with
  | nil => simp [runS]
  | cons c t ih =>
    simp at h
    have h1 : stepSt (.exp acc) c = some ([], .exp (acc ++ [c])) := by simp [stepSt, h.1]
    rw [runS_cons_silent h1, ih _ (by simpa using h.2)]
    simp

theorem fromTop_blank {c : Char} (h : isBlank c = true) : fromTop c = some ([], .top) := by
  simp [fromTop, h]

theorem runS_blanks (s : Str) (h : s.all isBlank = true) : runS .top s = some ([], .top) := by
  induction s with
  | nil => simp [runS]
  | cons c t ih =>
    simp at h
    have h1 : stepSt .top c = some ([], .top) := by simp [fromTop_blank h.1]
    rw [runS_cons_silent h1, ih (by simpa using h.2)]

/-! ### 5. numbers -/

def ExpTail (r2 : Str) : Prop :=
  (∃ c r3, r2 = c :: r3 ∧ (c = '+' ∨ c = '-') ∧ allDig r3 = true) ∨ allDig r2 = true

def EPart (r : Str) : Prop :=
  r = [] ∨ ∃ c r2, r = c :: r2 ∧ (c = 'e' ∨ c = 'E') ∧ ExpTail r2

theorem allDig_cons {s : Str} (h : allDig s = true) : ∃ d t, s = d :: t ∧ isDig d = true ∧ t.all isDig = true := by
  cases s with
  | nil => simp [allDig] at h
  | cons d t => simp [allDig] at h; exact ⟨d, t, rfl, h.1, by simpa using h.2⟩

theorem runS_exp0 (r2 acc : Str) (h : ExpTail r2) : runS (.exp0 acc) r2 = some ([], .exp (acc ++ r2)) := by
  rcases h with ⟨c, r3, rfl, hc, hd⟩ | hd
  · obtain ⟨d, t, rfl, hd1, hd2⟩ := allDig_cons hd
    have h1 : stepSt (.exp0 acc) c = some ([], .exp1 (acc ++ [c])) := by
      rcases hc with rfl | rfl <;> simp [stepSt, isDig]
    have h2 : stepSt (.exp1 (acc ++ [c])) d = some ([], .exp (acc ++ [c] ++ [d])) := by simp [stepSt, hd1]
    rw [runS_cons_silent h1, runS_cons_silent h2, runS_exp_body _ _ hd2]
    simp
  · obtain ⟨d, t, rfl, hd1, hd2⟩ := allDig_cons hd
    have h1 : stepSt (.exp0 acc) d = some ([], .exp (acc ++ [d])) := by simp [stepSt, hd1]
    rw [runS_cons_silent h1, runS_exp_body _ _ hd2]
    simp

theorem takeWhile_append_drop (p : Char → Bool) (l : Str) :
    l.takeWhile p ++ l.drop (l.takeWhile p).length = l := by
  induction l with
  | nil => rfl
  | cons a t ih =>
    by_cases h : p a = true
    · simp [List.takeWhile, h, ih]
    · simp [List.takeWhile, h]

theorem all_takeWhile (p : Char → Bool) (l : Str) : (l.takeWhile p).all p = true := by
  induction l with
  | nil => rfl
  | cons a t ih =>
    by_cases h : p a = true
    · simp only [List.takeWhile, h, List.all_cons, Bool.true_and]; exact ih
    · simp [List.takeWhile, h]

theorem allDig_takeWhile (l : Str) (h : (!(l.takeWhile isDig).isEmpty) = true) : allDig (l.takeWhile isDig) = true := by
  simp only [allDig, h, all_takeWhile, Bool.and_self]

theorem isNumBody_decomp (s : Str) (h : isNumBody s = true) :
    ∃ ip r, s = ip ++ r ∧ allDig ip = true ∧
      (EPart r ∨ ∃ fp r', r = '.' :: (fp ++ r') ∧ allDig fp = true ∧ EPart r') := by
  have hs := takeWhile_append_drop isDig s
  unfold isNumBody at h
  simp only [] at h
  simp only [Bool.and_eq_true] at h
  obtain ⟨h1, h2⟩ := h
  have hip := allDig_takeWhile s h1
  generalize s.takeWhile isDig = ip at *
  generalize hr : s.drop ip.length = r at *
  refine ⟨ip, r, hs.symm, hip, ?_⟩
  split at h2
  · exact Or.inl (Or.inl rfl)
  · rename_i r1
    simp only [Bool.and_eq_true] at h2
    obtain ⟨h2, h3⟩ := h2
    have hs1 := takeWhile_append_drop isDig r1
    have hfp := allDig_takeWhile r1 h2
    generalize r1.takeWhile isDig = fp at *
    generalize hr' : r1.drop fp.length = r' at *
    refine Or.inr ⟨fp, r', by rw [hs1], hfp, ?_⟩
    split at h3
    · exact Or.inl rfl
    · rename_i c r2
      simp only [Bool.and_eq_true, Bool.or_eq_true, beq_iff_eq] at h3
      refine Or.inr ⟨c, r2, rfl, h3.1, ?_⟩
      have h4 := h3.2
      split at h4
      · exact Or.inl ⟨_, _, rfl, Or.inl rfl, h4⟩
      · exact Or.inl ⟨_, _, rfl, Or.inr rfl, h4⟩
      · exact Or.inr h4
  · rename_i c r2 _
    simp only [Bool.and_eq_true, Bool.or_eq_true, beq_iff_eq] at h2
    refine Or.inl (Or.inr ⟨c, r2, rfl, h2.1, ?_⟩)
    have h4 := h2.2
    split at h4
    · exact Or.inl ⟨_, _, rfl, Or.inl rfl, h4⟩
    · exact Or.inl ⟨_, _, rfl, Or.inr rfl, h4⟩
    · exact Or.inr h4

/-- a state holding a complete number `s` -/
def NumSt (st : LSt) (s : Str) : Prop := kindOf st = some .num ∧ fin st = [.num s]

theorem runS_epart_int (acc r : Str) (h : EPart r) :
    ∃ st, runS (.int acc) r = some ([], st) ∧ NumSt st (acc ++ r) := by
  rcases h with rfl | ⟨c, r2, rfl, hc, ht⟩
  · exact ⟨.int acc, by simp [runS], by simp [NumSt, kindOf, fin, finish]⟩
  · have h1 : stepSt (.int acc) c = some ([], .exp0 (acc ++ [c])) := by
      rcases hc with rfl | rfl <;> simp [stepSt, isDig]
    refine ⟨.exp (acc ++ [c] ++ r2), ?_, ?_⟩
    · rw [runS_cons_silent h1, runS_exp0 _ _ ht]
    · simp [NumSt, kindOf, fin, finish]

theorem runS_epart_frac (acc r : Str) (h : EPart r) :
    ∃ st, runS (.frac acc) r = some ([], st) ∧ NumSt st (acc ++ r) := by
  rcases h with rfl | ⟨c, r2, rfl, hc, ht⟩
  · exact ⟨.frac acc, by simp [runS], by simp [NumSt, kindOf, fin, finish]⟩
  · have h1 : stepSt (.frac acc) c = some ([], .exp0 (acc ++ [c])) := by
      rcases hc with rfl | rfl <;> simp [stepSt, isDig]
    refine ⟨.exp (acc ++ [c] ++ r2), ?_, ?_⟩
    · rw [runS_cons_silent h1, runS_exp0 _ _ ht]
    · simp [NumSt, kindOf, fin, finish]

theorem fromTop_digit {c : Char} (h : isDig c = true) : fromTop c = some ([], .int [c]) := by
  have hn := (isDig_iff c).1 h
  have h1 : isBlank c = false := by
    rw [Bool.eq_false_iff]; intro hb; have := (isBlank_iff c).1 hb; omega
  have h2 : (c == '\'') = false := by
    rw [Bool.eq_false_iff]; intro hb; have := (beq_char_iff c _).1 hb
    have : c.toNat = 39 := this
    omega
  have h3 : (c == '"') = false := by
    rw [Bool.eq_false_iff]; intro hb; have := (beq_char_iff c _).1 hb
    have : c.toNat = 34 := this
    omega
  simp [fromTop, h1, h2, h3, h]

theorem fromTop_letter {c : Char} (h : isLetter c = true) : fromTop c = some ([], .word [c]) := by
  have hn := (isLetter_iff c).1 h
  have h1 : isBlank c = false := by
    rw [Bool.eq_false_iff]; intro hb; have := (isBlank_iff c).1 hb; omega
  have h2 : (c == '\'') = false := by
    rw [Bool.eq_false_iff]; intro hb; have := (beq_char_iff c _).1 hb
    have : c.toNat = 39 := this
    omega
  have h3 : (c == '"') = false := by
    rw [Bool.eq_false_iff]; intro hb; have := (beq_char_iff c _).1 hb
    have : c.toNat = 34 := this
    omega
  have h4 : isDig c = false := by
    rw [Bool.eq_false_iff]; intro hb; have := (isDig_iff c).1 hb; omega
  simp [fromTop, h1, h2, h3, h4, h]

theorem runS_after_int (acc r : Str)
    (hr : EPart r ∨ ∃ fp r', r = '.' :: (fp ++ r') ∧ allDig fp = true ∧ EPart r') :
    ∃ st, runS (.int acc) r = some ([], st) ∧ NumSt st (acc ++ r) := by
  rcases hr with he | ⟨fp, r', rfl, hfp, he⟩
  · exact runS_epart_int acc r he
  · obtain ⟨f, ft, rfl, hf1, hf2⟩ := allDig_cons hfp
    have h1 : stepSt (.int acc) '.' = some ([], .dot0 (acc ++ ['.'])) := by simp [stepSt, isDig]
    have h2 : stepSt (.dot0 (acc ++ ['.'])) f = some ([], .frac (acc ++ ['.'] ++ [f])) := by
      simp [stepSt, hf1]
    obtain ⟨st, h3, h4⟩ := runS_epart_frac (acc ++ ['.'] ++ [f] ++ ft) r' he
    refine ⟨st, ?_, ?_⟩
    · rw [runS_cons_silent h1, List.cons_append, runS_cons_silent h2, runS_append, runS_frac_body _ _ hf2]
      simp only [List.nil_append, h3]
    · simpa using h4

theorem runS_numBody (s : Str) (h : isNumBody s = true) :
    ∃ st, runS .top s = some ([], st) ∧ NumSt st s := by
  obtain ⟨ip, r, rfl, hip, hr⟩ := isNumBody_decomp s h
  obtain ⟨d, t, rfl, hd1, hd2⟩ := allDig_cons hip
  have h0 : stepSt .top d = some ([], .int [d]) := by simp [fromTop_digit hd1]
  have hrun : runS .top (d :: t) = some ([], .int (d :: t)) := by
    rw [runS_cons_silent h0, runS_int_body _ _ hd2]; simp
  rw [runS_append, hrun]
  simp only [List.nil_append]
  obtain ⟨st, h1, h2⟩ := runS_after_int (d :: t) r hr
  exact ⟨st, by rw [h1], h2⟩

theorem isNumBody_head {s : Str} (h : isNumBody s = true) : ∃ d t, s = d :: t ∧ isDig d = true := by
  obtain ⟨ip, r, rfl, hip, _⟩ := isNumBody_decomp s h
  obtain ⟨d, t, rfl, hd1, _⟩ := allDig_cons hip
  exact ⟨d, t ++ r, rfl, hd1⟩

/-! ### 6. one piece -/

def opEndK (s : Str) : EndK :=
  if s = ['<'] then .lt else if s = ['>'] then .gt else if s = ['-'] then .minus
  else if s = ['/'] then .slash else .top

def endK : Piece → EndK
  | .tok (.str _) | .sq _ => .strQ
  | .tok (.qid _) | .dq _ => .qidQ
  | .tok (.num _) | .raw _ => .num
  | .tok (.word _) => .word
  | .tok (.op s) => opEndK s
  | .tok _ | .ws _ => .top

/-- what running a piece's spelling from the top state gives -/
def PieceRun (q : Piece) : Prop :=
  ∃ em st, runS .top q.spell = some (em, st) ∧ kindOf st = some (endK q) ∧ em ++ fin st = q.toks

theorem ofList_eq {s : Str} {t : String} (h : String.ofList s = t) : s = t.toList := by
  rw [← h, String.toList_ofList]

theorem pieceRun_str (s : Str) : PieceRun (.tok (.str s)) := by
  have h0 : stepSt .top '\'' = some ([], .str []) := by decide
  refine ⟨[], .strQ s, ?_, rfl, rfl⟩
  simp only [Piece.spell, spellTokSql, List.cons_append]
  rw [runS_cons_silent h0, runS_str_body]; simp

theorem pieceRun_qid (s : Str) : PieceRun (.tok (.qid s)) := by
  have h0 : stepSt .top '"' = some ([], .qid []) := by decide
  refine ⟨[], .qidQ s, ?_, rfl, rfl⟩
  simp only [Piece.spell, spellTokSql, List.cons_append]
  rw [runS_cons_silent h0, runS_qid_body]; simp

theorem pieceRun_sq (s : Str) (h : (!s.contains '\'') = true) : PieceRun (.sq s) := by
  have h0 : stepSt .top '\'' = some ([], .str []) := by decide
  refine ⟨[], .strQ s, ?_, rfl, rfl⟩
  have hb := runS_str_body s []
  rw [dblQuote_of_not_contains '\'' s h] at hb
  simp only [Piece.spell, List.cons_append]
  rw [runS_cons_silent h0, hb]; simp

theorem pieceRun_dq (s : Str) (h : (!s.contains '"') = true) : PieceRun (.dq s) := by
  have h0 : stepSt .top '"' = some ([], .qid []) := by decide
  refine ⟨[], .qidQ s, ?_, rfl, rfl⟩
  have hb := runS_qid_body s []
  rw [dblQuote_of_not_contains '"' s h] at hb
  simp only [Piece.spell, List.cons_append]
  rw [runS_cons_silent h0, hb]; simp

theorem pieceRun_num (s : Str) (h : isNumBody s = true) : PieceRun (.tok (.num s)) := by
  obtain ⟨st, h1, h2, h3⟩ := runS_numBody s h
  exact ⟨[], st, h1, h2, by simpa [Piece.toks] using h3⟩

theorem pieceRun_word (s : Str) (h : Piece.ok (.tok (.word s)) = true) : PieceRun (.tok (.word s)) := by
  cases s with
  | nil => simp [Piece.ok] at h
  | cons c t =>
    simp only [Piece.ok, Bool.and_eq_true, List.all_cons] at h
    have h0 : stepSt .top c = some ([], .word [c]) := by simp [fromTop_letter h.1]
    refine ⟨[], .word (c :: t), ?_, rfl, rfl⟩
    simp only [Piece.spell, spellTokSql]
    rw [runS_cons_silent h0, runS_word_body _ _ h.2.2]; simp

theorem pieceRun_op (s : Str) (h : Piece.ok (.tok (.op s)) = true) : PieceRun (.tok (.op s)) := by
  simp only [Piece.ok, sqlOps, List.contains_cons, List.contains_nil, Bool.or_eq_true, beq_iff_eq, Bool.or_false] at h
  rcases h with h | h | h | h | h | h | h | h | h | h | h | h | h <;> have h' := ofList_eq h <;> subst h'
  · exact ⟨[.op ['=']], .top, by decide, rfl, rfl⟩
  · exact ⟨[.op ['!', '=']], .top, by decide, rfl, rfl⟩
  · exact ⟨[.op ['<', '>']], .top, by decide, rfl, rfl⟩
  · exact ⟨[], .lt, by decide, rfl, rfl⟩
  · exact ⟨[.op ['<', '=']], .top, by decide, rfl, rfl⟩
  · exact ⟨[], .gt, by decide, rfl, rfl⟩
  · exact ⟨[.op ['>', '=']], .top, by decide, rfl, rfl⟩
  · exact ⟨[.op ['+']], .top, by decide, rfl, rfl⟩
  · exact ⟨[], .minus, by decide, rfl, rfl⟩
  · exact ⟨[.op ['*']], .top, by decide, rfl, rfl⟩
  · exact ⟨[], .slash, by decide, rfl, rfl⟩
  · exact ⟨[.op ['%']], .top, by decide, rfl, rfl⟩
  · exact ⟨[.op ['|', '|']], .top, by decide, rfl, rfl⟩

theorem pieceRun_ws (s : Str) (h : Piece.ok (.ws s) = true) : PieceRun (.ws s) := by
  simp only [Piece.ok, Bool.and_eq_true] at h
  exact ⟨[], .top, runS_blanks s h.2, rfl, rfl⟩

theorem pieceRun_raw (s : Str) (h : isNumText s = true) : PieceRun (.raw s) := by
  unfold isNumText at h
  split at h
  · rename_i t
    obtain ⟨st, h1, h2, h3⟩ := runS_numBody t h
    obtain ⟨d, t', rfl, hd⟩ := isNumBody_head h
    have h0 : stepSt .top '-' = some ([], .minus) := by decide
    have hk : kindOf .minus = some .minus := rfl
    have hsep : sepK .minus d = true := by
      have hn := (isDig_iff d).1 hd
      simp only [sepK, bne_iff_ne, ne_eq]
      intro e; subst e; revert hn; decide
    refine ⟨[.op ['-']], st, ?_, h2, ?_⟩
    · simp only [Piece.spell]
      rw [runS_cons_silent h0, runS_sep hk d t' hsep, h1]
      rfl
    · simp [Piece.toks, numToks, h3]
  · rename_i t
    obtain ⟨st, h1, h2, h3⟩ := runS_numBody t h
    have h0 : stepSt .top '+' = some ([.op ['+']], .top) := by decide
    refine ⟨[.op ['+']], st, ?_, h2, ?_⟩
    · simp only [Piece.spell]
      rw [runS_cons_emit h0 t h1]; rfl
    · simp [Piece.toks, numToks, h3]
  · rename_i t hm hp
    obtain ⟨st, h1, h2, h3⟩ := runS_numBody s h
    refine ⟨[], st, h1, h2, ?_⟩
    simp only [Piece.toks, List.nil_append, h3]
    unfold numToks
    split
    · exact absurd rfl (hm _)
    · exact absurd rfl (hp _)
    · rfl

theorem pieceRun_of_ok (q : Piece) (h : q.ok = true) : PieceRun q := by
  cases q with
  | tok t =>
    cases t with
    | str s => exact pieceRun_str s
    | qid s => exact pieceRun_qid s
    | num s => exact pieceRun_num s h
    | word s => exact pieceRun_word s h
    | op s => exact pieceRun_op s h
    | lp => exact ⟨[.lp], .top, by decide, rfl, rfl⟩
    | rp => exact ⟨[.rp], .top, by decide, rfl, rfl⟩
    | comma => exact ⟨[.comma], .top, by decide, rfl, rfl⟩
    | dot => exact ⟨[.dot], .top, by decide, rfl, rfl⟩
  | sq s => exact pieceRun_sq s h
  | dq s => exact pieceRun_dq s h
  | raw s => exact pieceRun_raw s h
  | ws s => exact pieceRun_ws s h

/-- MAIN per-piece lemma, continuation style -/
theorem piece_run (q : Piece) (h : q.ok = true) (rest : Str) (ts : List SqlTok)
    (hs : sepHead (endK q) rest = true) (hrest : run .top rest = some ts) :
    run .top (q.spell ++ rest) = some (q.toks ++ ts) := by
  obtain ⟨em, st, h1, h2, h3⟩ := pieceRun_of_ok q h
  exact piece_core h1 h2 h3 rest ts hs hrest

theorem spell_ne_nil (q : Piece) (h : q.ok = true) : ∃ c t, q.spell = c :: t := by
  cases hq : q.spell with
  | cons c t => exact ⟨c, t, rfl⟩
  | nil =>
    exfalso
    cases q with
    | tok t =>
      cases t with
      | str s => simp [Piece.spell, spellTokSql] at hq
      | qid s => simp [Piece.spell, spellTokSql] at hq
      | num s =>
        simp only [Piece.spell, spellTokSql] at hq; subst hq
        obtain ⟨d, t, h', _⟩ := isNumBody_head (s := []) h
        cases h'
      | word s => simp only [Piece.spell, spellTokSql] at hq; subst hq; simp [Piece.ok] at h
      | op s => simp only [Piece.spell, spellTokSql] at hq; subst hq; revert h; decide
      | lp => simp [Piece.spell, spellTokSql] at hq
      | rp => simp [Piece.spell, spellTokSql] at hq
      | comma => simp [Piece.spell, spellTokSql] at hq
      | dot => simp [Piece.spell, spellTokSql] at hq
    | sq s => simp [Piece.spell] at hq
    | dq s => simp [Piece.spell] at hq
    | raw s => simp only [Piece.spell] at hq; subst hq; revert h; decide
    | ws s => simp only [Piece.spell] at hq; subst hq; simp [Piece.ok] at h

/-! ### 7. good piece lists and blocks -/

theorem render_append (a b : List Piece) : renderPieces (a ++ b) = renderPieces a ++ renderPieces b := by
  induction a with
  | nil => rfl
  | cons p t ih => simp [renderPieces, ih]

theorem toks_append (a b : List Piece) : pieceToks (a ++ b) = pieceToks a ++ pieceToks b := by
  induction a with
  | nil => rfl
  | cons p t ih => simp [pieceToks, ih]

def isCloser (c : Char) : Bool :=
  isBlank c || c == '(' || c == ')' || c == ',' || c == '=' || c == '+' || c == '*' || c == '%' ||
  c == '|' || c == '<' || c == '>' || c == '!' || c == '-' || c == '/'

def closeHead : Str → Bool
  | [] => true
  | c :: _ => isCloser c

/-- run from the top state and followed by the end of the text or a closing character, the pieces are
    read as exactly their tokens -/
def Good (ps : List Piece) : Prop :=
  ∀ rest ts, closeHead rest = true → run .top rest = some ts →
    run .top (renderPieces ps ++ rest) = some (pieceToks ps ++ ts)

def isOpd : EndK → Bool
  | .top | .strQ | .qidQ | .num | .word => true
  | _ => false

theorem sep_of_closer {k : EndK} {c : Char} (hk : isOpd k = true) (hc : isCloser c = true) :
    sepK k c = true := by
  simp only [isCloser, isBlank, Bool.or_eq_true, beq_iff_eq, or_assoc] at hc
  rcases hc with h | h | h | h | h | h | h | h | h | h | h | h | h | h | h | h | h
  all_goals subst h
  all_goals cases k
  all_goals first | rfl | exact absurd hk (by decide)

theorem sepHead_of_close {k : EndK} {rest : Str} (hk : isOpd k = true) (hc : closeHead rest = true) :
    sepHead k rest = true := by
  cases rest with
  | nil => rfl
  | cons c r => exact sep_of_closer hk hc

theorem sepHead_top (rest : Str) : sepHead .top rest = true := by
  cases rest <;> rfl

def adj (p q : Piece) : Bool := sepHead (endK p) q.spell
def closerStart (q : Piece) : Bool :=
  match q.spell with
  | [] => false
  | c :: _ => isCloser c

inductive Blk
  | p (q : Piece)
  | sub (a : List Piece)

def Blk.ps : Blk → List Piece
  | .p q => [q]
  | .sub a => a
def Blk.skel : Blk → Option Piece
  | .p q => some q
  | .sub _ => none
def flat (bs : List Blk) : List Piece := bs.flatMap Blk.ps

/-- `x` followed by (the head of) what comes next; `none` = a good sub-list -/
def link : Option Piece → Option (Option Piece) → Bool
  | some q, none => q.ok && isOpd (endK q)
  | none, none => true
  | some q, some (some q') => q.ok && adj q q'
  | some q, some none => q.ok && (endK q == .top)
  | none, some (some q') => closerStart q'
  | none, some none => false

def shapeOk : List (Option Piece) → Bool
  | [] => true
  | x :: r => link x r.head? && shapeOk r

theorem good_nil : Good [] := by
  intro rest ts _ hr
  simpa [renderPieces, pieceToks] using hr

theorem shapeOk_head_ok {q : Piece} {r : List (Option Piece)} (h : shapeOk (some q :: r) = true) : q.ok = true := by
  simp only [shapeOk, Bool.and_eq_true] at h
  cases hr : r.head? with
  | none => rw [hr] at h; simp only [link, Bool.and_eq_true] at h; exact h.1.1
  | some y =>
    rw [hr] at h
    cases y <;> simp only [link, Bool.and_eq_true] at h <;> exact h.1.1

theorem good_blocks (bs : List Blk) (h : shapeOk (bs.map Blk.skel) = true)
    (hs : ∀ a, Blk.sub a ∈ bs → Good a) : Good (flat bs) := by
  induction bs with
  | nil => exact good_nil
  | cons b bs' ih =>
    simp only [List.map_cons, shapeOk, Bool.and_eq_true] at h
    obtain ⟨hl, hsh⟩ := h
    have ih' := ih hsh (fun a ha => hs a (List.mem_cons_of_mem _ ha))
    intro rest ts hc hr
    have hrest' := ih' rest ts hc hr
    have hfl : flat (b :: bs') = b.ps ++ flat bs' := by simp [flat]
    rw [hfl, render_append, toks_append, List.append_assoc, List.append_assoc]
    cases b with
    | p q =>
      have hq : q.ok = true := shapeOk_head_ok (r := bs'.map Blk.skel) (by
        simp only [shapeOk, Bool.and_eq_true]; exact ⟨hl, hsh⟩)
      have hsep : sepHead (endK q) (renderPieces (flat bs') ++ rest) = true := by
        cases bs' with
        | nil =>
          simp only [Blk.skel, List.map_nil, List.head?_nil, link, Bool.and_eq_true] at hl
          simpa [flat, renderPieces] using sepHead_of_close hl.2 hc
        | cons b' r =>
          cases b' with
          | p q' =>
            simp only [Blk.skel, List.map_cons, List.head?_cons, link, Bool.and_eq_true] at hl
            have hq' : q'.ok = true := shapeOk_head_ok (r := r.map Blk.skel) (by simpa [Blk.skel] using hsh)
            obtain ⟨c, t, hct⟩ := spell_ne_nil q' hq'
            have ha := hl.2
            simp only [adj, hct, sepHead] at ha
            simp [flat, Blk.ps, renderPieces, hct, sepHead, ha]
          | sub a =>
            simp only [Blk.skel, List.map_cons, List.head?_cons, link, Bool.and_eq_true, beq_iff_eq] at hl
            rw [hl.2]; exact sepHead_top _
      have := piece_run q hq _ _ hsep hrest'
      simpa [Blk.ps, renderPieces, pieceToks] using this
    | sub a =>
      have ha : Good a := hs a (List.mem_cons_self)
      have hcl : closeHead (renderPieces (flat bs') ++ rest) = true := by
        cases bs' with
        | nil => simpa [flat, renderPieces] using hc
        | cons b' r =>
          cases b' with
          | p q' =>
            simp only [Blk.skel, List.map_cons, List.head?_cons, link] at hl
            simp only [closerStart] at hl
            split at hl
            · exact absurd hl (by decide)
            · rename_i c t hct
              simp [flat, Blk.ps, renderPieces, hct, closeHead, hl]
          | sub a' =>
            simp [Blk.skel, link] at hl
      exact ha _ _ hcl hrest'

theorem flat_map_p (ms : List Piece) : flat (ms.map Blk.p) = ms := by
  induction ms with
  | nil => rfl
  | cons m t ih => simp only [flat, List.map_cons, List.flatMap_cons, Blk.ps] at *; simp [ih]

theorem good_pieces (ms : List Piece) (hm : shapeOk (ms.map some) = true) : Good ms := by
  have := good_blocks (ms.map Blk.p) (by simpa [List.map_map, Function.comp_def, Blk.skel] using hm)
    (by intro a ha; simp at ha)
  rwa [flat_map_p] at this

theorem good_mid {a b : List Piece} (ms : List Piece) (ha : Good a) (hb : Good b)
    (hm : shapeOk (none :: (ms.map some ++ [none])) = true) : Good (a ++ ms ++ b) := by
  have := good_blocks (.sub a :: (ms.map Blk.p ++ [.sub b]))
    (by simpa [List.map_map, Function.comp_def, Blk.skel] using hm)
    (by
      intro x hx
      simp at hx
      rcases hx with rfl | rfl
      · exact ha
      · exact hb)
  have hf : flat (.sub a :: (ms.map Blk.p ++ [.sub b])) = a ++ ms ++ b := by
    have := flat_map_p ms
    simp only [flat] at this
    simp [flat, Blk.ps, this]
  rwa [hf] at this

theorem good_pre {b : List Piece} (ms : List Piece) (hb : Good b)
    (hm : shapeOk (ms.map some ++ [none]) = true) : Good (ms ++ b) := by
  have := good_blocks (ms.map Blk.p ++ [.sub b])
    (by simpa [List.map_map, Function.comp_def, Blk.skel] using hm)
    (by
      intro x hx
      simp at hx
      subst hx
      exact hb)
  have hf : flat (ms.map Blk.p ++ [.sub b]) = ms ++ b := by
    have := flat_map_p ms
    simp only [flat] at this
    simp [flat, Blk.ps, this]
  rwa [hf] at this

theorem good_suf {a : List Piece} (ms : List Piece) (ha : Good a)
    (hm : shapeOk (none :: ms.map some) = true) : Good (a ++ ms) := by
  have := good_blocks (.sub a :: ms.map Blk.p)
    (by simpa [List.map_map, Function.comp_def, Blk.skel] using hm)
    (by
      intro x hx
      simp at hx
      subst hx
      exact ha)
  have hf : flat (.sub a :: ms.map Blk.p) = a ++ ms := by
    have := flat_map_p ms
    simp only [flat] at this
    simp [flat, Blk.ps, this]
  rwa [hf] at this

/-! ### 8. the pieces the model emits -/

/-- unfold everything `shapeOk` looks at on a (mostly) concrete list -/
macro "shape_simp" : tactic =>
  `(tactic| simp_all [shapeOk, link, adj, endK, opEndK, closerStart, isCloser, Piece.ok, w, o, lp, rp, sp, comma,
      Piece.spell, spellTokSql, sepHead, sepK, isOpd, isLetter, isWordCh, isDig, isBlank, sqlOps])

theorem good_paren {a : List Piece} (ha : Good a) : Good (parenP a) := by
  have h1 := good_suf [rp] ha (by decide)
  have h2 := good_pre [lp] h1 (by decide)
  simpa [parenP] using h2

theorem good_wrap {a : List Piece} (ha : Good a) (e : Expr) (n : Nat) (b : Bool) :
    Good (wrapOperand e n b a) := by
  unfold wrapOperand
  split
  · exact good_paren ha
  · exact ha

theorem good_joinComma : (items : List (List Piece)) → (∀ a ∈ items, Good a) → Good (joinComma items)
  | [], _ => good_nil
  | [a], h => h a (by simp)
  | a :: b :: r, h => by
      have ih := good_joinComma (b :: r) (fun x hx => h x (List.mem_cons_of_mem _ hx))
      have := good_mid [comma, sp] (h a (by simp)) ih (by decide)
      simpa [joinComma] using this

theorem good_joinPlus : (items : List (List Piece)) → (∀ a ∈ items, Good a) → Good (joinPlus items)
  | [], _ => good_nil
  | [a], h => h a (by simp)
  | a :: b :: r, h => by
      have ih := good_joinPlus (b :: r) (fun x hx => h x (List.mem_cons_of_mem _ hx))
      have := good_mid [sp, o "+", sp] (h a (by simp)) ih (by decide)
      simpa [joinPlus] using this

theorem good_ident (d : Dialect) (al : Option Str) (name : Str)
    (hn : nameOk d name = true) (ha : aliasOk al = true) : Good (identPieces d al name) := by
  unfold identPieces
  unfold nameOk at hn
  generalize (if d = .athena then athenaClean name else name) = nm at *
  cases al with
  | none => exact good_pieces _ (by shape_simp)
  | some a =>
    simp only [aliasOk] at ha
    by_cases he : a.isEmpty = true
    · simp only [he, if_true]; exact good_pieces _ (by shape_simp)
    · simp only [he]; exact good_pieces _ (by shape_simp)

/-! ### 9. literals -/

theorem durUnpack_sign (isD : Char → Bool) (v : Str) (p : DurParts) (h : durUnpack isD v = some p) :
    p.sign = none ∨ p.sign = some '+' ∨ p.sign = some '-' := by
  unfold durUnpack at h
  split at h
  rename_i sg r hm
  have hsg : p.sign = sg := by
    repeat' split at h
    all_goals first | (cases h; rfl) | cases h
  rw [hsg]
  split at hm <;> cases hm <;> simp

def optIv (x : Option Str) (u : String) : List (List Piece) :=
  match x with
  | some n => if n.isEmpty then [] else [intervalP n u]
  | none => []

def sgP (s : Option Char) : List Piece :=
  match s with
  | some c => [.tok (.op [c])]
  | none => []

def durIvs (p : DurParts) : List (List Piece) :=
  optIv p.years "YEAR" ++ optIv p.months "MONTH" ++ optIv p.days "DAY" ++ optIv p.hours "HOUR"
                 ++ optIv p.minutes "MINUTE" ++ optIv p.seconds "SECOND"

theorem durationPieces_eq (isD : Char → Bool) (v : Str) :
    durationPieces isD v =
      match durUnpack isD v with
      | none => .foreign "ValueError"
      | some p =>
        match durIvs p with
        | [] => .lib .value
        | [one] => .ok (sgP p.sign ++ one)
        | _ => .ok (sgP p.sign ++ parenP (joinPlus (durIvs p))) := by
  unfold durationPieces
  cases durUnpack isD v with
  | none => rfl
  | some p => rfl

def durUnits : List String := ["YEAR", "MONTH", "DAY", "HOUR", "MINUTE", "SECOND"]

def IvOk (y : List Piece) : Prop :=
  ∃ n u, y = intervalP n u ∧ (!n.contains '\'') = true ∧ u ∈ durUnits

theorem optIv_ok (x : Option Str) (u : String) (hx : ∀ s, x = some s → (!s.contains '\'') = true)
    (hu : u ∈ durUnits) : ∀ y ∈ optIv x u, IvOk y := by
  intro y hy
  cases x with
  | none => simp [optIv] at hy
  | some n =>
    simp only [optIv] at hy
    split at hy
    · simp at hy
    · simp only [List.mem_singleton] at hy
      exact ⟨n, u, hy, hx n rfl, hu⟩

theorem durPartsOk_fields (p : DurParts) (h : durPartsOk p = true) :
    (∀ s, p.years = some s → (!s.contains '\'') = true) ∧
    (∀ s, p.months = some s → (!s.contains '\'') = true) ∧
    (∀ s, p.days = some s → (!s.contains '\'') = true) ∧
    (∀ s, p.hours = some s → (!s.contains '\'') = true) ∧
    (∀ s, p.minutes = some s → (!s.contains '\'') = true) ∧
    (∀ s, p.seconds = some s → (!s.contains '\'') = true) := by
  unfold durPartsOk at h
  simp only [Bool.and_eq_true] at h
  obtain ⟨⟨⟨⟨⟨h1, h2⟩, h3⟩, h4⟩, h5⟩, h6⟩ := h
  refine ⟨?_, ?_, ?_, ?_, ?_, ?_⟩ <;> intro s hs
  · rw [hs] at h1; exact h1
  · rw [hs] at h2; exact h2
  · rw [hs] at h3; exact h3
  · rw [hs] at h4; exact h4
  · rw [hs] at h5; exact h5
  · rw [hs] at h6; exact h6

theorem durIvs_ok (p : DurParts) (h : durPartsOk p = true) : ∀ y ∈ durIvs p, IvOk y := by
  obtain ⟨h1, h2, h3, h4, h5, h6⟩ := durPartsOk_fields p h
  intro y hy
  simp only [durIvs, List.mem_append] at hy
  rcases hy with ((((hy | hy) | hy) | hy) | hy) | hy
  · exact optIv_ok _ _ h1 (by decide) y hy
  · exact optIv_ok _ _ h2 (by decide) y hy
  · exact optIv_ok _ _ h3 (by decide) y hy
  · exact optIv_ok _ _ h4 (by decide) y hy
  · exact optIv_ok _ _ h5 (by decide) y hy
  · exact optIv_ok _ _ h6 (by decide) y hy

theorem good_iv_sg (sg : Option Char) (hsg : sg = none ∨ sg = some '+' ∨ sg = some '-')
    (y : List Piece) (hy : IvOk y) : Good (sgP sg ++ y) := by
  obtain ⟨n, u, rfl, hn, hu⟩ := hy
  simp only [durUnits, List.mem_cons, List.not_mem_nil, or_false] at hu
  apply good_pieces
  rcases hsg with rfl | rfl | rfl <;> rcases hu with rfl | rfl | rfl | rfl | rfl | rfl <;>
    simp only [sgP, intervalP, List.nil_append, List.cons_append] <;> shape_simp

theorem good_iv (y : List Piece) (hy : IvOk y) : Good y := by
  simpa [sgP] using good_iv_sg none (Or.inl rfl) y hy

theorem good_duration (isD : Char → Bool) (v : Str) (ps : List Piece)
    (hl : ∀ p, durUnpack isD v = some p → durPartsOk p = true)
    (h : durationPieces isD v = .ok ps) : Good ps := by
  rw [durationPieces_eq] at h
  cases hu : durUnpack isD v with
  | none => simp [hu] at h
  | some p =>
    rw [hu] at h
    simp only at h
    have hall := durIvs_ok p (hl p hu)
    have hsg := durUnpack_sign isD v p hu
    cases hi : durIvs p with
    | nil => simp [hi] at h
    | cons y r =>
      cases r with
      | nil =>
        rw [hi] at h
        simp only [Outcome.ok.injEq] at h
        subst h
        exact good_iv_sg _ hsg y (hall y (by simp [hi]))
      | cons z r' =>
        rw [hi] at h
        simp only [Outcome.ok.injEq] at h
        subst h
        have hj : Good (joinPlus (y :: z :: r')) :=
          good_joinPlus _ (fun a ha => good_iv a (hall a (by rw [hi]; exact ha)))
        have h1 := good_suf [rp] hj (by decide)
        have h2 : Good (sgP p.sign ++ [lp] ++ (joinPlus (y :: z :: r') ++ [rp])) := by
          rcases hsg with hs | hs | hs <;> rw [hs] <;> exact good_pre _ h1 (by decide)
        simpa [parenP] using h2

theorem replaceT_noquote (v : Str) (h : (!v.contains '\'') = true) : (!(replaceT v).contains '\'') = true := by
  simp only [replaceT, Bool.not_eq_true', List.contains_eq_mem, decide_eq_false_iff_not, List.mem_map,
    not_exists, not_and] at *
  intro x hx
  by_cases hT : x = 'T'
  · subst hT; decide
  · have : (x == 'T') = false := by simp [hT]
    simp only [this, Bool.false_eq_true, if_false]
    intro e; subst e; exact h hx

theorem good_lit (isD : Char → Bool) (d : Dialect) (k : LitKind) (v : Str) (ps : List Piece)
    (hl : litTextOk isD k v = true) (h : litPieces isD d k v = .ok ps) : Good ps := by
  cases k
  case null => simp only [litPieces, Outcome.ok.injEq] at h; subst h; exact good_pieces _ (by decide)
  case int =>
    simp only [litPieces, Outcome.ok.injEq] at h; subst h
    simp only [litTextOk] at hl
    exact good_pieces _ (by shape_simp)
  case float =>
    simp only [litPieces, Outcome.ok.injEq] at h; subst h
    simp only [litTextOk] at hl
    exact good_pieces _ (by shape_simp)
  case bool =>
    simp only [litPieces] at h
    simp only [litTextOk, boolText, Bool.or_eq_true, beq_iff_eq] at hl
    split at h
    · simp only [Outcome.ok.injEq] at h; subst h
      split <;> exact good_pieces _ (by decide)
    · simp only [Outcome.ok.injEq] at h; subst h
      rcases hl with hl | hl <;> rw [hl] <;> exact good_pieces _ (by decide)
  case str =>
    simp only [litPieces, Outcome.ok.injEq] at h; subst h
    exact good_pieces _ (by shape_simp)
  case geo => simp [litPieces] at h
  case date =>
    simp only [litPieces] at h
    simp only [litTextOk] at hl
    split at h <;> simp only [Outcome.ok.injEq] at h <;> subst h <;> exact good_pieces _ (by shape_simp)
  case time =>
    simp only [litPieces] at h
    simp only [litTextOk] at hl
    split at h <;> simp only [Outcome.ok.injEq] at h <;> subst h <;> exact good_pieces _ (by shape_simp)
  case datetime =>
    simp only [litPieces] at h
    simp only [litTextOk] at hl
    have hr := replaceT_noquote v hl
    cases d <;> simp only [Outcome.ok.injEq] at h <;> subst h <;> exact good_pieces _ (by shape_simp)
  case duration =>
    simp only [litPieces] at h
    refine good_duration isD v ps ?_ h
    intro p hp
    simp only [litTextOk, hp] at hl
    exact hl
  case guid =>
    simp only [litPieces, Outcome.ok.injEq] at h; subst h
    simp only [litTextOk] at hl
    exact good_pieces _ (by shape_simp)

/-! ### 10. function templates -/

theorem good_pattern (arg : Expr) (argPs : List Piece) (pre suf : Str) (h : Good argPs) :
    Good (sqlPattern arg argPs pre suf) := by
  unfold sqlPattern
  split
  · simp only []
    split
    · exact good_pieces _ (by shape_simp)
    · exact good_pieces _ (by shape_simp)
  · simp only []
    have h1 : Good (if pre.isEmpty = true then wrapOperand arg 5 true argPs
        else .tok (.str pre) :: sp :: o "||" :: sp :: wrapOperand arg 5 true argPs) := by
      split
      · exact good_wrap h _ _ _
      · exact good_pre [.tok (.str pre), sp, o "||", sp] (good_wrap h _ _ _) (by shape_simp)
    split
    · exact h1
    · exact good_suf [sp, o "||", sp, .tok (.str suf)] h1 (by shape_simp)

theorem good_getD (items : List (List Piece)) (hi : ∀ a ∈ items, Good a) (i : Nat) : Good (items.getD i []) := by
  rw [List.getD_eq_getElem?_getD]
  cases h : items[i]? with
  | none => exact good_nil
  | some a => exact hi a (List.mem_of_getElem? h)

def tskel : TItem → Option Piece
  | .p x => some x
  | _ => none
def tplOk (tpl : List TItem) : Bool := shapeOk (tpl.map tskel)

def toBlk (args : List Expr) (items : List (List Piece)) : TItem → Blk
  | .p x => .p x
  | t => .sub (instItem args items t)

theorem good_instantiate (tpl : List TItem) (args : List Expr) (items : List (List Piece))
    (h : tplOk tpl = true) (hi : ∀ a ∈ items, Good a) : Good (instantiate tpl args items) := by
  have hflat : instantiate tpl args items = flat (tpl.map (toBlk args items)) := by
    unfold instantiate flat
    induction tpl with
    | nil => rfl
    | cons t r ih =>
      simp only [List.flatMap_cons, List.map_cons]
      rw [ih (by simp only [tplOk, List.map_cons, shapeOk, Bool.and_eq_true] at h; exact h.2)]
      cases t <;> rfl
  have hskel : (tpl.map (toBlk args items)).map Blk.skel = tpl.map tskel := by
    rw [List.map_map]
    apply List.map_congr_left
    intro t _
    cases t <;> rfl
  rw [hflat]
  apply good_blocks
  · rw [hskel]; exact h
  · intro a ha
    simp only [List.mem_map] at ha
    obtain ⟨t, _, ht⟩ := ha
    cases t with
    | p x => simp [toBlk] at ht
    | arg i =>
      simp only [toBlk, Blk.sub.injEq] at ht; subst ht
      exact good_getD items hi i
    | argW i pr oe =>
      simp only [toBlk, Blk.sub.injEq] at ht; subst ht
      exact good_wrap (good_getD items hi i) _ _ _
    | pat i pre suf =>
      simp only [toBlk, Blk.sub.injEq] at ht; subst ht
      exact good_pattern _ _ _ _ (good_getD items hi i)

theorem likeTpl_ok (name : String) (pre suf : Str) (tys : List (Option Ty)) (tpl : List TItem)
    (h : likeTpl name pre suf tys = .ok tpl) : tplOk tpl = true := by
  unfold likeTpl at h
  split at h
  · cases h; rfl
  · cases h
  · cases h

theorem selectTpl_ok (d : Dialect) (key : String) (tys : List (Option Ty)) (tpl : List TItem)
    (h : selectTpl d key tys = .ok tpl) : tplOk tpl = true := by
  unfold selectTpl at h
  simp only [] at h
  split at h
  case h_2 => exact likeTpl_ok _ _ _ _ _ h
  case h_3 => exact likeTpl_ok _ _ _ _ _ h
  case h_4 => exact likeTpl_ok _ _ _ _ _ h
  all_goals cases d
  all_goals (repeat' split at h)
  all_goals first | cases h | skip
  all_goals decide

theorem preCheck_not_ok (d : Dialect) (key : String) (n : Nat) (ps : List Piece) :
    preCheck d key n ≠ some (.ok ps) := by
  intro h
  unfold preCheck at h
  repeat' split at h
  all_goals cases h

/-! ### 11. the visitors -/

mutual
theorem good_visit (isD : Char → Bool) (d : Dialect) (al : Option Str) (ha : aliasOk al = true) :
    (e : Expr) → (ps : List Piece) → litOk isD d e = true → sqlVisit isD d al e = .ok ps → Good ps
  | .ident i, ps, hl, hv => by
      rw [sqlVisit] at hv; rw [litOk] at hl
      simp only [Outcome.ok.injEq] at hv; subst hv
      exact good_ident d al i.name hl ha
  | .attr _ _, ps, hl, hv => by rw [sqlVisit] at hv; cases hv
  | .named _ _, ps, hl, hv => by rw [sqlVisit] at hv; cases hv
  | .coll _ _ _, ps, hl, hv => by rw [sqlVisit] at hv; cases hv
  | .lit k v, ps, hl, hv => by
      rw [sqlVisit] at hv; rw [litOk] at hl
      exact good_lit isD d k v ps hl hv
  | .list xs, ps, hl, hv => by
      rw [sqlVisit] at hv; rw [litOk] at hl
      cases hx : sqlVisitList isD d al xs with
      | ok items =>
        rw [hx] at hv
        simp only [Outcome.bind_ok, Outcome.pure_eq, Outcome.ok.injEq] at hv; subst hv
        exact good_paren (good_joinComma items (good_visitList isD d al ha xs items hl hx))
      | lib e => rw [hx] at hv; cases hv
      | notImplemented => rw [hx] at hv; cases hv
      | foreign c => rw [hx] at hv; cases hv
  | .binop op l r, ps, hl, hv => by
      rw [sqlVisit] at hv; rw [litOk] at hl
      simp only [Bool.and_eq_true] at hl
      cases hx : sqlVisit isD d al l with
      | ok ls =>
        rw [hx] at hv
        simp only [Outcome.bind_ok] at hv
        cases hy : sqlVisit isD d al r with
        | ok rs =>
          rw [hy] at hv
          simp only [Outcome.bind_ok, Outcome.pure_eq, Outcome.ok.injEq] at hv; subst hv
          have hL := good_wrap (good_visit isD d al ha l ls hl.1 hx) l (sqlPrec (.binop op l r)) false
          have hR := good_wrap (good_visit isD d al ha r rs hl.2 hy) r (sqlPrec (.binop op l r)) true
          have := good_mid [sp, o (arithSym op), sp] hL hR (by cases op <;> decide)
          simpa using this
        | lib e => rw [hy] at hv; cases hv
        | notImplemented => rw [hy] at hv; cases hv
        | foreign c => rw [hy] at hv; cases hv
      | lib e => rw [hx] at hv; cases hv
      | notImplemented => rw [hx] at hv; cases hv
      | foreign c => rw [hx] at hv; cases hv
  | .compare op l r, ps, hl, hv => by
      rw [sqlVisit] at hv; rw [litOk] at hl
      simp only [Bool.and_eq_true] at hl
      cases hx : sqlVisit isD d al l with
      | ok ls =>
        rw [hx] at hv
        simp only [Outcome.bind_ok] at hv
        cases hy : sqlVisit isD d al r with
        | ok rs =>
          rw [hy] at hv
          simp only [Outcome.bind_ok, Outcome.pure_eq] at hv
          have hL := good_wrap (good_visit isD d al ha l ls hl.1 hx) l 4 true
          have hR := good_wrap (good_visit isD d al ha r rs hl.2 hy) r 4 true
          have hmid : ∀ x : Expr, shapeOk (none :: ((sp :: cmpPieces op x ++ [sp]).map some ++ [none])) = true := by
            intro x
            unfold cmpPieces
            split
            · decide
            · split
              · decide
              · cases op <;> decide
          split at hv
          · simp only [Outcome.ok.injEq] at hv; subst hv
            have := good_mid (sp :: cmpPieces op l ++ [sp]) hR hL (hmid l)
            simpa using this
          · simp only [Outcome.ok.injEq] at hv; subst hv
            have := good_mid (sp :: cmpPieces op r ++ [sp]) hL hR (hmid r)
            simpa using this
        | lib e => rw [hy] at hv; cases hv
        | notImplemented => rw [hy] at hv; cases hv
        | foreign c => rw [hy] at hv; cases hv
      | lib e => rw [hx] at hv; cases hv
      | notImplemented => rw [hx] at hv; cases hv
      | foreign c => rw [hx] at hv; cases hv
  | .boolop op l r, ps, hl, hv => by
      rw [sqlVisit] at hv; rw [litOk] at hl
      simp only [Bool.and_eq_true] at hl
      cases hx : sqlVisit isD d al l with
      | ok ls =>
        rw [hx] at hv
        simp only [Outcome.bind_ok] at hv
        cases hy : sqlVisit isD d al r with
        | ok rs =>
          rw [hy] at hv
          simp only [Outcome.bind_ok, Outcome.pure_eq, Outcome.ok.injEq] at hv; subst hv
          have hl0 := good_visit isD d al ha l ls hl.1 hx
          have hr0 := good_visit isD d al ha r rs hl.2 hy
          have hL : Good (boolWrapL op l ls) := by
            unfold boolWrapL
            split
            · split
              · exact good_paren hl0
              · exact hl0
            · exact hl0
          have hR : Good (boolWrapR r rs) := by
            unfold boolWrapR
            split
            · exact good_paren hr0
            · exact hr0
          have := good_mid [sp, w (if op == .and_ then "AND" else "OR"), sp] hL hR (by cases op <;> decide)
          simpa using this
        | lib e => rw [hy] at hv; cases hv
        | notImplemented => rw [hy] at hv; cases hv
        | foreign c => rw [hy] at hv; cases hv
      | lib e => rw [hx] at hv; cases hv
      | notImplemented => rw [hx] at hv; cases hv
      | foreign c => rw [hx] at hv; cases hv
  | .unary op e, ps, hl, hv => by
      rw [sqlVisit] at hv; rw [litOk] at hl
      cases hx : sqlVisit isD d al e with
      | ok es =>
        rw [hx] at hv
        simp only [Outcome.bind_ok, Outcome.pure_eq, Outcome.ok.injEq] at hv; subst hv
        have hE := good_wrap (good_visit isD d al ha e es hl hx) e (sqlPrec (.unary op e)) false
        have := good_pre [if op == .not_ then w "NOT" else o "-", sp] hE (by cases op <;> decide)
        simpa using this
      | lib e => rw [hx] at hv; cases hv
      | notImplemented => rw [hx] at hv; cases hv
      | foreign c => rw [hx] at hv; cases hv
  | .call f args, ps, hl, hv => by
      rw [sqlVisit] at hv; rw [litOk] at hl
      split at hv
      · cases hv
      · split at hv
        · rename_i err hpc
          subst hv
          exact absurd hpc (preCheck_not_ok _ _ _ _)
        · cases hx : sqlVisitList isD d al args with
          | ok items =>
            rw [hx] at hv
            simp only [Outcome.bind_ok] at hv
            cases hy : selectTpl d (String.ofList (pyLower (funcKey f))) (args.toList.map inferType) with
            | ok tpl =>
              rw [hy] at hv
              simp only [Outcome.bind_ok, Outcome.pure_eq, Outcome.ok.injEq] at hv; subst hv
              exact good_instantiate tpl args.toList items (selectTpl_ok _ _ _ _ hy)
                (good_visitList isD d al ha args items hl hx)
            | lib e => rw [hy] at hv; cases hv
            | notImplemented => rw [hy] at hv; cases hv
            | foreign c => rw [hy] at hv; cases hv
          | lib e => rw [hx] at hv; cases hv
          | notImplemented => rw [hx] at hv; cases hv
          | foreign c => rw [hx] at hv; cases hv

theorem good_visitList (isD : Char → Bool) (d : Dialect) (al : Option Str) (ha : aliasOk al = true) :
    (es : Exprs) → (items : List (List Piece)) → litOkList isD d es = true →
      sqlVisitList isD d al es = .ok items → ∀ a ∈ items, Good a
  | .nil, items, hl, hv => by
      rw [sqlVisitList] at hv
      simp only [Outcome.ok.injEq] at hv; subst hv
      intro a ha'; cases ha'
  | .cons h t, items, hl, hv => by
      rw [sqlVisitList] at hv; rw [litOkList] at hl
      simp only [Bool.and_eq_true] at hl
      cases hx : sqlVisit isD d al h with
      | ok hs =>
        rw [hx] at hv
        simp only [Outcome.bind_ok] at hv
        cases hy : sqlVisitList isD d al t with
        | ok ts =>
          rw [hy] at hv
          simp only [Outcome.bind_ok, Outcome.pure_eq, Outcome.ok.injEq] at hv; subst hv
          intro a ha'
          simp only [List.mem_cons] at ha'
          rcases ha' with rfl | ha'
          · exact good_visit isD d al ha h _ hl.1 hx
          · exact good_visitList isD d al ha t ts hl.2 hy a ha'
        | lib e => rw [hy] at hv; cases hv
        | notImplemented => rw [hy] at hv; cases hv
        | foreign c => rw [hy] at hv; cases hv
      | lib e => rw [hx] at hv; cases hv
      | notImplemented => rw [hx] at hv; cases hv
      | foreign c => rw [hx] at hv; cases hv
end

end OQ.SqlLexing
