/- Lemmas/OrmParams.lean — helper lemmas for Props/C08.lean. -/
import ODataVerif.Model.Orm
namespace OQ.OrmParams

/-! ### the `Outcome` monad -/
theorem bind_eq_ok {α β} (x : Outcome α) (f : α → Outcome β) (b : β) :
    (x >>= f) = .ok b ↔ ∃ a, x = .ok a ∧ f a = .ok b := by
  cases x <;> simp

theorem bind_eq_ok' {α β} (x : Outcome α) (f : α → Outcome β) (b : β) :
    x.bind f = .ok b ↔ ∃ a, x = .ok a ∧ f a = .ok b := by
  cases x <;> simp [Outcome.bind]

/-! ### an induction principle for `Expr` with list hypotheses -/
section
variable {P : Expr → Prop}
  (ident : ∀ i, P (.ident i))
  (attr : ∀ o n, P o → P (.attr o n))
  (lit : ∀ k v, P (.lit k v))
  (list : ∀ xs : Exprs, (∀ a ∈ xs.toList, P a) → P (.list xs))
  (binop : ∀ o l r, P l → P r → P (.binop o l r))
  (compare : ∀ o l r, P l → P r → P (.compare o l r))
  (boolop : ∀ o l r, P l → P r → P (.boolop o l r))
  (unary : ∀ o e, P e → P (.unary o e))
  (named : ∀ n e, P (.named n e))
  (call : ∀ f (args : Exprs), (∀ a ∈ args.toList, P a) → P (.call f args))
  (coll : ∀ o op l, P (.coll o op l))
set_option linter.unusedSectionVars false
include ident attr lit list binop compare boolop unary named call coll

mutual
theorem expr_ind : (e : Expr) → P e
  | .ident i => ident i
  | .attr o n => attr o n (expr_ind o)
  | .lit k v => lit k v
  | .list xs => list xs (exprs_ind xs)
  | .binop o l r => binop o l r (expr_ind l) (expr_ind r)
  | .compare o l r => compare o l r (expr_ind l) (expr_ind r)
  | .boolop o l r => boolop o l r (expr_ind l) (expr_ind r)
  | .unary o e => unary o e (expr_ind e)
  | .named n e => named n e
  | .call f args => call f args (exprs_ind args)
  | .coll o op l => coll o op l
theorem exprs_ind : (xs : Exprs) → ∀ a ∈ xs.toList, P a
  | .nil => by intro a ha; simp [Exprs.toList] at ha
  | .cons h t => by
      intro a ha
      simp only [Exprs.toList, List.mem_cons] at ha
      rcases ha with ha | ha
      · rw [ha]; exact expr_ind h
      · exact exprs_ind t a ha
end
end

/-! ### parameters and skeletons of the tree builders -/
@[simp] theorem params_on1 (op a) : (on1 op a).params = a.params := by
  simp [on1, OTree.params, OTrees.params]
@[simp] theorem params_on2 (op a b) : (on2 op a b).params = a.params ++ b.params := by
  simp [on2, OTree.params, OTrees.params]
@[simp] theorem params_on3 (op a b c) : (on3 op a b c).params = a.params ++ (b.params ++ c.params) := by
  simp [on3, OTree.params, OTrees.params]
@[simp] theorem params_pint (z) : (OTree.pint z).params = [] := by simp [OTree.params]
@[simp] theorem params_const (z) : (OTree.const z).params = [] := by simp [OTree.params]
@[simp] theorem params_col (z) : (OTree.col z).params = [] := by simp [OTree.params]
@[simp] theorem params_param (k v) : (OTree.param k v).params = [(k, v)] := by simp [OTree.params]
@[simp] theorem params_node (op a) : (OTree.node op a).params = a.params := by simp [OTree.params]
@[simp] theorem params_nil : OTrees.nil.params = [] := by simp [OTrees.params]
@[simp] theorem params_cons (h t) : (OTrees.cons h t).params = h.params ++ t.params := by simp [OTrees.params]
@[simp] theorem params_ofList_nil : (OTrees.ofList []).params = [] := by simp [OTrees.ofList]
@[simp] theorem params_ofList_cons (h t) : (OTrees.ofList (h :: t)).params = h.params ++ (OTrees.ofList t).params := by
  simp [OTrees.ofList]

@[simp] theorem skel_on1 (op a) : (on1 op a).skeleton = on1 op a.skeleton := by
  simp [on1, OTree.skeleton, OTrees.skeleton]
@[simp] theorem skel_on2 (op a b) : (on2 op a b).skeleton = on2 op a.skeleton b.skeleton := by
  simp [on2, OTree.skeleton, OTrees.skeleton]
@[simp] theorem skel_on3 (op a b c) : (on3 op a b c).skeleton = on3 op a.skeleton b.skeleton c.skeleton := by
  simp [on3, OTree.skeleton, OTrees.skeleton]
@[simp] theorem skel_pint (z) : (OTree.pint z).skeleton = .pint z := by simp [OTree.skeleton]
@[simp] theorem skel_const (z) : (OTree.const z).skeleton = .const z := by simp [OTree.skeleton]
@[simp] theorem skel_col (z) : (OTree.col z).skeleton = .col z := by simp [OTree.skeleton]
@[simp] theorem skel_param (k v) : (OTree.param k v).skeleton = .param k [] := by simp [OTree.skeleton]
@[simp] theorem skel_node (op a) : (OTree.node op a).skeleton = .node op a.skeleton := by simp [OTree.skeleton]
@[simp] theorem skel_nil : OTrees.nil.skeleton = .nil := by simp [OTrees.skeleton]
@[simp] theorem skel_cons (h t) : (OTrees.cons h t).skeleton = .cons h.skeleton t.skeleton := by simp [OTrees.skeleton]
@[simp] theorem skel_ofList_nil : (OTrees.ofList []).skeleton = .nil := by simp [OTrees.ofList]
@[simp] theorem skel_ofList_cons (h t) :
    (OTrees.ofList (h :: t)).skeleton = .cons h.skeleton (OTrees.ofList t).skeleton := by
  simp [OTrees.ofList]

/-! ### literals -/
theorem litParam_ok (k v p) (h : litParam k v = .ok p) : p = .param k v := by
  unfold litParam at h
  cases k <;> simp only [] at h <;> (try split at h) <;> first | (injection h with h; exact h.symm) | cases h

theorem isNullLit_iff (e : Expr) : isNullLit e = true ↔ ∃ v, e = .lit .null v := by
  unfold isNullLit
  split <;> simp_all

/-! ### function handlers as plans -/
inductive FPlan
  | un (name : String) | un2 (n1 n2 : String) | like (name : String) | likeEsc (name : String) | bin (name : String)
  | concat2 (name : String) | concatN (name : String) | indexof (name : String)
  | substring (name : String) | now (name : String) | bad (key : String)

def visitAll (visit : Expr → Outcome (OTree × OKind)) : Exprs → Outcome (List OTree)
  | .nil => .ok []
  | .cons h t => do
      let (a, _) ← visit h
      let rest ← visitAll visit t
      pure (a :: rest)

theorem djVisitList_eq : (xs : Exprs) → djVisitList xs = visitAll djVisit xs
  | .nil => by rw [djVisitList, visitAll]
  | .cons h t => by rw [djVisitList, visitAll, djVisitList_eq t]

section
variable (visit : Expr → Outcome (OTree × OKind)) (visitList : Exprs → Outcome (List OTree))
def runPlan : FPlan → Exprs → Outcome (OTree × OKind)
  | .un name, .cons a .nil => do
      let (t, _) ← visit a
      pure (on1 name t, .expr)
  | .un2 n1 n2, .cons a .nil => do
      let (t, _) ← visit a
      pure (on1 n1 (on1 n2 t), .expr)
  | .like name, .cons a (.cons b .nil) => do
      substrTypecheck a b
      let (x, _) ← visit a
      let (y, _) ← visit b
      pure (on2 name x y, .cond)
  | .likeEsc name, .cons a (.cons b .nil) => do
      substrTypecheck a b
      let (x, _) ← visit a
      let (y, _) ← visit b
      pure (on2 (if litNeedsEscape b then name ++ "_autoescape" else name) x y, .cond)
  | .bin name, .cons a (.cons b .nil) => do
      let (x, _) ← visit a
      let (y, _) ← visit b
      pure (on2 name x y, .cond)
  | .concat2 name, args => do
      let items ← visitList args
      match items with
      | [a, b] => pure (on2 name a b, .expr)
      | _ => .foreign "unmodelled"
  | .concatN name, args => do
      let items ← visitList args
      pure (.node name (OTrees.ofList items), .expr)
  | .indexof name, .cons a (.cons b .nil) => do
      let (x, _) ← visit a
      let (y, _) ← visit b
      pure (on2 "-" (on2 name x y) (.pint 1), .expr)
  | .substring name, .cons a (.cons b .nil) => do
      let (x, _) ← visit a
      let (i, _) ← visit b
      pure (on2 name x (on2 "+" i (.pint 1)), .expr)
  | .substring name, .cons a (.cons b (.cons c .nil)) => do
      let (x, _) ← visit a
      let (i, _) ← visit b
      let (n, _) ← visit c
      pure (on3 name x (on2 "+" i (.pint 1)) n, .expr)
  | .now name, .nil => .ok (.node name .nil, .expr)
  | .bad key, _ => .lib (.unsupportedFunction key.toList)
  | _, _ => .foreign "TypeError"
end

def djPlan (key : String) : FPlan :=
  match key with
  | "contains" => .like "contains"
  | "startswith" => .like "startswith"
  | "endswith" => .like "endswith"
  | "length" => .un "Length"
  | "concat" => .concat2 "Concat"
  | "indexof" => .indexof "StrIndex"
  | "substring" => .substring "Substr"
  | "matchespattern" => .bin "regex"
  | "tolower" => .un "Lower"
  | "toupper" => .un "Upper"
  | "trim" => .un "Trim"
  | "date" => .un "TruncDate"
  | "time" => .un "TruncTime"
  | "day" => .un "ExtractDay"
  | "hour" => .un "ExtractHour"
  | "minute" => .un "ExtractMinute"
  | "month" => .un "ExtractMonth"
  | "second" => .un "ExtractSecond"
  | "year" => .un "ExtractYear"
  | "ceiling" => .un "Ceil"
  | "floor" => .un "Floor"
  | "round" => .un "Round"
  | "now" => .now "Now"
  | _ => .bad key

theorem djFunc_eq (key args) : djFunc key args = runPlan djVisit djVisitList (djPlan key) args := by
  unfold djFunc
  dsimp only
  split
  all_goals first | rfl | (rcases args with _ | ⟨a, _ | ⟨b, _ | ⟨c, _ | ⟨d, t⟩⟩⟩⟩ <;> rfl) | skip
  have hp : djPlan key = .bad key := by
    unfold djPlan
    split <;> first | rfl | (exfalso; simp_all; done)
  rw [hp]
  rcases args with _ | ⟨a, _ | ⟨b, _ | ⟨c, _ | ⟨d, t⟩⟩⟩⟩ <;> rfl




/-- which arguments are literals with a LIKE wildcard -/
def escOf : Exprs → List Bool
  | .nil => []
  | .cons h t => litNeedsEscape h :: escOf t

theorem djPlan_noEsc (key n) : djPlan key ≠ .likeEsc n := by
  unfold djPlan
  split <;> simp

def saPlan (key : String) : FPlan :=
  match key with
  | "contains" => .likeEsc "contains"
  | "startswith" => .likeEsc "startswith"
  | "endswith" => .likeEsc "endswith"
  | "length" => .un "char_length"
  | "concat" => .concatN "concat"
  | "indexof" => .indexof "strpos"
  | "substring" => .substring "substr"
  | "matchespattern" => .bin "regexp_match"
  | "tolower" => .un "lower"
  | "toupper" => .un "upper"
  | "trim" => .un2 "ltrim" "rtrim"
  | "date" => .un "cast_date"
  | "time" => .un "cast_time"
  | "day" => .un "extract_day"
  | "hour" => .un "extract_hour"
  | "minute" => .un "extract_minute"
  | "month" => .un "extract_month"
  | "second" => .un "extract_second"
  | "year" => .un "extract_year"
  | "ceiling" => .un "ceil"
  | "floor" => .un "floor"
  | "round" => .un "round"
  | "now" => .now "now"
  | _ => .bad key

theorem saVisitList_eq (fields core) : (xs : Exprs) → saVisitList fields core xs = visitAll (saVisit fields core) xs
  | .nil => by rw [saVisitList, visitAll]
  | .cons h t => by rw [saVisitList, visitAll, saVisitList_eq fields core t]

theorem saFunc_eq (fields core key args) :
    saFunc fields core key args = runPlan (saVisit fields core) (saVisitList fields core) (saPlan key) args := by
  unfold saFunc
  dsimp only
  split
  all_goals first | rfl | (rcases args with _ | ⟨a, _ | ⟨b, _ | ⟨c, _ | ⟨d, t⟩⟩⟩⟩ <;> rfl) | skip
  have hp : saPlan key = .bad key := by
    unfold saPlan
    split <;> first | rfl | (exfalso; simp_all; done)
  rw [hp]
  rcases args with _ | ⟨a, _ | ⟨b, _ | ⟨c, _ | ⟨d, t⟩⟩⟩⟩ <;> rfl

theorem saFunc_eq' (fields core key args) :
    saFunc fields core key args = runPlan (saVisit fields core) (visitAll (saVisit fields core)) (saPlan key) args := by
  rw [saFunc_eq, show saVisitList fields core = visitAll (saVisit fields core) from funext (saVisitList_eq fields core)]

end OQ.OrmParams
