/- Lemmas/RespellKw.lean — the keyword tokens (`any`, `all`, `not`, the 14 binary operators) in any ASCII letter case and
   with runs of whitespace (for Props/C19Text.lean). -/
import ODataVerif.Lemmas.RespellTok
namespace OQ.Respelling
open Spec LexRender CaseMap
set_option linter.unusedSimpArgs false
set_option linter.unusedVariables false

/-! ### the ASCII case variants of a keyword -/

def variants : List Char → List (List Char)
  | [] => [[]]
  | p :: ps => (variants ps).flatMap fun t => [p :: t, asciiUpper p :: t]

theorem lower_inv {c p : Char} (h : asciiLower c = p) : c = p ∨ c = asciiUpper p := by
  cases hc : isAsciiUpper c with
  | false => left; rw [← h, asciiLower_id hc]
  | true =>
    right
    have := (by decide +kernel : ∀ c ∈ upperChars, asciiUpper (asciiLower c) = c) c (upper_mem hc)
    rw [← h, this]

theorem variants_mem : ∀ (k s : List Char), s.map asciiLower = k → s ∈ variants k
  | [], s, h => by simp at h; subst h; simp [variants]
  | p :: ps, [], h => by simp at h
  | p :: ps, c :: s, h => by
      simp only [List.map_cons, List.cons.injEq] at h
      have ih := variants_mem ps s h.2
      simp only [variants, List.mem_flatMap, List.mem_cons, List.not_mem_nil, or_false]
      refine ⟨s, ih, ?_⟩
      rcases lower_inv h.1 with rfl | rfl
      · exact Or.inl rfl
      · exact Or.inr rfl

/-- `any` / `all` in any letter case, in front of `(` -/
def kwOkB (t : Tok) (k : List Char) : Bool :=
  match k with
  | c :: _ => lexOne E k == some (t, []) && c != '\'' && !ciChar E 'g' c && !E.isSpace c
  | [] => false

theorem any_table : ∀ k ∈ variants "any".toList, kwOkB .any k = true := by decide +kernel
theorem all_table : ∀ k ∈ variants "all".toList, kwOkB .all k = true := by decide +kernel

theorem lexOne_kw_lp {t : Tok} {k : List Char} (h : kwOkB t k = true) (htn : t ≠ .not_) (tl : List Char) :
    lexOne E (k ++ '(' :: tl) = some (t, '(' :: tl) := by
  cases k with
  | nil => simp [kwOkB] at h
  | cons c s0 =>
    simp only [kwOkB, Bool.and_eq_true, beq_iff_eq, bne_iff_ne, Bool.not_eq_true'] at h
    obtain ⟨⟨⟨h0, hq⟩, hg⟩, hs⟩ := h
    have hD : Delim E '(' := delim_of (by decide)
    exact lexOne_ext_other word_dot hD (delim_identStart (by decide)) (Or.inl (by decide)) hq
      (kw_head (p := 'g') hg) hs (fun hn => by rw [scanNot_ext hD (by decide +kernel), hn]; rfl) htn h0

theorem lexOne_anyC {k : List Char} (h : ciSpell "any".toList k) (tl : List Char) :
    lexOne E (k ++ '(' :: tl) = some (.any, '(' :: tl) :=
  lexOne_kw_lp (any_table k (variants_mem _ _ h)) (by simp) tl

theorem lexOne_allC {k : List Char} (h : ciSpell "all".toList k) (tl : List Char) :
    lexOne E (k ++ '(' :: tl) = some (.all, '(' :: tl) :=
  lexOne_kw_lp (all_table k (variants_mem _ _ h)) (by simp) tl


/-! ### `not` in any letter case, followed by a run of whitespace -/

def notOkB (k : List Char) : Bool :=
  match k with
  | c :: _ => (firstSome (litRules E) k == none) && (kw E "not".toList k == some (k, [])) && !E.isSpace c
      && c != '-' && c != '\'' && !ciChar E 'g' c
  | [] => false

theorem not_table : ∀ k ∈ variants "not".toList, notOkB k = true := by decide +kernel

theorem isBlankRun_cons {w : Str} (hw : isBlankRun E w) : ∃ d w', w = d :: w' ∧ E.isSpace d = true := by
  cases w with
  | nil => exact absurd rfl hw.1
  | cons d w' => exact ⟨d, w', rfl, by have := hw.2; simp at this; exact this.1⟩

theorem lexOne_notC {k w : List Char} (hk : ciSpell "not".toList k) (hw : isBlankRun E w) (tl : List Char)
    (htl : headNS tl) : lexOne E (k ++ (w ++ tl)) = some (.not_, tl) := by
  have hb := not_table k (variants_mem _ _ hk)
  obtain ⟨d, w', rfl, hd⟩ := isBlankRun_cons hw
  have hD : Delim E d := DelimC.delim (Or.inr hd)
  have hdc : d ≠ ':' := by rintro rfl; exact absurd hd (by decide +kernel)
  cases k with
  | nil => simp [notOkB] at hb
  | cons c s0 =>
    simp only [notOkB, Bool.and_eq_true, beq_iff_eq, bne_iff_ne, Bool.not_eq_true'] at hb
    obtain ⟨⟨⟨⟨⟨hlit0, hkw⟩, hsp⟩, hm⟩, hq⟩, hg⟩ := hb
    have hlit : firstSome (litRules E) ((c :: s0) ++ d :: (w' ++ tl)) = none :=
      firstSome_transfer_none _ _ (d :: (w' ++ tl)) .not_ _
        (litRules_ext word_dot hD (Or.inl hdc) hq (kw_head (p := 'g') hg)) hlit0
    have hmin : rMinus ((c :: s0) ++ d :: (w' ++ tl)) = none := by
      rw [List.cons_append, rMinus_cons]; exact if_neg hm
    have hnot : scanNot E ((c :: s0) ++ d :: (w' ++ tl)) = some tl := by
      simp only [scanNot, Option.bind_eq_bind]
      rw [kw_ext E d _ _ _ (hD.kwl _), hkw]
      have := span1_run hw htl
      simp only [List.cons_append] at this
      simp [this]
    have e : (c :: s0) ++ (d :: w' ++ tl) = (c :: s0) ++ d :: (w' ++ tl) := by simp
    rw [e, lexOne_eq, rules, firstSome_append, hlit, restRules_eq]
    simp only []
    have ho : ∀ L : List (Tok × List Char), ∀ f ∈ L.map opRule, f ((c :: s0) ++ d :: (w' ++ tl)) = none :=
      fun L => opRules_head L _ hsp
    rw [firstSome_skip _ _ _ (ho ops1)]
    simp only [firstSome, hmin]
    rw [firstSome_skip _ _ _ (ho ops2)]
    simp only [firstSome, rOp, hnot, Option.map_some]


/-! ### binary operators in any letter case, between runs of whitespace -/

theorem kw_isSome_lower {w k : List Char} (hw : ∀ p ∈ w, p ∈ patChars) :
    (kw E w (k.map asciiLower)).isSome = (kw E w k).isSome ∧
    ((∃ m, kw E w (k.map asciiLower) = some (m, [])) ↔ ∃ m, kw E w k = some (m, [])) := by
  rw [kw_map caseMap_lower w k hw]
  cases kw E w k with
  | none => simp
  | some x =>
    obtain ⟨m, r⟩ := x
    simp

/-- an operator rule on a blank, a case variant `k` of the word `w'`, a run of whitespace, a non-space -/
theorem scanOp_wordC (w w' k w2 tl : List Char) (hk : k.map asciiLower = w') (hw' : headNS k) (hne : k ≠ [])
    (hw2 : isBlankRun E w2) (htl : headNS tl) (hw : ∀ p ∈ w, p ∈ patChars)
    (hkw : kw E w w' = none ∨ ∃ m, kw E w w' = some (m, [])) :
    scanOp E w (' ' :: k ++ (w2 ++ tl)) = if (kw E w w').isSome then some tl else none := by
  obtain ⟨d, w2', rfl, hd⟩ := isBlankRun_cons hw2
  have hD : Delim E d := DelimC.delim (Or.inr hd)
  have hx : headNS (k ++ (d :: w2' ++ tl)) := by
    cases k with
    | nil => exact absurd rfl hne
    | cons c t => exact headNS_cons (hw' c t rfl)
  obtain ⟨h1, h2⟩ := kw_isSome_lower (w := w) (k := k) hw
  rw [hk] at h1 h2
  rw [List.cons_append, scanOp_blank w hx]
  have e : k ++ (d :: w2' ++ tl) = k ++ d :: (w2' ++ tl) := by simp
  rw [e, kw_ext E d _ w k (hD.kwl w hw)]
  rcases hkw with hn | hs
  · have : kw E w k = none := by
      cases hkk : kw E w k with
      | none => rfl
      | some y => rw [hn, hkk] at h1; simp at h1
    simp [hn, this]
  · obtain ⟨m', hm'⟩ := h2.1 hs
    obtain ⟨m, hm⟩ := hs
    have hr := span1_run hw2 htl
    simp only [List.cons_append] at hr
    simp [hm, hm', hr]

theorem firstSome_opRulesC (L : List (Tok × List Char)) (more : List Rule) (w' k w2 tl : List Char)
    (hk : k.map asciiLower = w') (hw' : headNS k) (hne : k ≠ []) (hw2 : isBlankRun E w2) (htl : headNS tl)
    (hL : ∀ e ∈ L, (∀ p ∈ e.2, p ∈ patChars) ∧ (kw E e.2 w' = none ∨ ∃ m, kw E e.2 w' = some (m, []))) :
    firstSome (L.map opRule ++ more) (' ' :: k ++ (w2 ++ tl)) =
      match findOp L w' with
      | some e => some (e.1, tl)
      | none => firstSome more (' ' :: k ++ (w2 ++ tl)) := by
  induction L with
  | nil => rfl
  | cons e L ih =>
    have he := hL e List.mem_cons_self
    have hs := scanOp_wordC e.2 w' k w2 tl hk hw' hne hw2 htl he.1 he.2
    simp only [List.map_cons, List.cons_append, firstSome, opRule, rOp, findOp, List.find?_cons]
    simp only [List.cons_append] at hs
    rw [hs]
    cases hkk : (kw E e.2 w').isSome with
    | true => simp
    | false =>
      simp only [Bool.false_eq_true, if_false, Option.map_none]
      exact ih (fun e' he' => hL e' (List.mem_cons_of_mem _ he'))

theorem lexOne_opC {tok : Tok} {w' : List Char} (h : (tok, w') ∈ allOps) {w1 k w2 : List Char}
    (hw1 : isBlankRun E w1) (hk : k.map asciiLower = w') (hw2 : isBlankRun E w2) (tl : List Char) (htl : headNS tl) :
    lexOne E (w1 ++ k ++ w2 ++ tl) = some (tok, tl) := by
  have hrow := (List.all_eq_true.1 ops_table) _ h
  simp only [opRow, Bool.and_eq_true] at hrow
  obtain ⟨⟨⟨⟨hh, s1⟩, s2⟩, s3⟩, hfind⟩ := hrow
  have hne : k ≠ [] := by rintro rfl; simp at hk; subst hk; simp at hh
  have hw' : headNS k := by
    intro c t hc; subst hc
    simp only [List.map_cons] at hk
    subst hk
    simp only [Bool.not_eq_true'] at hh
    rw [← caseMap_lower.space c]; exact hh
  have hx : headNS (k ++ (w2 ++ tl)) := by
    cases k with
    | nil => exact absurd rfl hne
    | cons c t => exact headNS_cons (hw' c t rfl)
  have e0 : w1 ++ k ++ w2 ++ tl = w1 ++ (k ++ (w2 ++ tl)) := by simp
  rw [e0, lexOne_blank_run hw1 hx]
  have hl : firstSome (litRules E) (' ' :: k ++ (w2 ++ tl)) = none :=
    litRules_head _ hf_blank (by decide) (by decide) (by decide)
  rw [← List.cons_append, lexOne_eq, rules, firstSome_append, hl, restRules_eq,
    firstSome_opRulesC ops1 _ w' k w2 tl hk hw' hne hw2 htl (opSide_spec s1)]
  cases h1 : findOp ops1 w' with
  | some e' => rw [h1] at hfind; simp at hfind; simp [hfind]
  | none =>
    rw [h1] at hfind
    have hmin : rMinus (' ' :: k ++ (w2 ++ tl)) = none := by
      rw [List.cons_append, rMinus_cons]; exact if_neg (by decide)
    have hnot : scanNot E (' ' :: k ++ (w2 ++ tl)) = none := scanNot_head hf_blank.n
    simp only [firstSome, hmin]
    rw [firstSome_opRulesC ops2 _ w' k w2 tl hk hw' hne hw2 htl (opSide_spec s2)]
    cases h2 : findOp ops2 w' with
    | some e' => rw [h2] at hfind; simp at hfind; simp [hfind]
    | none =>
      rw [h2] at hfind
      simp only [firstSome, rOp, hnot, Option.map_none]
      rw [firstSome_opRulesC ops3 _ w' k w2 tl hk hw' hne hw2 htl (opSide_spec s3)]
      simp at hfind
      simp [hfind]

end OQ.Respelling
