/- Lemmas/RelSound.lean — helper lemmas for Props/C04.lean. -/
import ODataVerif.Model.OrmRel
import ODataVerif.Spec.OrmRelSem
namespace OQ.RelSound
open Spec

theorem rel_some {sch : Schema} {t n : Str} {rel : RelDef} (h : sch.rel t n = some rel) :
    rel ∈ sch ∧ rel.src = t ∧ rel.name = n := by
  unfold Schema.rel at h
  have h1 := List.mem_of_find?_eq_some h
  have h2 := List.find?_some h
  simp at h2
  exact ⟨h1, h2.1, h2.2⟩

theorem mem_related_toOne {db : DB} {rel : RelDef} {r : Row} {fk key : Str} (hk : rel.kind = .toOne fk key) (x : Row) :
    x ∈ relatedRows db rel r ↔ ∃ k, r.int fk = some k ∧ x ∈ db.table rel.dst ∧ x.int key = some k := by
  unfold relatedRows
  rw [hk]
  cases h : r.int fk <;> simp [h]

theorem mem_related_toMany {db : DB} {rel : RelDef} {r : Row} {cfk key : Str} (hk : rel.kind = .toMany cfk key) (x : Row) :
    x ∈ relatedRows db rel r ↔ ∃ k, r.int key = some k ∧ x ∈ db.table rel.dst ∧ x.int cfk = some k := by
  unfold relatedRows
  rw [hk]
  cases h : r.int key <;> simp [h]

theorem mem_related_m2m {db : DB} {rel : RelDef} {r : Row} {link sc dc : Str} (hk : rel.kind = .m2m link sc dc) (x : Row) :
    x ∈ relatedRows db rel r ↔ ∃ k i, idOf r = some k ∧ x ∈ db.table rel.dst ∧ idOf x = some i ∧
      ∃ l, l ∈ db.table link ∧ l.int sc = some k ∧ l.int dc = some i := by
  unfold relatedRows
  rw [hk]
  cases h : idOf r with
  | none => simp
  | some k =>
    simp only [List.mem_filter]
    cases hx : idOf x with
    | none => simp
    | some i =>
      simp
      intro _
      constructor
      · rintro ⟨l, ⟨h1, h2⟩, h3⟩; exact ⟨l, h1, h2, h3⟩
      · rintro ⟨l, h1, h2, h3⟩; exact ⟨l, ⟨h1, h2⟩, h3⟩

theorem related_sub {db : DB} {rel : RelDef} {r x : Row} (h : x ∈ relatedRows db rel r) : x ∈ db.table rel.dst := by
  cases hk : rel.kind with
  | toOne fk key => rw [mem_related_toOne hk] at h; obtain ⟨_, _, h, _⟩ := h; exact h
  | toMany fk key => rw [mem_related_toMany hk] at h; obtain ⟨_, _, h, _⟩ := h; exact h
  | m2m l s d => rw [mem_related_m2m hk] at h; obtain ⟨_, _, _, h, _⟩ := h; exact h

theorem inverseOf_some {sch : Schema} {rel inv : RelDef} (h : inverseOf sch rel = some inv) :
    inv ∈ sch ∧ inv.src = rel.dst ∧ inv.dst = rel.src ∧
    (match rel.kind, inv.kind with
     | .toOne fk key, .toMany cfk key' => fk = cfk ∧ key = key'
     | .toMany cfk key', .toOne fk key => fk = cfk ∧ key = key'
     | .m2m l s d, .m2m l' s' d' => l = l' ∧ s = d' ∧ d = s'
     | _, _ => False) := by
  unfold inverseOf at h
  have h1 := List.mem_of_find?_eq_some h
  have h2 := List.find?_some h
  simp only [Bool.and_eq_true, beq_iff_eq] at h2
  refine ⟨h1, h2.1.1, h2.1.2, ?_⟩
  have h3 := h2.2
  cases hk : rel.kind <;> cases hk' : inv.kind <;> simp [hk, hk'] at h3 ⊢ <;> simp [h3]

theorem related_symm {sch : Schema} {db : DB} {rel inv : RelDef} (hi : inverseOf sch rel = some inv) (r y : Row)
    (hr : r ∈ db.table rel.src) (hy : y ∈ db.table rel.dst) :
    y ∈ relatedRows db rel r ↔ r ∈ relatedRows db inv y := by
  obtain ⟨_, hsrc, hdst, hk⟩ := inverseOf_some hi
  cases hk1 : rel.kind with
  | toOne fk key =>
    cases hk2 : inv.kind with
    | toMany cfk key' =>
      rw [hk1, hk2] at hk; simp at hk; obtain ⟨rfl, rfl⟩ := hk
      rw [mem_related_toOne hk1, mem_related_toMany hk2, hdst]
      constructor
      · rintro ⟨k, h1, _, h3⟩; exact ⟨k, h3, hr, h1⟩
      · rintro ⟨k, h1, _, h3⟩; exact ⟨k, h3, hy, h1⟩
    | _ => rw [hk1, hk2] at hk; simp at hk
  | toMany cfk key' =>
    cases hk2 : inv.kind with
    | toOne fk key =>
      rw [hk1, hk2] at hk; simp at hk; obtain ⟨rfl, rfl⟩ := hk
      rw [mem_related_toMany hk1, mem_related_toOne hk2, hdst]
      constructor
      · rintro ⟨k, h1, _, h3⟩; exact ⟨k, h3, hr, h1⟩
      · rintro ⟨k, h1, _, h3⟩; exact ⟨k, h3, hy, h1⟩
    | _ => rw [hk1, hk2] at hk; simp at hk
  | m2m l s d =>
    cases hk2 : inv.kind with
    | m2m l' s' d' =>
      rw [hk1, hk2] at hk; simp at hk; obtain ⟨rfl, rfl, rfl⟩ := hk
      rw [mem_related_m2m hk1, mem_related_m2m hk2, hdst]
      constructor
      · rintro ⟨k, i, h1, _, h3, x, hx, hx1, hx2⟩; exact ⟨i, k, h3, hr, h1, x, hx, hx2, hx1⟩
      · rintro ⟨k, i, h1, _, h3, x, hx, hx1, hx2⟩; exact ⟨i, k, h3, hy, h1, x, hx, hx2, hx1⟩
    | _ => rw [hk1, hk2] at hk; simp at hk


/-- the table a relation path leads to -/
def tblVia (sch : Schema) : Str → List Str → Option Str
  | t, [] => some t
  | t, s :: rest =>
      match sch.rel t s with
      | some rel => tblVia sch rel.dst rest
      | none => none

theorem tblVia_append (sch : Schema) (t : Str) (p q : List Str) :
    tblVia sch t (p ++ q) = (tblVia sch t p).bind (fun t' => tblVia sch t' q) := by
  induction p generalizing t with
  | nil => simp [tblVia]
  | cons s rest ih =>
    simp only [List.cons_append, tblVia]
    cases sch.rel t s with
    | none => simp
    | some rel => simp [ih]

theorem rowsVia_append (sch : Schema) (db : DB) (t t' : Str) (c : Row) (p q : List Str) (h : tblVia sch t p = some t') :
    rowsVia sch db t c (p ++ q) = (rowsVia sch db t c p).flatMap (fun x => rowsVia sch db t' x q) := by
  induction p generalizing t c with
  | nil => simp [tblVia] at h; subst h; simp [rowsVia]
  | cons s rest ih =>
    simp only [List.cons_append, rowsVia]
    simp only [tblVia] at h
    cases hr : sch.rel t s with
    | none => simp [hr] at h
    | some rel =>
      simp only [hr] at h
      simp only [List.flatMap_assoc]
      congr 1
      funext x
      exact ih rel.dst x h

theorem rowsVia_single (sch : Schema) (db : DB) (t n : Str) (c : Row) (rel : RelDef) (h : sch.rel t n = some rel) :
    rowsVia sch db t c [n] = relatedRows db rel c := by
  simp [rowsVia, h]

theorem rowsVia_sub (sch : Schema) (db : DB) (t t' : Str) (c x : Row) (p : List Str) (h : tblVia sch t p = some t')
    (hc : c ∈ db.table t) (hx : x ∈ rowsVia sch db t c p) : x ∈ db.table t' := by
  induction p generalizing t c with
  | nil => simp [tblVia] at h; subst h; simp [rowsVia] at hx; subst hx; exact hc
  | cons s rest ih =>
    simp only [tblVia] at h
    simp only [rowsVia] at hx
    cases hr : sch.rel t s with
    | none => simp [hr] at h
    | some rel =>
      simp only [hr] at h hx
      rw [List.mem_flatMap] at hx
      obtain ⟨y, hy, hx⟩ := hx
      exact ih rel.dst y h (related_sub hy) hx

theorem reachesBack_eq (sch : Schema) (db : DB) (t : Str) (c : Row) (p : List Str) (pk : Int) :
    reachesBack sch db t c p pk = (rowsVia sch db t c p).any (fun x => idOf x == some pk) := by
  induction p generalizing t c with
  | nil => simp [reachesBack, rowsVia]
  | cons s rest ih =>
    simp only [reachesBack, rowsVia]
    cases hr : sch.rel t s with
    | none => simp
    | some rel =>
      simp only [List.any_flatMap]
      congr 1
      funext x
      exact ih rel.dst x

/-- schema hypothesis in propositional form: a relation is found under its own (source, name) -/
def SchOk (sch : Schema) : Prop := ∀ r, r ∈ sch → sch.rel r.src r.name = some r

theorem reverse_tbl (sch : Schema) (hs : SchOk sch) (root : Str) (segs back : List Str) (child : Str)
    (h : reverseRelationship sch root segs = some (back, child)) :
    tblVia sch root segs = some child ∧ tblVia sch child back = some root := by
  induction segs generalizing root back with
  | nil => simp [reverseRelationship] at h; obtain ⟨rfl, rfl⟩ := h; simp [tblVia]
  | cons s rest ih =>
    simp only [reverseRelationship] at h
    cases hr : sch.rel root s with
    | none => simp [hr] at h
    | some rel =>
      simp only [hr] at h
      cases hi : inverseOf sch rel with
      | none => simp [hi] at h
      | some inv =>
        cases hrec : reverseRelationship sch rel.dst rest with
        | none => simp [hi, hrec] at h
        | some bf =>
          obtain ⟨back', final⟩ := bf
          simp [hi, hrec] at h
          obtain ⟨rfl, rfl⟩ := h
          obtain ⟨h1, h2⟩ := ih rel.dst back' hrec
          obtain ⟨hm, hsrc, hdst, _⟩ := inverseOf_some hi
          obtain ⟨_, hrs, _⟩ := rel_some hr
          refine ⟨by simp [tblVia, hr, h1], ?_⟩
          rw [tblVia_append, h2]
          have := hs inv hm
          rw [hsrc] at this
          simp [tblVia, this, hdst, hrs]

/-- the forward path and Django's back path relate the same pairs of rows -/
theorem reverse_symm (sch : Schema) (db : DB) (hs : SchOk sch) (root : Str) (segs back : List Str) (child : Str)
    (h : reverseRelationship sch root segs = some (back, child)) (r c : Row)
    (hr : r ∈ db.table root) (hc : c ∈ db.table child) :
    c ∈ rowsVia sch db root r segs ↔ r ∈ rowsVia sch db child c back := by
  induction segs generalizing root back r with
  | nil =>
    simp [reverseRelationship] at h; obtain ⟨rfl, rfl⟩ := h
    simp [rowsVia, eq_comm]
  | cons s rest ih =>
    simp only [reverseRelationship] at h
    cases hrel : sch.rel root s with
    | none => simp [hrel] at h
    | some rel =>
      simp only [hrel] at h
      cases hi : inverseOf sch rel with
      | none => simp [hi] at h
      | some inv =>
        cases hrec : reverseRelationship sch rel.dst rest with
        | none => simp [hi, hrec] at h
        | some bf =>
          obtain ⟨back', final⟩ := bf
          simp [hi, hrec] at h
          obtain ⟨rfl, rfl⟩ := h
          obtain ⟨h1, h2⟩ := reverse_tbl sch hs rel.dst rest back' final hrec
          obtain ⟨hm, hsrc, hdst, _⟩ := inverseOf_some hi
          obtain ⟨_, hrs, _⟩ := rel_some hrel
          have hinv : sch.rel rel.dst inv.name = some inv := by
            have := hs inv hm
            rwa [hsrc] at this
          have e1 : rowsVia sch db root r (s :: rest) =
              (relatedRows db rel r).flatMap (fun r' => rowsVia sch db rel.dst r' rest) := by
            simp only [rowsVia, hrel]
          rw [rowsVia_append sch db final rel.dst c back' [inv.name] h2, e1]
          simp only [rowsVia_single sch db rel.dst inv.name _ inv hinv, List.mem_flatMap]
          constructor
          · rintro ⟨y, hy, hcy⟩
            have hyt := related_sub hy
            refine ⟨y, (ih rel.dst back' hrec y hyt).1 hcy, ?_⟩
            exact (related_symm hi r y (hrs ▸ hr) hyt).1 hy
          · rintro ⟨y, hy, hry⟩
            have hyt := rowsVia_sub sch db final rel.dst c y back' h2 hc hy
            exact ⟨y, (related_symm hi r y (hrs ▸ hr) hyt).2 hry, (ih rel.dst back' hrec y hyt).2 hy⟩


/-- database hypothesis in propositional form: every row has an id, ids are unique within a table (Django identifies the
    outer row of a correlated sub-query by `OuterRef("pk")`, whatever key the relations reference) -/
structure IdsOk (db : DB) : Prop where
  hasId : ∀ t r, r ∈ db.table t → ∃ k, idOf r = some k
  uniq : ∀ t k, ((db.table t).filter (fun x => idOf x == some k)).length ≤ 1

theorem eq_of_length_le_one {α} {l : List α} (h : l.length ≤ 1) {a b : α} (ha : a ∈ l) (hb : b ∈ l) : a = b := by
  match l, h with
  | [], _ => simp at ha
  | [x], _ => simp at ha hb; rw [ha, hb]
  | _ :: _ :: _, h => simp at h

theorem ids_uniq {db : DB} (h : IdsOk db) {t : Str} {r r' : Row} (hr : r ∈ db.table t) (hr' : r' ∈ db.table t)
    (he : idOf r = idOf r') : r = r' := by
  obtain ⟨k, hk⟩ := h.hasId t r hr
  apply eq_of_length_le_one (h.uniq t k)
  · simp [hr, hk]
  · simp [hr', ← he, hk]

theorem reverse_reaches' (sch : Schema) (db : DB) (hs : SchOk sch) (hd : IdsOk db)
    (root : Str) (segs back : List Str) (child : Str) (h : reverseRelationship sch root segs = some (back, child))
    (r c : Row) (pk : Int) (hr : r ∈ db.table root) (hc : c ∈ db.table child) (hpk : idOf r = some pk) :
    reachesBack sch db child c back pk = (rowsVia sch db root r segs).contains c := by
  rw [reachesBack_eq, Bool.eq_iff_iff, List.contains_iff_mem, reverse_symm sch db hs root segs back child h r c hr hc,
    List.any_eq_true]
  obtain ⟨_, h2⟩ := reverse_tbl sch hs root segs back child h
  constructor
  · rintro ⟨x, hx, hid⟩
    have hxt := rowsVia_sub sch db child root c x back h2 hc hx
    have : x = r := ids_uniq hd hxt hr (by rw [hpk]; simpa using hid)
    rwa [← this]
  · intro hx
    exact ⟨r, hx, by simp [hpk]⟩

/-- the table a TO-ONE path leads to -/
def toOneVia (sch : Schema) : Str → List Str → Option Str
  | t, [] => some t
  | t, s :: rest =>
      match sch.rel t s with
      | some rel =>
          (match rel.kind with
           | .toOne _ _ => toOneVia sch rel.dst rest
           | _ => none)
      | none => none

theorem navTo_fst (sch : Schema) (db : DB) (t : Str) (ro : Option Row) (p : List Str) :
    (navTo sch db t ro p).map Prod.fst = toOneVia sch t p := by
  induction p generalizing t ro with
  | nil => simp [navTo, toOneVia]
  | cons s rest ih =>
    simp only [navTo, toOneVia]
    cases sch.rel t s with
    | none => simp
    | some rel =>
      simp only
      cases rel.kind with
      | toOne fk key => simp only; exact ih _ _
      | toMany _ _ => simp
      | m2m _ _ _ => simp

theorem toOneVia_tblVia (sch : Schema) (t t' : Str) (p : List Str) (h : toOneVia sch t p = some t') :
    tblVia sch t p = some t' := by
  induction p generalizing t with
  | nil => simpa [toOneVia, tblVia] using h
  | cons s rest ih =>
    simp only [toOneVia] at h
    simp only [tblVia]
    cases hr : sch.rel t s with
    | none => simp [hr] at h
    | some rel =>
      simp only [hr] at h
      cases hk : rel.kind with
      | toOne fk key => simp only [hk] at h; exact ih _ h
      | toMany _ _ => simp [hk] at h
      | m2m _ _ _ => simp [hk] at h

theorem navTo_none (sch : Schema) (db : DB) (t t' : Str) (p : List Str) (row : Option Row)
    (h : navTo sch db t none p = some (t', row)) : row = none := by
  induction p generalizing t with
  | nil => simp [navTo] at h; exact h.2.symm
  | cons s rest ih =>
    simp only [navTo] at h
    cases hr : sch.rel t s with
    | none => simp [hr] at h
    | some rel =>
      simp only [hr] at h
      cases hk : rel.kind with
      | toOne fk key => simp only [hk] at h; exact ih _ h
      | toMany _ _ => simp [hk] at h
      | m2m _ _ _ => simp [hk] at h

/-- key hypothesis in propositional form: the key a to-one relation references (the primary key "id" or a natural key) is
    unique among the rows of the target table that have it (rows whose key is NULL are related to nothing) -/
def KeysOk (sch : Schema) (db : DB) : Prop :=
  ∀ rel fk key, rel ∈ sch → rel.kind = .toOne fk key → ∀ k,
    ((db.table rel.dst).filter (fun x => x.int key == some k)).length ≤ 1

theorem related_toOne_le {sch : Schema} {db : DB} (hu : KeysOk sch db) {rel : RelDef} (hm : rel ∈ sch) {fk key : Str}
    (hk : rel.kind = .toOne fk key) (r : Row) :
    (relatedRows db rel r).length ≤ 1 := by
  simp only [relatedRows, hk]
  split
  · exact hu rel fk key hm hk _
  · simp

theorem eq_head?_toList {α} {l : List α} (h : l.length ≤ 1) : l = l.head?.toList := by
  match l, h with
  | [], _ => rfl
  | [x], _ => rfl
  | _ :: _ :: _, h => simp at h

/-- along a to-one path the rows reached are the row `navTo` finds (or none) — THE place where uniqueness of the referenced
    keys is used: `navTo` takes the first related row, `rowsVia` all of them -/
theorem navTo_rowsVia (sch : Schema) (db : DB) (hu : KeysOk sch db) (t t' : Str) (r : Row) (p : List Str) (row : Option Row)
    (h : navTo sch db t (some r) p = some (t', row)) : rowsVia sch db t r p = row.toList := by
  induction p generalizing t r with
  | nil => simp [navTo] at h; simp [rowsVia, ← h.2]
  | cons s rest ih =>
    simp only [navTo] at h
    simp only [rowsVia]
    cases hr : sch.rel t s with
    | none => simp [hr] at h
    | some rel =>
      simp only [hr] at h ⊢
      cases hk : rel.kind with
      | toOne fk key =>
        simp only [hk] at h
        rw [eq_head?_toList (related_toOne_le hu (rel_some hr).1 hk r)]
        cases hh : (relatedRows db rel r).head? with
        | none =>
          rw [hh] at h
          simp [navTo_none sch db _ _ _ _ h]
        | some y =>
          rw [hh] at h
          simp [ih _ _ h]
      | toMany _ _ => simp [hk] at h
      | m2m _ _ _ => simp [hk] at h

theorem collRows_rows (sch : Schema) (db : DB) (hu : KeysOk sch db) (t tm : Str) (r : Row) (path : List Str) (coll : Str)
    (row : Option Row) (rel : RelDef) (hn : navTo sch db t (some r) path = some (tm, row)) (hr : sch.rel tm coll = some rel)
    (h2 : tblVia sch t path = some tm) :
    row.elim [] (relatedRows db rel) = rowsVia sch db t r (path ++ [coll]) := by
  rw [rowsVia_append sch db t tm r path [coll] h2, navTo_rowsVia sch db hu t tm r path row hn]
  cases row <;> simp [rowsVia_single sch db tm coll _ rel hr]

/-- what `collRows` computes, in terms of the generic forward path -/
theorem collRows_some (sch : Schema) (db : DB) (hu : KeysOk sch db) (t t' : Str) (r : Row) (path : List Str) (coll : Str)
    (rows : List Row) (h : collRows sch db t r path coll = some (t', rows)) :
    ∃ tm rel, toOneVia sch t path = some tm ∧ sch.rel tm coll = some rel ∧ t' = rel.dst ∧
      rows = rowsVia sch db t r (path ++ [coll]) ∧ tblVia sch t (path ++ [coll]) = some t' := by
  unfold collRows at h
  cases hn : navTo sch db t (some r) path with
  | none => simp [hn] at h
  | some p =>
    obtain ⟨tm, row⟩ := p
    simp only [hn] at h
    have h1 : toOneVia sch t path = some tm := by rw [← navTo_fst sch db t (some r) path, hn]; rfl
    cases hr : sch.rel tm coll with
    | none => simp [hr] at h
    | some rel =>
      simp only [hr] at h
      have h2 := toOneVia_tblVia sch t tm path h1
      have hrows := collRows_rows sch db hu t tm r path coll row rel hn hr h2
      have h3 : tblVia sch t (path ++ [coll]) = some rel.dst := by
        rw [tblVia_append, h2]; simp [tblVia, hr]
      have key : some (rel.dst, row.elim [] (relatedRows db rel)) = some (t', rows) →
          ∃ tm rel, toOneVia sch t path = some tm ∧ sch.rel tm coll = some rel ∧ t' = rel.dst ∧
            rows = rowsVia sch db t r (path ++ [coll]) ∧ tblVia sch t (path ++ [coll]) = some t' := by
        intro he
        simp only [Option.some.injEq, Prod.mk.injEq] at he
        exact ⟨tm, rel, h1, hr, he.1.symm, by rw [← he.2, hrows], he.1 ▸ h3⟩
      cases hk : rel.kind with
      | toOne fk key => simp [hk] at h
      | toMany _ _ =>
        simp only [hk] at h
        apply key
        cases row <;> exact h
      | m2m _ _ _ =>
        simp only [hk] at h
        apply key
        cases row <;> exact h

theorem any_contains_and {α} [BEq α] [LawfulBEq α] (tbl rows : List α) (P : α → Bool) (hsub : ∀ x, x ∈ rows → x ∈ tbl) :
    tbl.any (fun c => rows.contains c && P c) = rows.any P := by
  rw [Bool.eq_iff_iff]
  simp only [List.any_eq_true, Bool.and_eq_true, List.contains_iff_mem]
  constructor
  · rintro ⟨x, _, hx, hp⟩; exact ⟨x, hx, hp⟩
  · rintro ⟨x, hx, hp⟩; exact ⟨x, hsub x hx, hx, hp⟩


/-- the expressions both visitors (and the specification) treat as scalar leaves -/
def isLeafShape : Expr → Bool
  | .boolop _ _ _ => false
  | .unary .not_ _ => false
  | .coll _ _ _ => false
  | _ => true

theorem elabRAux_leaf (kindOf : Str → Option ColK) (var : Option Str) (e : Expr) (h : isLeafShape e = true) :
    elabRAux kindOf [] var e = (relLeaf kindOf var e).map .scalar := by
  cases e with
  | boolop => simp [isLeafShape] at h
  | coll => simp [isLeafShape] at h
  | unary o x =>
    cases o with
    | not_ => simp [isLeafShape] at h
    | neg => simp [elabRAux]
  | _ => simp [elabRAux]

theorem djPlan_leaf (sch : Schema) (kindOf : Str → Option ColK) (fuel : Nat) (root : Str) (e : Expr) (h : isLeafShape e = true) :
    djPlan sch kindOf (fuel + 1) root e =
      match relLeaf kindOf none e with
      | some b => pure (.leaf b)
      | none => .error .unsupported := by
  cases e with
  | boolop => simp [isLeafShape] at h
  | coll => simp [isLeafShape] at h
  | unary o x =>
    cases o with
    | not_ => simp [isLeafShape] at h
    | neg => simp [djPlan]; rfl
  | _ => simp [djPlan]; rfl

theorem saPlanAux_leaf (sch : Schema) (kindOf : Str → Option ColK) (fuel : Nat) (root : Str) (e : Expr) (h : isLeafShape e = true) :
    saPlanAux sch kindOf (fuel + 1) root e =
      match relLeaf kindOf none e with
      | some b => pure (leafJoins b, .leaf b)
      | none => .error .unsupported := by
  cases e with
  | boolop => simp [isLeafShape] at h
  | coll => simp [isLeafShape] at h
  | unary o x =>
    cases o with
    | not_ => simp [isLeafShape] at h
    | neg => simp [saPlanAux]; rfl
  | _ => simp [saPlanAux]; rfl

theorem relLeaf_coll (kindOf : Str → Option ColK) (var : Option Str) (ow : Expr) (op : CollOp) (l : OptLam) :
    relLeaf kindOf var (.coll ow op l) = none := by
  simp [relLeaf]

theorem elabRAux_coll_all_none (kindOf : Str → Option ColK) (var : Option Str) (ow : Expr) :
    elabRAux kindOf [] var (.coll ow .all .none) = none := by
  simp [elabRAux, relLeaf]

theorem pathSegs_ne_nil (e : Expr) (segs : List Str) (h : pathSegs e = some segs) : segs ≠ [] := by
  cases e with
  | ident i =>
    obtain ⟨c, ns⟩ := i
    cases ns <;> simp [pathSegs] at h
    subst h; simp
  | attr o n =>
    simp only [pathSegs] at h
    cases ho : pathSegs o <;> simp [ho] at h
    subst h; simp
  | _ => simp [pathSegs] at h

theorem ownerOf_none (ow : Expr) (path : List Str) (coll : Str) (h : ownerOf none ow = some (path, coll)) :
    pathSegs ow = some (path ++ [coll]) := by
  unfold ownerOf at h
  cases hs : pathSegs ow with
  | none => simp [hs] at h
  | some segs =>
    simp only [hs] at h
    cases hr : segs.reverse with
    | nil => simp [hr] at h
    | cons c rp =>
      simp only [hr] at h
      simp only [Option.some.injEq, Prod.mk.injEq] at h
      have : segs = (c :: rp).reverse := by rw [← hr, List.reverse_reverse]
      rw [this, ← h.1, ← h.2]; simp


/-- the table the collection `path/coll` of `t` ranges over: `path` is a to-one path of the schema and `coll` a to-many /
    many-to-many relation of the table it reaches -/
def collTarget (sch : Schema) (t : Str) (path : List Str) (coll : Str) : Option Str :=
  match toOneVia sch t path with
  | some tm =>
      (match sch.rel tm coll with
       | some rel =>
           (match rel.kind with
            | .toOne _ _ => none
            | _ => some rel.dst)
       | none => none)
  | none => none

/-- STATIC well-formedness of a relational filter over a schema: every lambda owner is a collection of the schema -/
def relTyped (sch : Schema) : Str → RCond → Bool
  | _, .scalar _ => true
  | t, .and x y => relTyped sch t x && relTyped sch t y
  | t, .or x y => relTyped sch t x && relTyped sch t y
  | t, .not x => relTyped sch t x
  | t, .nonEmpty path coll => (collTarget sch t path coll).isSome
  | t, .any path coll body =>
      (match collTarget sch t path coll with
       | some t' => relTyped sch t' body
       | none => false)
  | t, .all path coll body =>
      (match collTarget sch t path coll with
       | some t' => relTyped sch t' body
       | none => false)

theorem collRows_fst (sch : Schema) (db : DB) (t : Str) (r : Row) (path : List Str) (coll : Str) :
    (collRows sch db t r path coll).map Prod.fst = collTarget sch t path coll := by
  unfold collRows collTarget
  rw [← navTo_fst sch db t (some r) path]
  cases navTo sch db t (some r) path with
  | none => rfl
  | some p =>
    obtain ⟨tm, row⟩ := p
    simp only [Option.map_some]
    cases sch.rel tm coll with
    | none => rfl
    | some rel =>
      simp only
      cases rel.kind <;> rfl

/-- a statically well-formed filter has a value on every row of every database -/
theorem relTyped_isSome (sch : Schema) (db : DB) (f : RCond) : ∀ (t : Str) (r : Row),
    relTyped sch t f = true → (evalR sch db t r f).isSome = true := by
  induction f with
  | scalar b => intro t r _; simp [evalR]
  | and x y ihx ihy =>
    intro t r h
    simp only [relTyped, Bool.and_eq_true] at h
    have h1 := ihx t r h.1; have h2 := ihy t r h.2
    simp only [evalR]
    cases hx : evalR sch db t r x <;> cases hy : evalR sch db t r y <;> simp_all
  | or x y ihx ihy =>
    intro t r h
    simp only [relTyped, Bool.and_eq_true] at h
    have h1 := ihx t r h.1; have h2 := ihy t r h.2
    simp only [evalR]
    cases hx : evalR sch db t r x <;> cases hy : evalR sch db t r y <;> simp_all
  | not x ih =>
    intro t r h
    simp only [relTyped] at h
    have h1 := ih t r h
    simp only [evalR]
    cases hx : evalR sch db t r x <;> simp_all
  | nonEmpty path coll =>
    intro t r h
    simp only [relTyped, ← collRows_fst sch db t r path coll] at h
    simp only [evalR]
    cases hcr : collRows sch db t r path coll <;> simp_all
  | any path coll body ih =>
    intro t r h
    simp only [relTyped, ← collRows_fst sch db t r path coll] at h
    simp only [evalR]
    cases hcr : collRows sch db t r path coll with
    | none => simp [hcr] at h
    | some tr =>
      obtain ⟨t', rows⟩ := tr
      simp only [hcr, Option.map_some] at h
      simp
      intro c _ hn
      have := ih t' c h
      simp [hn] at this
  | all path coll body ih =>
    intro t r h
    simp only [relTyped, ← collRows_fst sch db t r path coll] at h
    simp only [evalR]
    cases hcr : collRows sch db t r path coll with
    | none => simp [hcr] at h
    | some tr =>
      obtain ⟨t', rows⟩ := tr
      simp only [hcr, Option.map_some] at h
      simp
      intro c _ hn
      have := ih t' c h
      simp [hn] at this

end OQ.RelSound
