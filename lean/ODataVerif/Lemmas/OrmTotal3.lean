/-
  Lemmas/OrmTotal3.lean — the ORM visitor models do not leak on printable, well-typed trees whose duration / GUID / integer
  literals have a Python value: Props/C12Orm.lean's inductions, redone for an abstract literal predicate `P` / `Ps` that
  unfolds like `pyLitOk` (`LitInv`) but asks a value only of the kinds whose missing value `litParam` lets escape (`litOkW`).
-/
import ODataVerif.Props.C12Orm
namespace OQ.OrmTotal3
open OQ.Spec OQ.OrmTotal OQ.C12Orm

/-- a duration / GUID / integer literal has a Python value; nothing is asked of the other kinds -/
def litOkW (k : LitKind) (v : Str) : Bool :=
  if k == .duration || k == .guid || k == .int then (match pyVal k v with | .foreign _ => false | _ => true) else true

theorem litParam_nlW (k : LitKind) (v : Str) (h : litOkW k v = true) : nl (litParam k v) = true := by
  unfold litParam
  cases k <;> dsimp only <;> first
    | rfl
    | exact nl_unmodelled
    | (split <;> rfl)
    | (simp only [litOkW, beq_self_eq_true, Bool.or_true, Bool.true_or, if_true] at h
       split at h
       · cases h
       · split
         · rename_i h1 _ _ h2; exact absurd h2 (h1 _)
         · rfl)

/-- `P` / `Ps` unfold over the tree like `pyLitOk` / `pyLitOks`, with `litOkW` at the literals -/
structure LitInv (P : Expr → Bool) (Ps : Exprs → Bool) : Prop where
  lit : ∀ k v, P (.lit k v) = litOkW k v
  list : ∀ xs, P (.list xs) = Ps xs
  binop : ∀ o l r, P (.binop o l r) = (P l && P r)
  compare : ∀ o l r, P (.compare o l r) = (P l && P r)
  boolop : ∀ o l r, P (.boolop o l r) = (P l && P r)
  unary : ∀ o e, P (.unary o e) = P e
  call : ∀ f args, P (.call f args) = Ps args
  cons : ∀ h t, Ps (.cons h t) = (P h && Ps t)

section
variable {P : Expr → Bool} {Ps : Exprs → Bool} (I : LitInv P Ps)
include I

mutual
theorem djVisit_nlW (Γ : Expr → Option OTy) : (e : Expr) → (τ : OTy) → printable e = true → sType Γ e = some τ →
    P e = true → nl (djVisit e) = true
  | .ident _, _, _, _, _ => by rw [djVisit]; rfl
  | .attr o n, _, hp, _, _ => by
      rw [printable] at hp
      obtain ⟨p, h⟩ := djVisit_path o n hp
      rw [h]; rfl
  | .lit k v, _, _, _, hl => by
      rw [I.lit] at hl
      cases k
      case null => rw [djVisit]; rfl
      all_goals
        rw [djVisit]
        · exact nl_bind _ _ (litParam_nlW _ _ hl) (fun _ => rfl)
        all_goals (intros; contradiction)
  | .list xs, _, hp, ht, hl => by
      rw [djVisit]
      rw [printable] at hp
      simp only [Bool.and_eq_true] at hp
      rw [I.list] at hl
      obtain ⟨_, tys, ht'⟩ := sType_list ht
      exact nl_bind _ _ (djVisitList_nl _ (djVisitList_okW Γ xs tys hp.2 ht' hl)) (fun _ => rfl)
  | .binop op l r, _, hp, ht, hl => by
      rw [djVisit]
      rw [printable] at hp
      rw [I.binop] at hl
      simp only [Bool.and_eq_true] at hp hl
      obtain ⟨⟨a, ha⟩, ⟨b, hb⟩⟩ := sType_binop ht
      refine nl_bind _ _ (djVisit_nlW Γ l a hp.1 ha hl.1) (fun _ => nl_bind _ _ (djVisit_nlW Γ r b hp.2 hb hl.2) (fun _ => ?_))
      dsimp only
      split
      · exact nl_unmodelled
      · rfl
  | .compare op l r, _, hp, ht, hl => by
      rw [djVisit]
      rw [I.compare] at hl
      simp only [Bool.and_eq_true] at hl
      obtain ⟨hpl, hpr⟩ := printable_compare hp
      obtain ⟨⟨a, ha, _⟩, ⟨b, hb⟩⟩ := sType_compare ht
      have h1 := djVisit_nlW Γ l a hpl ha hl.1
      have h2 := djVisit_nlW Γ r b hpr hb hl.2
      split
      · refine nl_bind _ _ h2 (fun _ => ?_)
        dsimp only; split <;> rfl
      · split
        · refine nl_bind _ _ h1 (fun _ => ?_)
          dsimp only; repeat' split
          all_goals rfl
        · exact nl_bind _ _ h1 (fun _ => nl_bind _ _ h2 (fun _ => rfl))
  | .boolop op l r, _, hp, ht, hl => by
      rw [djVisit]
      rw [printable] at hp
      rw [I.boolop] at hl
      simp only [Bool.and_eq_true] at hp hl
      obtain ⟨⟨a, ha⟩, ⟨b, hb⟩⟩ := sType_boolop ht
      refine nl_bind _ _ (djVisit_nlW Γ l a hp.1 ha hl.1) (fun _ => nl_bind _ _ (djVisit_nlW Γ r b hp.2 hb hl.2) (fun _ => ?_))
      dsimp only
      repeat' split
      all_goals first | rfl | exact nl_unmodelled
  | .unary op e, _, hp, ht, hl => by
      rw [djVisit]
      rw [printable] at hp
      rw [I.unary] at hl
      obtain ⟨a, ha⟩ := sType_unary ht
      refine nl_bind _ _ (djVisit_nlW Γ e a hp ha hl) (fun _ => ?_)
      dsimp only
      repeat' split
      all_goals first | rfl | exact nl_unmodelled
  | .named _ _, _, _, ht, _ => by rw [sType] at ht; cases ht
  | .coll _ _ _, _, _, ht, _ => by rw [sType] at ht; cases ht
  | .call f args, _, hp, ht, hl => by
      rw [djVisit]
      rw [I.call] at hl
      obtain ⟨tys, hts, hsig⟩ := sType_call ht
      have hpa := printable_call hp hts
      split
      · rfl
      · split
        · exact nl_unmodelled
        · split
          · exact nl_unmodelled       -- a named argument: outside the model (and not well-typed)
          · split
            · rfl                     -- the arguments do not bind to the handler's signature: ArgumentTypeException
            · refine djFunc_nl _ _ (djVisitList_okW Γ args tys hpa hts hl) ?_
              rw [← sTypes_length args tys hts]
              exact arityOk_of_sig f tys _ hsig
theorem djVisitList_okW (Γ : Expr → Option OTy) : (xs : Exprs) → (tys : List OTy) → printableArgs xs = true →
    sTypes Γ xs = some tys → Ps xs = true → DjArgsOk xs
  | .nil, _, _, _, _ => trivial
  | .cons h t, _, hp, ht, hl => by
      rw [printableArgs] at hp
      rw [I.cons] at hl
      simp only [Bool.and_eq_true] at hp hl
      obtain ⟨a, as, h1, h2, _⟩ := sTypes_cons ht
      exact ⟨djVisit_nlW Γ h a hp.1 h1 hl.1, djVisitList_okW Γ t as hp.2 h2 hl.2⟩
end


mutual
theorem saVisit_nlW (fields : List Str) (core : Bool) (Γ : Expr → Option OTy) : (e : Expr) → (τ : OTy) →
    printable e = true → sType Γ e = some τ → P e = true → nl (saVisit fields core e) = true
  | .ident _, _, _, _, _ => by rw [saVisit]; split <;> rfl
  | .attr o n, _, _, _, _ => by
      rw [saVisit]; split
      · rfl
      · exact nl_unmodelled
  | .lit k v, _, _, _, hl => by
      rw [I.lit] at hl
      cases k
      case null => rw [saVisit]; rfl
      case bool => rw [saVisit]; rfl
      case guid => rw [saVisit]; rfl
      all_goals
        rw [saVisit]
        · exact nl_bind _ _ (litParam_nlW _ _ hl) (fun _ => rfl)
        all_goals (intro hh; cases hh)
  | .list xs, _, hp, ht, hl => by
      rw [saVisit]
      rw [printable] at hp
      simp only [Bool.and_eq_true] at hp
      rw [I.list] at hl
      obtain ⟨_, tys, ht'⟩ := sType_list ht
      exact nl_bind _ _ (saVisitList_nl fields core _ (saVisitList_okW fields core Γ xs tys hp.2 ht' hl)) (fun _ => rfl)
  | .binop op l r, _, hp, ht, hl => by
      rw [saVisit]
      rw [printable] at hp
      rw [I.binop] at hl
      simp only [Bool.and_eq_true] at hp hl
      obtain ⟨⟨a, ha⟩, ⟨b, hb⟩⟩ := sType_binop ht
      refine nl_bind _ _ (saVisit_nlW fields core Γ l a hp.1 ha hl.1) (fun _ =>
        nl_bind _ _ (saVisit_nlW fields core Γ r b hp.2 hb hl.2) (fun _ => ?_))
      dsimp only
      split
      · exact nl_unmodelled
      · rfl
  | .compare op l r, _, hp, ht, hl => by
      rw [saVisit]
      rw [I.compare] at hl
      simp only [Bool.and_eq_true] at hl
      obtain ⟨hpl, hpr⟩ := printable_compare hp
      obtain ⟨⟨a, ha, hin⟩, ⟨b, hb⟩⟩ := sType_compare ht
      have h1 := saVisit_nlW fields core Γ l a hpl ha hl.1
      have h2 := saVisit_nlW fields core Γ r b hpr hb hl.2
      refine nl_bind' _ _ h1 (fun ⟨ta, ka⟩ hv1 => nl_bind _ _ h2 (fun ⟨tb, kb⟩ => ?_))
      dsimp only
      by_cases hop : op = .in_
      · subst hop
        have hnl := saVisit_notList fields core l (not_list_of_sType ha (hin rfl))
        rw [hv1] at hnl
        have hsw : (isNullLit l && (CmpOp.in_ == CmpOp.eq || CmpOp.in_ == CmpOp.ne)) = false := by
          rw [show (CmpOp.in_ == CmpOp.eq) = false from rfl, show (CmpOp.in_ == CmpOp.ne) = false from rfl]; simp
        simp only [hsw, Bool.false_eq_true, if_false, beq_self_eq_true, if_true]
        split
        · rename_i hk
          have : ka = .list := by simpa using hk
          subst this
          cases hnl
        · rfl
      · have hop' : (op == CmpOp.in_) = false := by simpa using hop
        simp only [hop', Bool.false_eq_true, if_false]
        split <;> exact nl_cmp_tail _ _ _ _
  | .boolop op l r, _, hp, ht, hl => by
      rw [saVisit]
      rw [printable] at hp
      rw [I.boolop] at hl
      simp only [Bool.and_eq_true] at hp hl
      obtain ⟨⟨a, ha⟩, ⟨b, hb⟩⟩ := sType_boolop ht
      exact nl_bind _ _ (saVisit_nlW fields core Γ l a hp.1 ha hl.1) (fun _ =>
        nl_bind _ _ (saVisit_nlW fields core Γ r b hp.2 hb hl.2) (fun _ => rfl))
  | .unary op e, _, hp, ht, hl => by
      rw [saVisit]
      rw [printable] at hp
      rw [I.unary] at hl
      obtain ⟨a, ha⟩ := sType_unary ht
      refine nl_bind _ _ (saVisit_nlW fields core Γ e a hp ha hl) (fun _ => ?_)
      dsimp only
      split <;> rfl
  | .named _ _, _, _, ht, _ => by rw [sType] at ht; cases ht
  | .coll _ _ _, _, _, ht, _ => by rw [sType] at ht; cases ht
  | .call f args, _, hp, ht, hl => by
      rw [saVisit]
      rw [I.call] at hl
      obtain ⟨tys, hts, hsig⟩ := sType_call ht
      have hpa := printable_call hp hts
      split
      · rfl
      · refine saFunc_nl fields core _ _ (saVisitList_okW fields core Γ args tys hpa hts hl) ?_
        rw [← sTypes_length args tys hts]
        exact arityOk_of_sig f tys _ hsig
theorem saVisitList_okW (fields : List Str) (core : Bool) (Γ : Expr → Option OTy) : (xs : Exprs) → (tys : List OTy) →
    printableArgs xs = true → sTypes Γ xs = some tys → Ps xs = true → SaArgsOk fields core xs
  | .nil, _, _, _, _ => trivial
  | .cons h t, _, hp, ht, hl => by
      rw [printableArgs] at hp
      rw [I.cons] at hl
      simp only [Bool.and_eq_true] at hp hl
      obtain ⟨a, as, h1, h2, _⟩ := sTypes_cons ht
      exact ⟨saVisit_nlW fields core Γ h a hp.1 h1 hl.1, saVisitList_okW fields core Γ t as hp.2 h2 hl.2⟩
end


theorem dj_never_leaks_W (Γ : Expr → Option OTy) (e : Expr) (hp : printable e = true) (h : wellTypedFilter Γ e = true)
    (hl : P e = true) : leaks (djBuild e) = false := by
  rw [leaks_iff_nl]
  unfold wellTypedFilter at h
  have hv := djVisit_nlW I Γ e _ hp (by simpa using h) hl
  unfold djBuild
  cases hd : djVisit e with
  | ok p =>
    obtain ⟨t, k⟩ := p
    dsimp only
    repeat' split
    all_goals first | rfl | exact nl_unmodelled
  | lib x => rfl
  | notImplemented => rfl
  | foreign c => rw [hd] at hv; exact hv

theorem sa_never_leaks_W (fields : List Str) (core : Bool) (Γ : Expr → Option OTy) (e : Expr)
    (hp : printable e = true) (h : wellTypedFilter Γ e = true) (hl : P e = true) :
    leaks (saBuild fields core e) = false := by
  rw [leaks_iff_nl]
  unfold wellTypedFilter at h
  have hv := saVisit_nlW I fields core Γ e _ hp (by simpa using h) hl
  unfold saBuild
  exact nl_bind _ _ hv (fun _ => rfl)

end

end OQ.OrmTotal3
