/- Lemmas/RespellPieces.lean — a re-spelling (`Spec.Respell`) of a token list satisfying the adjacency condition is the
   text of a chain of pieces (for Props/C19Text.lean). -/
import ODataVerif.Lemmas.RespellChain
namespace OQ.Respelling
open Spec LexRender CaseMap
set_option linter.unusedSimpArgs false
set_option linter.unusedVariables false
set_option linter.unnecessarySimpa false

/-- `L` is `ts` up to `normTok`, with WS tokens inserted after some unary minus tokens not already followed by one -/
inductive InsWs : List Tok → List Tok → Prop
  | nil : InsWs [] []
  | cons {t t' : Tok} {ts L : List Tok} : normTok t' = normTok t → InsWs ts L → InsWs (t :: ts) (t' :: L)
  | ins {ts L : List Tok} : (∀ r, ts ≠ .ws :: r) → InsWs ts L → InsWs (.uminus :: ts) (.uminus :: .ws :: L)

/-- two tokens equal up to `normTok` -/
theorem normTok_cases {t' t : Tok} (h : normTok t' = normTok t) :
    t' = t ∨ (∃ v v', t = .lit .bool v ∧ t' = .lit .bool v' ∧ v'.map asciiLower = v.map asciiLower)
      ∨ (∃ v v', t = .lit .float v ∧ t' = .lit .float v' ∧ v'.map asciiLower = v.map asciiLower) := by
  cases t' with
  | lit k' v' =>
    cases t with
    | lit k v =>
      cases k' <;> cases k <;> simp [normTok] at h ⊢ <;> first | exact h | (obtain ⟨rfl, rfl⟩ := h; trivial) | skip
      all_goals first | exact Or.inr h | exact h
    | _ => cases k' <;> simp [normTok] at h
  | _ =>
    cases t with
    | lit k v => cases k <;> simp [normTok] at h
    | _ => left; simpa [normTok] using h


theorem lower_head_eq {c c' x : Char} (hx : x ∈ ['0', '1', '2', '3', '+', '-', '.', '\'', ':'])
    (h : asciiLower c' = asciiLower c) : c' = x ↔ c = x := by
  rw [← caseMap_lower.eqc x hx c', ← caseMap_lower.eqc x hx c, h]

theorem unsigned_norm {t' t : Tok} (h : normTok t' = normTok t) : isUnsignedNumber t' = isUnsignedNumber t := by
  rcases normTok_cases h with rfl | ⟨v, v', rfl, rfl, hv⟩ | ⟨v, v', rfl, rfl, hv⟩
  · rfl
  · rfl
  · cases v with
    | nil => cases v' with
      | nil => rfl
      | cons c' w' => simp at hv
    | cons c w =>
      cases v' with
      | nil => simp at hv
      | cons c' w' =>
        simp only [List.map_cons, List.cons.injEq] at hv
        have h1 := lower_head_eq (x := '-') (by decide) hv.1
        have h2 := lower_head_eq (x := '+') (by decide) hv.1
        simp only [isUnsignedNumber]
        rw [Bool.eq_iff_iff]; simp [h1, h2]

/-- the classes of tokens the adjacency condition looks at do not change under `normTok` -/
theorem class_norm {t' t : Tok} (h : normTok t' = normTok t) :
    closeT t' = closeT t ∧ identFollowT t' = identFollowT t ∧ startT t' = startT t ∧ (t' = Tok.ws ↔ t = Tok.ws)
      ∧ (t' = Tok.lp ↔ t = Tok.lp) ∧ (t' = Tok.rp ↔ t = Tok.rp) ∧ (t' = Tok.comma ↔ t = Tok.comma)
      ∧ (t' = Tok.colon ↔ t = Tok.colon) ∧ isLI t' = isLI t := by
  rcases normTok_cases h with rfl | ⟨v, v', rfl, rfl, hv⟩ | ⟨v, v', rfl, rfl, hv⟩ <;> simp [closeT, identFollowT, startT, isLI]

def optRel : Option Tok → Option Tok → Prop
  | none, none => True
  | some u', some u => normTok u' = normTok u
  | _, _ => False

theorem adj_norm {b : Bool} {t' t : Tok} {n' n : Option Tok} (ht : normTok t' = normTok t) (hn : optRel n' n) :
    adj b t' n' = adj b t n := by
  cases n' with
  | none =>
    cases n with
    | some u => simp [optRel] at hn
    | none =>
      rcases normTok_cases ht with rfl | ⟨v, v', rfl, rfl, hv⟩ | ⟨v, v', rfl, rfl, hv⟩ <;> rfl
  | some u' =>
    cases n with
    | none => simp [optRel] at hn
    | some u =>
      have hn' : normTok u' = normTok u := hn
      obtain ⟨h1, h2, h3, h4, h5, h6, h7, h8, h9⟩ := class_norm hn'
      have hu := unsigned_norm hn'
      have b4 : (u' == Tok.ws) = (u == Tok.ws) := by rw [Bool.eq_iff_iff]; simp [h4]
      have b5 : (u' == Tok.lp) = (u == Tok.lp) := by rw [Bool.eq_iff_iff]; simp [h5]
      have b6 : (u' == Tok.rp) = (u == Tok.rp) := by rw [Bool.eq_iff_iff]; simp [h6]
      have b7 : (u' == Tok.comma) = (u == Tok.comma) := by rw [Bool.eq_iff_iff]; simp [h7]
      have b8 : (u' == Tok.colon) = (u == Tok.colon) := by rw [Bool.eq_iff_iff]; simp [h8]
      rcases normTok_cases ht with rfl | ⟨v, v', rfl, rfl, hv⟩ | ⟨v, v', rfl, rfl, hv⟩
      · cases t' <;> simp only [adj, h1, h2, h3, b4, b5, b6, b7, b8, hu]
        all_goals (rw [Bool.eq_iff_iff]; simp [h5])
      · simp [adj, h1]
      · simp [adj, h1]

theorem insWs_head {ts L : List Tok} (h : InsWs ts L) : optRel L.head? ts.head? := by
  cases h with
  | nil => trivial
  | cons hn _ => exact hn
  | ins _ _ => rfl


/-- every admissible spelling of a (non-minus) token is the text of a piece whose token is equal up to `normTok` -/
theorem spellTok_piece {t : Tok} {s : Str} (hsp : SpellTok E t s) (hne : t ≠ .uminus) (hok : isLI t = true → TokOk t) :
    ∃ t', PieceOk ⟨t', s⟩ ∧ normTok t' = normTok t := by
  cases t with
  | lit k v =>
    obtain ⟨p, hp, hn⟩ := spellLit_textOk hsp (hok rfl)
    exact ⟨.lit k p, hp, hn⟩
  | ident i =>
    cases hsp with
    | exact _ _ => exact ⟨.ident i, TextOk.ofTok (hok rfl), rfl⟩
  | arith o =>
    cases hsp with
    | arith _ w1 k w2 h1 h2 hk => exact ⟨.arith o, ⟨w1, k, w2, rfl, h1, h2, hk⟩, rfl⟩
    | exact _ he => simp [exactTok] at he
  | cmp o =>
    cases hsp with
    | cmp _ w1 k w2 h1 h2 hk => exact ⟨.cmp o, ⟨w1, k, w2, rfl, h1, h2, hk⟩, rfl⟩
    | exact _ he => simp [exactTok] at he
  | bool o =>
    cases hsp with
    | bool _ w1 k w2 h1 h2 hk => exact ⟨.bool o, ⟨w1, k, w2, rfl, h1, h2, hk⟩, rfl⟩
    | exact _ he => simp [exactTok] at he
  | not_ =>
    cases hsp with
    | not_ k w hk hw => exact ⟨.not_, ⟨k, w, rfl, hk, hw⟩, rfl⟩
    | exact _ he => simp [exactTok] at he
  | any =>
    cases hsp with
    | any _ hk => exact ⟨.any, hk, rfl⟩
    | exact _ he => simp [exactTok] at he
  | all =>
    cases hsp with
    | all _ hk => exact ⟨.all, hk, rfl⟩
    | exact _ he => simp [exactTok] at he
  | ws =>
    cases hsp with
    | ws _ hw => exact ⟨.ws, hw, rfl⟩
    | exact _ he => simp [exactTok] at he
  | uminus => exact absurd rfl hne
  | lp => cases hsp with | exact _ _ => exact ⟨.lp, rfl, rfl⟩
  | rp => cases hsp with | exact _ _ => exact ⟨.rp, rfl, rfl⟩
  | comma => cases hsp with | exact _ _ => exact ⟨.comma, rfl, rfl⟩
  | slash => cases hsp with | exact _ _ => exact ⟨.slash, rfl, rfl⟩
  | colon => cases hsp with | exact _ _ => exact ⟨.colon, rfl, rfl⟩
  | eqs => cases hsp with | exact _ _ => exact ⟨.eqs, rfl, rfl⟩

theorem nextTok_eq (ps : List Piece) : nextTok ps = (ps.map (·.tok)).head? := by
  cases ps <;> rfl

theorem adj_strict_irrel {t : Tok} (h : t ≠ .uminus) (n : Option Tok) : adj true t n = adj false t n := by
  cases t <;> first | rfl | exact absurd rfl h

theorem isBlankRun_append {w w' : Str} (h : isBlankRun E w) (h' : isBlankRun E w') : isBlankRun E (w ++ w') := by
  refine ⟨by intro e; simp at e; exact h.1 e.1, ?_⟩
  simp [List.all_append, h.2, h'.2]

/-- a re-spelling of a token list satisfying the adjacency condition is the text of a chain of pieces whose tokens are
    the given ones up to `normTok`, with WS tokens where a blank was written after a unary minus -/
theorem respell_pieces {ts : List Tok} {s : Str} (h : Respell E ts s) :
    chainOk false ts → ∃ ps, flat ps = s ∧ pchainOk ps ∧ InsWs ts (ps.map (·.tok)) := by
  induction h with
  | nil => intro _; exact ⟨[], rfl, trivial, InsWs.nil⟩
  | cons t ts s r hne hsp hr ih =>
    intro hc
    obtain ⟨hok, ha, hrest⟩ := hc
    obtain ⟨ps, hfl, hpc, hins⟩ := ih hrest
    obtain ⟨t', hp, hn⟩ := spellTok_piece hsp hne hok
    have hne' : t' ≠ .uminus := by
      rintro rfl
      rcases normTok_cases hn with e | ⟨v, v', -, e, -⟩ | ⟨v, v', -, e, -⟩
      · exact hne e.symm
      · cases e
      · cases e
    refine ⟨⟨t', s⟩ :: ps, by simp [flat, hfl], ⟨hp, ?_, hpc⟩, InsWs.cons hn hins⟩
    show adj true t' (nextTok ps) = true
    rw [adj_strict_irrel hne', nextTok_eq, adj_norm hn (insWs_head hins)]
    exact ha
  | minus ts r hu hr ih =>
    intro hc
    obtain ⟨-, ha, hrest⟩ := hc
    obtain ⟨ps, hfl, hpc, hins⟩ := ih hrest
    cases ts with
    | nil => simp [adj] at ha
    | cons u rest =>
      cases ps with
      | nil => cases hins
      | cons q ps' =>
        obtain ⟨qt, qx⟩ := q
        have hq : normTok qt = normTok u := insWs_head hins
        refine ⟨⟨.uminus, ['-']⟩ :: ⟨qt, qx⟩ :: ps', by simp [flat] at hfl ⊢; exact hfl, ⟨rfl, ?_, hpc⟩,
          InsWs.cons rfl hins⟩
        have h1 := adj_norm (b := false) (t' := .uminus) (t := .uminus) rfl
          (show optRel (some qt) (some u) from hq)
        have h2 : adj false .uminus (some qt) = true := by rw [h1]; exact ha
        have h3 : isUnsignedNumber qt = false := by rw [unsigned_norm hq]; exact hu u rest rfl
        have h4 : (qt == Tok.ws || startT qt) = true := by simpa [adj] using h2
        simp only [adj, nextTok, List.head?_cons, Option.map_some, h4, h3]
        rfl
  | minusBlank ts w r hw hr ih =>
    intro hc
    obtain ⟨-, ha, hrest⟩ := hc
    obtain ⟨ps, hfl, hpc, hins⟩ := ih hrest
    cases ts with
    | nil => simp [adj] at ha
    | cons u rest =>
      cases ps with
      | nil => cases hins
      | cons q ps' =>
        obtain ⟨qt, qx⟩ := q
        have hq : normTok qt = normTok u := insWs_head hins
        by_cases huw : u = .ws
        · subst huw
          have hqt : qt = .ws := ((class_norm hq).2.2.2.1).2 rfl
          subst hqt
          have hqb : isBlankRun E qx := hpc.1
          refine ⟨⟨.uminus, ['-']⟩ :: ⟨.ws, w ++ qx⟩ :: ps', ?_, ⟨rfl, rfl, isBlankRun_append hw hqb, hpc.2.1, hpc.2.2⟩,
            InsWs.cons rfl hins⟩
          simp only [flat] at hfl ⊢
          rw [← hfl]; simp
        · have hst : startT u = true := by
            have h4 : (u == Tok.ws || startT u) = true := by simpa [adj] using ha
            rcases Bool.or_eq_true_iff.1 h4 with e | e
            · exact absurd (by simpa using e) huw
            · exact e
          have hst' : startT qt = true := by rw [(class_norm hq).2.2.1]; exact hst
          refine ⟨⟨.uminus, ['-']⟩ :: ⟨.ws, w⟩ :: ⟨qt, qx⟩ :: ps', ?_, ⟨rfl, rfl, hw, ?_, hpc⟩,
            InsWs.ins (fun r e => huw (List.cons.inj e).1) hins⟩
          · simp only [flat] at hfl ⊢
            rw [← hfl]; simp
          · simp [adj, nextTok, hst']

end OQ.Respelling
