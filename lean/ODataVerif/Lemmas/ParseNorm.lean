/- Lemmas/ParseNorm.lean — the parser model commutes with `normTok` on the tokens and `normE` on the trees: it never looks
   at the value of a literal (for Props/C19Text.lean). -/
import ODataVerif.Lemmas.ParseSep
import ODataVerif.Spec.Respell
namespace OQ.ParseNorm
open Spec LexRender ParseSep
set_option linter.unusedSimpArgs false
set_option linter.unusedVariables false

/-- the payload of a literal after `normTok` / `normE` -/
def normLit (k : LitKind) (v : Str) : Str :=
  match k with
  | .bool => v.map asciiLower
  | .float => v.map asciiLower
  | _ => v

theorem normTok_lit (k v) : normTok (.lit k v) = .lit k (normLit k v) := by cases k <;> rfl
theorem normE_lit (k v) : normE (.lit k v) = .lit k (normLit k v) := by cases k <;> simp [normE, normLit]

abbrev G (ts : List Tok) : List Tok := ts.map normTok

def mapR (x : Except PErr (Expr × List Tok)) : Except PErr (Expr × List Tok) :=
  match x with
  | .ok p => .ok (normE p.1, G p.2)
  | .error e => .error e
def mapRs (x : Except PErr (Exprs × List Tok)) : Except PErr (Exprs × List Tok) :=
  match x with
  | .ok p => .ok (normEs p.1, G p.2)
  | .error e => .error e
def mapRl (x : Except PErr (OptLam × List Tok)) : Except PErr (OptLam × List Tok) :=
  match x with
  | .ok p => .ok (normLam p.1, G p.2)
  | .error e => .error e

@[simp] theorem mapR_ok (a r) : mapR (.ok (a, r)) = .ok (normE a, G r) := rfl
@[simp] theorem mapR_err (e) : mapR (.error e) = .error e := rfl
@[simp] theorem mapRs_ok (a r) : mapRs (.ok (a, r)) = .ok (normEs a, G r) := rfl
@[simp] theorem mapRs_err (e) : mapRs (.error e) = .error e := rfl
@[simp] theorem mapRl_ok (a r) : mapRl (.ok (a, r)) = .ok (normLam a, G r) := rfl
@[simp] theorem mapRl_err (e) : mapRl (.error e) = .error e := rfl

theorem skipWs_G (ts : List Tok) : skipWs (G ts) = G (skipWs ts) := by
  cases ts with
  | nil => rfl
  | cons t r => cases t <;> first | rfl | (simp [G, normTok_lit, skipWs])

theorem failAt_G (ts : List Tok) : failAt false (G ts) = failAt false ts := by
  cases ts <;> simp [failAt, G]

theorem normEs_length : ∀ xs : Exprs, (normEs xs).length = xs.length
  | .nil => rfl
  | .cons h t => by simp [normEs, Exprs.length, normEs_length t]

theorem normEs_snoc : ∀ (xs : Exprs) (e : Expr), normEs (xs.snoc e) = (normEs xs).snoc (normE e)
  | .nil, e => rfl
  | .cons h t, e => by simp [Exprs.snoc, normEs, normEs_snoc t e]

def normO : Outcome Expr → Outcome Expr
  | .ok e => .ok (normE e)
  | .lib x => .lib x
  | .notImplemented => .notImplemented
  | .foreign c => .foreign c

theorem functionCall_norm (i : Ident) (args : Exprs) : functionCall i (normEs args) = normO (functionCall i args) := by
  simp only [functionCall, functionCallWith, normEs_length]
  split
  · split
    · rfl
    · split <;> simp [normO, normE]
  · simp [normO, normE]

theorem liftOutcome_norm (o : Outcome Expr) (rest : List Tok) :
    liftOutcome (normO o) (G rest) = mapR (liftOutcome o rest) := by
  cases o <;> rfl

theorem finishCall_norm (i : Ident) (args : Exprs) (rest : List Tok) :
    finishCall false i (normEs args) (G rest) = mapR (finishCall false i args rest) := by
  cases rest with
  | nil => simp only [finishCall, G, List.map_nil]; rw [functionCall_norm]; exact liftOutcome_norm _ []
  | cons t r =>
    have hf : isFollow (normTok t) = isFollow t := by cases t <;> first | rfl | simp [normTok_lit, isFollow]
    simp only [finishCall, G, List.map_cons, hf, List.length_cons, List.length_map]
    split
    · rw [functionCall_norm]; exact liftOutcome_norm _ (t :: r)
    · rfl


theorem explodePath_norm : (e : Expr) → explodePath (normE e) = explodePath e
  | .ident i => rfl
  | .attr o n => by simp [normE, explodePath, explodePath_norm o]
  | .lit k v => by rw [normE_lit]; rfl
  | .list _ => rfl
  | .binop _ _ _ => rfl
  | .compare _ _ _ => rfl
  | .boolop _ _ _ => rfl
  | .unary _ _ => rfl
  | .named _ _ => rfl
  | .call _ _ => rfl
  | .coll _ _ _ => rfl

theorem normE_foldl (names : List Str) : ∀ (b : Expr), normE b = b →
    normE (names.foldl (fun o n => Expr.attr o n) b) = names.foldl (fun o n => Expr.attr o n) b := by
  induction names with
  | nil => intro b hb; exact hb
  | cons n ns ih => intro b hb; exact ih (.attr b n) (by simp [normE, hb])

theorem rebuildPath_norm {names : List Str} {e : Expr} (h : rebuildPath names = some e) : normE e = e := by
  cases names with
  | nil => simp [rebuildPath] at h
  | cons hd rest =>
    simp only [rebuildPath, Option.some.injEq] at h
    subst h
    exact normE_foldl rest _ rfl

theorem pathCons_norm (i : Ident) (tail : Expr) : pathCons i (normE tail) = normO (pathCons i tail) := by
  cases tail with
  | attr o n =>
    have he := explodePath_norm (.attr o n)
    simp only [normE] at he
    simp only [normE, pathCons, he]
    cases hx : explodePath (.attr o n) with
    | none => rfl
    | some names =>
      simp only []
      cases hr : rebuildPath (i.name :: names) with
      | none => rfl
      | some e => simp [normO, rebuildPath_norm hr]
  | coll owner op lam =>
    cases owner with
    | attr o n =>
      have he := explodePath_norm (.attr o n)
      simp only [normE] at he
      simp only [normE, pathCons, he]
      cases hx : explodePath (.attr o n) with
      | none => rfl
      | some names =>
        simp only []
        cases hr : rebuildPath (i.name :: names) with
        | none => rfl
        | some e => simp [normO, normE, rebuildPath_norm hr]
    | ident o => simp [normE, pathCons, normO]
    | lit k v => rw [normE]; rw [normE_lit]; rfl
    | _ => rfl
  | ident j => rfl
  | lit k v => rw [normE_lit]; rfl
  | _ => rfl

theorem expectRp_norm (ts : List Tok) : expectRp false (G ts) = (expectRp false ts).map G := by
  cases ts with
  | nil => rfl
  | cons t r =>
    cases t with
    | lit k v => simp [G, normTok_lit, expectRp, failAt, Except.map]
    | _ => simp [G, normTok, expectRp, failAt, Except.map]


theorem normTok_eq_nonlit {t t0 : Tok} (h0 : ∀ k v, t0 ≠ .lit k v) (h : normTok t = t0) : t = t0 := by
  cases t with
  | lit k v => rw [normTok_lit] at h; exact absurd h.symm (h0 _ _)
  | _ => exact h

theorem G_head_ne {t0 : Tok} (h0 : ∀ k v, t0 ≠ .lit k v) {r : List Tok} (h : ∀ r', r ≠ t0 :: r') :
    ∀ r', G r ≠ t0 :: r' := by
  intro r' e
  cases r with
  | nil => simp [G] at e
  | cons t r0 =>
    simp only [G, List.map_cons, List.cons.injEq] at e
    exact h r0 (by rw [normTok_eq_nonlit h0 e.1])

/-- the parser commutes with `normTok` on the tokens / `normE` on the trees -/
structure NInv (f : Nat) : Prop where
  expr : ∀ m ts, parseExpr false f m (G ts) = mapR (parseExpr false f m ts)
  loop : ∀ m lhs ts, parseLoop false f m (normE lhs) (G ts) = mapR (parseLoop false f m lhs ts)
  pre : ∀ ts, parsePrefix false f (G ts) = mapR (parsePrefix false f ts)
  paren : ∀ ts, parseParen false f (G ts) = mapR (parseParen false f ts)
  items : ∀ acc ts, parseItems false f (normEs acc) (G ts) = mapRs (parseItems false f acc ts)
  listE : ∀ ts, parseListExpr false f (G ts) = mapR (parseListExpr false f ts)
  callArgs : ∀ i ts, parseCallArgs false f i (G ts) = mapR (parseCallArgs false f i ts)
  namedRest : ∀ i acc ts, parseNamedRest false f i (normEs acc) (G ts) = mapR (parseNamedRest false f i acc ts)
  path : ∀ i ts, parsePath false f i (G ts) = mapR (parsePath false f i ts)
  lam : ∀ ts, parseLambda false f (G ts) = mapRl (parseLambda false f ts)

theorem ninv_zero : NInv 0 := by
  constructor <;> intros <;> simp [parseExpr, parseLoop, parsePrefix, parseParen, parseItems, parseListExpr,
    parseCallArgs, parseNamedRest, parsePath, parseLambda]

theorem n_expr {f} (ih : NInv f) (m ts) : parseExpr false (f+1) m (G ts) = mapR (parseExpr false (f+1) m ts) := by
  simp only [parseExpr]
  rw [ih.pre]
  cases parsePrefix false f ts with
  | error e => rfl
  | ok p => obtain ⟨a, r1⟩ := p; simp only [mapR_ok, ok_bind]; exact ih.loop _ _ _

theorem n_loop {f} (ih : NInv f) (m lhs ts) :
    parseLoop false (f+1) m (normE lhs) (G ts) = mapR (parseLoop false (f+1) m lhs ts) := by
  cases ts with
  | nil => rfl
  | cons t r0 =>
    cases t with
    | bool o =>
      simp only [G, List.map_cons, normTok, parseLoop]
      split
      · rw [show List.map normTok r0 = G r0 from rfl, ih.expr]
        cases parseExpr false f (o.lvl + 1) r0 with
        | error e => rfl
        | ok p =>
          obtain ⟨rhs, r'⟩ := p
          simp only [mapR_ok, ok_bind]
          have := ih.loop m (.boolop o lhs rhs) r'
          simpa [normE] using this
      · rfl
    | arith o =>
      simp only [G, List.map_cons, normTok, parseLoop]
      split
      · rw [show List.map normTok r0 = G r0 from rfl, ih.expr]
        cases parseExpr false f (o.lvl + 1) r0 with
        | error e => rfl
        | ok p =>
          obtain ⟨rhs, r'⟩ := p
          simp only [mapR_ok, ok_bind]
          have := ih.loop m (.binop o lhs rhs) r'
          simpa [normE] using this
      · rfl
    | cmp o =>
      by_cases ho : o = .in_
      · subst ho
        simp only [G, List.map_cons, normTok, parseLoop]
        split
        · rw [show List.map normTok r0 = G r0 from rfl, ih.listE]
          cases parseListExpr false f r0 with
          | error e => rfl
          | ok p =>
            obtain ⟨rhs, r'⟩ := p
            simp only [mapR_ok, ok_bind]
            have := ih.loop m (.compare .in_ lhs rhs) r'
            simpa [normE] using this
        · rfl
      · have e : ∀ (l : Expr) (ts' : List Tok), parseLoop false (f+1) m l (.cmp o :: ts') =
            if o.lvl ≥ m then (do
              let (rhs, r') ← parseExpr false f (o.lvl + 1) ts'
              parseLoop false f m (.compare o l rhs) r') else .ok (l, .cmp o :: ts') := by
          intro l ts'; cases o <;> first | exact absurd rfl ho | rfl
        simp only [G, List.map_cons, normTok]
        rw [e, e]
        split
        · rw [show List.map normTok r0 = G r0 from rfl, ih.expr]
          cases parseExpr false f (o.lvl + 1) r0 with
          | error e => rfl
          | ok p =>
            obtain ⟨rhs, r'⟩ := p
            simp only [mapR_ok, ok_bind]
            have := ih.loop m (.compare o lhs rhs) r'
            simpa [normE] using this
        · rfl
    | lit k v => simp only [G, List.map_cons, normTok_lit, parseLoop, mapR_ok]
    | _ => rfl


theorem G_cons (t : Tok) (r : List Tok) : G (t :: r) = normTok t :: G r := rfl

theorem n_pre {f} (ih : NInv f) (ts) : parsePrefix false (f+1) (G ts) = mapR (parsePrefix false (f+1) ts) := by
  cases ts with
  | nil => rfl
  | cons t r0 =>
    cases t with
    | not_ =>
      simp only [G_cons, normTok, parsePrefix]
      rw [ih.expr]
      cases parseExpr false f (unaryLvl + 1) r0 with
      | error e => rfl
      | ok p => obtain ⟨a, r1⟩ := p; simp [pure, Except.pure, normE]
    | uminus =>
      simp only [G_cons, normTok, parsePrefix]
      rw [skipWs_G, ih.expr]
      cases parseExpr false f (unaryLvl + 1) (skipWs r0) with
      | error e => rfl
      | ok p => obtain ⟨a, r1⟩ := p; simp [pure, Except.pure, normE]
    | lit k v => simp only [G_cons, normTok_lit, parsePrefix, mapR_ok, normE_lit]
    | lp =>
      simp only [G_cons, normTok, parsePrefix]
      rw [skipWs_G]; exact ih.paren _
    | ident i =>
      rw [G_cons]
      simp only [normTok]
      by_cases h1 : ∃ r1, r0 = .lp :: r1
      · obtain ⟨r1, rfl⟩ := h1
        rw [G_cons]; simp only [normTok]
        by_cases h2 : ∃ r2, r1 = .rp :: r2
        · obtain ⟨r2, rfl⟩ := h2
          rw [G_cons]; simp only [normTok, parsePrefix]
          exact finishCall_norm i .nil r2
        · have h2' : ∀ r', r1 ≠ .rp :: r' := fun r' he => h2 ⟨r', he⟩
          rw [parsePrefix_ident_lp i r1 h2', parsePrefix_ident_lp i _ (G_head_ne (by simp) h2'), skipWs_G]
          exact ih.callArgs _ _
      · have h1' : ∀ r', r0 ≠ .lp :: r' := fun r' he => h1 ⟨r', he⟩
        rw [parsePrefix_ident i r0 h1', parsePrefix_ident i _ (G_head_ne (by simp) h1')]
        exact ih.path _ _
    | _ => simp [G_cons, normTok, parsePrefix, failAt, G]

theorem n_items {f} (ih : NInv f) (acc ts) :
    parseItems false (f+1) (normEs acc) (G ts) = mapRs (parseItems false (f+1) acc ts) := by
  simp only [parseItems]
  rw [ih.expr]
  cases parseExpr false f 0 ts with
  | error e => rfl
  | ok p =>
    obtain ⟨e, r1⟩ := p
    simp only [mapR_ok, ok_bind]
    rw [skipWs_G]
    generalize skipWs r1 = y
    cases y with
    | nil => rfl
    | cons t y0 =>
      cases t with
      | rp => simp [G_cons, normTok, pure, Except.pure, normEs_snoc]
      | comma =>
        simp only [G_cons, normTok]
        rw [skipWs_G, ← normEs_snoc]
        exact ih.items _ _
      | lit k v => simp [G_cons, normTok_lit, failAt, G]
      | _ => simp [G_cons, normTok, failAt, G]

theorem after_comma_norm {f} (ih : NInv f) (e : Expr) (z : List Tok)
    (k : Exprs → List Tok → Except PErr (Expr × List Tok)) (k' : Exprs → List Tok → Except PErr (Expr × List Tok))
    (hk : ∀ items r, k' (normEs items) (G r) = mapR (k items r)) :
    (do let (items, r3) ← parseItems false f (.cons (normE e) .nil) (G z); k' items r3) =
      mapR (do let (items, r3) ← parseItems false f (.cons e .nil) z; k items r3) := by
  have := ih.items (.cons e .nil) z
  simp only [normEs] at this
  rw [this]
  cases parseItems false f (.cons e .nil) z with
  | error e' => rfl
  | ok q => obtain ⟨items, r3⟩ := q; simp only [mapRs_ok, ok_bind]; exact hk _ _

theorem n_paren {f} (ih : NInv f) (ts) : parseParen false (f+1) (G ts) = mapR (parseParen false (f+1) ts) := by
  simp only [parseParen]
  rw [ih.expr]
  cases parseExpr false f 0 ts with
  | error e => rfl
  | ok p =>
    obtain ⟨e, r1⟩ := p
    simp only [mapR_ok, ok_bind]
    rw [skipWs_G]
    generalize skipWs r1 = y
    cases y with
    | nil => rfl
    | cons t y0 =>
      cases t with
      | rp => simp [G_cons, normTok, pure, Except.pure]
      | comma =>
        simp only [G_cons, normTok]
        rw [skipWs_G]
        generalize skipWs y0 = z
        by_cases hz : ∃ z0, z = .rp :: z0
        · obtain ⟨z0, rfl⟩ := hz
          simp [G_cons, normTok, pure, Except.pure, normE, normEs]
        · have hz' : ∀ r', z ≠ .rp :: r' := fun r' he => hz ⟨r', he⟩
          split
          · rename_i r'' heq; exact absurd heq (G_head_ne (by simp) hz' _)
          have hi := ih.items (.cons e .nil) z
          simp only [normEs] at hi
          rw [hi]
          cases parseItems false f (.cons e .nil) z with
          | error e' => rfl
          | ok q => obtain ⟨items, r3⟩ := q; simp [pure, Except.pure, normE]
      | lit k v => simp [G_cons, normTok_lit, failAt, G]
      | _ => simp [G_cons, normTok, failAt, G]


theorem n_listE {f} (ih : NInv f) (ts) : parseListExpr false (f+1) (G ts) = mapR (parseListExpr false (f+1) ts) := by
  cases ts with
  | nil => rfl
  | cons t r0 =>
    cases t with
    | lp =>
      simp only [G_cons, normTok, parseListExpr]
      rw [skipWs_G, ih.expr]
      cases parseExpr false f 0 (skipWs r0) with
      | error e => rfl
      | ok p =>
        obtain ⟨e, r1⟩ := p
        simp only [mapR_ok, ok_bind]
        rw [skipWs_G]
        generalize skipWs r1 = y
        cases y with
        | nil => rfl
        | cons t y0 =>
          cases t with
          | comma =>
            simp only [G_cons, normTok]
            rw [skipWs_G]
            generalize skipWs y0 = z
            by_cases hz : ∃ z0, z = .rp :: z0
            · obtain ⟨z0, rfl⟩ := hz
              simp [G_cons, normTok, pure, Except.pure, normE, normEs]
            · have hz' : ∀ r', z ≠ .rp :: r' := fun r' he => hz ⟨r', he⟩
              split
              · rename_i r'' heq; exact absurd heq (G_head_ne (by simp) hz' _)
              have hi := ih.items (.cons e .nil) z
              simp only [normEs] at hi
              rw [hi]
              cases parseItems false f (.cons e .nil) z with
              | error e' => rfl
              | ok q => obtain ⟨items, r3⟩ := q; simp [pure, Except.pure, normE]
          | lit k v => simp [G_cons, normTok_lit, failAt, G]
          | _ => simp [G_cons, normTok, failAt, G]
    | lit k v => simp [G_cons, normTok_lit, parseListExpr, failAt, G]
    | _ => simp [G_cons, normTok, parseListExpr, failAt, G]

theorem n_lam {f} (ih : NInv f) (ts) : parseLambda false (f+1) (G ts) = mapRl (parseLambda false (f+1) ts) := by
  cases ts with
  | nil => rfl
  | cons t r0 =>
    cases t with
    | ident v =>
      simp only [G_cons, normTok, parseLambda]
      rw [skipWs_G]
      generalize skipWs r0 = y
      cases y with
      | nil => rfl
      | cons t y0 =>
        cases t with
        | colon =>
          simp only [G_cons, normTok]
          rw [skipWs_G, ih.expr]
          cases parseExpr false f 0 (skipWs y0) with
          | error e => rfl
          | ok p => obtain ⟨b, r1⟩ := p; simp [pure, Except.pure, normLam]
        | lit k v => simp [G_cons, normTok_lit, failAt, G]
        | _ => simp [G_cons, normTok, failAt, G]
    | lit k v => simp [G_cons, normTok_lit, parseLambda, failAt, G]
    | _ => simp [G_cons, normTok, parseLambda, failAt, G]

theorem n_namedRest {f} (ih : NInv f) (i acc ts) :
    parseNamedRest false (f+1) i (normEs acc) (G ts) = mapR (parseNamedRest false (f+1) i acc ts) := by
  simp only [parseNamedRest]
  rw [skipWs_G]
  generalize skipWs ts = y
  cases y with
  | nil => rfl
  | cons t y0 =>
    cases t with
    | rp => simp only [G_cons, normTok]; exact finishCall_norm i acc y0
    | comma =>
      simp only [G_cons, normTok]
      rw [skipWs_G]
      generalize skipWs y0 = z
      cases z with
      | nil => rfl
      | cons t1 z0 =>
        cases t1 with
        | ident n =>
          cases z0 with
          | nil => rfl
          | cons t2 z1 =>
            cases t2 with
            | eqs =>
              simp only [G_cons, normTok]
              rw [ih.expr]
              cases parseExpr false f 0 z1 with
              | error e => rfl
              | ok p =>
                obtain ⟨e, r1⟩ := p
                simp only [mapR_ok, ok_bind]
                have := ih.namedRest i (acc.snoc (.named n e)) r1
                simpa [normEs_snoc, normE] using this
            | lit k v => simp only [G_cons, normTok_lit]; simp [normTok, failAt, G]
            | _ => simp [G_cons, normTok, failAt, G]
        | lit k v => simp [G_cons, normTok_lit, failAt, G]
        | _ => simp [G_cons, normTok, failAt, G]
    | lit k v => simp [G_cons, normTok_lit, failAt, G]
    | _ => simp [G_cons, normTok, failAt, G]


theorem lam_tail_norm {f} (ih : NInv f) (i : Ident) (op : CollOp) (z : List Tok) :
    (do let (lam, r2) ← parseLambda false f (G z)
        let r3 ← expectRp false (skipWs r2)
        pure (Expr.coll (.ident i) op lam, r3)) =
    mapR (do let (lam, r2) ← parseLambda false f z
             let r3 ← expectRp false (skipWs r2)
             pure (Expr.coll (.ident i) op lam, r3)) := by
  rw [ih.lam]
  cases parseLambda false f z with
  | error e => rfl
  | ok q =>
    obtain ⟨lam, r2⟩ := q
    simp only [mapRl_ok, ok_bind]
    rw [skipWs_G, expectRp_norm]
    cases expectRp false (skipWs r2) with
    | error e => rfl
    | ok r3 => simp [Except.map, pure, Except.pure, normE]

theorem n_path {f} (ih : NInv f) (i ts) : parsePath false (f+1) i (G ts) = mapR (parsePath false (f+1) i ts) := by
  by_cases hs : ∃ r0, ts = .slash :: r0
  · obtain ⟨r0, rfl⟩ := hs
    rw [G_cons]; simp only [normTok]
    cases r0 with
    | nil => rfl
    | cons t r1 =>
      cases t with
      | ident j =>
        simp only [G_cons, normTok, parsePath]
        rw [ih.path]
        cases parsePath false f j r1 with
        | error e => rfl
        | ok p =>
          obtain ⟨tail, r'⟩ := p
          simp only [mapR_ok, ok_bind]
          rw [pathCons_norm]; exact liftOutcome_norm _ _
      | any =>
        cases r1 with
        | nil => rfl
        | cons t2 r2 =>
          cases t2 with
          | lp =>
            simp only [G_cons, normTok, parsePath]
            rw [skipWs_G]
            generalize skipWs r2 = z
            by_cases hz : ∃ z0, z = .rp :: z0
            · obtain ⟨z0, rfl⟩ := hz
              simp [G_cons, normTok, pure, Except.pure, normE, normLam]
            · have hz' : ∀ r', z ≠ .rp :: r' := fun r' he => hz ⟨r', he⟩
              split
              · rename_i r'' heq; exact absurd heq (G_head_ne (by simp) hz' _)
              exact lam_tail_norm ih i .any z
          | lit k v => simp only [G_cons, normTok_lit]; simp [normTok, parsePath, failAt, G]
          | _ => simp [G_cons, normTok, parsePath, failAt, G]
      | all =>
        cases r1 with
        | nil => rfl
        | cons t2 r2 =>
          cases t2 with
          | lp =>
            simp only [G_cons, normTok, parsePath]
            rw [skipWs_G]
            exact lam_tail_norm ih i .all (skipWs r2)
          | lit k v => simp only [G_cons, normTok_lit]; simp [normTok, parsePath, failAt, G]
          | _ => simp [G_cons, normTok, parsePath, failAt, G]
      | lit k v => simp only [G_cons, normTok_lit]; simp [parsePath, failAt, G]
      | _ => simp [G_cons, normTok, parsePath, failAt, G]
  · have hs' : ∀ r', ts ≠ .slash :: r' := fun r' he => hs ⟨r', he⟩
    have e : ∀ w : List Tok, (∀ r', w ≠ .slash :: r') → parsePath false (f+1) i w = .ok (.ident i, w) := by
      intro w hw
      cases w with
      | nil => rfl
      | cons t w0 => cases t <;> first | rfl | exact absurd rfl (hw _)
    rw [e ts hs', e _ (G_head_ne (by simp) hs')]
    rfl

theorem n_callArgs {f} (ih : NInv f) (i ts) :
    parseCallArgs false (f+1) i (G ts) = mapR (parseCallArgs false (f+1) i ts) := by
  by_cases hn : ∃ n r0, ts = .ident n :: .eqs :: r0
  · obtain ⟨n, r0, rfl⟩ := hn
    simp only [G_cons, normTok, parseCallArgs]
    rw [ih.expr]
    cases parseExpr false f 0 r0 with
    | error e => rfl
    | ok p =>
      obtain ⟨e, r1⟩ := p
      simp only [mapR_ok, ok_bind]
      have := ih.namedRest i (.cons (.named n e) .nil) r1
      simpa [normEs, normE] using this
  · have hn' : ∀ n r0, ts ≠ .ident n :: .eqs :: r0 := fun n r0 he => hn ⟨n, r0, he⟩
    have hn'' : ∀ n r0, G ts ≠ .ident n :: .eqs :: r0 := by
      intro n r0 he
      cases ts with
      | nil => simp [G] at he
      | cons t w =>
        cases w with
        | nil => simp [G] at he
        | cons t2 w2 =>
          simp only [G, List.map_cons, List.cons.injEq] at he
          have e1 := normTok_eq_nonlit (by simp) he.1
          have e2 := normTok_eq_nonlit (by simp) he.2.1
          exact hn' n w2 (by rw [e1, e2])
    have e : ∀ w : List Tok, (∀ n r0, w ≠ .ident n :: .eqs :: r0) → parseCallArgs false (f+1) i w =
        (do
          let (e, r1) ← parseExpr false f 0 w
          match skipWs r1 with
          | .rp :: r2 => finishCall false i (.cons e .nil) r2
          | .comma :: r2 =>
              (match skipWs r2 with
               | .rp :: r3 => finishCall false i (.cons e .nil) r3
               | r3 => do
                   let (items, r4) ← parseItems false f (.cons e .nil) r3
                   finishCall false i items r4)
          | r2 => .error (failAt false r2)) := by
      intro w hw
      rw [parseCallArgs]
      · rfl
      · intro n r0 he
        exact hw n r0 he
    rw [e ts hn', e _ hn'', ih.expr]
    cases parseExpr false f 0 ts with
    | error e => rfl
    | ok p =>
      obtain ⟨e, r1⟩ := p
      simp only [mapR_ok, ok_bind]
      rw [skipWs_G]
      generalize skipWs r1 = y
      cases y with
      | nil => rfl
      | cons t y0 =>
        cases t with
        | rp => simp only [G_cons, normTok]; exact finishCall_norm i (.cons e .nil) y0
        | comma =>
          simp only [G_cons, normTok]
          rw [skipWs_G]
          generalize skipWs y0 = z
          by_cases hz : ∃ z0, z = .rp :: z0
          · obtain ⟨z0, rfl⟩ := hz
            simp only [G_cons, normTok]; exact finishCall_norm i (.cons e .nil) z0
          · have hz' : ∀ r', z ≠ .rp :: r' := fun r' he => hz ⟨r', he⟩
            split
            · rename_i r'' heq; exact absurd heq (G_head_ne (by simp) hz' _)
            have hi := ih.items (.cons e .nil) z
            simp only [normEs] at hi
            rw [hi]
            cases parseItems false f (.cons e .nil) z with
            | error e' => rfl
            | ok q => obtain ⟨items, r3⟩ := q; simp only [mapRs_ok, ok_bind]; exact finishCall_norm i items r3
        | lit k v => simp [G_cons, normTok_lit, failAt, G]
        | _ => simp [G_cons, normTok, failAt, G]

theorem ninv : ∀ f, NInv f
  | 0 => ninv_zero
  | f + 1 =>
    have ih := ninv f
    ⟨n_expr ih, n_loop ih, n_pre ih, n_paren ih, n_items ih, n_listE ih, n_callArgs ih, n_namedRest ih,
     n_path ih, n_lam ih⟩

end OQ.ParseNorm
