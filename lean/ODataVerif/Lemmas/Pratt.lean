/-
  Lemmas/Pratt.lean — helper lemmas for the token-level round-trip theorem of the precedence-climbing
  parser model (Props/C05Roundtrip.lean).

  Layout
  * §1  one-step unfoldings of every function of the fuelled mutual parser, stated for arbitrary token
        lists under hypotheses on the *shape* of the input (so the main proof never unfolds the parser)
  * §2  token-shape facts about the reference printer (`headStart`, `ws?`, `skipWs`)
  * §3  paths: `pathOk` trees are `buildPath i names`; `pathCons` rebuilds them; `parsePath` reads them
  * §4  `functionCall` / `finishCall` under `callOk`
  * §5  the core statement `Core` and one lemma per constructor
  * §6  the (mutual, structurally recursive) assembly `core`
-/
import ODataVerif.Model.Parser
import ODataVerif.Spec.RefPrinter
import ODataVerif.Props.C11
namespace OQ.Pratt
open Spec

/-! ## §1 step lemmas -/

@[simp] theorem ok_bind {α β} (a : α) (g : α → Except PErr β) : (Except.ok a >>= g) = g a := rfl

/-- the operator loop at minimum level `m` stops in front of `ts` -/
def stops (m : Nat) : List Tok → Bool
  | .bool o :: _ => decide (o.lvl < m)
  | .cmp o :: _ => decide (o.lvl < m)
  | .arith o :: _ => decide (o.lvl < m)
  | _ => true

/-- `ts` is empty or starts with a token of the look-ahead set of a completed `common_expr` -/
def followOk : List Tok → Bool
  | [] => true
  | t :: _ => isFollow t

/-- a token that can start a `common_expr` -/
def startTok : Tok → Bool
  | .lit _ _ | .ident _ | .not_ | .uminus | .lp => true
  | _ => false

def headStart : List Tok → Bool
  | t :: _ => startTok t
  | [] => false

def noWs : List Tok → Bool
  | .ws :: _ => false
  | _ => true

theorem parseExpr_step (f m ts lhs r) (h : parsePrefix false f ts = .ok (lhs, r)) :
    parseExpr false (f+1) m ts = parseLoop false f m lhs r := by
  rw [parseExpr]; simp [h]

theorem loop_stop (f m lhs ts) (h : stops m ts = true) :
    parseLoop false (f+1) m lhs ts = .ok (lhs, ts) := by
  cases ts with
  | nil => simp [parseLoop]
  | cons t r =>
    cases t with
    | cmp o =>
      have h' : o.lvl < m := by simpa [stops] using h
      cases o <;> simp [CmpOp.lvl] at h' <;> simp [parseLoop, CmpOp.lvl] <;> omega
    | bool o =>
      have h' : o.lvl < m := by simpa [stops] using h
      simp [parseLoop]; omega
    | arith o =>
      have h' : o.lvl < m := by simpa [stops] using h
      simp [parseLoop]; omega
    | _ => simp [parseLoop]

theorem loop_arith (f m lhs o r rhs r') (hm : m ≤ o.lvl)
    (h : parseExpr false f (o.lvl+1) r = .ok (rhs, r')) :
    parseLoop false (f+1) m lhs (.arith o :: r) = parseLoop false f m (.binop o lhs rhs) r' := by
  simp [parseLoop, hm, h]

theorem loop_bool (f m lhs o r rhs r') (hm : m ≤ o.lvl)
    (h : parseExpr false f (o.lvl+1) r = .ok (rhs, r')) :
    parseLoop false (f+1) m lhs (.bool o :: r) = parseLoop false f m (.boolop o lhs rhs) r' := by
  simp [parseLoop, hm, h]

theorem loop_cmp (f m lhs o r rhs r') (ho : o ≠ .in_) (hm : m ≤ o.lvl)
    (h : parseExpr false f (o.lvl+1) r = .ok (rhs, r')) :
    parseLoop false (f+1) m lhs (.cmp o :: r) = parseLoop false f m (.compare o lhs rhs) r' := by
  cases o <;> simp at ho <;> simp [parseLoop, hm, h]

theorem loop_in (f m lhs r rhs r') (hm : m ≤ 8) (h : parseListExpr false f r = .ok (rhs, r')) :
    parseLoop false (f+1) m lhs (.cmp .in_ :: r) = parseLoop false f m (.compare .in_ lhs rhs) r' := by
  simp [parseLoop, hm, h, CmpOp.lvl]

/-! ### parsePrefix -/

theorem prefix_not (f r e r') (h : parseExpr false f 8 r = .ok (e, r')) :
    parsePrefix false (f+1) (.not_ :: r) = .ok (.unary .not_ e, r') := by
  simp [parsePrefix, unaryLvl, h]; rfl

theorem prefix_uminus (f r e r') (h : parseExpr false f 8 (skipWs r) = .ok (e, r')) :
    parsePrefix false (f+1) (.uminus :: r) = .ok (.unary .neg e, r') := by
  simp [parsePrefix, unaryLvl, h]; rfl

theorem prefix_lit (f k v r) : parsePrefix false (f+1) (.lit k v :: r) = .ok (.lit k v, r) := by
  simp [parsePrefix]

theorem prefix_lp (f r) : parsePrefix false (f+1) (.lp :: r) = parseParen false f (skipWs r) := by
  simp [parsePrefix]

theorem prefix_call_nil (f i r) :
    parsePrefix false (f+1) (.ident i :: .lp :: .rp :: r) = finishCall false i .nil r := by
  simp [parsePrefix]

def notRpHead : List Tok → Bool
  | .rp :: _ => false
  | _ => true

def notLpHead : List Tok → Bool
  | .lp :: _ => false
  | _ => true

def notSlashHead : List Tok → Bool
  | .slash :: _ => false
  | _ => true

theorem prefix_call_args (f i r) (h : notRpHead r = true) :
    parsePrefix false (f+1) (.ident i :: .lp :: r) = parseCallArgs false f i (skipWs r) := by
  cases r with
  | nil => simp [parsePrefix]
  | cons t r' => cases t <;> simp [notRpHead] at h <;> simp [parsePrefix]

theorem prefix_path (f i r) (h : notLpHead r = true) :
    parsePrefix false (f+1) (.ident i :: r) = parsePath false f i r := by
  cases r with
  | nil => simp [parsePrefix]
  | cons t r' => cases t <;> simp [notLpHead] at h <;> simp [parsePrefix]

/-! ### parseParen / parseItems / parseListExpr -/

theorem paren_close (f ts e r r') (h : parseExpr false f 0 ts = .ok (e, r)) (hr : skipWs r = .rp :: r') :
    parseParen false (f+1) ts = .ok (e, r') := by
  simp [parseParen, h, hr]; rfl

theorem paren_single (f ts e r r' r'') (h : parseExpr false f 0 ts = .ok (e, r))
    (hr : skipWs r = .comma :: r') (hr' : skipWs r' = .rp :: r'') :
    parseParen false (f+1) ts = .ok (.list (.cons e .nil), r'') := by
  simp [parseParen, h, hr, hr']; rfl

theorem paren_items (f ts e r r' items r3) (h : parseExpr false f 0 ts = .ok (e, r))
    (hr : skipWs r = .comma :: r') (hr' : notRpHead (skipWs r') = true)
    (hi : parseItems false f (.cons e .nil) (skipWs r') = .ok (items, r3)) :
    parseParen false (f+1) ts = .ok (.list items, r3) := by
  simp only [parseParen, h, hr, ok_bind]
  generalize skipWs r' = s at *
  cases s with
  | nil => simp [hi]; rfl
  | cons t s' => cases t <;> simp [notRpHead] at hr' <;> simp [hi] <;> rfl

theorem items_last (f acc ts e r r') (h : parseExpr false f 0 ts = .ok (e, r))
    (hr : skipWs r = .rp :: r') :
    parseItems false (f+1) acc ts = .ok (acc.snoc e, r') := by
  simp [parseItems, h, hr]; rfl

theorem items_more (f acc ts e r r') (h : parseExpr false f 0 ts = .ok (e, r))
    (hr : skipWs r = .comma :: r') :
    parseItems false (f+1) acc ts = parseItems false f (acc.snoc e) (skipWs r') := by
  simp [parseItems, h, hr]

theorem listExpr_single (f r e r1 r2 r3) (h : parseExpr false f 0 (skipWs r) = .ok (e, r1))
    (h1 : skipWs r1 = .comma :: r2) (h2 : skipWs r2 = .rp :: r3) :
    parseListExpr false (f+1) (.lp :: r) = .ok (.list (.cons e .nil), r3) := by
  simp [parseListExpr, h, h1, h2]; rfl

theorem listExpr_items (f r e r1 r2 items r4) (h : parseExpr false f 0 (skipWs r) = .ok (e, r1))
    (h1 : skipWs r1 = .comma :: r2) (h2 : notRpHead (skipWs r2) = true)
    (hi : parseItems false f (.cons e .nil) (skipWs r2) = .ok (items, r4)) :
    parseListExpr false (f+1) (.lp :: r) = .ok (.list items, r4) := by
  simp only [parseListExpr, h, h1, ok_bind]
  generalize skipWs r2 = s at *
  cases s with
  | nil => simp [hi]; rfl
  | cons t s' => cases t <;> simp [notRpHead] at h2 <;> simp [hi] <;> rfl

/-! ### parseCallArgs / parseNamedRest -/

def notNamedStart : List Tok → Bool
  | .ident _ :: .eqs :: _ => false
  | _ => true

theorem callArgs_named (f i n r e r1) (h : parseExpr false f 0 r = .ok (e, r1)) :
    parseCallArgs false (f+1) i (.ident n :: .eqs :: r)
      = parseNamedRest false f i (.cons (.named n e) .nil) r1 := by
  simp [parseCallArgs, h]

/-- the positional branch of `parseCallArgs` -/
theorem callArgs_pos (f i ts) (hn : notNamedStart ts = true) :
    parseCallArgs false (f+1) i ts =
      (do
        let (e, r1) ← parseExpr false f 0 ts
        match skipWs r1 with
        | .rp :: r2 => finishCall false i (.cons e .nil) r2
        | .comma :: r2 =>
            (match skipWs r2 with
             | .rp :: r3 => finishCall false i (.cons e .nil) r3
             | r3 => do
                 let (items, r4) ← parseItems false f (.cons e .nil) r3
                 finishCall false i items r4)
        | r2 => .error (failAt false r2)) := by
  rw [parseCallArgs]
  · rfl
  · intro n r hts
    subst hts
    simp [notNamedStart] at hn

theorem callArgs_single (f i ts e r1 r2) (hn : notNamedStart ts = true)
    (h : parseExpr false f 0 ts = .ok (e, r1)) (h1 : skipWs r1 = .rp :: r2) :
    parseCallArgs false (f+1) i ts = finishCall false i (.cons e .nil) r2 := by
  rw [callArgs_pos f i ts hn]; simp [h, h1]

theorem callArgs_items (f i ts e r1 r2 items r4) (hn : notNamedStart ts = true)
    (h : parseExpr false f 0 ts = .ok (e, r1)) (h1 : skipWs r1 = .comma :: r2)
    (h2 : notRpHead (skipWs r2) = true)
    (hi : parseItems false f (.cons e .nil) (skipWs r2) = .ok (items, r4)) :
    parseCallArgs false (f+1) i ts = finishCall false i items r4 := by
  rw [callArgs_pos f i ts hn]
  simp only [h, h1, ok_bind]
  generalize skipWs r2 = s at *
  cases s with
  | nil => simp [hi]
  | cons t s' => cases t <;> simp [notRpHead] at h2 <;> simp [hi]

theorem namedRest_end (f i acc ts r) (h : skipWs ts = .rp :: r) :
    parseNamedRest false (f+1) i acc ts = finishCall false i acc r := by
  simp [parseNamedRest, h]

theorem namedRest_more (f i acc ts r n r' e r1) (h : skipWs ts = .comma :: r)
    (h' : skipWs r = .ident n :: .eqs :: r') (he : parseExpr false f 0 r' = .ok (e, r1)) :
    parseNamedRest false (f+1) i acc ts = parseNamedRest false f i (acc.snoc (.named n e)) r1 := by
  simp [parseNamedRest, h, h', he]

/-! ### parsePath / parseLambda -/

theorem path_end (f i ts) (h : notSlashHead ts = true) :
    parsePath false (f+1) i ts = .ok (.ident i, ts) := by
  cases ts with
  | nil => simp [parsePath]
  | cons t r => cases t <;> simp [notSlashHead] at h <;> simp [parsePath]

theorem path_seg (f i j r tail r') (h : parsePath false f j r = .ok (tail, r')) :
    parsePath false (f+1) i (.slash :: .ident j :: r) = liftOutcome (pathCons i tail) r' := by
  simp [parsePath, h]

theorem path_any_none (f i r r') (h : skipWs r = .rp :: r') :
    parsePath false (f+1) i (.slash :: .any :: .lp :: r) = .ok (.coll (.ident i) .any .none, r') := by
  simp [parsePath, h]; rfl

theorem path_any_lam (f i r lam r2 r3) (hs : notRpHead (skipWs r) = true)
    (h : parseLambda false f (skipWs r) = .ok (lam, r2)) (h3 : skipWs r2 = .rp :: r3) :
    parsePath false (f+1) i (.slash :: .any :: .lp :: r) = .ok (.coll (.ident i) .any lam, r3) := by
  simp only [parsePath]
  generalize skipWs r = s at *
  cases s with
  | nil => simp [h, h3, expectRp]; rfl
  | cons t s' => cases t <;> simp [notRpHead] at hs <;> simp [h, h3, expectRp] <;> rfl

theorem path_all_lam (f i r lam r2 r3)
    (h : parseLambda false f (skipWs r) = .ok (lam, r2)) (h3 : skipWs r2 = .rp :: r3) :
    parsePath false (f+1) i (.slash :: .all :: .lp :: r) = .ok (.coll (.ident i) .all lam, r3) := by
  simp [parsePath, h, h3, expectRp]; rfl

theorem lambda_step (f v r r' body r'') (h : skipWs r = .colon :: r')
    (hb : parseExpr false f 0 (skipWs r') = .ok (body, r'')) :
    parseLambda false (f+1) (.ident v :: r) = .ok (.some v body, r'') := by
  simp [parseLambda, h, hb]; rfl

/-! ## §2 token shapes of the reference printer -/

theorem skipWs_of_noWs (ts : List Tok) (h : noWs ts = true) : skipWs ts = ts := by
  cases ts with
  | nil => rfl
  | cons t r => cases t <;> simp [noWs] at h <;> rfl

theorem skipWs_ws (b : Bool) (ts : List Tok) (h : noWs ts = true) : skipWs (ws? b ++ ts) = ts := by
  cases b
  · simpa [ws?] using skipWs_of_noWs ts h
  · simp [ws?, skipWs]

theorem noWs_of_headStart (ts : List Tok) (h : headStart ts = true) : noWs ts = true := by
  cases ts with
  | nil => rfl
  | cons t r => cases t <;> simp [headStart, startTok] at h <;> rfl

theorem notRp_of_headStart (ts : List Tok) (h : headStart ts = true) : notRpHead ts = true := by
  cases ts with
  | nil => rfl
  | cons t r => cases t <;> simp [headStart, startTok] at h <;> rfl

theorem headStart_append (a b : List Tok) (h : headStart a = true) : headStart (a ++ b) = true := by
  cases a with
  | nil => simp [headStart] at h
  | cons t r => simpa [headStart] using h

@[simp] theorem headStart_paren (sty : Style) (ts : List Tok) : headStart (paren sty ts) = true := by
  simp [paren, headStart, startTok]

theorem headStart_printList (sty : Style) (mode : Mode) : (xs : Exprs) → headStart (printList sty mode xs) = true
  | .nil => by simp [printList, headStart, startTok]
  | .cons a .nil => by simp [printList, headStart, startTok]
  | .cons a (.cons b t) => by simp [printList]

theorem headStart_printToks (sty : Style) (mode : Mode) : (e : Expr) → headStart (printToks sty mode e) = true
  | .ident i => by simp [printToks, headStart, startTok]
  | .attr o n => by
      rw [printToks]; exact headStart_append _ _ (headStart_printToks sty mode o)
  | .lit k v => by simp [printToks, headStart, startTok]
  | .list xs => by rw [printToks]; exact headStart_printList sty mode xs
  | .binop o l r => by
      rw [printToks, List.append_assoc]; apply headStart_append
      rw [operand]; split
      · simp
      · exact headStart_printToks sty mode l
  | .compare o l r => by
      cases o <;> (rw [printToks, List.append_assoc]; apply headStart_append; rw [operand]; split) <;>
        first | simp | exact headStart_printToks sty mode l
  | .boolop o l r => by
      rw [printToks, List.append_assoc]; apply headStart_append
      rw [operand]; split
      · simp
      · exact headStart_printToks sty mode l
  | .unary .not_ e => by simp [printToks, headStart, startTok]
  | .unary .neg e => by simp [printToks, headStart, startTok]
  | .named n e => by simp [printToks, headStart, startTok]
  | .call f .nil => by simp [printToks, headStart, startTok]
  | .call f (.cons a .nil) => by simp [printToks, headStart, startTok]
  | .call f (.cons a (.cons b t)) => by simp [printToks, headStart, startTok]
  | .coll ow op .none => by
      rw [printToks, List.append_assoc, List.append_assoc]
      exact headStart_append _ _ (headStart_printToks sty mode ow)
  | .coll ow op (.some v b) => by
      rw [printToks, List.append_assoc]
      exact headStart_append _ _ (headStart_printToks sty mode ow)

theorem printToks_length_pos (sty : Style) (mode : Mode) (e : Expr) : 1 ≤ (printToks sty mode e).length := by
  have h := headStart_printToks sty mode e
  cases hp : printToks sty mode e with
  | nil => rw [hp] at h; simp [headStart] at h
  | cons t r => simp

/-! ## §3 paths -/

def segToks : List Str → List Tok
  | [] => []
  | n :: ns => .slash :: .ident ⟨n, []⟩ :: segToks ns

def buildPath (i : Ident) (names : List Str) : Expr :=
  names.foldl (fun o n => .attr o n) (.ident i)

theorem segToks_append (a b : List Str) : segToks (a ++ b) = segToks a ++ segToks b := by
  induction a with
  | nil => rfl
  | cons n ns ih => simp [segToks, ih]

theorem segToks_length (a : List Str) : (segToks a).length = 2 * a.length := by
  induction a with
  | nil => rfl
  | cons n ns ih => simp [segToks, ih]; omega

theorem buildPath_snoc (i : Ident) (names : List Str) (n : Str) :
    buildPath i (names ++ [n]) = .attr (buildPath i names) n := by
  simp [buildPath, List.foldl_append]

theorem rootNs_foldl (o : Expr) (names : List Str) :
    rootNs (names.foldl (fun o n => Expr.attr o n) o) = rootNs o := by
  induction names generalizing o with
  | nil => rfl
  | cons n ns ih => simp [List.foldl, ih, rootNs]

theorem rootNs_buildPath (i : Ident) (names : List Str) : rootNs (buildPath i names) = i.ns := by
  simp [buildPath, rootNs_foldl, rootNs]

/-- a `pathOk` tree is a chain of segment names off an identifier, printed as such; a namespace on the
    root only with at most one segment -/
theorem pathOk_decomp (sty : Style) (mode : Mode) : (e : Expr) → pathOk e = true →
    ∃ i names, e = buildPath i names ∧ printToks sty mode e = .ident i :: segToks names ∧
      (names.length ≤ 1 ∨ i.ns = [])
  | .ident i, _ => ⟨i, [], rfl, by simp [printToks, segToks], Or.inl (by simp)⟩
  | .attr (.ident i) n, _ => ⟨i, [n], rfl, by simp [printToks, segToks], Or.inl (by simp)⟩
  | .attr (.attr o n) n2, h => by
      simp only [pathOk, Bool.and_eq_true, beq_iff_eq] at h
      obtain ⟨i, names, he, hp, _⟩ := pathOk_decomp sty mode (.attr o n) h.2
      refine ⟨i, names ++ [n2], ?_, ?_, Or.inr ?_⟩
      · rw [buildPath_snoc, ← he]
      · rw [printToks, hp, segToks_append]; simp [segToks]
      · have := rootNs_buildPath i names
        rw [← he] at this
        simpa [rootNs, h.1] using this.symm
  | .attr (.lit _ _) _, h => by simp [pathOk] at h
  | .attr (.list _) _, h => by simp [pathOk] at h
  | .attr (.binop _ _ _) _, h => by simp [pathOk] at h
  | .attr (.compare _ _ _) _, h => by simp [pathOk] at h
  | .attr (.boolop _ _ _) _, h => by simp [pathOk] at h
  | .attr (.unary _ _) _, h => by simp [pathOk] at h
  | .attr (.named _ _) _, h => by simp [pathOk] at h
  | .attr (.call _ _) _, h => by simp [pathOk] at h
  | .attr (.coll _ _ _) _, h => by simp [pathOk] at h
  | .lit _ _, h => by simp [pathOk] at h
  | .list _, h => by simp [pathOk] at h
  | .binop _ _ _, h => by simp [pathOk] at h
  | .compare _ _ _, h => by simp [pathOk] at h
  | .boolop _ _ _, h => by simp [pathOk] at h
  | .unary _ _, h => by simp [pathOk] at h
  | .named _ _, h => by simp [pathOk] at h
  | .call _ _, h => by simp [pathOk] at h
  | .coll _ _ _, h => by simp [pathOk] at h

theorem explodePath_foldl (o : Expr) (names : List Str) :
    explodePath (names.foldl (fun o n => Expr.attr o n) o) = (explodePath o).map (· ++ names) := by
  induction names generalizing o with
  | nil => cases h : explodePath o <;> simp [h]
  | cons n ns ih =>
      simp only [List.foldl, ih, explodePath]
      cases h : explodePath o <;> simp

theorem explodePath_buildPath (j : Ident) (names : List Str) :
    explodePath (buildPath j names) = some (j.name :: names) := by
  simp [buildPath, explodePath_foldl, explodePath]

/-- the result of the innermost `parsePath`: the path itself or a collection lambda on it -/
def wrap : Option (CollOp × OptLam) → Expr → Expr
  | none, e => e
  | some (op, lam), e => .coll e op lam

theorem buildPath_cons_attr (j : Ident) (n : Str) (ns : List Str) :
    ∃ X l, buildPath j (n :: ns) = .attr X l := by
  have key : ∀ (ns : List Str) (o : Expr) (n : Str),
      ∃ X l, ns.foldl (fun o n => Expr.attr o n) (.attr o n) = .attr X l := by
    intro ns
    induction ns with
    | nil => intro o n; exact ⟨o, n, rfl⟩
    | cons n2 ns ih => intro o n; exact ih (.attr o n) n2
  exact key ns (.ident j) n

theorem pathCons_build (w : Option (CollOp × OptLam)) (i : Ident) (n : Str) (ns : List Str)
    (h : ns = [] ∨ i.ns = []) :
    pathCons i (wrap w (buildPath ⟨n, []⟩ ns)) = .ok (wrap w (buildPath i (n :: ns))) := by
  cases ns with
  | nil => cases w with
    | none => rfl
    | some p => rfl
  | cons n2 ns2 =>
    have hi : i = ⟨i.name, []⟩ := by
      cases i with
      | mk nm nss => rcases h with h | h
                     · cases h
                     · simp at h; simp [h]
    obtain ⟨X, l, hX⟩ := buildPath_cons_attr ⟨n, []⟩ n2 ns2
    have hex := explodePath_buildPath ⟨n, []⟩ (n2 :: ns2)
    have hre : rebuildPath (i.name :: n :: n2 :: ns2) = some (buildPath i (n :: n2 :: ns2)) := by
      conv => rhs; rw [hi]
      rfl
    rw [hX] at hex
    cases w with
    | none =>
      simp only [wrap]
      rw [hX]
      simp only [pathCons, hex, hre]
    | some p =>
      obtain ⟨op, lam⟩ := p
      simp only [wrap]
      rw [hX]
      simp only [pathCons, hex, hre]

theorem parsePath_segs (w : Option (CollOp × OptLam)) (T rest' : List Tok) (N : Nat)
    (hin : ∀ j f, N ≤ f → parsePath false f j T = .ok (wrap w (.ident j), rest')) :
    ∀ (names : List Str) (i : Ident), (names.length ≤ 1 ∨ i.ns = []) →
      ∀ f, N + names.length ≤ f →
        parsePath false f i (segToks names ++ T) = .ok (wrap w (buildPath i names), rest') := by
  intro names
  induction names with
  | nil => intro i _ f hf; simpa [segToks, buildPath] using hin i f (by simpa using hf)
  | cons n ns ih =>
    intro i hi f hf
    obtain ⟨f', rfl⟩ : ∃ f', f = f' + 1 := ⟨f - 1, by simp at hf; omega⟩
    have h1 := ih ⟨n, []⟩ (Or.inr rfl) f' (by simp at hf; omega)
    simp only [segToks, List.cons_append]
    rw [path_seg _ _ _ _ _ _ h1, pathCons_build w i n ns]
    · rfl
    · rcases hi with hi | hi
      · left; cases ns with
        | nil => rfl
        | cons _ _ => simp at hi
      · exact Or.inr hi

/-! ## §4 calls -/

theorem joinDotsS_eq (l : List Str) : spellIdent.joinDotsS l = joinDots l := by
  induction l with
  | nil => rfl
  | cons x rest ih =>
    cases rest with
    | nil => rfl
    | cons y r => simp only [spellIdent.joinDotsS, joinDots, ih]

theorem spellIdent_eq (f : Ident) : spellIdent f = f.fullName := by
  simp [spellIdent, Ident.fullName, joinDotsS_eq]

theorem functionCall_of_callOk (f : Ident) (args : Exprs) (h : callOk f args.length = true) :
    functionCall f args = .ok (.call f args) := by
  by_cases hv : f.ns = [] ∨ f.ns = ["geo".toList]
  · unfold callOk at h
    rw [if_pos hv, spellIdent_eq] at h
    cases hn : arity f.fullName with
    | none => rw [hn] at h; simp at h
    | some p =>
      obtain ⟨lo, hi⟩ := p
      rw [hn] at h
      simp at h
      exact C11.accept f args lo hi hv hn h.1 h.2
  · exact C11.other_namespace_any_arity f args hv

theorem finishCall_ok (f : Ident) (args : Exprs) (rest : List Tok) (hf : followOk rest = true)
    (h : functionCall f args = .ok (.call f args)) :
    finishCall false f args rest = .ok (.call f args, rest) := by
  cases rest with
  | nil => simp [finishCall, h, liftOutcome]
  | cons t r =>
    have : isFollow t = true := by simpa [followOk] using hf
    simp [finishCall, this, h, liftOutcome]

/-- `acc` extended by `xs` through repeated `snoc` (what `parseItems` / `parseNamedRest` build) -/
def appendExprs : Exprs → Exprs → Exprs
  | acc, .nil => acc
  | acc, .cons a t => appendExprs (acc.snoc a) t

theorem appendExprs_cons (h : Expr) : (xs t : Exprs) →
    appendExprs (.cons h t) xs = .cons h (appendExprs t xs)
  | .nil, t => rfl
  | .cons a xs, t => by
      simp only [appendExprs, Exprs.snoc]
      exact appendExprs_cons h xs (t.snoc a)

theorem appendExprs_nil : (xs : Exprs) → appendExprs .nil xs = xs
  | .nil => rfl
  | .cons a xs => by
      simp only [appendExprs, Exprs.snoc]
      rw [appendExprs_cons, appendExprs_nil xs]

theorem appendExprs_single (e : Expr) (xs : Exprs) : appendExprs (.cons e .nil) xs = .cons e xs := by
  rw [appendExprs_cons, appendExprs_nil]

/-! ## §5 the core statement -/

def isBin : Expr → Bool
  | .binop _ _ _ | .compare _ _ _ | .boolop _ _ _ => true
  | _ => false

/-- the core statement: if the operator loop, started after `e` in front of `rest`, yields `R` for all
    large enough fuel, then so does `parseExpr` on the rendering of `e` followed by `rest` -/
def Core (sty : Style) (mode : Mode) (e : Expr) : Prop :=
  ∀ (m : Nat) (rest : List Tok) (R : Expr × List Tok) (N : Nat), 1 ≤ N →
    (isBin e = true → m ≤ level e) →
    stops (level e + 1) rest = true →
    followOk rest = true →
    (∀ f, N ≤ f → parseLoop false f m e rest = .ok R) →
    ∀ f, N + 4 * (printToks sty mode e).length ≤ f →
      parseExpr false f m (printToks sty mode e ++ rest) = .ok R

/-- prefix-level statement for trees whose top is not a binary operator -/
def Pre (sty : Style) (mode : Mode) (e : Expr) : Prop :=
  ∀ (rest : List Tok), stops (level e + 1) rest = true → followOk rest = true →
    ∀ f, 4 * (printToks sty mode e).length ≤ f + 1 →
      parsePrefix false f (printToks sty mode e ++ rest) = .ok (e, rest)

theorem core_of_pre {sty mode e} (h : Pre sty mode e) : Core sty mode e := by
  intro m rest R N hN _ hst hfo hloop f hf
  have hpos := printToks_length_pos sty mode e
  obtain ⟨f', rfl⟩ : ∃ f', f = f' + 1 := ⟨f - 1, by omega⟩
  rw [parseExpr_step _ _ _ _ _ (h rest hst hfo f' (by omega))]
  exact hloop f' (by omega)

theorem stops_mono {m m' : Nat} {ts : List Tok} (h : stops m ts = true) (hm : m ≤ m') : stops m' ts = true := by
  cases ts with
  | nil => rfl
  | cons t r => cases t <;> simp [stops] at h ⊢ <;> omega

@[simp] theorem length_ws (b : Bool) : (ws? b).length ≤ 1 := by cases b <;> simp [ws?]

/-- an operand, parenthesised or not -/
theorem operand_core {sty mode e} (he : Core sty mode e) (pl : Nat) (strict : Bool)
    (m : Nat) (rest : List Tok) (R : Expr × List Tok) (N : Nat) (hN : 1 ≤ N)
    (hfo : followOk rest = true)
    (hnp : needsParen mode pl strict e = false →
      (isBin e = true → m ≤ level e) ∧ stops (level e + 1) rest = true)
    (hloop : ∀ f, N ≤ f → parseLoop false f m e rest = .ok R) :
    ∀ f, N + 4 * (operand sty mode pl strict e).length ≤ f →
      parseExpr false f m (operand sty mode pl strict e ++ rest) = .ok R := by
  rw [operand]
  cases hp : needsParen mode pl strict e with
  | false =>
    simp only [Bool.false_eq_true, if_false]
    exact he m rest R N hN (hnp hp).1 (hnp hp).2 hfo hloop
  | true =>
    simp only [if_true]
    intro f hf
    simp only [paren, List.length_append, List.length_cons, List.length_nil] at hf
    obtain ⟨f1, rfl⟩ : ∃ f', f = f' + 3 := ⟨f - 3, by omega⟩
    have hin : parseExpr false f1 0 (printToks sty mode e ++ (ws? sty.insideParens ++ .rp :: rest))
        = .ok (e, ws? sty.insideParens ++ .rp :: rest) := by
      apply he 0 _ _ 1 (Nat.le_refl 1) (fun _ => Nat.zero_le _)
      · cases sty.insideParens <;> simp [ws?, stops]
      · cases sty.insideParens <;> simp [ws?, followOk, isFollow]
      · intro f hf
        obtain ⟨f', rfl⟩ : ∃ f', f = f' + 1 := ⟨f - 1, by omega⟩
        apply loop_stop
        cases sty.insideParens <;> simp [ws?, stops]
      · omega
    have hpar : parseParen false (f1+1) (printToks sty mode e ++ (ws? sty.insideParens ++ .rp :: rest))
        = .ok (e, rest) := paren_close _ _ _ _ _ hin (skipWs_ws _ _ rfl)
    have hpre : parsePrefix false (f1+2) (paren sty (printToks sty mode e) ++ rest) = .ok (e, rest) := by
      simp only [paren, List.append_assoc, List.cons_append, List.nil_append]
      rw [prefix_lp, skipWs_ws _ _ (noWs_of_headStart _ (headStart_append _ _ (headStart_printToks sty mode e)))]
      exact hpar
    rw [parseExpr_step _ _ _ _ _ hpre]
    exact hloop _ (by omega)


theorem level_le_nine (e : Expr) : level e ≤ 9 := by
  unfold level; split <;> omega

theorem needsParen_false_left {mode L e} (hL : L ≤ 9) (h : needsParen mode L false e = false) : L ≤ level e := by
  cases mode <;> simp [needsParen] at h <;> omega

theorem needsParen_false_right {mode L e} (hL : L ≤ 8) (h : needsParen mode L true e = false) : L < level e := by
  cases mode <;> simp [needsParen] at h <;> omega

theorem core_binary {sty mode} (t : Tok) (mk : Expr → Expr → Expr) (L : Nat) (l r : Expr)
    (hl : Core sty mode l) (hr : Core sty mode r) (hL : L ≤ 8)
    (hfolt : isFollow t = true)
    (hstt : ∀ k ts, L < k → stops k (t :: ts) = true)
    (hstep : ∀ f m lhs ts rhs r', m ≤ L → parseExpr false f (L+1) ts = .ok (rhs, r') →
        parseLoop false (f+1) m lhs (t :: ts) = parseLoop false f m (mk lhs rhs) r')
    (m : Nat) (rest : List Tok) (R : Expr × List Tok) (N : Nat) (hN : 1 ≤ N) (hm : m ≤ L)
    (hst : stops (L+1) rest = true) (hfo : followOk rest = true)
    (hloop : ∀ f, N ≤ f → parseLoop false f m (mk l r) rest = .ok R) :
    ∀ f, N + 4 * (operand sty mode L false l ++ t :: operand sty mode L true r).length ≤ f →
      parseExpr false f m (operand sty mode L false l ++ t :: (operand sty mode L true r ++ rest)) = .ok R := by
  intro f hf
  simp only [List.length_append, List.length_cons] at hf
  have hright : ∀ f, 1 + 4 * (operand sty mode L true r).length ≤ f →
      parseExpr false f (L+1) (operand sty mode L true r ++ rest) = .ok (r, rest) := by
    apply operand_core hr L true (L+1) rest (r, rest) 1 (Nat.le_refl 1) hfo
    · intro hnp
      have := needsParen_false_right hL hnp
      exact ⟨fun _ => this, stops_mono hst (by omega)⟩
    · intro f hf
      obtain ⟨f', rfl⟩ : ∃ f', f = f' + 1 := ⟨f - 1, by omega⟩
      exact loop_stop _ _ _ _ hst
  apply operand_core hl L false m (t :: (operand sty mode L true r ++ rest)) R
    (N + 4 * (operand sty mode L true r).length + 2) (by omega) (by simpa [followOk] using hfolt)
  · intro hnp
    have := needsParen_false_left (by omega) hnp
    exact ⟨fun _ => by omega, hstt _ _ (by omega)⟩
  · intro f hf
    obtain ⟨f', rfl⟩ : ∃ f', f = f' + 1 := ⟨f - 1, by omega⟩
    rw [hstep f' m l _ r rest hm (hright f' (by omega))]
    exact hloop f' (by omega)
  · omega


@[simp] theorem level_binop (o l r) : level (.binop o l r) = o.lvl := by cases o <;> rfl
@[simp] theorem level_boolop (o l r) : level (.boolop o l r) = o.lvl := by cases o <;> rfl
@[simp] theorem level_compare (o l r) : level (.compare o l r) = o.lvl := by cases o <;> rfl

theorem core_binop {sty mode} (o : ArithOp) (l r : Expr) (hl : Core sty mode l) (hr : Core sty mode r) :
    Core sty mode (.binop o l r) := by
  intro m rest R N hN hm hst hfo hloop f hf
  rw [printToks] at hf ⊢
  simp only [level_binop, isBin, forall_const] at hm hst hf ⊢
  simp only [List.append_assoc, List.cons_append, List.nil_append] at hf ⊢
  exact core_binary (.arith o) (.binop o) o.lvl l r hl hr (by cases o <;> simp [ArithOp.lvl]) rfl
    (fun k ts hk => by simpa [stops] using hk)
    (fun f m lhs ts rhs r' hm h => loop_arith f m lhs o ts rhs r' hm h)
    m rest R N hN hm hst hfo hloop f hf

theorem core_boolop {sty mode} (o : BoolOp) (l r : Expr) (hl : Core sty mode l) (hr : Core sty mode r) :
    Core sty mode (.boolop o l r) := by
  intro m rest R N hN hm hst hfo hloop f hf
  rw [printToks] at hf ⊢
  simp only [level_boolop, isBin, forall_const] at hm hst hf ⊢
  simp only [List.append_assoc, List.cons_append, List.nil_append] at hf ⊢
  exact core_binary (.bool o) (.boolop o) o.lvl l r hl hr (by cases o <;> simp [BoolOp.lvl]) rfl
    (fun k ts hk => by simpa [stops] using hk)
    (fun f m lhs ts rhs r' hm h => loop_bool f m lhs o ts rhs r' hm h)
    m rest R N hN hm hst hfo hloop f hf

theorem core_compare {sty mode} (o : CmpOp) (ho : o ≠ .in_) (l r : Expr) (hl : Core sty mode l) (hr : Core sty mode r) :
    Core sty mode (.compare o l r) := by
  intro m rest R N hN hm hst hfo hloop f hf
  have hp : printToks sty mode (.compare o l r) =
      operand sty mode o.lvl false l ++ .cmp o :: operand sty mode o.lvl true r := by
    cases o <;> first | exact absurd rfl ho | (rw [printToks] <;> simp [CmpOp.lvl])
  rw [hp] at hf ⊢
  simp only [level_compare, isBin, forall_const] at hm hst hf ⊢
  simp only [List.append_assoc, List.cons_append] at hf ⊢
  exact core_binary (.cmp o) (.compare o) o.lvl l r hl hr (by cases o <;> simp [CmpOp.lvl] <;> exact absurd rfl ho) rfl
    (fun k ts hk => by simpa [stops] using hk)
    (fun f m lhs ts rhs r' hm h => loop_cmp f m lhs o ts rhs r' ho hm h)
    m rest R N hN hm hst hfo hloop f hf


/-- `ts` starts with optional whitespace, `)` or `,` -/
def closer : List Tok → Bool
  | .ws :: _ | .rp :: _ | .comma :: _ => true
  | _ => false

@[simp] theorem closer_ws_rp (b : Bool) (r : List Tok) : closer (ws? b ++ .rp :: r) = true := by
  cases b <;> rfl
@[simp] theorem closer_ws_comma (b : Bool) (r : List Tok) : closer (ws? b ++ .comma :: r) = true := by
  cases b <;> rfl

theorem stops_of_closer {ts : List Tok} (h : closer ts = true) (m : Nat) : stops m ts = true := by
  cases ts with
  | nil => rfl
  | cons t r => cases t <;> simp [closer] at h <;> rfl

theorem followOk_of_closer {ts : List Tok} (h : closer ts = true) : followOk ts = true := by
  cases ts with
  | nil => rfl
  | cons t r => cases t <;> simp [closer] at h <;> rfl

theorem notLp_of_followOk {ts : List Tok} (h : followOk ts = true) : notLpHead ts = true := by
  cases ts with
  | nil => rfl
  | cons t r => cases t <;> simp [followOk, isFollow] at h <;> rfl

theorem notSlash_of_followOk {ts : List Tok} (h : followOk ts = true) : notSlashHead ts = true := by
  cases ts with
  | nil => rfl
  | cons t r => cases t <;> simp [followOk, isFollow] at h <;> rfl

/-- an item in a bracketed context: parsed at level 0 up to the closing token -/
theorem core_zero {sty mode a} (h : Core sty mode a) (rest : List Tok) (hc : closer rest = true) :
    ∀ f, 1 + 4 * (printToks sty mode a).length ≤ f →
      parseExpr false f 0 (printToks sty mode a ++ rest) = .ok (a, rest) := by
  apply h 0 rest (a, rest) 1 (Nat.le_refl 1) (fun _ => Nat.zero_le _) (stops_of_closer hc _)
    (followOk_of_closer hc)
  intro f hf
  obtain ⟨f', rfl⟩ : ∃ f', f = f' + 1 := ⟨f - 1, by omega⟩
  exact loop_stop _ _ _ _ (stops_of_closer hc _)

theorem pre_lit {sty mode} (k : LitKind) (v : Str) : Pre sty mode (.lit k v) := by
  intro rest _ _ f hf
  simp only [printToks, List.length_cons, List.length_nil] at hf
  obtain ⟨f', rfl⟩ : ∃ f', f = f' + 1 := ⟨f - 1, by omega⟩
  simp [printToks, prefix_lit]

theorem pre_path {sty mode} (e : Expr) (he : pathOk e = true) : Pre sty mode e := by
  intro rest _ hfo f hf
  obtain ⟨i, names, he, hp, hns⟩ := pathOk_decomp sty mode e he
  rw [hp] at hf ⊢
  simp only [List.length_cons, segToks_length] at hf
  obtain ⟨f', rfl⟩ : ∃ f', f = f' + 1 := ⟨f - 1, by omega⟩
  rw [List.cons_append, prefix_path]
  · have := parsePath_segs none rest rest 1
      (fun j f hf => by
        obtain ⟨f', rfl⟩ : ∃ f', f = f' + 1 := ⟨f - 1, by omega⟩
        exact path_end _ _ _ (notSlash_of_followOk hfo))
      names i hns f' (by omega)
    rw [this, he]; rfl
  · cases names with
    | nil => exact notLp_of_followOk hfo
    | cons n ns => rfl

theorem isBin_level {e : Expr} (h : isBin e = true) : level e ≤ 6 ∨ level e = 8 := by
  cases e <;> simp [isBin] at h
  case binop o l r => cases o <;> simp [ArithOp.lvl]
  case compare o l r => cases o <;> simp [CmpOp.lvl]
  case boolop o l r => cases o <;> simp [BoolOp.lvl]

theorem headStart_operand (sty : Style) (mode : Mode) (pl : Nat) (s : Bool) (e : Expr) :
    headStart (operand sty mode pl s e) = true := by
  rw [operand]; split
  · simp
  · exact headStart_printToks sty mode e

/-- the operand of a prefix operator is read at level 8 -/
theorem unary_operand {sty mode e} (he : Core sty mode e) (rest : List Tok)
    (hst : stops 8 rest = true) (hfo : followOk rest = true) :
    ∀ f, 1 + 4 * (operand sty mode 7 false e).length ≤ f →
      parseExpr false f 8 (operand sty mode 7 false e ++ rest) = .ok (e, rest) := by
  apply operand_core he 7 false 8 rest (e, rest) 1 (Nat.le_refl 1) hfo
  · intro hnp
    have h7 := needsParen_false_left (by omega) hnp
    refine ⟨fun hb => ?_, stops_mono hst (by omega)⟩
    have := isBin_level hb
    omega
  · intro f hf
    obtain ⟨f', rfl⟩ : ∃ f', f = f' + 1 := ⟨f - 1, by omega⟩
    exact loop_stop _ _ _ _ hst

theorem pre_not {sty mode e} (he : Core sty mode e) : Pre sty mode (.unary .not_ e) := by
  intro rest hst hfo f hf
  rw [printToks] at hf ⊢
  simp only [List.length_append, List.length_cons, List.length_nil] at hf
  obtain ⟨f', rfl⟩ : ∃ f', f = f' + 1 := ⟨f - 1, by omega⟩
  simp only [List.cons_append, List.nil_append]
  exact prefix_not _ _ _ _ (unary_operand he rest hst hfo f' (by omega))

theorem pre_neg {sty mode e} (he : Core sty mode e) : Pre sty mode (.unary .neg e) := by
  intro rest hst hfo f hf
  rw [printToks] at hf ⊢
  simp only [List.length_append, List.length_cons, List.length_nil] at hf
  obtain ⟨f', rfl⟩ : ∃ f', f = f' + 1 := ⟨f - 1, by omega⟩
  simp only [List.append_assoc, List.cons_append, List.nil_append]
  apply prefix_uminus
  rw [skipWs_ws _ _ (noWs_of_headStart _ (headStart_append _ _ (headStart_operand ..)))]
  exact unary_operand he rest hst hfo f' (by omega)


/-! ### lists and argument lists -/

/-- `parseItems` on the remaining items of a bracketed list -/
def ItemsP (sty : Style) (mode : Mode) (xs : Exprs) : Prop :=
  ∀ (acc : Exprs) (rest : List Tok) (f : Nat), 4 * (printArgs sty mode xs).length + 2 ≤ f →
    parseItems false f acc (printArgs sty mode xs ++ (ws? sty.insideParens ++ .rp :: rest))
      = .ok (appendExprs acc xs, rest)

theorem printArgs_cons2 (sty : Style) (mode : Mode) (a b : Expr) (t : Exprs) :
    printArgs sty mode (.cons a (.cons b t))
      = printToks sty mode a ++ (commaToks sty ++ printArgs sty mode (.cons b t)) := by
  simp [printArgs]

theorem headStart_printArgs (sty : Style) (mode : Mode) (b : Expr) (t : Exprs) :
    headStart (printArgs sty mode (.cons b t)) = true := by
  cases t with
  | nil => simpa [printArgs] using headStart_printToks sty mode b
  | cons c t' =>
    rw [printArgs_cons2]; exact headStart_append _ _ (headStart_printToks sty mode b)

theorem items_one {sty mode a} (ha : Core sty mode a) : ItemsP sty mode (.cons a .nil) := by
  intro acc rest f hf
  simp only [printArgs] at hf ⊢
  obtain ⟨f', rfl⟩ : ∃ f', f = f' + 1 := ⟨f - 1, by omega⟩
  exact items_last _ _ _ _ _ _ (core_zero ha _ (by simp) f' (by omega)) (skipWs_ws _ _ rfl)

theorem items_cons {sty mode a b t} (ha : Core sty mode a) (ht : ItemsP sty mode (.cons b t)) :
    ItemsP sty mode (.cons a (.cons b t)) := by
  intro acc rest f hf
  rw [printArgs_cons2] at hf ⊢
  simp only [commaToks, List.length_append, List.length_cons, List.length_nil] at hf
  obtain ⟨f', rfl⟩ : ∃ f', f = f' + 1 := ⟨f - 1, by omega⟩
  simp only [commaToks, List.append_assoc, List.cons_append, List.nil_append]
  rw [items_more _ _ _ _ _ _ (core_zero ha _ (by simp) f' (by omega)) (skipWs_ws _ _ rfl)]
  rw [skipWs_ws _ _ (noWs_of_headStart _ (headStart_append _ _ (headStart_printArgs ..)))]
  exact ht (acc.snoc a) rest f' (by omega)

/-- `parseListExpr` (the right operand of `in`) on a printed list -/
def ListP (sty : Style) (mode : Mode) (xs : Exprs) : Prop :=
  ∀ (rest : List Tok) (f : Nat), 4 * (printList sty mode xs).length ≤ f →
    parseListExpr false f (printList sty mode xs ++ rest) = .ok (.list xs, rest)

theorem listP_one {sty mode a} (ha : Core sty mode a) : ListP sty mode (.cons a .nil) := by
  intro rest f hf
  simp only [printList, List.length_append, List.length_cons, List.length_nil] at hf
  obtain ⟨f', rfl⟩ : ∃ f', f = f' + 1 := ⟨f - 1, by omega⟩
  simp only [printList, List.append_assoc, List.cons_append, List.nil_append]
  apply listExpr_single (r1 := ws? sty.beforeComma ++ .comma :: (ws? sty.insideParens ++ .rp :: rest))
  · rw [skipWs_ws _ _ (noWs_of_headStart _ (headStart_append _ _ (headStart_printToks ..)))]
    exact core_zero ha _ (by simp) f' (by omega)
  · exact skipWs_ws _ _ rfl
  · exact skipWs_ws _ _ rfl

theorem listP_many {sty mode a b t} (ha : Core sty mode a) (ht : ItemsP sty mode (.cons b t)) :
    ListP sty mode (.cons a (.cons b t)) := by
  intro rest f hf
  simp only [printList, paren, printArgs_cons2, commaToks, List.length_append, List.length_cons,
    List.length_nil] at hf
  obtain ⟨f', rfl⟩ : ∃ f', f = f' + 1 := ⟨f - 1, by omega⟩
  simp only [printList, paren, printArgs_cons2, commaToks, List.append_assoc, List.cons_append,
    List.nil_append]
  apply listExpr_items
    (r1 := ws? sty.beforeComma ++ .comma :: (ws? sty.afterComma ++
      (printArgs sty mode (.cons b t) ++ (ws? sty.insideParens ++ .rp :: rest))))
    (e := a)
  · rw [skipWs_ws _ _ (noWs_of_headStart _ (headStart_append _ _ (headStart_printToks ..)))]
    exact core_zero ha _ (by simp) f' (by omega)
  · exact skipWs_ws _ _ rfl
  · rw [skipWs_ws _ _ (noWs_of_headStart _ (headStart_append _ _ (headStart_printArgs ..)))]
    exact notRp_of_headStart _ (headStart_append _ _ (headStart_printArgs ..))
  · rw [skipWs_ws _ _ (noWs_of_headStart _ (headStart_append _ _ (headStart_printArgs ..)))]
    rw [ht (.cons a .nil) rest f' (by omega), appendExprs_single]

theorem pre_list_one {sty mode a} (ha : Core sty mode a) : Pre sty mode (.list (.cons a .nil)) := by
  intro rest _ _ f hf
  simp only [printToks, printList, List.length_append, List.length_cons, List.length_nil] at hf
  obtain ⟨f', rfl⟩ : ∃ f', f = f' + 2 := ⟨f - 2, by omega⟩
  simp only [printToks, printList, List.append_assoc, List.cons_append, List.nil_append]
  rw [prefix_lp, skipWs_ws _ _ (noWs_of_headStart _ (headStart_append _ _ (headStart_printToks ..)))]
  exact paren_single _ _ _ _ _ _ (core_zero ha _ (by simp) f' (by omega)) (skipWs_ws _ _ rfl)
    (skipWs_ws _ _ rfl)

theorem pre_list_many {sty mode a b t} (ha : Core sty mode a) (ht : ItemsP sty mode (.cons b t)) :
    Pre sty mode (.list (.cons a (.cons b t))) := by
  intro rest _ _ f hf
  simp only [printToks, printList, paren, printArgs_cons2, commaToks, List.length_append,
    List.length_cons, List.length_nil] at hf
  obtain ⟨f', rfl⟩ : ∃ f', f = f' + 2 := ⟨f - 2, by omega⟩
  simp only [printToks, printList, paren, printArgs_cons2, commaToks, List.append_assoc,
    List.cons_append, List.nil_append]
  rw [prefix_lp, skipWs_ws _ _ (noWs_of_headStart _ (headStart_append _ _ (headStart_printToks ..)))]
  apply paren_items (e := a)
    (r := ws? sty.beforeComma ++ .comma :: (ws? sty.afterComma ++
      (printArgs sty mode (.cons b t) ++ (ws? sty.insideParens ++ .rp :: rest))))
  · exact core_zero ha _ (by simp) f' (by omega)
  · exact skipWs_ws _ _ rfl
  · rw [skipWs_ws _ _ (noWs_of_headStart _ (headStart_append _ _ (headStart_printArgs ..)))]
    exact notRp_of_headStart _ (headStart_append _ _ (headStart_printArgs ..))
  · rw [skipWs_ws _ _ (noWs_of_headStart _ (headStart_append _ _ (headStart_printArgs ..)))]
    rw [ht (.cons a .nil) rest f' (by omega), appendExprs_single]

theorem core_in {sty mode l xs} (hl : Core sty mode l) (hx : ListP sty mode xs) :
    Core sty mode (.compare .in_ l (.list xs)) := by
  intro m rest R N hN hm _ _ hloop f hf
  rw [printToks] at hf ⊢
  have hm8 : m ≤ 8 := by simpa [isBin, CmpOp.lvl] using hm
  simp only [printToks, List.length_append, List.length_cons, List.length_nil] at hf
  simp only [printToks, List.append_assoc, List.cons_append, List.nil_append]
  apply operand_core hl 8 false m _ R (N + 4 * (printList sty mode xs).length + 1) (by omega) rfl
  · intro hnp
    have := needsParen_false_left (by omega) hnp
    refine ⟨fun _ => by omega, ?_⟩
    have h8 : CmpOp.in_.lvl < level l + 1 := by simp only [CmpOp.lvl]; omega
    simpa [stops] using h8
  · intro f hf
    obtain ⟨f', rfl⟩ : ∃ f', f = f' + 1 := ⟨f - 1, by omega⟩
    rw [loop_in _ _ _ _ _ _ hm8 (hx rest f' (by omega))]
    exact hloop f' (by omega)
  · omega


/-! ### calls -/

/-- a positional argument cannot look like the start of a named parameter (semantic argument: the
    parser would read `IDENT =` as the bare identifier) -/
theorem notNamed_of_core {sty mode a} (ha : Core sty mode a) (rest : List Tok) (hc : closer rest = true) :
    notNamedStart (printToks sty mode a ++ rest) = true := by
  cases hts : printToks sty mode a ++ rest with
  | nil => rfl
  | cons t r =>
    cases t with
    | ident n =>
      cases r with
      | nil => rfl
      | cons t2 r2 =>
        cases t2 with
        | eqs =>
          exfalso
          have h1 := core_zero ha rest hc (4 + 4 * (printToks sty mode a).length) (by omega)
          rw [hts] at h1
          have h2 : parseExpr false (4 + 4 * (printToks sty mode a).length) 0 (.ident n :: .eqs :: r2)
              = .ok (.ident n, .eqs :: r2) := by
            obtain ⟨k, hk⟩ : ∃ k, 4 + 4 * (printToks sty mode a).length = k + 3 := ⟨1 + 4 * (printToks sty mode a).length, by omega⟩
            rw [hk]
            simp [parseExpr, parsePrefix, parsePath, parseLoop]
          rw [h2] at h1
          injection h1 with h1
          injection h1 with _ h1
          rw [← h1] at hc
          simp [closer] at hc
        | _ => rfl
    | _ => rfl

theorem notRp_ws (b : Bool) (X : List Tok) (h : headStart X = true) : notRpHead (ws? b ++ X) = true := by
  cases b
  · exact notRp_of_headStart _ h
  · rfl

theorem pre_call_nil {sty mode} (fn : Ident) (hc : callOk fn 0 = true) : Pre sty mode (.call fn .nil) := by
  intro rest _ hfo f hf
  simp only [printToks, List.length_cons, List.length_nil] at hf
  obtain ⟨f', rfl⟩ : ∃ f', f = f' + 1 := ⟨f - 1, by omega⟩
  simp only [printToks, List.cons_append, List.nil_append]
  rw [prefix_call_nil]
  exact finishCall_ok _ _ _ hfo (functionCall_of_callOk fn .nil hc)

theorem pre_call_one {sty mode a} (fn : Ident) (ha : Core sty mode a) (hc : callOk fn 1 = true) :
    Pre sty mode (.call fn (.cons a .nil)) := by
  intro rest _ hfo f hf
  simp only [printToks, paren, List.length_append, List.length_cons, List.length_nil] at hf
  obtain ⟨f', rfl⟩ : ∃ f', f = f' + 2 := ⟨f - 2, by omega⟩
  simp only [printToks, paren, List.append_assoc, List.cons_append, List.nil_append]
  have hs : headStart (printToks sty mode a ++ (ws? sty.insideParens ++ .rp :: rest)) = true :=
    headStart_append _ _ (headStart_printToks ..)
  rw [prefix_call_args, skipWs_ws _ _ (noWs_of_headStart _ hs)]
  · rw [callArgs_single _ _ _ _ _ _ (notNamed_of_core ha _ (by simp))
      (core_zero ha _ (by simp) f' (by omega)) (skipWs_ws _ _ rfl)]
    exact finishCall_ok _ _ _ hfo (functionCall_of_callOk fn _ hc)
  · exact notRp_ws _ _ hs

theorem pre_call_many {sty mode a b t} (fn : Ident) (ha : Core sty mode a)
    (ht : ItemsP sty mode (.cons b t)) (hc : callOk fn (Exprs.length (.cons a (.cons b t))) = true) :
    Pre sty mode (.call fn (.cons a (.cons b t))) := by
  intro rest _ hfo f hf
  simp only [printToks, paren, printArgs_cons2, commaToks, List.length_append, List.length_cons,
    List.length_nil] at hf
  obtain ⟨f', rfl⟩ : ∃ f', f = f' + 2 := ⟨f - 2, by omega⟩
  simp only [printToks, paren, printArgs_cons2, commaToks, List.append_assoc, List.cons_append,
    List.nil_append]
  have hs : ∀ X, headStart (printToks sty mode a ++ X) = true :=
    fun X => headStart_append _ _ (headStart_printToks ..)
  have hs2 : ∀ X, headStart (printArgs sty mode (.cons b t) ++ X) = true :=
    fun X => headStart_append _ _ (headStart_printArgs ..)
  rw [prefix_call_args, skipWs_ws _ _ (noWs_of_headStart _ (hs _))]
  · rw [callArgs_items (e := a) (items := .cons a (.cons b t)) (r4 := rest)
      (r1 := ws? sty.beforeComma ++ .comma :: (ws? sty.afterComma ++
        (printArgs sty mode (.cons b t) ++ (ws? sty.insideParens ++ .rp :: rest))))
      (r2 := ws? sty.afterComma ++
        (printArgs sty mode (.cons b t) ++ (ws? sty.insideParens ++ .rp :: rest)))]
    · exact finishCall_ok _ _ _ hfo (functionCall_of_callOk fn _ hc)
    · exact notNamed_of_core ha _ (by simp)
    · exact core_zero ha _ (by simp) f' (by omega)
    · exact skipWs_ws _ _ rfl
    · rw [skipWs_ws _ _ (noWs_of_headStart _ (hs2 _))]
      exact notRp_of_headStart _ (hs2 _)
    · rw [skipWs_ws _ _ (noWs_of_headStart _ (hs2 _))]
      rw [ht (.cons a .nil) rest f' (by omega), appendExprs_single]
  · exact notRp_ws _ _ (hs _)


/-- `parseNamedRest` on the remaining named parameters (each preceded by its comma) -/
def NamedP (sty : Style) (mode : Mode) (xs : Exprs) : Prop :=
  ∀ (i : Ident) (acc : Exprs) (rest : List Tok), followOk rest = true →
    functionCall i (appendExprs acc xs) = .ok (.call i (appendExprs acc xs)) →
    ∀ f, 4 * (printArgs sty mode xs).length + 2 ≤ f →
      parseNamedRest false f i acc
        (commaToks sty ++ (printArgs sty mode xs ++ (ws? sty.insideParens ++ .rp :: rest)))
        = .ok (.call i (appendExprs acc xs), rest)

theorem named_one {sty mode e} (n : Ident) (he : Core sty mode e) :
    NamedP sty mode (.cons (.named n e) .nil) := by
  intro i acc rest hfo hcall f hf
  simp only [printArgs, printToks, List.length_append, List.length_cons, List.length_nil] at hf
  obtain ⟨f', rfl⟩ : ∃ f', f = f' + 2 := ⟨f - 2, by omega⟩
  simp only [printArgs, printToks, commaToks, List.append_assoc, List.cons_append, List.nil_append]
  rw [namedRest_more _ _ _ _ _ _ _ _ _ (skipWs_ws _ _ rfl) (skipWs_ws _ _ rfl)
    (core_zero he _ (by simp) (f'+1) (by omega))]
  rw [namedRest_end _ _ _ _ _ (skipWs_ws _ _ rfl)]
  exact finishCall_ok _ _ _ hfo hcall

theorem named_cons {sty mode e b t} (n : Ident) (he : Core sty mode e)
    (ht : NamedP sty mode (.cons b t)) : NamedP sty mode (.cons (.named n e) (.cons b t)) := by
  intro i acc rest hfo hcall f hf
  simp only [printArgs_cons2, printToks, commaToks, List.length_append, List.length_cons,
    List.length_nil] at hf
  obtain ⟨f', rfl⟩ : ∃ f', f = f' + 1 := ⟨f - 1, by omega⟩
  simp only [printArgs_cons2, printToks, commaToks, List.append_assoc, List.cons_append,
    List.nil_append]
  rw [namedRest_more _ _ _ _ _ _ _ _ _ (skipWs_ws _ _ rfl) (skipWs_ws _ _ rfl)
    (core_zero he _ (by simp) f' (by omega))]
  have := ht i (acc.snoc (.named n e)) rest hfo hcall f' (by omega)
  simp only [commaToks, List.append_assoc, List.cons_append, List.nil_append] at this
  exact this

theorem pre_call_one_named {sty mode e} (fn n : Ident) (he : Core sty mode e) (hc : callOk fn 1 = true) :
    Pre sty mode (.call fn (.cons (.named n e) .nil)) := by
  intro rest _ hfo f hf
  simp only [printToks, paren, List.length_append, List.length_cons, List.length_nil] at hf
  obtain ⟨f', rfl⟩ : ∃ f', f = f' + 3 := ⟨f - 3, by omega⟩
  simp only [printToks, paren, List.append_assoc, List.cons_append, List.nil_append]
  rw [prefix_call_args _ _ _ (notRp_ws _ _ rfl), skipWs_ws _ _ rfl]
  rw [callArgs_named _ _ _ _ _ _ (core_zero he _ (by simp) (f'+1) (by omega))]
  rw [namedRest_end _ _ _ _ _ (skipWs_ws _ _ rfl)]
  exact finishCall_ok _ _ _ hfo (functionCall_of_callOk fn _ hc)

theorem pre_call_many_named {sty mode e b t} (fn n : Ident) (he : Core sty mode e)
    (ht : NamedP sty mode (.cons b t))
    (hc : callOk fn (Exprs.length (.cons (.named n e) (.cons b t))) = true) :
    Pre sty mode (.call fn (.cons (.named n e) (.cons b t))) := by
  intro rest _ hfo f hf
  simp only [printToks, paren, printArgs_cons2, commaToks, List.length_append, List.length_cons,
    List.length_nil] at hf
  obtain ⟨f', rfl⟩ : ∃ f', f = f' + 2 := ⟨f - 2, by omega⟩
  simp only [printToks, paren, printArgs_cons2, commaToks, List.append_assoc, List.cons_append,
    List.nil_append]
  rw [prefix_call_args _ _ _ (notRp_ws _ _ rfl), skipWs_ws _ _ rfl]
  rw [callArgs_named _ _ _ _ _ _ (core_zero he _ (by simp) f' (by omega))]
  have := ht fn (.cons (.named n e) .nil) rest hfo
    (by rw [appendExprs_single]; exact functionCall_of_callOk fn _ hc) f' (by omega)
  rw [appendExprs_single] at this
  simpa only [commaToks, List.append_assoc, List.cons_append, List.nil_append] using this


/-! ### collection lambdas -/

theorem pre_coll_none {sty mode} (ow : Expr) (how : pathOk ow = true) :
    Pre sty mode (.coll ow .any .none) := by
  intro rest _ _ f hf
  obtain ⟨i, names, he, hp, hns⟩ := pathOk_decomp sty mode ow how
  rw [printToks, hp] at hf ⊢
  simp only [List.length_append, List.length_cons, List.length_nil, segToks_length] at hf
  obtain ⟨f', rfl⟩ : ∃ f', f = f' + 1 := ⟨f - 1, by omega⟩
  simp only [if_true, List.append_assoc, List.cons_append, List.nil_append]
  rw [prefix_path]
  · have := parsePath_segs (some (.any, .none))
      (.slash :: .any :: .lp :: (ws? sty.insideParens ++ .rp :: rest)) rest 1
      (fun j f hf => by
        obtain ⟨f', rfl⟩ : ∃ f', f = f' + 1 := ⟨f - 1, by omega⟩
        exact path_any_none _ _ _ _ (skipWs_ws sty.insideParens (.rp :: rest) rfl))
      names i hns f' (by omega)
    rw [this, he]; rfl
  · cases names <;> rfl

theorem lambda_ok {sty mode b} (hb : Core sty mode b) (v : Ident) (rest : List Tok) :
    ∀ f, 2 + 4 * (printToks sty mode b).length ≤ f →
      parseLambda false f (.ident v :: (ws? sty.beforeColon ++ .colon :: (ws? sty.afterColon ++
        (printToks sty mode b ++ (ws? sty.insideParens ++ .rp :: rest)))))
      = .ok (.some v b, ws? sty.insideParens ++ .rp :: rest) := by
  intro f hf
  obtain ⟨f', rfl⟩ : ∃ f', f = f' + 1 := ⟨f - 1, by omega⟩
  apply lambda_step _ _ _ _ _ _ (skipWs_ws _ _ rfl)
  rw [skipWs_ws _ _ (noWs_of_headStart _ (headStart_append _ _ (headStart_printToks ..)))]
  exact core_zero hb _ (by simp) f' (by omega)

theorem pre_coll_some {sty mode b} (ow : Expr) (op : CollOp) (v : Ident) (how : pathOk ow = true)
    (hb : Core sty mode b) : Pre sty mode (.coll ow op (.some v b)) := by
  intro rest _ _ f hf
  obtain ⟨i, names, he, hp, hns⟩ := pathOk_decomp sty mode ow how
  rw [printToks, hp] at hf ⊢
  simp only [paren, List.length_append, List.length_cons, List.length_nil, segToks_length] at hf
  obtain ⟨f', rfl⟩ : ∃ f', f = f' + 1 := ⟨f - 1, by omega⟩
  simp only [paren, List.append_assoc, List.cons_append, List.nil_append]
  rw [prefix_path]
  · have := parsePath_segs (some (op, .some v b))
      (.slash :: (if op = .any then Tok.any else Tok.all) :: .lp :: (ws? sty.insideParens ++
        .ident v :: (ws? sty.beforeColon ++ .colon :: (ws? sty.afterColon ++
          (printToks sty mode b ++ (ws? sty.insideParens ++ .rp :: rest))))))
      rest (3 + 4 * (printToks sty mode b).length)
      (fun j f hf => by
        obtain ⟨f', rfl⟩ : ∃ f', f = f' + 1 := ⟨f - 1, by omega⟩
        have hl := lambda_ok hb v rest f' (by omega)
        cases op with
        | any =>
          simp only [if_true]
          refine path_any_lam _ _ _ _ _ _ ?_ ?_ (skipWs_ws sty.insideParens (.rp :: rest) rfl)
          · rw [skipWs_ws _ _ rfl]; rfl
          · rw [skipWs_ws _ _ rfl]; exact hl
        | all =>
          simp only [reduceCtorEq, if_false]
          refine path_all_lam _ _ _ _ _ _ ?_ (skipWs_ws sty.insideParens (.rp :: rest) rfl)
          rw [skipWs_ws _ _ rfl]; exact hl)
      names i hns f' (by omega)
    rw [this, he]; rfl
  · cases names <;> rfl


/-! ## §6 assembly -/

/-- what the recursion provides for a call argument that is a named parameter -/
def PayloadCore (sty : Style) (mode : Mode) : Expr → Prop
  | .named _ e => printable e = true → Core sty mode e
  | _ => True

theorem named_any {sty mode} (a : Expr) (t : Exprs) (hp : PayloadCore sty mode a)
    (ht : printableNamed t = true → NamedP sty mode t) (h : printableNamed (.cons a t) = true) :
    NamedP sty mode (.cons a t) := by
  cases a with
  | named n e =>
    cases t with
    | nil => exact named_one n (hp (by simpa [printableNamed] using h))
    | cons b t' =>
      simp only [printableNamed, Bool.and_eq_true] at h
      exact named_cons n (hp h.1) (ht h.2)
  | _ => cases t <;> simp [printableNamed] at h

theorem call_any {sty mode} (fn : Ident) (a : Expr) (t : Exprs)
    (hpos : printable a = true → Core sty mode a) (hp : PayloadCore sty mode a)
    (hitems : printableArgs t = true → 1 ≤ t.length → ItemsP sty mode t)
    (hnamed : printableNamed t = true → NamedP sty mode t)
    (h : printable (.call fn (.cons a t)) = true) : Core sty mode (.call fn (.cons a t)) := by
  simp only [printable, Bool.and_eq_true, Bool.or_eq_true, printableArgs] at h
  obtain ⟨hc, h | h⟩ := h
  · cases t with
    | nil => exact core_of_pre (pre_call_one fn (hpos h.1) hc)
    | cons b t' => exact core_of_pre (pre_call_many fn (hpos h.1) (hitems h.2 (by simp [Exprs.length])) hc)
  · cases a with
    | named n e =>
      cases t with
      | nil => exact core_of_pre (pre_call_one_named fn n (hp (by simpa [printableNamed] using h)) hc)
      | cons b t' =>
        simp only [printableNamed, Bool.and_eq_true] at h
        exact core_of_pre (pre_call_many_named fn n (hp h.1) (hnamed h.2) hc)
    | _ => cases t <;> simp [printableNamed] at h

variable (sty : Style) (mode : Mode)

mutual
theorem core : (e : Expr) → printable e = true → Core sty mode e
  | .ident i, _ => core_of_pre (pre_path _ rfl)
  | .attr o n, h => core_of_pre (pre_path _ (by simpa [printable] using h))
  | .lit k v, _ => core_of_pre (pre_lit k v)
  | .list .nil, h => by simp [printable, Exprs.length] at h
  | .list (.cons a .nil), h =>
      core_of_pre (pre_list_one (core a (by simpa [printable, printableArgs, Exprs.length] using h)))
  | .list (.cons a (.cons b t)), h =>
      have h' : printable a = true ∧ printableArgs (.cons b t) = true := by
        simpa [printable, printableArgs, Exprs.length] using h
      core_of_pre (pre_list_many (core a h'.1) (coreItems (.cons b t) h'.2 (by simp [Exprs.length])))
  | .binop o l r, h =>
      have h' : printable l = true ∧ printable r = true := by simpa [printable] using h
      core_binop o l r (core l h'.1) (core r h'.2)
  | .boolop o l r, h =>
      have h' : printable l = true ∧ printable r = true := by simpa [printable] using h
      core_boolop o l r (core l h'.1) (core r h'.2)
  | .compare .eq l r, h =>
      have h' : printable l = true ∧ printable r = true := by simpa [printable] using h
      core_compare .eq (by decide) l r (core l h'.1) (core r h'.2)
  | .compare .ne l r, h =>
      have h' : printable l = true ∧ printable r = true := by simpa [printable] using h
      core_compare .ne (by decide) l r (core l h'.1) (core r h'.2)
  | .compare .lt l r, h =>
      have h' : printable l = true ∧ printable r = true := by simpa [printable] using h
      core_compare .lt (by decide) l r (core l h'.1) (core r h'.2)
  | .compare .le l r, h =>
      have h' : printable l = true ∧ printable r = true := by simpa [printable] using h
      core_compare .le (by decide) l r (core l h'.1) (core r h'.2)
  | .compare .gt l r, h =>
      have h' : printable l = true ∧ printable r = true := by simpa [printable] using h
      core_compare .gt (by decide) l r (core l h'.1) (core r h'.2)
  | .compare .ge l r, h =>
      have h' : printable l = true ∧ printable r = true := by simpa [printable] using h
      core_compare .ge (by decide) l r (core l h'.1) (core r h'.2)
  | .compare .in_ l (.list xs), h =>
      have h' : printable l = true ∧ 1 ≤ xs.length ∧ printableArgs xs = true := by
        simpa [printable] using h
      core_in (core l h'.1) (coreList xs h'.2.2 h'.2.1)
  | .compare .in_ _ (.ident _), h => by simp [printable] at h
  | .compare .in_ _ (.attr _ _), h => by simp [printable] at h
  | .compare .in_ _ (.lit _ _), h => by simp [printable] at h
  | .compare .in_ _ (.binop _ _ _), h => by simp [printable] at h
  | .compare .in_ _ (.compare _ _ _), h => by simp [printable] at h
  | .compare .in_ _ (.boolop _ _ _), h => by simp [printable] at h
  | .compare .in_ _ (.unary _ _), h => by simp [printable] at h
  | .compare .in_ _ (.named _ _), h => by simp [printable] at h
  | .compare .in_ _ (.call _ _), h => by simp [printable] at h
  | .compare .in_ _ (.coll _ _ _), h => by simp [printable] at h
  | .unary .not_ e, h => core_of_pre (pre_not (core e (by simpa [printable] using h)))
  | .unary .neg e, h => core_of_pre (pre_neg (core e (by simpa [printable] using h)))
  | .named _ _, h => by simp [printable] at h
  | .call fn .nil, h =>
      core_of_pre (pre_call_nil fn (by simpa [printable, printableArgs, Exprs.length] using h))
  | .call fn (.cons a t), h =>
      call_any fn a t (fun hp => core a hp) (corePayload a) (fun h1 h2 => coreItems t h1 h2)
        (fun h1 => coreNamed t h1) h
  | .coll ow .any .none, h => core_of_pre (pre_coll_none ow (by simpa [printable] using h))
  | .coll ow .all .none, h => by simp [printable] at h
  | .coll ow op (.some v b), h =>
      have h' : pathOk ow = true ∧ printable b = true := by simpa [printable] using h
      core_of_pre (pre_coll_some ow op v h'.1 (core b h'.2))
theorem corePayload : (a : Expr) → PayloadCore sty mode a
  | .named _ e => fun hp => core e hp
  | .ident _ => trivial
  | .attr _ _ => trivial
  | .lit _ _ => trivial
  | .list _ => trivial
  | .binop _ _ _ => trivial
  | .compare _ _ _ => trivial
  | .boolop _ _ _ => trivial
  | .unary _ _ => trivial
  | .call _ _ => trivial
  | .coll _ _ _ => trivial
theorem coreItems : (xs : Exprs) → printableArgs xs = true → 1 ≤ xs.length → ItemsP sty mode xs
  | .nil, _, h => by simp [Exprs.length] at h
  | .cons a .nil, h, _ => items_one (core a (by simpa [printableArgs] using h))
  | .cons a (.cons b t), h, _ =>
      have h' : printable a = true ∧ printableArgs (.cons b t) = true := by
        simpa [printableArgs] using h
      items_cons (core a h'.1) (coreItems (.cons b t) h'.2 (by simp [Exprs.length]))
theorem coreList : (xs : Exprs) → printableArgs xs = true → 1 ≤ xs.length → ListP sty mode xs
  | .nil, _, h => by simp [Exprs.length] at h
  | .cons a .nil, h, _ => listP_one (core a (by simpa [printableArgs] using h))
  | .cons a (.cons b t), h, _ =>
      have h' : printable a = true ∧ printableArgs (.cons b t) = true := by
        simpa [printableArgs] using h
      listP_many (core a h'.1) (coreItems (.cons b t) h'.2 (by simp [Exprs.length]))
theorem coreNamed : (xs : Exprs) → printableNamed xs = true → NamedP sty mode xs
  | .nil, h => by simp [printableNamed] at h
  | .cons a t, h => named_any a t (corePayload a) (fun h1 => coreNamed t h1) h
end


end OQ.Pratt
