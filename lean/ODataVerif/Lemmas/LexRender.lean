/- Lemmas/LexRender.lean — helper lemmas for Props/C13Text.lean (character-level lexing of rendered OData tokens):
   every scanner of the lexer behaves on `s ++ d :: rest` (d a delimiter) as on `s`. -/
import ODataVerif.Model.Lexer
import ODataVerif.Spec.RefPrinter
import ODataVerif.Lemmas.Totality
namespace OQ.LexRender
open Spec
set_option linter.unusedSimpArgs false
set_option linter.unusedVariables false

/-- extend the unread rest of a scanner result -/
def ext {α : Type} (x : Option (α × List Char)) (tl : List Char) : Option (α × List Char) :=
  x.map (fun p => (p.1, p.2 ++ tl))

@[simp] theorem ext_none {α : Type} (tl : List Char) : ext (none : Option (α × List Char)) tl = none := rfl
@[simp] theorem ext_some {α : Type} (x : α × List Char) (tl : List Char) : ext (some x) tl = some (x.1, x.2 ++ tl) := rfl

section
variable (env : CharEnv)

theorem kw_ext (d : Char) (rest : List Char) : ∀ (w s : List Char), (∀ p ∈ w, ciChar env p d = false) →
    kw env w (s ++ d :: rest) = ext (kw env w s) (d :: rest)
  | [], s, _ => by simp [kw]
  | p :: ps, [], h => by simp [kw, h]
  | p :: ps, c :: cs, h => by
      simp only [kw, List.cons_append]
      split
      · rw [kw_ext d rest ps cs (fun q hq => h q (List.mem_cons_of_mem _ hq))]
        cases kw env ps cs with
        | none => simp
        | some x => simp
      · simp

theorem span_ext (p : Char → Bool) (d : Char) (rest : List Char) (hd : p d = false) : ∀ s : List Char,
    span p (s ++ d :: rest) = ((span p s).1, (span p s).2 ++ d :: rest)
  | [] => by simp [span, hd]
  | c :: cs => by
      simp only [span, List.cons_append]
      split
      · rw [span_ext p d rest hd cs]
      · simp

theorem span1_ext (p : Char → Bool) (d : Char) (rest : List Char) (hd : p d = false) (s : List Char) :
    span1 p (s ++ d :: rest) = ext (span1 p s) (d :: rest) := by
  unfold span1
  rw [span_ext p d rest hd s]
  cases h : span p s with
  | mk a b => cases a <;> simp

theorem takeN_ext (p : Char → Bool) (d : Char) (rest : List Char) (hd : p d = false) : ∀ (n : Nat) (s : List Char),
    takeN p n (s ++ d :: rest) = ext (takeN p n s) (d :: rest)
  | 0, s => by simp [takeN]
  | n + 1, [] => by simp [takeN, hd]
  | n + 1, c :: cs => by
      simp only [takeN, List.cons_append]
      split
      · rw [takeN_ext p d rest hd n cs]
        cases takeN p n cs <;> simp
      · simp

theorem takeUpTo_ext (p : Char → Bool) (d : Char) (rest : List Char) (hd : p d = false) : ∀ (n : Nat) (s : List Char),
    takeUpTo p n (s ++ d :: rest) = ((takeUpTo p n s).1, (takeUpTo p n s).2 ++ d :: rest)
  | 0, s => by simp [takeUpTo]
  | n + 1, [] => by simp [takeUpTo, hd]
  | n + 1, c :: cs => by
      simp only [takeUpTo, List.cons_append]
      split
      · rw [takeUpTo_ext p d rest hd n cs]
      · simp


/-- the characters that occur in the keyword patterns of the rules -/
def patChars : List Char := "abcdefghijklmnopqrstuvwxyz'".toList

/-- what the scanners need to know about a character `d` that delimits a literal or an identifier -/
structure Delim (d : Char) : Prop where
  digit : env.isDigit d = false
  word : env.isWord d = false
  ci : ∀ p ∈ patChars, ciChar env p d = false
  ne_dot : d ≠ '.'
  ne_plus : d ≠ '+'
  ne_minus : d ≠ '-'
  ne_quote : d ≠ '\''
  hexl : inCharRange 'a' 'f' d = false
  hexu : inCharRange 'A' 'F' d = false
  r19 : inCharRange '1' '9' d = false
  r02 : inCharRange '0' '2' d = false
  r01 : inCharRange '0' '1' d = false
  r03 : inCharRange '0' '3' d = false
  r05 : inCharRange '0' '5' d = false
  ne0 : d ≠ '0'
  ne1 : d ≠ '1'
  ne2 : d ≠ '2'
  ne3 : d ≠ '3'

variable {env}

theorem Delim.hex {d : Char} (hd : Delim env d) : isHex env d = false := by
  simp [isHex, hd.digit, hd.hexl, hd.hexu]

theorem Delim.cil {d : Char} (hd : Delim env d) (p : Char) (hp : p ∈ patChars := by decide) :
    ciChar env p d = false := hd.ci p hp

theorem Delim.kwl {d : Char} (hd : Delim env d) (w : List Char)
    (hw : ∀ p ∈ w, p ∈ patChars := by decide) : ∀ p ∈ w, ciChar env p d = false :=
  fun p hp => hd.ci p (hw p hp)

theorem durGroup_ext {d : Char} (hd : Delim env d) (l : Char) (hl : l ∈ patChars) (rest s : List Char) :
    durGroup env l (s ++ d :: rest) = ((durGroup env l s).1, (durGroup env l s).2 ++ d :: rest) := by
  unfold durGroup
  rw [span1_ext _ _ _ hd.digit]
  cases h : span1 env.isDigit s with
  | none => simp
  | some x =>
    obtain ⟨ds, r⟩ := x
    cases r with
    | nil => simp [hd.cil l hl]
    | cons c r => simp; split <;> simp

theorem durSeconds_ext {d : Char} (hd : Delim env d) (rest s : List Char) :
    durSeconds env (s ++ d :: rest) = ((durSeconds env s).1, (durSeconds env s).2 ++ d :: rest) := by
  unfold durSeconds
  rw [span1_ext _ _ _ hd.digit]
  cases h : span1 env.isDigit s with
  | none => simp
  | some x =>
    obtain ⟨ds, r⟩ := x
    cases r with
    | nil => simp [hd.cil 's', hd.ne_dot]
    | cons c r =>
      by_cases hc : c = '.'
      · subst hc
        simp only [ext_some, List.cons_append]
        rw [span1_ext _ _ _ hd.digit]
        cases h2 : span1 env.isDigit r with
        | none => simp
        | some y =>
          obtain ⟨fs, r'⟩ := y
          cases r' with
          | nil => simp [hd.cil 's']
          | cons c' r' => simp; split <;> simp
      · simp [hc]; split <;> simp


theorem scanDuration_ext {d : Char} (hd : Delim env d) (rest s : List Char) :
    scanDuration env (s ++ d :: rest) = ext (scanDuration env s) (d :: rest) := by
  unfold scanDuration
  simp only [Option.bind_eq_bind]
  rw [kw_ext env d rest _ s (hd.kwl _)]
  cases h : kw env "duration'".toList s with
  | none => simp
  | some x =>
    obtain ⟨m, r⟩ := x
    simp only [ext_some, Option.bind_some]
    have hp : ∀ X : List Char, kw env ['p'] (X ++ d :: rest) = ext (kw env ['p'] X) (d :: rest) :=
      fun X => kw_ext env d rest _ X (hd.kwl _)
    have key : ∀ (sg X : List Char),
        ((kw env ['p'] (X ++ d :: rest)).bind fun __x =>
          match
            (match (durGroup env 'd' (durGroup env 'm' (durGroup env 'y' __x.snd).snd).snd).snd with
              | c :: t =>
                if ciChar env 't' c = true then
                  (c :: (durGroup env 'h' t).fst ++ (durGroup env 'm' (durGroup env 'h' t).snd).fst ++
                      (durSeconds env (durGroup env 'm' (durGroup env 'h' t).snd).snd).fst,
                    (durSeconds env (durGroup env 'm' (durGroup env 'h' t).snd).snd).snd)
                else ([], (durGroup env 'd' (durGroup env 'm' (durGroup env 'y' __x.snd).snd).snd).snd)
              | [] => ([], (durGroup env 'd' (durGroup env 'm' (durGroup env 'y' __x.snd).snd).snd).snd)).snd with
          | '\'' :: r' =>
            some
              (List.map durUpper
                  (sg ++ __x.fst ++ (durGroup env 'y' __x.snd).fst ++
                        (durGroup env 'm' (durGroup env 'y' __x.snd).snd).fst ++
                      (durGroup env 'd' (durGroup env 'm' (durGroup env 'y' __x.snd).snd).snd).fst ++
                    (match (durGroup env 'd' (durGroup env 'm' (durGroup env 'y' __x.snd).snd).snd).snd with
                      | c :: t =>
                        if ciChar env 't' c = true then
                          (c :: (durGroup env 'h' t).fst ++ (durGroup env 'm' (durGroup env 'h' t).snd).fst ++
                              (durSeconds env (durGroup env 'm' (durGroup env 'h' t).snd).snd).fst,
                            (durSeconds env (durGroup env 'm' (durGroup env 'h' t).snd).snd).snd)
                        else ([], (durGroup env 'd' (durGroup env 'm' (durGroup env 'y' __x.snd).snd).snd).snd)
                      | [] => ([], (durGroup env 'd' (durGroup env 'm' (durGroup env 'y' __x.snd).snd).snd).snd)).fst),
                r')
          | x => none) =
        ext ((kw env ['p'] X).bind fun __x =>
          match
            (match (durGroup env 'd' (durGroup env 'm' (durGroup env 'y' __x.snd).snd).snd).snd with
              | c :: t =>
                if ciChar env 't' c = true then
                  (c :: (durGroup env 'h' t).fst ++ (durGroup env 'm' (durGroup env 'h' t).snd).fst ++
                      (durSeconds env (durGroup env 'm' (durGroup env 'h' t).snd).snd).fst,
                    (durSeconds env (durGroup env 'm' (durGroup env 'h' t).snd).snd).snd)
                else ([], (durGroup env 'd' (durGroup env 'm' (durGroup env 'y' __x.snd).snd).snd).snd)
              | [] => ([], (durGroup env 'd' (durGroup env 'm' (durGroup env 'y' __x.snd).snd).snd).snd)).snd with
          | '\'' :: r' =>
            some
              (List.map durUpper
                  (sg ++ __x.fst ++ (durGroup env 'y' __x.snd).fst ++
                        (durGroup env 'm' (durGroup env 'y' __x.snd).snd).fst ++
                      (durGroup env 'd' (durGroup env 'm' (durGroup env 'y' __x.snd).snd).snd).fst ++
                    (match (durGroup env 'd' (durGroup env 'm' (durGroup env 'y' __x.snd).snd).snd).snd with
                      | c :: t =>
                        if ciChar env 't' c = true then
                          (c :: (durGroup env 'h' t).fst ++ (durGroup env 'm' (durGroup env 'h' t).snd).fst ++
                              (durSeconds env (durGroup env 'm' (durGroup env 'h' t).snd).snd).fst,
                            (durSeconds env (durGroup env 'm' (durGroup env 'h' t).snd).snd).snd)
                        else ([], (durGroup env 'd' (durGroup env 'm' (durGroup env 'y' __x.snd).snd).snd).snd)
                      | [] => ([], (durGroup env 'd' (durGroup env 'm' (durGroup env 'y' __x.snd).snd).snd).snd)).fst),
                r')
          | x => none) (d :: rest) := by
      intro sg X
      rw [hp]
      cases h2 : kw env ['p'] X with
      | none => simp
      | some y =>
        obtain ⟨p1, p2⟩ := y
        simp only [ext_some, Option.bind_some]
        rw [durGroup_ext hd 'y' (by decide)]
        simp only []
        rw [durGroup_ext hd 'm' (by decide)]
        simp only []
        rw [durGroup_ext hd 'd' (by decide)]
        simp only []
        generalize (durGroup env 'd' (durGroup env 'm' (durGroup env 'y' p2).snd).snd) = dd
        obtain ⟨d1, d2⟩ := dd
        simp only []
        cases d2 with
        | nil => simp [hd.cil 't', hd.ne_quote]
        | cons c t =>
          simp only [List.cons_append]
          by_cases hc : ciChar env 't' c = true
          · simp only [hc, if_true]
            rw [durGroup_ext hd 'h' (by decide)]
            simp only []
            rw [durGroup_ext hd 'm' (by decide)]
            simp only []
            rw [durSeconds_ext hd]
            simp only []
            generalize (durSeconds env (durGroup env 'm' (durGroup env 'h' t).snd).snd) = ss
            obtain ⟨s1, s2⟩ := ss
            cases s2 with
            | nil => simp [hd.ne_quote]
            | cons c' t' =>
              simp only [List.cons_append]
              split <;> simp_all
          · simp only [hc]
            simp only [Bool.false_eq_true, if_false]
            split <;> simp_all
    cases r with
    | nil =>
      have := key [] []
      simp only [List.nil_append] at this ⊢
      split
      · rename_i heq; simp at heq; exact absurd heq.1 hd.ne_plus
      · rename_i heq; simp at heq; exact absurd heq.1 hd.ne_minus
      · exact this
    | cons c r =>
      by_cases h1 : c = '+'
      · subst h1; exact key _ _
      · by_cases h2 : c = '-'
        · subst h2; exact key _ _
        · have := key [] (c :: r)
          simp only [List.cons_append, List.nil_append] at this ⊢
          split
          · rename_i heq; simp at heq; exact absurd heq.1 h1
          · rename_i heq; simp at heq; exact absurd heq.1 h2
          · split
            · rename_i heq; simp at heq; exact absurd heq.1 h1
            · rename_i heq; simp at heq; exact absurd heq.1 h2
            · exact this

theorem strBody_ext (d : Char) (hd : d ≠ '\'') (rest : List Char) (s b : List Char)
    (h : strBody s = some (b, [])) : strBody (s ++ d :: rest) = some (b, d :: rest) := by
  fun_induction strBody s generalizing b with
  | case1 => simp at h
  | case2 t b' r' heq ih =>
      simp [heq] at h
      obtain ⟨rfl, rfl⟩ := h
      simp [strBody, ih _ heq]
  | case3 t heq => simp [heq] at h
  | case4 t hne =>
      simp at h
      obtain ⟨rfl, rfl⟩ := h
      simp [strBody, hd]
  | case5 c t hne1 hne2 b' r' heq ih =>
      simp [heq] at h
      obtain ⟨rfl, rfl⟩ := h
      have := ih _ heq
      rw [List.cons_append, strBody.eq_def]
      split
      · simp_all
      · rename_i heq2; simp at heq2; exact absurd heq2.1 hne2
      · rename_i heq2; simp at heq2; exact absurd heq2.1 hne2
      · rename_i heq2; simp at heq2; obtain ⟨rfl, rfl⟩ := heq2; simp [this]
  | case6 c t hne1 hne2 heq => simp [heq] at h


theorem scanGuid_ext {d : Char} (hd : Delim env d) (rest s : List Char) :
    scanGuid env (s ++ d :: rest) = ext (scanGuid env s) (d :: rest) := by
  unfold scanGuid
  simp only [Option.bind_eq_bind]
  rw [takeN_ext _ _ _ hd.hex]
  cases takeN (isHex env) 8 s with
  | none => simp
  | some x =>
  obtain ⟨a, r⟩ := x
  simp only [ext_some, Option.bind_some]
  cases r with
  | nil => simp [hd.ne_minus]
  | cons c r =>
  by_cases hc : c = '-'
  case neg => simp [hc]
  subst hc
  simp only [List.cons_append, Option.bind_some]
  rw [takeN_ext _ _ _ hd.hex]
  cases takeN (isHex env) 4 r with
  | none => simp
  | some x =>
  obtain ⟨a2, r⟩ := x
  simp only [ext_some, Option.bind_some]
  cases r with
  | nil => simp [hd.ne_minus]
  | cons c r =>
  by_cases hc : c = '-'
  case neg => simp [hc]
  subst hc
  simp only [List.cons_append, Option.bind_some]
  rw [takeN_ext _ _ _ hd.hex]
  cases takeN (isHex env) 4 r with
  | none => simp
  | some x =>
  obtain ⟨a3, r⟩ := x
  simp only [ext_some, Option.bind_some]
  cases r with
  | nil => simp [hd.ne_minus]
  | cons c r =>
  by_cases hc : c = '-'
  case neg => simp [hc]
  subst hc
  simp only [List.cons_append, Option.bind_some]
  rw [takeN_ext _ _ _ hd.hex]
  cases takeN (isHex env) 4 r with
  | none => simp
  | some x =>
  obtain ⟨a4, r⟩ := x
  simp only [ext_some, Option.bind_some]
  cases r with
  | nil => simp [hd.ne_minus]
  | cons c r =>
  by_cases hc : c = '-'
  case neg => simp [hc]
  subst hc
  simp only [List.cons_append, Option.bind_some]
  rw [takeN_ext _ _ _ hd.hex]
  cases takeN (isHex env) 12 r with
  | none => simp
  | some x => simp


theorem Delim.beq {d : Char} (hd : Delim env d) :
    (d == '0') = false ∧ (d == '1') = false ∧ (d == '2') = false ∧ (d == '3') = false ∧ (d == '-') = false
    ∧ (d == '.') = false ∧ (d == '+') = false := by
  simp [hd.ne0, hd.ne1, hd.ne2, hd.ne3, hd.ne_minus, hd.ne_dot, hd.ne_plus]

theorem scanDatePart_short (s : List Char) (h : s.length < 10) : scanDatePart env s = none := by
  unfold scanDatePart
  split
  · simp at h; omega
  · rfl

theorem scanDatePart_ext {d : Char} (hd : Delim env d) (rest s : List Char) :
    scanDatePart env (s ++ d :: rest) = ext (scanDatePart env s) (d :: rest) := by
  by_cases hs : s.length < 10
  · rw [scanDatePart_short s hs]
    have hb := hd.beq
    unfold scanDatePart
    split
    · rename_i y1 y2 y3 y4 m1 m2 d1 d2 r heq
      rcases s with _ | ⟨a0, _ | ⟨a1, _ | ⟨a2, _ | ⟨a3, _ | ⟨a4, _ | ⟨a5, _ | ⟨a6, _ | ⟨a7, _ | ⟨a8, _ | ⟨a9, s⟩⟩⟩⟩⟩⟩⟩⟩⟩⟩
      all_goals simp [hd.ne_minus] at heq hs
      all_goals first | omega | simp [← heq, hd.digit, hd.r19, hd.r02, hd.r01, hb]
    · rfl
  · rcases s with _ | ⟨a0, _ | ⟨a1, _ | ⟨a2, _ | ⟨a3, _ | ⟨a4, _ | ⟨a5, _ | ⟨a6, _ | ⟨a7, _ | ⟨a8, _ | ⟨a9, s⟩⟩⟩⟩⟩⟩⟩⟩⟩⟩
    all_goals simp at hs
    by_cases h4 : a4 = '-' <;> by_cases h7 : a7 = '-'
    · subst h4 h7
      simp only [List.cons_append, scanDatePart]
      split <;> simp
    all_goals simp [scanDatePart, h4, h7]


theorem scanHourMinute_short (s : List Char) (h : s.length < 5) : scanHourMinute env s = none := by
  unfold scanHourMinute
  split
  · simp at h; omega
  · rfl

theorem scanHourMinute_ext {d : Char} (hd : Delim env d) (hc : d ≠ ':') (rest s : List Char) :
    scanHourMinute env (s ++ d :: rest) = ext (scanHourMinute env s) (d :: rest) := by
  by_cases hs : s.length < 5
  · rw [scanHourMinute_short s hs]
    have hb := hd.beq
    unfold scanHourMinute
    split
    · rename_i h1 h2 m1 m2 r heq
      rcases s with _ | ⟨a0, _ | ⟨a1, _ | ⟨a2, _ | ⟨a3, _ | ⟨a4, s⟩⟩⟩⟩⟩
      all_goals simp [hc] at heq hs
      all_goals first | omega | simp [← heq, hd.digit, hd.r19, hd.r02, hd.r01, hd.r03, hd.r05, hb]
    · rfl
  · rcases s with _ | ⟨a0, _ | ⟨a1, _ | ⟨a2, _ | ⟨a3, _ | ⟨a4, s⟩⟩⟩⟩⟩
    all_goals simp at hs
    by_cases h2 : a2 = ':'
    · subst h2
      simp only [List.cons_append, scanHourMinute]
      split <;> simp
    all_goals simp [scanHourMinute, h2]

theorem scanFraction_ext {d : Char} (hd : Delim env d) (rest s : List Char) :
    scanFraction env (s ++ d :: rest) = ((scanFraction env s).1, (scanFraction env s).2 ++ d :: rest) := by
  cases s with
  | nil => simp [scanFraction, hd.ne_dot]
  | cons c s =>
    by_cases hc : c = '.'
    · subst hc
      simp only [List.cons_append, scanFraction]
      rw [takeUpTo_ext _ _ _ hd.digit]
      generalize takeUpTo env.isDigit 12 s = x
      obtain ⟨a, b⟩ := x
      cases a <;> simp
    · simp [scanFraction, hc]

theorem scanSeconds_single (a b : Char) (s : List Char) (h : a ≠ ':') :
    scanSeconds env (':' :: a :: b :: s) =
      if inCharRange '0' '5' a && env.isDigit b then
        some (':' :: a :: b :: (scanFraction env s).1, (scanFraction env s).2) else none := by
  unfold scanSeconds
  split
  · rename_i heq; simp at heq; exact absurd heq.1 h
  · rename_i hne heq; simp at heq
    obtain ⟨rfl, rfl, rfl⟩ := heq
    rfl
  · rename_i hne1 hne2; exact absurd rfl (hne2 _ _ _)

theorem scanSeconds_ext {d : Char} (hd : Delim env d) (hc : d ≠ ':') (rest s : List Char) :
    scanSeconds env (s ++ d :: rest) = ext (scanSeconds env s) (d :: rest) := by
  have h5 : inCharRange '0' '5' ':' = false := by decide
  rcases s with _ | ⟨c, s⟩
  · simp [scanSeconds, hc]
  by_cases h1 : c = ':'
  case neg => simp [scanSeconds, h1]
  subst h1
  rcases s with _ | ⟨a, s⟩
  · simp only [List.cons_append, List.nil_append]
    unfold scanSeconds
    split
    · rename_i heq; simp [hc] at heq
    · rename_i heq; simp at heq; simp [← heq.1, hd.r05]
    · simp
  by_cases h2 : a = ':'
  · subst h2
    rcases s with _ | ⟨a, _ | ⟨b, s⟩⟩
    · simp only [List.cons_append, List.nil_append]
      unfold scanSeconds
      split
      · rename_i heq; simp at heq; simp [← heq.1, hd.r05]
      · rename_i heq; simp at heq; simp [← heq.1, h5]
      · simp
    · simp only [List.cons_append, List.nil_append]
      unfold scanSeconds
      split
      · rename_i heq; simp at heq; simp [← heq.2.1, hd.digit, h5]
      · rename_i hne heq; simp at heq; simp [← heq.1, h5]
      · simp [h5]
    · simp only [List.cons_append, scanSeconds]
      split
      · rw [scanFraction_ext hd]; simp
      · simp
  · rcases s with _ | ⟨b, s⟩
    · simp only [List.cons_append, List.nil_append]
      unfold scanSeconds
      split
      · rename_i heq; simp at heq; exact absurd heq.1 h2
      · rename_i hne heq; simp at heq; simp [← heq.2.1, hd.digit]
      · simp [h2]
    · simp only [List.cons_append]
      rw [scanSeconds_single _ _ _ h2, scanSeconds_single _ _ _ h2]
      split
      · rw [scanFraction_ext hd]; simp
      · simp


theorem scanOffset_ext {d : Char} (hd : Delim env d) (hc : d ≠ ':') (rest s : List Char) :
    scanOffset env (s ++ d :: rest) = ((scanOffset env s).1, (scanOffset env s).2 ++ d :: rest) := by
  rcases s with _ | ⟨c, s⟩
  · simp [scanOffset, hd.cil 'z', hd.ne_plus, hd.ne_minus]
  · simp only [List.cons_append, scanOffset]
    split
    · simp
    · split
      · rw [scanHourMinute_ext hd hc]
        cases scanHourMinute env s <;> simp
      · simp

theorem scanTime_ext {d : Char} (hd : Delim env d) (hc : d ≠ ':') (rest s : List Char) :
    scanTime env (s ++ d :: rest) = ext (scanTime env s) (d :: rest) := by
  unfold scanTime
  simp only [Option.bind_eq_bind]
  rw [scanHourMinute_ext hd hc]
  cases scanHourMinute env s with
  | none => simp
  | some x =>
    simp only [ext_some, Option.bind_some]
    rw [scanSeconds_ext hd hc]
    cases scanSeconds env x.2 <;> simp

theorem scanDateTime_ext {d : Char} (hd : Delim env d) (hc : d ≠ ':') (rest s : List Char) :
    scanDateTime env (s ++ d :: rest) = ext (scanDateTime env s) (d :: rest) := by
  unfold scanDateTime
  simp only [Option.bind_eq_bind]
  rw [scanDatePart_ext hd]
  cases scanDatePart env s with
  | none => simp
  | some x =>
    obtain ⟨dt, r⟩ := x
    simp only [ext_some, Option.bind_some]
    cases r with
    | nil => simp [hd.cil 't']
    | cons t r =>
      simp only [List.cons_append]
      split
      · rw [scanHourMinute_ext hd hc]
        cases scanHourMinute env r with
        | none => simp
        | some y =>
          obtain ⟨hm, r2⟩ := y
          simp only [ext_some, Option.bind_some]
          rw [scanSeconds_ext hd hc]
          cases scanSeconds env r2 with
          | none => simp [scanOffset_ext hd hc]
          | some z => simp [scanOffset_ext hd hc]
      · simp

theorem scanInteger_ext {d : Char} (hd : Delim env d) (rest s : List Char) :
    scanInteger env (s ++ d :: rest) = ext (scanInteger env s) (d :: rest) := by
  rcases s with _ | ⟨c, s⟩
  · simp [scanInteger, hd.ne_plus, hd.ne_minus, span1, span, hd.digit]
  · by_cases h1 : c = '+'
    · subst h1; simp only [List.cons_append, scanInteger]; rw [span1_ext _ _ _ hd.digit]
      cases span1 env.isDigit s <;> simp
    · by_cases h2 : c = '-'
      · subst h2; simp only [List.cons_append, scanInteger]; rw [span1_ext _ _ _ hd.digit]
        cases span1 env.isDigit s <;> simp
      · have := span1_ext env.isDigit d rest hd.digit (c :: s)
        simp only [List.cons_append] at this
        simp [scanInteger, h1, h2, this]

theorem scanExponent_ext {d : Char} (hd : Delim env d) (rest s : List Char) :
    scanExponent env (s ++ d :: rest) = ext (scanExponent env s) (d :: rest) := by
  rcases s with _ | ⟨e, s⟩
  · simp [scanExponent, hd.cil 'e']
  · simp only [List.cons_append, scanExponent]
    split
    case isFalse => simp
    rcases s with _ | ⟨c, s⟩
    · simp [hd.ne_plus, hd.ne_minus, span1, span, hd.digit]
    · by_cases h1 : c = '+'
      · subst h1; simp only [List.cons_append]; rw [span1_ext _ _ _ hd.digit]
        cases span1 env.isDigit s <;> simp
      · by_cases h2 : c = '-'
        · subst h2; simp only [List.cons_append]; rw [span1_ext _ _ _ hd.digit]
          cases span1 env.isDigit s <;> simp
        · have := span1_ext env.isDigit d rest hd.digit (c :: s)
          simp only [List.cons_append] at this
          simp [h1, h2, this]
          cases span1 env.isDigit (c :: s) <;> simp

theorem scanDecimal_ext {d : Char} (hd : Delim env d) (rest s : List Char) :
    scanDecimal env (s ++ d :: rest) = ext (scanDecimal env s) (d :: rest) := by
  unfold scanDecimal
  simp only [Option.bind_eq_bind]
  rw [scanInteger_ext hd]
  cases scanInteger env s with
  | none => simp
  | some x =>
    obtain ⟨i, r⟩ := x
    simp only [ext_some, Option.bind_some]
    rcases r with _ | ⟨c, r⟩
    · simp [hd.ne_dot, scanExponent, hd.cil 'e']
    · by_cases h1 : c = '.'
      · subst h1
        simp only [List.cons_append]
        rw [span1_ext _ _ _ hd.digit]
        cases span1 env.isDigit r with
        | none => simp
        | some y =>
          simp only [ext_some]
          rw [scanExponent_ext hd]
          cases scanExponent env y.2 <;> simp
      · have := scanExponent_ext hd rest (c :: r)
        simp only [List.cons_append] at this
        simp [h1, this]
        cases scanExponent env (c :: r) <;> simp


theorem notIdentCont_ext {d : Char} (hd : Delim env d) (hdot : env.isWord '.' = false) (rest s : List Char) :
    notIdentCont env (s ++ d :: rest) = notIdentCont env s := by
  rcases s with _ | ⟨c, s⟩
  · simp [notIdentCont, hd.ne_dot, hd.word]
  · by_cases h1 : c = '.'
    · subst h1
      rcases s with _ | ⟨c, s⟩
      · simp [notIdentCont, hd.word, hdot]
      · simp [notIdentCont]
    · simp [notIdentCont, h1]

theorem scanWord_ext {d : Char} (hd : Delim env d) (hdot : env.isWord '.' = false) (w : List Char)
    (hw : ∀ p ∈ w, p ∈ patChars := by decide) (rest s : List Char) :
    scanWord env w (s ++ d :: rest) = ext (scanWord env w s) (d :: rest) := by
  unfold scanWord
  rw [kw_ext env d rest _ s (hd.kwl _ hw)]
  cases kw env w s with
  | none => simp
  | some x =>
    simp only [ext_some]
    rw [notIdentCont_ext hd hdot]
    split <;> simp

theorem identTail_ne (n : Nat) (c : Char) (X : List Char) (h : c ≠ '.') :
    identTail env (n+1) (c :: X) =
      if env.isWord c then (c :: (identTail env n X).1, (identTail env n X).2) else ([], c :: X) := by
  rw [identTail.eq_def]
  split
  · rename_i h1; omega
  · rename_i n' c' t' h1 h2; simp at h2; exact absurd h2.1 h
  · rename_i n' c' t' hne h1 h2
    simp at h1 h2
    obtain ⟨rfl, rfl⟩ := h2
    subst h1
    split <;> rfl
  · rename_i h1 h2; simp at h2

theorem identTail_ext {d : Char} (hd : Delim env d) (hdot : env.isWord '.' = false) (rest : List Char) (n : Nat) (s : List Char) :
    identTail env n (s ++ d :: rest) = ((identTail env n s).1, (identTail env n s).2 ++ d :: rest) := by
  fun_induction identTail env n s with
  | case1 cs => simp [identTail]
  | case2 n c t hw a b heq ih =>
      simp only [List.cons_append, identTail, hw, if_true]
      rw [ih, heq]
  | case3 n c t hw => simp [identTail, hw]
  | case4 n c t hne hw a b heq ih =>
      have hc : c ≠ '.' := by rintro rfl; simp [hdot] at hw
      simp only [List.cons_append]
      rw [identTail_ne _ _ _ hc, ih, heq]
      simp [hw]
  | case5 n c t hne hw =>
      by_cases hc : c = '.'
      · subst hc
        rcases t with _ | ⟨c1, t1⟩
        · simp [identTail, hd.word]
        · exact absurd rfl (hne _ _ rfl)
      · simp only [List.cons_append]
        rw [identTail_ne _ _ _ hc]
        simp [hw]
  | case6 n => simp [identTail, hd.word, hd.ne_dot]


theorem scanIdent_ext {d : Char} (hd : Delim env d) (hdot : env.isWord '.' = false) (hi : isIdentStart env d = false)
    (rest s : List Char) :
    scanIdent env (s ++ d :: rest) = ext (scanIdent env s) (d :: rest) := by
  rcases s with _ | ⟨c, s⟩
  · simp [scanIdent, hi]
  · simp only [List.cons_append, scanIdent]
    split
    · rw [identTail_ext hd hdot]; simp
    · simp


end
end OQ.LexRender
