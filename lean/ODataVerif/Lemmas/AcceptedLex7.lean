/-
  Lemmas/AcceptedLex7.lean — identifiers between blanks; the assembled idempotence statement `lexed_lexable_core`; the
  identifier obtained from an emitted token by dropping its namespace (`name_lexable_core`); the tokens of `lexAll`.
-/
import ODataVerif.Lemmas.AcceptedLex6
namespace OQ.AcceptedLex
open OQ.LexRender OQ.Spec OQ.CaseMap OQ.C13
set_option linter.unusedSimpArgs false
set_option linter.unusedVariables false

/-- the operator keywords (copy of `C13A.opWords`, which lives in the Props file) -/
def opWordsL : List Str :=
  ["add", "sub", "mul", "div", "mod", "and", "or", "eq", "ne", "lt", "le", "gt", "ge", "in", "not"].map String.toList
def opNamedL (i : Ident) : Bool := i.ns.isEmpty && opWordsL.contains (i.name.map asciiLower)

/-- the keyword literals and digit-led names (what an identifier whose namespace was dropped must not be) -/
def kwNamedL (i : Ident) : Bool :=
  i.ns.isEmpty && (litWords.contains (i.name.map asciiLower) || (match i.name with | c :: _ => E.isDigit c | [] => false))

theorem opWords_ciLow : ∀ w ∈ opWordsL, w.all ciLow = true := by decide +kernel
theorem allOps_opWords : ∀ e ∈ allOps, e.2 ∈ opWordsL := by decide
theorem not_opWords : "not".toList ∈ opWordsL := by decide
theorem opWords_nodot : ∀ w ∈ opWordsL, '.' ∉ w := by decide

theorem lower_dot (s : Str) (h : '.' ∈ s) : '.' ∈ s.map asciiLower :=
  List.mem_map.2 ⟨'.', h, by decide⟩

section
variable {c : Char} {t0 : Str} (hX : IdText c t0)
include hX

/-- an operator keyword that matches the whole identifier text: the identifier is named like the operator -/
theorem ident_kw_full {w m : Str} (hw : w ∈ opWordsL) (hk : kw E w (c :: t0) = some (m, [])) :
    opNamedL (identOfText (c :: t0)) = true := by
  obtain ⟨hm, hdec⟩ := kw_lower w (c :: t0) m [] (opWords_ciLow w hw) (idText_ascii hX) hk
  rw [List.append_nil] at hdec
  have hnd : '.' ∉ c :: t0 := by
    intro hd
    have := lower_dot _ hd
    rw [hdec, hm] at this
    exact opWords_nodot w hw this
  rw [identOfText_nodot _ hnd]
  simp only [opNamedL, List.isEmpty_nil, Bool.true_and, List.contains_iff_mem]
  rw [hdec, hm]; exact hw

theorem ident_lexable {i : Ident} (hi : i = identOfText (c :: t0)) (h1 : lexOne E (c :: t0) = some (.ident i, []))
    (hop : opNamedL i = false) : tokLexable' E (.ident i) = true := by
  have hsp : spellTok (.ident i) = c :: t0 := by
    show spellIdent i = c :: t0
    rw [hi]; exact spellIdent_identOfText _
  have hc : E.isSpace c = false := (idText_facts hX c List.mem_cons_self).1
  apply lexable_of_alone rfl (by rw [hsp]; exact h1)
  · intro _ _
    rw [hsp]
    simp only [scanNot, Option.bind_eq_bind]
    rw [kw_ext E ' ' [] _ _ (delim_blank.kwl _)]
    cases hk : kw E "not".toList (c :: t0) with
    | none => rfl
    | some y =>
      obtain ⟨m, r⟩ := y
      rcases ident_kw_rest hX hk with rfl | ⟨x, t, rfl, hx⟩
      · have := ident_kw_full hX not_opWords hk
        rw [← hi, hop] at this; cases this
      · simp only [ext_some, Option.bind_some, List.cons_append, span1_head hx]; rfl
  · rw [hsp]
    apply ops_none_of (headNS_cons hc)
    intro e he
    cases hk : kw E e.2 (c :: t0) with
    | none => exact Or.inl rfl
    | some y =>
      obtain ⟨m, r⟩ := y
      rcases ident_kw_rest hX hk with rfl | ⟨x, t, rfl, hx⟩
      · have := ident_kw_full hX (allOps_opWords e he) hk
        rw [← hi, hop] at this; cases this
      · exact Or.inr ⟨m, x, t, rfl, hx⟩

end

/-- a token emitted by the lexer on ASCII text -/
def Emitted (t : Tok) : Prop := ∃ cs r, cs.all isAscii = true ∧ lexOne E cs = some (t, r)

/-- lexer idempotence on tokens -/
theorem lexed_lexable_core {cs r : Str} {t : Tok} (ha : cs.all isAscii = true) (h : lexOne E cs = some (t, r))
    (hli : isLI t = true) (hk : ∀ i, t = .ident i → opNamedL i = false) : tokLexable' E t = true := by
  cases t with
  | lit k v => exact lexable_of_alone hli (lit_alone ha h) (fun i e => by cases e) (lit_ops ha h)
  | ident i =>
    obtain ⟨c, t0, hi, hsp, hX, hres⟩ := ident_text ha h
    have h1 : lexOne E (c :: t0) = some (.ident i, []) := by
      rw [hi]; exact lexOne_ident_of c t0 hX hres
    exact ident_lexable hX hi h1 (hk i rfl)
  | _ => simp [isLI] at hli

theorem nd_append (a b : Str) : nd (a ++ b) = nd a + nd b := by simp [nd, List.filter_append]

theorem nd_nodot (s : Str) (h : '.' ∉ s) : nd s = s.length := by
  simp only [nd]
  rw [List.filter_eq_self.2]
  intro x hx
  have : x ≠ '.' := fun e => h (e ▸ hx)
  simpa using this

/-- the identifier an emitted identifier token becomes when the parser drops its namespace -/
theorem name_lexable_core {n : Str} {ns : List Str} (he : Emitted (.ident ⟨n, ns⟩))
    (hop : opNamedL ⟨n, []⟩ = false) (hkw : kwNamedL ⟨n, []⟩ = false) : tokLexable' E (.ident ⟨n, []⟩) = true := by
  obtain ⟨cs, r, ha, h⟩ := he
  obtain ⟨c, t0, hi, hsp, hX, hres⟩ := ident_text ha h
  obtain ⟨hnd, ⟨P, hP⟩, hemp⟩ := identOfText_name (c :: t0)
  rw [← hi] at hnd hP hemp
  simp only at hnd hP hemp
  have hchars := idText_chars hX
  have hlast := (tail_chars _ (c :: t0) (Nat.le_refl _) (idText_tail hX)).2
  -- the name is not empty
  have hne : n ≠ [] := by
    intro e
    rcases hemp e with h0 | h0
    · cases h0
    · exact hlast h0
  -- its characters are word characters
  have hw : n.all isWordA = true := by
    rw [List.all_eq_true]
    intro x hx
    rcases hchars x (by rw [hP]; exact List.mem_append_right _ hx) with h0 | h0
    · exact h0
    · exact absurd (h0 ▸ hx) hnd
  -- at most 128 of them
  have hlen : n.length ≤ 128 := by
    have h1 : nd (c :: t0) = nd P + nd n := by rw [hP]; exact nd_append _ _
    have h2 : nd (c :: t0) ≤ 128 := by
      have hcd : c ≠ '.' := word_ne_dot (idText_word hX)
      have := hX.nd
      simp [nd, List.filter_cons, hcd] at this ⊢; omega
    rw [nd_nodot n hnd] at h1
    omega
  cases n with
  | nil => exact absurd rfl hne
  | cons c' t' =>
    simp only [List.all_cons, Bool.and_eq_true] at hw
    simp only [kwNamedL, List.isEmpty_nil, Bool.true_and, Bool.or_eq_false_iff, List.contains_iff_mem] at hkw
    have hstart : isStartA c' = true := by
      rcases wordA_cases c' hw.1 with h0 | h0
      · exact h0
      · rw [h0] at hkw; exact absurd hkw.2 (by simp)
    have hX' : IdText c' t' := by
      refine ⟨hstart, ?_, ?_⟩
      · have := (tail_app (s := t') (r := []) hw.2).2 trivial
        simpa using this
      · have := nd_le_length t'
        simp at hlen; omega
    have hres' : notLitWord (c' :: t') := by
      intro hm
      have h0 := hkw.1
      have h1 : litWords.contains (List.map asciiLower (c' :: t')) = true := List.contains_iff_mem.2 hm
      rw [h1] at h0; cases h0
    have hid : identOfText (c' :: t') = ⟨c' :: t', []⟩ := identOfText_nodot _ hnd
    have h1 := lexOne_ident_of c' t' hX' hres'
    rw [hid] at h1
    exact ident_lexable hX' hid.symm h1 hop

/-! ### every token of `lexAll` on ASCII text is an emitted token -/
theorem lexFuel_emitted : ∀ (f pos : Nat) (cs : Str), cs.all isAscii = true →
    ∀ t ∈ (lexFuel E f pos cs).toks, Emitted t
  | 0, _, _, _ => by simp [lexFuel]
  | _ + 1, _, [], _ => by simp [lexFuel]
  | f + 1, pos, c :: cs, ha => by
    simp only [lexFuel]
    cases hl : lexOne E (c :: cs) with
    | none => simp
    | some p =>
      obtain ⟨t, r⟩ := p
      have h2 := LexImage.lexOne_rest pyCharEnv isAscii _ _ _ hl ha
      intro t' ht'
      simp only [List.mem_cons] at ht'
      rcases ht' with rfl | ht'
      · exact ⟨c :: cs, r, ha, hl⟩
      · exact lexFuel_emitted f _ r h2 t' ht'

theorem lexAll_emitted (s : Str) (ha : s.all isAscii = true) : ∀ t ∈ (lexAll E s).toks, Emitted t :=
  lexFuel_emitted _ _ _ ha

end OQ.AcceptedLex
