/- Lemmas/SaSound.lean — helper lemmas for Props/C03.lean, part 3: the invariants of the three sorts. -/
import ODataVerif.Lemmas.SaVisit
import ODataVerif.Lemmas.SaSql
namespace OQ.SaSound
open Spec SqliteSound SqliteLike

section
variable (fields : List Str) (core : Bool)

theorem kindI {e : IntE} {t : OTree} {k : OKind} (h : saVisit fields core e.toExpr = .ok (t, k)) :
    k ≠ .list ∧ isConstT t = false :=
  okI_ok (by rw [← h]; exact okI_I fields core e)
theorem kindS {e : StrE} {t : OTree} {k : OKind} (h : saVisit fields core e.toExpr = .ok (t, k)) :
    k ≠ .list ∧ isConstT t = false :=
  okI_ok (by rw [← h]; exact okI_S fields core e)
theorem kindB {e : BoolE} {t : OTree} {k : OKind} (h : saVisit fields core e.toExpr = .ok (t, k)) :
    k ≠ .list ∧ isNullConst t = false :=
  okB_ok (by rw [← h]; exact okB_B fields core e)

/-- a comparison of two non-list operands, when it is built -/
theorem compare_inv {k : CmpK} {l r : Expr} {t : OTree} {kd : OKind} (hn : isNullLit l = false)
    (h : saVisit fields core (.compare k.toOp l r) = .ok (t, kd)) :
    ∃ a ka b kb, saVisit fields core l = .ok (a, ka) ∧ saVisit fields core r = .ok (b, kb) ∧
      (ka ≠ .list → kb ≠ .list → t = on2 (cmpLookup k.toOp) a b) := by
  rw [visit_compare _ _ _ _ _ hn] at h
  obtain ⟨⟨a, ka⟩, ha, h⟩ := bind_ok_inv h
  obtain ⟨⟨b, kb⟩, hb, h⟩ := bind_ok_inv h
  refine ⟨a, ka, b, kb, ha, hb, ?_⟩
  intro hka hkb
  simp only [toOp_in, Bool.false_eq_true, if_false] at h
  rw [if_neg (by simp [hka, hkb])] at h
  split at h
  · cases h
  · cases h; rfl

theorem visit_isNull (kind : ColK) (c : Str) (negated : Bool) :
    saVisit fields core (BoolE.isNull kind c negated).toExpr =
      if fields.contains c then .ok (on2 (if negated then "ne" else "exact") (.col [c]) (.const "NULL"), .cond)
      else .lib (.invalidField c) := by
  rw [BoolE.toExpr, visit_compare _ _ _ _ _ rfl, visit_id, visit_nullLit]
  cases negated <;> split <;> rfl

theorem visit_boolLit' (b : Bool) :
    saVisit fields core (.lit .bool (if b then "true".toList else "false".toList)) =
      .ok (.const (if b then "TRUE" else "FALSE"), .value) := by
  rw [visit_boolLit]
  cases b <;> rfl

theorem litNeedsEscape_nonlit (b : StrE) (h : isLitS b = false) : litNeedsEscape b.toExpr = false := by
  cases b <;> simp [isLitS] at h <;> rfl
end

/-! ### soundness -/
section Sound
variable (fields : List Str) (core : Bool) (ρ : Row)

mutual
theorem soundI : (e : IntE) → (t : OTree) → (k : OKind) → (s : SqlTree) → C01.wfI e = true → semOkI ρ e = true →
    saVisit fields core e.toExpr = .ok (t, k) → saSql t = some s → sqlEval ρ s = some (valI (evalI ρ e))
  | .lit neg ds, t, k, s, hw, _, hb, hq => by
      rw [IntE.toExpr, visit_intLit] at hb
      cases hb
      rw [evalI]
      exact eval_paramInt ρ neg ds s (by simpa [C01.wfI] using hw) hq
  | .col c, t, k, s, _, hs, hb, hq => by
      rw [IntE.toExpr, visit_id] at hb
      split at hb
      · cases hb
        cases hq
        simp only [semOkI] at hs
        rw [eval_col, evalI, C01.ofVal_int ρ c hs]
      · cases hb
  | .neg e, t, k, s, _, _, hb, _ => by
      rw [IntE.toExpr, visit_unary] at hb
      obtain ⟨⟨a, ka⟩, _, hb⟩ := bind_ok_inv hb
      rw [if_neg (by decide)] at hb
      cases hb
  | .arith k l r, t, kd, s, hw, hs, hb, hq => by
      simp only [C01.wfI, Bool.and_eq_true] at hw
      simp only [semOkI, Bool.and_eq_true] at hs
      rw [IntE.toExpr, visit_binop] at hb
      obtain ⟨⟨a, ka⟩, ha, hb⟩ := bind_ok_inv hb
      obtain ⟨⟨b, kb⟩, hb', hb⟩ := bind_ok_inv hb
      rw [if_neg (by simp [(kindI fields core ha).1, (kindI fields core hb').1])] at hb
      cases hb
      rw [saSql_arith] at hq
      obtain ⟨x, y, hx, hy, hq⟩ := lift2_some hq
      have hel := soundI l a ka x hw.1 hs.1 ha hx
      have her := soundI r b kb y hw.2 hs.2 hb' hy
      have : evalI ρ (.arith k l r) = lift2 (arith k) (evalI ρ l) (evalI ρ r) := by
        rw [evalI]; cases evalI ρ l <;> cases evalI ρ r <;> rfl
      rw [this]
      split at hq
      · cases hq
      · cases hq
        exact eval_arith ρ k x y _ _ hel her
  | .length s', t, k, s, hw, hs, hb, hq => by
      rw [IntE.toExpr, visit_length] at hb
      obtain ⟨⟨a, ka⟩, ha, hb⟩ := bind_ok_inv hb
      cases hb
      rw [saSql_length] at hq
      obtain ⟨x, hx, rfl⟩ := map_some hq
      rw [evalI]
      exact eval_length ρ x _ (soundS s' a ka x (by simpa [C01.wfI] using hw) (by simpa [semOkI] using hs) ha hx)
  | .indexof a b, t, k, s, _, _, hb, hq => by
      rw [IntE.toExpr, visit_indexof] at hb
      obtain ⟨⟨a', ka⟩, _, hb⟩ := bind_ok_inv hb
      obtain ⟨⟨b', kb⟩, _, hb⟩ := bind_ok_inv hb
      cases hb
      rw [saSql_indexof] at hq
      cases hq
theorem soundS : (e : StrE) → (t : OTree) → (k : OKind) → (s : SqlTree) → C01.wfS e = true → semOkS ρ e = true →
    saVisit fields core e.toExpr = .ok (t, k) → saSql t = some s → sqlEval ρ s = some (valS (evalS ρ e))
  | .lit v, t, k, s, _, _, hb, hq => by
      rw [StrE.toExpr, visit_strLit] at hb
      cases hb
      cases hq
      rw [eval_str, evalS]; rfl
  | .col c, t, k, s, _, hs, hb, hq => by
      rw [StrE.toExpr, visit_id] at hb
      split at hb
      · cases hb
        cases hq
        simp only [semOkS] at hs
        rw [eval_col, evalS, C01.ofVal_str ρ c hs]
      · cases hb
  | .concat a b, t, k, s, _, _, hb, hq => by
      rw [StrE.toExpr, visit_concat, visitList_cons, visitList_cons, visitList_nil] at hb
      obtain ⟨items, hi, hb⟩ := bind_ok_inv hb
      obtain ⟨⟨a', ka⟩, _, hi⟩ := bind_ok_inv hi
      obtain ⟨rest, hr, hi⟩ := bind_ok_inv hi
      obtain ⟨⟨b', kb⟩, _, hr⟩ := bind_ok_inv hr
      cases hr
      cases hi
      cases hb
      have h2 : saSql (.node "concat" (OTrees.ofList [a', b'])) = none := saSql_concat a' b'
      exact absurd (h2.symm.trans hq) (by simp)
  | .substring s' i, t, k, s, hw, hs, hb, hq => by
      simp only [C01.wfS, Bool.and_eq_true] at hw
      simp only [semOkS, Bool.and_eq_true] at hs
      rw [StrE.toExpr, visit_substring2] at hb
      obtain ⟨⟨a, ka⟩, ha, hb⟩ := bind_ok_inv hb
      obtain ⟨⟨b, kb⟩, hb', hb⟩ := bind_ok_inv hb
      cases hb
      rw [saSql_substr2, saSql_plus1] at hq
      obtain ⟨x, y', hx, hy, hq⟩ := lift2_some hq
      obtain ⟨y, hy2, rfl⟩ := map_some hy
      cases hq
      have hes := soundS s' a ka x hw.1 hs.1.1 ha hx
      have hei := soundI i b kb y hw.2 hs.1.2 hb' hy2
      have : evalS ρ (.substring s' i) = lift2 (fun x k => some (x.drop k.toNat)) (evalS ρ s') (evalI ρ i) := by
        rw [evalS]; cases evalS ρ s' <;> cases evalI ρ i <;> rfl
      rw [this]
      exact eval_substring2 ρ x y _ _ hes hei (C01.nonnegO_of _ hs.2)
  | .substring3 s' i n, t, k, s, hw, hs, hb, hq => by
      simp only [C01.wfS, Bool.and_eq_true] at hw
      simp only [semOkS, Bool.and_eq_true] at hs
      rw [StrE.toExpr, visit_substring3] at hb
      obtain ⟨⟨a, ka⟩, ha, hb⟩ := bind_ok_inv hb
      obtain ⟨⟨b, kb⟩, hb', hb⟩ := bind_ok_inv hb
      obtain ⟨⟨c, kc⟩, hc, hb⟩ := bind_ok_inv hb
      cases hb
      rw [saSql_substr3, saSql_plus1] at hq
      obtain ⟨x, y', z, hx, hy, hz, hq⟩ := lift3_some hq
      obtain ⟨y, hy2, rfl⟩ := map_some hy
      cases hq
      have hes := soundS s' a ka x hw.1.1 hs.1.1.1.1 ha hx
      have hei := soundI i b kb y hw.1.2 hs.1.1.1.2 hb' hy2
      have hen := soundI n c kc z hw.2 hs.1.1.2 hc hz
      have : evalS ρ (.substring3 s' i n) =
          lift3 (fun x k m => some ((x.drop k.toNat).take m.toNat)) (evalS ρ s') (evalI ρ i) (evalI ρ n) := by
        rw [evalS]; cases evalS ρ s' <;> cases evalI ρ i <;> cases evalI ρ n <;> rfl
      rw [this]
      exact eval_substring3 ρ x y z _ _ _ hes hei hen (C01.nonnegO_of _ hs.1.2) (C01.nonnegO_of _ hs.2)
  | .tolower s', t, k, s, hw, hs, hb, hq => by
      rw [StrE.toExpr, visit_tolower] at hb
      obtain ⟨⟨a, ka⟩, ha, hb⟩ := bind_ok_inv hb
      cases hb
      rw [saSql_lower] at hq
      obtain ⟨x, hx, rfl⟩ := map_some hq
      rw [evalS]
      exact eval_lower ρ x _ (soundS s' a ka x (by simpa [C01.wfS] using hw) (by simpa [semOkS] using hs) ha hx)
  | .toupper s', t, k, s, hw, hs, hb, hq => by
      rw [StrE.toExpr, visit_toupper] at hb
      obtain ⟨⟨a, ka⟩, ha, hb⟩ := bind_ok_inv hb
      cases hb
      rw [saSql_upper] at hq
      obtain ⟨x, hx, rfl⟩ := map_some hq
      rw [evalS]
      exact eval_upper ρ x _ (soundS s' a ka x (by simpa [C01.wfS] using hw) (by simpa [semOkS] using hs) ha hx)
  | .trim s', t, k, s, hw, hs, hb, hq => by
      rw [StrE.toExpr, visit_trim] at hb
      obtain ⟨⟨a, ka⟩, ha, hb⟩ := bind_ok_inv hb
      cases hb
      rw [saSql_trim] at hq
      obtain ⟨x, hx, rfl⟩ := map_some hq
      rw [evalS]
      exact eval_trim ρ x _ (soundS s' a ka x (by simpa [C01.wfS] using hw) (by simpa [semOkS] using hs) ha hx)
end

theorem soundIs : (xs : List IntE) → (items : List OTree) → (ts : SqlTrees) → C01.wfIs xs = true → semOkIs ρ xs = true →
    saVisitList fields core (intsToExprs xs) = .ok items → saSqlList (OTrees.ofList items) = some ts →
    sqlEvalList ρ ts = some ((evalIs ρ xs).map valI)
  | [], items, ts, _, _, hb, hq => by
      rw [intsToExprs, visitList_nil] at hb
      cases hb
      cases hq
      rw [sqlEvalList]; rfl
  | e :: t, items, ts, hw, hs, hb, hq => by
      simp only [C01.wfIs, Bool.and_eq_true] at hw
      simp only [semOkIs, Bool.and_eq_true] at hs
      rw [intsToExprs, visitList_cons] at hb
      obtain ⟨⟨a, ka⟩, ha, hb⟩ := bind_ok_inv hb
      obtain ⟨rest, hr, hb⟩ := bind_ok_inv hb
      cases hb
      rw [OTrees.ofList, saSqlList_cons] at hq
      obtain ⟨x, xs', hx, hxs, hq⟩ := lift2_some hq
      cases hq
      rw [sqlEvalList, soundI fields core ρ e a ka x hw.1 hs.1 ha hx, soundIs t rest xs' hw.2 hs.2 hr hxs]; rfl
theorem soundSs : (xs : List StrE) → (items : List OTree) → (ts : SqlTrees) → C01.wfSs xs = true → semOkSs ρ xs = true →
    saVisitList fields core (strsToExprs xs) = .ok items → saSqlList (OTrees.ofList items) = some ts →
    sqlEvalList ρ ts = some ((evalSs ρ xs).map valS)
  | [], items, ts, _, _, hb, hq => by
      rw [strsToExprs, visitList_nil] at hb
      cases hb
      cases hq
      rw [sqlEvalList]; rfl
  | e :: t, items, ts, hw, hs, hb, hq => by
      simp only [C01.wfSs, Bool.and_eq_true] at hw
      simp only [semOkSs, Bool.and_eq_true] at hs
      rw [strsToExprs, visitList_cons] at hb
      obtain ⟨⟨a, ka⟩, ha, hb⟩ := bind_ok_inv hb
      obtain ⟨rest, hr, hb⟩ := bind_ok_inv hb
      cases hb
      rw [OTrees.ofList, saSqlList_cons] at hq
      obtain ⟨x, xs', hx, hxs, hq⟩ := lift2_some hq
      cases hq
      rw [sqlEvalList, soundS fields core ρ e a ka x hw.1 hs.1 ha hx, soundSs t rest xs' hw.2 hs.2 hr hxs]; rfl

/-- `x in (…)`, when it is built -/
theorem in_inv {l : Expr} {xs : Exprs} {t : OTree} {kd : OKind}
    (h : saVisit fields core (.compare .in_ l (.list xs)) = .ok (t, kd)) :
    ∃ a ka items, saVisit fields core l = .ok (a, ka) ∧ saVisitList fields core xs = .ok items ∧
      (ka ≠ .list → t = on2 "in" a (.node "list" (OTrees.ofList items))) := by
  rw [visit_compare_in, visit_list] at h
  obtain ⟨⟨a, ka⟩, ha, h⟩ := bind_ok_inv h
  obtain ⟨⟨b, kb⟩, hb, h⟩ := bind_ok_inv h
  obtain ⟨items, hi, hb⟩ := bind_ok_inv hb
  cases hb
  refine ⟨a, ka, items, ha, hi, ?_⟩
  intro hka
  rw [if_pos (by decide), if_neg (by simp [hka])] at h
  cases h; rfl

theorem soundB : (b : BoolE) → (t : OTree) → (kd : OKind) → (s : SqlTree) → C01.wfB b = true → semOkB ρ b = true →
    saVisit fields core b.toExpr = .ok (t, kd) → saSql t = some s → sqlEval ρ s = some (v3ToVal (evalB ρ b))
  | .cmpI k l r, t, kd, s, hw, hs, hb, hq => by
      simp only [C01.wfB, Bool.and_eq_true] at hw
      simp only [semOkB, Bool.and_eq_true] at hs
      rw [BoolE.toExpr] at hb
      obtain ⟨a, ka, b, kb, ha, hb', ht⟩ := compare_inv fields core (C01.isNullLit_I l) hb
      obtain ⟨hka, hca⟩ := kindI fields core ha
      obtain ⟨hkb, hcb⟩ := kindI fields core hb'
      rw [ht hka hkb, saSql_cmp k a b (isNullConst_of_not_const hca) (isNullConst_of_not_const hcb)] at hq
      obtain ⟨x, y, hx, hy, hq⟩ := lift2_some hq
      cases hq
      have hel := soundI fields core ρ l a ka x hw.1 hs.1 ha hx
      have her := soundI fields core ρ r b kb y hw.2 hs.2 hb' hy
      have : evalB ρ (.cmpI k l r) = cmp2 (cmpInt k) (evalI ρ l) (evalI ρ r) := by
        rw [evalB]; cases evalI ρ l <;> cases evalI ρ r <;> rfl
      rw [this, eval_cmp ρ k x y _ _ hel her, cmpVals_int]
  | .cmpS k l r, t, kd, s, hw, hs, hb, hq => by
      simp only [C01.wfB, Bool.and_eq_true] at hw
      simp only [semOkB, Bool.and_eq_true] at hs
      rw [BoolE.toExpr] at hb
      obtain ⟨a, ka, b, kb, ha, hb', ht⟩ := compare_inv fields core (C01.isNullLit_S l) hb
      obtain ⟨hka, hca⟩ := kindS fields core ha
      obtain ⟨hkb, hcb⟩ := kindS fields core hb'
      rw [ht hka hkb, saSql_cmp k a b (isNullConst_of_not_const hca) (isNullConst_of_not_const hcb)] at hq
      obtain ⟨x, y, hx, hy, hq⟩ := lift2_some hq
      cases hq
      have hel := soundS fields core ρ l a ka x hw.1 hs.1 ha hx
      have her := soundS fields core ρ r b kb y hw.2 hs.2 hb' hy
      have : evalB ρ (.cmpS k l r) = cmp2 (cmpStr k) (evalS ρ l) (evalS ρ r) := by
        rw [evalB]; cases evalS ρ l <;> cases evalS ρ r <;> rfl
      rw [this, eval_cmp ρ k x y _ _ hel her, cmpVals_str]
  | .cmpB k l r, t, kd, s, hw, hs, hb, hq => by
      simp only [C01.wfB, Bool.and_eq_true] at hw
      simp only [semOkB, Bool.and_eq_true] at hs
      rw [BoolE.toExpr] at hb
      obtain ⟨a, ka, b, kb, ha, hb', ht⟩ := compare_inv fields core (C01.isNullLit_B l) hb
      obtain ⟨hka, hca⟩ := kindB fields core ha
      obtain ⟨hkb, hcb⟩ := kindB fields core hb'
      rw [ht hka hkb, saSql_cmp k a b hca hcb] at hq
      obtain ⟨x, y, hx, hy, hq⟩ := lift2_some hq
      cases hq
      have hel := soundB l a ka x hw.1.2 hs.1.2 ha hx
      have her := soundB r b kb y hw.2 hs.2 hb' hy
      have : evalB ρ (.cmpB k l r) = cmpB3 k (evalB ρ l) (evalB ρ r) := by
        rw [evalB]; cases evalB ρ l <;> cases evalB ρ r <;> rfl
      rw [this, eval_cmp ρ k x y _ _ hel her, cmpVals_bool k (by simpa using hw.1.1)]
  | .isNull kind c negated, t, kd, s, _, _, hb, hq => by
      rw [visit_isNull] at hb
      split at hb
      · cases hb
        cases negated
        · rw [if_neg (by decide), saSql_isNull] at hq
          cases hq
          rw [eval_isNull, evalB]; simp
        · rw [if_pos rfl, saSql_isNotNull] at hq
          cases hq
          rw [eval_isNotNull, evalB]; simp
      · cases hb
  | .inI e xs, t, kd, s, hw, hs, hb, hq => by
      simp only [C01.wfB, Bool.and_eq_true] at hw
      simp only [semOkB, Bool.and_eq_true] at hs
      rw [BoolE.toExpr] at hb
      obtain ⟨a, ka, items, ha, hi, ht⟩ := in_inv fields core hb
      rw [ht (kindI fields core ha).1, saSql_in] at hq
      obtain ⟨x, ts, hx, hts, hq⟩ := lift2_some hq
      cases hq
      rw [evalB]
      exact eval_inI ρ x ts _ _ (soundI fields core ρ e a ka x hw.1.1 hs.1.1 ha hx)
        (soundIs fields core ρ xs items ts hw.1.2 hs.1.2 hi hts)
  | .inS e xs, t, kd, s, hw, hs, hb, hq => by
      simp only [C01.wfB, Bool.and_eq_true] at hw
      simp only [semOkB, Bool.and_eq_true] at hs
      rw [BoolE.toExpr] at hb
      obtain ⟨a, ka, items, ha, hi, ht⟩ := in_inv fields core hb
      rw [ht (kindS fields core ha).1, saSql_in] at hq
      obtain ⟨x, ts, hx, hts, hq⟩ := lift2_some hq
      cases hq
      rw [evalB]
      exact eval_inS ρ x ts _ _ (soundS fields core ρ e a ka x hw.1.1 hs.1.1 ha hx)
        (soundSs fields core ρ xs items ts hw.1.2 hs.1.2 hi hts)
  | .and l r, t, kd, s, hw, hs, hb, hq => by
      simp only [C01.wfB, Bool.and_eq_true] at hw
      simp only [semOkB, Bool.and_eq_true] at hs
      rw [BoolE.toExpr, visit_boolop] at hb
      obtain ⟨⟨a, ka⟩, ha, hb⟩ := bind_ok_inv hb
      obtain ⟨⟨b, kb⟩, hb', hb⟩ := bind_ok_inv hb
      cases hb
      rw [saSql_bool] at hq
      obtain ⟨x, y, hx, hy, hq⟩ := lift2_some hq
      cases hq
      rw [evalB]
      exact eval_and ρ x y _ _ (soundB l a ka x hw.1 hs.1 ha hx) (soundB r b kb y hw.2 hs.2 hb' hy)
  | .or l r, t, kd, s, hw, hs, hb, hq => by
      simp only [C01.wfB, Bool.and_eq_true] at hw
      simp only [semOkB, Bool.and_eq_true] at hs
      rw [BoolE.toExpr, visit_boolop] at hb
      obtain ⟨⟨a, ka⟩, ha, hb⟩ := bind_ok_inv hb
      obtain ⟨⟨b, kb⟩, hb', hb⟩ := bind_ok_inv hb
      cases hb
      rw [saSql_bool] at hq
      obtain ⟨x, y, hx, hy, hq⟩ := lift2_some hq
      cases hq
      rw [evalB]
      exact eval_or ρ x y _ _ (soundB l a ka x hw.1 hs.1 ha hx) (soundB r b kb y hw.2 hs.2 hb' hy)
  | .not e, t, kd, s, hw, hs, hb, hq => by
      rw [BoolE.toExpr, visit_unary] at hb
      obtain ⟨⟨a, ka⟩, ha, hb⟩ := bind_ok_inv hb
      rw [if_pos (by decide)] at hb
      cases hb
      rw [saSql_un] at hq
      obtain ⟨x, hx, rfl⟩ := map_some hq
      rw [evalB]
      exact eval_not ρ x _ (soundB e a ka x (by simpa [C01.wfB] using hw) (by simpa [semOkB] using hs) ha hx)
  | .like k a b, t, kd, s, hw, hs, hb, hq => by
      simp only [C01.wfB, Bool.and_eq_true] at hw
      simp only [semOkB, Bool.and_eq_true] at hs
      rw [BoolE.toExpr, visit_like] at hb
      obtain ⟨_, _, hb⟩ := bind_ok_inv hb
      obtain ⟨⟨a', ka⟩, ha, hb⟩ := bind_ok_inv hb
      obtain ⟨⟨b', kb⟩, hb', hb⟩ := bind_ok_inv hb
      cases hb
      have hcond : ∀ h n, evalS ρ a = some h → evalS ρ b = some n →
          likeCI k h n = likeSem k h n ∧ (isLitS b = true ∨ hasLikeMeta n = false) := by
        intro h n ha hb
        have := hs.2
        rw [ha, hb] at this
        simpa using this
      have hev : evalB ρ (.like k a b) = cmp2 (likeSem k) (evalS ρ a) (evalS ρ b) := by
        rw [evalB]; cases evalS ρ a <;> cases evalS ρ b <;> rfl
      have hci : cmp2 (likeCI k) (evalS ρ a) (evalS ρ b) = cmp2 (likeSem k) (evalS ρ a) (evalS ρ b) := by
        cases ha : evalS ρ a with
        | none => rfl
        | some h =>
          cases hb : evalS ρ b with
          | none => rfl
          | some n => simp only [cmp2, (hcond h n ha hb).1]
      rw [hev, ← hci]
      cases hl : isLitS b with
      | true =>
        cases b with
        | lit n =>
          rw [StrE.toExpr, visit_strLit] at hb'
          cases hb'
          have hn : evalS ρ (.lit n) = some n := by rw [evalS]
          rw [hn]
          rw [StrE.toExpr] at hq
          cases hne : litNeedsEscape (.lit .str n) with
          | true =>
            rw [hne, if_pos rfl, saSql_like_esc] at hq
            obtain ⟨x, hx, rfl⟩ := map_some hq
            exact eval_like_sa_esc ρ k x _ n (soundS fields core ρ a a' ka x hw.1 hs.1.1 ha hx)
          | false =>
            rw [hne, if_neg (by decide), saSql_like] at hq
            obtain ⟨x, p, hx, hp, hq⟩ := lift2_some hq
            cases hq
            cases hp
            refine eval_like_sa ρ k x _ _ (some n) (soundS fields core ρ a a' ka x hw.1 hs.1.1 ha hx) (eval_str ρ n) ?_
            intro h n' _ hn'
            cases hn'
            exact noMeta_of_not_needsEscape n hne
        | _ => simp [isLitS] at hl
      | false =>
        rw [litNeedsEscape_nonlit b hl, if_neg (by decide), saSql_like] at hq
        obtain ⟨x, p, hx, hp, hq⟩ := lift2_some hq
        cases hq
        refine eval_like_sa ρ k x p _ _ (soundS fields core ρ a a' ka x hw.1 hs.1.1 ha hx)
          (soundS fields core ρ b b' kb p hw.2 hs.1.2 hb' hp) ?_
        intro h n ha hb
        rcases (hcond h n ha hb).2 with h1 | h1
        · rw [hl] at h1; cases h1
        · exact h1
  | .col c, t, kd, s, _, hs, hb, hq => by
      rw [BoolE.toExpr, visit_id] at hb
      split at hb
      · cases hb
        cases hq
        rw [eval_col, C01.ofVal_bool ρ c hs]
      · cases hb
  | .lit b, t, kd, s, _, _, hb, hq => by
      rw [BoolE.toExpr, visit_boolLit'] at hb
      cases hb
      rw [evalB]
      cases b
      · cases hq; exact eval_boolLit ρ false
      · cases hq; exact eval_boolLit ρ true
end Sound

/-! ### building blocks of `sa_translates` -/
section Fwd
variable (fields : List Str) (core : Bool)

theorem compare_fwd (k : CmpK) {l r : Expr} {a b : OTree} {ka kb : OKind} (hn : isNullLit l = false)
    (ha : saVisit fields core l = .ok (a, ka)) (hb : saVisit fields core r = .ok (b, kb))
    (hka : ka ≠ .list) (hkb : kb ≠ .list)
    (h : ((k.toOp == .lt || k.toOp == .le || k.toOp == .gt || k.toOp == .ge) && (isConstT a || isConstT b)) = false) :
    saVisit fields core (.compare k.toOp l r) = .ok (on2 (cmpLookup k.toOp) a b, .cond) := by
  rw [visit_compare _ _ _ _ _ hn, ha, hb]
  simp only [Outcome.bind_ok, toOp_in, Bool.false_eq_true, if_false]
  rw [if_neg (by simp [hka, hkb]), h]
  rfl

theorem substrTypecheck_ok {a b : Expr} (ha : strTy (inferType a)) (hb : strTy (inferType b)) :
    substrTypecheck a b = .ok () := by
  unfold substrTypecheck
  rcases ha with ha | ha <;> rcases hb with hb | hb <;> rw [ha, hb] <;> rfl

theorem like_fwd (k : LikeK) (a b : StrE) {a' b' : OTree} {ka kb : OKind} {x p : SqlTree}
    (ha : saVisit fields core a.toExpr = .ok (a', ka)) (hb : saVisit fields core b.toExpr = .ok (b', kb))
    (hx : saSql a' = some x) (hp : saSql b' = some p) :
    ∃ t s, saVisit fields core (BoolE.like k a b).toExpr = .ok (t, .cond) ∧ saSql t = some s := by
  rw [BoolE.toExpr, visit_like, substrTypecheck_ok (strTy_toExpr a) (strTy_toExpr b), ha, hb]
  simp only [Outcome.bind_ok]
  cases hl : isLitS b with
  | true =>
    cases b with
    | lit n =>
      rw [StrE.toExpr, visit_strLit] at hb
      cases hb
      rw [StrE.toExpr]
      cases hne : litNeedsEscape (.lit .str n) with
      | true =>
        exact ⟨_, _, rfl, by rw [if_pos rfl, saSql_like_esc, hx]; rfl⟩
      | false =>
        exact ⟨_, _, rfl, by rw [if_neg (by decide), saSql_like, hx, hp]; rfl⟩
    | _ => simp [isLitS] at hl
  | false =>
    rw [litNeedsEscape_nonlit b hl]
    exact ⟨_, _, rfl, by rw [if_neg (by decide), saSql_like, hx, hp]; rfl⟩
end Fwd

end OQ.SaSound
