/-
  Lemmas/ParseImage.lean — the parser preserves token payload guarantees: if every literal / identifier
  token has a payload of the guaranteed shape, the accepted tree satisfies `litOk` and `durOk`.
-/
import ODataVerif.Model.Lexer
import ODataVerif.Model.Parser
import ODataVerif.Model.SqlPieces
import ODataVerif.Lemmas.SqlTotal
import ODataVerif.Lemmas.Totality
set_option linter.unusedSimpArgs false
set_option linter.unusedVariables false
namespace OQ.ParseImage
open SqlTotal

theorem athenaClean_noquote (n : Str) : (athenaClean n).contains '"' = false := by
  apply Bool.eq_false_iff.mpr
  intro hc
  rw [List.contains_iff_mem] at hc
  unfold athenaClean at hc
  rw [List.mem_flatMap] at hc
  obtain ⟨c, _, hc⟩ := hc
  split at hc
  · revert hc; decide
  · dsimp only at hc
    split at hc
    · rename_i hw
      simp only [List.mem_singleton] at hc
      rw [← hc] at hw
      revert hw; decide
    · revert hc; decide

theorem nameOk_of (d : Dialect) (n : Str) (h : n.contains '"' = false) : nameOk d n = true := by
  unfold nameOk
  split
  · rw [athenaClean_noquote]; rfl
  · rw [h]; rfl

section
variable (isD : Char → Bool) (d : Dialect)

def Inv (e : Expr) : Prop := litOk isD d e = true ∧ durOk isD e = true
def InvL (xs : Exprs) : Prop := litOkList isD d xs = true ∧ durOkList isD xs = true
def InvLam (l : OptLam) : Prop := durOkLam isD l = true

theorem invL_snoc : ∀ (acc : Exprs) (e : Expr), InvL isD d acc → Inv isD d e → InvL isD d (acc.snoc e)
  | .nil, e, ha, he => by
    simp only [Exprs.snoc, InvL, litOkList, durOkList, Bool.and_true]
    exact he
  | .cons h t, e, ha, he => by
    simp only [Exprs.snoc, InvL, litOkList, durOkList, Bool.and_eq_true] at ha ⊢
    have := invL_snoc t e ⟨ha.1.2, ha.2.2⟩ he
    exact ⟨⟨ha.1.1, this.1⟩, ha.2.1, this.2⟩

theorem litOk_foldl (names : List Str) : ∀ base : Expr,
    litOk isD d (names.foldl (fun o n => .attr o n) base) = litOk isD d base := by
  induction names with
  | nil => intro base; rfl
  | cons n ns ih => intro base; simp only [List.foldl_cons]; rw [ih]; simp only [litOk]

theorem durOk_foldl (names : List Str) : ∀ base : Expr,
    durOk isD (names.foldl (fun o n => .attr o n) base) = durOk isD base := by
  induction names with
  | nil => intro base; rfl
  | cons n ns ih => intro base; simp only [List.foldl_cons]; rw [ih]; simp only [durOk]

theorem pathCons_inv (i : Ident) (tail e : Expr) (hi : i.name.contains '"' = false)
    (ht : Inv isD d tail) (h : pathCons i tail = .ok e) : Inv isD d e := by
  have hn := nameOk_of d i.name hi
  unfold pathCons at h
  split at h
  · split at h
    · simp only [rebuildPath] at h
      cases h
      simp only [Inv, litOk_foldl, durOk_foldl, litOk, durOk, hn, and_self]
    · cases h
  · rename_i owner op lam
    have hl : durOkLam isD lam = true := by
      have := ht.2; simp only [durOk, Bool.and_eq_true] at this; exact this.2
    split at h
    · split at h
      · simp only [rebuildPath] at h
        cases h
        simp only [Inv, litOk_foldl, durOk_foldl, litOk, durOk, hn, hl, Bool.and_self, and_self]
      · cases h
    · cases h
      simp only [Inv, litOk, durOk, hn, hl, Bool.and_self, and_self]
    · cases h
  · cases h
    simp only [Inv, litOk, durOk, hn, and_self]
  · cases h

variable (ok : Tok → Bool)

abbrev G {α : Type} (P : α → Prop) (x : Except PErr (α × List Tok)) : Prop :=
  Res (fun a r => P a ∧ r.all ok = true) (fun _ => True) x

theorem skipWs_all (ts : List Tok) (h : ts.all ok = true) : (skipWs ts).all ok = true := by
  unfold skipWs; split <;> simp_all

theorem finishCall_inv (lexErr f args) (rest : List Tok) (ha : InvL isD d args) (hr : rest.all ok = true) :
    G ok (Inv isD d) (finishCall lexErr f args rest) := by
  have key : G ok (Inv isD d) (liftOutcome (functionCall f args) rest) := by
    unfold functionCall functionCallWith
    split
    · split
      · simp [liftOutcome]
      · split
        · simp [liftOutcome]
        · simp only [liftOutcome, Res_ok, Inv, litOk, durOk]; exact ⟨ha, hr⟩
    · simp only [liftOutcome, Res_ok, Inv, litOk, durOk]; exact ⟨ha, hr⟩
  unfold finishCall
  split
  · split
    · simp
    · exact key
  · split
    · exact key
    · simp

variable (lexErr : Bool)

def NI (f : Nat) : Prop :=
  (∀ min ts, ts.all ok = true → G ok (Inv isD d) (parseExpr lexErr f min ts)) ∧
  (∀ min lhs ts, Inv isD d lhs → ts.all ok = true → G ok (Inv isD d) (parseLoop lexErr f min lhs ts)) ∧
  (∀ ts, ts.all ok = true → G ok (Inv isD d) (parsePrefix lexErr f ts)) ∧
  (∀ ts, ts.all ok = true → G ok (Inv isD d) (parseParen lexErr f ts)) ∧
  (∀ acc ts, InvL isD d acc → ts.all ok = true → G ok (InvL isD d) (parseItems lexErr f acc ts)) ∧
  (∀ ts, ts.all ok = true → G ok (Inv isD d) (parseListExpr lexErr f ts)) ∧
  (∀ i ts, ts.all ok = true → G ok (Inv isD d) (parseCallArgs lexErr f i ts)) ∧
  (∀ i acc ts, InvL isD d acc → ts.all ok = true → G ok (Inv isD d) (parseNamedRest lexErr f i acc ts)) ∧
  (∀ i ts, i.name.contains '"' = false → ts.all ok = true → G ok (Inv isD d) (parsePath lexErr f i ts)) ∧
  (∀ ts, ts.all ok = true → G ok (InvLam isD) (parseLambda lexErr f ts))

theorem ni_zero : NI isD d ok lexErr 0 := by
  refine ⟨?_, ?_, ?_, ?_, ?_, ?_, ?_, ?_, ?_, ?_⟩ <;> intros <;>
    simp [parseExpr, parseLoop, parsePrefix, parseParen, parseItems, parseListExpr, parseCallArgs,
      parseNamedRest, parsePath, parseLambda]

variable (hlit : ∀ k v, ok (.lit k v) = true → litTextOk isD k v = true ∧ durLitOk isD k v = true)
variable (hid : ∀ i : Ident, ok (.ident i) = true → i.name.contains '"' = false)

theorem inv_single (e : Expr) (he : Inv isD d e) : InvL isD d (.cons e .nil) := by
  simp only [InvL, litOkList, durOkList, Bool.and_true]; exact he

theorem inv_list (xs : Exprs) (h : InvL isD d xs) : Inv isD d (.list xs) := by
  simp only [Inv, litOk, durOk]; exact h

theorem inv_bin (l r : Expr) (hl : Inv isD d l) (hr : Inv isD d r) :
    (∀ o, Inv isD d (.boolop o l r)) ∧ (∀ o, Inv isD d (.compare o l r)) ∧ (∀ o, Inv isD d (.binop o l r)) := by
  simp only [Inv, litOk, durOk, Bool.and_eq_true]
  exact ⟨fun _ => ⟨⟨hl.1, hr.1⟩, hl.2, hr.2⟩, fun _ => ⟨⟨hl.1, hr.1⟩, hl.2, hr.2⟩, fun _ => ⟨⟨hl.1, hr.1⟩, hl.2, hr.2⟩⟩

include hlit hid in
theorem ni_succ (f) (ih : NI isD d ok lexErr f) : NI isD d ok lexErr (f + 1) := by
  obtain ⟨ihE, ihL, ihP, ihPar, ihI, ihLE, ihCA, ihNR, ihPath, ihLam⟩ := ih
  refine ⟨?_, ?_, ?_, ?_, ?_, ?_, ?_, ?_, ?_, ?_⟩
  · intro min ts hts
    simp only [parseExpr]
    exact Res.bind (ihP ts hts) (fun lhs r h => ihL min lhs r h.1 h.2)
  · intro min lhs ts hl hts
    simp only [parseLoop]
    split
    · simp only [List.all_cons, Bool.and_eq_true] at hts
      split
      · exact Res.bind (ihE _ _ hts.2) (fun rhs r' h => ihL _ _ r' ((inv_bin isD d _ _ hl h.1).1 _) h.2)
      · simp [hl, hts]
    · simp only [List.all_cons, Bool.and_eq_true] at hts
      split
      · exact Res.bind (ihLE _ hts.2) (fun rhs r' h => ihL _ _ r' ((inv_bin isD d _ _ hl h.1).2.1 _) h.2)
      · simp [hl, hts]
    · simp only [List.all_cons, Bool.and_eq_true] at hts
      split
      · exact Res.bind (ihE _ _ hts.2) (fun rhs r' h => ihL _ _ r' ((inv_bin isD d _ _ hl h.1).2.1 _) h.2)
      · simp [hl, hts]
    · simp only [List.all_cons, Bool.and_eq_true] at hts
      split
      · exact Res.bind (ihE _ _ hts.2) (fun rhs r' h => ihL _ _ r' ((inv_bin isD d _ _ hl h.1).2.2 _) h.2)
      · simp [hl, hts]
    · simp [hl, hts]
  · intro ts hts
    simp only [parsePrefix]
    split
    · simp only [List.all_cons, Bool.and_eq_true] at hts
      refine Res.bind (ihE _ _ hts.2) (fun e r' h => ?_)
      simp only [Res_pure, Inv, litOk, durOk]; exact h
    · simp only [List.all_cons, Bool.and_eq_true] at hts
      refine Res.bind (ihE _ _ (skipWs_all ok _ hts.2)) (fun e r' h => ?_)
      simp only [Res_pure, Inv, litOk, durOk]; exact h
    · simp only [List.all_cons, Bool.and_eq_true] at hts
      simp only [Res_ok, Inv, litOk, durOk]
      exact ⟨hlit _ _ hts.1, hts.2⟩
    · simp only [List.all_cons, Bool.and_eq_true] at hts
      exact ihPar _ (skipWs_all ok _ hts.2)
    · simp only [List.all_cons, Bool.and_eq_true] at hts
      exact finishCall_inv isD d ok _ _ _ _ ⟨rfl, rfl⟩ hts.2.2.2
    · simp only [List.all_cons, Bool.and_eq_true] at hts
      exact ihCA _ _ (skipWs_all ok _ hts.2.2)
    · simp only [List.all_cons, Bool.and_eq_true] at hts
      exact ihPath _ _ (hid _ hts.1) hts.2
    · simp
  · intro ts hts
    simp only [parseParen]
    refine Res.bind (ihE _ _ hts) ?_
    intro e r h
    dsimp only
    have hs := skipWs_all ok _ h.2
    split
    · rename_i heq
      rw [heq] at hs
      simp only [List.all_cons, Bool.and_eq_true] at hs
      simp only [Res_pure]; exact ⟨h.1, hs.2⟩
    · rename_i r' heq
      rw [heq] at hs
      simp only [List.all_cons, Bool.and_eq_true] at hs
      have hs2 := skipWs_all ok _ hs.2
      split
      · rename_i heq2
        rw [heq2] at hs2
        simp only [List.all_cons, Bool.and_eq_true] at hs2
        simp only [Res_pure]
        exact ⟨inv_list isD d _ (inv_single isD d _ h.1), hs2.2⟩
      · refine Res.bind (ihI _ _ (inv_single isD d _ h.1) hs2) (fun items r3 h3 => ?_)
        simp only [Res_pure]
        exact ⟨inv_list isD d _ h3.1, h3.2⟩
    · simp
  · intro acc ts hacc hts
    simp only [parseItems]
    refine Res.bind (ihE _ _ hts) ?_
    intro e r h
    dsimp only
    have hs := skipWs_all ok _ h.2
    have hsn := invL_snoc isD d acc e hacc h.1
    split
    · rename_i heq
      rw [heq] at hs
      simp only [List.all_cons, Bool.and_eq_true] at hs
      simp only [Res_pure]; exact ⟨hsn, hs.2⟩
    · rename_i r' heq
      rw [heq] at hs
      simp only [List.all_cons, Bool.and_eq_true] at hs
      exact ihI _ _ hsn (skipWs_all ok _ hs.2)
    · simp
  · intro ts hts
    simp only [parseListExpr]
    split
    · simp only [List.all_cons, Bool.and_eq_true] at hts
      refine Res.bind (ihE _ _ (skipWs_all ok _ hts.2)) ?_
      intro e r h
      dsimp only
      have hs := skipWs_all ok _ h.2
      split
      · rename_i r' heq
        rw [heq] at hs
        simp only [List.all_cons, Bool.and_eq_true] at hs
        have hs2 := skipWs_all ok _ hs.2
        split
        · rename_i heq2
          rw [heq2] at hs2
          simp only [List.all_cons, Bool.and_eq_true] at hs2
          simp only [Res_pure]
          exact ⟨inv_list isD d _ (inv_single isD d _ h.1), hs2.2⟩
        · refine Res.bind (ihI _ _ (inv_single isD d _ h.1) hs2) (fun items r3 h3 => ?_)
          simp only [Res_pure]
          exact ⟨inv_list isD d _ h3.1, h3.2⟩
      · simp
    · simp
  · intro i ts hts
    simp only [parseCallArgs]
    split
    · simp only [List.all_cons, Bool.and_eq_true] at hts
      refine Res.bind (ihE _ _ hts.2.2) (fun e r1 h => ihNR _ _ r1 ?_ h.2)
      simp only [InvL, litOkList, durOkList, litOk, durOk, Bool.and_true]; exact h.1
    · refine Res.bind (ihE _ _ hts) ?_
      intro e r h
      dsimp only
      have hs := skipWs_all ok _ h.2
      split
      · rename_i heq
        rw [heq] at hs
        simp only [List.all_cons, Bool.and_eq_true] at hs
        exact finishCall_inv isD d ok _ _ _ _ (inv_single isD d _ h.1) hs.2
      · rename_i r' heq
        rw [heq] at hs
        simp only [List.all_cons, Bool.and_eq_true] at hs
        have hs2 := skipWs_all ok _ hs.2
        split
        · rename_i heq2
          rw [heq2] at hs2
          simp only [List.all_cons, Bool.and_eq_true] at hs2
          exact finishCall_inv isD d ok _ _ _ _ (inv_single isD d _ h.1) hs2.2
        · exact Res.bind (ihI _ _ (inv_single isD d _ h.1) hs2)
            (fun items r4 h4 => finishCall_inv isD d ok _ _ _ _ h4.1 h4.2)
      · simp
  · intro i acc ts hacc hts
    simp only [parseNamedRest]
    have hs := skipWs_all ok _ hts
    split
    · rename_i heq
      rw [heq] at hs
      simp only [List.all_cons, Bool.and_eq_true] at hs
      exact finishCall_inv isD d ok _ _ _ _ hacc hs.2
    · rename_i r heq
      rw [heq] at hs
      simp only [List.all_cons, Bool.and_eq_true] at hs
      have hs2 := skipWs_all ok _ hs.2
      split
      · rename_i heq2
        rw [heq2] at hs2
        simp only [List.all_cons, Bool.and_eq_true] at hs2
        refine Res.bind (ihE _ _ hs2.2.2) (fun e r1 h => ihNR _ _ r1 ?_ h.2)
        refine invL_snoc isD d _ _ hacc ?_
        simp only [Inv, litOk, durOk]; exact h.1
      · simp
      · simp
    · simp
  · intro i ts hi hts
    have hn := nameOk_of d i.name hi
    simp only [parsePath]
    split
    · simp only [List.all_cons, Bool.and_eq_true] at hts
      refine Res.bind (ihPath _ _ (hid _ hts.2.1) hts.2.2) ?_
      intro tail r' ht
      cases hp : pathCons i tail with
      | ok e =>
        simp only [liftOutcome, Res_ok]
        exact ⟨pathCons_inv isD d i tail e hi ht.1 hp, ht.2⟩
      | lib _ => simp [liftOutcome]
      | notImplemented => simp [liftOutcome]
      | foreign _ => simp [liftOutcome]
    · simp only [List.all_cons, Bool.and_eq_true] at hts
      have hs := skipWs_all ok _ hts.2.2.2
      split
      · rename_i heq
        rw [heq] at hs
        simp only [List.all_cons, Bool.and_eq_true] at hs
        simp only [Res_pure, Inv, litOk, durOk, durOkLam, hn, Bool.and_self, and_self, true_and]
        exact hs.2
      · refine Res.bind (ihLam _ hs) ?_
        intro lam r2 h2
        dsimp only
        have hs2 := skipWs_all ok _ h2.2
        rcases expectRp_cases lexErr (skipWs r2) with ⟨r3, h3, h4⟩ | ⟨e, _, he, h4⟩
        · rw [h4]; rw [h3] at hs2
          simp only [List.all_cons, Bool.and_eq_true] at hs2
          simp only [bind, Except.bind, Res_pure, Inv, litOk, durOk, hn, Bool.true_and, true_and]
          exact ⟨h2.1, hs2.2⟩
        · rw [h4]; simp [bind, Except.bind]
    · simp only [List.all_cons, Bool.and_eq_true] at hts
      have hs := skipWs_all ok _ hts.2.2.2
      refine Res.bind (ihLam _ hs) ?_
      intro lam r2 h2
      dsimp only
      have hs2 := skipWs_all ok _ h2.2
      rcases expectRp_cases lexErr (skipWs r2) with ⟨r3, h3, h4⟩ | ⟨e, _, he, h4⟩
      · rw [h4]; rw [h3] at hs2
        simp only [List.all_cons, Bool.and_eq_true] at hs2
        simp only [bind, Except.bind, Res_pure, Inv, litOk, durOk, hn, Bool.true_and, true_and]
        exact ⟨h2.1, hs2.2⟩
      · rw [h4]; simp [bind, Except.bind]
    · simp
    · simp
    · simp
    · simp only [Res_ok, Inv, litOk, durOk, hn, and_self, true_and]; exact hts
  · intro ts hts
    simp only [parseLambda]
    split
    · simp only [List.all_cons, Bool.and_eq_true] at hts
      have hs := skipWs_all ok _ hts.2
      split
      · rename_i heq
        rw [heq] at hs
        simp only [List.all_cons, Bool.and_eq_true] at hs
        refine Res.bind (ihE _ _ (skipWs_all ok _ hs.2)) (fun e r1 h => ?_)
        simp only [Res_pure, InvLam, durOkLam]; exact ⟨h.1.2, h.2⟩
      · simp
    · simp

include hlit hid in
theorem ni_all : ∀ f, NI isD d ok lexErr f
  | 0 => ni_zero isD d ok lexErr
  | f + 1 => ni_succ isD d ok lexErr hlit hid f (ni_all f)

end

/-- every literal / identifier token has a payload of the guaranteed shape => the accepted tree satisfies litOk and durOk -/
theorem parseToks_litOk (isD : Char → Bool) (ok : Tok → Bool)
    (hlit : ∀ k v, ok (.lit k v) = true → litTextOk isD k v = true ∧ SqlTotal.durLitOk isD k v = true)
    (hid : ∀ i : Ident, ok (.ident i) = true → i.name.contains '"' = false)
    (d : Dialect) (lexErr : Option Nat) (ts : List Tok) (e : Expr)
    (hts : ts.all ok = true) (h : parseToks lexErr ts = .ok e) :
    litOk isD d e = true ∧ SqlTotal.durOk isD e = true := by
  have key := (ni_all isD d ok lexErr.isSome hlit hid (parseFuel ts)).1 0 ts hts
  unfold parseToks at h
  split at h
  · rename_i e' heq
    split at h
    · cases h
    · cases h
      rw [heq] at key
      exact key.1
  all_goals cases h

end OQ.ParseImage
