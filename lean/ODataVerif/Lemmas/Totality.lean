/-
  Lemmas/Totality.lean — helper lemmas for Props/C10Total.lean: every scanner of the lexer consumes
  input, and invariants of the fuelled parser.
-/
import ODataVerif.Model.Lexer
import ODataVerif.Model.Parser
set_option linter.unusedSimpArgs false
set_option linter.unusedVariables false
namespace OQ

/-! ### lexer: every scanner returns a (strict) suffix -/
section Lexer
variable (env : CharEnv)


theorem kw_len : ∀ (p cs m r : List Char), kw env p cs = some (m, r) → r.length + p.length = cs.length
  | [], cs, m, r, h => by simp [kw] at h; simp [h.2]
  | _ :: _, [], m, r, h => by simp [kw] at h
  | p :: ps, c :: cs, m, r, h => by
      simp only [kw] at h
      split at h
      · split at h
        · rename_i m' r' heq
          simp at h
          have := kw_len ps cs m' r' heq
          simp [← h.2]; omega
        · simp at h
      · simp at h

theorem span_len (p : Char → Bool) : ∀ cs : List Char, (span p cs).1.length + (span p cs).2.length = cs.length
  | [] => by simp [span]
  | c :: cs => by
      simp only [span]
      split
      · have := span_len p cs
        simp; omega
      · simp

theorem span1_len (p : Char → Bool) (cs a r : List Char) (h : span1 p cs = some (a, r)) : r.length < cs.length := by
  unfold span1 at h
  have := span_len p cs
  split at h
  · simp at h
  · rename_i a' b' hne heq
    simp at h
    rw [heq] at this
    obtain ⟨rfl, rfl⟩ := h
    cases a' with
    | nil => exact (hne rfl).elim
    | cons x xs => simp at this; omega

theorem takeN_len (p : Char → Bool) : ∀ (n : Nat) (cs m r : List Char), takeN p n cs = some (m, r) → r.length + n = cs.length
  | 0, cs, m, r, h => by simp [takeN] at h; simp [h.2]
  | _ + 1, [], m, r, h => by simp [takeN] at h
  | n + 1, c :: cs, m, r, h => by
      simp only [takeN] at h
      split at h
      · split at h
        · rename_i m' r' heq
          simp at h
          have := takeN_len p n cs m' r' heq
          simp [← h.2]; omega
        · simp at h
      · simp at h

theorem takeUpTo_len (p : Char → Bool) : ∀ (n : Nat) (cs : List Char), (takeUpTo p n cs).2.length ≤ cs.length
  | 0, cs => by simp [takeUpTo]
  | _ + 1, [] => by simp [takeUpTo]
  | n + 1, c :: cs => by
      simp only [takeUpTo]
      split
      · have := takeUpTo_len p n cs
        simp; omega
      · simp

theorem durGroup_len (l : Char) (cs : List Char) : (durGroup env l cs).2.length ≤ cs.length := by
  unfold durGroup
  split
  · rename_i ds c r heq
    have := span1_len _ _ _ _ heq
    split <;> simp at * <;> omega
  · simp

theorem durSeconds_len (cs : List Char) : (durSeconds env cs).2.length ≤ cs.length := by
  unfold durSeconds
  split
  · rename_i ds r heq
    have := span1_len _ _ _ _ heq
    split
    · rename_i fs c r' heq'
      have := span1_len _ _ _ _ heq'
      split <;> simp at * <;> omega
    · simp
  · rename_i ds c r heq
    have := span1_len _ _ _ _ heq
    split <;> simp at * <;> omega
  · simp

grind_pattern durGroup_len => durGroup env l cs
grind_pattern durSeconds_len => durSeconds env cs

theorem scanDuration_len (cs : List Char) (v r) (h : scanDuration env cs = some (v, r)) : r.length < cs.length := by
  unfold scanDuration at h
  simp only [Option.bind_eq_bind, Option.bind_eq_some_iff] at h
  obtain ⟨⟨m1, r1⟩, h1, ⟨m2, r2⟩, h2, h3⟩ := h
  have l1 := kw_len _ _ _ _ _ h1
  have l2 := kw_len _ _ _ _ _ h2
  simp at l1
  grind

theorem strBody_len (cs b r : List Char) (h : strBody cs = some (b, r)) : r.length < cs.length := by
  fun_induction strBody cs generalizing b r with
  | case1 => simp at h
  | case2 t b' r' heq ih =>
      have := ih _ _ heq
      simp at h; simp_all; omega
  | case3 t heq => simp at h; simp [← h.2]
  | case4 t hne => simp at h; simp_all
  | case5 c t hne1 hne2 b' r' heq ih =>
      have := ih _ _ heq
      simp at h; simp_all; omega
  | case6 => simp at h

theorem scanString_len (cs : List Char) (v r) (h : scanString cs = some (v, r)) : r.length < cs.length := by
  unfold scanString at h
  split at h
  · simp only [Option.bind_eq_bind, Option.bind_eq_some_iff] at h
    obtain ⟨⟨b, r'⟩, h1, h2⟩ := h
    have := strBody_len _ _ _ h1
    simp at h2; simp_all; omega
  · simp at h

theorem scanGeography_len (cs : List Char) (v r) (h : scanGeography env cs = some (v, r)) : r.length < cs.length := by
  unfold scanGeography at h
  simp only [Option.bind_eq_bind, Option.bind_eq_some_iff] at h
  obtain ⟨⟨b, r'⟩, h1, h2⟩ := h
  have := strBody_len _ _ _ h2
  have := kw_len _ _ _ _ _ h1
  simp_all; omega

theorem scanGuid_len (cs : List Char) (v r) (h : scanGuid env cs = some (v, r)) : r.length < cs.length := by
  unfold scanGuid at h
  simp only [Option.bind_eq_bind, Option.bind_eq_some_iff] at h
  obtain ⟨⟨a, r1⟩, h1, h⟩ := h
  have := takeN_len _ _ _ _ _ h1
  split at h <;> simp only [Option.bind_some, Option.bind_none, Option.bind_eq_some_iff, reduceCtorEq] at h
  obtain ⟨⟨a, r2⟩, h2, h⟩ := h
  have := takeN_len _ _ _ _ _ h2
  split at h <;> simp only [Option.bind_some, Option.bind_none, Option.bind_eq_some_iff, reduceCtorEq] at h
  obtain ⟨⟨a, r3⟩, h3, h⟩ := h
  have := takeN_len _ _ _ _ _ h3
  split at h <;> simp only [Option.bind_some, Option.bind_none, Option.bind_eq_some_iff, reduceCtorEq] at h
  obtain ⟨⟨a, r4⟩, h4, h⟩ := h
  have := takeN_len _ _ _ _ _ h4
  split at h <;> simp only [Option.bind_some, Option.bind_none, Option.bind_eq_some_iff, reduceCtorEq] at h
  obtain ⟨⟨a, r5⟩, h5, h⟩ := h
  have := takeN_len _ _ _ _ _ h5
  simp at h
  simp_all
  omega

theorem scanDatePart_len (cs : List Char) (v r) (h : scanDatePart env cs = some (v, r)) : r.length + 10 = cs.length := by
  unfold scanDatePart at h
  split at h
  · split at h <;> simp at h
    simp [← h.2]
  · simp at h

theorem scanHourMinute_len (cs : List Char) (v r) (h : scanHourMinute env cs = some (v, r)) : r.length + 5 = cs.length := by
  unfold scanHourMinute at h
  split at h
  · split at h <;> simp at h
    simp [← h.2]
  · simp at h

theorem scanFraction_len (cs : List Char) : (scanFraction env cs).2.length ≤ cs.length := by
  unfold scanFraction
  split
  · rename_i r
    have := takeUpTo_len env.isDigit 12 r
    split
    · simp
    · rename_i ds r' hne heq
      rw [heq] at this
      simp at this ⊢; omega
  · simp

theorem scanSeconds_len (cs : List Char) (v r) (h : scanSeconds env cs = some (v, r)) : r.length < cs.length := by
  unfold scanSeconds at h
  split at h
  · rename_i s1 s2 r0
    have := scanFraction_len env r0
    split at h <;> simp at h
    simp [← h.2]; omega
  · rename_i s1 s2 r0 _
    have := scanFraction_len env r0
    split at h <;> simp at h
    simp [← h.2]; omega
  · simp at h

theorem scanOffset_len (cs : List Char) : (scanOffset env cs).2.length ≤ cs.length := by
  unfold scanOffset
  split
  · split
    · simp
    · split
      · split
        · rename_i hm r' heq
          have := scanHourMinute_len _ _ _ _ heq
          simp; omega
        · simp
      · simp
  · simp

theorem scanDateTime_len (cs : List Char) (v r) (h : scanDateTime env cs = some (v, r)) : r.length < cs.length := by
  unfold scanDateTime at h
  simp only [Option.bind_eq_bind, Option.bind_eq_some_iff] at h
  obtain ⟨⟨d, r1⟩, h1, h⟩ := h
  have := scanDatePart_len _ _ _ _ h1
  split at h
  · split at h
    · simp only [Option.bind_eq_bind, Option.bind_eq_some_iff] at h
      obtain ⟨⟨hm, r2⟩, h2, h⟩ := h
      have := scanHourMinute_len _ _ _ _ h2
      cases hs : scanSeconds env r2 with
      | none =>
        simp [hs] at h
        have := scanOffset_len env r2
        simp_all; omega
      | some p =>
        obtain ⟨s, r3⟩ := p
        have := scanSeconds_len _ _ _ _ hs
        have := scanOffset_len env r3
        simp [hs] at h
        simp_all; omega
    · simp at h
  · simp at h

theorem scanTime_len (cs : List Char) (v r) (h : scanTime env cs = some (v, r)) : r.length < cs.length := by
  unfold scanTime at h
  simp only [Option.bind_eq_bind, Option.bind_eq_some_iff] at h
  obtain ⟨⟨d, r1⟩, h1, ⟨s, r2⟩, h2, h⟩ := h
  have := scanHourMinute_len _ _ _ _ h1
  have := scanSeconds_len _ _ _ _ h2
  simp at h
  simp_all; omega

theorem scanInteger_len (cs : List Char) (v r) (h : scanInteger env cs = some (v, r)) : r.length < cs.length := by
  unfold scanInteger at h
  split at h
  · simp only [Option.map_eq_some_iff] at h
    obtain ⟨⟨a, b⟩, h1, h⟩ := h
    have := span1_len _ _ _ _ h1
    simp at h; simp_all; omega
  · simp only [Option.map_eq_some_iff] at h
    obtain ⟨⟨a, b⟩, h1, h⟩ := h
    have := span1_len _ _ _ _ h1
    simp at h; simp_all; omega
  · exact span1_len _ _ _ _ h

theorem scanExponent_len (cs : List Char) (v r) (h : scanExponent env cs = some (v, r)) : r.length < cs.length := by
  unfold scanExponent at h
  split at h
  · split at h
    · split at h
      · simp only [Option.map_eq_some_iff] at h
        obtain ⟨⟨a, b⟩, h1, h⟩ := h
        have := span1_len _ _ _ _ h1
        simp at h; simp_all; omega
      · simp only [Option.map_eq_some_iff] at h
        obtain ⟨⟨a, b⟩, h1, h⟩ := h
        have := span1_len _ _ _ _ h1
        simp at h; simp_all; omega
      · simp only [Option.map_eq_some_iff] at h
        obtain ⟨⟨a, b⟩, h1, h⟩ := h
        have := span1_len _ _ _ _ h1
        simp at h; simp_all; omega
    · simp at h
  · simp at h

theorem scanDecimal_len (cs : List Char) (v r) (h : scanDecimal env cs = some (v, r)) : r.length < cs.length := by
  unfold scanDecimal at h
  simp only [Option.bind_eq_bind, Option.bind_eq_some_iff] at h
  obtain ⟨⟨i, r1⟩, h1, h⟩ := h
  have := scanInteger_len _ _ _ _ h1
  split at h
  · split at h
    · rename_i t f r' heq
      have := span1_len _ _ _ _ heq
      split at h
      · rename_i e r'' heq'
        have := scanExponent_len _ _ _ _ heq'
        simp at h; simp_all; omega
      · simp at h; simp_all; omega
    · simp at h
  · split at h
    · rename_i e r'' heq'
      have := scanExponent_len _ _ _ _ heq'
      simp at h; simp_all; omega
    · simp at h

theorem scanWord_len (w cs : List Char) (v r) (h : scanWord env w cs = some (v, r)) : r.length + w.length = cs.length := by
  unfold scanWord at h
  split at h
  · rename_i m r' heq
    have := kw_len _ _ _ _ _ heq
    split at h <;> simp at h
    simp_all
  · simp at h

theorem scanOp_len (w cs : List Char) (r) (h : scanOp env w cs = some r) : r.length < cs.length := by
  unfold scanOp at h
  simp only [Option.bind_eq_bind, Option.bind_eq_some_iff] at h
  obtain ⟨⟨_, r1⟩, h1, ⟨_, r2⟩, h2, ⟨_, r3⟩, h3, h⟩ := h
  have := span1_len _ _ _ _ h1
  have := kw_len _ _ _ _ _ h2
  have := span1_len _ _ _ _ h3
  simp at h; simp_all; omega

theorem scanNot_len (cs : List Char) (r) (h : scanNot env cs = some r) : r.length < cs.length := by
  unfold scanNot at h
  simp only [Option.bind_eq_bind, Option.bind_eq_some_iff] at h
  obtain ⟨⟨_, r2⟩, h2, ⟨_, r3⟩, h3, h⟩ := h
  have := kw_len _ _ _ _ _ h2
  have := span1_len _ _ _ _ h3
  simp at h; simp_all; omega

theorem identTail_len : ∀ (n : Nat) (cs : List Char), (identTail env n cs).2.length ≤ cs.length := by
  intro n cs
  fun_induction identTail env n cs <;> simp_all <;> omega

theorem scanIdent_len (cs : List Char) (v r) (h : scanIdent env cs = some (v, r)) : r.length < cs.length := by
  unfold scanIdent at h
  split at h
  · rename_i c t
    have := identTail_len env 127 t
    split at h <;> simp at h
    simp [← h.2]; omega
  · simp at h

theorem lexOne_len (cs : List Char) (t : Tok) (r : List Char)
    (h : lexOne env cs = some (t, r)) : r.length < cs.length := by
  unfold lexOne at h
  repeat' (split at h)
  all_goals first
    | (simp only [Option.some.injEq, Prod.mk.injEq] at h; obtain ⟨-, rfl⟩ := h
       first
        | exact scanDuration_len _ _ _ _ ‹_›
        | exact scanString_len _ _ _ ‹_›
        | exact scanGeography_len _ _ _ _ ‹_›
        | exact scanGuid_len _ _ _ _ ‹_›
        | exact scanDateTime_len _ _ _ _ ‹_›
        | (have := scanDatePart_len _ _ _ _ ‹_›; omega)
        | exact scanTime_len _ _ _ _ ‹_›
        | exact scanDecimal_len _ _ _ _ ‹_›
        | exact scanInteger_len _ _ _ _ ‹_›
        | (have := scanWord_len _ _ _ _ _ ‹_›; simp at this; omega)
        | exact scanOp_len _ _ _ _ ‹_›
        | exact scanNot_len _ _ _ ‹_›
        | exact scanIdent_len _ _ _ _ ‹_›
        | exact span1_len _ _ _ _ ‹_›
        | simp)
    | simp at h

theorem lexFuel_irrel : ∀ (f1 f2 pos : Nat) (cs : List Char),
    cs.length < f1 → cs.length < f2 → lexFuel env f1 pos cs = lexFuel env f2 pos cs
  | 0, _, _, _, h1, _ => by omega
  | _ + 1, 0, _, _, _, h2 => by omega
  | f1 + 1, f2 + 1, pos, [], _, _ => by simp [lexFuel]
  | f1 + 1, f2 + 1, pos, c :: cs, h1, h2 => by
      simp only [lexFuel]
      cases hl : lexOne env (c :: cs) with
      | none => rfl
      | some p =>
        obtain ⟨t, r⟩ := p
        have := lexOne_len env _ _ _ hl
        simp only
        rw [lexFuel_irrel f1 f2 _ r (by simp at *; omega) (by simp at *; omega)]

end Lexer

/-! ### parser: the recursion budget is never exhausted -/

/-- result predicate: `P` on success, `Q` on the error -/
def Res {α : Type} (P : α → List Tok → Prop) (Q : PErr → Prop) : Except PErr (α × List Tok) → Prop
  | .ok (a, rest) => P a rest
  | .error e => Q e

@[simp] theorem Res_ok {α : Type} (P : α → List Tok → Prop) (Q) (a rest) : Res P Q (.ok (a, rest)) = P a rest := rfl
@[simp] theorem Res_pure {α : Type} (P : α → List Tok → Prop) (Q) (a rest) : Res P Q (pure (a, rest)) = P a rest := rfl
@[simp] theorem Res_error {α : Type} (P : α → List Tok → Prop) (Q) (e) : Res P Q (.error e) = Q e := rfl

theorem Res.bind {α β : Type} {P : α → List Tok → Prop} {P' : β → List Tok → Prop} {Q : PErr → Prop}
    {x : Except PErr (α × List Tok)} {g : α × List Tok → Except PErr (β × List Tok)}
    (hx : Res P Q x) (hg : ∀ a rest, P a rest → Res P' Q (g (a, rest))) : Res P' Q (x >>= g) := by
  cases x with
  | error e => exact hx
  | ok p => obtain ⟨a, rest⟩ := p; exact hg a rest hx

theorem Res.mono {α : Type} {P P' : α → List Tok → Prop} {Q Q' : PErr → Prop}
    {x : Except PErr (α × List Tok)} (hx : Res P Q x) (hp : ∀ a rest, P a rest → P' a rest)
    (hq : ∀ e, Q e → Q' e) : Res P' Q' x := by
  cases x with
  | error e => exact hq e hx
  | ok p => obtain ⟨a, rest⟩ := p; exact hp a rest hx

theorem skipWs_len (ts : List Tok) : (skipWs ts).length ≤ ts.length := by
  unfold skipWs; split <;> simp

@[simp] theorem failAt_ne_fuel (lexErr ts) : failAt lexErr ts ≠ .fuel := by
  unfold failAt; split
  · split <;> simp
  · simp

/-- no fuel error, and at least `k` tokens consumed relative to `n` -/
abbrev Good {α : Type} (k n : Nat) (x : Except PErr (α × List Tok)) : Prop :=
  Res (fun _ rest => rest.length + k ≤ n) (· ≠ .fuel) x

theorem liftOutcome_good {α : Type} (o : Outcome α) (rest : List Tok) (k n) (h : rest.length + k ≤ n) :
    Good k n (liftOutcome o rest) := by
  cases o <;> simp [liftOutcome, h]

theorem finishCall_good (lexErr f args) (rest : List Tok) (k n) (h : rest.length + k ≤ n) :
    Good k n (finishCall lexErr f args rest) := by
  unfold finishCall
  split
  · split
    · simp
    · exact liftOutcome_good _ _ _ _ h
  · split
    · exact liftOutcome_good _ _ _ _ h
    · simp

def NF (lexErr : Bool) (f : Nat) : Prop :=
  (∀ min ts, 3 * ts.length + 3 ≤ f → Good 1 ts.length (parseExpr lexErr f min ts)) ∧
  (∀ min lhs ts, 3 * ts.length + 2 ≤ f → Good 0 ts.length (parseLoop lexErr f min lhs ts)) ∧
  (∀ ts, 3 * ts.length + 2 ≤ f → Good 1 ts.length (parsePrefix lexErr f ts)) ∧
  (∀ ts, 3 * ts.length + 4 ≤ f → Good 1 ts.length (parseParen lexErr f ts)) ∧
  (∀ acc ts, 3 * ts.length + 4 ≤ f → Good 1 ts.length (parseItems lexErr f acc ts)) ∧
  (∀ ts, 3 * ts.length + 2 ≤ f → Good 1 ts.length (parseListExpr lexErr f ts)) ∧
  (∀ i ts, 3 * ts.length + 4 ≤ f → Good 1 ts.length (parseCallArgs lexErr f i ts)) ∧
  (∀ i acc ts, 3 * ts.length + 1 ≤ f → Good 1 ts.length (parseNamedRest lexErr f i acc ts)) ∧
  (∀ i ts, 3 * ts.length + 1 ≤ f → Good 0 ts.length (parsePath lexErr f i ts)) ∧
  (∀ ts, 3 * ts.length + 1 ≤ f → Good 1 ts.length (parseLambda lexErr f ts))

theorem nf_zero (lexErr) : NF lexErr 0 := by
  refine ⟨?_, ?_, ?_, ?_, ?_, ?_, ?_, ?_, ?_, ?_⟩ <;> intros <;> omega

grind_pattern skipWs_len => skipWs ts

local macro "toklen" : tactic => `(tactic| ((try simp only [List.length_cons, List.length_nil] at *); grind))

theorem nf_expr (lexErr f) (ih : NF lexErr f) (min ts) (hb : 3 * ts.length + 3 ≤ f + 1) :
    Good 1 ts.length (parseExpr lexErr (f+1) min ts) := by
  obtain ⟨ihE, ihL, ihP, ihPar, ihI, ihLE, ihCA, ihNR, ihPath, ihLam⟩ := ih
  simp only [parseExpr]
  refine Res.bind (ihP ts (by omega)) ?_
  intro lhs r hr
  refine Res.mono (ihL min lhs r (by omega)) ?_ (fun _ h => h)
  intro a rest hrest
  omega

theorem nf_loop (lexErr f) (ih : NF lexErr f) (min lhs ts) (hb : 3 * ts.length + 2 ≤ f + 1) :
    Good 0 ts.length (parseLoop lexErr (f+1) min lhs ts) := by
  obtain ⟨ihE, ihL, ihP, ihPar, ihI, ihLE, ihCA, ihNR, ihPath, ihLam⟩ := ih
  simp only [parseLoop]
  split
  · split
    · rename_i o r _
      refine Res.bind (ihE _ r (by toklen)) ?_
      intro rhs r' hr'
      refine Res.mono (ihL _ _ r' (by toklen)) ?_ (fun _ h => h)
      intro a rest h; toklen
    · simp
  · split
    · rename_i r _
      refine Res.bind (ihLE r (by toklen)) ?_
      intro rhs r' hr'
      refine Res.mono (ihL _ _ r' (by toklen)) ?_ (fun _ h => h)
      intro a rest h; toklen
    · simp
  · split
    · rename_i o r _ _
      refine Res.bind (ihE _ r (by toklen)) ?_
      intro rhs r' hr'
      refine Res.mono (ihL _ _ r' (by toklen)) ?_ (fun _ h => h)
      intro a rest h; toklen
    · simp
  · split
    · rename_i o r _
      refine Res.bind (ihE _ r (by toklen)) ?_
      intro rhs r' hr'
      refine Res.mono (ihL _ _ r' (by toklen)) ?_ (fun _ h => h)
      intro a rest h; toklen
    · simp
  · simp

theorem nf_prefix (lexErr f) (ih : NF lexErr f) (ts) (hb : 3 * ts.length + 2 ≤ f + 1) :
    Good 1 ts.length (parsePrefix lexErr (f+1) ts) := by
  obtain ⟨ihE, ihL, ihP, ihPar, ihI, ihLE, ihCA, ihNR, ihPath, ihLam⟩ := ih
  simp only [parsePrefix]
  split
  · rename_i r
    refine Res.bind (ihE _ r (by toklen)) ?_
    intro e r' hr'; simp; toklen
  · rename_i r
    refine Res.bind (ihE _ (skipWs r) (by toklen)) ?_
    intro e r' hr'; simp; toklen
  · simp
  · rename_i r
    refine Res.mono (ihPar (skipWs r) (by toklen)) ?_ (fun _ h => h)
    intro a rest h; toklen
  · exact finishCall_good _ _ _ _ _ _ (by toklen)
  · rename_i i r _
    refine Res.mono (ihCA i (skipWs r) (by toklen)) ?_ (fun _ h => h)
    intro a rest h; toklen
  · rename_i i r _ _
    refine Res.mono (ihPath i r (by toklen)) ?_ (fun _ h => h)
    intro a rest h; toklen
  · simp


theorem nf_paren (lexErr f) (ih : NF lexErr f) (ts) (hb : 3 * ts.length + 4 ≤ f + 1) :
    Good 1 ts.length (parseParen lexErr (f+1) ts) := by
  obtain ⟨ihE, ihL, ihP, ihPar, ihI, ihLE, ihCA, ihNR, ihPath, ihLam⟩ := ih
  simp only [parseParen]
  refine Res.bind (ihE _ ts (by toklen)) ?_
  intro e r hr
  dsimp only
  split
  · simp; toklen
  · split
    · simp; toklen
    · rename_i r' _ r'' _
      refine Res.bind (ihI _ _ (by toklen)) ?_
      intro items r3 h3; simp; toklen
  · simp

theorem nf_items (lexErr f) (ih : NF lexErr f) (acc ts) (hb : 3 * ts.length + 4 ≤ f + 1) :
    Good 1 ts.length (parseItems lexErr (f+1) acc ts) := by
  obtain ⟨ihE, ihL, ihP, ihPar, ihI, ihLE, ihCA, ihNR, ihPath, ihLam⟩ := ih
  simp only [parseItems]
  refine Res.bind (ihE _ ts (by toklen)) ?_
  intro e r hr
  dsimp only
  split
  · simp; toklen
  · rename_i r' _
    refine Res.mono (ihI _ (skipWs r') (by toklen)) ?_ (fun _ h => h)
    intro a rest h; toklen
  · simp

theorem nf_listExpr (lexErr f) (ih : NF lexErr f) (ts) (hb : 3 * ts.length + 2 ≤ f + 1) :
    Good 1 ts.length (parseListExpr lexErr (f+1) ts) := by
  obtain ⟨ihE, ihL, ihP, ihPar, ihI, ihLE, ihCA, ihNR, ihPath, ihLam⟩ := ih
  simp only [parseListExpr]
  split
  · rename_i r
    refine Res.bind (ihE _ (skipWs r) (by toklen)) ?_
    intro e r1 hr
    dsimp only
    split
    · split
      · simp; toklen
      · rename_i r2 _ r3 _
        refine Res.bind (ihI _ _ (by toklen)) ?_
        intro items r4 h4; simp; toklen
    · simp
  · simp

theorem nf_callArgs (lexErr f) (ih : NF lexErr f) (i ts) (hb : 3 * ts.length + 4 ≤ f + 1) :
    Good 1 ts.length (parseCallArgs lexErr (f+1) i ts) := by
  obtain ⟨ihE, ihL, ihP, ihPar, ihI, ihLE, ihCA, ihNR, ihPath, ihLam⟩ := ih
  simp only [parseCallArgs]
  split
  · rename_i n r
    refine Res.bind (ihE _ r (by toklen)) ?_
    intro e r1 hr
    refine Res.mono (ihNR _ _ r1 (by toklen)) ?_ (fun _ h => h)
    intro a rest h; toklen
  · refine Res.bind (ihE _ ts (by toklen)) ?_
    intro e r1 hr
    dsimp only
    split
    · exact finishCall_good _ _ _ _ _ _ (by toklen)
    · split
      · exact finishCall_good _ _ _ _ _ _ (by toklen)
      · rename_i r2 _ r3 _
        refine Res.bind (ihI _ _ (by toklen)) ?_
        intro items r4 h4
        exact finishCall_good _ _ _ _ _ _ (by toklen)
    · simp

theorem nf_namedRest (lexErr f) (ih : NF lexErr f) (i acc ts) (hb : 3 * ts.length + 1 ≤ f + 1) :
    Good 1 ts.length (parseNamedRest lexErr (f+1) i acc ts) := by
  obtain ⟨ihE, ihL, ihP, ihPar, ihI, ihLE, ihCA, ihNR, ihPath, ihLam⟩ := ih
  simp only [parseNamedRest]
  split
  · exact finishCall_good _ _ _ _ _ _ (by toklen)
  · split
    · rename_i r _ n r' _
      refine Res.bind (ihE _ r' (by toklen)) ?_
      intro e r1 hr
      refine Res.mono (ihNR _ _ r1 (by toklen)) ?_ (fun _ h => h)
      intro a rest h; toklen
    · simp
    · simp
  · simp

theorem expectRp_cases (lexErr ts) : (∃ r, ts = .rp :: r ∧ expectRp lexErr ts = .ok r) ∨
    (∃ e, e ≠ .fuel ∧ (∀ o, e ≠ .exc o) ∧ expectRp lexErr ts = .error e) := by
  unfold expectRp
  split
  · exact .inl ⟨_, rfl, rfl⟩
  · refine .inr ⟨_, failAt_ne_fuel _ _, ?_, rfl⟩
    intro o; unfold failAt; split
    · split <;> simp
    · simp

theorem nf_lambda (lexErr f) (ih : NF lexErr f) (ts) (hb : 3 * ts.length + 1 ≤ f + 1) :
    Good 1 ts.length (parseLambda lexErr (f+1) ts) := by
  obtain ⟨ihE, ihL, ihP, ihPar, ihI, ihLE, ihCA, ihNR, ihPath, ihLam⟩ := ih
  simp only [parseLambda]
  split
  · split
    · rename_i v r r' _
      refine Res.bind (ihE _ (skipWs r') (by toklen)) ?_
      intro e r1 hr; simp; toklen
    · simp
  · simp

theorem nf_path (lexErr f) (ih : NF lexErr f) (i ts) (hb : 3 * ts.length + 1 ≤ f + 1) :
    Good 0 ts.length (parsePath lexErr (f+1) i ts) := by
  obtain ⟨ihE, ihL, ihP, ihPar, ihI, ihLE, ihCA, ihNR, ihPath, ihLam⟩ := ih
  simp only [parsePath]
  split
  · rename_i j r
    refine Res.bind (ihPath j r (by toklen)) ?_
    intro tail r' hr
    exact liftOutcome_good _ _ _ _ (by toklen)
  · split
    · simp; toklen
    · rename_i r _ r' _
      refine Res.bind (ihLam _ (by toklen)) ?_
      intro lam r2 h2
      dsimp only
      rcases expectRp_cases lexErr (skipWs r2) with ⟨r3, h3, h4⟩ | ⟨e, he, _, h4⟩
      · rw [h4]; simp [bind, Except.bind]; toklen
      · rw [h4]; simp [bind, Except.bind]; exact he
  · rename_i r
    refine Res.bind (ihLam (skipWs r) (by toklen)) ?_
    intro lam r2 h2
    dsimp only
    rcases expectRp_cases lexErr (skipWs r2) with ⟨r3, h3, h4⟩ | ⟨e, he, _, h4⟩
    · rw [h4]; simp [bind, Except.bind]; toklen
    · rw [h4]; simp [bind, Except.bind]; exact he
  · simp
  · simp
  · simp
  · simp

theorem nf_all (lexErr) : ∀ f, NF lexErr f
  | 0 => nf_zero lexErr
  | f + 1 =>
    have ih := nf_all lexErr f
    ⟨nf_expr lexErr f ih, nf_loop lexErr f ih, nf_prefix lexErr f ih, nf_paren lexErr f ih,
     nf_items lexErr f ih, nf_listExpr lexErr f ih, nf_callArgs lexErr f ih, nf_namedRest lexErr f ih,
     nf_path lexErr f ih, nf_lambda lexErr f ih⟩

theorem parseExpr_no_fuel (lexErr : Bool) (ts : List Tok) (m : Nat) :
    parseExpr lexErr (parseFuel ts) m ts ≠ .error .fuel := by
  have := (nf_all lexErr (parseFuel ts)).1 m ts (by unfold parseFuel; omega)
  intro h
  rw [h] at this
  simp at this


/-! ### parser: grammar actions only raise the two `_function_call` exceptions -/

/-- the two exceptions `_function_call` raises -/
def FnErr (o : Outcome Unit) : Prop :=
  (∃ n, o = .lib (.unknownFunction n)) ∨ (∃ n lo hi g, o = .lib (.argumentCount n lo hi g))

/-- an acceptable parser error: if it is an exception of a grammar action, it is a `_function_call` one -/
def ErrOk (e : PErr) : Prop := ∀ o, e = .exc o → FnErr o

@[simp] theorem ErrOk_fuel : ErrOk .fuel := by intro o h; cases h
@[simp] theorem ErrOk_syntax (n) : ErrOk (.syntax n) := by intro o h; cases h
@[simp] theorem ErrOk_eof : ErrOk .eof := by intro o h; cases h
@[simp] theorem ErrOk_tokenizing : ErrOk .tokenizing := by intro o h; cases h
@[simp] theorem ErrOk_failAt (lexErr ts) : ErrOk (failAt lexErr ts) := by
  unfold failAt; split
  · split <;> simp
  · simp

/-- shapes `parsePath` returns: an identifier / attribute chain off an identifier, or a collection
    lambda owned by one -/
def pathShape : Expr → Prop
  | .coll owner _ _ => (explodePath owner).isSome
  | e => (explodePath e).isSome

theorem explodePath_foldl (names : List Str) : ∀ (base : Expr),
    explodePath (names.foldl (fun o n => .attr o n) base) = (explodePath base).map (· ++ names) := by
  induction names with
  | nil => intro base; simp
  | cons n ns ih =>
    intro base
    simp only [List.foldl_cons]
    rw [ih]
    simp [explodePath, Option.map_map, Function.comp_def]

theorem pathShape_of_explode (e : Expr) (h : (explodePath e).isSome) : pathShape e := by
  cases e <;> simp_all [pathShape, explodePath]

theorem pathCons_ok (i : Ident) (tail : Expr) (h : pathShape tail) :
    ∃ e, pathCons i tail = .ok e ∧ pathShape e := by
  unfold pathCons
  split
  · rename_i o n
    simp only [pathShape] at h
    obtain ⟨names, hn⟩ := Option.isSome_iff_exists.mp h
    rw [hn]
    simp only [rebuildPath]
    refine ⟨_, rfl, pathShape_of_explode _ ?_⟩
    simp [explodePath_foldl, explodePath]
  · rename_i owner op lam
    simp only [pathShape] at h
    split
    · obtain ⟨names, hn⟩ := Option.isSome_iff_exists.mp h
      rw [hn]
      simp only [rebuildPath]
      refine ⟨_, rfl, ?_⟩
      simp [pathShape, explodePath_foldl, explodePath]
    · refine ⟨_, rfl, ?_⟩
      simp [pathShape, explodePath]
    · rename_i h1 h2
      cases owner <;> simp [explodePath] at h
      · exact (h2 _ rfl).elim
      · exact (h1 _ _ rfl).elim
  · refine ⟨_, rfl, ?_⟩
    simp [pathShape, explodePath]
  · rename_i h1 h2 h3
    cases tail <;> simp [pathShape, explodePath] at h
    · exact (h3 _ rfl).elim
    · exact (h1 _ _ rfl).elim
    · exact (h2 _ _ _ rfl).elim


abbrev Safe {α : Type} (x : Except PErr (α × List Tok)) : Prop := Res (fun _ _ => True) ErrOk x
abbrev SafePath (x : Except PErr (Expr × List Tok)) : Prop := Res (fun e _ => pathShape e) ErrOk x

theorem functionCall_safe (f args) (rest : List Tok) : Safe (liftOutcome (functionCall f args) rest) := by
  unfold functionCall functionCallWith
  split
  · split
    · simp only [liftOutcome, Res_error]
      intro o h; cases h; exact .inl ⟨_, rfl⟩
    · split
      · simp only [liftOutcome, Res_error]
        intro o h; cases h; exact .inr ⟨_, _, _, _, rfl⟩
      · simp [liftOutcome]
  · simp [liftOutcome]

theorem finishCall_safe (lexErr f args) (rest : List Tok) : Safe (finishCall lexErr f args rest) := by
  unfold finishCall
  split
  · split
    · simp
    · exact functionCall_safe _ _ _
  · split
    · exact functionCall_safe _ _ _
    · simp

def NX (lexErr : Bool) (f : Nat) : Prop :=
  (∀ min ts, Safe (parseExpr lexErr f min ts)) ∧
  (∀ min lhs ts, Safe (parseLoop lexErr f min lhs ts)) ∧
  (∀ ts, Safe (parsePrefix lexErr f ts)) ∧
  (∀ ts, Safe (parseParen lexErr f ts)) ∧
  (∀ acc ts, Safe (parseItems lexErr f acc ts)) ∧
  (∀ ts, Safe (parseListExpr lexErr f ts)) ∧
  (∀ i ts, Safe (parseCallArgs lexErr f i ts)) ∧
  (∀ i acc ts, Safe (parseNamedRest lexErr f i acc ts)) ∧
  (∀ i ts, SafePath (parsePath lexErr f i ts)) ∧
  (∀ ts, Safe (parseLambda lexErr f ts))

theorem nx_zero (lexErr) : NX lexErr 0 := by
  refine ⟨?_, ?_, ?_, ?_, ?_, ?_, ?_, ?_, ?_, ?_⟩ <;> intros <;>
    simp [parseExpr, parseLoop, parsePrefix, parseParen, parseItems, parseListExpr, parseCallArgs,
      parseNamedRest, parsePath, parseLambda]

theorem Safe.of {α : Type} {P : α → List Tok → Prop} {x : Except PErr (α × List Tok)} (h : Res P ErrOk x) :
    Safe x := Res.mono h (fun _ _ _ => trivial) (fun _ h => h)

theorem nx_succ (lexErr f) (ih : NX lexErr f) : NX lexErr (f + 1) := by
  obtain ⟨ihE, ihL, ihP, ihPar, ihI, ihLE, ihCA, ihNR, ihPath, ihLam⟩ := ih
  refine ⟨?_, ?_, ?_, ?_, ?_, ?_, ?_, ?_, ?_, ?_⟩
  · intro min ts
    simp only [parseExpr]
    exact Res.bind (ihP ts) (fun lhs r _ => ihL min lhs r)
  · intro min lhs ts
    simp only [parseLoop]
    split
    · split
      · exact Res.bind (ihE _ _) (fun rhs r' _ => ihL _ _ r')
      · simp
    · split
      · exact Res.bind (ihLE _) (fun rhs r' _ => ihL _ _ r')
      · simp
    · split
      · exact Res.bind (ihE _ _) (fun rhs r' _ => ihL _ _ r')
      · simp
    · split
      · exact Res.bind (ihE _ _) (fun rhs r' _ => ihL _ _ r')
      · simp
    · simp
  · intro ts
    simp only [parsePrefix]
    split
    · exact Res.bind (ihE _ _) (fun e r' _ => by simp)
    · exact Res.bind (ihE _ _) (fun e r' _ => by simp)
    · simp
    · exact ihPar _
    · exact finishCall_safe _ _ _ _
    · exact ihCA _ _
    · exact Safe.of (ihPath _ _)
    · simp
  · intro ts
    simp only [parseParen]
    refine Res.bind (ihE _ _) ?_
    intro e r _
    dsimp only
    split
    · simp
    · split
      · simp
      · exact Res.bind (ihI _ _) (fun items r3 _ => by simp)
    · simp
  · intro acc ts
    simp only [parseItems]
    refine Res.bind (ihE _ _) ?_
    intro e r _
    dsimp only
    split
    · simp
    · exact ihI _ _
    · simp
  · intro ts
    simp only [parseListExpr]
    split
    · refine Res.bind (ihE _ _) ?_
      intro e r _
      dsimp only
      split
      · split
        · simp
        · exact Res.bind (ihI _ _) (fun items r3 _ => by simp)
      · simp
    · simp
  · intro i ts
    simp only [parseCallArgs]
    split
    · exact Res.bind (ihE _ _) (fun e r1 _ => ihNR _ _ r1)
    · refine Res.bind (ihE _ _) ?_
      intro e r _
      dsimp only
      split
      · exact finishCall_safe _ _ _ _
      · split
        · exact finishCall_safe _ _ _ _
        · exact Res.bind (ihI _ _) (fun items r4 _ => finishCall_safe _ _ _ _)
      · simp
  · intro i acc ts
    simp only [parseNamedRest]
    split
    · exact finishCall_safe _ _ _ _
    · split
      · exact Res.bind (ihE _ _) (fun e r1 _ => ihNR _ _ r1)
      · simp
      · simp
    · simp
  · intro i ts
    simp only [parsePath]
    split
    · refine Res.bind (ihPath _ _) ?_
      intro tail r' ht
      obtain ⟨e, he, hs⟩ := pathCons_ok i tail ht
      simp only [he, liftOutcome, Res_ok]
      exact hs
    · split
      · simp [pathShape, explodePath]
      · refine Res.bind (ihLam _) ?_
        intro lam r2 _
        dsimp only
        rcases expectRp_cases lexErr (skipWs r2) with ⟨r3, h3, h4⟩ | ⟨e, _, he, h4⟩
        · rw [h4]; simp [bind, Except.bind, pathShape, explodePath]
        · rw [h4]; simp [bind, Except.bind]; intro o ho; exact (he o ho).elim
    · refine Res.bind (ihLam _) ?_
      intro lam r2 _
      dsimp only
      rcases expectRp_cases lexErr (skipWs r2) with ⟨r3, h3, h4⟩ | ⟨e, _, he, h4⟩
      · rw [h4]; simp [bind, Except.bind, pathShape, explodePath]
      · rw [h4]; simp [bind, Except.bind]; intro o ho; exact (he o ho).elim
    · simp
    · simp
    · simp
    · simp [pathShape, explodePath]
  · intro ts
    simp only [parseLambda]
    split
    · split
      · exact Res.bind (ihE _ _) (fun e r1 _ => by simp)
      · simp
    · simp

theorem nx_all (lexErr) : ∀ f, NX lexErr f
  | 0 => nx_zero lexErr
  | f + 1 => nx_succ lexErr f (nx_all lexErr f)

theorem parseExpr_errOk (lexErr : Bool) (f m : Nat) (ts : List Tok) (o : Outcome Unit)
    (h : parseExpr lexErr f m ts = .error (.exc o)) : FnErr o := by
  have := (nx_all lexErr f).1 m ts
  rw [h] at this
  exact this o rfl


end OQ
