import ODataVerif.Model.Orm
import ODataVerif.Model.PyVal
import ODataVerif.Spec.TypesStrict
import ODataVerif.Spec.RefPrinter
namespace OQ.OrmTotal
open OQ.Spec

/-- not an internal error of the modelled part (`.foreign "unmodelled"` is outside the model, not a leak) -/
def nl {α} : Outcome α → Bool
  | .foreign c => c == "unmodelled"
  | _ => true

theorem nl_bind {α β} (x : Outcome α) (f : α → Outcome β) (hx : nl x = true)
    (hf : ∀ a, nl (f a) = true) : nl (x >>= f) = true := by
  cases x with
  | ok a => exact hf a
  | lib e => rfl
  | notImplemented => rfl
  | foreign c => exact hx

theorem nl_bind' {α β} (x : Outcome α) (f : α → Outcome β) (hx : nl x = true)
    (hf : ∀ a, x = .ok a → nl (f a) = true) : nl (x >>= f) = true := by
  cases x with
  | ok a => exact hf a rfl
  | lib e => rfl
  | notImplemented => rfl
  | foreign c => exact hx

theorem nl_unmodelled {α} : nl (.foreign "unmodelled" : Outcome α) = true := by
  simp only [nl]; decide

/-! ### literals -/
theorem litParam_nl (k : LitKind) (v : Str)
    (h : (match pyVal k v with | .foreign _ => false | _ => true) = true) : nl (litParam k v) = true := by
  unfold litParam
  cases k <;> dsimp only <;> first
    | rfl
    | exact nl_unmodelled
    | (split <;> rfl)
    | (split at h
       · cases h
       · split
         · rename_i h1 _ _ h2; exact absurd h2 (h1 _)
         · rfl)

/-! ### the function table: every row's name selects a handler that takes the row's number of arguments -/

/-- the number of arguments a handler (both backends) unpacks without a TypeError -/
def arityOk (key : String) (n : Nat) : Bool :=
  match key with
  | "contains" => n == 2
  | "startswith" => n == 2
  | "endswith" => n == 2
  | "length" => n == 1
  | "concat" => true
  | "indexof" => n == 2
  | "substring" => n == 2 || n == 3
  | "matchespattern" => n == 2
  | "tolower" => n == 1
  | "toupper" => n == 1
  | "trim" => n == 1
  | "date" => n == 1
  | "time" => n == 1
  | "day" => n == 1
  | "hour" => n == 1
  | "minute" => n == 1
  | "month" => n == 1
  | "second" => n == 1
  | "year" => n == 1
  | "ceiling" => n == 1
  | "floor" => n == 1
  | "round" => n == 1
  | "now" => n == 0
  | _ => true

/-- the handler key of a function spelled `s` (`full_name().replace(".", "__").lower()`) -/
def keyOf (s : Str) : String :=
  String.ofList (pyLower (s.flatMap (fun c => if c == '.' then ['_', '_'] else [c])))

theorem joinWith_dot (l : List Str) : joinWith ['.'] l = joinDots l := by
  induction l with
  | nil => rfl
  | cons a r ih =>
    cases r with
    | nil => rfl
    | cons b r' => simp only [joinWith, joinDots, ih, List.append_assoc, List.singleton_append]

theorem key_eq (f : Ident) : String.ofList (pyLower (funcKey f)) = keyOf f.fullName := by
  unfold funcKey keyOf Ident.fullName
  rw [joinWith_dot]

def tableArity : Bool := sigTable.all (fun r => arityOk (keyOf r.1.toList) r.2.1.length)

theorem tableArity_holds : tableArity = true := by decide +kernel

theorem arityOk_of_sig (f : Ident) (tys : List OTy) (τ : OTy)
    (h : sigResultN (String.ofList f.fullName) tys = some τ) :
    arityOk (String.ofList (pyLower (funcKey f))) tys.length = true := by
  unfold sigResultN at h
  split at h
  · rename_i r hr
    have hmem := List.mem_of_find?_eq_some hr
    have hp := List.find?_some hr
    simp only [Bool.and_eq_true, beq_iff_eq] at hp
    have ht := tableArity_holds
    unfold tableArity at ht
    rw [List.all_eq_true] at ht
    have h1 := ht r hmem
    rw [key_eq, ← hp.1.2]
    have : f.fullName = r.1.toList := by rw [hp.1.1, String.toList_ofList]
    rw [this]; exact h1
  · cases h

/-! ### Django: the handlers -/

theorem len0 : (xs : Exprs) → xs.length = 0 → xs = .nil
  | .nil, _ => rfl
  | .cons _ t, h => by simp [Exprs.length] at h
theorem len1 : (xs : Exprs) → xs.length = 1 → ∃ a, xs = .cons a .nil
  | .nil, h => by simp [Exprs.length] at h
  | .cons a t, h => by
      simp only [Exprs.length] at h
      replace h : t.length = _ := Nat.succ.inj h
      exact ⟨a, by rw [len0 t h]⟩
theorem len2 : (xs : Exprs) → xs.length = 2 → ∃ a b, xs = .cons a (.cons b .nil)
  | .nil, h => by simp [Exprs.length] at h
  | .cons a t, h => by
      simp only [Exprs.length] at h
      replace h : t.length = _ := Nat.succ.inj h
      obtain ⟨b, rfl⟩ := len1 t h
      exact ⟨a, b, rfl⟩
theorem len3 : (xs : Exprs) → xs.length = 3 → ∃ a b c, xs = .cons a (.cons b (.cons c .nil))
  | .nil, h => by simp [Exprs.length] at h
  | .cons a t, h => by
      simp only [Exprs.length] at h
      replace h : t.length = _ := Nat.succ.inj h
      obtain ⟨b, c, rfl⟩ := len2 t h
      exact ⟨a, b, c, rfl⟩

def DjArgsOk : Exprs → Prop
  | .nil => True
  | .cons h t => nl (djVisit h) = true ∧ DjArgsOk t

theorem djVisitList_nl : (xs : Exprs) → DjArgsOk xs → nl (djVisitList xs) = true
  | .nil, _ => by rw [djVisitList]; rfl
  | .cons h t, hx => by
      rw [djVisitList]
      exact nl_bind _ _ hx.1 (fun ⟨_, _⟩ => nl_bind _ _ (djVisitList_nl t hx.2) (fun _ => rfl))

theorem substrTypecheck_nl (a b : Expr) : nl (substrTypecheck a b) = true := by
  unfold substrTypecheck
  repeat' split
  all_goals rfl

/-- close a goal `nl (do …) = true` whose sub-visits are hypotheses -/
macro "nl_auto" : tactic =>
  `(tactic| repeat (first
      | rfl
      | exact nl_unmodelled
      | exact substrTypecheck_nl _ _
      | assumption
      | refine nl_bind _ _ ?_ (fun _ => ?_)))

theorem djFunc_nl (key : String) (args : Exprs) (ha : DjArgsOk args) (hn : arityOk key args.length = true) :
    nl (djFunc key args) = true := by
  unfold djFunc
  dsimp only
  split
  case h_24 => rfl
  case h_5 => -- concat
    refine nl_bind _ _ (djVisitList_nl _ ha) (fun items => ?_)
    split
    · rfl
    · exact nl_unmodelled
  case h_7 => -- substring
    simp only [arityOk, Bool.or_eq_true, beq_iff_eq] at hn
    rcases hn with hn | hn
    · obtain ⟨a, b, rfl⟩ := len2 _ hn
      obtain ⟨h1, h2, -⟩ := ha
      dsimp only; nl_auto
    · obtain ⟨a, b, c, rfl⟩ := len3 _ hn
      obtain ⟨h1, h2, h3, -⟩ := ha
      dsimp only; nl_auto
  case h_23 => -- now
    simp only [arityOk, beq_iff_eq] at hn
    rw [len0 _ hn]; rfl
  all_goals
    simp only [arityOk, beq_iff_eq] at hn
    first
    | (obtain ⟨a, rfl⟩ := len1 _ hn
       obtain ⟨h1, -⟩ := ha
       dsimp only; nl_auto)
    | (obtain ⟨a, b, rfl⟩ := len2 _ hn
       obtain ⟨h1, h2, -⟩ := ha
       dsimp only; nl_auto)

/-! ### inversion of the typing / shape judgements -/
theorem sTypes_cons {Γ h t tys} (hs : sTypes Γ (.cons h t) = some tys) :
    ∃ a as, sType Γ h = some a ∧ sTypes Γ t = some as ∧ tys = a :: as := by
  rw [sTypes] at hs
  split at hs
  · rename_i a as h1 h2; exact ⟨a, as, h1, h2, by injection hs with hs; exact hs.symm⟩
  · cases hs

theorem sTypes_length {Γ} : (xs : Exprs) → ∀ tys, sTypes Γ xs = some tys → tys.length = xs.length
  | .nil, tys, h => by rw [sTypes] at h; injection h with h; subst h; rfl
  | .cons a t, tys, h => by
      obtain ⟨x, as, _, h2, rfl⟩ := sTypes_cons h
      simp [Exprs.length, sTypes_length t as h2]

theorem sType_list {Γ xs τ} (h : sType Γ (.list xs) = some τ) : τ = .coll ∧ ∃ tys, sTypes Γ xs = some tys := by
  rw [sType] at h
  cases hx : sTypes Γ xs with
  | none => simp [hx] at h
  | some tys => simp [hx] at h; exact ⟨h.symm, tys, rfl⟩

theorem sType_binop {Γ op l r τ} (h : sType Γ (.binop op l r) = some τ) :
    (∃ a, sType Γ l = some a) ∧ (∃ b, sType Γ r = some b) := by
  rw [sType] at h
  split at h
  · rename_i h1 h2; exact ⟨⟨_, h1⟩, ⟨_, h2⟩⟩
  · rename_i h1 h2; exact ⟨⟨_, h1⟩, ⟨_, h2⟩⟩
  · cases h

theorem sType_boolop {Γ op l r τ} (h : sType Γ (.boolop op l r) = some τ) :
    (∃ a, sType Γ l = some a) ∧ (∃ b, sType Γ r = some b) := by
  rw [sType] at h
  split at h
  · rename_i h1 h2; exact ⟨⟨_, h1⟩, ⟨_, h2⟩⟩
  · cases h

theorem sType_unary {Γ op e τ} (h : sType Γ (.unary op e) = some τ) : ∃ a, sType Γ e = some a := by
  cases op <;> rw [sType] at h <;> split at h
  · rename_i h1; exact ⟨_, h1⟩
  · cases h
  · rename_i h1; exact ⟨_, h1⟩
  · cases h

theorem sType_call {Γ f args τ} (h : sType Γ (.call f args) = some τ) :
    ∃ tys, sTypes Γ args = some tys ∧ sigResultN (String.ofList f.fullName) tys = some τ := by
  rw [sType] at h
  split at h
  · rename_i tys h1; exact ⟨tys, h1, h⟩
  · cases h

/-- both operands of a comparison are typed; the left operand of `in` is not a collection -/
theorem sType_compare {Γ op l r τ} (h : sType Γ (.compare op l r) = some τ) :
    (∃ a, sType Γ l = some a ∧ (op = .in_ → a ≠ .coll)) ∧ (∃ b, sType Γ r = some b) := by
  have gen : ∀ {op : CmpOp}, op ≠ .in_ →
      (match sType Γ l, sType Γ r with
        | some a, some b => if compatTy a b then some (OTy.prim .bool) else none
        | _, _ => none) = some τ →
      (∃ a, sType Γ l = some a ∧ (op = .in_ → a ≠ .coll)) ∧ (∃ b, sType Γ r = some b) := by
    intro op hop h
    split at h
    · rename_i h1 h2; exact ⟨⟨_, h1, fun e => absurd e hop⟩, ⟨_, h2⟩⟩
    · cases h
  cases op
  case in_ =>
    by_cases hr : ∃ xs, r = .list xs
    · obtain ⟨xs, rfl⟩ := hr
      rw [sType] at h
      split at h
      · rename_i t ts h1 h2
        split at h
        · rename_i hc
          simp only [Bool.and_eq_true, bne_iff_ne, ne_eq] at hc
          refine ⟨⟨t, h1, fun _ => hc.1.1⟩, ⟨.coll, ?_⟩⟩
          rw [sType, h2]; rfl
        · cases h
      · cases h
    · rw [sType] at h
      · split at h
        · rename_i t h1 h2
          split at h
          · rename_i hc
            exact ⟨⟨t, h1, fun _ => by simpa using hc⟩, ⟨_, h2⟩⟩
          · cases h
        · cases h
      · intro xs hx; exact hr ⟨xs, hx⟩
  all_goals
    rw [sType] at h
    · exact gen (by decide) h
    all_goals (intros; contradiction)


theorem printable_compare {op l r} (h : printable (.compare op l r) = true) :
    printable l = true ∧ printable r = true := by
  cases op
  case in_ =>
    cases r <;> simp_all [printable]
  all_goals
    rw [printable] at h
    · simpa using h
    all_goals (intros; contradiction)

/-- a typed argument list contains no named parameter, so it is a list of printable positional arguments -/
theorem printableNamed_false {Γ} : (xs : Exprs) → ∀ tys, sTypes Γ xs = some tys → printableNamed xs = false
  | .nil, _, _ => by rw [printableNamed]
  | .cons a t, tys, h => by
      obtain ⟨x, as, h1, _, _⟩ := sTypes_cons h
      cases a
      case named => rw [sType] at h1; cases h1
      all_goals
        rw [printableNamed]
        all_goals (intros; contradiction)

theorem printable_call {Γ f args tys} (h : printable (.call f args) = true) (ht : sTypes Γ args = some tys) :
    printableArgs args = true := by
  rw [printable] at h
  simp only [Bool.and_eq_true, Bool.or_eq_true] at h
  rcases h.2 with h | h
  · exact h
  · rw [printableNamed_false args tys ht] at h; cases h

/-- Django: a path of identifiers is a column reference -/
theorem djVisit_path : (o : Expr) → (n : Str) → pathOk (.attr o n) = true →
    ∃ p, djVisit (.attr o n) = .ok (.col p, .field)
  | .ident i, n, _ => ⟨[i.name] ++ [n], by rw [djVisit, djVisit]; rfl⟩
  | .attr o' n', n, h => by
      rw [pathOk] at h
      simp only [Bool.and_eq_true] at h
      obtain ⟨p, hp⟩ := djVisit_path o' n' h.2
      exact ⟨p ++ [n], by rw [djVisit, hp]; rfl⟩
  | .lit _ _, _, h | .list _, _, h | .binop _ _ _, _, h | .compare _ _ _, _, h | .boolop _ _ _, _, h
  | .unary _ _, _, h | .named _ _, _, h | .call _ _, _, h | .coll _ _ _, _, h => by
      simp [pathOk] at h

end OQ.OrmTotal
