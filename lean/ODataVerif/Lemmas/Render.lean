/-
  Lemmas/Render.lean — helper lemmas for Props/C13Roundtrip.lean: the printer model `rtRender`
  (Model/Printer.lean) against `Spec.render ∘ Spec.printToks` in the printer's own style and mode.
  * spelling lemmas (`quoteStr` = `strReplaceQuote`, `spellIdent` = `rtIdent`, one `render` step per token)
  * the parenthesisation rule: `rtParenNeeded` = `needsParen .printer` on the specification's levels
  * `S e`: `render (printToks sty .printer e ++ rest) = rtRender e ++ render rest`, one lemma per
    constructor, assembled by mutual structural recursion over `rtOk` trees; printable ⇒ `rtOk`
-/
import ODataVerif.Model.Printer
import ODataVerif.Lemmas.Pratt
import ODataVerif.Props.C13
namespace OQ.RT
open Spec C13

/-- the printer's whitespace: "- x", "a, b", "v: body", nothing inside parentheses -/
def sty : Spec.Style := { afterMinus := true, afterComma := true, afterColon := true }

/-! ### spelling -/

theorem quoteStr_eq : (s : Str) → quoteStr s = strReplaceQuote s
  | [] => rfl
  | c :: t => by
      by_cases h : c = '\''
      · subst h; simp [quoteStr, strReplaceQuote, quoteStr_eq t]
      · simp [quoteStr, strReplaceQuote, quoteStr_eq t]

theorem joinDots_snoc (x : Str) : (ns : List Str) → ns ≠ [] → joinDots (ns ++ [x]) = joinDots ns ++ '.' :: x
  | [], h => absurd rfl h
  | [n], _ => by simp [joinDots]
  | n :: n2 :: r, _ => by
      have ih := joinDots_snoc x (n2 :: r) (by simp)
      simp only [List.cons_append] at ih ⊢
      simp only [joinDots, ih, List.append_assoc, List.cons_append]

theorem spellIdent_rt (i : Ident) : spellIdent i = rtIdent i := by
  rw [Pratt.spellIdent_eq, Ident.fullName, rtIdent]
  by_cases h : i.ns = []
  · simp [h, joinDots]
  · simp [h, joinDots_snoc _ _ h]

theorem spell_arith (o : ArithOp) : spellTok (.arith o) = ' ' :: (arithWord o).toList ++ [' '] := by
  cases o <;> decide
theorem spell_cmp (o : CmpOp) : spellTok (.cmp o) = ' ' :: (cmpWord o).toList ++ [' '] := by
  cases o <;> decide
theorem spell_bool (o : BoolOp) : spellTok (.bool o) = ' ' :: (boolWord o).toList ++ [' '] := by
  cases o <;> decide

theorem render_cons (t : Tok) (h : t ≠ .uminus) (rest : List Tok) :
    render (t :: rest) = spellTok t ++ render rest := by
  cases t <;> first | exact absurd rfl h | simp [render]


@[simp] theorem render_lit (k v) (rest : List Tok) : render (.lit k v :: rest) = spellTok (.lit k v) ++ render rest := by
  rw [render_cons (.lit k v) (by simp)]
@[simp] theorem render_ident (i) (rest : List Tok) : render (.ident i :: rest) = rtIdent i ++ render rest := by
  rw [render_cons (.ident i) (by simp)]
  show spellIdent i ++ _ = _
  rw [spellIdent_rt]
@[simp] theorem render_arith (o) (rest : List Tok) : render (.arith o :: rest) = ' ' :: (arithWord o).toList ++ ' ' :: render rest := by
  rw [render_cons (.arith o) (by simp), spell_arith]; simp
@[simp] theorem render_cmp (o) (rest : List Tok) : render (.cmp o :: rest) = ' ' :: (cmpWord o).toList ++ ' ' :: render rest := by
  rw [render_cons (.cmp o) (by simp), spell_cmp]; simp
@[simp] theorem render_bool (o) (rest : List Tok) : render (.bool o :: rest) = ' ' :: (boolWord o).toList ++ ' ' :: render rest := by
  rw [render_cons (.bool o) (by simp), spell_bool]; simp
@[simp] theorem render_not (rest : List Tok) : render (.not_ :: rest) = "not ".toList ++ render rest := by
  rw [render_cons .not_ (by simp)]; rfl
@[simp] theorem render_any (rest : List Tok) : render (.any :: rest) = "any".toList ++ render rest := by
  rw [render_cons .any (by simp)]; rfl
@[simp] theorem render_all (rest : List Tok) : render (.all :: rest) = "all".toList ++ render rest := by
  rw [render_cons .all (by simp)]; rfl
@[simp] theorem render_ws (rest : List Tok) : render (.ws :: rest) = ' ' :: render rest := by
  rw [render_cons .ws (by simp)]; rfl
@[simp] theorem render_lp (rest : List Tok) : render (.lp :: rest) = '(' :: render rest := by
  rw [render_cons .lp (by simp)]; rfl
@[simp] theorem render_rp (rest : List Tok) : render (.rp :: rest) = ')' :: render rest := by
  rw [render_cons .rp (by simp)]; rfl
@[simp] theorem render_comma (rest : List Tok) : render (.comma :: rest) = ',' :: render rest := by
  rw [render_cons .comma (by simp)]; rfl
@[simp] theorem render_slash (rest : List Tok) : render (.slash :: rest) = '/' :: render rest := by
  rw [render_cons .slash (by simp)]; rfl
@[simp] theorem render_colon (rest : List Tok) : render (.colon :: rest) = ':' :: render rest := by
  rw [render_cons .colon (by simp)]; rfl
@[simp] theorem render_eqs (rest : List Tok) : render (.eqs :: rest) = '=' :: render rest := by
  rw [render_cons .eqs (by simp)]; rfl

theorem render_uminus_ws (rest : List Tok) : render (.uminus :: .ws :: rest) = '-' :: ' ' :: render rest := by
  rw [render]
  simp only [isUnsignedNumber, Bool.false_eq_true, if_false]
  rw [render_ws]

/-! ### the parenthesisation rule -/

/-- precedence 10 in the printer's table is exactly "Attribute or Call" -/
theorem prec_ten (c : Expr) : isAttrOrCall c = true ↔ rtPrec c = 10 := by
  cases c with
  | ident i => exact (by decide : false = true ↔ precOfClass "Identifier" = 10)
  | attr o n => exact (by decide : true = true ↔ precOfClass "Attribute" = 10)
  | lit k v =>
      cases k with
      | null => exact (by decide : false = true ↔ precOfClass "Null" = 10)
      | int => exact (by decide : false = true ↔ precOfClass "Integer" = 10)
      | float => exact (by decide : false = true ↔ precOfClass "Float" = 10)
      | bool => exact (by decide : false = true ↔ precOfClass "Boolean" = 10)
      | str => exact (by decide : false = true ↔ precOfClass "String" = 10)
      | geo => exact (by decide : false = true ↔ precOfClass "Geography" = 10)
      | date => exact (by decide : false = true ↔ precOfClass "Date" = 10)
      | time => exact (by decide : false = true ↔ precOfClass "Time" = 10)
      | datetime => exact (by decide : false = true ↔ precOfClass "DateTime" = 10)
      | duration => exact (by decide : false = true ↔ precOfClass "Duration" = 10)
      | guid => exact (by decide : false = true ↔ precOfClass "GUID" = 10)
  | list xs => exact (by decide : false = true ↔ precOfClass "List" = 10)
  | binop o l r =>
      cases o with
      | add => exact (by decide : false = true ↔ precOfClass "Add" = 10)
      | sub => exact (by decide : false = true ↔ precOfClass "Sub" = 10)
      | mul => exact (by decide : false = true ↔ precOfClass "Mult" = 10)
      | div => exact (by decide : false = true ↔ precOfClass "Div" = 10)
      | mod => exact (by decide : false = true ↔ precOfClass "Mod" = 10)
  | compare o l r =>
      cases o with
      | eq => exact (by decide : false = true ↔ precOfClass "Eq" = 10)
      | ne => exact (by decide : false = true ↔ precOfClass "NotEq" = 10)
      | lt => exact (by decide : false = true ↔ precOfClass "Lt" = 10)
      | le => exact (by decide : false = true ↔ precOfClass "LtE" = 10)
      | gt => exact (by decide : false = true ↔ precOfClass "Gt" = 10)
      | ge => exact (by decide : false = true ↔ precOfClass "GtE" = 10)
      | in_ => exact (by decide : false = true ↔ precOfClass "In" = 10)
  | boolop o l r =>
      cases o with
      | and_ => exact (by decide : false = true ↔ precOfClass "And" = 10)
      | or_ => exact (by decide : false = true ↔ precOfClass "Or" = 10)
  | unary o e =>
      cases o with
      | not_ => exact (by decide : false = true ↔ precOfClass "Not" = 10)
      | neg => exact (by decide : false = true ↔ precOfClass "USub" = 10)
  | named n e => exact (by decide : false = true ↔ precOfClass "NamedParam" = 10)
  | call f a => exact (by decide : true = true ↔ precOfClass "Call" = 10)
  | coll ow o l => exact (by decide : false = true ↔ precOfClass "CollectionLambda" = 10)

/-- for a parent below level 8 the two tables agree exactly -/
theorem paren_iff (lc pc lp pp : Nat) (hc : LP lc pc) (hp : LP lp pp) (hlt : lp < 8) (strict : Bool) :
    (decide (pc < pp) || (strict && pc == pp && decide (pp < 100)))
      = (if strict then decide (lc ≤ lp) else decide (lc < lp)) := by
  unfold LP at hc hp
  rw [Bool.eq_iff_iff]
  cases strict <;> simp <;> omega

theorem needsParen_printer_low (L : Nat) (hL : L < 8) (strict : Bool) (c : Expr) :
    needsParen .printer L strict c = (if strict then decide (level c ≤ L) else decide (level c < L)) := by
  have : (L == 8) = false := by simp; omega
  simp [needsParen, this]

theorem rtParen_arith (o : ArithOp) (l r c : Expr) (strict : Bool) :
    rtParenNeeded c o.className strict = Spec.needsParen .printer (Spec.level (.binop o l r)) strict c := by
  have hlt : level (.binop o l r) < 8 := by cases o <;> simp [level]
  rw [needsParen_printer_low _ hlt]
  exact paren_iff _ _ _ _ (level_prec c) (parent_arith o l r) hlt strict

theorem rtParen_bool (o : BoolOp) (l r c : Expr) (strict : Bool) :
    rtParenNeeded c o.className strict = Spec.needsParen .printer (Spec.level (.boolop o l r)) strict c := by
  have hlt : level (.boolop o l r) < 8 := by cases o <;> simp [level]
  rw [needsParen_printer_low _ hlt]
  exact paren_iff _ _ _ _ (level_prec c) (parent_bool o l r) hlt strict

theorem rtParen_cmp (o : CmpOp) (ho : o ≠ .in_) (l r c : Expr) (strict : Bool) :
    rtParenNeeded c o.className strict = Spec.needsParen .printer (Spec.level (.compare o l r)) strict c := by
  have hlt : level (.compare o l r) < 8 := by
    cases o <;> first | (simp [level]; done) | exact absurd rfl ho
  rw [needsParen_printer_low _ hlt]
  exact paren_iff _ _ _ _ (level_prec c) (parent_cmp o l r) hlt strict

theorem rtParen_in (c : Expr) : rtParenNeeded c "In" false = Spec.needsParen .printer 8 false c := by
  have hc := level_prec c
  have h10 := prec_ten c
  have hp : precOfClass "In" = 100 := by decide
  unfold LP at hc
  unfold rtPrec at hc h10
  rw [Bool.eq_iff_iff]
  simp only [rtParenNeeded, hp, needsParen, Bool.false_and, Bool.or_false, decide_eq_true_eq,
    if_false, Bool.false_eq_true, beq_self_eq_true, Bool.not_false, Bool.and_self, Bool.true_and,
    Bool.or_eq_true, h10]
  omega

theorem rtParen_unary (o : UnOp) (c : Expr) :
    rtParenNeeded c o.className false = Spec.needsParen .printer 7 false c := by
  rw [needsParen_printer_low _ (by decide)]
  exact paren_iff _ _ _ _ (level_prec c) (parent_unary o) (by decide) false


/-! ### unfolding the printer model (by `rfl`: its equation lemmas are expensive to generate) -/
theorem rt_ident (i) : rtRender (.ident i) = rtIdent i := rfl
theorem rt_attr (o n) : rtRender (.attr o n) = rtRender o ++ '/' :: n := rfl
theorem rt_list_nil : rtRender (.list .nil) = ['(', ')'] := rfl
theorem rt_list_one (a) : rtRender (.list (.cons a .nil)) = '(' :: rtRender a ++ [',', ')'] := rfl
theorem rt_list_many (a b t) : rtRender (.list (.cons a (.cons b t))) = '(' :: rtJoin (.cons a (.cons b t)) ++ [')'] := rfl
theorem rt_binop (o l r) : rtRender (.binop o l r) =
    wrapIf (rtParenNeeded l o.className false) (rtRender l) ++ ' ' :: (arithWord o).toList ++ ' ' :: wrapIf (rtParenNeeded r o.className true) (rtRender r) := rfl
theorem rt_compare (o l r) : rtRender (.compare o l r) =
    wrapIf (rtParenNeeded l o.className false) (rtRender l) ++ ' ' :: (cmpWord o).toList ++ ' ' :: wrapIf (rtParenNeeded r o.className true) (rtRender r) := rfl
theorem rt_boolop (o l r) : rtRender (.boolop o l r) =
    wrapIf (rtParenNeeded l o.className false) (rtRender l) ++ ' ' :: (boolWord o).toList ++ ' ' :: wrapIf (rtParenNeeded r o.className true) (rtRender r) := rfl
theorem rt_not (e) : rtRender (.unary .not_ e) = "not ".toList ++ wrapIf (rtParenNeeded e "Not" false) (rtRender e) := rfl
theorem rt_neg (e) : rtRender (.unary .neg e) = "- ".toList ++ wrapIf (rtParenNeeded e "USub" false) (rtRender e) := rfl
theorem rt_named (n e) : rtRender (.named n e) = rtIdent n ++ '=' :: rtRender e := rfl
theorem rt_call (f args) : rtRender (.call f args) = rtIdent f ++ '(' :: rtJoin args ++ [')'] := rfl
theorem rt_coll (ow op lam) : rtRender (.coll ow op lam) =
    rtRender ow ++ '/' :: (if op = .any then "any" else "all").toList ++ '(' :: rtLam lam ++ [')'] := rfl
theorem rtJoin_nil : rtJoin .nil = [] := rfl
theorem rtJoin_one (a) : rtJoin (.cons a .nil) = rtRender a := rfl
theorem rtJoin_cons (a b t) : rtJoin (.cons a (.cons b t)) = rtRender a ++ ',' :: ' ' :: rtJoin (.cons b t) := rfl
theorem rtLam_none : rtLam .none = [] := rfl
theorem rtLam_some (v b) : rtLam (.some v b) = rtIdent v ++ ':' :: ' ' :: rtRender b := rfl

/-! ### the printer's text against the reference rendering -/

@[simp] theorem ws_true : ws? true = [.ws] := rfl
@[simp] theorem ws_false : ws? false = [] := rfl

mutual
/-- shapes on which the printer model and the reference rendering agree: the right operand of every
    `in` is something the printer does not parenthesise (a list, in every parsed tree) -/
def rtOk : Expr → Bool
  | .ident _ => true
  | .attr o _ => rtOk o
  | .lit _ _ => true
  | .list xs => rtOkArgs xs
  | .binop _ l r => rtOk l && rtOk r
  | .compare o l r => rtOk l && rtOk r && (o != .in_ || !rtParenNeeded r "In" true)
  | .boolop _ l r => rtOk l && rtOk r
  | .unary _ e => rtOk e
  | .named _ e => rtOk e
  | .call _ args => rtOkArgs args
  | .coll ow _ lam => rtOk ow && rtOkLam lam
def rtOkArgs : Exprs → Bool
  | .nil => true
  | .cons a t => rtOk a && rtOkArgs t
def rtOkLam : OptLam → Bool
  | .none => true
  | .some _ b => rtOk b
end

/-- the statement proved by recursion: rendering the tokens of `e` followed by anything -/
def S (e : Expr) : Prop :=
  ∀ rest : List Tok, render (printToks sty .printer e ++ rest) = rtRender e ++ render rest

def SJ (xs : Exprs) : Prop :=
  ∀ rest : List Tok, render (printArgs sty .printer xs ++ rest) = rtJoin xs ++ render rest

theorem s_operand {c : Expr} (hc : S c) (pl : Nat) (strict : Bool) (cls : String)
    (hp : rtParenNeeded c cls strict = needsParen .printer pl strict c) (rest : List Tok) :
    render (operand sty .printer pl strict c ++ rest)
      = wrapIf (rtParenNeeded c cls strict) (rtRender c) ++ render rest := by
  rw [operand, hp]
  cases needsParen .printer pl strict c with
  | false => simpa [wrapIf] using hc rest
  | true =>
    simp only [if_true, wrapIf, paren, sty, ws_false, List.append_nil, List.cons_append,
      List.nil_append, List.append_assoc, render_lp]
    have := hc (.rp :: rest)
    simp only [sty] at this
    rw [this, render_rp]

theorem s_ident (i : Ident) : S (.ident i) := by
  intro rest
  simp [printToks, rt_ident]

theorem s_attr {o : Expr} (n : Str) (ho : S o) : S (.attr o n) := by
  intro rest
  simp only [printToks, List.append_assoc, List.cons_append, List.nil_append]
  rw [ho, render_slash, render_ident]
  simp [rtIdent, rt_attr]

theorem s_lit (k : LitKind) (v : Str) : S (.lit k v) := by
  intro rest
  simp only [printToks, List.cons_append, List.nil_append, render_lit]
  cases k <;> first | rfl | (show _ :: (quoteStr v ++ _) ++ _ = _; rw [quoteStr_eq]; rfl)

theorem s_binop {l r : Expr} (o : ArithOp) (hl : S l) (hr : S r) : S (.binop o l r) := by
  intro rest
  rw [printToks]
  simp only [List.append_assoc, List.cons_append, List.nil_append]
  rw [s_operand hl _ _ o.className (rtParen_arith o l r l false), render_arith,
    s_operand hr _ _ o.className (rtParen_arith o l r r true), rt_binop]
  simp

theorem s_boolop {l r : Expr} (o : BoolOp) (hl : S l) (hr : S r) : S (.boolop o l r) := by
  intro rest
  rw [printToks]
  simp only [List.append_assoc, List.cons_append, List.nil_append]
  rw [s_operand hl _ _ o.className (rtParen_bool o l r l false), render_bool,
    s_operand hr _ _ o.className (rtParen_bool o l r r true), rt_boolop]
  simp

theorem s_compare {l r : Expr} (o : CmpOp) (ho : o ≠ .in_) (hl : S l) (hr : S r) : S (.compare o l r) := by
  intro rest
  have hp : printToks sty .printer (.compare o l r) =
      operand sty .printer (level (.compare o l r)) false l ++ .cmp o ::
        operand sty .printer (level (.compare o l r)) true r := by
    cases o <;> first | exact absurd rfl ho | (rw [printToks] <;> simp)
  rw [hp]
  simp only [List.append_assoc, List.cons_append]
  rw [s_operand hl _ _ o.className (rtParen_cmp o ho l r l false), render_cmp,
    s_operand hr _ _ o.className (rtParen_cmp o ho l r r true), rt_compare]
  simp

theorem s_in {l r : Expr} (hl : S l) (hr : S r) (hnp : rtParenNeeded r "In" true = false) :
    S (.compare .in_ l r) := by
  intro rest
  rw [printToks]
  simp only [List.append_assoc, List.cons_append, List.nil_append]
  rw [s_operand hl 8 false "In" (rtParen_in l), render_cmp, hr, rt_compare]
  have : CmpOp.in_.className = "In" := rfl
  simp [this, hnp, wrapIf]

theorem s_not {e : Expr} (he : S e) : S (.unary .not_ e) := by
  intro rest
  rw [printToks]
  simp only [List.cons_append, List.nil_append, render_not]
  rw [s_operand he 7 false "Not" (rtParen_unary .not_ e), rt_not]
  simp

theorem s_neg {e : Expr} (he : S e) : S (.unary .neg e) := by
  intro rest
  rw [printToks]
  simp only [sty, ws_true, List.cons_append, List.nil_append, render_uminus_ws]
  have := s_operand he 7 false "USub" (rtParen_unary .neg e) rest
  simp only [sty] at this
  rw [this, rt_neg]
  rfl

theorem s_named {e : Expr} (n : Ident) (he : S e) : S (.named n e) := by
  intro rest
  simp only [printToks, List.cons_append, List.nil_append, render_ident, render_eqs]
  rw [he, rt_named]
  simp

/-! ### argument lists, calls, lambdas -/

theorem sj_nil : SJ .nil := by
  intro rest; simp [printArgs, rtJoin_nil]

theorem sj_one {a : Expr} (ha : S a) : SJ (.cons a .nil) := by
  intro rest; simpa [printArgs, rtJoin_one] using ha rest

theorem sj_cons {a b : Expr} {t : Exprs} (ha : S a) (ht : SJ (.cons b t)) : SJ (.cons a (.cons b t)) := by
  intro rest
  rw [Pratt.printArgs_cons2]
  simp only [commaToks, sty, ws_true, ws_false, List.append_assoc, List.cons_append, List.nil_append]
  have h1 := ha (.comma :: .ws :: (printArgs sty .printer (.cons b t) ++ rest))
  have h2 := ht rest
  simp only [sty] at h1 h2
  rw [h1, render_comma, render_ws, h2, rtJoin_cons]
  simp

theorem s_list_nil : S (.list .nil) := by
  intro rest
  simp [printToks, printList, rt_list_nil]

theorem s_list_one {a : Expr} (ha : S a) : S (.list (.cons a .nil)) := by
  intro rest
  simp only [printToks, printList, sty, ws_false, List.append_nil, List.append_assoc, List.cons_append,
    List.nil_append, render_lp]
  have h1 := ha (.comma :: .rp :: rest)
  simp only [sty] at h1
  rw [h1, render_comma, render_rp, rt_list_one]
  simp

theorem s_list_many {a b : Expr} {t : Exprs} (h : SJ (.cons a (.cons b t))) : S (.list (.cons a (.cons b t))) := by
  intro rest
  simp only [printToks, printList, paren, sty, ws_false, List.append_nil, List.append_assoc,
    List.cons_append, List.nil_append, render_lp]
  have h1 := h (.rp :: rest)
  simp only [sty] at h1
  rw [h1, render_rp, rt_list_many]
  simp

theorem s_call_nil (f : Ident) : S (.call f .nil) := by
  intro rest
  simp [printToks, rt_call, rtJoin_nil]

theorem s_call_one {a : Expr} (f : Ident) (ha : S a) : S (.call f (.cons a .nil)) := by
  intro rest
  simp only [printToks, paren, sty, ws_false, List.append_nil, List.append_assoc, List.cons_append,
    List.nil_append, render_ident, render_lp]
  have h1 := ha (.rp :: rest)
  simp only [sty] at h1
  rw [h1, render_rp, rt_call, rtJoin_one]
  simp

theorem s_call_many {a b : Expr} {t : Exprs} (f : Ident) (h : SJ (.cons a (.cons b t))) :
    S (.call f (.cons a (.cons b t))) := by
  intro rest
  simp only [printToks, paren, sty, ws_false, List.append_nil, List.append_assoc, List.cons_append,
    List.nil_append, render_ident, render_lp]
  have h1 := h (.rp :: rest)
  simp only [sty] at h1
  rw [h1, render_rp, rt_call]
  simp

theorem s_coll_none {ow : Expr} (op : CollOp) (how : S ow) : S (.coll ow op .none) := by
  intro rest
  simp only [printToks, sty, ws_false, List.append_nil, List.append_assoc, List.cons_append,
    List.nil_append]
  have h1 := how (.slash :: (if op = .any then Tok.any else Tok.all) :: .lp :: .rp :: rest)
  simp only [sty] at h1
  rw [h1, render_slash, rt_coll, rtLam_none]
  cases op <;> simp

theorem s_coll_some {ow b : Expr} (op : CollOp) (v : Ident) (how : S ow) (hb : S b) :
    S (.coll ow op (.some v b)) := by
  intro rest
  simp only [printToks, paren, sty, ws_false, ws_true, List.append_nil, List.append_assoc,
    List.cons_append, List.nil_append]
  have h1 := how (.slash :: (if op = .any then Tok.any else Tok.all) :: .lp :: .ident v :: .colon :: .ws ::
    (printToks sty .printer b ++ .rp :: rest))
  have h2 := hb (.rp :: rest)
  simp only [sty] at h1 h2
  rw [h1, render_slash, rt_coll, rtLam_some]
  cases op <;> simp [h2]

theorem s_compare_any {l r : Expr} (o : CmpOp) (hl : S l) (hr : S r)
    (hnp : (o != .in_ || !rtParenNeeded r "In" true) = true) : S (.compare o l r) := by
  by_cases ho : o = .in_
  · subst ho
    exact s_in hl hr (by simpa using hnp)
  · exact s_compare o ho hl hr

/-! ### assembly -/

mutual
theorem render_ok : (e : Expr) → rtOk e = true → S e
  | .ident i, _ => s_ident i
  | .attr o n, h => s_attr n (render_ok o (by simpa [rtOk] using h))
  | .lit k v, _ => s_lit k v
  | .list .nil, _ => s_list_nil
  | .list (.cons a .nil), h => s_list_one (render_ok a (by simpa [rtOk, rtOkArgs] using h))
  | .list (.cons a (.cons b t)), h => s_list_many (join_ok (.cons a (.cons b t)) (by simpa [rtOk] using h))
  | .binop o l r, h =>
      have h' : rtOk l = true ∧ rtOk r = true := by simpa [rtOk] using h
      s_binop o (render_ok l h'.1) (render_ok r h'.2)
  | .boolop o l r, h =>
      have h' : rtOk l = true ∧ rtOk r = true := by simpa [rtOk] using h
      s_boolop o (render_ok l h'.1) (render_ok r h'.2)
  | .compare o l r, h =>
      have h' : (rtOk l = true ∧ rtOk r = true) ∧ (o != .in_ || !rtParenNeeded r "In" true) = true := by
        simpa only [rtOk, Bool.and_eq_true] using h
      s_compare_any o (render_ok l h'.1.1) (render_ok r h'.1.2) h'.2
  | .unary .not_ e, h => s_not (render_ok e (by simpa [rtOk] using h))
  | .unary .neg e, h => s_neg (render_ok e (by simpa [rtOk] using h))
  | .named n e, h => s_named n (render_ok e (by simpa [rtOk] using h))
  | .call f .nil, _ => s_call_nil f
  | .call f (.cons a .nil), h => s_call_one f (render_ok a (by simpa [rtOk, rtOkArgs] using h))
  | .call f (.cons a (.cons b t)), h =>
      s_call_many f (join_ok (.cons a (.cons b t)) (by simpa [rtOk] using h))
  | .coll ow op .none, h => s_coll_none op (render_ok ow (by simpa [rtOk, rtOkLam] using h))
  | .coll ow op (.some v b), h =>
      have h' : rtOk ow = true ∧ rtOk b = true := by simpa [rtOk, rtOkLam] using h
      s_coll_some op v (render_ok ow h'.1) (render_ok b h'.2)
theorem join_ok : (xs : Exprs) → rtOkArgs xs = true → SJ xs
  | .nil, _ => sj_nil
  | .cons a .nil, h => sj_one (render_ok a (by simpa [rtOkArgs] using h))
  | .cons a (.cons b t), h =>
      have h' : rtOk a = true ∧ rtOkArgs (.cons b t) = true := by simpa [rtOkArgs] using h
      sj_cons (render_ok a h'.1) (join_ok (.cons b t) h'.2)
end

/-! ### printable trees are `rtOk` -/

/-- a call argument that is a named parameter with a printable value -/
def namedOk : Expr → Bool
  | .named _ e => printable e
  | _ => false

theorem rtOk_foldl (names : List Str) : ∀ o : Expr, rtOk o = true →
    rtOk (names.foldl (fun o n => Expr.attr o n) o) = true := by
  induction names with
  | nil => intro o h; exact h
  | cons n ns ih => intro o h; exact ih (.attr o n) (by simpa [rtOk] using h)

theorem rtOk_of_pathOk (e : Expr) (h : pathOk e = true) : rtOk e = true := by
  obtain ⟨i, names, he, _, _⟩ := Pratt.pathOk_decomp sty .printer e h
  rw [he]
  exact rtOk_foldl names (.ident i) (by simp [rtOk])

theorem list_not_wrapped (xs : Exprs) : rtParenNeeded (.list xs) "In" true = false :=
  (by decide : (decide (precOfClass "List" < precOfClass "In")
    || (true && precOfClass "List" == precOfClass "In" && decide (precOfClass "In" < 100))) = false)

theorem compare_split (o : CmpOp) (l r : Expr) (h : printable (.compare o l r) = true) :
    printable l = true ∧ printable r = true ∧ (o != .in_ || !rtParenNeeded r "In" true) = true := by
  cases o with
  | in_ =>
    cases r with
    | list xs =>
      have h' : printable l = true ∧ 1 ≤ xs.length ∧ printableArgs xs = true := by
        simpa [printable] using h
      refine ⟨h'.1, by simp [printable, h'.2.1, h'.2.2], by simp [list_not_wrapped]⟩
    | _ => simp [printable] at h
  | _ => simpa [printable] using h

theorem args_split (a : Expr) (t : Exprs)
    (h : printableArgs (.cons a t) = true ∨ printableNamed (.cons a t) = true) :
    (printable a = true ∨ namedOk a = true) ∧ (printableArgs t = true ∨ printableNamed t = true) := by
  rcases h with h | h
  · have h' : printable a = true ∧ printableArgs t = true := by simpa [printableArgs] using h
    exact ⟨Or.inl h'.1, Or.inl h'.2⟩
  · cases a with
    | named n e =>
      cases t with
      | nil => exact ⟨Or.inr (by simpa [printableNamed, namedOk] using h), Or.inl rfl⟩
      | cons b t' =>
        have h' : printable e = true ∧ printableNamed (.cons b t') = true := by
          simpa [printableNamed] using h
        exact ⟨Or.inr (by simpa [namedOk] using h'.1), Or.inr h'.2⟩
    | _ => cases t <;> simp [printableNamed] at h

mutual
theorem rtOk_of_printable : (e : Expr) → (printable e = true ∨ namedOk e = true) → rtOk e = true
  | .ident _, _ => by simp [rtOk]
  | .attr o n, h => rtOk_of_pathOk _ (by simpa [printable, namedOk] using h)
  | .lit _ _, _ => by simp [rtOk]
  | .list xs, h =>
      have h' : 1 ≤ xs.length ∧ printableArgs xs = true := by simpa [printable, namedOk] using h
      by simpa [rtOk] using rtOkArgs_of_printable xs (Or.inl h'.2)
  | .binop o l r, h =>
      have h' : printable l = true ∧ printable r = true := by simpa [printable, namedOk] using h
      by simp [rtOk, rtOk_of_printable l (Or.inl h'.1), rtOk_of_printable r (Or.inl h'.2)]
  | .boolop o l r, h =>
      have h' : printable l = true ∧ printable r = true := by simpa [printable, namedOk] using h
      by simp [rtOk, rtOk_of_printable l (Or.inl h'.1), rtOk_of_printable r (Or.inl h'.2)]
  | .compare o l r, h =>
      have h' := compare_split o l r (h.resolve_right (by simp [namedOk]))
      by simp only [rtOk, rtOk_of_printable l (Or.inl h'.1), rtOk_of_printable r (Or.inl h'.2.1),
           h'.2.2, Bool.and_self]
  | .unary o e, h =>
      have h' : printable e = true := by simpa [printable, namedOk] using h
      by simpa [rtOk] using rtOk_of_printable e (Or.inl h')
  | .named n e, h =>
      have h' : printable e = true := by simpa [printable, namedOk] using h
      by simpa [rtOk] using rtOk_of_printable e (Or.inl h')
  | .call f args, h =>
      have h' : callOk f args.length = true ∧ (printableArgs args = true ∨ printableNamed args = true) := by
        simpa [printable, namedOk] using h
      by simpa [rtOk] using rtOkArgs_of_printable args h'.2
  | .coll ow op .none, h =>
      have h' : pathOk ow = true ∧ op = .any := by simpa [printable, namedOk] using h
      by simp [rtOk, rtOkLam, rtOk_of_pathOk ow h'.1]
  | .coll ow op (.some v b), h =>
      have h' : pathOk ow = true ∧ printable b = true := by simpa [printable, namedOk] using h
      by simp [rtOk, rtOkLam, rtOk_of_pathOk ow h'.1, rtOk_of_printable b (Or.inl h'.2)]
theorem rtOkArgs_of_printable : (xs : Exprs) →
    (printableArgs xs = true ∨ printableNamed xs = true) → rtOkArgs xs = true
  | .nil, _ => by simp [rtOkArgs]
  | .cons a t, h =>
      have h' := args_split a t h
      by simp [rtOkArgs, rtOk_of_printable a h'.1, rtOkArgs_of_printable t h'.2]
end

/-- the printer's text is the spelling of the reference token list, for every `rtOk` tree -/
theorem rtRender_eq_of_rtOk (e : Expr) (h : rtOk e = true) :
    rtRender e = render (printToks sty .printer e) := by
  have := render_ok e h []
  simpa [render] using this.symm


end OQ.RT
