/-
  Lemmas/DateOrder.lean — helper lemmas for Props/DateOrder.lean: code points of digit characters, `strLt` on cons cells.
-/
import ODataVerif.Spec.DateSem
namespace OQ.DateSem
open Spec

theorem digitChar_toNat (k : Nat) : (digitChar k).toNat = 48 + k % 10 := by
  unfold digitChar
  have h : (48 + k % 10).isValidChar := by
    left; omega
  simp [Char.ofNat, h, Char.ofNatAux, Char.toNat]
  omega

theorem digitChar_eq_iff (a b : Nat) : digitChar a = digitChar b ↔ a % 10 = b % 10 := by
  rw [← Char.toNat_inj, digitChar_toNat, digitChar_toNat]; omega

theorem digitChar_beq (a b : Nat) : (digitChar a == digitChar b) = decide (a % 10 = b % 10) := by
  rw [Bool.eq_iff_iff]; simp [digitChar_eq_iff]

theorem dash_toNat : '-'.toNat = 45 := by decide

theorem strLt_cons (a b : Char) (as bs : Str) :
    strLt (a :: as) (b :: bs) = (decide (a.toNat < b.toNat) || (a == b && strLt as bs)) := by
  simp [strLt]

theorem strLt_nil : strLt [] [] = false := rfl

theorem char_le_iff (a b : Char) : a ≤ b ↔ a.toNat ≤ b.toNat := by
  rw [Char.le_def, UInt32.le_iff_toNat_le]; rfl

theorem digitVal_digitChar (k : Nat) : digitVal (digitChar k) = some (k % 10) := by
  have z : '0'.toNat = 48 := by decide
  have n : '9'.toNat = 57 := by decide
  have h : '0' ≤ digitChar k ∧ digitChar k ≤ '9' := by
    rw [char_le_iff, char_le_iff, digitChar_toNat, z, n]; omega
  unfold digitVal
  rw [if_pos h, digitChar_toNat]; simp

/-! fixed-width decimal numerals: the value order is the lexicographic order of the digits -/

theorem digits4 (y : Nat) (h : y < 10000) : ∃ a b c d, a < 10 ∧ b < 10 ∧ c < 10 ∧ d < 10 ∧ y = 1000*a + 100*b + 10*c + d ∧
    y/1000%10 = a ∧ y/100%10 = b ∧ y/10%10 = c ∧ y%10 = d :=
  ⟨y/1000%10, y/100%10, y/10%10, y%10, by omega, by omega, by omega, by omega, by omega, rfl, rfl, rfl, rfl⟩

theorem lex4 (y y' : Nat) (h : y<10000) (h' : y' < 10000) : (y < y') ↔ (y/1000%10 < y'/1000%10 ∨ y/1000%10 = y'/1000%10 ∧ (y/100%10 < y'/100%10 ∨ y/100%10 = y'/100%10 ∧ (y/10%10 < y'/10%10 ∨ y/10%10 = y'/10%10 ∧ y%10 < y'%10))) := by
  obtain ⟨a, b, c, d, ha, hb, hc, hd, e, e3, e2, e1, e0⟩ := digits4 y h
  obtain ⟨a', b', c', d', ha', hb', hc', hd', e', e3', e2', e1', e0'⟩ := digits4 y' h'
  rw [e3, e2, e1, e0, e3', e2', e1', e0', e, e']
  omega

theorem eq4 (y y' : Nat) (h : y<10000) (h' : y' < 10000) : (y = y') ↔ (y/1000%10 = y'/1000%10 ∧ y/100%10 = y'/100%10 ∧ y/10%10 = y'/10%10 ∧ y%10 = y'%10) := by
  obtain ⟨a, b, c, d, ha, hb, hc, hd, e, e3, e2, e1, e0⟩ := digits4 y h
  obtain ⟨a', b', c', d', ha', hb', hc', hd', e', e3', e2', e1', e0'⟩ := digits4 y' h'
  rw [e3, e2, e1, e0, e3', e2', e1', e0', e, e']
  omega

theorem lex2 (m m' : Nat) (h : m < 100) (h' : m' < 100) :
    m < m' ↔ (m/10%10 < m'/10%10 ∨ m/10%10 = m'/10%10 ∧ m%10 < m'%10) := by omega

theorem eq2 (m m' : Nat) (h : m < 100) (h' : m' < 100) :
    m = m' ↔ (m/10%10 = m'/10%10 ∧ m%10 = m'%10) := by omega

end OQ.DateSem
