/- Lemmas/LexRest.lean — every scanner of the lexer returns a remainder whose characters are characters of its input
   (so a predicate that holds of every input character holds of every remainder character). -/
import ODataVerif.Lemmas.LexImage
set_option linter.unusedSimpArgs false
set_option linter.unusedVariables false
namespace OQ.LexImage
open Spec (isDig)



section Rest
variable (env : CharEnv) (P : Char → Bool)

theorem all_app_right {a b : Str} (h : (a ++ b).all P = true) : b.all P = true := by
  simp only [List.all_append, Bool.and_eq_true] at h; exact h.2

theorem kw_decomp (env : CharEnv) : ∀ (p cs m r : List Char), kw env p cs = some (m, r) → cs = m ++ r
  | [], cs, m, r, h => by rw [kw_nil] at h; simp [h.1, h.2]
  | p :: ps, cs, m, r, h => by
    rw [kw_cons] at h
    obtain ⟨c, t, m', rfl, -, hk, rfl⟩ := h
    simp [kw_decomp env ps t m' r hk]

theorem kw_rest (p cs m r : List Char) (h : kw env p cs = some (m, r)) (ha : cs.all P = true) : r.all P = true := by
  rw [kw_decomp env _ _ _ _ h] at ha; exact all_app_right P ha

theorem span1_rest (p : Char → Bool) (cs a r : List Char) (h : span1 p cs = some (a, r)) (ha : cs.all P = true) :
    r.all P = true := by
  rw [(span1_spec p cs a r h).2.2.2] at ha; exact all_app_right P ha

theorem takeN_rest (p : Char → Bool) : ∀ (n : Nat) (cs m r : List Char), takeN p n cs = some (m, r) →
    cs.all P = true → r.all P = true
  | 0, cs, m, r, h, ha => by simp [takeN] at h; simp [← h.2, ha]
  | _ + 1, [], m, r, h, ha => by simp [takeN] at h
  | n + 1, c :: cs, m, r, h, ha => by
      simp only [takeN] at h
      split at h
      · split at h
        · rename_i m' r' heq
          simp only [Option.some.injEq, Prod.mk.injEq] at h
          simp only [List.all_cons, Bool.and_eq_true] at ha
          have := takeN_rest p n cs m' r' heq ha.2
          rw [← h.2]; exact this
        · simp at h
      · simp at h

theorem takeUpTo_rest (p : Char → Bool) : ∀ (n : Nat) (cs : List Char), cs.all P = true →
    (takeUpTo p n cs).2.all P = true
  | 0, cs, ha => by simpa [takeUpTo] using ha
  | _ + 1, [], ha => by simp [takeUpTo]
  | n + 1, c :: cs, ha => by
      simp only [takeUpTo]
      split
      · simp only [List.all_cons, Bool.and_eq_true] at ha
        exact takeUpTo_rest p n cs ha.2
      · exact ha

theorem durGroup_rest (l : Char) (cs : List Char) (ha : cs.all P = true) : (durGroup env l cs).2.all P = true := by
  unfold durGroup
  split
  · rename_i ds c r heq
    have := span1_rest P _ _ _ _ heq ha
    simp only [List.all_cons, Bool.and_eq_true] at this
    split
    · exact this.2
    · exact ha
  · exact ha

theorem durSeconds_rest (cs : List Char) (ha : cs.all P = true) : (durSeconds env cs).2.all P = true := by
  unfold durSeconds
  split
  · rename_i ds r heq
    have h1 := span1_rest P _ _ _ _ heq ha
    simp only [List.all_cons, Bool.and_eq_true] at h1
    split
    · rename_i fs c r' heq'
      have h2 := span1_rest P _ _ _ _ heq' h1.2
      simp only [List.all_cons, Bool.and_eq_true] at h2
      split
      · exact h2.2
      · exact ha
    · exact ha
  · rename_i ds c r heq
    have h1 := span1_rest P _ _ _ _ heq ha
    simp only [List.all_cons, Bool.and_eq_true] at h1
    split
    · exact h1.2
    · exact ha
  · exact ha

theorem scanDuration_rest (cs : List Char) (v r) (h : scanDuration env cs = some (v, r)) (ha : cs.all P = true) :
    r.all P = true := by
  unfold scanDuration at h
  simp only [Option.bind_eq_bind, Option.bind_eq_some_iff] at h
  obtain ⟨⟨m0, r0⟩, h0, ⟨pm, r2⟩, hp, h⟩ := h
  have a0 := kw_rest env P _ _ _ _ h0 ha
  dsimp only at hp h
  have a1 : (scanDuration.match_1 (fun _ => List Char × List Char) r0 (fun t => (['+'], t)) (fun t => (['-'], t))
      (fun _ => ([], r0))).2.all P = true := by
    split
    · simp only [List.all_cons, Bool.and_eq_true] at a0; exact a0.2
    · simp only [List.all_cons, Bool.and_eq_true] at a0; exact a0.2
    · exact a0
  have a2 := kw_rest env P _ _ _ _ hp a1
  have a3 := durGroup_rest env P 'y' _ a2
  have a4 := durGroup_rest env P 'm' _ a3
  have a5 := durGroup_rest env P 'd' _ a4
  generalize (durGroup env 'd' (durGroup env 'm' (durGroup env 'y' r2).snd).snd).snd = r5 at h a5
  have a6 : (scanDuration.match_3 (fun _ => List Char × List Char) r5
      (fun c t => if ciChar env 't' c = true then
          (c :: (durGroup env 'h' t).fst ++ (durGroup env 'm' (durGroup env 'h' t).snd).fst ++
                    (durSeconds env (durGroup env 'm' (durGroup env 'h' t).snd).snd).fst,
                  (durSeconds env (durGroup env 'm' (durGroup env 'h' t).snd).snd).snd)
        else ([], r5)) (fun _ => ([], r5))).2.all P = true := by
    split
    · rename_i c t
      simp only [List.all_cons, Bool.and_eq_true] at a5
      split
      · exact durSeconds_rest env P _ (durGroup_rest env P 'm' _ (durGroup_rest env P 'h' _ a5.2))
      · simp [a5]
    · exact a5
  split at h
  · rename_i r' heq
    rw [heq] at a6
    simp only [List.all_cons, Bool.and_eq_true] at a6
    simp only [Option.some.injEq, Prod.mk.injEq] at h
    rw [← h.2]; exact a6.2
  · simp at h


theorem strBody_rest (cs b r : List Char) (h : strBody cs = some (b, r)) (ha : cs.all P = true) : r.all P = true := by
  fun_induction strBody cs generalizing b r with
  | case1 => simp at h
  | case2 t b' r' heq ih =>
      simp only [List.all_cons, Bool.and_eq_true] at ha
      have := ih _ _ heq ha.2.2
      simp only [Option.some.injEq, Prod.mk.injEq] at h; rw [← h.2]; exact this
  | case3 t heq =>
      simp only [Option.some.injEq, Prod.mk.injEq] at h
      simp only [List.all_cons, Bool.and_eq_true] at ha
      rw [← h.2]; simp [ha.1, ha.2.2]
  | case4 t hne =>
      simp only [Option.some.injEq, Prod.mk.injEq] at h
      simp only [List.all_cons, Bool.and_eq_true] at ha
      rw [← h.2]; exact ha.2
  | case5 c t hne1 hne2 b' r' heq ih =>
      simp only [List.all_cons, Bool.and_eq_true] at ha
      have := ih _ _ heq ha.2
      simp only [Option.some.injEq, Prod.mk.injEq] at h; rw [← h.2]; exact this
  | case6 => simp at h

theorem scanString_rest (cs : List Char) (v r) (h : scanString cs = some (v, r)) (ha : cs.all P = true) :
    r.all P = true := by
  unfold scanString at h
  split at h
  · simp only [Option.bind_eq_bind, Option.bind_eq_some_iff] at h
    obtain ⟨⟨b, r'⟩, h1, h2⟩ := h
    simp only [List.all_cons, Bool.and_eq_true] at ha
    have := strBody_rest P _ _ _ h1 ha.2
    simp only [Option.pure_def, Option.some.injEq, Prod.mk.injEq] at h2
    rw [← h2.2]; exact this
  · simp at h

theorem scanGeography_rest (cs : List Char) (v r) (h : scanGeography env cs = some (v, r)) (ha : cs.all P = true) :
    r.all P = true := by
  unfold scanGeography at h
  simp only [Option.bind_eq_bind, Option.bind_eq_some_iff] at h
  obtain ⟨⟨b, r'⟩, h1, h2⟩ := h
  exact strBody_rest P _ _ _ h2 (kw_rest env P _ _ _ _ h1 ha)

theorem scanGuid_rest (cs : List Char) (v r) (h : scanGuid env cs = some (v, r)) (ha : cs.all P = true) :
    r.all P = true := by
  unfold scanGuid at h
  simp only [Option.bind_eq_bind, Option.bind_eq_some_iff] at h
  obtain ⟨⟨a, r1⟩, h1, h⟩ := h
  have a1 := takeN_rest P _ _ _ _ _ h1 ha
  split at h <;> simp only [Option.bind_some, Option.bind_none, Option.bind_eq_some_iff, reduceCtorEq] at h
  rename_i t1 heq1
  dsimp only at heq1; rw [heq1] at a1; simp only [List.all_cons, Bool.and_eq_true] at a1
  obtain ⟨⟨b, r2⟩, h2, h⟩ := h
  have a2 := takeN_rest P _ _ _ _ _ h2 a1.2
  split at h <;> simp only [Option.bind_some, Option.bind_none, Option.bind_eq_some_iff, reduceCtorEq] at h
  rename_i t2 heq2
  dsimp only at heq2; rw [heq2] at a2; simp only [List.all_cons, Bool.and_eq_true] at a2
  obtain ⟨⟨c, r3⟩, h3, h⟩ := h
  have a3 := takeN_rest P _ _ _ _ _ h3 a2.2
  split at h <;> simp only [Option.bind_some, Option.bind_none, Option.bind_eq_some_iff, reduceCtorEq] at h
  rename_i t3 heq3
  dsimp only at heq3; rw [heq3] at a3; simp only [List.all_cons, Bool.and_eq_true] at a3
  obtain ⟨⟨d, r4⟩, h4, h⟩ := h
  have a4 := takeN_rest P _ _ _ _ _ h4 a3.2
  split at h <;> simp only [Option.bind_some, Option.bind_none, Option.bind_eq_some_iff, reduceCtorEq] at h
  rename_i t4 heq4
  dsimp only at heq4; rw [heq4] at a4; simp only [List.all_cons, Bool.and_eq_true] at a4
  obtain ⟨⟨e, r5⟩, h5, h⟩ := h
  have a5 := takeN_rest P _ _ _ _ _ h5 a4.2
  simp only [Option.pure_def, Option.some.injEq, Prod.mk.injEq] at h
  rw [← h.2]; exact a5

theorem scanDatePart_rest (cs : List Char) (v r) (h : scanDatePart env cs = some (v, r)) (ha : cs.all P = true) :
    r.all P = true := by
  unfold scanDatePart at h
  split at h
  · split at h <;> simp only [Option.some.injEq, Prod.mk.injEq, reduceCtorEq] at h
    rw [← h.2]
    simp only [List.all_cons, Bool.and_eq_true] at ha
    exact ha.2.2.2.2.2.2.2.2.2.2
  · simp at h

theorem scanHourMinute_rest (cs : List Char) (v r) (h : scanHourMinute env cs = some (v, r)) (ha : cs.all P = true) :
    r.all P = true := by
  unfold scanHourMinute at h
  split at h
  · split at h <;> simp only [Option.some.injEq, Prod.mk.injEq, reduceCtorEq] at h
    rw [← h.2]
    simp only [List.all_cons, Bool.and_eq_true] at ha
    exact ha.2.2.2.2.2
  · simp at h

theorem scanFraction_rest (cs : List Char) (ha : cs.all P = true) : (scanFraction env cs).2.all P = true := by
  unfold scanFraction
  split
  · rename_i r
    simp only [List.all_cons, Bool.and_eq_true] at ha
    have := takeUpTo_rest P env.isDigit 12 r ha.2
    split
    · simp [ha.1, ha.2]
    · rename_i ds r' hne heq
      rw [heq] at this
      exact this
  · exact ha

theorem scanSeconds_rest (cs : List Char) (v r) (h : scanSeconds env cs = some (v, r)) (ha : cs.all P = true) :
    r.all P = true := by
  unfold scanSeconds at h
  split at h
  · rename_i s1 s2 r0
    simp only [List.all_cons, Bool.and_eq_true] at ha
    have := scanFraction_rest env P r0 ha.2.2.2.2
    split at h <;> simp only [Option.some.injEq, Prod.mk.injEq, reduceCtorEq] at h
    rw [← h.2]; exact this
  · rename_i s1 s2 r0 _
    simp only [List.all_cons, Bool.and_eq_true] at ha
    have := scanFraction_rest env P r0 ha.2.2.2
    split at h <;> simp only [Option.some.injEq, Prod.mk.injEq, reduceCtorEq] at h
    rw [← h.2]; exact this
  · simp at h

theorem scanOffset_rest (cs : List Char) (ha : cs.all P = true) : (scanOffset env cs).2.all P = true := by
  unfold scanOffset
  split
  · rename_i c r
    have ha' := ha
    simp only [List.all_cons, Bool.and_eq_true] at ha'
    split
    · exact ha'.2
    · split
      · split
        · rename_i hm r' heq
          exact scanHourMinute_rest env P _ _ _ heq ha'.2
        · exact ha
      · exact ha
  · rfl

theorem scanDateTime_rest (cs : List Char) (v r) (h : scanDateTime env cs = some (v, r)) (ha : cs.all P = true) :
    r.all P = true := by
  unfold scanDateTime at h
  simp only [Option.bind_eq_bind, Option.bind_eq_some_iff] at h
  obtain ⟨⟨d, r1⟩, h1, h⟩ := h
  have a1 := scanDatePart_rest env P _ _ _ h1 ha
  split at h
  · rename_i _ t r2 heq
    dsimp only at heq
    rw [heq] at a1
    simp only [List.all_cons, Bool.and_eq_true] at a1
    split at h
    · simp only [Option.bind_eq_bind, Option.bind_eq_some_iff] at h
      obtain ⟨⟨hm, r3⟩, h2, h⟩ := h
      dsimp only at h
      have a2 := scanHourMinute_rest env P _ _ _ h2 a1.2
      cases hs : scanSeconds env r3 with
      | none =>
        simp only [hs, Option.pure_def, Option.some.injEq, Prod.mk.injEq] at h
        rw [← h.2]; exact scanOffset_rest env P r3 a2
      | some p =>
        obtain ⟨s, r4⟩ := p
        simp only [hs, Option.pure_def, Option.some.injEq, Prod.mk.injEq] at h
        rw [← h.2]; exact scanOffset_rest env P r4 (scanSeconds_rest env P _ _ _ hs a2)
    · simp at h
  · simp at h

theorem scanTime_rest (cs : List Char) (v r) (h : scanTime env cs = some (v, r)) (ha : cs.all P = true) :
    r.all P = true := by
  unfold scanTime at h
  simp only [Option.bind_eq_bind, Option.bind_eq_some_iff] at h
  obtain ⟨⟨d, r1⟩, h1, ⟨s, r2⟩, h2, h⟩ := h
  simp only [Option.pure_def, Option.some.injEq, Prod.mk.injEq] at h
  rw [← h.2]
  exact scanSeconds_rest env P _ _ _ h2 (scanHourMinute_rest env P _ _ _ h1 ha)

theorem scanInteger_rest (cs : List Char) (v r) (h : scanInteger env cs = some (v, r)) (ha : cs.all P = true) :
    r.all P = true := by
  unfold scanInteger at h
  split at h
  · simp only [Option.map_eq_some_iff, Prod.mk.injEq, Prod.exists] at h
    obtain ⟨a, b, h1, -, rfl⟩ := h
    simp only [List.all_cons, Bool.and_eq_true] at ha
    exact span1_rest P _ _ _ _ h1 ha.2
  · simp only [Option.map_eq_some_iff, Prod.mk.injEq, Prod.exists] at h
    obtain ⟨a, b, h1, -, rfl⟩ := h
    simp only [List.all_cons, Bool.and_eq_true] at ha
    exact span1_rest P _ _ _ _ h1 ha.2
  · exact span1_rest P _ _ _ _ h ha

theorem scanExponent_rest (cs : List Char) (v r) (h : scanExponent env cs = some (v, r)) (ha : cs.all P = true) :
    r.all P = true := by
  unfold scanExponent at h
  split at h
  · simp only [List.all_cons, Bool.and_eq_true] at ha
    split at h
    · split at h
      · simp only [Option.map_eq_some_iff, Prod.mk.injEq, Prod.exists] at h
        obtain ⟨a, b, h1, -, rfl⟩ := h
        simp only [List.all_cons, Bool.and_eq_true] at ha
        exact span1_rest P _ _ _ _ h1 ha.2.2
      · simp only [Option.map_eq_some_iff, Prod.mk.injEq, Prod.exists] at h
        obtain ⟨a, b, h1, -, rfl⟩ := h
        simp only [List.all_cons, Bool.and_eq_true] at ha
        exact span1_rest P _ _ _ _ h1 ha.2.2
      · simp only [Option.map_eq_some_iff, Prod.mk.injEq, Prod.exists] at h
        obtain ⟨a, b, h1, -, rfl⟩ := h
        exact span1_rest P _ _ _ _ h1 ha.2
    · simp at h
  · simp at h

theorem scanDecimal_rest (cs : List Char) (v r) (h : scanDecimal env cs = some (v, r)) (ha : cs.all P = true) :
    r.all P = true := by
  unfold scanDecimal at h
  simp only [Option.bind_eq_bind, Option.bind_eq_some_iff] at h
  obtain ⟨⟨i, r1⟩, h1, h⟩ := h
  have a1 := scanInteger_rest env P _ _ _ h1 ha
  dsimp only at h
  split at h
  · simp only [List.all_cons, Bool.and_eq_true] at a1
    split at h
    · rename_i f r' heq
      have a2 := span1_rest P _ _ _ _ heq a1.2
      split at h
      · rename_i e r'' heq'
        simp only [Option.some.injEq, Prod.mk.injEq] at h
        rw [← h.2]; exact scanExponent_rest env P _ _ _ heq' a2
      · simp only [Option.some.injEq, Prod.mk.injEq] at h
        rw [← h.2]; exact a2
    · simp at h
  · split at h
    · rename_i e r'' heq'
      simp only [Option.some.injEq, Prod.mk.injEq] at h
      rw [← h.2]; exact scanExponent_rest env P _ _ _ heq' a1
    · simp at h

theorem scanWord_rest (w cs : List Char) (v r) (h : scanWord env w cs = some (v, r)) (ha : cs.all P = true) :
    r.all P = true := by
  unfold scanWord at h
  split at h
  · rename_i m r' heq
    split at h <;> simp only [Option.some.injEq, Prod.mk.injEq, reduceCtorEq] at h
    rw [← h.2]; exact kw_rest env P _ _ _ _ heq ha
  · simp at h

theorem scanOp_rest (w cs : List Char) (r) (h : scanOp env w cs = some r) (ha : cs.all P = true) : r.all P = true := by
  unfold scanOp at h
  simp only [Option.bind_eq_bind, Option.bind_eq_some_iff] at h
  obtain ⟨⟨_, r1⟩, h1, ⟨_, r2⟩, h2, ⟨_, r3⟩, h3, h⟩ := h
  simp only [Option.pure_def, Option.some.injEq] at h
  rw [← h]
  exact span1_rest P _ _ _ _ h3 (kw_rest env P _ _ _ _ h2 (span1_rest P _ _ _ _ h1 ha))

theorem scanNot_rest (cs : List Char) (r) (h : scanNot env cs = some r) (ha : cs.all P = true) : r.all P = true := by
  unfold scanNot at h
  simp only [Option.bind_eq_bind, Option.bind_eq_some_iff] at h
  obtain ⟨⟨_, r2⟩, h2, ⟨_, r3⟩, h3, h⟩ := h
  simp only [Option.pure_def, Option.some.injEq] at h
  rw [← h]
  exact span1_rest P _ _ _ _ h3 (kw_rest env P _ _ _ _ h2 ha)

theorem identTail_rest : ∀ (n : Nat) (cs : List Char), cs.all P = true → (identTail env n cs).2.all P = true := by
  intro n cs
  fun_induction identTail env n cs <;> simp_all

theorem scanIdent_rest (cs : List Char) (v r) (h : scanIdent env cs = some (v, r)) (ha : cs.all P = true) :
    r.all P = true := by
  unfold scanIdent at h
  split at h
  · rename_i c t
    simp only [List.all_cons, Bool.and_eq_true] at ha
    have := identTail_rest env P 127 t ha.2
    split at h <;> simp only [Option.some.injEq, Prod.mk.injEq, reduceCtorEq] at h
    rw [← h.2]; exact this
  · simp at h

theorem lexOne_rest (cs : List Char) (t : Tok) (r : List Char)
    (h : lexOne env cs = some (t, r)) (ha : cs.all P = true) : r.all P = true := by
  unfold lexOne at h
  repeat' (split at h)
  all_goals first
    | (simp only [Option.some.injEq, Prod.mk.injEq] at h; obtain ⟨-, rfl⟩ := h
       first
        | exact scanDuration_rest env P _ _ _ ‹_› ha
        | exact scanString_rest P _ _ _ ‹_› ha
        | exact scanGeography_rest env P _ _ _ ‹_› ha
        | exact scanGuid_rest env P _ _ _ ‹_› ha
        | exact scanDateTime_rest env P _ _ _ ‹_› ha
        | exact scanDatePart_rest env P _ _ _ ‹_› ha
        | exact scanTime_rest env P _ _ _ ‹_› ha
        | exact scanDecimal_rest env P _ _ _ ‹_› ha
        | exact scanInteger_rest env P _ _ _ ‹_› ha
        | exact scanWord_rest env P _ _ _ _ ‹_› ha
        | exact scanOp_rest env P _ _ _ ‹_› ha
        | exact scanNot_rest env P _ _ ‹_› ha
        | exact scanIdent_rest env P _ _ _ ‹_› ha
        | exact span1_rest P _ _ _ _ ‹_› ha
        | (simp only [List.all_cons, Bool.and_eq_true] at ha; exact ha.2))
    | simp at h

end Rest
end OQ.LexImage
