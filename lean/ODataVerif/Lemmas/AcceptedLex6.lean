/-
  Lemmas/AcceptedLex6.lean — Boolean and identifier tokens read back alone; from "alone" to `tokLexable'` (in front of a
  blank, between blanks); the assembled idempotence statement `lexed_lexable_core`.
-/
import ODataVerif.Lemmas.AcceptedLex5
namespace OQ.AcceptedLex
open OQ.LexRender OQ.Spec OQ.CaseMap OQ.C13
set_option linter.unusedSimpArgs false
set_option linter.unusedVariables false

theorem none_of_forall {α β : Type} {x : Option (α × β)} (h : ∀ a b, x = some (a, b) → False) : x = none := by
  cases x with
  | none => rfl
  | some p => exact (h p.1 p.2 rfl).elim

/-! ### Booleans -/
theorem true_ciLow : "true".toList.all ciLow = true := by decide +kernel
theorem false_ciLow : "false".toList.all ciLow = true := by decide +kernel

theorem bool_of_true {cs v r : Str} (ha : cs.all isAscii = true) (h : scanWord E "true".toList cs = some (v, r)) :
    v.map asciiLower = "true".toList ∧ boolOrIdent v = .lit .bool v := by
  obtain ⟨-, hk, -⟩ := scanWord_trim h
  obtain ⟨hm, -⟩ := kw_lower _ _ _ _ true_ciLow ha hk
  exact ⟨hm, by simp [boolOrIdent, hm]⟩

theorem bool_of_false {cs v r : Str} (ha : cs.all isAscii = true) (h : scanWord E "false".toList cs = some (v, r)) :
    v.map asciiLower = "false".toList ∧ boolOrIdent v = .lit .bool v := by
  obtain ⟨-, hk, -⟩ := scanWord_trim h
  obtain ⟨hm, -⟩ := kw_lower _ _ _ _ false_ciLow ha hk
  exact ⟨hm, by simp [boolOrIdent, hm]⟩

/-- what the rules ask of the first character of a Boolean text -/
def boolHeadFacts (c : Char) : Bool :=
  !ciChar E 'd' c && !ciChar E 'g' c && c != '\'' && !E.isDigit c && !inCharRange '0' '1' c && c != '2' && c != '+' && c != '-'
    && (asciiLower c != 'f' || !ciChar E 't' c)

theorem boolHead_facts (c : Char) (ha : isAscii c = true) (h : asciiLower c = 't' ∨ asciiLower c = 'f') :
    boolHeadFacts c = true := by
  have := LexImage.ascii_forall (fun c => !(asciiLower c == 't' || asciiLower c == 'f') || boolHeadFacts c)
    (by decide +kernel) c ha
  rcases h with h | h <;> simpa [h] using this

theorem alone_bool {cs v r : Str} (ha : cs.all isAscii = true) (hl : lexOne E cs = some (.lit .bool v, r)) :
    lexOne E (spellTok (.lit .bool v)) = some (.lit .bool v, []) := by
  have hsrc : scanWord E "true".toList cs = some (v, r) ∨ scanWord E "false".toList cs = some (v, r) := lexOne_src hl
  have hg0 := guid_none_of_kind hl (by simp)
  show lexOne E v = some (.lit .bool v, [])
  rcases hsrc with h | h
  · obtain ⟨hm, hb⟩ := bool_of_true ha h
    obtain ⟨hcs, -, hs⟩ := scanWord_trim h
    have hg := scanGuid_prefix (a := v) (r := r) (by rw [← hcs]; exact hg0)
    have hva : v.all isAscii = true := by
      rw [hcs] at ha; simp only [List.all_append, Bool.and_eq_true] at ha; exact ha.1
    cases v with
    | nil => simp at hm
    | cons c t =>
      simp only [List.all_cons, Bool.and_eq_true] at hva
      have hc : asciiLower c = 't' := by simp at hm; exact hm.1
      have hf := boolHead_facts c hva.1 (Or.inl hc)
      simp only [boolHeadFacts, Bool.and_eq_true, Bool.not_eq_true', bne_iff_ne, ne_eq] at hf
      obtain ⟨⟨⟨⟨⟨⟨⟨⟨f1, f2⟩, f3⟩, f4⟩, f5⟩, f6⟩, f7⟩, f8⟩, -⟩ := hf
      rw [← hb]
      exact pick_true (scanDuration_head f1) (scanString_head f3) (scanGeography_head f2) hg (scanDateTime_head f4)
        (scanDatePart_head f4) (scanTime_head f5 f6) (scanDecimal_head f7 f8 f4) (scanInteger_head f7 f8 f4) hs
  · obtain ⟨hm, hb⟩ := bool_of_false ha h
    obtain ⟨hcs, -, hs⟩ := scanWord_trim h
    have hg := scanGuid_prefix (a := v) (r := r) (by rw [← hcs]; exact hg0)
    have hva : v.all isAscii = true := by
      rw [hcs] at ha; simp only [List.all_append, Bool.and_eq_true] at ha; exact ha.1
    cases v with
    | nil => simp at hm
    | cons c t =>
      simp only [List.all_cons, Bool.and_eq_true] at hva
      have hc : asciiLower c = 'f' := by simp at hm; exact hm.1
      have hf := boolHead_facts c hva.1 (Or.inr hc)
      simp only [boolHeadFacts, Bool.and_eq_true, Bool.not_eq_true', bne_iff_ne, ne_eq, Bool.or_eq_true] at hf
      obtain ⟨⟨⟨⟨⟨⟨⟨⟨f1, f2⟩, f3⟩, f4⟩, f5⟩, f6⟩, f7⟩, f8⟩, f9⟩ := hf
      have ht : ciChar E 't' c = false := by
        rcases f9 with f9 | f9
        · exact absurd hc f9
        · exact f9
      rw [← hb]
      exact pick_false (scanDuration_head f1) (scanString_head f3) (scanGeography_head f2) hg (scanDateTime_head f4)
        (scanDatePart_head f4) (scanTime_head f5 f6) (scanDecimal_head f7 f8 f4) (scanInteger_head f7 f8 f4)
        (scanWord_head (p := 't') (ps := ['r', 'u', 'e']) ht) hs

/-! ### all literal kinds -/
theorem lit_alone {cs r v : Str} {k : LitKind} (ha : cs.all isAscii = true) (hl : lexOne E cs = some (.lit k v, r)) :
    lexOne E (spellTok (.lit k v)) = some (.lit k v, []) := by
  have hsrc := lexOne_src hl
  cases k with
  | null =>
    obtain ⟨rfl, -⟩ : v = [] ∧ _ := hsrc
    exact alone_null
  | int => exact alone_int hl hsrc
  | float => exact alone_float hl hsrc
  | bool => exact alone_bool ha hl
  | str => exact alone_str hsrc
  | geo => exact alone_geo hsrc
  | date => exact alone_date hsrc
  | time => exact alone_time hsrc
  | datetime => exact alone_datetime hsrc
  | duration => exact alone_duration ha hsrc
  | guid => exact alone_guid hsrc

/-! ### identifiers -/
theorem lexOne_ident_inv {cs r : Str} {i : Ident} (ha : cs.all isAscii = true) (h : lexOne E cs = some (.ident i, r)) :
    scanIdent E cs = some (i, r) ∧ scanWord E "true".toList cs = none ∧ scanWord E "false".toList cs = none ∧
    scanWord E "null".toList cs = none ∧ scanWord E "any".toList cs = none ∧ scanWord E "all".toList cs = none := by
  unfold lexOne at h
  iterate 9 (split at h; · simp at h)
  split at h
  · rename_i v r1 heq
    rw [(bool_of_true ha heq).2] at h; simp at h
  rename_i hT
  split at h
  · rename_i v r1 heq
    rw [(bool_of_false ha heq).2] at h; simp at h
  rename_i hF
  split at h
  · simp at h
  rename_i hN
  iterate 16 (split at h; · simp at h)
  split at h
  · simp at h
  rename_i hAny
  split at h
  · simp at h
  rename_i hAll
  split at h
  · rename_i i' r' heq
    simp only [Option.some.injEq, Prod.mk.injEq, Tok.ident.injEq] at h
    obtain ⟨rfl, rfl⟩ := h
    exact ⟨heq, none_of_forall hT, none_of_forall hF, none_of_forall hN, none_of_forall hAny, none_of_forall hAll⟩
  · split at h
    · simp at h
    · split at h <;> simp at h

theorem nd_le_length (t : Str) : nd t ≤ t.length := List.length_filter_le _ _

theorem litWords_ciUp : ∀ w ∈ litWords, w.all ciUp = true := by decide +kernel

/-- an identifier token the lexer emits: its text is a well-formed identifier text that is not a keyword literal -/
theorem ident_text {cs r : Str} {i : Ident} (ha : cs.all isAscii = true) (h : lexOne E cs = some (.ident i, r)) :
    ∃ c t0, i = identOfText (c :: t0) ∧ spellIdent i = c :: t0 ∧ IdText c t0 ∧ notLitWord (c :: t0) := by
  obtain ⟨hs, hT, hF, hN, hAny, hAll⟩ := lexOne_ident_inv ha h
  obtain ⟨c, t0, hcs, hi, hX, hstop⟩ := scanIdent_shape ha hs
  refine ⟨c, t0, hi, by rw [hi]; exact spellIdent_identOfText _, hX, ?_⟩
  intro hmem
  -- the text is a keyword literal in some letter case: the keyword rule would have matched
  have hlen : (c :: t0).length ≤ 5 := by
    have := congrArg List.length (show (c :: t0).map asciiLower = (c :: t0).map asciiLower from rfl)
    have hl : ∀ w ∈ litWords, w.length ≤ 5 := by decide
    have := hl _ hmem
    simpa using this
  have hcont : notIdentCont E r = true := hstop (by
    have := nd_le_length t0
    simp at hlen; omega)
  have hkw := kw_of_lower _ (c :: t0) r (litWords_ciUp _ hmem) (idText_ascii hX) rfl
  have hsw : scanWord E ((c :: t0).map asciiLower) cs = some (c :: t0, r) := by
    rw [hcs]; unfold scanWord; rw [hkw]; simp [hcont]
  simp only [litWords, List.mem_cons, List.not_mem_nil, or_false] at hmem
  rcases hmem with e | e | e | e | e <;> rw [e] at hsw
  · rw [hT] at hsw; cases hsw
  · rw [hF] at hsw; cases hsw
  · rw [hN] at hsw; cases hsw
  · rw [hAny] at hsw; cases hsw
  · rw [hAll] at hsw; cases hsw

theorem ident_alone {cs r : Str} {i : Ident} (ha : cs.all isAscii = true) (h : lexOne E cs = some (.ident i, r)) :
    lexOne E (spellTok (.ident i)) = some (.ident i, []) := by
  obtain ⟨c, t0, hi, hsp, hX, hres⟩ := ident_text ha h
  show lexOne E (spellIdent i) = some (.ident i, [])
  rw [hsp, hi]
  exact lexOne_ident_of c t0 hX hres

/-! ### from "alone" to `tokLexable'` -/
theorem lexOne_blank : lexOne E [' '] = some (.ws, []) := by decide +kernel

theorem lexAll_one {s : Str} {t : Tok} (h : lexOne E s = some (t, [])) : lexAll E s = ⟨[t], none⟩ := by
  unfold lexAll
  rw [lexFuel_step h]
  cases hn : s.length with
  | zero =>
    have : s = [] := List.length_eq_zero_iff.1 hn
    subst this; rw [lexOne_nil] at h; cases h
  | succ n => simp [lexFuel]

theorem lexAll_two {s : Str} {t : Tok} (h : lexOne E (s ++ [' ']) = some (t, [' '])) :
    (lexAll E (s ++ [' '])).toks = [t, .ws] := by
  unfold lexAll
  rw [lexFuel_step h]
  have : (s ++ [' ']).length = s.length + 1 := by simp
  rw [this, lexFuel_step lexOne_blank]
  cases s.length <;> simp [lexFuel]

theorem lexAll_three {s : Str} {t : Tok} (h0 : lexOne E (' ' :: s ++ [' ']) = some (.ws, s ++ [' ']))
    (h : lexOne E (s ++ [' ']) = some (t, [' '])) (hne : s ≠ []) :
    (lexAll E (' ' :: s ++ [' '])).toks = [.ws, t, .ws] := by
  unfold lexAll
  rw [lexFuel_step h0]
  obtain ⟨n, hn⟩ : ∃ n, s.length = n + 1 := ⟨s.length - 1, by
    have : s.length ≠ 0 := fun e => hne (List.length_eq_zero_iff.1 e)
    omega⟩
  have : (' ' :: s ++ [' ']).length = n + 3 := by simp [hn]
  rw [this, lexFuel_step h, lexFuel_step lexOne_blank]
  simp [lexFuel]

/-- criterion: no operator rule matches ` s ` -/
theorem ops_none_of {s : Str} (hs : headNS (s ++ [' ']))
    (hk : ∀ e ∈ allOps, kw E e.2 s = none ∨ ∃ m x t, kw E e.2 s = some (m, x :: t) ∧ E.isSpace x = false) :
    ∀ e ∈ allOps, scanOp E e.2 (' ' :: (s ++ [' '])) = none := by
  intro e he
  rw [scanOp_blank e.2 hs, kw_ext E ' ' [] _ _ (delim_blank.kwl _ (allOps_pat e he))]
  rcases hk e he with h | ⟨m, x, t, h, hx⟩
  · rw [h]; rfl
  · rw [h]
    simp only [ext_some, Option.bind_some, List.cons_append, span1_head hx]; rfl

theorem lexable_of_alone {t : Tok} (hli : isLI t = true) (h1 : lexOne E (spellTok t) = some (t, []))
    (hnot : ∀ i, t = .ident i → scanNot E (spellTok t ++ [' ']) = none)
    (hops : ∀ e ∈ allOps, scanOp E e.2 (' ' :: (spellTok t ++ [' '])) = none) : tokLexable' E t = true := by
  have hne : spellTok t ≠ [] := by
    intro e; rw [e, lexOne_nil] at h1; cases h1
  have hhead : headNS (spellTok t ++ [' ']) := by
    cases hs : spellTok t with
    | nil => exact absurd hs hne
    | cons c x =>
      rw [hs] at h1
      exact headNS_cons (li_head_ns hli h1)
  have h2 : lexOne E (spellTok t ++ [' ']) = some (t, [' ']) := by
    cases t with
    | lit k v => exact lexOne_ext_lit [] h1 (by decide) (by decide)
    | ident i => exact lexOne_ext_ident [] h1 (by decide) (fun _ => hnot i rfl)
    | _ => simp [isLI] at hli
  have h3 : lexOne E (' ' :: spellTok t ++ [' ']) = some (.ws, spellTok t ++ [' ']) := by
    rw [List.cons_append]
    exact lexOne_ws _ hhead hops
  simp only [tokLexable', tokLexable, spaced, lexAll_one h1, lexAll_two h2, lexAll_three h3 h2 hne]
  simp

/-! ### the operator rules on the spelling of a literal -/
/-- no operator keyword starts with a character matching `c` -/
def opHeadFree (c : Char) : Bool := allOps.all fun e => match e.2 with | p :: _ => !ciChar E p c | [] => true

theorem ops_none_headfree {c : Char} (x : Str) (hc : E.isSpace c = false) (hf : opHeadFree c = true) :
    ∀ e ∈ allOps, scanOp E e.2 (' ' :: c :: x) = none := by
  intro e he
  apply scanOp_kw_none (headNS_cons hc)
  have hne := allOps_ne e he
  simp only [opHeadFree, List.all_eq_true] at hf
  have := hf e he
  cases hw : e.2 with
  | nil => exact absurd hw hne
  | cons p ps =>
    rw [hw] at this
    exact kw_head (by simpa using this)

theorem numHead_free (c : Char) (ha : isAscii c = true) (h : c = '+' ∨ c = '-' ∨ c = '\'' ∨ E.isDigit c = true) :
    opHeadFree c = true ∧ E.isSpace c = false := by
  have := LexImage.ascii_forall
    (fun c => !(c == '+' || c == '-' || c == '\'' || E.isDigit c) || (opHeadFree c && !E.isSpace c)) (by decide +kernel) c ha
  rcases h with h | h | h | h <;> simpa [h] using this

theorem boolHead_free (c : Char) (ha : isAscii c = true) (h : asciiLower c = 't' ∨ asciiLower c = 'f') :
    opHeadFree c = true ∧ E.isSpace c = false := by
  have := LexImage.ascii_forall
    (fun c => !(asciiLower c == 't' || asciiLower c == 'f') || (opHeadFree c && !E.isSpace c)) (by decide +kernel) c ha
  rcases h with h | h <;> simpa [h] using this

theorem kw_len : ∀ (w s m r : Str), kw E w s = some (m, r) → m.length = w.length
  | [], s, m, r, h => by simp [kw] at h; simp [h.1]
  | p :: w, [], m, r, h => by simp [kw] at h
  | p :: w, c :: s, m, r, h => by
    simp only [kw] at h
    split at h
    · cases hk : kw E w s with
      | none => simp [hk] at h
      | some y =>
        obtain ⟨m', r'⟩ := y
        simp [hk] at h
        obtain ⟨rfl, rfl⟩ := h
        simp [kw_len w s m' r' hk]
    · simp at h

theorem allOps_len : ∀ e ∈ allOps, e.2.length = 2 ∨ e.2.length = 3 := by decide

/-- a text of at least four characters whose third and fourth characters are not spaces -/
theorem ops_none_pos {a b c d : Char} {t : Str} (ha : E.isSpace a = false) (hc : E.isSpace c = false)
    (hd : E.isSpace d = false) : ∀ e ∈ allOps, scanOp E e.2 (' ' :: ((a :: b :: c :: d :: t) ++ [' '])) = none := by
  apply ops_none_of (headNS_cons ha)
  intro e he
  cases hk : kw E e.2 (a :: b :: c :: d :: t) with
  | none => exact Or.inl rfl
  | some y =>
    obtain ⟨m, r⟩ := y
    right
    have hl := kw_len _ _ _ _ hk
    have hdec := LexImage.kw_decomp E _ _ _ _ hk
    rcases allOps_len e he with h2 | h3
    · rw [h2] at hl
      match m, hl with
      | [x1, x2], _ =>
        simp only [List.cons_append, List.nil_append, List.cons.injEq] at hdec
        obtain ⟨-, -, rfl⟩ := hdec
        exact ⟨_, c, d :: t, rfl, hc⟩
    · rw [h3] at hl
      match m, hl with
      | [x1, x2, x3], _ =>
        simp only [List.cons_append, List.nil_append, List.cons.injEq] at hdec
        obtain ⟨-, -, -, rfl⟩ := hdec
        exact ⟨_, d, t, rfl, hd⟩

theorem takeN_short (p : Char → Bool) : ∀ (n : Nat) (cs : Str), cs.length < n → takeN p n cs = none
  | 0, cs, h => by omega
  | n + 1, [], _ => rfl
  | n + 1, c :: cs, h => by
    simp only [takeN]
    split
    · rw [takeN_short p n cs (by simp at h; omega)]
    · rfl

theorem hex_not_space {c : Char} (h : isHex E c = true ∨ c = '-') : E.isSpace c = false := by
  cases hs : E.isSpace c with
  | false => rfl
  | true =>
    obtain ⟨-, -, -, -, -, hm, hh, -⟩ := space_imp c hs
    rcases h with h | h
    · rw [hh] at h; cases h
    · exact absurd h hm

theorem null_ops : ∀ e ∈ allOps, scanOp E e.2 (' ' :: ("null".toList ++ [' '])) = none := by decide +kernel

/-- the operator rules fail on the spelling of an emitted literal between blanks -/
theorem lit_ops {cs r v : Str} {k : LitKind} (ha : cs.all isAscii = true) (hl : lexOne E cs = some (.lit k v, r)) :
    ∀ e ∈ allOps, scanOp E e.2 (' ' :: (spellTok (.lit k v) ++ [' '])) = none := by
  have hsrc := lexOne_src hl
  have hsub : ∀ {v' : Str}, cs = v' ++ r → v'.all isAscii = true := by
    intro v' e; rw [e] at ha; simp only [List.all_append, Bool.and_eq_true] at ha; exact ha.1
  have byHead : ∀ {c : Char} {t : Str}, isAscii c = true → (c = '+' ∨ c = '-' ∨ c = '\'' ∨ E.isDigit c = true) →
      ∀ e ∈ allOps, scanOp E e.2 (' ' :: ((c :: t) ++ [' '])) = none := by
    intro c t hca hc
    obtain ⟨h1, h2⟩ := numHead_free c hca hc
    exact ops_none_headfree _ h2 h1
  cases k with
  | null => exact null_ops
  | int =>
    obtain ⟨hcs, ⟨c, t, rfl, hc⟩, -, -⟩ := scanInteger_ps hsrc
    have := hsub hcs
    simp only [List.all_cons, Bool.and_eq_true] at this
    exact byHead this.1 (by rcases hc with h | h | h <;> simp [h])
  | float =>
    obtain ⟨hcs, ⟨c, t, rfl, hc⟩, -, -⟩ := scanDecimal_trim hsrc
    have := hsub hcs
    simp only [List.all_cons, Bool.and_eq_true] at this
    exact byHead this.1 (by rcases hc with h | h | h <;> simp [h])
  | bool =>
    have hsrc' : scanWord E "true".toList cs = some (v, r) ∨ scanWord E "false".toList cs = some (v, r) := hsrc
    have hva : v.all isAscii = true := by
      rcases hsrc' with h | h <;> exact hsub (scanWord_trim h).1
    have hm : v.map asciiLower = "true".toList ∨ v.map asciiLower = "false".toList := by
      rcases hsrc' with h | h
      · exact Or.inl (bool_of_true ha h).1
      · exact Or.inr (bool_of_false ha h).1
    cases v with
    | nil => rcases hm with h | h <;> simp at h
    | cons c t =>
      simp only [List.all_cons, Bool.and_eq_true] at hva
      have hc : asciiLower c = 't' ∨ asciiLower c = 'f' := by
        rcases hm with h | h
        · left; simp at h; exact h.1
        · right; simp at h; exact h.1
      obtain ⟨h1, h2⟩ := boolHead_free c hva.1 hc
      exact ops_none_headfree _ h2 h1
  | str => exact byHead (c := '\'') (by decide) (Or.inr (Or.inr (Or.inl rfl)))
  | geo =>
    exact ops_none_pos (a := 'g') (b := 'e') (c := 'o') (d := 'g') (t := "raphy'".toList ++ v ++ ['\''])
      (by decide +kernel) (by decide +kernel) (by decide +kernel)
  | duration =>
    exact ops_none_pos (a := 'd') (b := 'u') (c := 'r') (d := 'a') (t := "tion'".toList ++ v ++ ['\''])
      (by decide +kernel) (by decide +kernel) (by decide +kernel)
  | date =>
    obtain ⟨hcs, -, ⟨y1, y2, y3, y4, t, rfl, hy1⟩⟩ := scanDatePart_ps hsrc
    have := hsub hcs
    simp only [List.all_cons, Bool.and_eq_true] at this
    exact byHead this.1 (Or.inr (Or.inr (Or.inr hy1)))
  | datetime =>
    obtain ⟨a, hcs, rfl, -, ⟨y1, y2, y3, y4, t, rfl, hy1⟩⟩ := scanDateTime_trim hsrc
    have := hsub hcs
    simp only [List.all_cons, Bool.and_eq_true] at this
    have hup : asciiUpper y1 = y1 := by
      have := LexImage.ascii_forall (fun c => !E.isDigit c || asciiUpper c == c) (by decide +kernel) y1 this.1
      simpa [hy1] using this
    show ∀ e ∈ allOps, scanOp E e.2 (' ' :: (List.map asciiUpper (y1 :: y2 :: y3 :: y4 :: '-' :: t) ++ [' '])) = none
    rw [List.map_cons, hup]
    exact byHead this.1 (Or.inr (Or.inr (Or.inr hy1)))
  | time =>
    obtain ⟨hcs, -, ⟨h1, h2, t, rfl, hh⟩⟩ := scanTime_trim hsrc
    have := hsub hcs
    simp only [List.all_cons, Bool.and_eq_true] at this
    exact byHead this.1 (Or.inr (Or.inr (Or.inr (by rcases hh with rfl | rfl | rfl <;> decide +kernel))))
  | guid =>
    obtain ⟨hcs, hf, -, hch⟩ := scanGuid_ps hsrc
    have hv := hf []
    rw [List.append_nil] at hv
    have hlen : 4 ≤ v.length := by
      rcases Nat.lt_or_ge v.length 4 with hshort | hge
      · exfalso
        have : scanGuid E v = none := by
          simp only [scanGuid, Option.bind_eq_bind, takeN_short (isHex E) 8 v (by omega)]; rfl
        rw [this] at hv; cases hv
      · exact hge
    match v, hlen, hch with
    | a :: b :: c :: d :: t, _, hch =>
      exact ops_none_pos (hex_not_space (hch a (by simp))) (hex_not_space (hch c (by simp))) (hex_not_space (hch d (by simp)))

end OQ.AcceptedLex
