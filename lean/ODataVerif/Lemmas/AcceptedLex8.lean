/-
  Lemmas/AcceptedLex8.lean — the converse direction used to show that the extra hypothesis of `C13A.accepted_lexable` is the
  weakest possible: an un-namespaced identifier that is `tokLexable'` is not spelled like a keyword literal and not led by a digit.
-/
import ODataVerif.Lemmas.AcceptedLex7
namespace OQ.AcceptedLex
open OQ.LexRender OQ.Spec OQ.CaseMap OQ.C13
set_option linter.unusedSimpArgs false
set_option linter.unusedVariables false

theorem ascii_of_lower {x p : Char} (h : asciiLower x = p) (hp : isAscii p = true) : isAscii x = true := by
  unfold asciiLower at h
  split at h
  · rename_i hu
    simp only [isAsciiUpper, Bool.and_eq_true, decide_eq_true_eq, le_char_iff] at hu
    simp only [LexImage.isAscii, decide_eq_true_eq]
    have : 'Z'.toNat = 90 := rfl
    omega
  · rw [h]; exact hp

theorem litWords_ascii : ∀ w ∈ litWords, w.all isAscii = true := by decide

theorem ascii_of_lower_list : ∀ (s w : Str), s.map asciiLower = w → w.all isAscii = true → s.all isAscii = true
  | [], _, _, _ => rfl
  | x :: s, [], h, _ => by simp at h
  | x :: s, p :: w, h, hw => by
    simp only [List.map_cons, List.cons.injEq] at h
    simp only [List.all_cons, Bool.and_eq_true] at hw ⊢
    exact ⟨ascii_of_lower h.1 hw.1, ascii_of_lower_list s w h.2 hw.2⟩

theorem lexable_not_kw {n : Str} (h : tokLexable' E (.ident ⟨n, []⟩) = true) : kwNamedL ⟨n, []⟩ = false := by
  have h1 : lexOne E n = some (.ident ⟨n, []⟩, []) := by
    have := (tokOk_of_lexable h).alone
    have e : spellTok (.ident ⟨n, []⟩) = n := rfl
    rwa [e] at this
  cases n with
  | nil => rw [lexOne_nil] at h1; cases h1
  | cons c t =>
    have hd : E.isDigit c = false := (letter_imp c (src_ident_letter (lexOne_src h1))).1
    have hw : litWords.contains ((c :: t).map asciiLower) = false := by
      cases hc : litWords.contains ((c :: t).map asciiLower) with
      | false => rfl
      | true =>
        exfalso
        have hmem : (c :: t).map asciiLower ∈ litWords := List.contains_iff_mem.1 hc
        have ha : (c :: t).all isAscii = true := ascii_of_lower_list _ _ rfl (litWords_ascii _ hmem)
        obtain ⟨-, hT, hF, hN, hAny, hAll⟩ := lexOne_ident_inv ha h1
        have hkw := kw_of_lower _ (c :: t) [] (litWords_ciUp _ hmem) ha rfl
        rw [List.append_nil] at hkw
        have hsw : scanWord E ((c :: t).map asciiLower) (c :: t) = some (c :: t, []) := by
          unfold scanWord; rw [hkw]; simp [notIdentCont]
        simp only [litWords, List.mem_cons, List.not_mem_nil, or_false] at hmem
        rcases hmem with e | e | e | e | e <;> rw [e] at hsw
        · rw [hT] at hsw; cases hsw
        · rw [hF] at hsw; cases hsw
        · rw [hN] at hsw; cases hsw
        · rw [hAny] at hsw; cases hsw
        · rw [hAll] at hsw; cases hsw
    simp only [kwNamedL, List.isEmpty_nil, Bool.true_and, hw, hd, Bool.or_self]

end OQ.AcceptedLex
