/- Lemmas/SaSql.lean — helper lemmas for Props/C03.lean, part 2: equations of the environment model `saSql` on the nodes the
   visitor builds, SQLite's LIKE with the escape character `/` (SQLAlchemy's autoescape), evaluation of the new node shapes. -/
import ODataVerif.Lemmas.SaVisit
namespace OQ.SaSound
open Spec SqliteSound SqliteLike

/-! ### inversion of the lifted partial operations -/
theorem lift2_some {α β γ} {f : α → β → Option γ} {oa : Option α} {ob : Option β} {s : γ}
    (h : lift2 f oa ob = some s) : ∃ x y, oa = some x ∧ ob = some y ∧ f x y = some s := by
  cases oa <;> cases ob <;> simp [lift2] at h
  exact ⟨_, _, rfl, rfl, h⟩
theorem lift3_some {α β γ δ} {f : α → β → γ → Option δ} {oa : Option α} {ob : Option β} {oc : Option γ} {s : δ}
    (h : lift3 f oa ob oc = some s) : ∃ x y z, oa = some x ∧ ob = some y ∧ oc = some z ∧ f x y z = some s := by
  cases oa <;> cases ob <;> cases oc <;> simp [lift3] at h
  exact ⟨_, _, _, rfl, rfl, rfl, h⟩
theorem map_some {α β} {f : α → β} {o : Option α} {s : β} (h : o.map f = some s) : ∃ x, o = some x ∧ f x = s := by
  cases o <;> simp at h
  exact ⟨_, rfl, h⟩

/-! ### equations of `saSql` -/
theorem saSql_arith (op : ArithOp) (a b : OTree) : saSql (on2 (OQ.arithName op) a b) =
    lift2 (fun x y => if op = .div then none else some (.bin (Spec.arithName op) x y)) (saSql a) (saSql b) := by
  cases op <;>
  · show (match saSql a, saSql b with | some x, some y => _ | _, _ => none) = _
    cases saSql a <;> cases saSql b <;> rfl

theorem saSql_exact (a b : OTree) : saSql (on2 "exact" a b) =
    lift2 (fun x y => if isNullConst b then some (.bin "IS".toList x y) else if isNullConst a then some (.bin "IS".toList y x)
      else some (.bin "=".toList x y)) (saSql a) (saSql b) := by
  show (match saSql a, saSql b with | some x, some y => _ | _, _ => none) = _
  cases saSql a <;> cases saSql b <;> rfl
theorem saSql_ne (a b : OTree) : saSql (on2 "ne" a b) =
    lift2 (fun x y => if isNullConst b then some (.bin "ISNOT".toList x y) else if isNullConst a then some (.bin "ISNOT".toList y x)
      else some (.bin "!=".toList x y)) (saSql a) (saSql b) := by
  show (match saSql a, saSql b with | some x, some y => _ | _, _ => none) = _
  cases saSql a <;> cases saSql b <;> rfl
theorem saSql_cmp (k : CmpK) (a b : OTree) (ha : isNullConst a = false) (hb : isNullConst b = false) :
    saSql (on2 (cmpLookup k.toOp) a b) = lift2 (fun x y => some (.bin (cmpName k.toOp) x y)) (saSql a) (saSql b) := by
  cases k
  · show saSql (on2 "exact" a b) = _
    rw [saSql_exact, ha, hb]; rfl
  · show saSql (on2 "ne" a b) = _
    rw [saSql_ne, ha, hb]; rfl
  all_goals
    show (match saSql a, saSql b with | some x, some y => _ | _, _ => none) = _
    cases saSql a <;> cases saSql b <;> rfl
theorem saSql_substr2 (a b : OTree) : saSql (on2 "substr" a b) = lift2 (fun x y => some (call2 "SUBSTR" x y)) (saSql a) (saSql b) := by
  show (match saSql a, saSql b with | some x, some y => _ | _, _ => none) = _
  cases saSql a <;> cases saSql b <;> rfl
theorem saSql_substr3 (a b c : OTree) : saSql (on3 "substr" a b c) = lift3 (fun x y z => some (call3 "SUBSTR" x y z)) (saSql a) (saSql b) (saSql c) := by
  show (match saSql a, saSql b, saSql c with | some x, some y, some z => _ | _, _, _ => none) = _
  cases saSql a <;> cases saSql b <;> cases saSql c <;> rfl
theorem saSql_in (a : OTree) (items : OTrees) : saSql (on2 "in" a (.node "list" items)) = lift2 (fun x xs => some (.inl x xs)) (saSql a) (saSqlList items) := by
  show (match saSql a, saSqlList items with | some x, some y => _ | _, _ => none) = _
  cases saSql a <;> cases saSqlList items <;> rfl
theorem saSql_strpos (a b : OTree) : saSql (on2 "strpos" a b) = none := by
  show (match saSql a, saSql b with | some x, some y => _ | _, _ => none) = _
  cases saSql a <;> cases saSql b <;> rfl
theorem saSql_concat (a b : OTree) : saSql (.node "concat" (.cons a (.cons b .nil))) = none := by
  show (match saSql a, saSql b with | some x, some y => _ | _, _ => none) = _
  cases saSql a <;> cases saSql b <;> rfl
theorem saSql_bool (op : BoolOp) (a b : OTree) : saSql (on2 (if op == .and_ then "and" else "or") a b) =
    lift2 (fun x y => some (.bin (if op == .and_ then "AND".toList else "OR".toList) x y)) (saSql a) (saSql b) := by
  cases op <;>
  · show (match saSql a, saSql b with | some x, some y => _ | _, _ => none) = _
    cases saSql a <;> cases saSql b <;> rfl
theorem saSql_like (k : LikeK) (a b : OTree) : saSql (on2 k.name a b) = lift2 (fun x p => some (.like x (catPat (preOf k) (sufOf k) p) none)) (saSql a) (saSql b) := by
  cases k <;>
  · show (match saSql a, saSql b with | some x, some y => _ | _, _ => none) = _
    cases saSql a <;> cases saSql b <;> rfl
theorem name_esc (k : LikeK) : k.name ++ "_autoescape" = match k with | .contains => "contains_autoescape" | .startswith => "startswith_autoescape" | .endswith => "endswith_autoescape" := by cases k <;> decide
theorem saSql_like_esc (k : LikeK) (a : OTree) (v : Str) : saSql (on2 (k.name ++ "_autoescape") a (.param .str v)) = 
   (saSql a).map (fun x => .like x (catPat (preOf k) (sufOf k) (.str (saEscape v))) (some ['/'])) := by
  rw [name_esc]
  cases k <;> (show (match saSql a, some (SqlTree.str v) with | some x, some p => _ | _, _ => none) = _ ; cases saSql a <;> rfl)
theorem saSql_un (a : OTree) : saSql (on1 "not" a) = (saSql a).map (fun x => .un "NOT".toList x) := rfl
theorem saSql_length (a : OTree) : saSql (on1 "char_length" a) = (saSql a).map (call1 "LENGTH") := rfl
theorem saSql_lower (a : OTree) : saSql (on1 "lower" a) = (saSql a).map (call1 "LOWER") := rfl
theorem saSql_upper (a : OTree) : saSql (on1 "upper" a) = (saSql a).map (call1 "UPPER") := rfl
theorem saSql_trim (a : OTree) : saSql (on1 "ltrim" (on1 "rtrim" a)) = (saSql a).map (call1 "TRIM") := rfl
theorem saSql_plus1 (a : OTree) : saSql (on2 "+" a (.pint 1)) = (saSql a).map (fun x => .bin "+".toList x (.num ['1'])) := by
  show (match saSql a, some (intTree 1) with | some x, some y => _ | _, _ => none) = _
  cases saSql a <;> rfl
theorem saSql_indexof (a b : OTree) : saSql (on2 "-" (on2 "strpos" a b) (.pint 1)) = none := by
  have := saSql_arith .sub (on2 "strpos" a b) (.pint 1)
  rw [saSql_strpos] at this
  exact this
theorem saSql_param (k : LitKind) (v : Str) : saSql (.param k v) = paramTree k v := rfl
theorem saSql_col (c : Str) : saSql (.col [c]) = some (.col none c) := rfl
theorem saSqlList_nil : saSqlList .nil = some .nil := rfl
theorem saSqlList_cons (h : OTree) (t : OTrees) : saSqlList (.cons h t) =
    lift2 (fun x xs => some (.cons x xs)) (saSql h) (saSqlList t) := by
  show (match saSql h, saSqlList t with | some x, some y => _ | _, _ => none) = _
  cases saSql h <;> cases saSqlList t <;> rfl
theorem saSql_isNull (c : Str) : saSql (on2 "exact" (.col [c]) (.const "NULL")) =
    some (.bin (S "IS") (.col none c) (.kw (S "NULL"))) := rfl
theorem saSql_isNotNull (c : Str) : saSql (on2 "ne" (.col [c]) (.const "NULL")) =
    some (.bin (S "ISNOT") (.col none c) (.kw (S "NULL"))) := rfl

theorem isNullConst_of_not_const {t : OTree} (h : isConstT t = false) : isNullConst t = false := by
  cases t <;> simp_all [isConstT, isNullConst]

/-! ### LIKE with SQLAlchemy's autoescape -/
theorem patItems_saEscape_append (n suf : Str) :
    patItems (some '/') (saEscape n ++ suf) = n.map PatItem.ch ++ patItems (some '/') suf := by
  induction n with
  | nil => simp [saEscape]
  | cons c t ih =>
    by_cases hc : (c == '%' || c == '_' || c == '/') = true
    · simp only [saEscape, hc, if_true, List.cons_append, patItems_esc, ih, List.map_cons]
    · have hc' := hc
      simp at hc'
      have he : (some '/' : Option Char) ≠ some c := by
        intro h; injection h with h; exact hc'.2 h.symm
      simp only [saEscape, hc, List.cons_append, List.map_cons]
      rw [if_neg (by simp), List.cons_append, patItems_cons_ch _ _ _ he hc'.1.1 hc'.1.2, ih]

theorem sqliteLike_sa_esc (k : LikeK) (h n : Str) :
    sqliteLike (preOf k ++ saEscape n ++ sufOf k) h (some '/') = likeCI k h n := by
  have hne : (some '/' : Option Char) ≠ some '%' := by decide
  cases k <;>
    simp only [sqliteLike, preOf, sufOf, List.cons_append, List.nil_append,
      patItems_pct _ hne, patItems_saEscape_append, patItems]
  · exact likeItems_contains h n
  · exact likeItems_startswith h n
  · simpa using likeItems_endswith h n

theorem noMeta_of_not_needsEscape (n : Str) (h : litNeedsEscape (.lit .str n) = false) : hasLikeMeta n = false := by
  simp only [litNeedsEscape, List.any_eq_false] at h
  simp only [hasLikeMeta, Bool.or_eq_false_iff, List.contains_eq_mem, decide_eq_false_iff_not]
  constructor
  · intro hm; have := h _ hm; simp at this
  · intro hm; have := h _ hm; simp at this

section
variable (ρ : Row)

/-- the value of `pre || p || suf` -/
theorem eval_catPat (k : LikeK) (p : SqlTree) (y : Option Str) (h1 : sqlEval ρ p = some (valS y)) :
    sqlEval ρ (catPat (preOf k) (sufOf k) p) = some (valS (y.map (fun s => preOf k ++ s ++ sufOf k))) := by
  cases k
  · simp only [catPat, preOf, sufOf, List.isEmpty_cons, Bool.false_eq_true, if_false]
    have h2 := eval_concat ρ (.str ['%']) p (some ['%']) y (eval_str ρ _) h1
    have h3 := eval_concat ρ _ (.str ['%']) _ (some ['%']) h2 (eval_str ρ _)
    rw [show "||".toList = S "||" from rfl, h3]
    cases y <;> simp [lift2]
  · simp only [catPat, preOf, sufOf, List.isEmpty_cons, List.isEmpty_nil, Bool.false_eq_true, if_false, if_true]
    have h3 := eval_concat ρ p (.str ['%']) y (some ['%']) h1 (eval_str ρ _)
    rw [show "||".toList = S "||" from rfl, h3]
    cases y <;> simp [lift2]
  · simp only [catPat, preOf, sufOf, List.isEmpty_cons, List.isEmpty_nil, Bool.false_eq_true, if_false, if_true]
    have h2 := eval_concat ρ (.str ['%']) p (some ['%']) y (eval_str ρ _) h1
    rw [show "||".toList = S "||" from rfl, h2]
    cases y <;> simp [lift2]

theorem eval_like_sa_esc (k : LikeK) (t0 : SqlTree) (x : Option Str) (n : Str) (h0 : sqlEval ρ t0 = some (valS x)) :
    sqlEval ρ (.like t0 (catPat (preOf k) (sufOf k) (.str (saEscape n))) (some ['/'])) =
      some (v3ToVal (cmp2 (likeCI k) x (some n))) := by
  have hp := eval_catPat ρ k (.str (saEscape n)) (some (saEscape n)) (eval_str ρ _)
  rw [sqlEval, h0, hp]
  cases x with
  | none => simp [cmp2, v3ToVal]
  | some h =>
    simp only [valS_some, Option.map_some, cmp2, v3ToVal_ofBool]
    rw [sqliteLike_sa_esc k h n]

theorem eval_like_sa (k : LikeK) (t0 t1 : SqlTree) (x y : Option Str)
    (h0 : sqlEval ρ t0 = some (valS x)) (h1 : sqlEval ρ t1 = some (valS y))
    (hm : ∀ h n, x = some h → y = some n → hasLikeMeta n = false) :
    sqlEval ρ (.like t0 (catPat (preOf k) (sufOf k) t1) none) = some (v3ToVal (cmp2 (likeCI k) x y)) := by
  have hp := eval_catPat ρ k t1 y h1
  rw [sqlEval, h0, hp]
  cases x with
  | none => cases y <;> simp [cmp2, v3ToVal]
  | some h =>
    cases y with
    | none => simp [cmp2, v3ToVal]
    | some n =>
      simp only [valS_some, Option.map_some, cmp2, v3ToVal_ofBool]
      rw [sqliteLike_computed k h n (hm h n rfl rfl)]

/-! ### parameters -/
theorem paramTree_int (neg : Bool) (ds : Str) (h : asciiDigits ds = true) :
    paramTree .int (if neg then '-' :: ds else ds) = some (numOf (if neg then '-' :: ds else ds)) := by
  have h' := h
  simp only [asciiDigits, Bool.and_eq_true] at h'
  cases neg
  · simp only [Bool.false_eq_true, if_false]
    rw [numOf_digits ds h]
    cases ds with
    | nil => simp at h'
    | cons c t =>
      have hc : isDig c = true := by
        have := h'.2
        simp only [List.all_cons, Bool.and_eq_true] at this
        exact this.1
      have hne : c ≠ '-' := by rintro rfl; exact absurd hc (by decide)
      simp only [paramTree]
      split
      · rename_i heq; cases heq; exact absurd rfl hne
      · simp [h'.2]
  · simp only [if_true, paramTree, numOf, h'.1, h'.2, Bool.and_self, if_true]

theorem eval_paramInt (neg : Bool) (ds : Str) (s : SqlTree) (h : asciiDigits ds = true)
    (hq : paramTree .int (if neg then '-' :: ds else ds) = some s) :
    sqlEval ρ s = some (.int (if neg then -(Spec.natOfDigits ds : Int) else Spec.natOfDigits ds)) := by
  rw [paramTree_int neg ds h] at hq
  cases hq
  exact eval_intLit ρ neg ds h
end

end OQ.SaSound
