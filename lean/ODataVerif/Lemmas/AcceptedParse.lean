/-
  Lemmas/AcceptedParse.lean — the parser only re-uses what the tokens carry: if every token satisfies `ok`, every
  literal / identifier of the accepted tree comes from a token satisfying `ok` (`Prov ok`, Lemmas/AcceptedProv.lean).
  Same induction on the fuel as Lemmas/ParseImage.lean, with `Prov ok` as the invariant.
-/
import ODataVerif.Lemmas.AcceptedProv
import ODataVerif.Lemmas.Totality
set_option linter.unusedSimpArgs false
set_option linter.unusedVariables false
namespace OQ.AcceptedParse
open OQ.AcceptedProv

section
variable (ok : Tok → Prop)

theorem nameOk_of_ok (j : Ident) (h : ok (.ident j)) : NameOk ok j.name := by
  cases j with
  | mk name ns => exact ⟨ns, h⟩

theorem nameOk_of_idOk (j : Ident) (h : IdOk ok j) : NameOk ok j.name := by
  rcases h with h | ⟨_, h⟩
  · exact nameOk_of_ok ok j h
  · exact h

theorem idOk_root (i : Ident) (h : ok (.ident i)) : IdOk ok ⟨i.name, []⟩ :=
  .inr ⟨rfl, nameOk_of_ok ok i h⟩

theorem provL_snoc : ∀ (acc : Exprs) (e : Expr), ProvL ok acc → Prov ok e → ProvL ok (acc.snoc e)
  | .nil, e, ha, he => by
    simp only [Exprs.snoc, ProvL, and_true]; exact he
  | .cons h t, e, ha, he => by
    simp only [Exprs.snoc, ProvL] at ha ⊢
    exact ⟨ha.1, provL_snoc t e ha.2 he⟩

theorem explode_names : ∀ (e : Expr) (names : List Str), Prov ok e → explodePath e = some names →
    ∀ n ∈ names, NameOk ok n
  | .ident i, names, hp, h => by
    simp only [explodePath, Option.some.injEq] at h
    subst h
    intro n hn
    simp only [List.mem_singleton] at hn
    subst hn
    simp only [Prov] at hp
    exact nameOk_of_idOk ok i hp
  | .attr o m, names, hp, h => by
    simp only [explodePath, Option.map_eq_some_iff] at h
    obtain ⟨ns, h1, h2⟩ := h
    subst h2
    simp only [Prov] at hp
    intro n hn
    simp only [List.mem_append, List.mem_singleton] at hn
    rcases hn with hn | hn
    · exact explode_names o ns hp.1 h1 n hn
    · subst hn; exact hp.2
  | .lit _ _, _, _, h => by simp [explodePath] at h
  | .list _, _, _, h => by simp [explodePath] at h
  | .binop _ _ _, _, _, h => by simp [explodePath] at h
  | .compare _ _ _, _, _, h => by simp [explodePath] at h
  | .boolop _ _ _, _, _, h => by simp [explodePath] at h
  | .unary _ _, _, _, h => by simp [explodePath] at h
  | .named _ _, _, _, h => by simp [explodePath] at h
  | .call _ _, _, _, h => by simp [explodePath] at h
  | .coll _ _ _, _, _, h => by simp [explodePath] at h

theorem prov_foldl (names : List Str) : ∀ base : Expr, Prov ok base → (∀ n ∈ names, NameOk ok n) →
    Prov ok (names.foldl (fun o n => .attr o n) base) := by
  induction names with
  | nil => intro base hb _; exact hb
  | cons n ns ih =>
    intro base hb hn
    simp only [List.foldl_cons]
    simp only [List.forall_mem_cons] at hn
    refine ih _ ?_ hn.2
    simp only [Prov]; exact ⟨hb, hn.1⟩

theorem rebuild_prov (i : Ident) (names : List Str) (e : Expr) (hi : ok (.ident i))
    (hn : ∀ n ∈ names, NameOk ok n) (h : rebuildPath (i.name :: names) = some e) : Prov ok e := by
  simp only [rebuildPath, Option.some.injEq] at h
  subst h
  refine prov_foldl ok names _ ?_ hn
  simp only [Prov]; exact idOk_root ok i hi

theorem pathCons_prov (i : Ident) (tail e : Expr) (hi : ok (.ident i))
    (ht : Prov ok tail) (h : pathCons i tail = .ok e) : Prov ok e := by
  unfold pathCons at h
  split at h
  · split at h
    · rename_i names hx
      split at h
      · rename_i e' hr
        cases h
        exact rebuild_prov ok i names _ hi (explode_names ok _ names ht hx) hr
      · cases h
    · cases h
  · rename_i owner op lam
    simp only [Prov] at ht
    split at h
    · split at h
      · rename_i names hx
        split at h
        · rename_i e' hr
          cases h
          simp only [Prov]
          exact ⟨rebuild_prov ok i names _ hi (explode_names ok _ names ht.1 hx) hr, ht.2⟩
        · cases h
      · cases h
    · cases h
      simp only [Prov] at ht ⊢
      exact ⟨⟨.inl hi, nameOk_of_idOk ok _ ht.1⟩, ht.2⟩
    · cases h
  · cases h
    simp only [Prov] at ht ⊢
    exact ⟨.inl hi, nameOk_of_idOk ok _ ht⟩
  · cases h

abbrev G {α : Type} (P : α → Prop) (x : Except PErr (α × List Tok)) : Prop :=
  Res (fun a r => P a ∧ ∀ t ∈ r, ok t) (fun _ => True) x

theorem skipWs_all (ts : List Tok) (h : ∀ t ∈ ts, ok t) : ∀ t ∈ skipWs ts, ok t := by
  unfold skipWs; split
  · simp only [List.forall_mem_cons] at h; exact h.2
  · exact h

theorem finishCall_prov (lexErr f args) (rest : List Tok) (hf : ok (.ident f)) (ha : ProvL ok args)
    (hr : ∀ t ∈ rest, ok t) : G ok (Prov ok) (finishCall lexErr f args rest) := by
  have key : G ok (Prov ok) (liftOutcome (functionCall f args) rest) := by
    unfold functionCall functionCallWith
    split
    · split
      · simp [liftOutcome]
      · split
        · simp [liftOutcome]
        · simp only [liftOutcome, Res_ok, Prov]; exact ⟨⟨hf, ha⟩, hr⟩
    · simp only [liftOutcome, Res_ok, Prov]; exact ⟨⟨hf, ha⟩, hr⟩
  unfold finishCall
  split
  · split
    · simp
    · exact key
  · split
    · exact key
    · simp

variable (lexErr : Bool)

def NI (f : Nat) : Prop :=
  (∀ min ts, (∀ t ∈ ts, ok t) → G ok (Prov ok) (parseExpr lexErr f min ts)) ∧
  (∀ min lhs ts, Prov ok lhs → (∀ t ∈ ts, ok t) → G ok (Prov ok) (parseLoop lexErr f min lhs ts)) ∧
  (∀ ts, (∀ t ∈ ts, ok t) → G ok (Prov ok) (parsePrefix lexErr f ts)) ∧
  (∀ ts, (∀ t ∈ ts, ok t) → G ok (Prov ok) (parseParen lexErr f ts)) ∧
  (∀ acc ts, ProvL ok acc → (∀ t ∈ ts, ok t) → G ok (ProvL ok) (parseItems lexErr f acc ts)) ∧
  (∀ ts, (∀ t ∈ ts, ok t) → G ok (Prov ok) (parseListExpr lexErr f ts)) ∧
  (∀ i ts, ok (.ident i) → (∀ t ∈ ts, ok t) → G ok (Prov ok) (parseCallArgs lexErr f i ts)) ∧
  (∀ i acc ts, ok (.ident i) → ProvL ok acc → (∀ t ∈ ts, ok t) →
      G ok (Prov ok) (parseNamedRest lexErr f i acc ts)) ∧
  (∀ i ts, ok (.ident i) → (∀ t ∈ ts, ok t) → G ok (Prov ok) (parsePath lexErr f i ts)) ∧
  (∀ ts, (∀ t ∈ ts, ok t) → G ok (ProvLam ok) (parseLambda lexErr f ts))

theorem ni_zero : NI ok lexErr 0 := by
  refine ⟨?_, ?_, ?_, ?_, ?_, ?_, ?_, ?_, ?_, ?_⟩ <;> intros <;>
    simp [parseExpr, parseLoop, parsePrefix, parseParen, parseItems, parseListExpr, parseCallArgs,
      parseNamedRest, parsePath, parseLambda]

theorem prov_single (e : Expr) (he : Prov ok e) : ProvL ok (.cons e .nil) := by
  simp only [ProvL, and_true]; exact he

theorem prov_list (xs : Exprs) (h : ProvL ok xs) : Prov ok (.list xs) := by
  simp only [Prov]; exact h

theorem prov_bin (l r : Expr) (hl : Prov ok l) (hr : Prov ok r) :
    (∀ o, Prov ok (.boolop o l r)) ∧ (∀ o, Prov ok (.compare o l r)) ∧ (∀ o, Prov ok (.binop o l r)) := by
  simp only [Prov]
  exact ⟨fun _ => ⟨hl, hr⟩, fun _ => ⟨hl, hr⟩, fun _ => ⟨hl, hr⟩⟩

theorem ni_succ (f) (ih : NI ok lexErr f) : NI ok lexErr (f + 1) := by
  obtain ⟨ihE, ihL, ihP, ihPar, ihI, ihLE, ihCA, ihNR, ihPath, ihLam⟩ := ih
  refine ⟨?_, ?_, ?_, ?_, ?_, ?_, ?_, ?_, ?_, ?_⟩
  · intro min ts hts
    simp only [parseExpr]
    exact Res.bind (ihP ts hts) (fun lhs r h => ihL min lhs r h.1 h.2)
  · intro min lhs ts hl hts
    simp only [parseLoop]
    split
    · have hts' := (List.forall_mem_cons.mp hts)
      split
      · exact Res.bind (ihE _ _ hts'.2) (fun rhs r' h => ihL _ _ r' ((prov_bin ok _ _ hl h.1).1 _) h.2)
      · simp only [Res_ok]; exact ⟨hl, hts⟩
    · have hts' := (List.forall_mem_cons.mp hts)
      split
      · exact Res.bind (ihLE _ hts'.2) (fun rhs r' h => ihL _ _ r' ((prov_bin ok _ _ hl h.1).2.1 _) h.2)
      · simp only [Res_ok]; exact ⟨hl, hts⟩
    · have hts' := (List.forall_mem_cons.mp hts)
      split
      · exact Res.bind (ihE _ _ hts'.2) (fun rhs r' h => ihL _ _ r' ((prov_bin ok _ _ hl h.1).2.1 _) h.2)
      · simp only [Res_ok]; exact ⟨hl, hts⟩
    · have hts' := (List.forall_mem_cons.mp hts)
      split
      · exact Res.bind (ihE _ _ hts'.2) (fun rhs r' h => ihL _ _ r' ((prov_bin ok _ _ hl h.1).2.2 _) h.2)
      · simp only [Res_ok]; exact ⟨hl, hts⟩
    · simp only [Res_ok]; exact ⟨hl, hts⟩
  · intro ts hts
    simp only [parsePrefix]
    split
    · simp only [List.forall_mem_cons] at hts
      refine Res.bind (ihE _ _ hts.2) (fun e r' h => ?_)
      simp only [Res_pure, Prov]; exact h
    · simp only [List.forall_mem_cons] at hts
      refine Res.bind (ihE _ _ (skipWs_all ok _ hts.2)) (fun e r' h => ?_)
      simp only [Res_pure, Prov]; exact h
    · simp only [List.forall_mem_cons] at hts
      simp only [Res_ok, Prov]
      exact hts
    · simp only [List.forall_mem_cons] at hts
      exact ihPar _ (skipWs_all ok _ hts.2)
    · simp only [List.forall_mem_cons] at hts
      exact finishCall_prov ok _ _ _ _ hts.1 trivial hts.2.2.2
    · simp only [List.forall_mem_cons] at hts
      exact ihCA _ _ hts.1 (skipWs_all ok _ hts.2.2)
    · simp only [List.forall_mem_cons] at hts
      exact ihPath _ _ hts.1 hts.2
    · simp
  · intro ts hts
    simp only [parseParen]
    refine Res.bind (ihE _ _ hts) ?_
    intro e r h
    dsimp only
    have hs := skipWs_all ok _ h.2
    split
    · rename_i heq
      rw [heq] at hs
      simp only [List.forall_mem_cons] at hs
      simp only [Res_pure]; exact ⟨h.1, hs.2⟩
    · rename_i r' heq
      rw [heq] at hs
      simp only [List.forall_mem_cons] at hs
      have hs2 := skipWs_all ok _ hs.2
      split
      · rename_i heq2
        rw [heq2] at hs2
        simp only [List.forall_mem_cons] at hs2
        simp only [Res_pure]
        exact ⟨prov_list ok _ (prov_single ok _ h.1), hs2.2⟩
      · refine Res.bind (ihI _ _ (prov_single ok _ h.1) hs2) (fun items r3 h3 => ?_)
        simp only [Res_pure]
        exact ⟨prov_list ok _ h3.1, h3.2⟩
    · simp
  · intro acc ts hacc hts
    simp only [parseItems]
    refine Res.bind (ihE _ _ hts) ?_
    intro e r h
    dsimp only
    have hs := skipWs_all ok _ h.2
    have hsn := provL_snoc ok acc e hacc h.1
    split
    · rename_i heq
      rw [heq] at hs
      simp only [List.forall_mem_cons] at hs
      simp only [Res_pure]; exact ⟨hsn, hs.2⟩
    · rename_i r' heq
      rw [heq] at hs
      simp only [List.forall_mem_cons] at hs
      exact ihI _ _ hsn (skipWs_all ok _ hs.2)
    · simp
  · intro ts hts
    simp only [parseListExpr]
    split
    · simp only [List.forall_mem_cons] at hts
      refine Res.bind (ihE _ _ (skipWs_all ok _ hts.2)) ?_
      intro e r h
      dsimp only
      have hs := skipWs_all ok _ h.2
      split
      · rename_i r' heq
        rw [heq] at hs
        simp only [List.forall_mem_cons] at hs
        have hs2 := skipWs_all ok _ hs.2
        split
        · rename_i heq2
          rw [heq2] at hs2
          simp only [List.forall_mem_cons] at hs2
          simp only [Res_pure]
          exact ⟨prov_list ok _ (prov_single ok _ h.1), hs2.2⟩
        · refine Res.bind (ihI _ _ (prov_single ok _ h.1) hs2) (fun items r3 h3 => ?_)
          simp only [Res_pure]
          exact ⟨prov_list ok _ h3.1, h3.2⟩
      · simp
    · simp
  · intro i ts hi hts
    simp only [parseCallArgs]
    split
    · simp only [List.forall_mem_cons] at hts
      refine Res.bind (ihE _ _ hts.2.2) (fun e r1 h => ihNR _ _ r1 hi ?_ h.2)
      simp only [ProvL, Prov, and_true]; exact ⟨hts.1, h.1⟩
    · refine Res.bind (ihE _ _ hts) ?_
      intro e r h
      dsimp only
      have hs := skipWs_all ok _ h.2
      split
      · rename_i heq
        rw [heq] at hs
        simp only [List.forall_mem_cons] at hs
        exact finishCall_prov ok _ _ _ _ hi (prov_single ok _ h.1) hs.2
      · rename_i r' heq
        rw [heq] at hs
        simp only [List.forall_mem_cons] at hs
        have hs2 := skipWs_all ok _ hs.2
        split
        · rename_i heq2
          rw [heq2] at hs2
          simp only [List.forall_mem_cons] at hs2
          exact finishCall_prov ok _ _ _ _ hi (prov_single ok _ h.1) hs2.2
        · exact Res.bind (ihI _ _ (prov_single ok _ h.1) hs2)
            (fun items r4 h4 => finishCall_prov ok _ _ _ _ hi h4.1 h4.2)
      · simp
  · intro i acc ts hi hacc hts
    simp only [parseNamedRest]
    have hs := skipWs_all ok _ hts
    split
    · rename_i heq
      rw [heq] at hs
      simp only [List.forall_mem_cons] at hs
      exact finishCall_prov ok _ _ _ _ hi hacc hs.2
    · rename_i r heq
      rw [heq] at hs
      simp only [List.forall_mem_cons] at hs
      have hs2 := skipWs_all ok _ hs.2
      split
      · rename_i heq2
        rw [heq2] at hs2
        simp only [List.forall_mem_cons] at hs2
        refine Res.bind (ihE _ _ hs2.2.2) (fun e r1 h => ihNR _ _ r1 hi ?_ h.2)
        refine provL_snoc ok _ _ hacc ?_
        simp only [Prov]; exact ⟨hs2.1, h.1⟩
      · simp
      · simp
    · simp
  · intro i ts hi hts
    have hid : Prov ok (.ident i) := by simp only [Prov]; exact .inl hi
    simp only [parsePath]
    split
    · simp only [List.forall_mem_cons] at hts
      refine Res.bind (ihPath _ _ hts.2.1 hts.2.2) ?_
      intro tail r' ht
      cases hp : pathCons i tail with
      | ok e =>
        simp only [liftOutcome, Res_ok]
        exact ⟨pathCons_prov ok i tail e hi ht.1 hp, ht.2⟩
      | lib _ => simp [liftOutcome]
      | notImplemented => simp [liftOutcome]
      | foreign _ => simp [liftOutcome]
    · simp only [List.forall_mem_cons] at hts
      have hs := skipWs_all ok _ hts.2.2.2
      split
      · rename_i heq
        rw [heq] at hs
        simp only [List.forall_mem_cons] at hs
        simp only [Res_pure]
        refine ⟨?_, hs.2⟩
        simp only [Prov, ProvLam, and_true]; exact .inl hi
      · refine Res.bind (ihLam _ hs) ?_
        intro lam r2 h2
        dsimp only
        have hs2 := skipWs_all ok _ h2.2
        rcases expectRp_cases lexErr (skipWs r2) with ⟨r3, h3, h4⟩ | ⟨e, _, he, h4⟩
        · rw [h4]; rw [h3] at hs2
          simp only [List.forall_mem_cons] at hs2
          simp only [bind, Except.bind, Res_pure]
          refine ⟨?_, hs2.2⟩
          simp only [Prov]; exact ⟨.inl hi, h2.1⟩
        · rw [h4]; simp [bind, Except.bind]
    · simp only [List.forall_mem_cons] at hts
      have hs := skipWs_all ok _ hts.2.2.2
      refine Res.bind (ihLam _ hs) ?_
      intro lam r2 h2
      dsimp only
      have hs2 := skipWs_all ok _ h2.2
      rcases expectRp_cases lexErr (skipWs r2) with ⟨r3, h3, h4⟩ | ⟨e, _, he, h4⟩
      · rw [h4]; rw [h3] at hs2
        simp only [List.forall_mem_cons] at hs2
        simp only [bind, Except.bind, Res_pure]
        refine ⟨?_, hs2.2⟩
        simp only [Prov]; exact ⟨.inl hi, h2.1⟩
      · rw [h4]; simp [bind, Except.bind]
    · simp
    · simp
    · simp
    · simp only [Res_ok]; exact ⟨hid, hts⟩
  · intro ts hts
    simp only [parseLambda]
    split
    · simp only [List.forall_mem_cons] at hts
      have hs := skipWs_all ok _ hts.2
      split
      · rename_i heq
        rw [heq] at hs
        simp only [List.forall_mem_cons] at hs
        refine Res.bind (ihE _ _ (skipWs_all ok _ hs.2)) (fun e r1 h => ?_)
        simp only [Res_pure, ProvLam]; exact ⟨⟨hts.1, h.1⟩, h.2⟩
      · simp
    · simp

theorem ni_all : ∀ f, NI ok lexErr f
  | 0 => ni_zero ok lexErr
  | f + 1 => ni_succ ok lexErr f (ni_all f)

end

/-- every token satisfies `ok` => every literal / identifier of the accepted tree comes from a token satisfying `ok` -/
theorem parseToks_prov (ok : Tok → Prop) (lexErr : Option Nat) (ts : List Tok) (e : Expr)
    (hts : ∀ t ∈ ts, ok t) (h : parseToks lexErr ts = .ok e) : Prov ok e := by
  have key := (ni_all ok lexErr.isSome (parseFuel ts)).1 0 ts hts
  unfold parseToks at h
  split at h
  · rename_i e' heq
    split at h
    · cases h
    · cases h
      rw [heq] at key
      exact key.1
  all_goals cases h

end OQ.AcceptedParse
