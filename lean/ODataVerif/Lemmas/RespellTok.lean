/- Lemmas/RespellTok.lean — `TextOk` (the lexing facts needed of the text of a literal / identifier), their transfer to a
   delimiter or whitespace follower, and to the ASCII case variants of a literal (for Props/C19Text.lean). -/
import ODataVerif.Lemmas.RespellBlank
namespace OQ.Respelling
open Spec LexRender CaseMap
set_option linter.unusedSimpArgs false
set_option linter.unusedVariables false

/-- what is needed of the text `s` of a literal / identifier token `t` (cf. `LexRender.TokOk`, which is the case
    `s = spellTok t`) -/
structure TextOk (t : Tok) (s : Str) : Prop where
  alone : lexOne E s = some (t, [])
  before : (∃ i, t = .ident i) → ∃ r, lexOne E (s ++ [' ']) = some (t, r)
  between : ∀ e ∈ allOps, scanOp E e.2 (' ' :: s ++ [' ']) = none

theorem TextOk.ofTok {t : Tok} (h : TokOk t) : TextOk t (spellTok t) := by
  obtain ⟨r, hb⟩ := h.between
  exact ⟨h.alone, fun _ => h.before, lexOne_ws_ops hb⟩

theorem TextOk.head {t : Tok} {s : Str} (ht : isLI t = true) (h : TextOk t s) :
    ∃ c s0, s = c :: s0 ∧ E.isSpace c = false := by
  have ha := h.alone
  cases s with
  | nil => rw [lexOne_nil] at ha; cases ha
  | cons c s0 => exact ⟨c, s0, rfl, li_head_ns ht ha⟩

/-- nothing, or something that starts with a printer delimiter or a whitespace character -/
def DelimTailC (tl : List Char) : Prop := tl = [] ∨ ∃ d rest, tl = d :: rest ∧ DelimC d

theorem scanNot_stableC {s : List Char} (h : scanNot E (s ++ [' ']) = none) {d : Char} (hd : Delim E d)
    (rest : List Char) : scanNot E (s ++ d :: rest) = none := by
  simp only [scanNot, Option.bind_eq_bind] at h ⊢
  rw [kw_ext E ' ' _ _ s (delim_blank.kwl _)] at h
  rw [kw_ext E d _ _ s (hd.kwl _)]
  cases hk : kw E "not".toList s with
  | none => simp
  | some y =>
    rw [hk] at h
    simp only [ext_some, Option.bind_some] at h ⊢
    have h1 : span1 E.isSpace (y.2 ++ [' ']) = none := by
      cases hsp : span1 E.isSpace (y.2 ++ [' ']) with
      | none => rfl
      | some z => rw [hsp] at h; simp at h
    rw [span1_stable h1]; rfl

theorem scanOp_stableC {w s : List Char} {c : Char} {s0 : List Char} (hs : s = c :: s0) (hc : E.isSpace c = false)
    (hw : ∀ p ∈ w, p ∈ patChars)
    (h : scanOp E w (' ' :: s ++ [' ']) = none) {tl : List Char} (htl : DelimTailC tl) :
    scanOp E w (' ' :: s ++ tl) = none := by
  subst hs
  have hx : ∀ y, headNS ((c :: s0) ++ y) := fun y => headNS_cons hc
  rw [List.cons_append, scanOp_blank w (hx _)] at h ⊢
  rw [kw_ext E ' ' _ _ _ (delim_blank.kwl _ hw)] at h
  have hk : kw E w ((c :: s0) ++ tl) = ext (kw E w (c :: s0)) tl := by
    rcases htl with rfl | ⟨d, rest, rfl, hd⟩
    · simp; cases kw E w (c :: s0) <;> simp
    · exact kw_ext E d rest _ _ (hd.delim.kwl _ hw)
  rw [hk]
  cases hkw : kw E w (c :: s0) with
  | none => simp
  | some y =>
    rw [hkw] at h
    simp only [ext_some, Option.bind_some] at h ⊢
    have h1 : span1 E.isSpace (y.2 ++ [' ']) = none := by
      cases hsp : span1 E.isSpace (y.2 ++ [' ']) with
      | none => rfl
      | some z => rw [hsp] at h; simp at h
    rw [span1_stable h1]; rfl

/-- a whitespace run in front of the text of a literal / identifier is a WS token -/
theorem TextOk.ws {t : Tok} {s : Str} (ht : isLI t = true) (h : TextOk t s) {w tl : List Char} (hw : isBlankRun E w)
    (htl : DelimTailC tl) : lexOne E (w ++ (s ++ tl)) = some (.ws, s ++ tl) := by
  obtain ⟨c, s0, hs, hc⟩ := h.head ht
  have hops := h.between
  have hx : headNS (s ++ tl) := by rw [hs]; exact headNS_cons hc
  rw [lexOne_blank_run hw hx]
  refine lexOne_ws _ hx ?_
  intro e he
  have := scanOp_stableC hs hc (allOps_pat e he) (hops e he) htl
  rwa [List.cons_append] at this

theorem lexOne_ext_litC {s : List Char} {k : LitKind} {v : Str} {d : Char} (rest : List Char)
    (h : lexOne E s = some (.lit k v, [])) (hD : Delim E d) (hc : d ≠ ':') :
    lexOne E (s ++ d :: rest) = some (.lit k v, d :: rest) := by
  have hl := lexOne_lit_inv h
  apply lexOne_of_lit
  cases s with
  | nil =>
    have : firstSome (litRules E) [] = none := by decide +kernel
    rw [this] at hl; cases hl
  | cons c s0 =>
    by_cases hq : c = '\''
    · subst hq
      rw [litRules_quote] at hl
      simp only [List.cons_append]
      rw [litRules_quote]
      simp only [rLit, Option.map_eq_some_iff, Prod.mk.injEq, Tok.lit.injEq] at hl ⊢
      obtain ⟨⟨v', r'⟩, hs, ⟨rfl, rfl⟩, rfl⟩ := hl
      exact ⟨(_, d :: rest), scanString_ext hD.ne_quote rest _ _ hs, ⟨rfl, rfl⟩, rfl⟩
    · by_cases hg : ciChar E 'g' c = true
      · have hgc := g_cases hg
        rw [litRules_g hgc] at hl
        simp only [List.cons_append]
        rw [litRules_g hgc]
        simp only [rLit, Option.map_eq_some_iff, Prod.mk.injEq, Tok.lit.injEq] at hl ⊢
        obtain ⟨⟨v', r'⟩, hs, ⟨rfl, rfl⟩, rfl⟩ := hl
        exact ⟨(_, d :: rest), scanGeography_ext hD rest _ _ hs, ⟨rfl, rfl⟩, rfl⟩
      · exact firstSome_transfer _ _ _ _ _
          (litRules_ext word_dot hD (Or.inl hc) hq (kw_head (p := 'g') (by simpa using hg))) hl

theorem lexOne_ext_identC {s : List Char} {i : Ident} {d : Char} (rest : List Char)
    (h : lexOne E s = some (.ident i, [])) (hD : Delim E d) (hi : isIdentStart E d = false)
    (hnot : E.isSpace d = true → scanNot E (s ++ d :: rest) = none) :
    lexOne E (s ++ d :: rest) = some (.ident i, d :: rest) := by
  have hsrc : Src E s [] (.ident i) := lexOne_src h
  cases s with
  | nil => rw [lexOne_nil0] at h; cases h
  | cons c s0 =>
    have hl := src_ident_letter hsrc
    obtain ⟨hdg, hsp, hq, hp, hm⟩ := letter_imp c hl
    have hg := src_ident_geo hsrc
    refine lexOne_ext_other word_dot hD hi (Or.inr (letter_ranges hl)) hq hg hsp ?_ (by simp) h
    intro hn
    cases hds : E.isSpace d with
    | true => exact hnot hds
    | false => rw [scanNot_ext hD hds, hn]; rfl

theorem TextOk.follow {t : Tok} {s : Str} (ht : isLI t = true) (h : TextOk t s) {d : Char} (rest : List Char)
    (hd : DelimC d) (hcolon : d = ':' → ∃ i, t = .ident i) :
    lexOne E (s ++ d :: rest) = some (t, d :: rest) := by
  cases t with
  | lit k v =>
    refine lexOne_ext_litC rest h.alone hd.delim ?_
    intro hdc
    obtain ⟨i, hi⟩ := hcolon hdc
    cases hi
  | ident i =>
    refine lexOne_ext_identC rest h.alone hd.delim hd.identStart ?_
    intro _
    obtain ⟨r, hb⟩ := h.before ⟨i, rfl⟩
    exact scanNot_stableC (lexOne_ident_scanNot hb) hd.delim rest
  | _ => simp [isLI] at ht


/-! ### a case variant of the text of a literal lexes to the corresponding literal -/

theorem mapLitTok_lit {φ : Char → Char} {t' : Tok} {k : LitKind} {v : Str} (h : mapLitTok φ t' = mapLitTok φ (.lit k v)) :
    ∃ p, t' = .lit k p ∧ mapLitTok φ (.lit k p) = mapLitTok φ (.lit k v) := by
  cases t' with
  | lit k' p =>
    have hk : k' = k := by
      cases k' <;> cases k <;> simp [mapLitTok] at h ⊢
    subst hk
    exact ⟨p, rfl, h⟩
  | _ => cases k <;> simp [mapLitTok] at h

theorem textOk_of_map {φ : Char → Char} (hφ : CaseMap E φ) (hsp : φ ' ' = ' ') {k : LitKind} {v t0 s : Str}
    (h : TextOk (.lit k v) t0) (hs : s.map φ = t0.map φ) :
    ∃ p, TextOk (.lit k p) s ∧ mapLitTok φ (.lit k p) = mapLitTok φ (.lit k v) := by
  have hl := lexOne_lit_inv h.alone
  have h1 := firstSome_map (litRules E) (litRules_map hφ) s
  have h2 := firstSome_map (litRules E) (litRules_map hφ) t0
  rw [hs, h2, hl] at h1
  cases hfs : firstSome (litRules E) s with
  | none => rw [hfs] at h1; simp [mapRes] at h1
  | some x =>
    obtain ⟨t', r'⟩ := x
    rw [hfs] at h1
    simp only [mapRes, Option.map_some, Option.some.injEq, Prod.mk.injEq, List.map_nil] at h1
    obtain ⟨ht', hr'⟩ := h1
    have hr : r' = [] := by simpa using hr'.symm
    subst hr
    obtain ⟨p, rfl, hp⟩ := mapLitTok_lit ht'.symm
    refine ⟨p, ⟨lexOne_of_lit hfs, ?_, ?_⟩, hp⟩
    · rintro ⟨i, hi⟩; cases hi
    · intro e he
      have a1 := scanOp_map hφ e.2 (allOps_pat e he) (' ' :: s ++ [' '])
      have a2 := scanOp_map hφ e.2 (allOps_pat e he) (' ' :: t0 ++ [' '])
      simp only [List.map_cons, List.map_append, List.map_nil, hsp] at a1 a2
      rw [hs, a2, h.between e he] at a1
      cases hso : scanOp E e.2 (' ' :: s ++ [' ']) with
      | none => rfl
      | some y => rw [hso] at a1; simp at a1


theorem kw_split {env : CharEnv} : ∀ (w s m r : List Char), kw env w s = some (m, r) → s = m ++ r ∧ m.length = w.length
  | [], s, m, r, h => by simp [kw] at h; obtain ⟨rfl, rfl⟩ := h; simp
  | _ :: _, [], m, r, h => by simp [kw] at h
  | p :: ps, c :: cs, m, r, h => by
      simp only [kw] at h
      split at h
      · cases hk : kw env ps cs with
        | none => simp [hk] at h
        | some y =>
          obtain ⟨m', r'⟩ := y
          simp [hk] at h
          obtain ⟨rfl, rfl⟩ := h
          obtain ⟨h1, h2⟩ := kw_split ps cs m' r' hk
          simp [h1, h2]
      · simp at h

theorem geo_body {pre v p : Str} (hlen : pre.length = 9)
    (h : scanGeography E (pre ++ '\'' :: v ++ ['\'']) = some (p, [])) : strBody (v ++ ['\'']) = some (p, []) := by
  simp only [scanGeography, Option.bind_eq_bind, Option.bind_eq_some_iff] at h
  obtain ⟨⟨m, r⟩, hk, hb⟩ := h
  obtain ⟨h1, h2⟩ := kw_split _ _ _ _ hk
  have hlen2 : m.length = (pre ++ ['\'']).length := by
    rw [h2]; simp [hlen]
  have e : (pre ++ ['\'']) ++ (v ++ ['\'']) = m ++ r := by rw [← h1]; simp
  have := (List.append_inj e hlen2.symm).2
  rw [this]; exact hb

theorem map_up_up (X : List Char) : (X.map asciiUpper).map asciiUpper = X.map asciiUpper :=
  map_asciiUpper caseMap_upper X

theorem ciSpell_up {k s : Str} (h : ciSpell k s) : s.map asciiUpper = k.map asciiUpper := by
  rw [← h]; exact (map_asciiUpper caseMap_lower s).symm

theorem null_payload {v : Str} (h : TokOk (.lit .null v)) : v = [] := by
  have h1 := h.alone
  have h2 : lexOne E (spellTok (.lit .null v)) = some (.lit .null [], []) := by
    show lexOne E "null".toList = _
    decide +kernel
  rw [h2] at h1
  simpa using h1.symm

/-- the text of a re-spelled literal lexes to a literal that is equal up to `normTok` -/
theorem spellLit_textOk {k : LitKind} {v s : Str} (hsp : SpellTok E (.lit k v) s) (hok : TokOk (.lit k v)) :
    ∃ p, TextOk (.lit k p) s ∧ normTok (.lit k p) = normTok (.lit k v) := by
  have hlo : asciiLower ' ' = ' ' := by decide
  have hup : asciiUpper ' ' = ' ' := by decide
  have hT := TextOk.ofTok hok
  cases hsp with
  | null _ _ hkw =>
    have hv := null_payload hok
    subst hv
    have hs : s.map asciiLower = (spellTok (.lit .null [])).map asciiLower := by
      rw [hkw]; decide
    obtain ⟨p, hp, hm⟩ := textOk_of_map caseMap_lower hlo hT hs
    have : p = [] := by simpa [mapLitTok] using hm
    subst this
    exact ⟨[], hp, rfl⟩
  | boolLit _ _ hs =>
    obtain ⟨p, hp, hm⟩ := textOk_of_map caseMap_lower hlo hT (t0 := v) hs
    refine ⟨p, hp, ?_⟩
    simpa [mapLitTok, normTok] using hm
  | float _ _ hs =>
    obtain ⟨p, hp, hm⟩ := textOk_of_map caseMap_lower hlo hT (t0 := v) hs
    refine ⟨p, hp, ?_⟩
    simpa [mapLitTok, normTok] using hm
  | datetime _ _ hs =>
    have hs' : s.map asciiUpper = (spellTok (.lit .datetime v)).map asciiUpper := by
      show _ = v.map asciiUpper
      rw [← hs, map_up_up]
    obtain ⟨p, hp, hm⟩ := textOk_of_map caseMap_upper hup hT hs'
    have : p = v := by simpa [mapLitTok] using hm
    subst this
    exact ⟨p, hp, rfl⟩
  | duration _ pre b hpre hb =>
    have hs' : (pre ++ '\'' :: b ++ ['\'']).map asciiUpper = (spellTok (.lit .duration v)).map asciiUpper := by
      show _ = ("duration'".toList ++ v ++ ['\'']).map asciiUpper
      have hq : asciiUpper '\'' = '\'' := by decide
      have e1 : v.map asciiUpper = v := by rw [← hb, map_up_up]
      have e2 : "duration'".toList.map asciiUpper = "duration".toList.map asciiUpper ++ ['\''] := by decide
      simp only [List.map_append, List.map_cons, List.map_nil, ciSpell_up hpre, hb, e1, e2, hq]
      simp
    obtain ⟨p, hp, hm⟩ := textOk_of_map caseMap_upper hup hT hs'
    have : p = v := by simpa [mapLitTok] using hm
    subst this
    exact ⟨p, hp, rfl⟩
  | geo _ pre hpre =>
    have hlen : pre.length = 9 := by
      have := congrArg List.length hpre
      simpa using this
    have hs' : (pre ++ '\'' :: v ++ ['\'']).map asciiLower = (spellTok (.lit .geo v)).map asciiLower := by
      show _ = ("geography'".toList ++ v ++ ['\'']).map asciiLower
      have hq : asciiLower '\'' = '\'' := by decide
      have e2 : "geography'".toList.map asciiLower = "geography".toList ++ ['\''] := by decide
      have hpre' : pre.map asciiLower = "geography".toList := hpre
      simp only [List.map_append, List.map_cons, List.map_nil, hpre', e2, hq]
      simp
    obtain ⟨p, hp, hm⟩ := textOk_of_map caseMap_lower hlo hT hs'
    have h1 : scanGeography E (pre ++ '\'' :: v ++ ['\'']) = some (p, []) := lexOne_src hp.alone
    have h2 : scanGeography E ("geography".toList ++ '\'' :: v ++ ['\'']) = some (v, []) := lexOne_src hT.alone
    have b1 := geo_body hlen h1
    have b2 := geo_body (by decide) h2
    rw [b1] at b2
    have : p = v := by simpa using b2
    subst this
    exact ⟨p, hp, rfl⟩
  | exact _ _ => exact ⟨v, hT, rfl⟩

end OQ.Respelling
