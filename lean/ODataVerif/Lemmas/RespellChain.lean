/- Lemmas/RespellChain.lean — pieces (a token with the text it is written as), the per-piece conditions, and the
   composition theorem `lex_pieces` (for Props/C19Text.lean). -/
import ODataVerif.Lemmas.RespellKw
namespace OQ.Respelling
open Spec LexRender CaseMap
set_option linter.unusedSimpArgs false
set_option linter.unusedVariables false

/-! ### consumed text of the number scanners (the value of an Integer / Float token is its text) -/

theorem span_consumed (p : Char → Bool) : ∀ s : List Char, (span p s).1 ++ (span p s).2 = s
  | [] => rfl
  | c :: cs => by
      simp only [span]
      split
      · simp [span_consumed p cs]
      · rfl

theorem span1_consumed {p : Char → Bool} {s a b : List Char} (h : span1 p s = some (a, b)) : a ++ b = s := by
  unfold span1 at h
  have := span_consumed p s
  split at h
  · simp at h
  · rename_i a' b' hne heq
    simp at h
    rw [heq] at this
    obtain ⟨rfl, rfl⟩ := h
    exact this

theorem scanInteger_consumed {env : CharEnv} {s v r : List Char} (h : scanInteger env s = some (v, r)) : v ++ r = s := by
  unfold scanInteger at h
  split at h
  · simp only [Option.map_eq_some_iff] at h
    obtain ⟨⟨a, b⟩, hs, he⟩ := h
    simp at he; obtain ⟨rfl, rfl⟩ := he
    simp [span1_consumed hs]
  · simp only [Option.map_eq_some_iff] at h
    obtain ⟨⟨a, b⟩, hs, he⟩ := h
    simp at he; obtain ⟨rfl, rfl⟩ := he
    simp [span1_consumed hs]
  · exact span1_consumed h

theorem scanInteger_head {env : CharEnv} {c : Char} {s0 v r : List Char} (h : scanInteger env (c :: s0) = some (v, r)) :
    ∃ v0, v = c :: v0 := by
  have hc := scanInteger_consumed h
  cases v with
  | nil =>
    exfalso
    unfold scanInteger at h
    split at h
    · simp only [Option.map_eq_some_iff] at h; obtain ⟨⟨a, b⟩, hs, he⟩ := h; simp at he
    · simp only [Option.map_eq_some_iff] at h; obtain ⟨⟨a, b⟩, hs, he⟩ := h; simp at he
    · unfold span1 at h; split at h
      · simp at h
      · rename_i hne _; simp at h; exact hne h.1
  | cons c' v0 => simp at hc; exact ⟨v0, by rw [hc.1]⟩

theorem scanDecimal_head {env : CharEnv} {c : Char} {s0 v r : List Char} (h : scanDecimal env (c :: s0) = some (v, r)) :
    ∃ v0, v = c :: v0 := by
  simp only [scanDecimal, Option.bind_eq_bind, Option.bind_eq_some_iff] at h
  obtain ⟨⟨i, r1⟩, hi, hrest⟩ := h
  obtain ⟨i0, rfl⟩ := scanInteger_head hi
  simp only at hrest
  split at hrest
  · split at hrest
    · split at hrest
      · simp at hrest; exact ⟨_, hrest.1.symm⟩
      · simp at hrest; exact ⟨_, hrest.1.symm⟩
    · simp at hrest
  · split at hrest
    · simp at hrest; exact ⟨_, hrest.1.symm⟩
    · simp at hrest


/-- a literal that is not an unsigned number, or an identifier, does not start with a digit -/
theorem TextOk.nodigit {t : Tok} {s : Str} (ht : isLI t = true) (h : TextOk t s) (hu : isUnsignedNumber t = false)
    (tl : List Char) : span1 E.isDigit (s ++ tl) = none := by
  obtain ⟨c, s0, rfl, hc⟩ := h.head ht
  rw [List.cons_append]
  apply span1_head
  cases hdg : E.isDigit c with
  | false => rfl
  | true =>
    exfalso
    obtain ⟨-, hnl, h95, h39, h43, h45, -⟩ := isDigit_imp c hdg
    have ha := h.alone
    have hci : ∀ p ∈ ['d', 'g', 't', 'f', 'n', 'a'], ciChar E p c = false := by
      intro p hp
      cases hcc : ciChar E p c with
      | false => rfl
      | true => exact absurd (ciChar_imp c p hp hcc) hnl
    have h1 : c ≠ '-' := by rintro rfl; exact h45 rfl
    have h2 : c ≠ '+' := by rintro rfl; exact h43 rfl
    cases t with
    | ident i =>
      rcases src_ident_letter (lexOne_src ha) with e | e
      · exact hnl e
      · exact h95 e
    | lit k v =>
      cases k with
      | null =>
        have hsrc : v = [] ∧ ∃ m, scanWord E "null".toList (c :: s0) = some (m, []) := lexOne_src ha
        obtain ⟨-, m, hm⟩ := hsrc
        have := scanWord_head_inv (p := 'n') (ps := ['u', 'l', 'l']) hm
        rw [hci 'n' (by decide)] at this; cases this
      | str =>
        have hsrc : scanString (c :: s0) = some (v, []) := lexOne_src ha
        have hq : c ≠ '\'' := by rintro rfl; exact h39 rfl
        rw [scanString_head hq] at hsrc; cases hsrc
      | geo =>
        have hsrc : scanGeography E (c :: s0) = some (v, []) := lexOne_src ha
        rw [scanGeography_head (hci 'g' (by decide))] at hsrc; cases hsrc
      | duration =>
        have hsrc : scanDuration E (c :: s0) = some (v, []) := lexOne_src ha
        rw [scanDuration_head (hci 'd' (by decide))] at hsrc; cases hsrc
      | int =>
        have hsrc : scanInteger E (c :: s0) = some (v, []) := lexOne_src ha
        obtain ⟨v0, rfl⟩ := scanInteger_head hsrc
        simp [isUnsignedNumber, h1, h2] at hu
      | float =>
        have hsrc : scanDecimal E (c :: s0) = some (v, []) := lexOne_src ha
        obtain ⟨v0, rfl⟩ := scanDecimal_head hsrc
        simp [isUnsignedNumber, h1, h2] at hu
      | bool =>
        have hsrc : scanWord E "true".toList (c :: s0) = some (v, []) ∨ scanWord E "false".toList (c :: s0) = some (v, []) :=
          lexOne_src ha
        rcases hsrc with hm | hm
        · have := scanWord_head_inv (p := 't') (ps := ['r', 'u', 'e']) hm
          rw [hci 't' (by decide)] at this; cases this
        · have := scanWord_head_inv (p := 'f') (ps := ['a', 'l', 's', 'e']) hm
          rw [hci 'f' (by decide)] at this; cases this
      | date => simp [isUnsignedNumber] at hu
      | time => simp [isUnsignedNumber] at hu
      | datetime => simp [isUnsignedNumber] at hu
      | guid => simp [isUnsignedNumber] at hu
    | _ => simp [isLI] at ht


/-! ### pieces: a token together with the text it is written as -/

structure Piece where
  tok : Tok
  txt : Str

def flat : List Piece → Str
  | [] => []
  | p :: r => p.txt ++ flat r

/-- the text of a piece is an admissible spelling of its token -/
def PieceOk (p : Piece) : Prop :=
  match p.tok with
  | .lit _ _ | .ident _ => TextOk p.tok p.txt
  | .arith _ | .cmp _ | .bool _ =>
      ∃ w1 k w2, p.txt = w1 ++ k ++ w2 ∧ isBlankRun E w1 ∧ isBlankRun E w2 ∧ k.map asciiLower = opWord p.tok
  | .not_ => ∃ k w, p.txt = k ++ w ∧ ciSpell "not".toList k ∧ isBlankRun E w
  | .any => ciSpell "any".toList p.txt
  | .all => ciSpell "all".toList p.txt
  | .ws => isBlankRun E p.txt
  | t => p.txt = spellTok t

def nextTok (r : List Piece) : Option Tok := r.head?.map (·.tok)

def pchainOk : List Piece → Prop
  | [] => True
  | p :: r => PieceOk p ∧ adj true p.tok (nextTok r) = true ∧ pchainOk r

theorem blank_head {w : Str} (hw : isBlankRun E w) (x : List Char) : ∃ d y, w ++ x = d :: y ∧ E.isSpace d = true := by
  obtain ⟨d, w', rfl, hd⟩ := isBlankRun_cons hw
  exact ⟨d, w' ++ x, rfl, hd⟩

/-- the text of a piece whose token may follow a literal / identifier starts with a delimiter or a whitespace -/
theorem flat_identFollow {q : Piece} {r : List Piece} (hq : PieceOk q) (h : identFollowT q.tok = true) :
    ∃ d x, flat (q :: r) = d :: x ∧ DelimC d ∧ (d = ':' → q.tok = .colon) := by
  obtain ⟨t, txt⟩ := q
  have hsp : ∀ {w : Str}, isBlankRun E w → ∀ x, ∃ d y, w ++ x = d :: y ∧ DelimC d ∧ (d = ':' → t = .colon) := by
    intro w hw x
    obtain ⟨d, y, e, hd⟩ := blank_head hw x
    exact ⟨d, y, e, Or.inr hd, by rintro rfl; exact absurd hd (by decide +kernel)⟩
  cases t with
  | arith o =>
    obtain ⟨w1, k, w2, e, h1, h2, -⟩ := hq
    simp only [flat] at e ⊢; subst e
    simpa [List.append_assoc] using hsp h1 (k ++ (w2 ++ flat r))
  | cmp o =>
    obtain ⟨w1, k, w2, e, h1, h2, -⟩ := hq
    simp only [flat] at e ⊢; subst e
    simpa [List.append_assoc] using hsp h1 (k ++ (w2 ++ flat r))
  | bool o =>
    obtain ⟨w1, k, w2, e, h1, h2, -⟩ := hq
    simp only [flat] at e ⊢; subst e
    simpa [List.append_assoc] using hsp h1 (k ++ (w2 ++ flat r))
  | ws => exact hsp (w := txt) hq (flat r)
  | lp => simp only [PieceOk] at hq; subst hq; exact ⟨'(', _, rfl, Or.inl (by decide), by decide⟩
  | rp => simp only [PieceOk] at hq; subst hq; exact ⟨')', _, rfl, Or.inl (by decide), by decide⟩
  | comma => simp only [PieceOk] at hq; subst hq; exact ⟨',', _, rfl, Or.inl (by decide), by decide⟩
  | slash => simp only [PieceOk] at hq; subst hq; exact ⟨'/', _, rfl, Or.inl (by decide), by decide⟩
  | colon => simp only [PieceOk] at hq; subst hq; exact ⟨':', _, rfl, Or.inl (by decide), fun _ => rfl⟩
  | eqs => simp only [PieceOk] at hq; subst hq; exact ⟨'=', _, rfl, Or.inl (by decide), by decide⟩
  | _ => simp [identFollowT, closeT] at h

theorem flat_start {q : Piece} {r : List Piece} (hq : PieceOk q) (h : startT q.tok = true) : headNS (flat (q :: r)) := by
  obtain ⟨t, txt⟩ := q
  cases t with
  | lit k v =>
    obtain ⟨c, s0, e, hc⟩ := TextOk.head (t := .lit k v) rfl hq
    simp only [flat]; simp only at e; rw [e]; exact headNS_cons hc
  | ident i =>
    obtain ⟨c, s0, e, hc⟩ := TextOk.head (t := .ident i) rfl hq
    simp only [flat]; simp only at e; rw [e]; exact headNS_cons hc
  | not_ =>
    obtain ⟨k, w, e, hk, hw⟩ := hq
    simp only at e; subst e
    have hb := not_table k (variants_mem _ _ hk)
    cases k with
    | nil => simp [notOkB] at hb
    | cons c s0 =>
      simp only [notOkB, Bool.and_eq_true, Bool.not_eq_true'] at hb
      simp only [flat, List.cons_append, List.append_assoc]
      exact headNS_cons hb.1.1.1.2
  | uminus => simp only [PieceOk] at hq; subst hq; exact headNS_cons (c := '-') (by decide +kernel)
  | lp => simp only [PieceOk] at hq; subst hq; exact headNS_cons (c := '(') (by decide +kernel)
  | _ => simp [startT] at h


theorem flat_nodigit {q : Piece} {r : List Piece} (hq : PieceOk q) (hs : (q.tok == .ws || startT q.tok) = true)
    (hu : isUnsignedNumber q.tok = false) : span1 E.isDigit (flat (q :: r)) = none := by
  obtain ⟨t, txt⟩ := q
  cases t with
  | lit k v => exact TextOk.nodigit (t := .lit k v) rfl hq hu _
  | ident i => exact TextOk.nodigit (t := .ident i) rfl hq hu _
  | ws =>
    obtain ⟨d, y, e, hd⟩ := blank_head (w := txt) hq (flat r)
    simp only [flat]; rw [e]; exact span1_head (space_imp d hd).1
  | not_ =>
    have := flat_start (r := r) hq rfl
    obtain ⟨k, w, e, hk, hw⟩ := hq
    simp only at e; subst e
    have hb := not_table k (variants_mem _ _ hk)
    cases k with
    | nil => simp [notOkB] at hb
    | cons c s0 =>
      simp only [flat, List.cons_append, List.append_assoc]
      apply span1_head
      have hc : asciiLower c = 'n' := by
        have := hk; simp [ciSpell] at this; exact this.1
      rw [← caseMap_lower.digit c, hc]; decide +kernel
  | uminus => simp only [PieceOk] at hq; subst hq; exact span1_head (c := '-') (by decide +kernel)
  | lp => simp only [PieceOk] at hq; subst hq; exact span1_head (c := '(') (by decide +kernel)
  | _ => simp [startT] at hs

def nextStart : Option Tok → Bool
  | none => false
  | some u => startT u

theorem adj_opd {b : Bool} {t : Tok} (h : isBinT t = true ∨ t = .not_) (n : Option Tok) : adj b t n = nextStart n := by
  rcases h with h | rfl
  · cases t <;> first | (cases n <;> rfl) | simp [isBinT] at h
  · cases n <;> rfl

theorem pchain_next_start {r : List Piece} (ha : nextStart (nextTok r) = true) (hr : pchainOk r) : headNS (flat r) := by
  cases r with
  | nil => simp [nextTok, nextStart] at ha
  | cons q r' => exact flat_start hr.1 (by simpa [nextTok, nextStart] using ha)

theorem delimTailC_after {strict : Bool} {t : Tok} {r : List Piece} (ht : isLI t = true)
    (ha : adj strict t (nextTok r) = true) (hr : pchainOk r) : DelimTailC (flat r) := by
  cases r with
  | nil => exact Or.inl rfl
  | cons q r' =>
    have hf : identFollowT q.tok = true := by
      cases t with
      | lit k v => exact closeT_identFollow (by simpa [adj, nextTok] using ha)
      | ident i => simpa [adj, nextTok] using ha
      | _ => simp [isLI] at ht
    obtain ⟨d, x, e, hd, -⟩ := flat_identFollow (r := r') hr.1 hf
    exact Or.inr ⟨d, x, e, hd⟩

theorem not_kwC {k : List Char} (hk : ciSpell "not".toList k) : ∀ e ∈ allOps, kw E e.2 k = none := by
  intro e he
  have h1 := (kw_isSome_lower (w := e.2) (k := k) (allOps_pat e he)).1
  have h0 : kw E e.2 "not".toList = none := not_kw e he
  rw [hk, h0] at h1
  cases hkk : kw E e.2 k with
  | none => rfl
  | some y => rw [hkk] at h1; simp at h1

/-- one step of the lexer on the text of a chain of pieces -/
theorem pstep {p : Piece} {rest : List Piece} (hp : PieceOk p) (ha : adj true p.tok (nextTok rest) = true)
    (hrest : pchainOk rest) : lexOne E (p.txt ++ flat rest) = some (p.tok, flat rest) := by
  obtain ⟨t, txt⟩ := p
  have hli : isLI t = true → lexOne E (txt ++ flat rest) = some (t, flat rest) := by
    intro ht
    have hT : TextOk t txt := by cases t <;> first | exact hp | simp [isLI] at ht
    cases rest with
    | nil => simpa [flat] using hT.alone
    | cons q r =>
      have hf : identFollowT q.tok = true := by
        cases t with
        | lit k v => exact closeT_identFollow (by simpa [adj, nextTok] using ha)
        | ident i => simpa [adj, nextTok] using ha
        | _ => simp [isLI] at ht
      obtain ⟨d, x, hx, hd, hcol⟩ := flat_identFollow (r := r) hrest.1 hf
      rw [hx]
      refine hT.follow ht x hd ?_
      intro hdc
      have hu := hcol hdc
      cases t with
      | lit k v => simp [adj, nextTok, hu, closeT] at ha
      | ident i => exact ⟨i, rfl⟩
      | _ => simp [isLI] at ht
  have hop : isBinT t = true → lexOne E (txt ++ flat rest) = some (t, flat rest) := by
    intro h1
    have h2 : nextStart (nextTok rest) = true := by rw [← adj_opd (Or.inl h1)]; exact ha
    have hP : ∃ w1 k w2, txt = w1 ++ k ++ w2 ∧ isBlankRun E w1 ∧ isBlankRun E w2 ∧ k.map asciiLower = opWord t := by
      cases t <;> first | exact hp | simp [isBinT] at h1
    obtain ⟨w1, k, w2, rfl, hw1, hw2, hk⟩ := hP
    exact lexOne_opC (opTok_spell t h1).1 hw1 hk hw2 _ (pchain_next_start h2 hrest)
  cases t with
  | lit k v => exact hli rfl
  | ident i => exact hli rfl
  | arith o => exact hop rfl
  | cmp o => exact hop rfl
  | bool o => exact hop rfl
  | not_ =>
    obtain ⟨k, w, e, hk, hw⟩ := hp
    simp only at e; subst e
    have h2 : nextStart (nextTok rest) = true := by rw [← adj_opd (Or.inr rfl)]; exact ha
    have := lexOne_notC hk hw (flat rest) (pchain_next_start h2 hrest)
    simpa [List.append_assoc] using this
  | uminus =>
    simp only [PieceOk] at hp; subst hp
    cases rest with
    | nil => simp [adj, nextTok] at ha
    | cons q r =>
      simp only [adj, nextTok, List.head?_cons, Option.map_some, Bool.and_eq_true, Bool.true_and,
        Bool.not_eq_true'] at ha
      exact lexOne_minus _ (flat_nodigit hrest.1 ha.1 ha.2)
  | any =>
    cases rest with
    | nil => simp [adj, nextTok] at ha
    | cons q r =>
      have hq : q.tok = .lp := by simpa [adj, nextTok] using ha
      obtain ⟨qt, qx⟩ := q
      simp only at hq; subst hq
      have hqx : qx = ['('] := hrest.1
      subst hqx
      exact lexOne_anyC hp (flat r)
  | all =>
    cases rest with
    | nil => simp [adj, nextTok] at ha
    | cons q r =>
      have hq : q.tok = .lp := by simpa [adj, nextTok] using ha
      obtain ⟨qt, qx⟩ := q
      simp only at hq; subst hq
      have hqx : qx = ['('] := hrest.1
      subst hqx
      exact lexOne_allC hp (flat r)
  | ws =>
    have hw : isBlankRun E txt := hp
    cases rest with
    | nil => simp [adj, nextTok] at ha
    | cons q r =>
      obtain ⟨hq, haq, hr⟩ := hrest
      obtain ⟨qt, qx⟩ := q
      have hD : ∀ {c : Char}, isDelim c = true → c ≠ ' ' → ∀ x, lexOne E (txt ++ c :: x) = some (.ws, c :: x) := by
        intro c hc hcs x
        rw [lexOne_blank_run hw (headNS_cons (delim_space hc hcs))]
        exact lexOne_ws _ (headNS_cons (delim_space hc hcs)) (ops_none_head x (delim_space hc hcs) (delim_of hc).ci)
      cases qt with
      | lit k v =>
        exact TextOk.ws (t := .lit k v) rfl hq hw (delimTailC_after (t := .lit k v) rfl haq hr)
      | ident i =>
        exact TextOk.ws (t := .ident i) rfl hq hw (delimTailC_after (t := .ident i) rfl haq hr)
      | not_ =>
        have hx : headNS (flat (⟨.not_, qx⟩ :: r)) := flat_start hq rfl
        rw [lexOne_blank_run hw hx]
        refine lexOne_ws _ hx ?_
        intro e he
        apply scanOp_kw_none hx
        obtain ⟨k, w, e', hk, hw'⟩ := hq
        simp only at e'; subst e'
        obtain ⟨d, w'', rfl, hd⟩ := isBlankRun_cons hw'
        have hDd : Delim E d := DelimC.delim (Or.inr hd)
        show kw E e.2 (k ++ d :: w'' ++ flat r) = none
        have e2 : k ++ d :: w'' ++ flat r = k ++ d :: (w'' ++ flat r) := by simp
        rw [e2, kw_ext E d _ _ _ (hDd.kwl _ (allOps_pat e he)), not_kwC hk e he]; rfl
      | uminus =>
        simp only [PieceOk] at hq; subst hq
        show lexOne E (txt ++ '-' :: flat r) = _
        rw [lexOne_blank_run hw (headNS_cons (by decide +kernel))]
        exact lexOne_ws _ (headNS_cons (by decide +kernel)) (ops_none_head _ (by decide +kernel) minus_ci)
      | lp => simp only [PieceOk] at hq; subst hq; exact hD (c := '(') (by decide) (by decide) _
      | rp => simp only [PieceOk] at hq; subst hq; exact hD (c := ')') (by decide) (by decide) _
      | comma => simp only [PieceOk] at hq; subst hq; exact hD (c := ',') (by decide) (by decide) _
      | colon => simp only [PieceOk] at hq; subst hq; exact hD (c := ':') (by decide) (by decide) _
      | _ => simp [adj, nextTok, startT] at ha
  | lp => simp only [PieceOk] at hp; subst hp; exact lexOne_lp _
  | rp => simp only [PieceOk] at hp; subst hp; exact lexOne_rp _
  | comma => simp only [PieceOk] at hp; subst hp; exact lexOne_comma _
  | slash => simp only [PieceOk] at hp; subst hp; exact lexOne_slash _
  | colon => simp only [PieceOk] at hp; subst hp; exact lexOne_colon _
  | eqs => simp only [PieceOk] at hp; subst hp; exact lexOne_eqs _


/-- COMPOSITION: the text of a chain of pieces lexes to the tokens of the pieces -/
theorem lex_pieces : ∀ (ps : List Piece), pchainOk ps → ∀ (f pos : Nat), (flat ps).length < f →
    lexFuel E f pos (flat ps) = ⟨ps.map (·.tok), none⟩
  | [], _, f, pos, hf => by
      obtain ⟨f', rfl⟩ : ∃ f', f = f' + 1 := ⟨f - 1, by simp [flat] at hf; omega⟩
      simp [flat, lexFuel]
  | p :: rest, hc, f, pos, hf => by
      obtain ⟨hp, ha, hrest⟩ := hc
      obtain ⟨f', rfl⟩ : ∃ f', f = f' + 1 := ⟨f - 1, by omega⟩
      have h1 := pstep hp ha hrest
      have hlen := lexOne_len E _ _ _ h1
      simp only [flat] at hf ⊢
      rw [lexFuel_step h1, lex_pieces rest hrest f' _ (by omega)]
      rfl

theorem lexAll_pieces (ps : List Piece) (h : pchainOk ps) : lexAll E (flat ps) = ⟨ps.map (·.tok), none⟩ :=
  lex_pieces ps h _ 0 (Nat.lt_succ_self _)

end OQ.Respelling
