/-
  Lemmas/AcceptedProv.lean — provenance of the literals / identifiers of a parsed tree (definitions for Props/C13Accepted.lean):
  `Prov ok e` says that every literal of `e` is a token satisfying `ok`, and every identifier of `e` is (built from) an
  identifier token satisfying `ok` — the parser keeps the token's identifier as it is (function names, parameter names,
  lambda variables, a path's root in short paths) or drops its namespace (`pathCons`: path segments after the first one carry
  only the token's `name`; the root of a path with three or more segments is rebuilt as `⟨name, []⟩`).
-/
import ODataVerif.Model.Lexer
import ODataVerif.Model.Parser
namespace OQ.AcceptedProv

/-- the segment name `n` is the `name` of an identifier token satisfying `ok` (its namespace, if any, was dropped) -/
def NameOk (ok : Tok → Prop) (n : Str) : Prop := ∃ ns, ok (.ident ⟨n, ns⟩)

/-- the identifier is a token satisfying `ok`, or such a token with its namespace dropped -/
def IdOk (ok : Tok → Prop) (i : Ident) : Prop := ok (.ident i) ∨ (i.ns = [] ∧ NameOk ok i.name)

mutual
def Prov (ok : Tok → Prop) : Expr → Prop
  | .ident i => IdOk ok i
  | .attr o n => Prov ok o ∧ NameOk ok n
  | .lit k v => ok (.lit k v)
  | .list xs => ProvL ok xs
  | .binop _ l r | .compare _ l r | .boolop _ l r => Prov ok l ∧ Prov ok r
  | .unary _ e => Prov ok e
  | .named n e => ok (.ident n) ∧ Prov ok e
  | .call f args => ok (.ident f) ∧ ProvL ok args
  | .coll o _ l => Prov ok o ∧ ProvLam ok l
def ProvL (ok : Tok → Prop) : Exprs → Prop
  | .nil => True
  | .cons h t => Prov ok h ∧ ProvL ok t
def ProvLam (ok : Tok → Prop) : OptLam → Prop
  | .none => True
  | .some v b => ok (.ident v) ∧ Prov ok b
end

end OQ.AcceptedProv
