/-
  Lemmas/SqliteLike.lean — SQLite's LIKE on the patterns the dialect emits for contains / startswith / endswith
  is the case-insensitive reading `likeCI` of the three functions.
-/
import ODataVerif.Spec.ODataElab
import ODataVerif.Spec.SqlMirror
namespace OQ.SqliteLike
open Spec

/-! ### patItems -/

theorem patItems_cons_ch (e : Option Char) (c : Char) (t : Str) (he : e ≠ some c) (h1 : c ≠ '%')
    (h2 : c ≠ '_') : patItems e (c :: t) = PatItem.ch c :: patItems e t := by
  rw [patItems.eq_def]
  simp [he, h1, h2]

theorem patItems_pct (e : Option Char) (he : e ≠ some '%') (t : Str) :
    patItems e ('%' :: t) = PatItem.any :: patItems e t := by
  rw [patItems.eq_def]
  simp [he]

theorem patItems_esc (e x : Char) (t : Str) :
    patItems (some e) (e :: x :: t) = PatItem.ch x :: patItems (some e) t := by
  rw [patItems.eq_def]
  simp

theorem patItems_likeLit_append (n suf : Str) :
    patItems (some '\\') (likeLit n ++ suf) = n.map PatItem.ch ++ patItems (some '\\') suf := by
  induction n with
  | nil => simp [likeLit]
  | cons c t ih =>
    by_cases hc : (c == '\\' || c == '%' || c == '_') = true
    · simp only [likeLit, hc, if_true, List.cons_append, patItems_esc, ih, List.map_cons]
    · have hc' := hc
      simp at hc'
      have he : (some '\\' : Option Char) ≠ some c := by
        intro h; injection h with h; exact hc'.1.1 h.symm
      simp only [likeLit, hc, List.cons_append, List.map_cons]
      rw [if_neg (by simp), List.cons_append, patItems_cons_ch _ _ _ he hc'.1.2 hc'.2, ih]

/-- no `%` / `_` in `y`: read without escape char, every character is itself -/
theorem patItems_none_plain (y suf : Str) (h : ∀ c ∈ y, c ≠ '%' ∧ c ≠ '_') :
    patItems none (y ++ suf) = y.map PatItem.ch ++ patItems none suf := by
  induction y with
  | nil => simp
  | cons c t ih =>
    have hc := h c (by simp)
    have ht : ∀ d ∈ t, d ≠ '%' ∧ d ≠ '_' := fun d hd => h d (by simp [hd])
    rw [List.cons_append, patItems_cons_ch _ _ _ (by simp) hc.1 hc.2, ih ht]; rfl

theorem length_le_likeLit (n : Str) : n.length ≤ (likeLit n).length := by
  induction n with
  | nil => simp [likeLit]
  | cons c t ih =>
    simp only [likeLit]
    split <;> simp <;> omega

theorem plain_of_likeLit_eq (n : Str) (h : likeLit n = n) :
    ∀ c ∈ n, c ≠ '\\' ∧ c ≠ '%' ∧ c ≠ '_' := by
  induction n with
  | nil => simp
  | cons c t ih =>
    simp only [likeLit] at h
    split at h
    · exfalso
      have := congrArg List.length h
      have := length_le_likeLit t
      simp at *
      omega
    · rename_i hc
      simp at hc
      have ht : likeLit t = t := by simpa using h
      intro d hd
      simp at hd
      rcases hd with rfl | hd
      · exact ⟨hc.1.1, hc.1.2, hc.2⟩
      · exact ih ht d hd

theorem patItems_none_of_likeLit_eq (n suf : Str) (h : likeLit n = n) :
    patItems none (n ++ suf) = n.map PatItem.ch ++ patItems none suf :=
  patItems_none_plain n suf (fun c hc => (plain_of_likeLit_eq n h c hc).2)

theorem patItems_none_noMeta (y suf : Str) (h : hasLikeMeta y = false) :
    patItems none (y ++ suf) = y.map PatItem.ch ++ patItems none suf := by
  apply patItems_none_plain
  intro c hc
  simp [hasLikeMeta] at h
  constructor
  · rintro rfl; exact h.1 hc
  · rintro rfl; exact h.2 hc

/-! ### likeItems -/

theorem likeItems_any_nil (ci : Bool) (s : Str) : likeItems ci [PatItem.any] s = true := by
  induction s with
  | nil => simp [likeItems]
  | cons c t ih => rw [likeItems]; simp [ih]

theorem likeItems_any_iff (p : List PatItem) (h : Str) :
    likeItems true (PatItem.any :: p) h = true ↔
      ∃ k, k ≤ h.length ∧ likeItems true p (h.drop k) = true := by
  induction h with
  | nil =>
    rw [likeItems]
    constructor
    · intro h; exact ⟨0, by simp, by simpa using h⟩
    · rintro ⟨k, _, hk⟩; simpa using hk
  | cons c t ih =>
    rw [likeItems, Bool.or_eq_true, ih]
    constructor
    · rintro (h | ⟨k, hk, h⟩)
      · exact ⟨0, by simp, by simpa using h⟩
      · exact ⟨k + 1, by simp; omega, by simpa using h⟩
    · rintro ⟨k, hk, h⟩
      cases k with
      | zero => left; simpa using h
      | succ k => right; exact ⟨k, by simp at hk; omega, by simpa using h⟩

theorem likeItems_ch_append (n : Str) (p : List PatItem) (h : Str) :
    likeItems true (n.map PatItem.ch ++ p) h = true ↔
      isPrefix (n.map foldA) (h.map foldA) = true ∧ likeItems true p (h.drop n.length) = true := by
  induction n generalizing h with
  | nil => simp [isPrefix]
  | cons a n ih =>
    cases h with
    | nil => simp [likeItems, isPrefix]
    | cons c t =>
      simp only [List.map_cons, List.cons_append, isPrefix, List.length_cons, List.drop_succ_cons]
      rw [likeItems]
      simp only [if_true, Bool.and_eq_true, ih, and_assoc]

theorem isPrefix_iff (a b : Str) : isPrefix a b = true ↔ ∃ t, b = a ++ t := by
  induction a generalizing b with
  | nil => simp [isPrefix]
  | cons x a ih =>
    cases b with
    | nil => simp [isPrefix]
    | cons y b =>
      simp only [isPrefix, Bool.and_eq_true, beq_iff_eq, ih, List.cons_append, List.cons.injEq]
      constructor
      · rintro ⟨rfl, t, rfl⟩; exact ⟨t, rfl, rfl⟩
      · rintro ⟨t, rfl, rfl⟩; exact ⟨rfl, t, rfl⟩

theorem likeItems_ch_exact (n h : Str) :
    likeItems true (n.map PatItem.ch) h = true ↔ h.map foldA = n.map foldA := by
  have := likeItems_ch_append n [] h
  rw [List.append_nil] at this
  rw [this, isPrefix_iff]
  rw [likeItems]
  simp only [List.isEmpty_iff]
  constructor
  · rintro ⟨⟨t, ht⟩, hd⟩
    have hl := congrArg List.length ht
    have hd' := congrArg List.length hd
    simp at hl hd'
    have : t = [] := by
      apply List.eq_nil_of_length_eq_zero; omega
    subst this; simpa using ht
  · intro he
    refine ⟨⟨[], by simpa using he⟩, ?_⟩
    have hl := congrArg List.length he
    simp at hl
    apply List.eq_nil_of_length_eq_zero
    simp; omega

theorem likeItems_startswith (h n : Str) :
    likeItems true (n.map PatItem.ch ++ [PatItem.any]) h = likeCI .startswith h n := by
  rw [Bool.eq_iff_iff, likeItems_ch_append]
  simp [likeItems_any_nil, likeCI, likeSem]

theorem indexOfAux_nonneg_iff (N H : Str) (i : Nat) :
    indexOfAux N H i ≥ 0 ↔ ∃ k, k ≤ H.length ∧ isPrefix N (H.drop k) = true := by
  induction H generalizing i with
  | nil =>
    cases N with
    | nil => simp [indexOfAux, isPrefix]
    | cons a N => simp [indexOfAux, isPrefix]
  | cons c t ih =>
    rw [indexOfAux]
    by_cases hp : isPrefix N (c :: t) = true
    · simp only [hp, if_true]
      constructor
      · intro _; exact ⟨0, by simp, by simpa using hp⟩
      · intro _; omega
    · rw [if_neg hp, ih]
      constructor
      · rintro ⟨k, hk, h⟩; exact ⟨k + 1, by simp; omega, by simpa using h⟩
      · rintro ⟨k, hk, h⟩
        cases k with
        | zero => exact absurd (by simpa using h) hp
        | succ k => exact ⟨k, by simp at hk; omega, by simpa using h⟩

theorem containsStr_iff (H N : Str) :
    containsStr H N = true ↔ ∃ k, k ≤ H.length ∧ isPrefix N (H.drop k) = true := by
  unfold containsStr indexOf
  rw [decide_eq_true_iff]
  exact indexOfAux_nonneg_iff N H 0

theorem likeItems_contains (h n : Str) :
    likeItems true (PatItem.any :: (n.map PatItem.ch ++ [PatItem.any])) h = likeCI .contains h n := by
  rw [Bool.eq_iff_iff, likeItems_any_iff]
  simp only [likeCI, likeSem, containsStr_iff, likeItems_ch_append, likeItems_any_nil, and_true,
    List.length_map, List.map_drop]

theorem endsWith_iff (H N : Str) :
    endsWith H N = true ↔ ∃ k, k ≤ H.length ∧ H.drop k = N := by
  unfold endsWith
  rw [isPrefix_iff]
  constructor
  · rintro ⟨t, ht⟩
    have : H = t.reverse ++ N := by
      have := congrArg List.reverse ht
      simpa using this
    subst this
    exact ⟨t.reverse.length, by simp, by simp⟩
  · rintro ⟨k, hk, rfl⟩
    refine ⟨(H.take k).reverse, ?_⟩
    rw [← List.reverse_append, List.take_append_drop]

theorem likeItems_endswith (h n : Str) :
    likeItems true (PatItem.any :: n.map PatItem.ch) h = likeCI .endswith h n := by
  rw [Bool.eq_iff_iff, likeItems_any_iff]
  simp only [likeCI, likeSem, endsWith_iff, likeItems_ch_exact, List.length_map, List.map_drop]

/-! ### sqliteLike on the emitted patterns -/

def preOf : LikeK → Str | .contains => ['%'] | .startswith => [] | .endswith => ['%']
def sufOf : LikeK → Str | .contains => ['%'] | .startswith => ['%'] | .endswith => []

theorem sqliteLike_lit_esc (k : LikeK) (h n : Str) :
    sqliteLike (preOf k ++ likeLit n ++ sufOf k) h (some '\\') = likeCI k h n := by
  have hne : (some '\\' : Option Char) ≠ some '%' := by decide
  cases k <;>
    simp only [sqliteLike, preOf, sufOf, List.cons_append, List.nil_append,
      patItems_pct _ hne, patItems_likeLit_append, patItems]
  · exact likeItems_contains h n
  · exact likeItems_startswith h n
  · simpa using likeItems_endswith h n

theorem sqliteLike_plain (k : LikeK) (h y : Str) (hy : ∀ c ∈ y, c ≠ '%' ∧ c ≠ '_') :
    sqliteLike (preOf k ++ y ++ sufOf k) h none = likeCI k h y := by
  have hne : (none : Option Char) ≠ some '%' := by decide
  cases k <;>
    simp only [sqliteLike, preOf, sufOf, List.cons_append, List.nil_append,
      patItems_pct _ hne, patItems_none_plain _ _ hy, patItems]
  · exact likeItems_contains h y
  · exact likeItems_startswith h y
  · simpa using likeItems_endswith h y

theorem sqliteLike_lit_noesc (k : LikeK) (h n : Str) (hn : likeLit n = n) :
    sqliteLike (preOf k ++ n ++ sufOf k) h none = likeCI k h n :=
  sqliteLike_plain k h n (fun c hc => (plain_of_likeLit_eq n hn c hc).2)

theorem sqliteLike_computed (k : LikeK) (h y : Str) (hy : hasLikeMeta y = false) :
    sqliteLike (preOf k ++ y ++ sufOf k) h none = likeCI k h y := by
  apply sqliteLike_plain
  intro c hc
  simp [hasLikeMeta] at hy
  constructor
  · rintro rfl; exact hy.1 hc
  · rintro rfl; exact hy.2 hc

end OQ.SqliteLike
