/- Lemmas/LitValue.lean — the `py_val` model reads the well-formed spellings of Spec/LitSpell.lean back (value half of
   Props/C06Value.lean): digits, dates, clocks, offsets, GUIDs, strings, identifiers. -/
import ODataVerif.Model.Lexer
import ODataVerif.Model.PyVal
import ODataVerif.Spec.LitSpell
namespace OQ.LitValue
open OQ.LitSpell
set_option linter.unusedSimpArgs false
set_option linter.unusedVariables false

/-! ### decimal digits -/

theorem digitChar_ind (P : Char → Prop) (h : ∀ k, k < 10 → P (Char.ofNat (48 + k))) (n : Nat) : P (digitChar n) :=
  h _ (Nat.mod_lt _ (by decide))

theorem asciiDigit_digitChar (n : Nat) : asciiDigit? (digitChar n) = some (n % 10) := by
  have : ∀ k, k < 10 → asciiDigit? (Char.ofNat (48 + k)) = some k := by decide
  exact this _ (Nat.mod_lt _ (by decide))

abbrev dstep : Option Nat → Char → Option Nat := fun acc c => match acc, asciiDigit? c with
                                 | some a, some d => some (a * 10 + d)
                                 | _, _ => none

theorem natOfDigits_ne_nil {cs : List Char} (h : cs ≠ []) : natOfDigits cs = cs.foldl dstep (some 0) := by
  cases cs with
  | nil => exact absurd rfl h
  | cons c t => rfl

theorem foldl_pad : ∀ (w n a : Nat), n < 10 ^ w → (pad w n).foldl dstep (some a) = some (a * 10 ^ w + n)
  | 0, n, a, h => by simp at h; simp [pad, h]
  | w + 1, n, a, h => by
      have h1 : n / 10 < 10 ^ w := by
        rw [Nat.div_lt_iff_lt_mul (by decide)]; rw [Nat.pow_succ] at h; exact h
      simp only [pad, List.foldl_append, foldl_pad w (n / 10) a h1, List.foldl_cons, List.foldl_nil, dstep,
        asciiDigit_digitChar]
      rw [Nat.pow_succ]
      congr 1
      have := Nat.div_add_mod n 10
      rw [Nat.add_mul, Nat.mul_assoc]
      omega

theorem pad_ne_nil (w n : Nat) : pad (w + 1) n ≠ [] := by simp [pad]

theorem natOfDigits_pad (w n : Nat) (h : n < 10 ^ (w + 1)) : natOfDigits (pad (w + 1) n) = some n := by
  rw [natOfDigits_ne_nil (pad_ne_nil w n), foldl_pad _ _ _ h]; simp

theorem pad2 (n : Nat) : pad 2 n = [digitChar (n / 10), digitChar n] := rfl
theorem pad4 (n : Nat) : pad 4 n = [digitChar (n / 10 / 10 / 10), digitChar (n / 10 / 10), digitChar (n / 10), digitChar n] := rfl

theorem nod2 {n : Nat} (h : n < 100) : natOfDigits [digitChar (n / 10), digitChar n] = some n :=
  natOfDigits_pad 1 n h
theorem nod4 {n : Nat} (h : n < 10000) :
    natOfDigits [digitChar (n / 10 / 10 / 10), digitChar (n / 10 / 10), digitChar (n / 10), digitChar n] = some n :=
  natOfDigits_pad 3 n h

/-- the first character of a padded number is a digit character -/
theorem pad_head (w n : Nat) : ∃ t, pad (w + 1) n = digitChar (n / 10 ^ w) :: t := by
  induction w generalizing n with
  | zero => exact ⟨[], by simp [pad]⟩
  | succ w ih =>
    obtain ⟨t, ht⟩ := ih (n / 10)
    refine ⟨t ++ [digitChar n], ?_⟩
    rw [pad, ht, Nat.div_div_eq_div_mul, Nat.pow_succ, Nat.mul_comm]; rfl

theorem digitChar_ne_minus (n : Nat) : digitChar n ≠ '-' := digitChar_ind (· ≠ '-') (by decide) n
theorem digitChar_ne_plus (n : Nat) : digitChar n ≠ '+' := digitChar_ind (· ≠ '+') (by decide) n
theorem digitChar_ne_colon (n : Nat) : digitChar n ≠ ':' := digitChar_ind (· ≠ ':') (by decide) n
theorem digitChar_ne_dot (n : Nat) : digitChar n ≠ '.' := digitChar_ind (· ≠ '.') (by decide) n

/-! ### integers -/

theorem pyInt_pad (w n : Nat) (h : n < 10 ^ (w + 1)) : pyInt (pad (w + 1) n) = .ok (.int n) := by
  obtain ⟨t, ht⟩ := pad_head w n
  have h1 := natOfDigits_pad w n h
  rw [ht] at h1 ⊢
  unfold pyInt
  split
  · rename_i heq; simp at heq; exact absurd heq.1 (digitChar_ne_minus _)
  · rename_i heq; simp at heq; exact absurd heq.1 (digitChar_ne_plus _)
  · simp [h1]

theorem monthLen_eq (y m : Nat) : monthLen y m = daysInMonth y m := by
  unfold monthLen daysInMonth leap isLeap
  split <;> simp_all

theorem pyDate_iso (y m d : Nat) (hy : y < 10000) (hm : m < 100) (hd : d < 100) :
    pyDate (isoDate y m d) =
      if 1 ≤ y ∧ 1 ≤ m ∧ m ≤ 12 ∧ 1 ≤ d ∧ d ≤ daysInMonth y m then .ok (.date y m d) else .foreign "ValueError" := by
  simp [isoDate, pad4, pad2, pyDate, nod4 hy, nod2 hm, nod2 hd]

theorem monthLen_le (y m : Nat) : monthLen y m ≤ 31 := by
  unfold monthLen; split <;> try split
  all_goals omega

theorem date_value (y m d : Nat) (h : validDate y m d) : pyVal .date (isoDate y m d) = .ok (.date y m d) := by
  obtain ⟨h1, h2, h3, h4, h5, h6⟩ := h
  have := monthLen_le y m
  simp only [pyVal]
  rw [pyDate_iso y m d (by omega) (by omega) (by omega), if_pos]
  rw [← monthLen_eq]; exact ⟨h1, h3, h4, h5, h6⟩

theorem date_no_value (y m d : Nat) (hy : y ≤ 9999) (hm : m ≤ 99) (hd : d ≤ 99) (h : ¬ validDate y m d) :
    pyVal .date (isoDate y m d) = .foreign "ValueError" := by
  simp only [pyVal]
  rw [pyDate_iso y m d (by omega) (by omega) (by omega), if_neg]
  rw [← monthLen_eq]; intro ⟨h1, h3, h4, h5, h6⟩; exact h ⟨h1, hy, h3, h4, h5, h6⟩

/-! clocks -/
abbrev isD : Char → Bool := fun c => (asciiDigit? c).isSome

theorem isD_digitChar (n : Nat) : isD (digitChar n) = true := by simp [isD, asciiDigit_digitChar]

theorem takeWhile_frac (fs : List Nat) (r : List Char) (hr : ∀ c t, r = c :: t → isD c = false) :
    (fracText fs ++ r).takeWhile isD = fracText fs := by
  induction fs with
  | nil =>
    cases r with
    | nil => rfl
    | cons c t => simp [fracText, List.takeWhile, hr c t rfl]
  | cons d fs ih =>
    simp only [fracText, List.map_cons, List.cons_append, List.takeWhile, isD_digitChar]
    exact congrArg _ ih


theorem asciiDigit_zero : asciiDigit? '0' = some 0 := by decide

theorem microsOf_frac (fs : List Nat) : microsOf (fracText fs) = some (fracMicros fs) := by
  rcases fs with _ | ⟨a, _ | ⟨b, _ | ⟨c, _ | ⟨d, _ | ⟨e, _ | ⟨f, t⟩⟩⟩⟩⟩⟩
  all_goals
    simp [microsOf, fracText, natOfDigits, fracMicros, digitsVal, asciiDigit_digitChar, asciiDigit_zero]
  all_goals omega

/-- what may follow a clock: nothing that continues it -/
def ClockEnd (r : Str) : Prop := ∀ c t, r = c :: t → c ≠ ':' ∧ c ≠ '.' ∧ isD c = false

theorem parseClock_none (h mi : Nat) (r : Str) (hh : h < 100) (hmi : mi < 100) (hr : ClockEnd r) :
    parseClock (pad 2 h ++ ':' :: pad 2 mi ++ r) = some (h, mi, 0, 0, r) := by
  cases r with
  | nil => simp [pad2, parseClock, nod2 hh, nod2 hmi]
  | cons c t =>
    have := (hr c t rfl).1
    simp [pad2, parseClock, nod2 hh, nod2 hmi, this]

theorem parseClock_whole (h mi s : Nat) (r : Str) (hh : h < 100) (hmi : mi < 100) (hs : s < 100) (hr : ClockEnd r) :
    parseClock (pad 2 h ++ ':' :: pad 2 mi ++ ':' :: pad 2 s ++ r) = some (h, mi, s, 0, r) := by
  cases r with
  | nil => simp [pad2, parseClock, nod2 hh, nod2 hmi, nod2 hs]
  | cons c t =>
    have := (hr c t rfl).2.1
    simp [pad2, parseClock, nod2 hh, nod2 hmi, nod2 hs, this]

theorem fracText_length (fs : List Nat) : (fracText fs).length = fs.length := by simp [fracText]

theorem parseClock_frac (h mi s : Nat) (fs : List Nat) (r : Str) (hh : h < 100) (hmi : mi < 100) (hs : s < 100)
    (hfs : fs ≠ []) (hr : ClockEnd r) :
    parseClock (pad 2 h ++ ':' :: pad 2 mi ++ ':' :: pad 2 s ++ '.' :: fracText fs ++ r) = some (h, mi, s, fracMicros fs, r) := by
  have htw := takeWhile_frac fs r (fun c t e => (hr c t e).2.2)
  have hne : fracText fs ≠ [] := by cases fs with | nil => exact absurd rfl hfs | cons a t => simp [fracText]
  simp [pad2, parseClock, nod2 hh, nod2 hmi, nod2 hs]
  have htw2 : List.takeWhile (fun c => (asciiDigit? c).isSome) (fracText fs ++ r) = fracText fs := htw
  simp [htw2, microsOf_frac, hne, fracText_length]


theorem parseClock_text (h mi : Nat) (sc : Secs) (r : Str) (hh : h < 100) (hmi : mi < 100) (hs : sc.ok) (hr : ClockEnd r) :
    parseClock (clockText h mi sc ++ r) = some (h, mi, sc.s, sc.us, r) := by
  cases sc with
  | none => simpa [clockText, Secs.text, Secs.s, Secs.us] using parseClock_none h mi r hh hmi hr
  | whole s =>
    have hs' : s < 100 := by simp [Secs.ok] at hs; omega
    simpa [clockText, Secs.text, Secs.s, Secs.us] using parseClock_whole h mi s r hh hmi hs' hr
  | frac s fs =>
    obtain ⟨h1, h2, h3⟩ := hs
    simpa [clockText, Secs.text, Secs.s, Secs.us] using parseClock_frac h mi s fs r hh hmi (by omega) h2 hr

theorem clockEnd_nil : ClockEnd [] := by intro c t h; cases h

theorem time_value (h mi : Nat) (sc : Secs) (hh : h < 24) (hmi : mi < 60) (hs : sc.ok) :
    pyVal .time (clockText h mi sc) = .ok (.time h mi sc.s sc.us) := by
  have h1 := parseClock_text h mi sc [] (by omega) (by omega) hs clockEnd_nil
  rw [List.append_nil] at h1
  have h2 : sc.s < 60 := by
    cases sc with
    | none => simp [Secs.s]
    | whole s => exact hs
    | frac s fs => exact hs.1
  simp [pyVal, pyTime, h1, hh, hmi, h2]

theorem clockEnd_off (o : Off) : ClockEnd o.text := by
  intro c t h
  cases o with
  | naive => cases h
  | z u => cases u <;> · simp [Off.text] at h; obtain ⟨rfl, _⟩ := h; decide
  | hm neg a b => cases neg <;> · simp [Off.text] at h; obtain ⟨rfl, _⟩ := h; decide

theorem datetime_value (y mo d h mi : Nat) (sep : Char) (sc : Secs) (o : Off) (hd : validDate y mo d)
    (hh : h < 24) (hmi : mi < 60) (hs : sc.ok) (ho : o.ok) :
    pyVal .datetime (dateTimeText y mo d sep h mi sc o) = .ok (.datetime y mo d h mi sc.s sc.us o.minutes) := by
  obtain ⟨h1, h2, h3, h4, h5, h6⟩ := hd
  have hml := monthLen_le y mo
  have hc := parseClock_text h mi sc o.text (by omega) (by omega) hs (clockEnd_off o)
  have hdm : d ≤ daysInMonth y mo := by rw [← monthLen_eq]; exact h6
  have hy : y < 10000 := by omega
  have hmo : mo < 100 := by omega
  have hd' : d < 100 := by omega
  simp only [pyVal, dateTimeText, isoDate, pad4, pad2, List.cons_append, List.nil_append, pyDateTime, nod4 hy, nod2 hmo,
    nod2 hd', hc]
  simp only [h1, h3, h4, h5, hdm, and_self, not_true_eq_false, if_false]
  cases o with
  | naive => simp [Off.text, Off.minutes]
  | z u => cases u <;> simp [Off.text, Off.minutes]
  | hm neg a b =>
    have ha : a < 100 := by have := ho.1; omega
    have hb : b < 100 := by have := ho.2; omega
    cases neg <;> simp [Off.text, Off.minutes, pad2, nod2 ha, nod2 hb]


/-! ### hexadecimal digits, GUIDs -/

theorem hexChar_mod (u : Bool) (n : Nat) : hexChar u n = hexChar u (n % 16) := by simp [hexChar, Nat.mod_mod]

theorem hexChar_ind (P : Char → Prop) (h : ∀ k, k < 16 → ∀ u, P (hexChar u k)) (u : Bool) (n : Nat) : P (hexChar u n) := by
  rw [hexChar_mod]; exact h _ (Nat.mod_lt _ (by decide)) u

theorem hexDigit_hexChar (u : Bool) (n : Nat) : hexDigit? (hexChar u n) = some (n % 16) := by
  have : ∀ k, k < 16 → ∀ u, hexDigit? (hexChar u k) = some k := by decide
  rw [hexChar_mod]; exact this _ (Nat.mod_lt _ (by decide)) u

abbrev hstep : Option Nat → Char → Option Nat := fun acc c => match acc, hexDigit? c with
                         | some a, some d => some (a * 16 + d)
                         | _, _ => none

theorem foldl_hexPad (up : Nat → Bool) : ∀ (w n a : Nat), n < 16 ^ w → (hexPad up w n).foldl hstep (some a) = some (a * 16 ^ w + n)
  | 0, n, a, h => by simp at h; simp [hexPad, h]
  | w + 1, n, a, h => by
      have h1 : n / 16 < 16 ^ w := by
        rw [Nat.div_lt_iff_lt_mul (by decide)]; rw [Nat.pow_succ] at h; exact h
      simp only [hexPad, List.foldl_append, foldl_hexPad up w (n / 16) a h1, List.foldl_cons, List.foldl_nil, hstep,
        hexDigit_hexChar]
      rw [Nat.pow_succ]
      congr 1
      have := Nat.div_add_mod n 16
      rw [Nat.add_mul, Nat.mul_assoc]
      omega

theorem natOfHex_hexPad (up : Nat → Bool) (w n : Nat) (h : n < 16 ^ w) : natOfHex (hexPad up w n) = some n := by
  have := foldl_hexPad up w n 0 h
  rw [Nat.zero_mul, Nat.zero_add] at this
  exact this

theorem hexPad_length (up : Nat → Bool) (w n : Nat) : (hexPad up w n).length = w := by
  induction w generalizing n with
  | zero => rfl
  | succ w ih => simp [hexPad, ih]

theorem hexChar_ne_minus (u : Bool) (n : Nat) : hexChar u n ≠ '-' := hexChar_ind (· ≠ '-') (by decide) u n

theorem hexPad_ne_minus (up : Nat → Bool) (w n : Nat) : ∀ c ∈ hexPad up w n, c ≠ '-' := by
  induction w generalizing n with
  | zero => simp [hexPad]
  | succ w ih =>
    intro c hc
    simp only [hexPad, List.mem_append, List.mem_singleton] at hc
    rcases hc with hc | rfl
    · exact ih _ c hc
    · exact hexChar_ne_minus _ _

theorem filter_guid (h : List Char) (hh : ∀ c ∈ h, c ≠ '-') :
    (h.take 8 ++ '-' :: (h.drop 8).take 4 ++ '-' :: (h.drop 12).take 4 ++ '-' :: (h.drop 16).take 4 ++ '-' :: h.drop 20).filter (· != '-') = h := by
  have hf : ∀ l : List Char, (∀ c ∈ l, c ∈ h) → l.filter (· != '-') = l := by
    intro l hl
    rw [List.filter_eq_self]
    intro c hc
    simpa using hh c (hl c hc)
  simp only [List.filter_append, List.filter_cons]
  rw [hf _ (fun c hc => List.mem_of_mem_take hc),
    hf _ (fun c hc => List.mem_of_mem_drop (List.mem_of_mem_take hc)),
    hf _ (fun c hc => List.mem_of_mem_drop (List.mem_of_mem_take hc)),
    hf _ (fun c hc => List.mem_of_mem_drop (List.mem_of_mem_take hc)),
    hf _ (fun c hc => List.mem_of_mem_drop hc)]
  simp only [bne_self_eq_false, Bool.false_eq_true, if_false]
  have key : ∀ (i j : Nat), h.drop i = (h.drop i).take j ++ h.drop (i + j) := by
    intro i j
    have : h.drop (i + j) = (h.drop i).drop j := by simp
    rw [this, List.take_append_drop]
  simp only [List.append_assoc]
  conv => rhs; rw [← List.take_append_drop 8 h, key 8 4, key 12 4, key 16 4]

theorem guid_value (up : Nat → Bool) (n : Nat) (h : n < 2 ^ 128) : pyVal .guid (guidText up n) = .ok (.guid n) := by
  have h16 : n < 16 ^ 32 := by
    have : (16 : Nat) ^ 32 = 2 ^ 128 := by decide
    omega
  simp only [pyVal, pyGuid, guidText, filter_guid _ (hexPad_ne_minus up 32 n), natOfHex_hexPad up 32 n h16]


theorem bool_value (v : Str) :
    (v.map asciiLower = "true".toList → pyVal .bool v = .ok (.bool true)) ∧
    (v.map asciiLower = "false".toList → pyVal .bool v = .ok (.bool false)) := by
  constructor
  · intro h; simp [pyVal, h]
  · intro h; simp [pyVal, h]

/-! ### strings -/
def esc (s : Str) : Str := s.flatMap (fun c => if c = '\'' then ['\'', '\''] else [c])

theorem quoteText_eq (s : Str) : quoteText s = '\'' :: esc s ++ ['\''] := rfl

theorem strBody_esc (s rest : Str) (hr : ∀ t, rest ≠ '\'' :: t) : strBody (esc s ++ '\'' :: rest) = some (esc s, rest) := by
  induction s with
  | nil =>
    cases rest with
    | nil => simp [esc, strBody]
    | cons c t =>
      have : c ≠ '\'' := by rintro rfl; exact hr t rfl
      simp [esc, strBody, this]
  | cons c s ih =>
    have e : esc (c :: s) = (if c = '\'' then ['\'', '\''] else [c]) ++ esc s := by simp [esc]
    rw [e]
    by_cases hc : c = '\''
    · subst hc; simp [strBody, ih]
    · simp only [hc, if_false, List.cons_append, List.nil_append]
      rw [strBody.eq_def]
      simp [hc, ih]

theorem unescape_esc (s : Str) : unescape (esc s) = s := by
  induction s with
  | nil => simp [esc, unescape]
  | cons c s ih =>
    have e : esc (c :: s) = (if c = '\'' then ['\'', '\''] else [c]) ++ esc s := by simp [esc]
    rw [e]
    by_cases hc : c = '\''
    · subst hc; simp [unescape, ih]
    · simp only [hc, if_false, List.cons_append, List.nil_append]
      rw [unescape.eq_def]
      simp [hc, ih]

theorem scanString_quote (s rest : Str) (hr : ∀ t, rest ≠ '\'' :: t) : scanString (quoteText s ++ rest) = some (s, rest) := by
  simp [quoteText_eq, scanString, strBody_esc s rest hr, unescape_esc]

/-! ### identifiers -/
theorem splitDots_nodot (s : Str) (h : '.' ∉ s) : splitDots s = [s] := by
  induction s with
  | nil => rfl
  | cons c t ih =>
    simp only [List.mem_cons, not_or] at h
    have hc : c ≠ '.' := fun e => h.1 e.symm
    rw [splitDots.eq_def]
    simp [hc, ih h.2]

theorem splitDots_dot (s t : Str) (h : '.' ∉ s) : splitDots (s ++ '.' :: t) = s :: splitDots t := by
  induction s with
  | nil => simp [splitDots]
  | cons c s ih =>
    simp only [List.mem_cons, not_or] at h
    have hc : c ≠ '.' := fun e => h.1 e.symm
    rw [List.cons_append, splitDots.eq_def]
    simp [hc, ih h.2]

theorem splitDots_dotted (segs : List Str) (last : Str) (h : ∀ s ∈ segs ++ [last], '.' ∉ s) :
    splitDots (dotted (segs ++ [last])) = segs ++ [last] := by
  induction segs with
  | nil => simpa [dotted] using splitDots_nodot last (h last (by simp))
  | cons a segs ih =>
    have ha : '.' ∉ a := h a (by simp)
    have ih' := ih (fun s hs => h s (List.mem_cons_of_mem _ hs))
    have e : dotted (a :: segs ++ [last]) = a ++ '.' :: dotted (segs ++ [last]) := by
      cases segs <;> simp [dotted, List.intersperse]
    rw [e, splitDots_dot _ _ ha, ih']; rfl

theorem ident_namespaces (segs : List Str) (last : Str) (h : ∀ s ∈ segs ++ [last], '.' ∉ s) :
    identOfText (dotted (segs ++ [last])) = ⟨last, segs⟩ := by
  simp [identOfText, splitDots_dotted segs last h]


/-! ### durations -/

theorem pad_isD (w n : Nat) : ∀ c ∈ pad w n, isD c = true := by
  induction w generalizing n with
  | zero => simp [pad]
  | succ w ih =>
    intro c hc
    simp only [pad, List.mem_append, List.mem_singleton] at hc
    rcases hc with hc | rfl
    · exact ih _ c hc
    · exact isD_digitChar _

theorem takeWhile_digits (ds : Str) (c : Char) (r : Str) (hds : ∀ x ∈ ds, isD x = true) (hc : isD c = false) :
    (ds ++ c :: r).takeWhile isD = ds := by
  induction ds with
  | nil => simp [List.takeWhile, hc]
  | cons d ds ih =>
    have h1 := hds d (by simp)
    simp only [List.cons_append, List.takeWhile, h1]
    exact congrArg _ (ih (fun x hx => hds x (List.mem_cons_of_mem _ hx)))

theorem durComponent_eq (l : Char) (ds : Str) (c : Char) (r : Str) (hne : ds ≠ []) (hds : ∀ x ∈ ds, isD x = true)
    (hc : isD c = false) :
    durComponent l (ds ++ c :: r) = if c == l then (natOfDigits ds, r) else (none, ds ++ c :: r) := by
  have htw : List.takeWhile (fun c => (asciiDigit? c).isSome) (ds ++ c :: r) = ds := takeWhile_digits ds c r hds hc
  unfold durComponent
  simp only [htw, List.drop_left]

/-- `cs` does not begin with a `<digits>l` component -/
def NotComp (l : Char) (cs : Str) : Prop := durComponent l cs = (none, cs)

theorem notComp_nil (l : Char) : NotComp l [] := by simp [NotComp, durComponent]

theorem notComp_cons (l c : Char) (t : Str) (hc : isD c = false) : NotComp l (c :: t) := by
  have hc' : (asciiDigit? c).isSome = false := hc
  simp [NotComp, durComponent, List.takeWhile, hc']

theorem notComp_digits (l : Char) (ds : Str) (c : Char) (r : Str) (hds : ∀ x ∈ ds, isD x = true)
    (hc : isD c = false) (hcl : c ≠ l) : NotComp l (ds ++ c :: r) := by
  cases ds with
  | nil => exact notComp_cons l c r hc
  | cons d ds =>
    unfold NotComp
    rw [durComponent_eq l (d :: ds) c r (by simp) hds hc]
    simp [hcl]

theorem notComp_comp (l l' : Char) (c : Option (Nat × Nat)) (r : Str) (hne : l' ≠ l) (hl' : isD l' = false)
    (hr : NotComp l r) : NotComp l (compText l' c ++ r) := by
  cases c with
  | none => simpa [compText] using hr
  | some p =>
    obtain ⟨w, n⟩ := p
    simp only [compText, List.append_assoc, List.singleton_append]
    exact notComp_digits l _ l' r (pad_isD _ _) hl' hne

theorem durComponent_comp (l : Char) (hl : isD l = false) (c : Option (Nat × Nat)) (hc : compOk c) (r : Str)
    (hr : NotComp l r) : durComponent l (compText l c ++ r) = (c.map Prod.snd, r) := by
  cases c with
  | none => simpa [compText, NotComp] using hr
  | some p =>
    obtain ⟨w, n⟩ := p
    simp only [compText, List.append_assoc, List.singleton_append]
    rw [durComponent_eq l _ l r (pad_ne_nil w n) (pad_isD _ _) hl]
    simp [natOfDigits_pad w n hc]

theorem getD_comp (c : Option (Nat × Nat)) : (c.map Prod.snd).getD 0 = compVal c := by
  cases c <;> rfl


theorem isD_S : isD 'S' = false := by decide
theorem isD_dot : isD '.' = false := by decide

theorem durSeconds_text (s : DSecs) (hs : s.ok) :
    durSecondsMicros s.text = some ((match s with | .none => none | _ => some s.micros), []) := by
  cases s with
  | none => simp [DSecs.text, durSecondsMicros]
  | whole w n =>
    have htw : List.takeWhile (fun c => (asciiDigit? c).isSome) (pad (w + 1) n ++ ['S']) = pad (w + 1) n :=
      takeWhile_digits _ 'S' [] (pad_isD _ _) isD_S
    obtain ⟨t, ht⟩ := pad_head w n
    have hn := natOfDigits_pad w n hs
    unfold durSecondsMicros
    simp only [DSecs.text, htw, List.drop_left]
    rw [ht] at hn ⊢
    simp [hn, DSecs.micros]
  | frac w n fs =>
    obtain ⟨h1, h2, h3, h4⟩ := hs
    have htw : List.takeWhile (fun c => (asciiDigit? c).isSome) (pad (w + 1) n ++ '.' :: (fracText fs ++ ['S'])) = pad (w + 1) n :=
      takeWhile_digits _ '.' _ (pad_isD _ _) isD_dot
    have htw2 : List.takeWhile (fun c => (asciiDigit? c).isSome) (fracText fs ++ ['S']) = fracText fs :=
      takeWhile_frac fs ['S'] (by intro c t h; simp at h; rw [← h.1]; exact isD_S)
    have hne : fracText fs ≠ [] := by cases fs with | nil => exact absurd rfl h2 | cons a t => simp [fracText]
    obtain ⟨t, ht⟩ := pad_head w n
    have hn := natOfDigits_pad w n h1
    unfold durSecondsMicros
    simp only [DSecs.text, List.append_assoc, List.cons_append, htw, List.drop_left]
    rw [ht] at hn ⊢
    simp [htw2, hn, microsOf_frac, fracText_length, hne, DSecs.micros]
    omega


def tpText (tp : Option (Option (Nat × Nat) × Option (Nat × Nat) × DSecs)) : Str :=
  match tp with
  | none => []
  | some (h, mi, s) => 'T' :: (compText 'H' h ++ (compText 'M' mi ++ s.text))

theorem durText_eq (sg : Sign) (y mo d : Option (Nat × Nat)) (tp : Option (Option (Nat × Nat) × Option (Nat × Nat) × DSecs)) :
    durText sg y mo d tp = sg.text ++ 'P' :: (compText 'Y' y ++ (compText 'M' mo ++ (compText 'D' d ++ tpText tp))) := by
  rcases tp with _ | ⟨h, mi, s⟩ <;> simp [durText, tpText, List.append_assoc]

theorem notComp_tp (l : Char) (tp) : NotComp l (tpText tp) := by
  rcases tp with _ | ⟨h, mi, s⟩
  · exact notComp_nil l
  · exact notComp_cons l 'T' _ (by decide)

theorem notComp_secs (l : Char) (hl : l ≠ 'S') (hl2 : l ≠ '.') (s : DSecs) : NotComp l s.text := by
  cases s with
  | none => exact notComp_nil l
  | whole w n => exact notComp_digits l _ 'S' [] (pad_isD _ _) isD_S (Ne.symm hl)
  | frac w n fs =>
    simp only [DSecs.text, List.append_assoc, List.cons_append]
    exact notComp_digits l _ '.' _ (pad_isD _ _) isD_dot (Ne.symm hl2)

/-- the part of `pyDuration` after the sign -/
theorem pyDuration_body (neg : Bool) (y mo d : Option (Nat × Nat)) (tp : Option (Option (Nat × Nat) × Option (Nat × Nat) × DSecs))
    (hy : compOk y) (hmo : compOk mo) (hd : compOk d)
    (ht : ∀ h mi s, tp = some (h, mi, s) → compOk h ∧ compOk mi ∧ s.ok) :
    (let (y, r) := durComponent 'Y' (compText 'Y' y ++ (compText 'M' mo ++ (compText 'D' d ++ tpText tp)))
      let (mo, r) := durComponent 'M' r
      let (d, r) := durComponent 'D' r
      let res : Option (Nat × Nat × Option Nat × List Char) :=
        match r with
        | 'T' :: t =>
            let (h, t) := durComponent 'H' t
            let (mi, t) := durComponent 'M' t
            (match durSecondsMicros t with
             | some (s, t') => some (h.getD 0, mi.getD 0, s, t')
             | none => none)
        | t => some (0, 0, some 0, t)
      (match res with
       | some (h, mi, s, []) =>
           let secs : Nat := d.getD 0 * 86400 + y.getD 0 * 31557600 + mo.getD 0 * 2630016 + h * 3600 + mi * 60
           let us : Nat := secs * 1000000 + s.getD 0
           Outcome.ok (PyValue.duration (if neg then -(us : Int) else us))
       | some _ => .foreign "ValueError"
       | none => .ok .unmodelled)) =
    .ok (.duration (let secs : Nat := compVal y * 31557600 + compVal mo * 2630016 + compVal d * 86400 +
            (match tp with
             | none => 0
             | some (h, mi, _) => compVal h * 3600 + compVal mi * 60)
          let us : Nat := secs * 1000000 + (match tp with | none => 0 | some (_, _, s) => s.micros)
          if neg then -(us : Int) else us)) := by
  have e1 := durComponent_comp 'Y' (by decide) y hy (compText 'M' mo ++ (compText 'D' d ++ tpText tp))
    (notComp_comp _ _ _ _ (by decide) (by decide) (notComp_comp _ _ _ _ (by decide) (by decide) (notComp_tp _ _)))
  have e2 := durComponent_comp 'M' (by decide) mo hmo (compText 'D' d ++ tpText tp)
    (notComp_comp _ _ _ _ (by decide) (by decide) (notComp_tp _ _))
  have e3 := durComponent_comp 'D' (by decide) d hd (tpText tp) (notComp_tp _ _)
  simp only [e1, e2, e3, getD_comp]
  rcases tp with _ | ⟨h, mi, s⟩
  · simp only [tpText, Option.getD_some]
    refine congrArg (fun k : Nat => Outcome.ok (PyValue.duration (if neg = true then -(k:Int) else k))) ?_
    omega
  · obtain ⟨hh, hmi, hs⟩ := ht h mi s rfl
    have e4 := durComponent_comp 'H' (by decide) h hh (compText 'M' mi ++ s.text)
      (notComp_comp _ _ _ _ (by decide) (by decide) (notComp_secs _ (by decide) (by decide) s))
    have e5 := durComponent_comp 'M' (by decide) mi hmi s.text (notComp_secs _ (by decide) (by decide) s)
    simp only [tpText, e4, e5, durSeconds_text s hs, getD_comp]
    refine congrArg (fun k : Nat => Outcome.ok (PyValue.duration (if neg = true then -(k:Int) else k))) ?_
    cases s <;> simp only [Option.getD_some, Option.getD_none, DSecs.micros] <;> omega


theorem duration_value (sg : Sign) (y mo d : Option (Nat × Nat)) (tp : Option (Option (Nat × Nat) × Option (Nat × Nat) × DSecs))
    (hy : compOk y) (hmo : compOk mo) (hd : compOk d)
    (ht : ∀ h mi s, tp = some (h, mi, s) → compOk h ∧ compOk mi ∧ s.ok) :
    pyVal .duration (durText sg y mo d tp) = .ok (.duration (durMicros sg y mo d tp)) := by
  rw [durText_eq]
  cases sg
  · simp only [pyVal, pyDuration, Sign.text, List.nil_append]
    exact pyDuration_body false y mo d tp hy hmo hd ht
  · simp only [pyVal, pyDuration, Sign.text, List.cons_append, List.nil_append]
    exact pyDuration_body false y mo d tp hy hmo hd ht
  · simp only [pyVal, pyDuration, Sign.text, List.cons_append, List.nil_append]
    exact pyDuration_body true y mo d tp hy hmo hd ht

end OQ.LitValue
