/-
  Lemmas/AcceptedLex5.lean — identifiers: the text of an ASCII dotted identifier that is not a keyword literal lexes, alone, to
  the identifier token (`lexOne_ident_of`, adapted from the forward lemma of Lemmas/LitLex.lean); what `scanIdent` returns has
  that shape (`scanIdent_shape`); `splitDots` / `spellIdent`.
-/
import ODataVerif.Lemmas.AcceptedLex4
namespace OQ.AcceptedLex
open OQ.LexRender OQ.Spec OQ.CaseMap
set_option linter.unusedSimpArgs false
set_option linter.unusedVariables false

/-! ### ASCII word characters -/
def isStartA (c : Char) : Bool := c == '_' || ('a' ≤ c && c ≤ 'z') || ('A' ≤ c && c ≤ 'Z')
def isWordA (c : Char) : Bool := isStartA c || ('0' ≤ c && c ≤ '9')

theorem wordA_ascii (c : Char) (h : isWordA c = true) : isAscii c = true := by
  simp only [isWordA, isStartA, Bool.or_eq_true, Bool.and_eq_true, decide_eq_true_eq, beq_iff_eq, le_char_iff] at h
  simp only [LexImage.isAscii, decide_eq_true_eq]
  have h1 : 'z'.toNat = 122 := rfl
  have h2 : 'Z'.toNat = 90 := rfl
  have h3 : '9'.toNat = 57 := rfl
  rcases h with (((rfl | h) | h) | h)
  · decide
  all_goals omega

/-- what the rules ask about an ASCII word character -/
def wordFacts (c : Char) : Bool :=
  E.isWord c && !E.isSpace c && c != '\'' && c != '-' && c != '.' && c != '+'

theorem wordA_facts (c : Char) (h : isWordA c = true) : wordFacts c = true := by
  have := LexImage.ascii_forall (fun c => !isWordA c || wordFacts c) (by decide +kernel) c (wordA_ascii c h)
  simpa [h] using this

def startFacts (c : Char) : Bool :=
  isIdentStart E c && !E.isDigit c && !inCharRange '0' '1' c && c != '2' && isWordA c

theorem startA_facts (c : Char) (h : isStartA c = true) : startFacts c = true := by
  have hw : isWordA c = true := by simp [isWordA, h]
  have := LexImage.ascii_forall (fun c => !isStartA c || startFacts c) (by decide +kernel) c (wordA_ascii c hw)
  simpa [h] using this

/-- on ASCII characters the lexer's classes are the ASCII ones -/
theorem word_ascii (c : Char) (hc : isAscii c = true) : E.isWord c = isWordA c := by
  have := LexImage.ascii_forall (fun c => E.isWord c == isWordA c) (by decide +kernel) c hc
  simpa using this
theorem start_ascii (c : Char) (hc : isAscii c = true) : isIdentStart E c = isStartA c := by
  have := LexImage.ascii_forall (fun c => isIdentStart E c == isStartA c) (by decide +kernel) c hc
  simpa using this
/-- an ASCII word character is a start character or a digit -/
theorem wordA_cases (c : Char) (h : isWordA c = true) : isStartA c = true ∨ E.isDigit c = true := by
  have := LexImage.ascii_forall (fun c => !isWordA c || isStartA c || E.isDigit c) (by decide +kernel) c (wordA_ascii c h)
  simpa [h] using this

/-- `x` matches the pattern letter `p` only if it is that letter in one of the two ASCII cases -/
def ciLow (p : Char) : Bool := (List.range 128).all fun n => !ciChar E p (Char.ofNat n) || asciiLower (Char.ofNat n) == p

theorem ciLow_spec {p x : Char} (hp : ciLow p = true) (hx : isAscii x = true) (h : ciChar E p x = true) : asciiLower x = p := by
  have := LexImage.ascii_forall (fun x => !ciChar E p x || asciiLower x == p)
    (by intro n hn; simp only [ciLow, List.all_eq_true, List.mem_range] at hp; exact hp n hn) x hx
  simpa [h] using this

/-- conversely: a character whose lower-case form is the pattern letter matches it -/
def ciUp (p : Char) : Bool := (List.range 128).all fun n => !(asciiLower (Char.ofNat n) == p) || ciChar E p (Char.ofNat n)

theorem ciUp_spec {p x : Char} (hp : ciUp p = true) (hx : isAscii x = true) (h : asciiLower x = p) : ciChar E p x = true := by
  have := LexImage.ascii_forall (fun x => !(asciiLower x == p) || ciChar E p x)
    (by intro n hn; simp only [ciUp, List.all_eq_true, List.mem_range] at hp; exact hp n hn) x hx
  simpa [h] using this

theorem kw_lower : ∀ (w s m r : Str), w.all ciLow = true → s.all isAscii = true → kw E w s = some (m, r) →
    m.map asciiLower = w ∧ s = m ++ r
  | [], s, m, r, _, _, h => by simp [kw] at h; obtain ⟨rfl, rfl⟩ := h; simp
  | p :: w, [], m, r, _, _, h => by simp [kw] at h
  | p :: w, c :: s, m, r, hw, hs, h => by
    simp only [List.all_cons, Bool.and_eq_true] at hw hs
    simp only [kw] at h
    split at h
    · rename_i hc
      cases hk : kw E w s with
      | none => simp [hk] at h
      | some y =>
        obtain ⟨m', r'⟩ := y
        simp [hk] at h
        obtain ⟨rfl, rfl⟩ := h
        obtain ⟨e1, e2⟩ := kw_lower w s m' r' hw.2 hs.2 hk
        exact ⟨by simp [ciLow_spec hw.1 hs.1 hc, e1], by simp [e2]⟩
    · simp at h

theorem kw_of_lower : ∀ (w m r : Str), w.all ciUp = true → m.all isAscii = true → m.map asciiLower = w →
    kw E w (m ++ r) = some (m, r)
  | [], m, r, _, _, h => by
    have : m = [] := by simpa using h
    subst this; rfl
  | p :: w, [], r, _, _, h => by simp at h
  | p :: w, c :: m, r, hw, hm, h => by
    simp only [List.all_cons, Bool.and_eq_true] at hw hm
    simp only [List.map_cons, List.cons.injEq] at h
    simp only [List.cons_append, kw, ciUp_spec hw.1 hm.1 h.1, if_true, kw_of_lower w m r hw.2 hm.2 h.2]

/-! ### the tail of a dotted identifier -/
/-- as `identTail` reads it: word characters, each dot followed by a word character -/
def Tail : Str → Prop
  | [] => True
  | '.' :: c :: t => isWordA c = true ∧ Tail t
  | c :: t => isWordA c = true ∧ Tail t

theorem word_ne_dot {c : Char} (h : isWordA c = true) : c ≠ '.' := by
  rintro rfl; simp [isWordA, isStartA] at h

theorem tail_word {c : Char} {t : Str} (hc : isWordA c = true) : Tail (c :: t) ↔ Tail t := by
  have hne : c ≠ '.' := word_ne_dot hc
  rw [Tail.eq_def]
  split
  · rename_i heq; cases heq
  · rename_i heq; simp at heq; exact absurd heq.1 hne
  · rename_i heq; simp at heq; obtain ⟨rfl, rfl⟩ := heq; simp [hc]

theorem tail_dot_nil : ¬ Tail ['.'] := by
  simp [Tail, isWordA, isStartA]

theorem tail_dot {c : Char} {t : Str} : Tail ('.' :: c :: t) ↔ isWordA c = true ∧ Tail t := by
  simp [Tail]

/-- a non-dot head of a `Tail` is a word character -/
theorem tail_head {c : Char} {t : Str} (hc : c ≠ '.') (ht : Tail (c :: t)) : isWordA c = true := by
  rw [Tail.eq_def] at ht
  split at ht
  · rename_i heq; cases heq
  · rename_i heq; simp at heq; exact absurd heq.1 hc
  · rename_i heq; simp at heq; obtain ⟨rfl, rfl⟩ := heq; exact ht.1

theorem tail_app {s r : Str} (hs : s.all isWordA = true) : Tail (s ++ r) ↔ Tail r := by
  induction s with
  | nil => simp
  | cons c s ih =>
    simp only [List.all_cons, Bool.and_eq_true] at hs
    rw [List.cons_append, tail_word hs.1, ih hs.2]

/-- the characters of a `Tail` are word characters and dots; it does not end with a dot -/
theorem tail_chars : ∀ (k : Nat) (t : Str), t.length ≤ k → Tail t →
    (∀ x ∈ t, isWordA x = true ∨ x = '.') ∧ t.getLast? ≠ some '.' := by
  intro k
  induction k with
  | zero =>
    intro t hl _
    have : t = [] := List.length_eq_zero_iff.1 (by omega)
    subst this; simp
  | succ k ih =>
    intro t hl ht
    cases t with
    | nil => simp
    | cons c t =>
      by_cases hc : c = '.'
      · subst hc
        cases t with
        | nil => exact absurd ht tail_dot_nil
        | cons c t =>
          obtain ⟨hw, ht'⟩ := tail_dot.1 ht
          obtain ⟨h1, h2⟩ := ih t (by simp at hl; omega) ht'
          refine ⟨?_, ?_⟩
          · intro x hx
            simp only [List.mem_cons] at hx
            rcases hx with rfl | rfl | hx
            · exact Or.inr rfl
            · exact Or.inl hw
            · exact h1 x hx
          · cases t with
            | nil => simpa using word_ne_dot hw
            | cons d t' => simpa [List.getLast?_cons_cons] using h2
      · have hw := tail_head hc ht
        have ht' := (tail_word hw).1 ht
        obtain ⟨h1, h2⟩ := ih t (by simp at hl; omega) ht'
        refine ⟨?_, ?_⟩
        · intro x hx
          rcases List.mem_cons.1 hx with rfl | hx
          · exact Or.inl hw
          · exact h1 x hx
        · cases t with
          | nil => simpa using hc
          | cons d t' => simpa [List.getLast?_cons_cons] using h2

/-- the number of identifier characters (dots are free) -/
def nd (t : Str) : Nat := (t.filter (· != '.')).length

theorem identTail_full : ∀ (k : Nat) (t : Str) (n : Nat), t.length ≤ k → Tail t → nd t ≤ n → identTail E n t = (t, []) := by
  intro k
  induction k with
  | zero =>
    intro t n hl _ _
    have : t = [] := List.length_eq_zero_iff.1 (by omega)
    subst this; cases n <;> rfl
  | succ k ih =>
    intro t n hl ht hn
    cases t with
    | nil => cases n <;> rfl
    | cons c t =>
      by_cases hc : c = '.'
      · subst hc
        cases t with
        | nil => exact absurd ht tail_dot_nil
        | cons c t =>
          obtain ⟨hw, ht'⟩ := tail_dot.1 ht
          have hf := wordA_facts c hw
          simp only [wordFacts, Bool.and_eq_true, Bool.not_eq_true', bne_iff_ne, ne_eq] at hf
          have hcd : c ≠ '.' := hf.1.2
          have hn' : nd t + 1 ≤ n := by simpa [nd, List.filter_cons, hcd] using hn
          obtain ⟨n', rfl⟩ : ∃ n', n = n' + 1 := ⟨n - 1, by omega⟩
          have := ih t n' (by simp at hl; omega) ht' (by omega)
          simp [identTail, hf.1.1.1.1.1, this]
      · have hw : isWordA c = true := tail_head hc ht
        have ht' := (tail_word hw).1 ht
        have hf := wordA_facts c hw
        simp only [wordFacts, Bool.and_eq_true, Bool.not_eq_true', bne_iff_ne, ne_eq] at hf
        have hn' : nd t + 1 ≤ n := by simpa [nd, List.filter_cons, hc] using hn
        obtain ⟨n', rfl⟩ : ∃ n', n = n' + 1 := ⟨n - 1, by omega⟩
        have := ih t n' (by simp at hl; omega) ht' (by omega)
        rw [identTail.eq_def]
        simp [hc, hf.1.1.1.1.1, this]

/-! ### the text of an identifier: a start character and a tail with at most 127 identifier characters -/
structure IdText (c : Char) (t0 : Str) : Prop where
  start : isStartA c = true
  tail : Tail t0
  nd : nd t0 ≤ 127

section identRules
variable {c : Char} {t0 : Str} (hX : IdText c t0)
include hX

theorem idText_word : isWordA c = true := by simp [isWordA, hX.start]

theorem idText_chars : ∀ x ∈ c :: t0, isWordA x = true ∨ x = '.' := by
  intro x hx
  rcases List.mem_cons.1 hx with rfl | hx
  · exact Or.inl (idText_word hX)
  · exact (tail_chars _ t0 (Nat.le_refl _) hX.tail).1 x hx

theorem idText_tail : Tail (c :: t0) := (tail_word (idText_word hX)).2 hX.tail

theorem idText_facts : ∀ x ∈ c :: t0, E.isSpace x = false ∧ x ≠ '\'' ∧ x ≠ '-' ∧ isAscii x = true := by
  intro x hx
  rcases idText_chars hX x hx with h | rfl
  · have hf := wordA_facts x h
    simp only [wordFacts, Bool.and_eq_true, Bool.not_eq_true', bne_iff_ne, ne_eq] at hf
    exact ⟨hf.1.1.1.1.2, hf.1.1.1.2, hf.1.1.2, wordA_ascii x h⟩
  · exact ⟨by decide +kernel, by decide, by decide, by decide⟩

theorem idText_ascii : (c :: t0).all isAscii = true := by
  rw [List.all_eq_true]; exact fun x hx => (idText_facts hX x hx).2.2.2

theorem idText_noq : '\'' ∉ c :: t0 := fun h => (idText_facts hX _ h).2.1 rfl

theorem ident_scanGuid : scanGuid E (c :: t0) = none := by
  apply LitLex.scanGuid_nominus
  rw [List.all_eq_true]
  intro x hx
  simpa using (idText_facts hX x hx).2.2.1

/-- a keyword match inside an identifier text is followed by nothing or by a non-space character -/
theorem ident_kw_rest {w m r : Str} (hk : kw E w (c :: t0) = some (m, r)) :
    r = [] ∨ ∃ x t, r = x :: t ∧ E.isSpace x = false := by
  have hdec := LexImage.kw_decomp E _ _ _ _ hk
  cases r with
  | nil => exact Or.inl rfl
  | cons x t => exact Or.inr ⟨x, t, rfl, (idText_facts hX x (by rw [hdec]; simp)).1⟩

theorem ident_scanNot : scanNot E (c :: t0) = none := by
  cases hk : kw E "not".toList (c :: t0) with
  | none => simp only [scanNot, hk]; rfl
  | some y =>
    obtain ⟨m, r⟩ := y
    rcases ident_kw_rest hX hk with rfl | ⟨x, t, rfl, hx⟩
    · simp only [scanNot, hk]; rfl
    · simp only [scanNot, hk, Option.bind_eq_bind, Option.bind_some, span1_head hx]; rfl

theorem ident_scanWord (w : Str) (hw : w.all ciLow = true) (hdot : '.' ∉ w) (hres : (c :: t0).map asciiLower ≠ w) :
    scanWord E w (c :: t0) = none := by
  cases hk : kw E w (c :: t0) with
  | none => simp [scanWord, hk]
  | some y =>
    obtain ⟨m, r⟩ := y
    obtain ⟨hm, hdec⟩ := kw_lower w (c :: t0) m r hw (idText_ascii hX) hk
    have hmw : m.all isWordA = true := by
      rw [List.all_eq_true]
      intro x hx
      rcases idText_chars hX x (by rw [hdec]; exact List.mem_append_left _ hx) with h | rfl
      · exact h
      · exfalso; apply hdot; rw [← hm]
        exact List.mem_map.2 ⟨'.', hx, by decide⟩
    have ht : Tail r := by have := idText_tail hX; rwa [hdec, tail_app hmw] at this
    have hcont : notIdentCont E r = false := by
      cases r with
      | nil => exfalso; apply hres; rw [hdec]; simpa using hm
      | cons c1 t =>
        by_cases hc : c1 = '.'
        · subst hc
          cases t with
          | nil => exact absurd ht tail_dot_nil
          | cons c2 t2 =>
            have hf := wordA_facts c2 (tail_dot.1 ht).1
            simp only [wordFacts, Bool.and_eq_true] at hf
            simp [notIdentCont, hf.1.1.1.1.1]
        · have hw' : isWordA c1 = true := tail_head hc ht
          have hf := wordA_facts c1 hw'
          simp only [wordFacts, Bool.and_eq_true] at hf
          rw [notIdentCont.eq_def]
          simp [hc, hf.1.1.1.1.1]
    simp [scanWord, hk, hcont]

end identRules

/-- the words that are literals / collection operators on their own, in any letter case -/
def litWords : List Str := ["true".toList, "false".toList, "null".toList, "any".toList, "all".toList]
def notLitWord (s : Str) : Prop := s.map asciiLower ∉ litWords

theorem litWord_ne {X : Str} (h : notLitWord X) (w : Str) (hw : w ∈ litWords) : X.map asciiLower ≠ w := by
  intro e; exact h (e ▸ hw)

/-- FORWARD LEMMA: a well-formed identifier text that is not a keyword literal lexes, alone, to its identifier token -/
theorem lexOne_ident_of (c : Char) (t0 : Str) (hX : IdText c t0) (hres : notLitWord (c :: t0)) :
    lexOne E (c :: t0) = some (.ident (identOfText (c :: t0)), []) := by
  have hs := startA_facts c hX.start
  simp only [startFacts, Bool.and_eq_true, Bool.not_eq_true', bne_iff_ne, ne_eq] at hs
  obtain ⟨⟨⟨⟨hstart, hdig⟩, h01⟩, h2⟩, hword⟩ := hs
  have hf := wordA_facts c hword
  simp only [wordFacts, Bool.and_eq_true, Bool.not_eq_true', bne_iff_ne, ne_eq] at hf
  obtain ⟨⟨⟨⟨⟨hw, hsp⟩, hq⟩, hm⟩, hdot⟩, hp⟩ := hf
  have r1 := scanDuration_noq (idText_noq hX)
  have r2 : scanString (c :: t0) = none := scanString_head hq
  have r3 := scanGeography_noq (idText_noq hX)
  have r4 := ident_scanGuid hX
  have r5 : scanDateTime E (c :: t0) = none := scanDateTime_head hdig
  have r6 : scanDatePart E (c :: t0) = none := scanDatePart_head hdig
  have r7 : scanTime E (c :: t0) = none := scanTime_head h01 h2
  have r8 : scanDecimal E (c :: t0) = none := scanDecimal_head hp hm hdig
  have r9 : scanInteger E (c :: t0) = none := scanInteger_head hp hm hdig
  have w1 := ident_scanWord hX "true".toList (by decide +kernel) (by decide) (litWord_ne hres _ (by decide))
  have w2 := ident_scanWord hX "false".toList (by decide +kernel) (by decide) (litWord_ne hres _ (by decide))
  have w3 := ident_scanWord hX "null".toList (by decide +kernel) (by decide) (litWord_ne hres _ (by decide))
  have w4 := ident_scanWord hX "any".toList (by decide +kernel) (by decide) (litWord_ne hres _ (by decide))
  have w5 := ident_scanWord hX "all".toList (by decide +kernel) (by decide) (litWord_ne hres _ (by decide))
  have rn := ident_scanNot hX
  have hop : ∀ w, scanOp E w (c :: t0) = none := fun w => scanOp_head hsp
  have htail : identTail E 127 t0 = (t0, []) := identTail_full _ t0 127 (Nat.le_refl _) hX.tail hX.nd
  have hid : scanIdent E (c :: t0) = some (identOfText (c :: t0), []) := by
    simp [scanIdent, hstart, htail]
  rw [lexOne_eq]
  simp only [rules, litRules, restRules, List.cons_append, List.nil_append, firstSome, rLit, rBool, rNull, rOp, rKw, rIdent,
    r1, r2, r3, r4, r5, r6, r7, r8, r9, w1, w2, w3, w4, w5, rn, hop, hid, Option.map_none, Option.map_some, rMinus_cons, hm, if_false]

/-! ### `splitDots`, `identOfText`, `spellIdent` -/
theorem splitDots_ne_nil : ∀ s : Str, splitDots s ≠ []
  | [] => by simp [splitDots]
  | c :: t => by
    by_cases hc : c = '.'
    · subst hc; simp [splitDots]
    · rw [splitDots.eq_def]
      split
      · rename_i heq; cases heq
      · rename_i heq; simp at heq; exact absurd heq.1 hc
      · split <;> simp

theorem splitDots_dot (t : Str) : splitDots ('.' :: t) = [] :: splitDots t := by simp [splitDots]

theorem splitDots_cons {c : Char} (hc : c ≠ '.') (t : Str) :
    ∃ h r, splitDots t = h :: r ∧ splitDots (c :: t) = (c :: h) :: r := by
  cases hs : splitDots t with
  | nil => exact absurd hs (splitDots_ne_nil t)
  | cons h r =>
    refine ⟨h, r, rfl, ?_⟩
    rw [splitDots.eq_def]
    split
    · rename_i heq; cases heq
    · rename_i heq; simp at heq; exact absurd heq.1 hc
    · rename_i heq
      simp only [List.cons.injEq] at heq
      obtain ⟨rfl, rfl⟩ := heq
      rw [hs]

theorem joinDotsS_cons2 (x y : Str) (r : List Str) :
    spellIdent.joinDotsS (x :: y :: r) = x ++ '.' :: spellIdent.joinDotsS (y :: r) := by
  simp [spellIdent.joinDotsS]

theorem joinDotsS_consc (c : Char) (h : Str) (r : List Str) :
    spellIdent.joinDotsS ((c :: h) :: r) = c :: spellIdent.joinDotsS (h :: r) := by
  cases r with
  | nil => simp [spellIdent.joinDotsS]
  | cons y r => simp [joinDotsS_cons2]

theorem joinDotsS_splitDots : ∀ s : Str, spellIdent.joinDotsS (splitDots s) = s
  | [] => by simp [splitDots, spellIdent.joinDotsS]
  | c :: t => by
    by_cases hc : c = '.'
    · subst hc
      rw [splitDots_dot]
      cases hs : splitDots t with
      | nil => exact absurd hs (splitDots_ne_nil t)
      | cons h r =>
        rw [joinDotsS_cons2, ← hs, joinDotsS_splitDots t]; rfl
    · obtain ⟨h, r, e1, e2⟩ := splitDots_cons hc t
      rw [e2, joinDotsS_consc, ← e1, joinDotsS_splitDots t]

theorem dropLast_getLast (L : List Str) (h : L ≠ []) : L.dropLast ++ [L.getLast?.getD []] = L := by
  rw [List.getLast?_eq_some_getLast h]
  simp [List.dropLast_concat_getLast]

theorem spellIdent_identOfText (s : Str) : spellIdent (identOfText s) = s := by
  simp only [spellIdent, identOfText]
  rw [dropLast_getLast _ (splitDots_ne_nil s), joinDotsS_splitDots]

theorem splitDots_nodot : ∀ s : Str, '.' ∉ s → splitDots s = [s]
  | [], _ => rfl
  | c :: t, h => by
    have hc : c ≠ '.' := fun e => h (e ▸ List.mem_cons_self)
    obtain ⟨h', r, e1, e2⟩ := splitDots_cons hc t
    rw [splitDots_nodot t (fun hm => h (List.mem_cons_of_mem _ hm))] at e1
    simp only [List.cons.injEq] at e1
    obtain ⟨rfl, rfl⟩ := e1
    exact e2

theorem identOfText_nodot (s : Str) (h : '.' ∉ s) : identOfText s = ⟨s, []⟩ := by
  simp [identOfText, splitDots_nodot s h]

/-- the parts of `splitDots` contain no dot -/
theorem splitDots_parts : ∀ s : Str, ∀ p ∈ splitDots s, '.' ∉ p
  | [], p, hp => by simp [splitDots] at hp; subst hp; simp
  | c :: t, p, hp => by
    by_cases hc : c = '.'
    · subst hc
      rw [splitDots_dot] at hp
      rcases List.mem_cons.1 hp with rfl | hp
      · simp
      · exact splitDots_parts t p hp
    · obtain ⟨h, r, e1, e2⟩ := splitDots_cons hc t
      rw [e2] at hp
      have ih := splitDots_parts t
      rw [e1] at ih
      rcases List.mem_cons.1 hp with rfl | hp
      · intro hm
        rcases List.mem_cons.1 hm with e | hm
        · exact hc e.symm
        · exact ih h List.mem_cons_self hm
      · exact ih p (List.mem_cons_of_mem _ hp)

theorem joinDotsS_snoc : ∀ (L : List Str) (n : Str), L ≠ [] →
    ∃ P, spellIdent.joinDotsS (L ++ [n]) = P ++ '.' :: n
  | [], n, h => absurd rfl h
  | [x], n, _ => ⟨x, by simp [spellIdent.joinDotsS]⟩
  | x :: y :: L, n, _ => by
    obtain ⟨P, hP⟩ := joinDotsS_snoc (y :: L) n (by simp)
    refine ⟨x ++ '.' :: P, ?_⟩
    have : (x :: y :: L) ++ [n] = x :: y :: (L ++ [n]) := rfl
    rw [this, joinDotsS_cons2]
    have : y :: (L ++ [n]) = (y :: L) ++ [n] := rfl
    rw [this, hP]; simp

/-- the name of the identifier read from a text is a dot-free suffix of the text; it is empty only if the text is empty or
    ends with a dot -/
theorem identOfText_name (s : Str) :
    '.' ∉ (identOfText s).name ∧ (∃ P, s = P ++ (identOfText s).name) ∧
    ((identOfText s).name = [] → s = [] ∨ s.getLast? = some '.') := by
  have hne := splitDots_ne_nil s
  have hj := spellIdent_identOfText s
  have hmem : (identOfText s).name ∈ splitDots s := by
    simp only [identOfText]
    cases hl : (splitDots s).getLast? with
    | none => simp [List.getLast?_eq_none_iff] at hl; exact absurd hl hne
    | some a => simpa using List.mem_of_getLast? hl
  refine ⟨splitDots_parts s _ hmem, ?_, ?_⟩
  · by_cases hns : (identOfText s).ns = []
    · refine ⟨[], ?_⟩
      simp only [spellIdent, hns, List.nil_append, spellIdent.joinDotsS] at hj
      simp [hj]
    · obtain ⟨P, hP⟩ := joinDotsS_snoc _ (identOfText s).name hns
      simp only [spellIdent] at hj
      rw [hP] at hj
      exact ⟨P ++ ['.'], by rw [List.append_assoc]; exact hj.symm⟩
  · intro he
    by_cases hns : (identOfText s).ns = []
    · left
      simp only [spellIdent, hns, he, List.nil_append, spellIdent.joinDotsS] at hj
      exact hj.symm
    · right
      obtain ⟨P, hP⟩ := joinDotsS_snoc _ (identOfText s).name hns
      simp only [spellIdent] at hj
      rw [hP, he] at hj
      rw [← hj]; simp

/-! ### what `scanIdent` returns -/
theorem notIdentCont_nil' : notIdentCont E [] = true := rfl

theorem identTail_shape (n : Nat) (t : Str) (ha : t.all isAscii = true) :
    t = (identTail E n t).1 ++ (identTail E n t).2 ∧ Tail (identTail E n t).1 ∧ nd (identTail E n t).1 ≤ n ∧
    (nd (identTail E n t).1 < n → notIdentCont E (identTail E n t).2 = true) := by
  fun_induction identTail E n t with
  | case1 cs => simp [Tail, nd]
  | case2 n c t hw a b heq ih =>
      simp only [List.all_cons, Bool.and_eq_true] at ha
      rw [heq] at ih
      obtain ⟨h1, h2, h3, h4⟩ := ih ha.2.2
      dsimp only at h1 h2 h3 h4 ⊢
      have hwA : isWordA c = true := by rw [← word_ascii c ha.2.1]; exact hw
      have hcd := word_ne_dot hwA
      refine ⟨by rw [h1]; simp, tail_dot.2 ⟨hwA, h2⟩, ?_, ?_⟩
      · simp [nd, List.filter_cons, hcd] at h3 ⊢; omega
      · intro hlt
        apply h4
        simp [nd, List.filter_cons, hcd] at hlt ⊢; omega
  | case3 n c t hw =>
      refine ⟨rfl, trivial, by simp [nd], ?_⟩
      intro _
      simp [notIdentCont, hw]
  | case4 n c t hne hw a b heq ih =>
      simp only [List.all_cons, Bool.and_eq_true] at ha
      rw [heq] at ih
      obtain ⟨h1, h2, h3, h4⟩ := ih ha.2
      dsimp only at h1 h2 h3 h4 ⊢
      have hwA : isWordA c = true := by rw [← word_ascii c ha.1]; exact hw
      have hcd := word_ne_dot hwA
      refine ⟨by rw [h1]; simp, (tail_word hwA).2 h2, ?_, ?_⟩
      · simp [nd, List.filter_cons, hcd] at h3 ⊢; omega
      · intro hlt
        apply h4
        simp [nd, List.filter_cons, hcd] at hlt ⊢; omega
  | case5 n c t hne hw =>
      refine ⟨rfl, trivial, by simp [nd], ?_⟩
      intro _
      rw [notIdentCont.eq_def]
      split
      · rename_i heq
        simp only [List.cons.injEq] at heq
        obtain ⟨rfl, rfl⟩ := heq
        exact (hne _ _ rfl rfl).elim
      · rename_i heq
        simp only [List.cons.injEq] at heq
        obtain ⟨rfl, rfl⟩ := heq
        simp [hw]
      · rename_i heq; cases heq
  | case6 n => simp [Tail, nd, notIdentCont]

theorem scanIdent_shape {cs r : Str} {i : Ident} (ha : cs.all isAscii = true) (h : scanIdent E cs = some (i, r)) :
    ∃ c t0, cs = (c :: t0) ++ r ∧ i = identOfText (c :: t0) ∧ IdText c t0 ∧ (nd t0 < 127 → notIdentCont E r = true) := by
  unfold scanIdent at h
  split at h
  · rename_i c t
    simp only [List.all_cons, Bool.and_eq_true] at ha
    split at h
    · rename_i hc
      obtain ⟨h1, h2, h3, h4⟩ := identTail_shape 127 t ha.2
      simp only [Option.some.injEq, Prod.mk.injEq] at h
      obtain ⟨rfl, rfl⟩ := h
      refine ⟨c, (identTail E 127 t).1, by rw [List.cons_append, ← h1], rfl, ⟨?_, h2, h3⟩, h4⟩
      rw [← start_ascii c ha.1]; exact hc
    · simp at h
  · simp at h

end OQ.AcceptedLex
