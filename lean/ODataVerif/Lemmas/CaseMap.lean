/- Lemmas/CaseMap.lean — the scanners of the lexer commute with a letter-case change `φ` of the input (`CaseMap env φ`:
   no character test of any rule can tell `φ c` from `c`), for Props/C19Text.lean. -/
import ODataVerif.Lemmas.LexRender
namespace OQ.CaseMap
open Spec LexRender
set_option linter.unusedSimpArgs false
set_option linter.unusedVariables false

/-- a character map (letter-case change) that no scanner of the lexer can see -/
structure CaseMap (env : CharEnv) (φ : Char → Char) : Prop where
  space : ∀ c, env.isSpace (φ c) = env.isSpace c
  digit : ∀ c, env.isDigit (φ c) = env.isDigit c
  word : ∀ c, env.isWord (φ c) = env.isWord c
  ci : ∀ p ∈ patChars, ∀ c, ciChar env p (φ c) = ciChar env p c
  hex : ∀ c, isHex env (φ c) = isHex env c
  r02 : ∀ c, inCharRange '0' '2' (φ c) = inCharRange '0' '2' c
  r01 : ∀ c, inCharRange '0' '1' (φ c) = inCharRange '0' '1' c
  r03 : ∀ c, inCharRange '0' '3' (φ c) = inCharRange '0' '3' c
  r05 : ∀ c, inCharRange '0' '5' (φ c) = inCharRange '0' '5' c
  /-- the characters the rules compare with literally are fixed, and nothing else is mapped to them -/
  eqc : ∀ x ∈ ['0', '1', '2', '3', '+', '-', '.', '\'', ':'], ∀ c, φ c = x ↔ c = x
  durUp : ∀ c, durUpper (φ c) = durUpper c
  up : ∀ c, asciiUpper (φ c) = asciiUpper c
  low : ∀ c, asciiLower (φ c) = asciiLower c

variable {env : CharEnv} {φ : Char → Char}

/-- map the matched text and the rest -/
def mapBoth (φ : Char → Char) (x : Option (Str × List Char)) : Option (Str × List Char) :=
  x.map fun p => (p.1.map φ, p.2.map φ)
/-- map the rest only (the value is case-normalised by the token action) -/
def mapRest {α : Type} (φ : Char → Char) (x : Option (α × List Char)) : Option (α × List Char) :=
  x.map fun p => (p.1, p.2.map φ)

@[simp] theorem mapBoth_none : mapBoth φ none = none := rfl
@[simp] theorem mapBoth_some (x : Str × List Char) : mapBoth φ (some x) = some (x.1.map φ, x.2.map φ) := rfl
@[simp] theorem mapRest_none {α : Type} : mapRest φ (none : Option (α × List Char)) = none := rfl
@[simp] theorem mapRest_some {α : Type} (x : α × List Char) : mapRest φ (some x) = some (x.1, x.2.map φ) := rfl

theorem kw_map (h : CaseMap env φ) : ∀ (w s : List Char), (∀ p ∈ w, p ∈ patChars) →
    kw env w (s.map φ) = mapBoth φ (kw env w s)
  | [], s, _ => by simp [kw]
  | p :: ps, [], _ => by simp [kw]
  | p :: ps, c :: cs, hw => by
      simp only [kw, List.map_cons, h.ci p (hw p List.mem_cons_self)]
      split
      · rw [kw_map h ps cs (fun q hq => hw q (List.mem_cons_of_mem _ hq))]
        cases kw env ps cs <;> simp
      · simp

theorem span_map (p : Char → Bool) (hp : ∀ c, p (φ c) = p c) : ∀ s : List Char,
    span p (s.map φ) = ((span p s).1.map φ, (span p s).2.map φ)
  | [] => by simp [span]
  | c :: cs => by
      simp only [span, List.map_cons, hp]
      split
      · rw [span_map p hp cs]; simp
      · simp

theorem span1_map (p : Char → Bool) (hp : ∀ c, p (φ c) = p c) (s : List Char) :
    span1 p (s.map φ) = mapBoth φ (span1 p s) := by
  unfold span1
  rw [span_map p hp s]
  cases h : span p s with
  | mk a b => cases a <;> simp

theorem takeN_map (p : Char → Bool) (hp : ∀ c, p (φ c) = p c) : ∀ (n : Nat) (s : List Char),
    takeN p n (s.map φ) = mapBoth φ (takeN p n s)
  | 0, s => by simp [takeN]
  | n + 1, [] => by simp [takeN]
  | n + 1, c :: cs => by
      simp only [takeN, List.map_cons, hp]
      split
      · rw [takeN_map p hp n cs]
        cases takeN p n cs <;> simp
      · simp

theorem takeUpTo_map (p : Char → Bool) (hp : ∀ c, p (φ c) = p c) : ∀ (n : Nat) (s : List Char),
    takeUpTo p n (s.map φ) = ((takeUpTo p n s).1.map φ, (takeUpTo p n s).2.map φ)
  | 0, s => by simp [takeUpTo]
  | n + 1, [] => by simp [takeUpTo]
  | n + 1, c :: cs => by
      simp only [takeUpTo, List.map_cons, hp]
      split
      · rw [takeUpTo_map p hp n cs]; simp
      · simp

theorem CaseMap.fix (h : CaseMap env φ) {x : Char} (hx : x ∈ ['0', '1', '2', '3', '+', '-', '.', '\'', ':']) :
    φ x = x := (h.eqc x hx x).2 rfl

theorem CaseMap.ne (h : CaseMap env φ) {x c : Char} (hx : x ∈ ['0', '1', '2', '3', '+', '-', '.', '\'', ':'])
    (hc : c ≠ x) : φ c ≠ x := fun e => hc ((h.eqc x hx c).1 e)

theorem durGroup_map (h : CaseMap env φ) (l : Char) (hl : l ∈ patChars) (s : List Char) :
    durGroup env l (s.map φ) = ((durGroup env l s).1.map φ, (durGroup env l s).2.map φ) := by
  unfold durGroup
  rw [span1_map _ h.digit]
  cases span1 env.isDigit s with
  | none => simp
  | some x =>
    obtain ⟨ds, r⟩ := x
    cases r with
    | nil => simp
    | cons c r => simp [h.ci l hl]; split <;> simp

theorem durSeconds_map (h : CaseMap env φ) (s : List Char) :
    durSeconds env (s.map φ) = ((durSeconds env s).1.map φ, (durSeconds env s).2.map φ) := by
  unfold durSeconds
  rw [span1_map _ h.digit]
  cases span1 env.isDigit s with
  | none => simp
  | some x =>
    obtain ⟨ds, r⟩ := x
    cases r with
    | nil => simp
    | cons c r =>
      by_cases hc : c = '.'
      · subst hc
        simp only [mapBoth_some, List.map_cons, h.fix (x := '.') (by decide)]
        rw [span1_map _ h.digit]
        cases span1 env.isDigit r with
        | none => simp
        | some y =>
          obtain ⟨fs, r'⟩ := y
          cases r' with
          | nil => simp
          | cons c' r' => simp [h.ci 's' (by decide)]; split <;> simp [h.fix (x := '.') (by decide)]
      · have hc' := h.ne (x := '.') (by decide) hc
        simp [hc, hc', h.ci 's' (by decide)]; split <;> simp


theorem map_durUpper (h : CaseMap env φ) (X : List Char) : (X.map φ).map durUpper = X.map durUpper := by
  simp [List.map_map, Function.comp_def, h.durUp]

theorem scanDuration_map (h : CaseMap env φ) (s : List Char) :
    scanDuration env (s.map φ) = mapRest φ (scanDuration env s) := by
  unfold scanDuration
  simp only [Option.bind_eq_bind]
  rw [kw_map h _ s (by decide)]
  cases hk : kw env "duration'".toList s with
  | none => simp
  | some x =>
    obtain ⟨m, r⟩ := x
    simp only [mapBoth_some, Option.bind_some]
    have key : ∀ (sg X : List Char),
        ((kw env ['p'] (X.map φ)).bind fun __x =>

          match
            (match (durGroup env 'd' (durGroup env 'm' (durGroup env 'y' __x.snd).snd).snd).snd with
              | c :: t =>
                if ciChar env 't' c = true then
                  (c :: (durGroup env 'h' t).fst ++ (durGroup env 'm' (durGroup env 'h' t).snd).fst ++
                      (durSeconds env (durGroup env 'm' (durGroup env 'h' t).snd).snd).fst,
                    (durSeconds env (durGroup env 'm' (durGroup env 'h' t).snd).snd).snd)
                else ([], (durGroup env 'd' (durGroup env 'm' (durGroup env 'y' __x.snd).snd).snd).snd)
              | [] => ([], (durGroup env 'd' (durGroup env 'm' (durGroup env 'y' __x.snd).snd).snd).snd)).snd with
          | '\'' :: r' =>
            some
              (List.map durUpper
                  (sg ++ __x.fst ++ (durGroup env 'y' __x.snd).fst ++
                        (durGroup env 'm' (durGroup env 'y' __x.snd).snd).fst ++
                      (durGroup env 'd' (durGroup env 'm' (durGroup env 'y' __x.snd).snd).snd).fst ++
                    (match (durGroup env 'd' (durGroup env 'm' (durGroup env 'y' __x.snd).snd).snd).snd with
                      | c :: t =>
                        if ciChar env 't' c = true then
                          (c :: (durGroup env 'h' t).fst ++ (durGroup env 'm' (durGroup env 'h' t).snd).fst ++
                              (durSeconds env (durGroup env 'm' (durGroup env 'h' t).snd).snd).fst,
                            (durSeconds env (durGroup env 'm' (durGroup env 'h' t).snd).snd).snd)
                        else ([], (durGroup env 'd' (durGroup env 'm' (durGroup env 'y' __x.snd).snd).snd).snd)
                      | [] => ([], (durGroup env 'd' (durGroup env 'm' (durGroup env 'y' __x.snd).snd).snd).snd)).fst),
                r')
          | x => none) =
        mapRest φ ((kw env ['p'] X).bind fun __x =>

          match
            (match (durGroup env 'd' (durGroup env 'm' (durGroup env 'y' __x.snd).snd).snd).snd with
              | c :: t =>
                if ciChar env 't' c = true then
                  (c :: (durGroup env 'h' t).fst ++ (durGroup env 'm' (durGroup env 'h' t).snd).fst ++
                      (durSeconds env (durGroup env 'm' (durGroup env 'h' t).snd).snd).fst,
                    (durSeconds env (durGroup env 'm' (durGroup env 'h' t).snd).snd).snd)
                else ([], (durGroup env 'd' (durGroup env 'm' (durGroup env 'y' __x.snd).snd).snd).snd)
              | [] => ([], (durGroup env 'd' (durGroup env 'm' (durGroup env 'y' __x.snd).snd).snd).snd)).snd with
          | '\'' :: r' =>
            some
              (List.map durUpper
                  (sg ++ __x.fst ++ (durGroup env 'y' __x.snd).fst ++
                        (durGroup env 'm' (durGroup env 'y' __x.snd).snd).fst ++
                      (durGroup env 'd' (durGroup env 'm' (durGroup env 'y' __x.snd).snd).snd).fst ++
                    (match (durGroup env 'd' (durGroup env 'm' (durGroup env 'y' __x.snd).snd).snd).snd with
                      | c :: t =>
                        if ciChar env 't' c = true then
                          (c :: (durGroup env 'h' t).fst ++ (durGroup env 'm' (durGroup env 'h' t).snd).fst ++
                              (durSeconds env (durGroup env 'm' (durGroup env 'h' t).snd).snd).fst,
                            (durSeconds env (durGroup env 'm' (durGroup env 'h' t).snd).snd).snd)
                        else ([], (durGroup env 'd' (durGroup env 'm' (durGroup env 'y' __x.snd).snd).snd).snd)
                      | [] => ([], (durGroup env 'd' (durGroup env 'm' (durGroup env 'y' __x.snd).snd).snd).snd)).fst),
                r')
          | x => none) := by
      intro sg X
      rw [kw_map h _ X (by decide)]
      cases h2 : kw env ['p'] X with
      | none => simp
      | some y =>
        obtain ⟨p1, p2⟩ := y
        simp only [mapBoth_some, Option.bind_some]
        rw [durGroup_map h 'y' (by decide)]
        simp only []
        rw [durGroup_map h 'm' (by decide)]
        simp only []
        rw [durGroup_map h 'd' (by decide)]
        simp only []
        generalize (durGroup env 'y' p2) = yy
        obtain ⟨y1, y2⟩ := yy
        simp only []
        generalize (durGroup env 'm' y2) = mm
        obtain ⟨m1, m2⟩ := mm
        simp only []
        generalize (durGroup env 'd' m2) = dd
        obtain ⟨d1, d2⟩ := dd
        simp only []
        cases d2 with
        | nil => simp
        | cons c t =>
          simp only [List.map_cons, h.ci 't' (by decide)]
          by_cases hc : ciChar env 't' c = true
          · simp only [hc, if_true]
            rw [durGroup_map h 'h' (by decide)]
            simp only []
            rw [durGroup_map h 'm' (by decide)]
            simp only []
            rw [durSeconds_map h]
            simp only []
            generalize (durGroup env 'h' t) = hh
            obtain ⟨h1, h2'⟩ := hh
            simp only []
            generalize (durGroup env 'm' h2') = mi
            obtain ⟨mi1, mi2⟩ := mi
            simp only []
            generalize (durSeconds env mi2) = ss
            obtain ⟨s1, s2⟩ := ss
            cases s2 with
            | nil => simp
            | cons c' t' =>
              simp only [List.map_cons]
              by_cases hq : c' = '\''
              · subst hq
                rw [h.fix (x := '\'') (by decide)]
                simp [map_durUpper h, h.durUp]
              · have hq' := h.ne (x := '\'') (by decide) hq
                split
                · rename_i heq; simp at heq; exact absurd heq.1 hq'
                · split
                  · rename_i heq; simp at heq; exact absurd heq.1 hq
                  · rfl
          · simp only [hc]
            simp only [Bool.false_eq_true, if_false]
            by_cases hq : c = '\''
            · subst hq
              rw [h.fix (x := '\'') (by decide)]
              simp [map_durUpper h, h.durUp]
            · have hq' := h.ne (x := '\'') (by decide) hq
              split
              · rename_i heq; simp at heq; exact absurd heq.1 hq'
              · split
                · rename_i heq; simp at heq; exact absurd heq.1 hq
                · rfl
    cases r with
    | nil => exact key [] []
    | cons c r =>
      by_cases h1 : c = '+'
      · subst h1
        simp only [List.map_cons, h.fix (x := '+') (by decide)]
        exact key _ _
      · by_cases h2 : c = '-'
        · subst h2
          simp only [List.map_cons, h.fix (x := '-') (by decide)]
          exact key _ _
        · have h1' := h.ne (x := '+') (by decide) h1
          have h2' := h.ne (x := '-') (by decide) h2
          have := key [] (c :: r)
          simp only [List.map_cons, List.nil_append] at this ⊢
          split
          · rename_i heq; simp at heq; exact absurd heq.1 h1'
          · rename_i heq; simp at heq; exact absurd heq.1 h2'
          · split
            · rename_i heq; simp at heq; exact absurd heq.1 h1
            · rename_i heq; simp at heq; exact absurd heq.1 h2
            · exact this

theorem CaseMap.beq (h : CaseMap env φ) {x : Char} (hx : x ∈ ['0', '1', '2', '3', '+', '-', '.', '\'', ':']) (c : Char) :
    (φ c == x) = (c == x) := by
  by_cases hc : c = x
  · subst hc; rw [h.fix hx]
  · have e1 : (φ c == x) = false := by simpa using h.ne hx hc
    have e2 : (c == x) = false := by simpa using hc
    rw [e1, e2]

theorem strBody_qq (t : List Char) : strBody ('\'' :: '\'' :: t) =
    match strBody t with
    | some (b, r) => some ('\'' :: '\'' :: b, r)
    | none => some ([], '\'' :: t) := by rw [strBody]; rfl

theorem strBody_q (t : List Char) (h : ∀ t', t ≠ '\'' :: t') : strBody ('\'' :: t) = some ([], t) := by
  rw [strBody.eq_def]
  split
  · rename_i heq; simp at heq
  · rename_i heq; simp at heq; exact absurd heq (h _)
  · rename_i heq; simp at heq; rw [heq]
  · rename_i hx heq; simp at heq; exact absurd heq.1.symm hx

theorem strBody_c (c : Char) (t : List Char) (h : c ≠ '\'') : strBody (c :: t) =
    match strBody t with
    | some (b, r) => some (c :: b, r)
    | none => none := by
  rw [strBody.eq_def]
  split
  · rename_i heq; simp at heq
  · rename_i heq; simp at heq; exact absurd heq.1 h
  · rename_i heq; simp at heq; exact absurd heq.1 h
  · rename_i heq; simp at heq; obtain ⟨rfl, rfl⟩ := heq; rfl

theorem strBody_map (h : CaseMap env φ) : ∀ s : List Char, strBody (s.map φ) = mapBoth φ (strBody s)
  | [] => by simp [strBody]
  | c :: t => by
      have hq := h.fix (x := '\'') (by decide)
      by_cases hc : c = '\''
      · subst hc
        rw [List.map_cons, hq]
        cases t with
        | nil => rw [List.map_nil, strBody_q [] (by simp)]; simp
        | cons c2 t2 =>
          by_cases hc2 : c2 = '\''
          · subst hc2
            rw [List.map_cons, hq, strBody_qq, strBody_qq, strBody_map h t2]
            cases strBody t2 <;> simp [hq]
          · have hc2' := h.ne (x := '\'') (by decide) hc2
            rw [List.map_cons, strBody_q _ (by intro t' e; simp at e; exact hc2' e.1),
              strBody_q _ (by intro t' e; simp at e; exact hc2 e.1)]
            simp
      · have hc' := h.ne (x := '\'') (by decide) hc
        rw [List.map_cons, strBody_c _ _ hc', strBody_c _ _ hc, strBody_map h t]
        cases strBody t <;> simp

theorem unescape_c (c : Char) (t : List Char) (h : ∀ t', c = '\'' → t ≠ '\'' :: t') :
    unescape (c :: t) = c :: unescape t := by
  rw [unescape.eq_def]
  split
  · rename_i heq; simp at heq; exact absurd heq.2 (h _ heq.1)
  · rename_i heq; simp at heq; obtain ⟨rfl, rfl⟩ := heq; rfl
  · rename_i heq; simp at heq

theorem unescape_map (h : CaseMap env φ) : ∀ s : List Char, unescape (s.map φ) = (unescape s).map φ
  | [] => rfl
  | [c] => by
      rw [List.map_cons, List.map_nil, unescape_c _ _ (by simp), unescape_c _ _ (by simp)]; rfl
  | c :: c2 :: t => by
      have hq := h.fix (x := '\'') (by decide)
      by_cases hc : c = '\'' ∧ c2 = '\''
      · obtain ⟨rfl, rfl⟩ := hc
        simp only [List.map_cons, hq, unescape]
        rw [unescape_map h t]
      · have h1 : ∀ t', c = '\'' → c2 :: t ≠ '\'' :: t' := by
          intro t' e1 e2; simp at e2; exact hc ⟨e1, e2.1⟩
        have h2 : ∀ t', φ c = '\'' → (c2 :: t).map φ ≠ '\'' :: t' := by
          intro t' e1 e2
          simp at e2
          exact hc ⟨(h.eqc _ (by decide) c).1 e1, (h.eqc _ (by decide) c2).1 e2.1⟩
        rw [List.map_cons, unescape_c _ _ h2, unescape_c _ _ h1, unescape_map h (c2 :: t)]
        rfl

theorem scanString_map (h : CaseMap env φ) (s : List Char) : scanString (s.map φ) = mapBoth φ (scanString s) := by
  cases s with
  | nil => rfl
  | cons c t =>
    by_cases hc : c = '\''
    · subst hc
      simp only [List.map_cons, h.fix (x := '\'') (by decide), scanString, Option.bind_eq_bind, strBody_map h]
      cases strBody t with
      | none => rfl
      | some x => simp [unescape_map h, pure]
    · have hc' := h.ne (x := '\'') (by decide) hc
      simp [scanString, hc, hc']

theorem scanGeography_map (h : CaseMap env φ) (s : List Char) :
    scanGeography env (s.map φ) = mapBoth φ (scanGeography env s) := by
  simp only [scanGeography, Option.bind_eq_bind]
  rw [kw_map h "geography'".toList s (by decide)]
  cases kw env "geography'".toList s with
  | none => rfl
  | some x => simp [strBody_map h]

theorem scanGuid_map (h : CaseMap env φ) (s : List Char) :
    scanGuid env (s.map φ) = mapBoth φ (scanGuid env s) := by
  have hd := h.fix (x := '-') (by decide)
  unfold scanGuid
  simp only [Option.bind_eq_bind]
  rw [takeN_map _ h.hex]
  cases takeN (isHex env) 8 s with
  | none => simp
  | some x =>
  obtain ⟨a, r⟩ := x
  simp only [mapBoth_some, Option.bind_some]
  cases r with
  | nil => simp
  | cons c r =>
  by_cases hc : c = '-'
  case neg => simp [hc, h.ne (x := '-') (by decide) hc]
  subst hc
  simp only [List.map_cons, hd, Option.bind_some]
  rw [takeN_map _ h.hex]
  cases takeN (isHex env) 4 r with
  | none => simp
  | some x =>
  obtain ⟨a2, r⟩ := x
  simp only [mapBoth_some, Option.bind_some]
  cases r with
  | nil => simp
  | cons c r =>
  by_cases hc : c = '-'
  case neg => simp [hc, h.ne (x := '-') (by decide) hc]
  subst hc
  simp only [List.map_cons, hd, Option.bind_some]
  rw [takeN_map _ h.hex]
  cases takeN (isHex env) 4 r with
  | none => simp
  | some x =>
  obtain ⟨a3, r⟩ := x
  simp only [mapBoth_some, Option.bind_some]
  cases r with
  | nil => simp
  | cons c r =>
  by_cases hc : c = '-'
  case neg => simp [hc, h.ne (x := '-') (by decide) hc]
  subst hc
  simp only [List.map_cons, hd, Option.bind_some]
  rw [takeN_map _ h.hex]
  cases takeN (isHex env) 4 r with
  | none => simp
  | some x =>
  obtain ⟨a4, r⟩ := x
  simp only [mapBoth_some, Option.bind_some]
  cases r with
  | nil => simp
  | cons c r =>
  by_cases hc : c = '-'
  case neg => simp [hc, h.ne (x := '-') (by decide) hc]
  subst hc
  simp only [List.map_cons, hd, Option.bind_some]
  rw [takeN_map _ h.hex]
  cases takeN (isHex env) 12 r with
  | none => simp
  | some x => simp [hd]


theorem scanDatePart_ne4 {a0 a1 a2 a3 a4 a5 a6 a7 a8 a9 : Char} {r : List Char} (h : a4 ≠ '-') :
    scanDatePart env (a0 :: a1 :: a2 :: a3 :: a4 :: a5 :: a6 :: a7 :: a8 :: a9 :: r) = none := by
  unfold scanDatePart
  split
  · rename_i heq; simp at heq; exact absurd heq.2.2.2.2.1 h
  · rfl

theorem scanDatePart_ne7 {a0 a1 a2 a3 a4 a5 a6 a7 a8 a9 : Char} {r : List Char} (h : a7 ≠ '-') :
    scanDatePart env (a0 :: a1 :: a2 :: a3 :: a4 :: a5 :: a6 :: a7 :: a8 :: a9 :: r) = none := by
  unfold scanDatePart
  split
  · rename_i heq; simp at heq; exact absurd heq.2.2.2.2.2.2.2.1 h
  · rfl

theorem scanHourMinute_ne {a0 a1 a2 a3 a4 : Char} {r : List Char} (h : a2 ≠ ':') :
    scanHourMinute env (a0 :: a1 :: a2 :: a3 :: a4 :: r) = none := by
  unfold scanHourMinute
  split
  · rename_i heq; simp at heq; exact absurd heq.2.2.1 h
  · rfl

theorem scanDatePart_map (h : CaseMap env φ) (s : List Char) :
    scanDatePart env (s.map φ) = mapBoth φ (scanDatePart env s) := by
  have hd := h.fix (x := '-') (by decide)
  by_cases hs : s.length < 10
  · rw [scanDatePart_short s hs, scanDatePart_short _ (by simpa using hs)]; rfl
  · rcases s with _ | ⟨a0, _ | ⟨a1, _ | ⟨a2, _ | ⟨a3, _ | ⟨a4, _ | ⟨a5, _ | ⟨a6, _ | ⟨a7, _ | ⟨a8, _ | ⟨a9, s⟩⟩⟩⟩⟩⟩⟩⟩⟩⟩
    all_goals simp at hs
    by_cases h4 : a4 = '-'
    · by_cases h7 : a7 = '-'
      · subst h4 h7
        simp only [List.map_cons, hd, scanDatePart, h.digit, h.r02, h.r01, h.beq (x := '0') (by decide),
          h.beq (x := '1') (by decide), h.beq (x := '3') (by decide)]
        split <;> simp [hd]
      · simp only [List.map_cons]
        rw [scanDatePart_ne7 h7, scanDatePart_ne7 (h.ne (x := '-') (by decide) h7)]; rfl
    · simp only [List.map_cons]
      rw [scanDatePart_ne4 h4, scanDatePart_ne4 (h.ne (x := '-') (by decide) h4)]; rfl

theorem scanHourMinute_map (h : CaseMap env φ) (s : List Char) :
    scanHourMinute env (s.map φ) = mapBoth φ (scanHourMinute env s) := by
  have hd := h.fix (x := ':') (by decide)
  by_cases hs : s.length < 5
  · rw [scanHourMinute_short s hs, scanHourMinute_short _ (by simpa using hs)]; rfl
  · rcases s with _ | ⟨a0, _ | ⟨a1, _ | ⟨a2, _ | ⟨a3, _ | ⟨a4, s⟩⟩⟩⟩⟩
    all_goals simp at hs
    by_cases h2 : a2 = ':'
    · subst h2
      simp only [List.map_cons, hd, scanHourMinute, h.digit, h.r01, h.r03, h.r05, h.beq (x := '2') (by decide)]
      split <;> simp [hd]
    · simp only [List.map_cons]
      rw [scanHourMinute_ne h2, scanHourMinute_ne (h.ne (x := ':') (by decide) h2)]; rfl

theorem scanFraction_map (h : CaseMap env φ) (s : List Char) :
    scanFraction env (s.map φ) = ((scanFraction env s).1.map φ, (scanFraction env s).2.map φ) := by
  cases s with
  | nil => simp [scanFraction]
  | cons c s =>
    by_cases hc : c = '.'
    · subst hc
      simp only [List.map_cons, h.fix (x := '.') (by decide), scanFraction]
      rw [takeUpTo_map _ h.digit]
      generalize takeUpTo env.isDigit 12 s = x
      obtain ⟨a, b⟩ := x
      cases a <;> simp [h.fix (x := '.') (by decide)]
    · simp [scanFraction, hc, h.ne (x := '.') (by decide) hc]

theorem scanSeconds_map (h : CaseMap env φ) (s : List Char) :
    scanSeconds env (s.map φ) = mapBoth φ (scanSeconds env s) := by
  have hd := h.fix (x := ':') (by decide)
  rcases s with _ | ⟨c, s⟩
  · simp [scanSeconds]
  by_cases h1 : c = ':'
  case neg => simp [scanSeconds, h1, h.ne (x := ':') (by decide) h1]
  subst h1
  rcases s with _ | ⟨a, s⟩
  · simp [scanSeconds, hd]
  by_cases h2 : a = ':'
  · subst h2
    rcases s with _ | ⟨a, _ | ⟨b, s⟩⟩
    · simp [scanSeconds, hd]
    · have h5 : inCharRange '0' '5' ':' = false := by decide
      simp [scanSeconds, hd, h.r05, h5]
    · simp only [List.map_cons, hd, scanSeconds, h.r05, h.digit]
      split
      · rw [scanFraction_map h]; simp [hd]
      · simp
  · have h2' := fun e => h2 ((h.eqc ':' (by decide) a).1 e)
    rcases s with _ | ⟨b, s⟩
    · simp [scanSeconds, hd, h2, h2']
    · simp only [List.map_cons, hd]
      rw [scanSeconds_single _ _ _ h2', scanSeconds_single _ _ _ h2]
      simp only [h.r05, h.digit]
      split
      · rw [scanFraction_map h]; simp [hd]
      · simp

theorem scanOffset_map (h : CaseMap env φ) (s : List Char) :
    scanOffset env (s.map φ) = ((scanOffset env s).1.map φ, (scanOffset env s).2.map φ) := by
  rcases s with _ | ⟨c, s⟩
  · simp [scanOffset]
  · simp only [List.map_cons, scanOffset, h.ci 'z' (by decide), h.beq (x := '+') (by decide),
      h.beq (x := '-') (by decide)]
    split
    · simp
    · split
      · rw [scanHourMinute_map h]
        cases scanHourMinute env s <;> simp
      · simp

theorem scanTime_map (h : CaseMap env φ) (s : List Char) : scanTime env (s.map φ) = mapBoth φ (scanTime env s) := by
  unfold scanTime
  simp only [Option.bind_eq_bind]
  rw [scanHourMinute_map h]
  cases scanHourMinute env s with
  | none => simp
  | some x =>
    simp only [mapBoth_some, Option.bind_some]
    rw [scanSeconds_map h]
    cases scanSeconds env x.2 <;> simp

theorem map_asciiUpper (h : CaseMap env φ) (X : List Char) : (X.map φ).map asciiUpper = X.map asciiUpper := by
  simp [List.map_map, Function.comp_def, h.up]

theorem scanDateTime_map (h : CaseMap env φ) (s : List Char) :
    scanDateTime env (s.map φ) = mapRest φ (scanDateTime env s) := by
  unfold scanDateTime
  simp only [Option.bind_eq_bind]
  rw [scanDatePart_map h]
  cases scanDatePart env s with
  | none => simp
  | some x =>
    obtain ⟨dt, r⟩ := x
    simp only [mapBoth_some, Option.bind_some]
    cases r with
    | nil => simp
    | cons t r =>
      simp only [List.map_cons, h.ci 't' (by decide)]
      split
      · rw [scanHourMinute_map h]
        cases scanHourMinute env r with
        | none => simp
        | some y =>
          obtain ⟨hm, r2⟩ := y
          simp only [mapBoth_some, Option.bind_some]
          rw [scanSeconds_map h]
          cases scanSeconds env r2 with
          | none => simp [scanOffset_map h, pure, List.map_map, Function.comp_def, h.up]
          | some z => simp [scanOffset_map h, pure, List.map_map, Function.comp_def, h.up]
      · simp


theorem scanInteger_map (h : CaseMap env φ) (s : List Char) :
    scanInteger env (s.map φ) = mapBoth φ (scanInteger env s) := by
  rcases s with _ | ⟨c, s⟩
  · simp [scanInteger, span1, span]
  · by_cases h1 : c = '+'
    · subst h1
      simp only [List.map_cons, h.fix (x := '+') (by decide), scanInteger]
      rw [span1_map _ h.digit]
      cases span1 env.isDigit s <;> simp [h.fix (x := '+') (by decide)]
    · by_cases h2 : c = '-'
      · subst h2
        simp only [List.map_cons, h.fix (x := '-') (by decide), scanInteger]
        rw [span1_map _ h.digit]
        cases span1 env.isDigit s <;> simp [h.fix (x := '-') (by decide)]
      · have h1' := h.ne (x := '+') (by decide) h1
        have h2' := h.ne (x := '-') (by decide) h2
        have := span1_map env.isDigit h.digit (c :: s)
        simp only [List.map_cons] at this
        simp [scanInteger, h1, h2, h1', h2', this]

theorem scanExponent_map (h : CaseMap env φ) (s : List Char) :
    scanExponent env (s.map φ) = mapBoth φ (scanExponent env s) := by
  rcases s with _ | ⟨e, s⟩
  · simp [scanExponent]
  · simp only [List.map_cons, scanExponent, h.ci 'e' (by decide)]
    split
    case isFalse => simp
    rcases s with _ | ⟨c, s⟩
    · simp [span1, span]
    · by_cases h1 : c = '+'
      · subst h1
        simp only [List.map_cons, h.fix (x := '+') (by decide)]
        rw [span1_map _ h.digit]
        cases span1 env.isDigit s <;> simp [h.fix (x := '+') (by decide)]
      · by_cases h2 : c = '-'
        · subst h2
          simp only [List.map_cons, h.fix (x := '-') (by decide)]
          rw [span1_map _ h.digit]
          cases span1 env.isDigit s <;> simp [h.fix (x := '-') (by decide)]
        · have h1' := h.ne (x := '+') (by decide) h1
          have h2' := h.ne (x := '-') (by decide) h2
          have := span1_map env.isDigit h.digit (c :: s)
          simp only [List.map_cons] at this
          simp [h1, h2, h1', h2', this]
          cases span1 env.isDigit (c :: s) <;> simp

theorem scanDecimal_map (h : CaseMap env φ) (s : List Char) :
    scanDecimal env (s.map φ) = mapBoth φ (scanDecimal env s) := by
  unfold scanDecimal
  simp only [Option.bind_eq_bind]
  rw [scanInteger_map h]
  cases scanInteger env s with
  | none => simp
  | some x =>
    obtain ⟨i, r⟩ := x
    simp only [mapBoth_some, Option.bind_some]
    rcases r with _ | ⟨c, r⟩
    · simp [scanExponent]
    · by_cases h1 : c = '.'
      · subst h1
        simp only [List.map_cons, h.fix (x := '.') (by decide)]
        rw [span1_map _ h.digit]
        cases span1 env.isDigit r with
        | none => simp
        | some y =>
          simp only [mapBoth_some]
          rw [scanExponent_map h]
          cases scanExponent env y.2 <;> simp [h.fix (x := '.') (by decide)]
      · have h1' := h.ne (x := '.') (by decide) h1
        have := scanExponent_map h (c :: r)
        simp only [List.map_cons] at this
        simp [h1, h1', this]
        cases scanExponent env (c :: r) <;> simp

theorem notIdentCont_map (h : CaseMap env φ) (s : List Char) : notIdentCont env (s.map φ) = notIdentCont env s := by
  rcases s with _ | ⟨c, s⟩
  · rfl
  · by_cases h1 : c = '.'
    · subst h1
      rcases s with _ | ⟨c, s⟩
      · simp [notIdentCont, h.fix (x := '.') (by decide)]
      · simp [notIdentCont, h.fix (x := '.') (by decide), h.word]
    · simp [notIdentCont, h1, h.ne (x := '.') (by decide) h1, h.word]

theorem scanWord_map (h : CaseMap env φ) (w : List Char) (hw : ∀ p ∈ w, p ∈ patChars) (s : List Char) :
    scanWord env w (s.map φ) = mapBoth φ (scanWord env w s) := by
  unfold scanWord
  rw [kw_map h w s hw]
  cases kw env w s with
  | none => simp
  | some x =>
    simp only [mapBoth_some]
    rw [notIdentCont_map h]
    split <;> simp

theorem scanOp_map (h : CaseMap env φ) (w : List Char) (hw : ∀ p ∈ w, p ∈ patChars) (s : List Char) :
    scanOp env w (s.map φ) = (scanOp env w s).map (·.map φ) := by
  unfold scanOp
  simp only [Option.bind_eq_bind]
  rw [span1_map _ h.space]
  cases span1 env.isSpace s with
  | none => simp
  | some x =>
    simp only [mapBoth_some, Option.bind_some]
    rw [kw_map h w _ hw]
    cases kw env w x.2 with
    | none => simp
    | some y =>
      simp only [mapBoth_some, Option.bind_some]
      rw [span1_map _ h.space]
      cases span1 env.isSpace y.2 <;> simp [pure]


end OQ.CaseMap
