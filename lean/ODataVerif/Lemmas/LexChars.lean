/- Lemmas/LexChars.lean — facts about the concrete character classes `pyCharEnv` used by Props/C13Text.lean:
   the delimiters are outside every scanner's alphabet; spaces, digits and letters are disjoint. -/
import ODataVerif.Lemmas.LexRender
namespace OQ.LexRender
open Spec
set_option linter.unusedSimpArgs false
set_option linter.unusedVariables false

abbrev E := pyCharEnv

def spaceNat (n : Nat) : Prop :=
  (9 ≤ n ∧ n ≤ 13) ∨ (28 ≤ n ∧ n ≤ 32) ∨ n = 133 ∨ n = 160 ∨ n = 5760 ∨ (8192 ≤ n ∧ n ≤ 8202) ∨ n = 8232 ∨ n = 8233
    ∨ n = 8239 ∨ n = 8287 ∨ n = 12288

theorem isSpace_iff (c : Char) : E.isSpace c = true ↔ spaceNat c.toNat := by
  simp [pyCharEnv, inRanges, CharTables.spaceRanges, spaceNat]
  omega

def letterNat (n : Nat) : Prop :=
  (65 ≤ n ∧ n ≤ 90) ∨ (97 ≤ n ∧ n ≤ 122) ∨ n = 304 ∨ n = 305 ∨ n = 383 ∨ n = 8490

theorem isDigit_imp (c : Char) (h : E.isDigit c = true) :
    ¬ spaceNat c.toNat ∧ ¬ letterNat c.toNat ∧ c.toNat ≠ 95 ∧ c.toNat ≠ 39 ∧ c.toNat ≠ 43 ∧ c.toNat ≠ 45 ∧ 48 ≤ c.toNat := by
  simp [pyCharEnv, inRanges, CharTables.digitRanges] at h
  simp only [spaceNat, letterNat]
  omega

theorem le_char_iff (a c : Char) : a ≤ c ↔ a.toNat ≤ c.toNat := by
  rw [Char.le_def, UInt32.le_iff_toNat_le]; rfl

theorem beq_char_iff (c k : Char) : (c == k) = true ↔ c.toNat = k.toNat := by
  simp [← Char.toNat_inj]



theorem ciChar_imp (c p : Char) (hp : p ∈ ['d', 'g', 't', 'f', 'n', 'a']) (h : ciChar E p c = true) : letterNat c.toNat := by
  simp only [List.mem_cons, List.not_mem_nil, or_false] at hp
  rcases hp with rfl | rfl | rfl | rfl | rfl | rfl
  all_goals
    simp [ciChar, isAsciiLower, asciiUpper, pyCharEnv, CharTables.ciExtras] at h
    simp only [letterNat]
    rcases h with rfl | rfl <;> decide

theorem isIdentStart_imp (c : Char) (h : isIdentStart E c = true) : letterNat c.toNat ∨ c.toNat = 95 := by
  simp [isIdentStart, isAsciiLower, isAsciiUpper, pyCharEnv, CharTables.ciExtras, le_char_iff] at h
  simp only [letterNat]
  rcases h with ((rfl | h) | h) | h
  · right; decide
  all_goals omega

/-- a letter-like or `_` character is not a digit, space, quote or sign -/
theorem letter_imp (c : Char) (h : letterNat c.toNat ∨ c.toNat = 95) :
    E.isDigit c = false ∧ E.isSpace c = false ∧ c ≠ '\'' ∧ c ≠ '+' ∧ c ≠ '-' := by
  refine ⟨?_, ?_, ?_, ?_, ?_⟩
  · cases hd : E.isDigit c with
    | false => rfl
    | true => have := isDigit_imp c hd; simp only [letterNat] at h this; omega
  · cases hs : E.isSpace c with
    | false => rfl
    | true => have := (isSpace_iff c).1 hs; simp only [letterNat, spaceNat] at h this; omega
  all_goals (rintro rfl; simp [letterNat] at h)

theorem space_imp (c : Char) (h : E.isSpace c = true) :
    E.isDigit c = false ∧ isIdentStart E c = false ∧ (∀ p ∈ ['d', 'g', 't', 'f', 'n', 'a'], ciChar E p c = false)
      ∧ c ≠ '\'' ∧ c ≠ '+' ∧ c ≠ '-' ∧ isHex E c = false ∧ inCharRange '0' '9' c = false := by
  have hs := (isSpace_iff c).1 h
  have hdg : E.isDigit c = false := by
    cases hd : E.isDigit c with
    | false => rfl
    | true => have := isDigit_imp c hd; exact absurd hs this.1
  refine ⟨hdg, ?_, ?_, ?_, ?_, ?_, ?_, ?_⟩
  · cases hi : isIdentStart E c with
    | false => rfl
    | true => have := isIdentStart_imp c hi; simp only [letterNat, spaceNat] at this hs; omega
  · intro p hp
    cases hi : ciChar E p c with
    | false => rfl
    | true => have := ciChar_imp c p hp hi; simp only [letterNat, spaceNat] at this hs; omega
  · rintro rfl; simp [spaceNat] at hs
  · rintro rfl; simp [spaceNat] at hs
  · rintro rfl; simp [spaceNat] at hs
  · simp only [isHex, hdg, inCharRange, le_char_iff, spaceNat] at hs ⊢
    simp; omega
  · simp only [inCharRange, le_char_iff, spaceNat] at hs ⊢
    simp; omega

def isDelim (d : Char) : Bool := d == ' ' || d == '(' || d == ')' || d == ',' || d == '/' || d == ':' || d == '='

theorem delim_cases {d : Char} (h : isDelim d = true) :
    d = ' ' ∨ d = '(' ∨ d = ')' ∨ d = ',' ∨ d = '/' ∨ d = ':' ∨ d = '=' := by
  simpa [isDelim, or_assoc] using h

theorem word_dot : E.isWord '.' = false := by decide +kernel

theorem delim_of {d : Char} (h : isDelim d = true) : Delim E d := by
  rcases delim_cases h with rfl | rfl | rfl | rfl | rfl | rfl | rfl <;>
    constructor <;> decide +kernel

theorem delim_identStart {d : Char} (h : isDelim d = true) : isIdentStart E d = false := by
  rcases delim_cases h with rfl | rfl | rfl | rfl | rfl | rfl | rfl <;> decide +kernel

theorem space_blank : E.isSpace ' ' = true := by decide +kernel

theorem delim_space {d : Char} (h : isDelim d = true) (hne : d ≠ ' ') : E.isSpace d = false := by
  rcases delim_cases h with rfl | rfl | rfl | rfl | rfl | rfl | rfl <;> first | exact absurd rfl hne | decide +kernel

end OQ.LexRender