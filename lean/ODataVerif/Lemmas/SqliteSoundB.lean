/- Lemmas/SqliteSoundB.lean — helper lemmas for Props/C01.lean, part 2: IN lists, LIKE, Boolean columns and literals. -/
import ODataVerif.Lemmas.SqliteSound
namespace OQ.SqliteSound
open Spec SqliteLike

/-! ### IN -/
theorem V3.or_assoc (a b c : V3) : V3.or (V3.or a b) c = V3.or a (V3.or b c) := by
  cases a <;> cases b <;> cases c <;> rfl
theorem V3.or_ff (a : V3) : V3.or a .ff = a := by cases a <;> rfl

theorem foldl_or (f : α → V3) (vs : List α) (a : V3) :
    vs.foldl (fun acc v => V3.or acc (f v)) a = V3.or a (vs.foldr (fun v r => V3.or (f v) r) .ff) := by
  induction vs generalizing a with
  | nil => simp [V3.or_ff]
  | cons v t ih => simp only [List.foldl_cons, List.foldr_cons]; rw [ih, V3.or_assoc]

theorem inList_eq {α} [BEq α] (x : Option α) (vs : List (Option α)) :
    inList x vs = vs.foldr (fun v r => V3.or (cmp2 (· == ·) x v) r) .ff := by
  have h : inList x vs = vs.foldl (fun acc v => V3.or acc (cmp2 (· == ·) x v)) .ff := by
    unfold inList
    congr 1
    funext acc v
    cases x <;> cases v <;> rfl
  rw [h, foldl_or]
  cases (List.foldr (fun v r => V3.or (cmp2 (fun x1 x2 => x1 == x2) x v) r) V3.ff vs) <;> rfl

theorem inVals_map {α} [BEq α] (val : Option α → SqlVal)
    (hval : ∀ x v, eqForIn (val x) (val v) = some (cmp2 (· == ·) x v)) (x : Option α) (vs : List (Option α)) :
    inVals (val x) (vs.map val) = some (inList x vs) := by
  rw [inList_eq]
  induction vs with
  | nil => rfl
  | cons v t ih => simp only [List.map_cons, inVals, hval, ih, List.foldr_cons]

theorem eqForIn_int (x v : Option Int) : eqForIn (valI x) (valI v) = some (cmp2 (· == ·) x v) := by
  unfold eqForIn
  have := cmpVals_int .eq x v
  rw [show cmpName CmpK.eq.toOp = sx "=" from rfl] at this
  rw [this]
  cases x <;> cases v <;> simp [cmp2, cmpInt]
theorem eqForIn_str (x v : Option Str) : eqForIn (valS x) (valS v) = some (cmp2 (· == ·) x v) := by
  unfold eqForIn
  have := cmpVals_str .eq x v
  rw [show cmpName CmpK.eq.toOp = sx "=" from rfl] at this
  rw [this]
  cases x <;> cases v <;> simp [cmp2, cmpStr]

section
variable (ρ : Row)
theorem eval_inI (t : SqlTree) (ts : SqlTrees) (x : Option Int) (vs : List (Option Int))
    (ht : sqlEval ρ t = some (valI x)) (hts : sqlEvalList ρ ts = some (vs.map valI)) :
    sqlEval ρ (.inl t ts) = some (v3ToVal (inList x vs)) := by
  rw [sqlEval, ht, hts]
  simp [inVals_map valI eqForIn_int]
theorem eval_inS (t : SqlTree) (ts : SqlTrees) (x : Option Str) (vs : List (Option Str))
    (ht : sqlEval ρ t = some (valS x)) (hts : sqlEvalList ρ ts = some (vs.map valS)) :
    sqlEval ρ (.inl t ts) = some (v3ToVal (inList x vs)) := by
  rw [sqlEval, ht, hts]
  simp [inVals_map valS eqForIn_str]
end

/-! ### LIKE -/
section
variable (ρ : Row)

theorem eval_like_lit (k : LikeK) (t0 t1 : SqlTree) (x : Option Str) (n : Str)
    (h0 : sqlEval ρ t0 = some (valS x)) :
    sqlEval ρ (.like t0 (patternOf (.lit .str n) t1 (preOf k) (sufOf k)).1
                        (patternOf (.lit .str n) t1 (preOf k) (sufOf k)).2) =
      some (v3ToVal (cmp2 (likeCI k) x (some n))) := by
  simp only [patternOf]
  by_cases hn : likeLit n = n
  · have he : (if (likeLit n != n) = true then some ['\\'] else (none : Option Str)) = none := by simp [hn]
    rw [he, sqlEval, h0, eval_str]
    cases x with
    | none => simp [cmp2, v3ToVal]
    | some h =>
      have := sqliteLike_lit_noesc k h n hn
      rw [List.append_assoc] at this
      simp [cmp2, v3ToVal_ofBool, hn, this]
  · have he : (if (likeLit n != n) = true then some ['\\'] else (none : Option Str)) = some ['\\'] := by simp [hn]
    rw [he, sqlEval, h0, eval_str]
    cases x with
    | none => simp [cmp2, v3ToVal]
    | some h =>
      have := sqliteLike_lit_esc k h n
      rw [List.append_assoc] at this
      simp [cmp2, v3ToVal_ofBool, this]

/-- the value of a computed pattern -/
theorem eval_pattern (k : LikeK) (b : Expr) (t1 : SqlTree) (y : Option Str) (hb : isStrLitE b = false)
    (h1 : sqlEval ρ t1 = some (valS y)) :
    sqlEval ρ (patternOf b t1 (preOf k) (sufOf k)).1 = some (valS (y.map (fun s => preOf k ++ s ++ sufOf k))) ∧
    (patternOf b t1 (preOf k) (sufOf k)).2 = none := by
  have hp : patternOf b t1 (preOf k) (sufOf k) =
      (if (sufOf k).isEmpty then (if (preOf k).isEmpty then t1 else .bin (S "||") (.str (preOf k)) t1)
       else .bin (S "||") (if (preOf k).isEmpty then t1 else .bin (S "||") (.str (preOf k)) t1) (.str (sufOf k)), none) := by
    unfold patternOf
    split
    · simp [isStrLitE] at hb
    · rfl
  rw [hp]
  refine ⟨?_, rfl⟩
  cases k
  · simp only [preOf, sufOf, List.isEmpty_cons, Bool.false_eq_true, if_false]
    have h2 := eval_concat ρ (.str ['%']) t1 (some ['%']) y (eval_str ρ _) h1
    have h3 := eval_concat ρ _ (.str ['%']) _ (some ['%']) h2 (eval_str ρ _)
    rw [h3]
    cases y <;> simp [lift2]
  · simp only [preOf, sufOf, List.isEmpty_cons, List.isEmpty_nil, Bool.false_eq_true, if_false, if_true]
    have h3 := eval_concat ρ t1 (.str ['%']) y (some ['%']) h1 (eval_str ρ _)
    rw [h3]
    cases y <;> simp [lift2]
  · simp only [preOf, sufOf, List.isEmpty_cons, List.isEmpty_nil, Bool.false_eq_true, if_false, if_true]
    have h2 := eval_concat ρ (.str ['%']) t1 (some ['%']) y (eval_str ρ _) h1
    rw [h2]
    cases y <;> simp [lift2]

theorem eval_like_computed (k : LikeK) (b : Expr) (t0 t1 : SqlTree) (x y : Option Str) (hb : isStrLitE b = false)
    (h0 : sqlEval ρ t0 = some (valS x)) (h1 : sqlEval ρ t1 = some (valS y))
    (hm : ∀ h n, x = some h → y = some n → hasLikeMeta n = false) :
    sqlEval ρ (.like t0 (patternOf b t1 (preOf k) (sufOf k)).1 (patternOf b t1 (preOf k) (sufOf k)).2) =
      some (v3ToVal (cmp2 (likeCI k) x y)) := by
  obtain ⟨hp, he⟩ := eval_pattern ρ k b t1 y hb h1
  rw [he, sqlEval, h0, hp]
  cases x with
  | none => cases y <;> simp [cmp2, v3ToVal]
  | some h =>
    cases y with
    | none => simp [cmp2, v3ToVal]
    | some n =>
      simp only [valS_some, Option.map_some, cmp2, v3ToVal_ofBool]
      rw [sqliteLike_computed k h n (hm h n rfl rfl)]
end

/-! ### Boolean literals and columns -/
section
variable (isD : Char → Bool) (ρ : Row)
theorem mirror_boolLit (b : Bool) :
    mir isD (.lit .bool (if b then "true".toList else "false".toList)) = some (.num (if b then ['1'] else ['0'])) := by
  cases b <;> rfl
theorem eval_boolLit (b : Bool) : sqlEval ρ (.num (if b then ['1'] else ['0'])) = some (v3ToVal (V3.ofBool b)) := by
  cases b
  · rw [if_neg (by decide), eval_num ρ ['0'] (by decide)]; rfl
  · rw [if_pos rfl, eval_num ρ ['1'] (by decide)]; rfl
end

end OQ.SqliteSound
