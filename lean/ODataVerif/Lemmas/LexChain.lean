/- Lemmas/LexChain.lean — lexing a rendered token list: per-token hypotheses `TokOk`, the adjacency condition `adj`,
   and the composition theorem `lex_chain` (for Props/C13Text.lean). -/
import ODataVerif.Lemmas.LexTok
namespace OQ.LexRender
open Spec
set_option linter.unusedSimpArgs false
set_option linter.unusedVariables false

def isLI : Tok → Bool
  | .lit _ _ => true
  | .ident _ => true
  | _ => false

/-- what is assumed of a literal / identifier token: spelled alone, in front of a blank, and between blanks,
    it is read back as itself (the blank in front as a WS token) -/
structure TokOk (t : Tok) : Prop where
  alone : lexOne E (spellTok t) = some (t, [])
  before : ∃ r, lexOne E (spellTok t ++ [' ']) = some (t, r)
  between : ∃ r, lexOne E (' ' :: spellTok t ++ [' ']) = some (.ws, r)

theorem lexOne_nil : lexOne E [] = none := by decide +kernel

theorem range_sub {c : Char} (h : inCharRange '0' '9' c = false) :
    inCharRange '0' '1' c = false ∧ c ≠ '2' := by
  simp only [inCharRange, le_char_iff, Bool.and_eq_false_iff, decide_eq_false_iff_not] at h ⊢
  have e0 : '0'.toNat = 48 := rfl
  have e1 : '1'.toNat = 49 := rfl
  have e9 : '9'.toNat = 57 := rfl
  refine ⟨by omega, ?_⟩
  rintro rfl
  have : '2'.toNat = 50 := rfl
  omega

theorem space_headFacts {c : Char} (h : E.isSpace c = true) : HeadFacts E c ∧ c ≠ '\'' ∧ c ≠ '+' ∧ c ≠ '-' := by
  obtain ⟨hdg, hid, hci, hq, hp, hm, hhex, h09⟩ := space_imp c h
  obtain ⟨h01, h2⟩ := range_sub h09
  exact ⟨⟨hci _ (by decide), hci _ (by decide), hci _ (by decide), hci _ (by decide), hci _ (by decide),
    hci _ (by decide), hhex, h01, h2, hdg, hid⟩, hq, hp, hm⟩

/-- a token that lexes as a literal or identifier does not start with a space -/
theorem li_head_ns {c : Char} {x r : List Char} {t : Tok} (ht : isLI t = true) (h : lexOne E (c :: x) = some (t, r)) :
    E.isSpace c = false := by
  cases hs : E.isSpace c with
  | false => rfl
  | true =>
    exfalso
    obtain ⟨hf, hq, hp, hm⟩ := space_headFacts hs
    cases t with
    | lit k v =>
      have := lexOne_lit_inv h
      rw [litRules_head _ hf hq hp hm] at this
      cases this
    | ident i =>
      have hl := src_ident_letter (lexOne_src h)
      have := (letter_imp c hl).2.1
      rw [hs] at this; cases this
    | _ => simp [isLI] at ht

theorem TokOk.head {t : Tok} (ht : isLI t = true) (h : TokOk t) :
    ∃ c s0, spellTok t = c :: s0 ∧ E.isSpace c = false := by
  have ha := h.alone
  cases hs : spellTok t with
  | nil => rw [hs, lexOne_nil] at ha; cases ha
  | cons c s0 =>
    rw [hs] at ha
    exact ⟨c, s0, rfl, li_head_ns ht ha⟩


theorem span1_stable {r0 : List Char} (h : span1 E.isSpace (r0 ++ [' ']) = none) (tl : List Char) :
    span1 E.isSpace (r0 ++ tl) = none := by
  cases r0 with
  | nil => simp [span1, span, space_blank] at h
  | cons c r1 =>
    have hc : E.isSpace c = false := by
      cases hc : E.isSpace c with
      | false => rfl
      | true => simp [span1, span, hc] at h
    exact span1_head hc

theorem scanNot_stable {s : List Char} (h : scanNot E (s ++ [' ']) = none) (rest : List Char) :
    scanNot E (s ++ ' ' :: rest) = none := by
  simp only [scanNot, Option.bind_eq_bind] at h ⊢
  rw [kw_ext E ' ' _ _ s (delim_blank.kwl _)] at h ⊢
  cases hk : kw E "not".toList s with
  | none => simp
  | some y =>
    rw [hk] at h
    simp only [ext_some, Option.bind_some] at h ⊢
    have h1 : span1 E.isSpace (y.2 ++ [' ']) = none := by
      cases hsp : span1 E.isSpace (y.2 ++ [' ']) with
      | none => rfl
      | some z => rw [hsp] at h; simp at h
    rw [span1_stable h1]; rfl

/-- the tail that follows a token in a rendering: nothing, or something starting with a delimiter -/
def DelimTail (tl : List Char) : Prop := tl = [] ∨ ∃ d rest, tl = d :: rest ∧ isDelim d = true

theorem scanOp_stable {w s : List Char} {c : Char} {s0 : List Char} (hs : s = c :: s0) (hc : E.isSpace c = false)
    (hw : ∀ p ∈ w, p ∈ patChars)
    (h : scanOp E w (' ' :: s ++ [' ']) = none) {tl : List Char} (htl : DelimTail tl) :
    scanOp E w (' ' :: s ++ tl) = none := by
  subst hs
  have hx : ∀ y, headNS ((c :: s0) ++ y) := fun y => headNS_cons hc
  rw [List.cons_append, scanOp_blank w (hx _)] at h ⊢
  rw [kw_ext E ' ' _ _ _ (delim_blank.kwl _ hw)] at h
  have hk : kw E w ((c :: s0) ++ tl) = ext (kw E w (c :: s0)) tl := by
    rcases htl with rfl | ⟨d, rest, rfl, hd⟩
    · simp; cases kw E w (c :: s0) <;> simp
    · exact kw_ext E d rest _ _ ((delim_of hd).kwl _ hw)
  rw [hk]
  cases hkw : kw E w (c :: s0) with
  | none => simp
  | some y =>
    rw [hkw] at h
    simp only [ext_some, Option.bind_some] at h ⊢
    have h1 : span1 E.isSpace (y.2 ++ [' ']) = none := by
      cases hsp : span1 E.isSpace (y.2 ++ [' ']) with
      | none => rfl
      | some z => rw [hsp] at h; simp at h
    rw [span1_stable h1]; rfl

theorem allOps_pat : ∀ e ∈ allOps, ∀ p ∈ e.2, p ∈ patChars := by decide +kernel

theorem TokOk.ws {t : Tok} (ht : isLI t = true) (h : TokOk t) {tl : List Char} (htl : DelimTail tl) :
    lexOne E (' ' :: spellTok t ++ tl) = some (.ws, spellTok t ++ tl) := by
  obtain ⟨c, s0, hs, hc⟩ := h.head ht
  obtain ⟨r, hb⟩ := h.between
  have hops := lexOne_ws_ops hb
  rw [List.cons_append]
  refine lexOne_ws _ (by rw [hs]; exact headNS_cons hc) ?_
  intro e he
  have := scanOp_stable hs hc (allOps_pat e he) (hops e he) htl
  rwa [List.cons_append] at this

theorem TokOk.follow {t : Tok} (ht : isLI t = true) (h : TokOk t) {d : Char} (rest : List Char)
    (hd : isDelim d = true) (hcolon : d = ':' → ∃ i, t = .ident i) :
    lexOne E (spellTok t ++ d :: rest) = some (t, d :: rest) := by
  cases t with
  | lit k v =>
    refine lexOne_ext_lit rest h.alone hd ?_
    intro hdc
    obtain ⟨i, hi⟩ := hcolon hdc
    cases hi
  | ident i =>
    refine lexOne_ext_ident rest h.alone hd ?_
    intro _
    obtain ⟨r, hb⟩ := h.before
    exact scanNot_stable (lexOne_ident_scanNot hb) rest
  | _ => simp [isLI] at ht


theorem scanWord_head_inv {env : CharEnv} {p c : Char} {ps x : List Char} {y} (h : scanWord env (p :: ps) (c :: x) = some y) :
    ciChar env p c = true := by
  cases hc : ciChar env p c with
  | true => rfl
  | false => rw [scanWord_head hc] at h; cases h

/-- a literal that is not an unsigned number, or an identifier, does not start with a digit -/
theorem TokOk.nodigit {t : Tok} (ht : isLI t = true) (h : TokOk t) (hu : isUnsignedNumber t = false) (tl : List Char) :
    span1 E.isDigit (spellTok t ++ tl) = none := by
  obtain ⟨c, s0, hs, hc⟩ := h.head ht
  rw [hs, List.cons_append]
  apply span1_head
  cases hdg : E.isDigit c with
  | false => rfl
  | true =>
    exfalso
    obtain ⟨-, hnl, h95, h39, h43, h45, -⟩ := isDigit_imp c hdg
    have ha := h.alone
    rw [hs] at ha
    cases t with
    | ident i =>
      have := src_ident_letter (lexOne_src ha)
      rcases this with h1 | h1
      · exact hnl h1
      · exact h95 h1
    | lit k v =>
      cases k with
      | null =>
        rw [show spellTok (Tok.lit .null v) = 'n' :: ['u', 'l', 'l'] from rfl] at hs
        cases hs; exact absurd hdg (by decide +kernel)
      | str =>
        rw [show spellTok (Tok.lit .str v) = '\'' :: (quoteStr v ++ ['\'']) from rfl] at hs
        cases hs; exact absurd hdg (by decide +kernel)
      | geo =>
        rw [show spellTok (Tok.lit .geo v) = 'g' :: ("eography'".toList ++ v ++ ['\'']) from rfl] at hs
        cases hs; exact absurd hdg (by decide +kernel)
      | duration =>
        rw [show spellTok (Tok.lit .duration v) = 'd' :: ("uration'".toList ++ v ++ ['\'']) from rfl] at hs
        cases hs; exact absurd hdg (by decide +kernel)
      | int =>
        rw [show spellTok (Tok.lit .int v) = v from rfl] at hs; subst hs
        have h1 : c ≠ '-' := by rintro rfl; exact h45 rfl
        have h2 : c ≠ '+' := by rintro rfl; exact h43 rfl
        simp [isUnsignedNumber, h1, h2] at hu
      | float =>
        rw [show spellTok (Tok.lit .float v) = v from rfl] at hs; subst hs
        have h1 : c ≠ '-' := by rintro rfl; exact h45 rfl
        have h2 : c ≠ '+' := by rintro rfl; exact h43 rfl
        simp [isUnsignedNumber, h1, h2] at hu
      | bool =>
        have hsrc : scanWord E "true".toList (c :: s0) = some (v, []) ∨ scanWord E "false".toList (c :: s0) = some (v, []) :=
          lexOne_src ha
        rcases hsrc with h1 | h1
        · exact hnl (ciChar_imp c 't' (by decide) (scanWord_head_inv (p := 't') (ps := ['r', 'u', 'e']) h1))
        · exact hnl (ciChar_imp c 'f' (by decide) (scanWord_head_inv (p := 'f') (ps := ['a', 'l', 's', 'e']) h1))
      | date => simp [isUnsignedNumber] at hu
      | time => simp [isUnsignedNumber] at hu
      | datetime => simp [isUnsignedNumber] at hu
      | guid => simp [isUnsignedNumber] at hu
    | _ => simp [isLI] at ht

/-- tokens that can start an operand -/
def startT : Tok → Bool
  | .lit _ _ | .ident _ | .not_ | .uminus | .lp => true
  | _ => false

/-- tokens that may follow a literal: `)`, `,`, a blank, a binary operator -/
def closeT : Tok → Bool
  | .rp | .comma | .ws | .arith _ | .cmp _ | .bool _ => true
  | _ => false

/-- tokens that may follow an identifier -/
def identFollowT : Tok → Bool
  | .lp | .slash | .colon | .eqs => true
  | t => closeT t

/-- may `t` be followed by `nxt` (`none`: end of text)?  `strict`: no unary minus directly before an unsigned number. -/
def adj (strict : Bool) (t : Tok) (nxt : Option Tok) : Bool :=
  match t with
  | .lit _ _ => (match nxt with | none => true | some u => closeT u)
  | .ident _ => (match nxt with | none => true | some u => identFollowT u)
  | .arith _ | .cmp _ | .bool _ | .not_ => (match nxt with | none => false | some u => startT u)
  | .uminus => (match nxt with | none => false | some u => (u == .ws || startT u) && !(strict && isUnsignedNumber u))
  | .any | .all => nxt == some .lp
  | .ws => (match nxt with | none => false | some u => startT u || u == .rp || u == .comma || u == .colon)
  | .lp | .rp | .comma | .slash | .colon | .eqs => true

def chainOk (strict : Bool) : List Tok → Prop
  | [] => True
  | t :: r => (isLI t = true → TokOk t) ∧ adj strict t r.head? = true ∧ chainOk strict r

/-- what the lexer reads: a WS token between a unary minus and an unsigned number (where `render` writes a blank) -/
def sep : List Tok → List Tok
  | [] => []
  | .uminus :: t :: rest =>
      if isUnsignedNumber t then .uminus :: .ws :: sep (t :: rest) else .uminus :: sep (t :: rest)
  | t :: rest => t :: sep rest

theorem render_cons {u : Tok} (hu : u ≠ .uminus) (r : List Tok) : render (u :: r) = spellTok u ++ render r := by
  cases u <;> first | rfl | exact absurd rfl hu

theorem render_uminus_head (r : List Tok) : ∃ x, render (.uminus :: r) = '-' :: x := by
  cases r with
  | nil => exact ⟨[], rfl⟩
  | cons t rest =>
    simp only [render]
    split
    · exact ⟨_, rfl⟩
    · exact ⟨_, rfl⟩

/-- the renderings of the tokens that may follow a literal / identifier start with a delimiter -/
theorem render_identFollow {u : Tok} (h : identFollowT u = true) (r : List Tok) :
    ∃ d x, render (u :: r) = d :: x ∧ isDelim d = true ∧ (d = ':' → u = .colon) := by
  cases u with
  | arith o => cases o <;> exact ⟨' ', _, rfl, by decide, by decide⟩
  | cmp o => cases o <;> exact ⟨' ', _, rfl, by decide, by decide⟩
  | bool o => cases o <;> exact ⟨' ', _, rfl, by decide, by decide⟩
  | ws => exact ⟨' ', _, rfl, by decide, by decide⟩
  | lp => exact ⟨'(', _, rfl, by decide, by decide⟩
  | rp => exact ⟨')', _, rfl, by decide, by decide⟩
  | comma => exact ⟨',', _, rfl, by decide, by decide⟩
  | slash => exact ⟨'/', _, rfl, by decide, by decide⟩
  | colon => exact ⟨':', _, rfl, by decide, fun _ => rfl⟩
  | eqs => exact ⟨'=', _, rfl, by decide, by decide⟩
  | _ => simp [identFollowT, closeT] at h


theorem headNS_render_start {u : Tok} (hs : startT u = true) (hok : isLI u = true → TokOk u) (r : List Tok) :
    headNS (render (u :: r)) := by
  cases u with
  | lit k v =>
    obtain ⟨c, s0, he, hc⟩ := (hok rfl).head rfl
    rw [render_cons (by simp), he]; exact headNS_cons hc
  | ident i =>
    obtain ⟨c, s0, he, hc⟩ := (hok rfl).head rfl
    rw [render_cons (by simp), he]; exact headNS_cons hc
  | not_ => exact headNS_cons (c := 'n') (by decide +kernel)
  | uminus =>
    obtain ⟨x, hx⟩ := render_uminus_head r
    rw [hx]; exact headNS_cons (by decide +kernel)
  | lp => exact headNS_cons (c := '(') (by decide +kernel)
  | _ => simp [startT] at hs

theorem nodigit_render {u : Tok} (hs : (u == .ws || startT u) = true) (hu : isUnsignedNumber u = false)
    (hok : isLI u = true → TokOk u) (r : List Tok) : span1 E.isDigit (render (u :: r)) = none := by
  cases u with
  | lit k v => rw [render_cons (by simp)]; exact (hok rfl).nodigit rfl hu _
  | ident i => rw [render_cons (by simp)]; exact (hok rfl).nodigit rfl hu _
  | not_ => exact span1_head (c := 'n') (by decide +kernel)
  | uminus =>
    obtain ⟨x, hx⟩ := render_uminus_head r
    rw [hx]; exact span1_head (by decide +kernel)
  | lp => exact span1_head (c := '(') (by decide +kernel)
  | ws => exact span1_head (c := ' ') (by decide +kernel)
  | _ => simp [startT] at hs

theorem delimTail_of_follow {rest : List Tok} (h : ∀ u, rest.head? = some u → identFollowT u = true) :
    DelimTail (render rest) := by
  cases rest with
  | nil => exact Or.inl rfl
  | cons u r =>
    obtain ⟨d, x, hx, hd, -⟩ := render_identFollow (h u rfl) r
    exact Or.inr ⟨d, x, hx, hd⟩

theorem closeT_identFollow {u : Tok} (h : closeT u = true) : identFollowT u = true := by
  cases u <;> simp_all [identFollowT, closeT]

/-- after a literal / identifier inside a chain comes nothing or a delimiter -/
theorem delimTail_after {strict : Bool} {t : Tok} {rest : List Tok} (ht : isLI t = true)
    (ha : adj strict t rest.head? = true) : DelimTail (render rest) := by
  apply delimTail_of_follow
  intro u hu
  rw [hu] at ha
  cases t with
  | lit k v => exact closeT_identFollow (by simpa [adj] using ha)
  | ident i => simpa [adj] using ha
  | _ => simp [isLI] at ht


theorem scanOp_kw_none {w x : List Char} (hx : headNS x) (hk : kw E w x = none) : scanOp E w (' ' :: x) = none := by
  rw [scanOp_blank w hx, hk]; rfl

theorem allOps_ne : ∀ e ∈ allOps, e.2 ≠ [] := by decide +kernel

theorem ops_none_head {c : Char} (x : List Char) (hc : E.isSpace c = false) (hci : ∀ p ∈ patChars, ciChar E p c = false) :
    ∀ e ∈ allOps, scanOp E e.2 (' ' :: c :: x) = none := by
  intro e he
  apply scanOp_kw_none (headNS_cons hc)
  have hne := allOps_ne e he
  have hp := allOps_pat e he
  cases hw : e.2 with
  | nil => exact absurd hw hne
  | cons p ps => exact kw_head (hci p (hp p (by rw [hw]; exact List.mem_cons_self)))

theorem minus_ci : ∀ p ∈ patChars, ciChar E p '-' = false := by decide +kernel
theorem not_kw : ∀ e ∈ allOps, kw E e.2 ['n', 'o', 't'] = none := by decide +kernel

def isBinT : Tok → Bool
  | .arith _ | .cmp _ | .bool _ => true
  | _ => false

def opWord : Tok → List Char
  | .arith o => (spellArith o).toList
  | .cmp o => (spellCmp o).toList
  | .bool o => (spellBool o).toList
  | _ => []

theorem opTok_spell (t : Tok) (h : isBinT t = true) :
    (t, opWord t) ∈ allOps ∧ spellTok t = ' ' :: opWord t ++ [' '] := by
  cases t with
  | arith o => cases o <;> exact ⟨by decide, rfl⟩
  | cmp o => cases o <;> exact ⟨by decide, rfl⟩
  | bool o => cases o <;> exact ⟨by decide, rfl⟩
  | _ => simp [isBinT] at h

theorem chain_head_start {strict : Bool} {t : Tok} {rest : List Tok}
    (ha : (match rest.head? with | none => false | some u => startT u) = true) (hrest : chainOk strict rest) :
    headNS (render rest) := by
  cases rest with
  | nil => simp at ha
  | cons u r => exact headNS_render_start (by simpa using ha) hrest.1 r

/-- one step of the lexer on a rendering whose first token is not a unary minus -/
theorem lex_step {strict : Bool} {t : Tok} {rest : List Tok} (hne : t ≠ .uminus)
    (hok : isLI t = true → TokOk t) (ha : adj strict t rest.head? = true) (hrest : chainOk strict rest) :
    lexOne E (spellTok t ++ render rest) = some (t, render rest) := by
  have hli : isLI t = true → lexOne E (spellTok t ++ render rest) = some (t, render rest) := by
    intro ht
    cases rest with
    | nil => simpa [render] using (hok ht).alone
    | cons u r =>
      have hf : identFollowT u = true := by
        cases t with
        | lit k v => exact closeT_identFollow (by simpa [adj] using ha)
        | ident i => simpa [adj] using ha
        | _ => simp [isLI] at ht
      obtain ⟨d, x, hx, hd, hcol⟩ := render_identFollow hf r
      rw [hx]
      refine (hok ht).follow ht x hd ?_
      intro hdc
      have hu := hcol hdc
      subst hu
      cases t with
      | lit k v => simp [adj, closeT] at ha
      | ident i => exact ⟨i, rfl⟩
      | _ => simp [isLI] at ht
  have hop : isBinT t = true →
      (match rest.head? with | none => false | some u => startT u) = true →
      lexOne E (spellTok t ++ render rest) = some (t, render rest) := by
    intro h1 h2
    obtain ⟨hmem, hsp⟩ := opTok_spell t h1
    have := lexOne_op hmem (render rest) (chain_head_start (t := t) h2 hrest)
    rw [hsp]
    simpa using this
  cases t with
  | lit k v => exact hli rfl
  | ident i => exact hli rfl
  | arith o => exact hop rfl (by simpa [adj] using ha)
  | cmp o => exact hop rfl (by simpa [adj] using ha)
  | bool o => exact hop rfl (by simpa [adj] using ha)
  | not_ =>
    have h2 : (match rest.head? with | none => false | some u => startT u) = true := by simpa [adj] using ha
    exact lexOne_not (render rest) (chain_head_start (t := .not_) h2 hrest)
  | uminus => exact absurd rfl hne
  | any =>
    cases rest with
    | nil => simp [adj] at ha
    | cons u r =>
      have : u = .lp := by simpa [adj] using ha
      subst this
      exact lexOne_any (render r)
  | all =>
    cases rest with
    | nil => simp [adj] at ha
    | cons u r =>
      have : u = .lp := by simpa [adj] using ha
      subst this
      exact lexOne_all (render r)
  | ws =>
    cases rest with
    | nil => simp [adj] at ha
    | cons u r =>
      obtain ⟨hok_u, ha_u, hr⟩ := hrest
      have hD : ∀ {c : Char}, isDelim c = true → c ≠ ' ' → ∀ x, lexOne E (' ' :: c :: x) = some (.ws, c :: x) := by
        intro c hc hcs x
        exact lexOne_ws _ (headNS_cons (delim_space hc hcs)) (ops_none_head x (delim_space hc hcs) (delim_of hc).ci)
      cases u with
      | lit k v =>
        have := (hok_u rfl).ws rfl (delimTail_after (t := .lit k v) rfl ha_u)
        rw [render_cons (by simp)]; exact this
      | ident i =>
        have := (hok_u rfl).ws rfl (delimTail_after (t := .ident i) rfl ha_u)
        rw [render_cons (by simp)]; exact this
      | not_ =>
        have hx : headNS (render (Tok.not_ :: r)) := headNS_cons (c := 'n') (by decide +kernel)
        refine lexOne_ws _ hx ?_
        intro e he
        apply scanOp_kw_none hx
        show kw E e.2 (['n', 'o', 't'] ++ ' ' :: render r) = none
        rw [kw_ext E ' ' _ _ _ (delim_blank.kwl _ (allOps_pat e he)), not_kw e he]; rfl
      | uminus =>
        obtain ⟨x, hx⟩ := render_uminus_head r
        rw [hx]
        exact lexOne_ws _ (headNS_cons (by decide +kernel)) (ops_none_head x (by decide +kernel) minus_ci)
      | lp => exact hD (c := '(') (by decide) (by decide) _
      | rp => exact hD (c := ')') (by decide) (by decide) _
      | comma => exact hD (c := ',') (by decide) (by decide) _
      | colon => exact hD (c := ':') (by decide) (by decide) _
      | _ => simp [adj, startT] at ha
  | lp => exact lexOne_lp _
  | rp => exact lexOne_rp _
  | comma => exact lexOne_comma _
  | slash => exact lexOne_slash _
  | colon => exact lexOne_colon _
  | eqs => exact lexOne_eqs _


theorem lexFuel_step {f pos : Nat} {cs r : List Char} {t : Tok} (h : lexOne E cs = some (t, r)) :
    lexFuel E (f + 1) pos cs =
      ⟨t :: (lexFuel E f (pos + (cs.length - r.length)) r).toks, (lexFuel E f (pos + (cs.length - r.length)) r).err⟩ := by
  cases cs with
  | nil => rw [lexOne_nil] at h; cases h
  | cons c x => simp only [lexFuel, h]

theorem spellTok_length_pos (t : Tok) (ht : isLI t = false) : 1 ≤ (spellTok t).length := by
  cases t with
  | arith o => cases o <;> decide
  | cmp o => cases o <;> decide
  | bool o => cases o <;> decide
  | lit k v => simp [isLI] at ht
  | ident i => simp [isLI] at ht
  | _ => decide

/-- MAIN COMPOSITION: a rendered token list satisfying the adjacency condition lexes back to its tokens, with a WS
    token where `render` separated a unary minus from an unsigned number -/
theorem lex_chain : ∀ (ts : List Tok), chainOk false ts → ∀ (f pos : Nat), (render ts).length < f →
    lexFuel E f pos (render ts) = ⟨sep ts, none⟩
  | [], _, f, pos, hf => by
      obtain ⟨f', rfl⟩ : ∃ f', f = f' + 1 := ⟨f - 1, by simp [render] at hf; omega⟩
      simp [render, lexFuel, sep]
  | t :: rest, hc, f, pos, hf => by
      obtain ⟨hok, ha, hrest⟩ := hc
      obtain ⟨f', rfl⟩ : ∃ f', f = f' + 1 := ⟨f - 1, by omega⟩
      by_cases hne : t = .uminus
      · subst hne
        cases rest with
        | nil => simp [adj] at ha
        | cons u r =>
          have ha' : ((u == .ws || startT u) = true) := by simpa [adj] using ha
          by_cases hu : isUnsignedNumber u = true
          · -- `- ` then the number
            have hul : isLI u = true := by
              cases u with
              | lit k v => rfl
              | _ => simp [isUnsignedNumber] at hu
            have hune : u ≠ .uminus := by rintro rfl; simp [isLI] at hul
            have hr1 : render (.uminus :: u :: r) = '-' :: ' ' :: render (u :: r) := by simp [render, hu]
            have hs1 : sep (.uminus :: u :: r) = .uminus :: .ws :: sep (u :: r) := by simp [sep, hu]
            have h1 : lexOne E ('-' :: ' ' :: render (u :: r)) = some (.uminus, ' ' :: render (u :: r)) :=
              lexOne_minus _ (span1_head (c := ' ') (by decide +kernel))
            have h2 : lexOne E (' ' :: render (u :: r)) = some (.ws, render (u :: r)) := by
              rw [render_cons hune]
              exact (hrest.1 hul).ws hul (delimTail_after hul hrest.2.1)
            rw [hr1] at hf ⊢
            obtain ⟨f'', rfl⟩ : ∃ f'', f' = f'' + 1 := ⟨f' - 1, by simp at hf; omega⟩
            rw [hs1, lexFuel_step h1, lexFuel_step h2,
              lex_chain (u :: r) hrest f'' _ (by simp at hf; omega)]
          · have hu' : isUnsignedNumber u = false := by simpa using hu
            have hr1 : render (.uminus :: u :: r) = '-' :: render (u :: r) := by simp [render, hu']
            have hs1 : sep (.uminus :: u :: r) = .uminus :: sep (u :: r) := by simp [sep, hu']
            have h1 : lexOne E ('-' :: render (u :: r)) = some (.uminus, render (u :: r)) :=
              lexOne_minus _ (nodigit_render ha' hu' hrest.1 r)
            rw [hr1] at hf ⊢
            rw [hs1, lexFuel_step h1, lex_chain (u :: r) hrest f' _ (by simp at hf; omega)]
      · have hr1 : render (t :: rest) = spellTok t ++ render rest := render_cons hne rest
        have hs1 : sep (t :: rest) = t :: sep rest := by
          cases t <;> first | rfl | exact absurd rfl hne
        have h1 := lex_step hne hok ha hrest
        have hlen : (render rest).length < (spellTok t ++ render rest).length := by
          have := lexOne_len E _ _ _ h1
          exact this
        rw [hr1] at hf ⊢
        rw [hs1, lexFuel_step h1, lex_chain rest hrest f' _ (by omega)]


theorem lexAll_chain (ts : List Tok) (h : chainOk false ts) : lexAll E (render ts) = ⟨sep ts, none⟩ :=
  lex_chain ts h _ 0 (Nat.lt_succ_self _)

theorem adj_mono {t : Tok} {nxt : Option Tok} (h : adj true t nxt = true) : adj false t nxt = true := by
  cases t <;> first | exact h | (cases nxt <;> simp_all [adj])

theorem chainOk_mono : ∀ (ts : List Tok), chainOk true ts → chainOk false ts
  | [], _ => trivial
  | t :: r, h => ⟨h.1, adj_mono h.2.1, chainOk_mono r h.2.2⟩

theorem sep_strict : ∀ (ts : List Tok), chainOk true ts → sep ts = ts
  | [], _ => rfl
  | [t], _ => by cases t <;> rfl
  | t :: u :: r, h => by
      have ih := sep_strict (u :: r) h.2.2
      by_cases ht : t = .uminus
      · subst ht
        have ha : isUnsignedNumber u = false := by
          have := h.2.1
          simp [adj] at this
          exact this.2
        simp only [sep, ha, ih]
        simp
      · have : sep (t :: u :: r) = t :: sep (u :: r) := by
          cases t <;> first | rfl | exact absurd rfl ht
        rw [this, ih]


end OQ.LexRender
