/- Lemmas/SqliteSound.lean — helper lemmas for Props/C01.lean (LIKE vs substring search, SUBSTR, 3VL, …). -/
import ODataVerif.Spec.ODataElab
import ODataVerif.Spec.SqlMirror
import ODataVerif.Model.SqlPieces
import ODataVerif.Lemmas.SqliteLike
namespace OQ.SqliteSound
open Spec SqliteLike

/-! ### the SQL value of an optional integer / string -/
def valI : Option Int → SqlVal
  | some z => .int z
  | none => .null
def valS : Option Str → SqlVal
  | some s => .text s
  | none => .null

@[simp] theorem valI_some (z : Int) : valI (some z) = .int z := rfl
@[simp] theorem valI_none : valI none = .null := rfl
@[simp] theorem valS_some (s : Str) : valS (some s) = .text s := rfl
@[simp] theorem valS_none : valS none = .null := rfl

@[simp] theorem v3_v3ToVal (x : V3) : (v3ToVal x).v3 = some x := by cases x <;> rfl

/-! ### equations of `mirror` (dialect sqlite, no alias) on the shapes the typed grammar produces -/
section
variable (isD : Char → Bool)

abbrev mir := mirror isD .sqlite none

theorem mirror_ident (c : Str) : mir isD (idE c) = some (.col none c) := rfl
theorem mirror_lit (k v) : mir isD (.lit k v) = litMirror isD .sqlite k v := rfl
theorem mirror_neg (e : Expr) : mir isD (.unary .neg e) = (mir isD e).bind (fun t => some (.un (S "-") t)) := rfl
theorem mirror_not (e : Expr) : mir isD (.unary .not_ e) = (mir isD e).bind (fun t => some (.un (S "NOT") t)) := rfl
theorem mirror_binop (op) (l r : Expr) : mir isD (.binop op l r) =
    (mir isD l).bind (fun l' => (mir isD r).bind (fun r' => some (.bin (arithName op) l' r'))) := rfl
theorem mirror_and (l r : Expr) : mir isD (.boolop .and_ l r) =
    (mir isD l).bind (fun l' => (mir isD r).bind (fun r' => some (.bin (S "AND") l' r'))) := rfl
theorem mirror_or (l r : Expr) : mir isD (.boolop .or_ l r) =
    (mir isD l).bind (fun l' => (mir isD r).bind (fun r' => some (.bin (S "OR") l' r'))) := rfl
theorem mirror_in (l : Expr) (xs : Exprs) : mir isD (.compare .in_ l (.list xs)) =
    (mir isD l).bind (fun l' => (mirrorList isD .sqlite none xs).bind (fun xs' => some (.inl l' xs'))) := rfl
theorem mirrorList_nil : mirrorList isD .sqlite none .nil = some .nil := rfl
theorem mirrorList_cons (h : Expr) (t : Exprs) : mirrorList isD .sqlite none (.cons h t) =
    (mir isD h).bind (fun h' => (mirrorList isD .sqlite none t).bind (fun t' => some (.cons h' t'))) := rfl
theorem mirror_isNull (c : Str) : mir isD (.compare .eq (idE c) (.lit .null [])) =
    some (.bin (S "IS") (.col none c) (.kw (S "NULL"))) := rfl
theorem mirror_isNotNull (c : Str) : mir isD (.compare .ne (idE c) (.lit .null [])) =
    some (.bin (S "ISNOT") (.col none c) (.kw (S "NULL"))) := rfl
theorem mirror_compare (op : CmpOp) (l r : Expr) (hop : op ≠ .in_) (hl : isNullLit l = false)
    (hr : isNullLit r = false) :
    mir isD (.compare op l r) =
      (mir isD l).bind (fun l' => (mir isD r).bind (fun r' => some (.bin (cmpName op) l' r'))) := by
  have hl' : ∀ v, l ≠ .lit .null v := by intro v h; subst h; simp [isNullLit] at hl
  have hr' : ∀ v, r ≠ .lit .null v := by intro v h; subst h; simp [isNullLit] at hr
  cases op <;> first
    | exact absurd rfl hop
    | (simp only [mir, mirror]
       cases mirror isD .sqlite none l <;> cases mirror isD .sqlite none r <;>
         first
         | rfl
         | (split <;> first | rfl | exact absurd rfl (hl' _) | exact absurd rfl (hr' _)))
theorem mirror_length (a : Expr) : mir isD (.call ⟨"length".toList, []⟩ (.cons a .nil)) =
    (mir isD a).bind (fun t => some (.call (S "LENGTH") (one t))) := rfl
theorem mirror_tolower (a : Expr) : mir isD (.call ⟨"tolower".toList, []⟩ (.cons a .nil)) =
    (mir isD a).bind (fun t => some (.call (S "LOWER") (one t))) := rfl
theorem mirror_toupper (a : Expr) : mir isD (.call ⟨"toupper".toList, []⟩ (.cons a .nil)) =
    (mir isD a).bind (fun t => some (.call (S "UPPER") (one t))) := rfl
theorem mirror_trim (a : Expr) : mir isD (.call ⟨"trim".toList, []⟩ (.cons a .nil)) =
    (mir isD a).bind (fun t => some (.call (S "TRIM") (one t))) := rfl
theorem mirror_concat (a b : Expr) : mir isD (.call ⟨"concat".toList, []⟩ (.cons a (.cons b .nil))) =
    (mir isD a).bind (fun t0 => (mir isD b).bind (fun t1 => some (.bin (S "||") t0 t1))) := rfl
theorem mirror_indexof (a b : Expr) (h : strOverload [inferType a, inferType b] = true) :
    mir isD (.call ⟨"indexof".toList, []⟩ (.cons a (.cons b .nil))) =
      (mir isD a).bind (fun t0 => (mir isD b).bind (fun t1 =>
        some (.bin (S "-") (.call (S "INSTR") (two t0 t1)) (.num ['1'])))) := by
  show (if strOverload [inferType a, inferType b] = true then _ else _) = _
  rw [if_pos h]; rfl
theorem mirror_substring2 (a b : Expr) (h : (isStrTy (inferType a) || inferType a == none) = true) :
    mir isD (.call ⟨"substring".toList, []⟩ (.cons a (.cons b .nil))) =
      (mir isD a).bind (fun t0 => (mir isD b).bind (fun t1 =>
        some (.call (S "SUBSTR") (two t0 (.bin (S "+") t1 (.num ['1'])))))) := by
  show (if (isStrTy (inferType a) || inferType a == none) = true then _ else _) = _
  rw [if_pos h]; rfl
theorem mirror_substring3 (a b c : Expr) (h : (isStrTy (inferType a) || inferType a == none) = true) :
    mir isD (.call ⟨"substring".toList, []⟩ (.cons a (.cons b (.cons c .nil)))) =
      (mir isD a).bind (fun t0 => (mir isD b).bind (fun t1 => (mir isD c).bind (fun t2 =>
        some (.call (S "SUBSTR") (three t0 (.bin (S "+") t1 (.num ['1'])) t2))))) := by
  show (if (isStrTy (inferType a) || inferType a == none) = true then _ else _) = _
  rw [if_pos h]; rfl


theorem mirror_like (k : LikeK) (a b : Expr) (h : strOverload [inferType a, inferType b] = true) :
    mir isD (.call ⟨k.name.toList, []⟩ (.cons a (.cons b .nil))) =
      (mir isD a).bind (fun t0 => (mir isD b).bind (fun t1 =>
        some (.like t0 (patternOf b t1 (preOf k) (sufOf k)).1 (patternOf b t1 (preOf k) (sufOf k)).2))) := by
  cases k <;>
  · show (if strOverload [inferType a, inferType b] = true then _ else _) = _
    rw [if_pos h]; rfl
end

/-! ### inferred types of the embedded terms -/
def strTy (t : Option Ty) : Prop := t = none ∨ t = some (.lit .str)

theorem inferType_concat (a b : Expr) : inferType (.call ⟨"concat".toList, []⟩ (.cons a (.cons b .nil))) =
    match inferType a with
    | some t => some t
    | none => inferType b := by
  rw [inferType]
  have : inferReturnRule (String.ofList (⟨"concat".toList, []⟩ : Ident).fullName) = .arg0or1 := by decide
  rw [this]
  simp only [inferFirst2]
  cases inferType a <;> rfl
theorem inferType_substring (a : Expr) (r : Exprs) :
    inferType (.call ⟨"substring".toList, []⟩ (.cons a r)) = inferType a := by
  rw [inferType]
  have : inferReturnRule (String.ofList (⟨"substring".toList, []⟩ : Ident).fullName) = .arg0 := by decide
  rw [this]
  simp [inferFirst]
theorem inferType_tolower (r : Exprs) : inferType (.call ⟨"tolower".toList, []⟩ r) = some (.lit .str) := by
  rw [inferType]
  have : inferReturnRule (String.ofList (⟨"tolower".toList, []⟩ : Ident).fullName) = .fixed (.lit .str) := by decide
  rw [this]
theorem inferType_toupper (r : Exprs) : inferType (.call ⟨"toupper".toList, []⟩ r) = some (.lit .str) := by
  rw [inferType]
  have : inferReturnRule (String.ofList (⟨"toupper".toList, []⟩ : Ident).fullName) = .fixed (.lit .str) := by decide
  rw [this]
theorem inferType_trim (r : Exprs) : inferType (.call ⟨"trim".toList, []⟩ r) = some (.lit .str) := by
  rw [inferType]
  have : inferReturnRule (String.ofList (⟨"trim".toList, []⟩ : Ident).fullName) = .fixed (.lit .str) := by decide
  rw [this]

theorem strTy_toExpr : (s : StrE) → strTy (inferType s.toExpr)
  | .lit s => by right; simp [StrE.toExpr, inferType]
  | .col c => by left; simp [StrE.toExpr, idE, inferType]
  | .concat a b => by
      have ha := strTy_toExpr a
      have hb := strTy_toExpr b
      rw [StrE.toExpr, inferType_concat]
      rcases ha with ha | ha <;> rw [ha]
      · exact hb
      · right; rfl
  | .substring s i => by rw [StrE.toExpr, inferType_substring]; exact strTy_toExpr s
  | .substring3 s i n => by rw [StrE.toExpr, inferType_substring]; exact strTy_toExpr s
  | .tolower s => by rw [StrE.toExpr, inferType_tolower]; right; rfl
  | .toupper s => by rw [StrE.toExpr, inferType_toupper]; right; rfl
  | .trim s => by rw [StrE.toExpr, inferType_trim]; right; rfl

theorem strOverload_of_strTy {t0 t1 : Option Ty} (h0 : strTy t0) (h1 : strTy t1) :
    strOverload [t0, t1] = true := by
  rcases h0 with h0 | h0 <;> rcases h1 with h1 | h1 <;> subst h0 <;> subst h1 <;> decide
theorem isStrTy_or_none_of_strTy {t : Option Ty} (h : strTy t) : (isStrTy t || t == none) = true := by
  rcases h with h | h <;> subst h <;> decide

/-! ### lifting of partial operations (the shape of `evalI` / `evalS` on compound terms) -/
def lift2 {α β γ} (f : α → β → Option γ) : Option α → Option β → Option γ
  | some a, some b => f a b
  | _, _ => none
def lift3 {α β γ δ} (f : α → β → γ → Option δ) : Option α → Option β → Option γ → Option δ
  | some a, some b, some c => f a b c
  | _, _, _ => none

/-! ### evaluation of the SQL trees, one node at a time -/
section
variable (ρ : Row)

theorem eval_num (ds : Str) (h : asciiDigits ds = true) : sqlEval ρ (.num ds) = some (.int (natOfDigits ds)) := by
  rw [sqlEval]
  simp only [asciiDigits, Bool.and_eq_true] at h
  simp [h.1, h.2]

theorem numOf_digits (ds : Str) (h : asciiDigits ds = true) : numOf ds = .num ds := by
  cases ds with
  | nil => rfl
  | cons c t =>
    have hc : isDig c = true := by
      simp only [asciiDigits, Bool.and_eq_true, List.all_cons] at h
      exact h.2.1
    unfold numOf
    split
    · rename_i heq
      cases heq
      exact absurd hc (by decide)
    · rename_i heq
      cases heq
      exact absurd hc (by decide)
    · rfl

theorem eval_intLit (neg : Bool) (ds : Str) (h : asciiDigits ds = true) :
    sqlEval ρ (numOf (if neg then '-' :: ds else ds)) =
      some (.int (if neg then -(natOfDigits ds : Int) else natOfDigits ds)) := by
  cases neg
  · simp only [Bool.false_eq_true, if_false]
    rw [numOf_digits ds h, eval_num ρ ds h]
  · simp only [if_true]
    show sqlEval ρ (.un ['-'] (.num ds)) = _
    rw [sqlEval, eval_num ρ ds h]
    simp [sx]

theorem eval_col (c : Str) : sqlEval ρ (.col none c) = some (SqlVal.ofVal (ρ.get c)) := by
  rw [sqlEval]

theorem eval_str (s : Str) : sqlEval ρ (.str s) = some (.text s) := by
  rw [sqlEval]

theorem eval_neg (t : SqlTree) (x : Option Int) (h : sqlEval ρ t = some (valI x)) :
    sqlEval ρ (.un (S "-") t) = some (valI (x.map (fun z => -z))) := by
  rw [sqlEval, h]
  cases x <;> simp [S, sx]

theorem arithVals_val (k : ArK) (x y : Option Int) :
    arithVals (arithName k.toOp) (valI x) (valI y) = some (valI (lift2 (arith k) x y)) := by
  cases k <;> cases x <;> cases y <;>
    simp [arithVals, arithName, ArK.toOp, S, sx, lift2] <;>
    (split <;> simp_all)

theorem eval_arith (k : ArK) (l r : SqlTree) (x y : Option Int)
    (hl : sqlEval ρ l = some (valI x)) (hr : sqlEval ρ r = some (valI y)) :
    sqlEval ρ (.bin (arithName k.toOp) l r) = some (valI (lift2 (arith k) x y)) := by
  rw [sqlEval, hl, hr, ← arithVals_val]
  cases k <;> simp [arithName, ArK.toOp, S, sx, isCmpOp, cmpOps]
end

section
variable (ρ : Row)

theorem evalList_one (t : SqlTree) (v : SqlVal) (h : sqlEval ρ t = some v) :
    sqlEvalList ρ (one t) = some [v] := by
  simp [one, sqlEvalList, h]
theorem evalList_two (t0 t1 : SqlTree) (v0 v1 : SqlVal) (h0 : sqlEval ρ t0 = some v0) (h1 : sqlEval ρ t1 = some v1) :
    sqlEvalList ρ (two t0 t1) = some [v0, v1] := by
  simp [two, sqlEvalList, h0, h1]
theorem evalList_three (t0 t1 t2 : SqlTree) (v0 v1 v2 : SqlVal) (h0 : sqlEval ρ t0 = some v0)
    (h1 : sqlEval ρ t1 = some v1) (h2 : sqlEval ρ t2 = some v2) :
    sqlEvalList ρ (three t0 t1 t2) = some [v0, v1, v2] := by
  simp [three, sqlEvalList, h0, h1, h2]

theorem eval_length (t : SqlTree) (x : Option Str) (h : sqlEval ρ t = some (valS x)) :
    sqlEval ρ (.call (S "LENGTH") (one t)) = some (valI (x.map (fun s => (s.length : Int)))) := by
  rw [sqlEval, evalList_one ρ t _ h]
  cases x <;> simp [S, sx]

theorem eval_lower (t : SqlTree) (x : Option Str) (h : sqlEval ρ t = some (valS x)) :
    sqlEval ρ (.call (S "LOWER") (one t)) = some (valS (x.map (List.map lowerA))) := by
  rw [sqlEval, evalList_one ρ t _ h]
  cases x <;> simp [S, sx]
theorem eval_upper (t : SqlTree) (x : Option Str) (h : sqlEval ρ t = some (valS x)) :
    sqlEval ρ (.call (S "UPPER") (one t)) = some (valS (x.map (List.map upperA))) := by
  rw [sqlEval, evalList_one ρ t _ h]
  cases x <;> simp [S, sx]
theorem eval_trim (t : SqlTree) (x : Option Str) (h : sqlEval ρ t = some (valS x)) :
    sqlEval ρ (.call (S "TRIM") (one t)) = some (valS (x.map trimSp)) := by
  rw [sqlEval, evalList_one ρ t _ h]
  cases x <;> simp [S, sx]

theorem eval_one : sqlEval ρ (.num ['1']) = some (.int 1) := by
  rw [eval_num ρ ['1'] (by decide)]; rfl

theorem eval_indexof (t0 t1 : SqlTree) (x y : Option Str)
    (h0 : sqlEval ρ t0 = some (valS x)) (h1 : sqlEval ρ t1 = some (valS y)) :
    sqlEval ρ (.bin (S "-") (.call (S "INSTR") (two t0 t1)) (.num ['1'])) =
      some (valI (lift2 (fun a b => some (indexOf a b)) x y)) := by
  have hc : sqlEval ρ (.call (S "INSTR") (two t0 t1)) =
      some (valI (lift2 (fun a b => some (instr a b)) x y)) := by
    rw [sqlEval, evalList_two ρ t0 t1 _ _ h0 h1]
    cases x <;> cases y <;> simp [S, sx, lift2]
  have := eval_arith ρ .sub _ _ _ (some 1) hc (eval_one ρ)
  rw [show arithName ArK.sub.toOp = S "-" from rfl] at this
  rw [this]
  cases x <;> cases y <;> simp [lift2, arith, instr]

theorem eval_concat (t0 t1 : SqlTree) (x y : Option Str)
    (h0 : sqlEval ρ t0 = some (valS x)) (h1 : sqlEval ρ t1 = some (valS y)) :
    sqlEval ρ (.bin (S "||") t0 t1) = some (valS (lift2 (fun a b => some (a ++ b)) x y)) := by
  rw [sqlEval, h0, h1]
  cases x <;> cases y <;> simp [S, sx, lift2]

theorem eval_plus1 (t : SqlTree) (k : Option Int) (h : sqlEval ρ t = some (valI k)) :
    sqlEval ρ (.bin (S "+") t (.num ['1'])) = some (valI (k.map (· + 1))) := by
  have := eval_arith ρ .add _ _ _ (some 1) h (eval_one ρ)
  rw [show arithName ArK.add.toOp = S "+" from rfl] at this
  rw [this]
  cases k <;> simp [lift2, arith]

theorem substr_shift (s : Str) (k : Int) (hk : 0 ≤ k) : substr s (k + 1) none = some (s.drop k.toNat) := by
  unfold substr
  have : ¬ (k + 1 < 1) := by omega
  simp only [this, if_false]
  congr 2
  omega
theorem substr_shift3 (s : Str) (k m : Int) (hk : 0 ≤ k) (hm : 0 ≤ m) :
    substr s (k + 1) (some m) = some ((s.drop k.toNat).take m.toNat) := by
  unfold substr
  have h1 : ¬ (k + 1 < 1) := by omega
  have h2 : ¬ (m < 0) := by omega
  simp only [h1, h2, if_false]
  congr 3
  omega

def nonnegO : Option Int → Bool
  | some k => decide (0 ≤ k)
  | none => true

theorem eval_substring2 (t0 t1 : SqlTree) (x : Option Str) (k : Option Int)
    (h0 : sqlEval ρ t0 = some (valS x)) (h1 : sqlEval ρ t1 = some (valI k)) (hk : nonnegO k = true) :
    sqlEval ρ (.call (S "SUBSTR") (two t0 (.bin (S "+") t1 (.num ['1'])))) =
      some (valS (lift2 (fun a i => some (a.drop i.toNat)) x k)) := by
  rw [sqlEval, evalList_two ρ _ _ _ _ h0 (eval_plus1 ρ t1 k h1)]
  cases x <;> cases k <;> simp [S, sx, lift2]
  rename_i s i
  simp only [nonnegO, decide_eq_true_eq] at hk
  rw [substr_shift s i hk]

theorem eval_substring3 (t0 t1 t2 : SqlTree) (x : Option Str) (k m : Option Int)
    (h0 : sqlEval ρ t0 = some (valS x)) (h1 : sqlEval ρ t1 = some (valI k)) (h2 : sqlEval ρ t2 = some (valI m))
    (hk : nonnegO k = true) (hm : nonnegO m = true) :
    sqlEval ρ (.call (S "SUBSTR") (three t0 (.bin (S "+") t1 (.num ['1'])) t2)) =
      some (valS (lift3 (fun a i n => some ((a.drop i.toNat).take n.toNat)) x k m)) := by
  rw [sqlEval, evalList_three ρ _ _ _ _ _ _ h0 (eval_plus1 ρ t1 k h1) h2]
  cases x <;> cases k <;> cases m <;> simp [S, sx, lift3]
  rename_i s i n
  simp only [nonnegO, decide_eq_true_eq] at hk hm
  rw [substr_shift3 s i n hk hm]
end

/-! ### Boolean level -/
def cmp2 {α β} (f : α → β → Bool) : Option α → Option β → V3
  | some a, some b => V3.ofBool (f a b)
  | _, _ => .unk

/-- `evalB` on `cmpB` -/
def cmpB3 (k : CmpK) : V3 → V3 → V3
  | .unk, _ | _, .unk => .unk
  | a, b => V3.ofBool (if k == .ne then a != b else a == b)

theorem v3ToVal_ofBool (b : Bool) : v3ToVal (V3.ofBool b) = .int (if b then 1 else 0) := by
  cases b <;> rfl

theorem isCmpOp_cmpName (k : CmpK) : isCmpOp (cmpName k.toOp) = true := by cases k <;> decide

theorem cmpVals_int (k : CmpK) (x y : Option Int) :
    cmpVals (cmpName k.toOp) (valI x) (valI y) = some (v3ToVal (cmp2 (cmpInt k) x y)) := by
  cases k <;> cases x <;> cases y <;>
    simp [cmpVals, cmpName, CmpK.toOp, S, sx, cmp2, v3ToVal_ofBool] <;> rfl
theorem cmpVals_str (k : CmpK) (x y : Option Str) :
    cmpVals (cmpName k.toOp) (valS x) (valS y) = some (v3ToVal (cmp2 (cmpStr k) x y)) := by
  cases k <;> cases x <;> cases y <;>
    simp [cmpVals, cmpName, CmpK.toOp, S, sx, cmp2, v3ToVal_ofBool] <;> rfl
theorem cmpVals_bool (k : CmpK) (hk : (k == .eq || k == .ne) = true) (a b : V3) :
    cmpVals (cmpName k.toOp) (v3ToVal a) (v3ToVal b) = some (v3ToVal (cmpB3 k a b)) := by
  cases k <;> first
    | (cases a <;> cases b <;> decide)
    | exact absurd hk (by decide)

section
variable (ρ : Row)

theorem eval_cmp (k : CmpK) (l r : SqlTree) (a b : SqlVal) (hl : sqlEval ρ l = some a) (hr : sqlEval ρ r = some b) :
    sqlEval ρ (.bin (cmpName k.toOp) l r) = cmpVals (cmpName k.toOp) a b := by
  rw [sqlEval, hl, hr]
  have h1 := isCmpOp_cmpName k
  have h2 : (cmpName k.toOp == sx "AND") = false := by cases k <;> decide
  have h3 : (cmpName k.toOp == sx "OR") = false := by cases k <;> decide
  have h4 : (cmpName k.toOp == sx "IS") = false := by cases k <;> decide
  have h5 : (cmpName k.toOp == sx "ISNOT") = false := by cases k <;> decide
  have h6 : (cmpName k.toOp == sx "||") = false := by cases k <;> decide
  simp [h1, h2, h3, h4, h5, h6]

theorem eval_and (l r : SqlTree) (a b : V3) (hl : sqlEval ρ l = some (v3ToVal a)) (hr : sqlEval ρ r = some (v3ToVal b)) :
    sqlEval ρ (.bin (S "AND") l r) = some (v3ToVal (V3.and a b)) := by
  rw [sqlEval, hl, hr]
  simp [S, sx, andVals]
theorem eval_or (l r : SqlTree) (a b : V3) (hl : sqlEval ρ l = some (v3ToVal a)) (hr : sqlEval ρ r = some (v3ToVal b)) :
    sqlEval ρ (.bin (S "OR") l r) = some (v3ToVal (V3.or a b)) := by
  rw [sqlEval, hl, hr]
  simp [S, sx, orVals]
theorem eval_not (t : SqlTree) (a : V3) (h : sqlEval ρ t = some (v3ToVal a)) :
    sqlEval ρ (.un (S "NOT") t) = some (v3ToVal (V3.not a)) := by
  rw [sqlEval, h]
  simp [S, sx]

theorem eval_kwNull : sqlEval ρ (.kw (S "NULL")) = some .null := by
  rw [sqlEval]; simp [S, sx]

theorem ofVal_eq_null (v : Val) : (SqlVal.ofVal v == .null) = (v == .null) := by
  cases v <;> rfl

theorem eval_isNull (c : Str) :
    sqlEval ρ (.bin (S "IS") (.col none c) (.kw (S "NULL"))) = some (v3ToVal (V3.ofBool (ρ.get c == .null))) := by
  rw [sqlEval, eval_col, eval_kwNull]
  simp only [S, sx]
  rw [v3ToVal_ofBool, ← ofVal_eq_null]
  simp
theorem eval_isNotNull (c : Str) :
    sqlEval ρ (.bin (S "ISNOT") (.col none c) (.kw (S "NULL"))) = some (v3ToVal (V3.ofBool (!(ρ.get c == .null)))) := by
  rw [sqlEval, eval_col, eval_kwNull]
  simp only [S, sx]
  rw [v3ToVal_ofBool, ← ofVal_eq_null]
  cases (SqlVal.ofVal (ρ.get c) == SqlVal.null) <;> simp
end

end OQ.SqliteSound
