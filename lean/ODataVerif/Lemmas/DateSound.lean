/-
  Lemmas/DateSound.lean — helper lemmas for Props/C01Date.lean: decimal numerals (`Nat.toDigits`, `dig2`, `dig4`) read back by
  `natOfDigits`, ISO spellings read back by `DateV.ofIso` are the spelling, node-by-node evaluation of `sqlEvalD`, and the shape
  facts (`litOk`, `sqlSafe`, totality of the SQLite visitor) for the image of `DateF` in the parser's AST.
-/
import ODataVerif.Spec.DateFilters
import ODataVerif.Props.DateOrder
import ODataVerif.Lemmas.SqliteSound
import ODataVerif.Lemmas.SqliteSoundB
import ODataVerif.Lemmas.TypedShape
namespace OQ.DateSound
open Spec SqliteSound TypedShape DateSem

/-! ### decimal numerals -/

theorem isDig_iff (c : Char) : isDig c = true ↔ 48 ≤ c.toNat ∧ c.toNat ≤ 57 := by
  unfold isDig
  rw [Bool.and_eq_true, decide_eq_true_eq, decide_eq_true_eq, char_le_iff, char_le_iff]
  exact Iff.rfl

theorem isDig_digitChar (k : Nat) : isDig (digitChar k) = true := by
  rw [isDig_iff, digitChar_toNat]; omega

theorem isDig_of_isDigit (c : Char) (h : c.isDigit = true) : isDig c = true := by
  rw [isDig_iff]
  simp only [Char.isDigit, Bool.and_eq_true, decide_eq_true_eq, UInt32.le_iff_toNat_le] at h
  exact h

theorem toDigits_all (n : Nat) : (Nat.toDigits 10 n).all isDig = true := by
  rw [List.all_eq_true]
  intro c hc
  exact isDig_of_isDigit c (Nat.isDigit_of_mem_toDigits (by decide) (by decide) hc)

theorem toDigits_ascii (n : Nat) : asciiDigits (Nat.toDigits 10 n) = true := by
  unfold asciiDigits
  rw [toDigits_all]
  have := @Nat.toDigits_ne_nil n 10
  cases h : Nat.toDigits 10 n with
  | nil => exact absurd h this
  | cons _ _ => rfl

theorem natOfDigits_eq (l : Str) (i : Nat) :
    l.foldl (fun acc c => acc * 10 + (c.toNat - '0'.toNat)) i = Nat.ofDigitChars 10 l i := by
  induction l generalizing i with
  | nil => rfl
  | cons c t ih =>
    rw [List.foldl_cons, ih, Nat.ofDigitChars_cons, Nat.mul_comm]

theorem natOfDigits_toDigits (n : Nat) : natOfDigits (Nat.toDigits 10 n) = n := by
  unfold natOfDigits
  rw [natOfDigits_eq, Nat.ofDigitChars_ten_toDigits]

theorem digit_sub (k : Nat) : (digitChar k).toNat - '0'.toNat = k % 10 := by
  rw [digitChar_toNat, show '0'.toNat = 48 from by decide]; omega

theorem natOfDigits_dig4 (y : Nat) (h : y < 10000) : natOfDigits (dig4 y) = y := by
  simp only [natOfDigits, dig4, List.foldl_cons, List.foldl_nil, digit_sub]
  omega

theorem natOfDigits_dig2 (m : Nat) (h : m < 100) : natOfDigits (dig2 m) = m := by
  simp only [natOfDigits, dig2, List.foldl_cons, List.foldl_nil, digit_sub]
  omega

theorem dig4_ascii (y : Nat) : ((dig4 y).all isDig && !(dig4 y).isEmpty) = true := by
  simp [dig4, isDig_digitChar]
theorem dig2_ascii (y : Nat) : ((dig2 y).all isDig && !(dig2 y).isEmpty) = true := by
  simp [dig2, isDig_digitChar]

/-! ### dates -/

theorem daysIn_le (y m : Nat) : daysIn y m ≤ 31 := by
  unfold daysIn
  split
  · split <;> omega
  · split <;> omega

theorem valid_bounds (a : DateV) (h : a.valid = true) :
    1 ≤ a.y ∧ a.y ≤ 9999 ∧ 1 ≤ a.m ∧ a.m ≤ 12 ∧ 1 ≤ a.d ∧ a.d ≤ 31 := by
  simp only [DateV.valid, Bool.and_eq_true, decide_eq_true_eq] at h
  have := daysIn_le a.y a.m
  omega

theorem valid_wf (a : DateV) (h : a.valid = true) : a.wf = true := by
  have := valid_bounds a h
  simp only [DateV.wf, Bool.and_eq_true, decide_eq_true_eq]
  omega

theorem digitVal_some (c : Char) (k : Nat) (h : digitVal c = some k) : c = digitChar k ∧ k < 10 := by
  unfold digitVal at h
  split at h
  · rename_i hc
    rw [char_le_iff, char_le_iff, show '0'.toNat = 48 from by decide, show '9'.toNat = 57 from by decide] at hc
    cases h
    refine ⟨?_, by omega⟩
    rw [← Char.toNat_inj, digitChar_toNat]; omega
  · cases h

/-- what `ofIso` reads is the ISO spelling of what it returns -/
theorem iso_of_ofIso (s : Str) (a : DateV) (h : DateV.ofIso s = some a) : a.iso = s := by
  unfold DateV.ofIso at h
  split at h
  · split at h
    · rename_i y1 y2 y3 y4 m1 m2 d1 d2 a' b c d e f g h' h1 h2 h3 h4 h5 h6 h7 h8
      cases h
      obtain ⟨e1, l1⟩ := digitVal_some _ _ h1
      obtain ⟨e2, l2⟩ := digitVal_some _ _ h2
      obtain ⟨e3, l3⟩ := digitVal_some _ _ h3
      obtain ⟨e4, l4⟩ := digitVal_some _ _ h4
      obtain ⟨e5, l5⟩ := digitVal_some _ _ h5
      obtain ⟨e6, l6⟩ := digitVal_some _ _ h6
      obtain ⟨e7, l7⟩ := digitVal_some _ _ h7
      obtain ⟨e8, l8⟩ := digitVal_some _ _ h8
      subst e1 e2 e3 e4 e5 e6 e7 e8
      simp only [DateV.iso, dig4, dig2, List.cons_append, List.nil_append, List.cons.injEq, digitChar_eq_iff, and_true,
        true_and]
      omega
    · cases h
  · cases h

/-- a cell allowed by `rowOk`: NULL, or the ISO spelling of a valid date -/
theorem cell_cases (v : Val) (h : (v == .null || (cellDate v).isSome) = true) :
    (v = .null ∧ cellDate v = none) ∨ ∃ a, a.valid = true ∧ v = .str a.iso ∧ cellDate v = some a := by
  cases v with
  | null => exact .inl ⟨rfl, rfl⟩
  | int z => simp [cellDate] at h
  | str s =>
    right
    have h' : (cellDate (.str s)).isSome = true := by simpa using h
    unfold cellDate at h' ⊢
    dsimp only at h' ⊢
    cases ho : DateV.ofIso s with
    | none => rw [ho] at h'; simp at h'
    | some a =>
      rw [ho] at h'
      dsimp only at h' ⊢
      by_cases hv : a.valid = true
      · refine ⟨a, hv, ?_, ?_⟩
        · rw [iso_of_ofIso s a ho]
        · rw [if_pos hv]
      · rw [if_neg hv] at h'; simp at h'

theorem cmpDate_flip (k : CmpK) (a l : DateV) : cmpDate k l a = cmpDate (flipK k) a l := by
  have h : (l == a) = (a == l) := by
    rw [Bool.eq_iff_iff]; simp only [beq_iff_eq]; exact eq_comm
  cases k <;> simp only [cmpDate, flipK, bne, h]

theorem cmpOpOf_eq (k : CmpK) : cmpOpOf k = k.toOp := by cases k <;> rfl

/-! ### `sqlEvalD`, one node at a time -/
section
variable (ρ : Row)

theorem evalD_col (c : Str) : sqlEvalD ρ (.col none c) = some (SqlVal.ofVal (ρ.get c)) := by rw [sqlEvalD]
theorem evalD_str (s : Str) : sqlEvalD ρ (.str s) = some (.text s) := by rw [sqlEvalD]
theorem evalD_num (ds : Str) (h : asciiDigits ds = true) : sqlEvalD ρ (.num ds) = some (.int (natOfDigits ds)) := by
  rw [sqlEvalD]
  simp only [asciiDigits, Bool.and_eq_true] at h
  simp [h.1, h.2]

theorem evalD_not (t : SqlTree) (a : V3) (h : sqlEvalD ρ t = some (v3ToVal a)) :
    sqlEvalD ρ (.un (S "NOT") t) = some (v3ToVal (V3.not a)) := by
  rw [sqlEvalD, h]
  simp [S, sx]
theorem evalD_and (l r : SqlTree) (a b : V3) (hl : sqlEvalD ρ l = some (v3ToVal a)) (hr : sqlEvalD ρ r = some (v3ToVal b)) :
    sqlEvalD ρ (.bin (S "AND") l r) = some (v3ToVal (V3.and a b)) := by
  rw [sqlEvalD, hl, hr]
  simp [S, sx, andVals]
theorem evalD_or (l r : SqlTree) (a b : V3) (hl : sqlEvalD ρ l = some (v3ToVal a)) (hr : sqlEvalD ρ r = some (v3ToVal b)) :
    sqlEvalD ρ (.bin (S "OR") l r) = some (v3ToVal (V3.or a b)) := by
  rw [sqlEvalD, hl, hr]
  simp [S, sx, orVals]

theorem evalD_cmp (k : CmpK) (l r : SqlTree) (a b : SqlVal) (hl : sqlEvalD ρ l = some a) (hr : sqlEvalD ρ r = some b) :
    sqlEvalD ρ (.bin (cmpName k.toOp) l r) = cmpVals (cmpName k.toOp) a b := by
  rw [sqlEvalD, hl, hr]
  have h1 := isCmpOp_cmpName k
  have h2 : (cmpName k.toOp == sx "AND") = false := by cases k <;> decide
  have h3 : (cmpName k.toOp == sx "OR") = false := by cases k <;> decide
  simp [h1, h2, h3]

theorem evalDList_one (t : SqlTree) (v : SqlVal) (h : sqlEvalD ρ t = some v) : sqlEvalDList ρ (one t) = some [v] := by
  rw [one, sqlEvalDList, h, sqlEvalDList]
theorem evalDList_two (t0 t1 : SqlTree) (v0 v1 : SqlVal) (h0 : sqlEvalD ρ t0 = some v0) (h1 : sqlEvalD ρ t1 = some v1) :
    sqlEvalDList ρ (two t0 t1) = some [v0, v1] := by
  rw [two, sqlEvalDList, h0, sqlEvalDList, h1, sqlEvalDList]

/-- `DATE('yyyy-mm-dd')` of a valid date is that text -/
theorem evalD_dateLit (l : DateV) (hv : l.valid = true) :
    sqlEvalD ρ (.call (S "DATE") (one (.str l.iso))) = some (.text l.iso) := by
  rw [sqlEvalD, evalDList_one ρ _ _ (evalD_str ρ _)]
  simp only [S, sx, beq_self_eq_true, if_true, sqliteDateFn, ofIso_iso l (valid_wf l hv), hv]

end

/-! ### cells -/

/-- the ISO text of a cell, if it is not NULL -/
def cellIso (v : Val) : Option Str := (cellDate v).map DateV.iso

theorem cell_val (v : Val) (h : (v == .null || (cellDate v).isSome) = true) : SqlVal.ofVal v = valS (cellIso v) := by
  rcases cell_cases v h with ⟨h1, h2⟩ | ⟨a, _, h1, h2⟩
  · rw [cellIso, h2, h1]; rfl
  · rw [cellIso, h2, h1]; rfl

theorem cell_valid (v : Val) (a : DateV) (h : cellDate v = some a) : a.valid = true := by
  cases v with
  | null => cases h
  | int z => cases h
  | str s =>
    unfold cellDate at h
    dsimp only at h
    split at h
    · split at h
      · cases h; assumption
      · cases h
    · cases h

theorem cmp_cell (k : CmpK) (l : DateV) (hl : l.valid = true) (v : Val) :
    cmp2 (cmpStr k) (cellIso v) (some l.iso) = dateHolds k l (cellDate v) := by
  unfold cellIso
  cases hc : cellDate v with
  | none => rfl
  | some a =>
    show V3.ofBool (cmpStr k a.iso l.iso) = V3.ofBool (cmpDate k a l)
    rw [cmp_iso k a l (valid_wf a (cell_valid v a hc)) (valid_wf l hl)]

theorem cmpR_cell (k : CmpK) (l : DateV) (hl : l.valid = true) (v : Val) :
    cmp2 (cmpStr k) (some l.iso) (cellIso v) = dateHolds (flipK k) l (cellDate v) := by
  unfold cellIso
  cases hc : cellDate v with
  | none => rfl
  | some a =>
    show V3.ofBool (cmpStr k l.iso a.iso) = V3.ofBool (cmpDate (flipK k) a l)
    rw [cmp_iso k l a (valid_wf l hl) (valid_wf a (cell_valid v a hc)), cmpDate_flip]

/-! ### IN lists of date literals -/
def dateTree (l : DateV) : SqlTree := .call (S "DATE") (one (.str l.iso))
def dateTrees : List DateV → SqlTrees
  | [] => .nil
  | l :: t => .cons (dateTree l) (dateTrees t)

theorem evalD_dateTree (ρ : Row) (l : DateV) (hv : l.valid = true) : sqlEvalD ρ (dateTree l) = some (.text l.iso) :=
  evalD_dateLit ρ l hv

theorem V3.or_ofBool (p q : Bool) : V3.or (V3.ofBool p) (V3.ofBool q) = V3.ofBool (p || q) := by
  cases p <;> cases q <;> rfl

theorem inVals_dates_null (ls : List DateV) :
    inVals .null (ls.map (fun l => SqlVal.text l.iso)) = some (if ls.isEmpty then .ff else .unk) := by
  induction ls with
  | nil => rfl
  | cons l t ih =>
    rw [List.map_cons, inVals, ih]
    have : eqForIn .null (.text l.iso) = some .unk := eqForIn_str none (some l.iso)
    rw [this]
    cases t <;> rfl

theorem inVals_dates_text (a : DateV) (ha : a.valid = true) (ls : List DateV) (hls : ls.all DateV.valid = true) :
    inVals (.text a.iso) (ls.map (fun l => SqlVal.text l.iso)) = some (V3.ofBool (ls.contains a)) := by
  induction ls with
  | nil => rfl
  | cons l t ih =>
    simp only [List.all_cons, Bool.and_eq_true] at hls
    rw [List.map_cons, inVals, ih hls.2]
    have h1 : eqForIn (.text a.iso) (.text l.iso) = some (V3.ofBool (a.iso == l.iso)) := eqForIn_str (some a.iso) (some l.iso)
    have h2 : (a.iso == l.iso) = (a == l) := by
      rw [Bool.eq_iff_iff]; simp only [beq_iff_eq]
      exact ⟨iso_inj a l (valid_wf a ha) (valid_wf l hls.1), fun h => by rw [h]⟩
    rw [h1, h2]
    simp only [V3.or_ofBool, List.contains_cons]

theorem in_cell (ls : List DateV) (hne : ls.isEmpty = false) (hls : ls.all DateV.valid = true) (v : Val) :
    inVals (valS (cellIso v)) (ls.map (fun l => SqlVal.text l.iso)) = some (dateIn ls (cellDate v)) := by
  unfold cellIso
  cases hc : cellDate v with
  | none =>
    show inVals .null _ = _
    rw [inVals_dates_null, hne]; rfl
  | some a =>
    show inVals (.text a.iso) _ = _
    rw [inVals_dates_text a (cell_valid v a hc) ls hls]; rfl

section
variable (ρ : Row)

theorem evalD_dateTrees (ls : List DateV) (hls : ls.all DateV.valid = true) :
    sqlEvalDList ρ (dateTrees ls) = some (ls.map (fun l => SqlVal.text l.iso)) := by
  induction ls with
  | nil => rw [dateTrees, sqlEvalDList]; rfl
  | cons l t ih =>
    simp only [List.all_cons, Bool.and_eq_true] at hls
    rw [dateTrees, sqlEvalDList, dateTree, evalD_dateLit ρ l hls.1, ih hls.2]; rfl

theorem evalD_in (t : SqlTree) (ts : SqlTrees) (x : SqlVal) (vs : List SqlVal) (r : V3)
    (ht : sqlEvalD ρ t = some x) (hts : sqlEvalDList ρ ts = some vs) (hr : inVals x vs = some r) :
    sqlEvalD ρ (.inl t ts) = some (v3ToVal r) := by
  rw [sqlEvalD, ht, hts]
  simp [hr]

/-! ### year / month / day -/
def partFmt : DatePart → String
  | .year => "%Y" | .month => "%m" | .day => "%d"

def partTree (p : DatePart) (c : Str) : SqlTree :=
  .cast (.call (S "STRFTIME") (two (.str (S (partFmt p))) (.col none c))) (S "INTEGER")

def cellPart (p : DatePart) (v : Val) : Option Int := (cellDate v).map (fun a => (a.part p : Int))

theorem evalD_strftime (fmt : Str) (t : SqlTree) (v : SqlVal) (h : sqlEvalD ρ t = some v) :
    sqlEvalD ρ (.call (S "STRFTIME") (two (.str fmt) t)) = sqliteStrftime fmt v := by
  rw [sqlEvalD, evalDList_two ρ _ _ _ _ (evalD_str ρ _) h]
  simp [S, sx]

theorem evalD_castInt (e : SqlTree) (v : SqlVal) (h : sqlEvalD ρ e = some v) :
    sqlEvalD ρ (.cast e (S "INTEGER")) = sqliteCastInt v := by
  rw [sqlEvalD, h]
  simp [S, sx]

theorem strftime_cast (p : DatePart) (a : DateV) (hv : a.valid = true) :
    (sqliteStrftime (S (partFmt p)) (.text a.iso)).bind sqliteCastInt = some (.int (a.part p)) := by
  have hb := valid_bounds a hv
  unfold sqliteStrftime
  simp only [ofIso_iso a (valid_wf a hv), hv]
  cases p
  · show sqliteCastInt (SqlVal.text (dig4 a.y)) = _
    simp only [sqliteCastInt, dig4_ascii, if_true, natOfDigits_dig4 a.y (by omega)]; rfl
  · show sqliteCastInt (SqlVal.text (dig2 a.m)) = _
    simp only [sqliteCastInt, dig2_ascii, if_true, natOfDigits_dig2 a.m (by omega)]; rfl
  · show sqliteCastInt (SqlVal.text (dig2 a.d)) = _
    simp only [sqliteCastInt, dig2_ascii, if_true, natOfDigits_dig2 a.d (by omega)]; rfl

theorem evalD_partTree (p : DatePart) (c : Str) (h : (ρ.get c == .null || (cellDate (ρ.get c)).isSome) = true) :
    sqlEvalD ρ (partTree p c) = some (valI (cellPart p (ρ.get c))) := by
  unfold partTree cellPart
  rcases cell_cases _ h with ⟨h1, h2⟩ | ⟨a, hv, h1, h2⟩
  · rw [h2]
    have e1 : sqlEvalD ρ (.call (S "STRFTIME") (two (.str (S (partFmt p))) (.col none c))) = some .null := by
      rw [evalD_strftime ρ _ _ _ (evalD_col ρ c), h1]; rfl
    rw [evalD_castInt ρ _ _ e1]; rfl
  · rw [h2]
    have hs := strftime_cast p a hv
    cases hf : sqliteStrftime (S (partFmt p)) (.text a.iso) with
    | none => rw [hf] at hs; cases hs
    | some w =>
      rw [hf] at hs
      have e1 : sqlEvalD ρ (.call (S "STRFTIME") (two (.str (S (partFmt p))) (.col none c))) = some w := by
        rw [evalD_strftime ρ _ _ _ (evalD_col ρ c), h1]; exact hf
      rw [evalD_castInt ρ _ _ e1]; exact hs

theorem part_cell (p : DatePart) (k : CmpK) (n : Nat) (v : Val) :
    cmp2 (cmpInt k) (cellPart p v) (some (n : Int)) = datePartHolds p k n (cellDate v) := by
  unfold cellPart
  cases cellDate v <;> rfl

end

/-! ### `mirror` on the image of `DateF` -/
section
variable (isD : Char → Bool)

theorem toOp_ne_in (k : CmpK) : k.toOp ≠ .in_ := by cases k <;> simp [CmpK.toOp]

theorem mirror_dateLit (l : DateV) : mir isD (dateLit l) = some (dateTree l) := rfl

theorem mirror_cmp (k : CmpK) (c : Str) (l : DateV) :
    mir isD (DateF.cmp k c l).toExpr = some (.bin (cmpName k.toOp) (.col none c) (dateTree l)) := by
  rw [DateF.toExpr, cmpOpOf_eq, mirror_compare isD _ _ _ (toOp_ne_in k) rfl rfl]; rfl

theorem mirror_cmpR (k : CmpK) (l : DateV) (c : Str) :
    mir isD (DateF.cmpR k l c).toExpr = some (.bin (cmpName k.toOp) (dateTree l) (.col none c)) := by
  rw [DateF.toExpr, cmpOpOf_eq, mirror_compare isD _ _ _ (toOp_ne_in k) rfl rfl]; rfl

theorem mirrorList_dates (ls : List DateV) :
    mirrorList isD .sqlite none (Exprs.ofList (ls.map dateLit)) = some (dateTrees ls) := by
  induction ls with
  | nil => rfl
  | cons l t ih =>
    rw [List.map_cons, Exprs.ofList, mirrorList_cons, ih, mirror_dateLit]; rfl

theorem mirror_inl (c : Str) (ls : List DateV) :
    mir isD (DateF.inl c ls).toExpr = some (.inl (.col none c) (dateTrees ls)) := by
  rw [DateF.toExpr, mirror_in, mirrorList_dates]; rfl

theorem mirror_partCall (p : DatePart) (c : Str) :
    mir isD (.call ⟨partName p, []⟩ (.cons (colE c) .nil)) = some (partTree p c) := by
  cases p <;> rfl

theorem mirror_part (p : DatePart) (k : CmpK) (c : Str) (n : Nat) :
    mir isD (DateF.part p k c n).toExpr = some (.bin (cmpName k.toOp) (partTree p c) (.num (Nat.toDigits 10 n))) := by
  rw [DateF.toExpr, cmpOpOf_eq, mirror_compare isD _ _ _ (toOp_ne_in k) rfl rfl, mirror_partCall, mirror_lit]
  show Option.bind (some _) (fun l' => Option.bind (some (numOf (Nat.toDigits 10 n))) _) = _
  rw [numOf_digits _ (toDigits_ascii n)]; rfl

/-- the mirror tree of a date filter evaluates, under the SQLite date model, to the SQL value of OData's three-valued meaning -/
theorem sound_v3 (ρ : Row) : (f : DateF) → f.wf = true → f.rowOk ρ = true →
    ∃ t, mir isD f.toExpr = some t ∧ sqlEvalD ρ t = some (v3ToVal (evalDF ρ f))
  | .cmp k c l, hw, hr => by
      simp only [DateF.wf, Bool.and_eq_true] at hw
      rw [DateF.rowOk] at hr
      refine ⟨_, mirror_cmp isD k c l, ?_⟩
      rw [evalD_cmp ρ k _ _ _ _ (evalD_col ρ c) (evalD_dateTree ρ l hw.1), cell_val _ hr]
      have := cmpVals_str k (cellIso (ρ.get c)) (some l.iso)
      rw [cmp_cell k l hw.1] at this
      exact this
  | .cmpR k l c, hw, hr => by
      simp only [DateF.wf, Bool.and_eq_true] at hw
      rw [DateF.rowOk] at hr
      refine ⟨_, mirror_cmpR isD k l c, ?_⟩
      rw [evalD_cmp ρ k _ _ _ _ (evalD_dateTree ρ l hw.1) (evalD_col ρ c), cell_val _ hr]
      have := cmpVals_str k (some l.iso) (cellIso (ρ.get c))
      rw [cmpR_cell k l hw.1] at this
      exact this
  | .inl c ls, hw, hr => by
      simp only [DateF.wf, Bool.and_eq_true, Bool.not_eq_true'] at hw
      rw [DateF.rowOk] at hr
      refine ⟨_, mirror_inl isD c ls, ?_⟩
      refine evalD_in ρ _ _ _ _ _ (evalD_col ρ c) (evalD_dateTrees ρ ls hw.1.2) ?_
      rw [cell_val _ hr]
      exact in_cell ls hw.1.1 hw.1.2 _
  | .part p k c n, hw, hr => by
      rw [DateF.rowOk] at hr
      refine ⟨_, mirror_part isD p k c n, ?_⟩
      rw [evalD_cmp ρ k _ _ _ _ (evalD_partTree ρ p c hr) (evalD_num ρ _ (toDigits_ascii n)), natOfDigits_toDigits]
      have := cmpVals_int k (cellPart p (ρ.get c)) (some (n : Int))
      rw [part_cell] at this
      exact this
  | .and l r, hw, hr => by
      simp only [DateF.wf, Bool.and_eq_true] at hw
      simp only [DateF.rowOk, Bool.and_eq_true] at hr
      obtain ⟨tl, ml, el⟩ := sound_v3 ρ l hw.1 hr.1
      obtain ⟨tr, mr, er⟩ := sound_v3 ρ r hw.2 hr.2
      refine ⟨.bin (S "AND") tl tr, ?_, ?_⟩
      · rw [DateF.toExpr, mirror_and, ml, mr]; rfl
      · rw [evalD_and ρ _ _ _ _ el er]; rfl
  | .or l r, hw, hr => by
      simp only [DateF.wf, Bool.and_eq_true] at hw
      simp only [DateF.rowOk, Bool.and_eq_true] at hr
      obtain ⟨tl, ml, el⟩ := sound_v3 ρ l hw.1 hr.1
      obtain ⟨tr, mr, er⟩ := sound_v3 ρ r hw.2 hr.2
      refine ⟨.bin (S "OR") tl tr, ?_, ?_⟩
      · rw [DateF.toExpr, mirror_or, ml, mr]; rfl
      · rw [evalD_or ρ _ _ _ _ el er]; rfl
  | .not e, hw, hr => by
      rw [DateF.wf] at hw
      rw [DateF.rowOk] at hr
      obtain ⟨t, m, ev⟩ := sound_v3 ρ e hw hr
      refine ⟨.un (S "NOT") t, ?_, ?_⟩
      · rw [DateF.toExpr, mirror_not, m]; rfl
      · rw [evalD_not ρ _ _ ev]; rfl

end

/-! ### literal shapes, operand shapes, totality of the visitor -/

theorem quote_ne_digit (k : Nat) : ¬ '\'' = digitChar k := by
  intro h
  have := congrArg Char.toNat h
  rw [digitChar_toNat, show '\''.toNat = 39 from by decide] at this
  omega

theorem iso_noquote (a : DateV) : (!a.iso.contains '\'') = true := by
  simp [DateV.iso, dig4, dig2, quote_ne_digit]

section
variable (isD : Char → Bool)

theorem litOk_col (c : Str) (h : (!c.contains '"') = true) : litOk isD .sqlite (colE c) = true := by
  rw [colE, litOk]; exact nameOk_of .sqlite h

theorem litOk_dateLit (l : DateV) : litOk isD .sqlite (dateLit l) = true := by
  rw [dateLit, litOk, litTextOk]; exact iso_noquote l

theorem litOk_dates (ls : List DateV) : litOkList isD .sqlite (Exprs.ofList (ls.map dateLit)) = true := by
  induction ls with
  | nil => rw [List.map_nil, Exprs.ofList, litOkList]
  | cons l t ih => rw [List.map_cons, Exprs.ofList, litOkList, litOk_dateLit, ih]; rfl

theorem date_litOk : (f : DateF) → f.wf = true → litOk isD .sqlite f.toExpr = true
  | .cmp k c l, hw => by
      simp only [DateF.wf, Bool.and_eq_true] at hw
      rw [DateF.toExpr, litOk, litOk_col isD c hw.2, litOk_dateLit]; rfl
  | .cmpR k l c, hw => by
      simp only [DateF.wf, Bool.and_eq_true] at hw
      rw [DateF.toExpr, litOk, litOk_col isD c hw.2, litOk_dateLit]; rfl
  | .inl c ls, hw => by
      simp only [DateF.wf, Bool.and_eq_true] at hw
      rw [DateF.toExpr, litOk, litOk_col isD c hw.2, litOk, litOk_dates]; rfl
  | .part p k c n, hw => by
      rw [DateF.wf] at hw
      have hc := litOk_col isD c hw
      rw [DateF.toExpr]
      simp only [litOk, litOkList, hc, litTextOk, Bool.and_true, Bool.true_and]
      exact isNumText_digits (toDigits_ascii n)
  | .and l r, hw => by
      simp only [DateF.wf, Bool.and_eq_true] at hw
      rw [DateF.toExpr, litOk, date_litOk l hw.1, date_litOk r hw.2]; rfl
  | .or l r, hw => by
      simp only [DateF.wf, Bool.and_eq_true] at hw
      rw [DateF.toExpr, litOk, date_litOk l hw.1, date_litOk r hw.2]; rfl
  | .not e, hw => by
      rw [DateF.wf] at hw
      rw [DateF.toExpr, litOk, date_litOk e hw]
end

theorem safe_dates (ls : List DateV) : sqlSafeList .sqlite (Exprs.ofList (ls.map dateLit)) = true := by
  induction ls with
  | nil => simp [Exprs.ofList, sqlSafeList]
  | cons l t ih => simp [Exprs.ofList, sqlSafeList, dateLit, sqlSafe, ih]

theorem date_sqlSafe : (f : DateF) → sqlSafe .sqlite f.toExpr = true
  | .cmp k c l => by simp [DateF.toExpr, sqlSafe, colE, dateLit]
  | .cmpR k l c => by simp [DateF.toExpr, sqlSafe, colE, dateLit]
  | .inl c ls => by simp [DateF.toExpr, sqlSafe, colE, safe_dates]
  | .part p k c n => by cases p <;> simp [DateF.toExpr, sqlSafe, sqlSafeList, colE, partName]
  | .and l r => by simp [DateF.toExpr, sqlSafe, date_sqlSafe l, date_sqlSafe r]
  | .or l r => by simp [DateF.toExpr, sqlSafe, date_sqlSafe l, date_sqlSafe r]
  | .not e => by simp [DateF.toExpr, sqlSafe, date_sqlSafe e]

section
variable (isD : Char → Bool) (al : Option Str)

theorem vis_col (c : Str) : Vis isD al (colE c) := vis_id isD al c
theorem vis_dateLit (l : DateV) : Vis isD al (dateLit l) := by rw [Vis, dateLit, sqlVisit]; exact ⟨_, rfl⟩
theorem vis_dates (ls : List DateV) : VisL isD al (Exprs.ofList (ls.map dateLit)) := by
  induction ls with
  | nil => exact visL_nil isD al
  | cons l t ih => exact visL_cons isD al (vis_dateLit isD al l) ih

theorem vis_part (p : DatePart) (c : Str) : Vis isD al (.call ⟨partName p, []⟩ (.cons (colE c) .nil)) := by
  cases p
  · exact vis_un isD al _ "year" (by decide) (by decide) (by decide) (fun _ => ⟨_, rfl⟩) (vis_col isD al c)
  · exact vis_un isD al _ "month" (by decide) (by decide) (by decide) (fun _ => ⟨_, rfl⟩) (vis_col isD al c)
  · exact vis_un isD al _ "day" (by decide) (by decide) (by decide) (fun _ => ⟨_, rfl⟩) (vis_col isD al c)

theorem date_vis : (f : DateF) → Vis isD al f.toExpr
  | .cmp k c l => by rw [DateF.toExpr]; exact vis_compare isD al _ (vis_col isD al c) (vis_dateLit isD al l)
  | .cmpR k l c => by rw [DateF.toExpr]; exact vis_compare isD al _ (vis_dateLit isD al l) (vis_col isD al c)
  | .inl c ls => by
      rw [DateF.toExpr]; exact vis_compare isD al _ (vis_col isD al c) (vis_list isD al (vis_dates isD al ls))
  | .part p k c n => by
      rw [DateF.toExpr]; exact vis_compare isD al _ (vis_part isD al p c) (vis_lit_int isD al _)
  | .and l r => by rw [DateF.toExpr]; exact vis_boolop isD al _ (date_vis l) (date_vis r)
  | .or l r => by rw [DateF.toExpr]; exact vis_boolop isD al _ (date_vis l) (date_vis r)
  | .not e => by rw [DateF.toExpr]; exact vis_unary isD al _ (date_vis e)
end

end OQ.DateSound
