/- Lemmas/ParserImage.lean — helper lemmas for Props/C10Image.lean: every successful result of every
   function of the fuelled mutual parser is in the image `Spec.printable` describes (induction on the
   fuel, for all ten functions at once; same scheme as `NF` / `NX` of Lemmas/Totality.lean). -/
import ODataVerif.Model.Parser
import ODataVerif.Spec.RefPrinter
import ODataVerif.Lemmas.Totality
import ODataVerif.Lemmas.Pratt
set_option linter.unusedSimpArgs false
set_option linter.unusedVariables false
namespace OQ.ParserImage
open Spec

/-! ### paths -/

theorem pathOk_attr (o : Expr) (n : Str) (h : pathOk o = true) (hr : rootNs o = []) :
    pathOk (.attr o n) = true := by
  cases o <;> simp_all [pathOk, rootNs]

theorem pathOk_foldl (names : List Str) : ∀ o : Expr, pathOk o = true → rootNs o = [] →
    pathOk (names.foldl (fun o n => Expr.attr o n) o) = true := by
  induction names with
  | nil => intro o h _; exact h
  | cons n ns ih =>
    intro o h hr
    simp only [List.foldl_cons]
    exact ih _ (pathOk_attr o n h hr) (by simpa [rootNs] using hr)

/-- `_reverse_attributes` always rebuilds a path the printer accepts (the root loses its namespace) -/
theorem pathOk_rebuild (names : List Str) (e : Expr) (h : rebuildPath names = some e) : pathOk e = true := by
  cases names with
  | nil => simp [rebuildPath] at h
  | cons a rest =>
    simp only [rebuildPath, Option.some.injEq] at h
    subst h
    exact pathOk_foldl rest _ (by simp [pathOk]) (by simp [rootNs])

theorem printable_of_pathOk (e : Expr) (h : pathOk e = true) : printable e = true := by
  cases e <;> simp_all [pathOk, printable]

/-- the lambda part of `printable (.coll _ op lam)` -/
def lamOk (op : CollOp) : OptLam → Bool
  | .none => op == .any
  | .some _ b => printable b

theorem printable_coll (ow : Expr) (op : CollOp) (lam : OptLam) :
    printable (.coll ow op lam) = (pathOk ow && lamOk op lam) := by
  cases lam <;> simp [printable, lamOk]

/-- the action of `property_path_expr : IDENT "/" tail` keeps the tree printable -/
theorem pathCons_printable (i : Ident) (tail e : Expr) (ht : printable tail = true)
    (h : pathCons i tail = .ok e) : printable e = true := by
  unfold pathCons at h
  split at h
  · split at h
    · split at h
      · rename_i e' hre
        cases h
        exact printable_of_pathOk _ (pathOk_rebuild _ _ hre)
      · cases h
    · cases h
  · rename_i owner op lam
    rw [printable_coll, Bool.and_eq_true] at ht
    split at h
    · split at h
      · split at h
        · rename_i e' hre
          cases h
          rw [printable_coll, Bool.and_eq_true]
          exact ⟨pathOk_rebuild _ _ hre, ht.2⟩
        · cases h
      · cases h
    · cases h
      rw [printable_coll, Bool.and_eq_true]
      exact ⟨by simp [pathOk], ht.2⟩
    · cases h
  · cases h
    simp [printable, pathOk]
  · cases h

/-! ### calls -/

theorem callOk_of_functionCall (f : Ident) (args : Exprs) (e : Expr) (h : functionCall f args = .ok e) :
    e = .call f args ∧ callOk f args.length = true := by
  refine ⟨C11.accepted_is_call f args e h, ?_⟩
  by_cases hv : f.ns = [] ∨ f.ns = ["geo".toList]
  · obtain ⟨lo, hi, hn, hlo, hhi⟩ := (C11.accept_iff f args hv).mp ⟨e, h⟩
    unfold callOk
    rw [if_pos hv, Pratt.spellIdent_eq, hn]
    simp [hlo, hhi]
  · unfold callOk
    rw [if_neg hv]

/-- success is a predicate `P` of the value; nothing is claimed about errors -/
abbrev Img {α : Type} (P : α → Prop) (x : Except PErr (α × List Tok)) : Prop :=
  Res (fun a _ => P a) (fun _ => True) x

abbrev ImgP (x : Except PErr (Expr × List Tok)) : Prop := Img (fun e => printable e = true) x

theorem liftCall_img (f : Ident) (args : Exprs) (rest : List Tok)
    (ha : (printableArgs args || printableNamed args) = true) :
    ImgP (liftOutcome (functionCall f args) rest) := by
  cases hc : functionCall f args with
  | ok e =>
    obtain ⟨rfl, hok⟩ := callOk_of_functionCall f args e hc
    simp only [liftOutcome, Res_ok]
    simp only [printable, Bool.and_eq_true]
    exact ⟨hok, by simpa using ha⟩
  | lib _ => simp [liftOutcome]
  | notImplemented => simp [liftOutcome]
  | foreign _ => simp [liftOutcome]

theorem finishCall_img (lexErr : Bool) (f : Ident) (args : Exprs) (rest : List Tok)
    (ha : (printableArgs args || printableNamed args) = true) :
    ImgP (finishCall lexErr f args rest) := by
  unfold finishCall
  split
  · split
    · simp
    · exact liftCall_img _ _ _ ha
  · split
    · exact liftCall_img _ _ _ ha
    · simp

/-! ### argument lists -/

theorem printableArgs_snoc : (acc : Exprs) → (e : Expr) →
    printableArgs (acc.snoc e) = (printableArgs acc && printable e)
  | .nil, e => by simp [Exprs.snoc, printableArgs]
  | .cons a t, e => by simp [Exprs.snoc, printableArgs, printableArgs_snoc t e, Bool.and_assoc]

theorem length_snoc : (acc : Exprs) → (e : Expr) → (acc.snoc e).length = acc.length + 1
  | .nil, e => rfl
  | .cons a t, e => by simp [Exprs.snoc, Exprs.length, length_snoc t e]

theorem printableNamed_one (n : Ident) (e : Expr) :
    printableNamed (.cons (.named n e) .nil) = printable e := by
  simp [printableNamed]

theorem printableNamed_cons (n : Ident) (e y : Expr) (t : Exprs) :
    printableNamed (.cons (.named n e) (.cons y t)) = (printable e && printableNamed (.cons y t)) := by
  simp [printableNamed]

theorem printableNamed_snoc : (acc : Exprs) → (n : Ident) → (e : Expr) →
    printableNamed acc = true → printable e = true → printableNamed (acc.snoc (.named n e)) = true
  | .nil, n, e, h, _ => by simp [printableNamed] at h
  | .cons a .nil, n, e, h, he => by
      cases a <;> simp [printableNamed] at h
      simp only [Exprs.snoc]
      rw [printableNamed_cons, printableNamed_one]
      simp [h, he]
  | .cons a (.cons y t), n, e, h, he => by
      cases a <;> try (simp [printableNamed] at h; done)
      rw [printableNamed_cons, Bool.and_eq_true] at h
      have ih := printableNamed_snoc (.cons y t) n e h.2 he
      simp only [Exprs.snoc] at ih ⊢
      rw [printableNamed_cons, ih, h.1]
      rfl

/-! ### the invariant -/

/-- what the right operand of `in` must be -/
def isListOk : Expr → Bool
  | .list xs => decide (xs.length ≥ 1) && printableArgs xs
  | _ => false

theorem printable_in (l r : Expr) (hl : printable l = true) (hr : isListOk r = true) :
    printable (.compare .in_ l r) = true := by
  cases r <;> simp_all [isListOk, printable]

theorem printable_cmp (o : CmpOp) (l r : Expr) (ho : o ≠ .in_) (hl : printable l = true)
    (hr : printable r = true) : printable (.compare o l r) = true := by
  cases o <;> simp_all [printable]

theorem printable_of_isListOk (e : Expr) (h : isListOk e = true) : printable e = true := by
  cases e <;> simp_all [isListOk, printable]

/-- a lambda was read (`all` needs one) and its body is printable -/
def lamPrintable : OptLam → Bool
  | .none => false
  | .some _ b => printable b

theorem lamOk_of_lamPrintable (op : CollOp) (lam : OptLam) (h : lamPrintable lam = true) :
    lamOk op lam = true := by
  cases lam <;> simp_all [lamPrintable, lamOk]

abbrev ItemsOk (xs : Exprs) : Prop := printableArgs xs = true ∧ 1 ≤ xs.length

def PI (lexErr : Bool) (f : Nat) : Prop :=
  (∀ min ts, ImgP (parseExpr lexErr f min ts)) ∧
  (∀ min lhs ts, printable lhs = true → ImgP (parseLoop lexErr f min lhs ts)) ∧
  (∀ ts, ImgP (parsePrefix lexErr f ts)) ∧
  (∀ ts, ImgP (parseParen lexErr f ts)) ∧
  (∀ acc ts, printableArgs acc = true → Img ItemsOk (parseItems lexErr f acc ts)) ∧
  (∀ ts, Img (fun e => isListOk e = true) (parseListExpr lexErr f ts)) ∧
  (∀ i ts, ImgP (parseCallArgs lexErr f i ts)) ∧
  (∀ i acc ts, printableNamed acc = true → ImgP (parseNamedRest lexErr f i acc ts)) ∧
  (∀ i ts, ImgP (parsePath lexErr f i ts)) ∧
  (∀ ts, Img (fun lam => lamPrintable lam = true) (parseLambda lexErr f ts))

theorem pi_zero (lexErr) : PI lexErr 0 := by
  refine ⟨?_, ?_, ?_, ?_, ?_, ?_, ?_, ?_, ?_, ?_⟩ <;> intros <;>
    simp [parseExpr, parseLoop, parsePrefix, parseParen, parseItems, parseListExpr, parseCallArgs,
      parseNamedRest, parsePath, parseLambda]

theorem one_args (e : Expr) (he : printable e = true) :
    (printableArgs (.cons e .nil) || printableNamed (.cons e .nil)) = true := by
  simp [printableArgs, he]

theorem items_args (xs : Exprs) (h : ItemsOk xs) : (printableArgs xs || printableNamed xs) = true := by
  simp [h.1]

theorem list_of_items (xs : Exprs) (h : ItemsOk xs) : isListOk (.list xs) = true := by
  simp [isListOk, h.1, h.2]

theorem list_one (e : Expr) (he : printable e = true) : isListOk (.list (.cons e .nil)) = true := by
  simp [isListOk, printableArgs, he, Exprs.length]

theorem pi_succ (lexErr f) (ih : PI lexErr f) : PI lexErr (f + 1) := by
  obtain ⟨ihE, ihL, ihP, ihPar, ihI, ihLE, ihCA, ihNR, ihPath, ihLam⟩ := ih
  refine ⟨?_, ?_, ?_, ?_, ?_, ?_, ?_, ?_, ?_, ?_⟩
  · intro min ts
    simp only [parseExpr]
    exact Res.bind (ihP ts) (fun lhs r h => ihL min lhs r h)
  · intro min lhs ts hl
    simp only [parseLoop]
    split
    · split
      · refine Res.bind (ihE _ _) (fun rhs r' hr => ihL _ _ r' ?_)
        simp [printable, hl, hr]
      · simpa using hl
    · split
      · exact Res.bind (ihLE _) (fun rhs r' hr => ihL _ _ r' (printable_in _ _ hl hr))
      · simpa using hl
    · split
      · rename_i o r hne _
        refine Res.bind (ihE _ _) (fun rhs r' hr => ihL _ _ r' (printable_cmp _ _ _ ?_ hl hr))
        rintro rfl
        exact hne rfl
      · simpa using hl
    · split
      · refine Res.bind (ihE _ _) (fun rhs r' hr => ihL _ _ r' ?_)
        simp [printable, hl, hr]
      · simpa using hl
    · simpa using hl
  · intro ts
    simp only [parsePrefix]
    split
    · exact Res.bind (ihE _ _) (fun e r' he => by simpa [printable] using he)
    · exact Res.bind (ihE _ _) (fun e r' he => by simpa [printable] using he)
    · simp [printable]
    · exact ihPar _
    · exact finishCall_img _ _ _ _ (by simp [printableArgs])
    · exact ihCA _ _
    · exact ihPath _ _
    · simp
  · intro ts
    simp only [parseParen]
    refine Res.bind (ihE _ _) ?_
    intro e r he
    dsimp only
    split
    · simpa using he
    · split
      · simpa using printable_of_isListOk _ (list_one e he)
      · refine Res.bind (ihI _ _ (by simp [printableArgs, he])) (fun items r3 hi => ?_)
        simpa using printable_of_isListOk _ (list_of_items items hi)
    · simp
  · intro acc ts hacc
    simp only [parseItems]
    refine Res.bind (ihE _ _) ?_
    intro e r he
    dsimp only
    have hs : printableArgs (acc.snoc e) = true := by rw [printableArgs_snoc, hacc, he]; rfl
    split
    · simp only [Res_pure]
      exact ⟨hs, by rw [length_snoc]; omega⟩
    · exact ihI _ _ hs
    · simp
  · intro ts
    simp only [parseListExpr]
    split
    · refine Res.bind (ihE _ _) ?_
      intro e r he
      dsimp only
      split
      · split
        · simpa using list_one e he
        · refine Res.bind (ihI _ _ (by simp [printableArgs, he])) (fun items r3 hi => ?_)
          simpa using list_of_items items hi
      · simp
    · simp
  · intro i ts
    simp only [parseCallArgs]
    split
    · refine Res.bind (ihE _ _) (fun e r1 he => ihNR _ _ r1 ?_)
      rw [printableNamed_one]; exact he
    · refine Res.bind (ihE _ _) ?_
      intro e r he
      dsimp only
      split
      · exact finishCall_img _ _ _ _ (one_args e he)
      · split
        · exact finishCall_img _ _ _ _ (one_args e he)
        · exact Res.bind (ihI _ _ (by simp [printableArgs, he]))
            (fun items r4 hi => finishCall_img _ _ _ _ (items_args items hi))
      · simp
  · intro i acc ts hacc
    simp only [parseNamedRest]
    split
    · exact finishCall_img _ _ _ _ (by simp [hacc])
    · split
      · exact Res.bind (ihE _ _) (fun e r1 he => ihNR _ _ r1 (printableNamed_snoc _ _ _ hacc he))
      · simp
      · simp
    · simp
  · intro i ts
    simp only [parsePath]
    split
    · refine Res.bind (ihPath _ _) ?_
      intro tail r' ht
      cases hc : pathCons i tail with
      | ok e =>
        simp only [liftOutcome, Res_ok]
        exact pathCons_printable i tail e ht hc
      | lib _ => simp [liftOutcome]
      | notImplemented => simp [liftOutcome]
      | foreign _ => simp [liftOutcome]
    · split
      · simp [printable, pathOk]
      · refine Res.bind (ihLam _) ?_
        intro lam r2 hlam
        dsimp only
        rcases expectRp_cases lexErr (skipWs r2) with ⟨r3, h3, h4⟩ | ⟨e, _, he, h4⟩
        · rw [h4]
          simp only [bind, Except.bind, Res_pure]
          rw [printable_coll, lamOk_of_lamPrintable _ _ hlam]; simp [pathOk]
        · rw [h4]; simp [bind, Except.bind]
    · refine Res.bind (ihLam _) ?_
      intro lam r2 hlam
      dsimp only
      rcases expectRp_cases lexErr (skipWs r2) with ⟨r3, h3, h4⟩ | ⟨e, _, he, h4⟩
      · rw [h4]
        simp only [bind, Except.bind, Res_pure]
        rw [printable_coll, lamOk_of_lamPrintable _ _ hlam]; simp [pathOk]
      · rw [h4]; simp [bind, Except.bind]
    · simp
    · simp
    · simp
    · simp [printable]
  · intro ts
    simp only [parseLambda]
    split
    · split
      · exact Res.bind (ihE _ _) (fun e r1 he => by simpa [lamPrintable] using he)
      · simp
    · simp

theorem pi_all (lexErr) : ∀ f, PI lexErr f
  | 0 => pi_zero lexErr
  | f + 1 => pi_succ lexErr f (pi_all lexErr f)

theorem parseExpr_printable (lexErr : Bool) (f m : Nat) (ts : List Tok) (e : Expr) (r : List Tok)
    (h : parseExpr lexErr f m ts = .ok (e, r)) : printable e = true := by
  have := (pi_all lexErr f).1 m ts
  rw [h] at this
  exact this

end OQ.ParserImage
