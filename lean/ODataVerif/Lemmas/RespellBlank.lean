/- Lemmas/RespellBlank.lean — every whitespace character is a delimiter for the scanners; a run of whitespace in front of a
   non-space is read like a single blank (for Props/C19Text.lean). -/
import ODataVerif.Lemmas.CaseRules
import ODataVerif.Spec.Respell
namespace OQ.Respelling
open Spec LexRender CaseMap
set_option linter.unusedSimpArgs false
set_option linter.unusedVariables false

/-! ### every whitespace character is a delimiter -/

def spaceChars : List Char :=
  [9, 10, 11, 12, 13, 28, 29, 30, 31, 32, 133, 160, 5760, 8192, 8193, 8194, 8195, 8196, 8197, 8198, 8199, 8200,
   8201, 8202, 8232, 8233, 8239, 8287, 12288].map Char.ofNat

theorem space_mem {c : Char} (h : E.isSpace c = true) : c ∈ spaceChars := by
  have hs := (isSpace_iff c).1 h
  have hc := Char.ofNat_toNat c
  simp only [spaceNat] at hs
  have key : ∀ n, n < 33 → ((9 ≤ n ∧ n ≤ 13) ∨ (28 ≤ n ∧ n ≤ 32)) → Char.ofNat n ∈ spaceChars := by
    decide +kernel
  by_cases hlt : c.toNat < 33
  · have := key c.toNat hlt (by omega)
    rwa [hc] at this
  · have : c.toNat = 133 ∨ c.toNat = 160 ∨ c.toNat = 5760 ∨ c.toNat = 8192 ∨ c.toNat = 8193 ∨ c.toNat = 8194
        ∨ c.toNat = 8195 ∨ c.toNat = 8196
        ∨ c.toNat = 8197 ∨ c.toNat = 8198 ∨ c.toNat = 8199 ∨ c.toNat = 8200 ∨ c.toNat = 8201 ∨ c.toNat = 8202
        ∨ c.toNat = 8232 ∨ c.toNat = 8233 ∨ c.toNat = 8239 ∨ c.toNat = 8287 ∨ c.toNat = 12288 := by omega
    rcases this with e | e | e | e | e | e | e | e | e | e | e | e | e | e | e | e | e | e | e <;>
      (rw [e] at hc; rw [← hc]; decide +kernel)

theorem delim_spaces : ∀ c ∈ spaceChars, Delim E c := by
  intro c hc
  simp only [spaceChars, List.map_cons, List.map_nil, List.mem_cons, List.not_mem_nil, or_false] at hc
  rcases hc with rfl | rfl | rfl | rfl | rfl | rfl | rfl | rfl | rfl | rfl | rfl | rfl | rfl | rfl | rfl | rfl | rfl
    | rfl | rfl | rfl | rfl | rfl | rfl | rfl | rfl | rfl | rfl | rfl | rfl <;>
    constructor <;> decide +kernel

/-- a delimiter of the printer (`isDelim`) or any whitespace character -/
def DelimC (d : Char) : Prop := isDelim d = true ∨ E.isSpace d = true

theorem DelimC.delim {d : Char} (h : DelimC d) : Delim E d := by
  rcases h with h | h
  · exact delim_of h
  · exact delim_spaces d (space_mem h)

theorem DelimC.identStart {d : Char} (h : DelimC d) : isIdentStart E d = false := by
  rcases h with h | h
  · exact delim_identStart h
  · exact (space_imp d h).2.1

theorem DelimC.colon {d : Char} (h : DelimC d) (hc : d = ':') : isDelim d = true := by
  rcases h with h | h
  · exact h
  · subst hc; exact absurd h (by decide +kernel)


/-! ### runs of whitespace -/

theorem span_blank {w x : List Char} (hw : w.all E.isSpace = true) (hx : headNS x) :
    span E.isSpace (w ++ x) = (w, x) := by
  induction w with
  | nil => simpa using span_headNS hx
  | cons c w ih =>
    simp only [List.all_cons, Bool.and_eq_true] at hw
    simp [span, hw.1, ih hw.2]

theorem span1_run {w x : List Char} (hw : isBlankRun E w) (hx : headNS x) :
    span1 E.isSpace (w ++ x) = some (w, x) := by
  unfold span1
  rw [span_blank hw.2 hx]
  cases w with
  | nil => exact absurd rfl hw.1
  | cons c w => rfl

theorem scanOp_run (op : List Char) {w x : List Char} (hw : isBlankRun E w) (hx : headNS x) :
    scanOp E op (w ++ x) = scanOp E op (' ' :: x) := by
  rw [scanOp_blank op hx]
  simp only [scanOp, Option.bind_eq_bind, span1_run hw hx, Option.bind_some]
  cases kw E op x with
  | none => rfl
  | some p => simp only [Option.bind_some]; cases span1 E.isSpace p.2 <;> rfl

theorem firstSome_congr (fs : List Rule) (a b : List Char) (h : ∀ f ∈ fs, f a = f b) :
    firstSome fs a = firstSome fs b := by
  induction fs with
  | nil => rfl
  | cons f fs ih =>
    simp only [firstSome, h f List.mem_cons_self]
    cases f b with
    | none => exact ih (fun g hg => h g (List.mem_cons_of_mem _ hg))
    | some y => rfl

theorem space_not_single {c : Char} (h : E.isSpace c = true) (x : List Char) : rSingle (c :: x) = none := by
  rw [rSingle_cons]
  have h1 : c ≠ '(' := by rintro rfl; exact absurd h (by decide +kernel)
  have h2 : c ≠ ')' := by rintro rfl; exact absurd h (by decide +kernel)
  have h3 : c ≠ ',' := by rintro rfl; exact absurd h (by decide +kernel)
  have h4 : c ≠ '/' := by rintro rfl; exact absurd h (by decide +kernel)
  have h5 : c ≠ ':' := by rintro rfl; exact absurd h (by decide +kernel)
  have h6 : c ≠ '=' := by rintro rfl; exact absurd h (by decide +kernel)
  simp [h1, h2, h3, h4, h5, h6]

/-- a run of whitespace in front of a non-space is read like a single blank -/
theorem lexOne_blank_run {w x : List Char} (hw : isBlankRun E w) (hx : headNS x) :
    lexOne E (w ++ x) = lexOne E (' ' :: x) := by
  obtain ⟨c, w', rfl⟩ : ∃ c w', w = c :: w' := by
    cases w with
    | nil => exact absurd rfl hw.1
    | cons c w' => exact ⟨c, w', rfl⟩
  have hc : E.isSpace c = true := by have := hw.2; simp at this; exact this.1
  obtain ⟨hf, hq, hp, hm⟩ := space_headFacts hc
  rw [lexOne_eq, lexOne_eq, rules, firstSome_append, firstSome_append]
  have e1 : firstSome (litRules E) (c :: w' ++ x) = none := litRules_head _ hf hq hp hm
  rw [e1, litRules_head _ hf_blank (by decide) (by decide) (by decide)]
  simp only []
  apply firstSome_congr
  intro f hf'
  rw [restRules_eq] at hf'
  have hop : ∀ L : List (Tok × List Char), f ∈ L.map opRule → f (c :: w' ++ x) = f (' ' :: x) := by
    intro L hL
    obtain ⟨e, -, rfl⟩ := List.mem_map.1 hL
    simp only [opRule, rOp, scanOp_run e.2 hw hx]
  simp only [List.mem_append, List.mem_cons] at hf'
  rcases hf' with h1 | rfl | h1 | rfl | h1 | h1
  · exact hop _ h1
  · rw [List.cons_append, rMinus_cons, rMinus_cons, if_neg hm, if_neg (by decide)]
  · exact hop _ h1
  · have a1 : scanNot E (c :: w' ++ x) = none := scanNot_head hf.n
    have a2 : scanNot E (' ' :: x) = none := scanNot_head hf_blank.n
    simp only [rOp, a1, a2]
  · exact hop _ h1
  · simp only [tailRules, List.mem_cons, List.not_mem_nil, or_false] at h1
    rcases h1 with rfl | rfl | rfl | rfl | rfl
    · have a1 : scanWord E "any".toList (c :: w' ++ x) = none := scanWord_head (p := 'a') (ps := ['n', 'y']) hf.a
      have a2 : scanWord E "any".toList (' ' :: x) = none := scanWord_head (p := 'a') (ps := ['n', 'y']) hf_blank.a
      simp only [rKw, a1, a2]
    · have a1 : scanWord E "all".toList (c :: w' ++ x) = none := scanWord_head (p := 'a') (ps := ['l', 'l']) hf.a
      have a2 : scanWord E "all".toList (' ' :: x) = none := scanWord_head (p := 'a') (ps := ['l', 'l']) hf_blank.a
      simp only [rKw, a1, a2]
    · have a1 : scanIdent E (c :: w' ++ x) = none := scanIdent_head hf.ident
      have a2 : scanIdent E (' ' :: x) = none := scanIdent_head hf_blank.ident
      simp only [rIdent, a1, a2]
    · simp only [rWs, span1_run hw hx, span1_blank hx]; rfl
    · rw [List.cons_append, space_not_single hc, space_not_single space_blank]

end OQ.Respelling
