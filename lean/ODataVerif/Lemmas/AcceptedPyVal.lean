/-
  Lemmas/AcceptedPyVal.lean — `py_val` of the duration / GUID / integer literals the lexer emits never raises a ValueError:
  `pyInt` / `pyGuid` have no failing branch; `pyDuration` follows `Duration.unpack` (`durUnpack`), which accepts every emitted
  duration text (C06, `lexOne_shape`).
-/
import ODataVerif.Props.C06Image
import ODataVerif.Model.PyVal
import ODataVerif.Lemmas.AcceptedLex7
namespace OQ.AcceptedPyVal
open OQ.LexImage OQ.AcceptedLex
set_option linter.unusedSimpArgs false
set_option linter.unusedVariables false

theorem pyInt_nf (v : Str) (c : String) : pyInt v ≠ .foreign c := by
  unfold pyInt
  repeat' split
  all_goals simp

theorem pyGuid_nf (v : Str) (c : String) : pyGuid v ≠ .foreign c := by
  unfold pyGuid
  split <;> simp

/-- ASCII digit test of `PyVal` -/
abbrev A : Char → Bool := fun c => (asciiDigit? c).isSome

theorem durComponent_eq (l : Char) (cs : Str) :
    durComponent l cs = ((durGroupU A l cs).1.bind natOfDigits, (durGroupU A l cs).2) := by
  unfold durComponent durGroupU
  dsimp only
  generalize List.takeWhile A cs = ds
  generalize List.drop ds.length cs = rest
  cases ds with
  | nil => rfl
  | cons d ds' =>
    cases rest with
    | nil => rfl
    | cons c r => dsimp only; split <;> rfl

theorem durSecondsMicros_rest {cs : Str} {x : Option Nat} {t : Str} (h : durSecondsMicros cs = some (x, t)) :
    t = (durSecondsU A cs).2 := by
  unfold durSecondsMicros at h
  unfold durSecondsU
  dsimp only at h ⊢
  generalize List.takeWhile A cs = ds at h ⊢
  generalize List.drop ds.length cs = rest at h ⊢
  split at h
  · simp only [Option.some.injEq, Prod.mk.injEq] at h
    rw [← h.2]
  · rename_i r _
    simp only [Option.map_eq_some_iff, Prod.mk.injEq] at h
    obtain ⟨n, -, -, rfl⟩ := h
    cases ds with
    | nil => rename_i h1; exact absurd rfl h1
    | cons d ds' => rfl
  · rename_i r0 hne
    cases ds with
    | nil => exact absurd rfl hne
    | cons d ds' =>
      show t = (match List.takeWhile A r0, List.drop (List.takeWhile A r0).length r0 with
        | [], _ => ((none : Option Str), cs)
        | _, 'S' :: r' => (some ((d :: ds') ++ '.' :: List.takeWhile A r0), r')
        | _, _ => (none, cs)).2
      generalize List.takeWhile A r0 = fs at h ⊢
      generalize List.drop fs.length r0 = rest2 at h ⊢
      split at h
      · rename_i r'
        split at h
        · cases h
        · rename_i hc
          split at h
          · simp only [Option.some.injEq, Prod.mk.injEq] at h
            cases fs with
            | nil => simp at hc
            | cons f fs' => exact h.2.symm
          · cases h
      · rename_i hns
        simp only [Option.some.injEq, Prod.mk.injEq] at h
        rw [← h.2]
        cases fs with
        | nil => rfl
        | cons f fs' =>
          cases rest2 with
          | nil => rfl
          | cons c2 r2 =>
            split
            · rename_i heq; simp at heq
            · rename_i heq _; exact (hns _ heq).elim
            · rfl
  · rename_i h1 h2 h3
    simp only [Option.some.injEq, Prod.mk.injEq] at h
    rw [← h.2]
    cases ds with
    | nil => exact (h1 rfl).elim
    | cons d ds' =>
      cases rest with
      | nil => rfl
      | cons c r =>
        split
        · rename_i heq; simp at heq
        · rename_i heq _; exact (h2 _ heq).elim
        · rename_i heq _; exact (h3 _ heq).elim
        · rfl

/-- `Duration.unpack` after the date groups -/
def uTailG (isD : Char → Bool) (sg : Option Char) (y mo d : Option Str) (r : Str) : Option DurParts :=
  match r with
  | [] => some ⟨sg, y, mo, d, none, none, none⟩
  | 'T' :: t =>
      let (h, t) := durGroupU isD 'H' t
      let (mi, t) := durGroupU isD 'M' t
      let (s, t) := durSecondsU isD t
      if t.isEmpty then some ⟨sg, y, mo, d, h, mi, s⟩ else none
  | _ => none
abbrev uTail := uTailG A

/-- `Duration.py_val` after the date groups: hours, minutes, microseconds and the unread rest -/
def pRes (r : Str) : Option (Nat × Nat × Option Nat × List Char) :=
  match r with
  | 'T' :: t =>
      let (h, t) := durComponent 'H' t
      let (mi, t) := durComponent 'M' t
      (match durSecondsMicros t with
       | some (s, t') => some (h.getD 0, mi.getD 0, s, t')
       | none => none)
  | t => some (0, 0, some 0, t)

theorem tail_nf {sg : Option Char} {y mo d : Option Str} {r : Str} {p : DurParts} (h : uTail sg y mo d r = some p) :
    pRes r = none ∨ ∃ a b s, pRes r = some (a, b, s, []) := by
  cases r with
  | nil => exact Or.inr ⟨0, 0, some 0, rfl⟩
  | cons c t =>
    by_cases hc : c = 'T'
    · subst hc
      have e1 : uTail sg y mo d ('T' :: t) =
          (if (durSecondsU A (durGroupU A 'M' (durGroupU A 'H' t).2).2).2.isEmpty then
            some ⟨sg, y, mo, d, (durGroupU A 'H' t).1, (durGroupU A 'M' (durGroupU A 'H' t).2).1,
              (durSecondsU A (durGroupU A 'M' (durGroupU A 'H' t).2).2).1⟩ else none) := rfl
      have e2 : pRes ('T' :: t) =
          (match durSecondsMicros (durComponent 'M' (durComponent 'H' t).2).2 with
           | some (s, t') => some ((durComponent 'H' t).1.getD 0, (durComponent 'M' (durComponent 'H' t).2).1.getD 0, s, t')
           | none => none) := rfl
      rw [e1] at h
      rw [e2]
      simp only [durComponent_eq]
      cases hs : durSecondsMicros (durGroupU A 'M' (durGroupU A 'H' t).2).2 with
      | none => exact Or.inl rfl
      | some st =>
        obtain ⟨s, t'⟩ := st
        have ht := durSecondsMicros_rest hs
        split at h
        · rename_i he
          rw [← ht] at he
          have : t' = [] := by simpa using he
          subst this
          exact Or.inr ⟨_, _, _, rfl⟩
        · cases h
    · exfalso
      unfold uTail uTailG at h
      split at h
      · rename_i heq; cases heq
      · rename_i heq; simp at heq; exact hc heq.1
      · cases h

/-- `Duration.unpack` after the sign -/
def unpackBodyG (isD : Char → Bool) (sg : Option Char) (r : Str) : Option DurParts :=
  match r with
  | 'P' :: r =>
      uTailG isD sg (durGroupU isD 'Y' r).1 (durGroupU isD 'M' (durGroupU isD 'Y' r).2).1
        (durGroupU isD 'D' (durGroupU isD 'M' (durGroupU isD 'Y' r).2).2).1
        (durGroupU isD 'D' (durGroupU isD 'M' (durGroupU isD 'Y' r).2).2).2
  | _ => none
abbrev unpackBody := unpackBodyG A

theorem durUnpack_otherG (isD : Char → Bool) {c : Char} (t : Str) (h1 : c ≠ '+') (h2 : c ≠ '-') :
    durUnpack isD (c :: t) = unpackBodyG isD none (c :: t) := by
  unfold durUnpack
  split
  rename_i sg r heq
  split at heq
  · rename_i he; simp at he; exact absurd he.1 h1
  · rename_i he; simp at he; exact absurd he.1 h2
  · simp only [Prod.mk.injEq] at heq
    obtain ⟨rfl, rfl⟩ := heq
    rfl

/-- `Duration.py_val` after the sign -/
def pyBody (neg : Bool) (r : Str) : Outcome PyValue :=
  match r with
  | 'P' :: r =>
      (match pRes (durComponent 'D' (durComponent 'M' (durComponent 'Y' r).2).2).2 with
       | some (h, mi, s, []) =>
           let y := (durComponent 'Y' r).1
           let mo := (durComponent 'M' (durComponent 'Y' r).2).1
           let d := (durComponent 'D' (durComponent 'M' (durComponent 'Y' r).2).2).1
           let secs : Nat := d.getD 0 * 86400 + y.getD 0 * 31557600 + mo.getD 0 * 2630016 + h * 3600 + mi * 60
           let us : Nat := secs * 1000000 + s.getD 0
           .ok (.duration (if neg then -(us : Int) else us))
       | some _ => .foreign "ValueError"
       | none => .ok .unmodelled)
  | _ => .foreign "ValueError"

theorem pyDuration_other {c : Char} (t : Str) (h1 : c ≠ '+') (h2 : c ≠ '-') :
    pyDuration (c :: t) = pyBody false (c :: t) := by
  unfold pyDuration
  split
  rename_i neg r heq
  split at heq
  · rename_i he; simp at he; exact absurd he.1 h2
  · rename_i he; simp at he; exact absurd he.1 h1
  · simp only [Prod.mk.injEq] at heq
    obtain ⟨rfl, rfl⟩ := heq
    rfl

theorem body_nf (sg : Option Char) (neg : Bool) (r : Str) (p : DurParts) (c : String)
    (h : unpackBody sg r = some p) : pyBody neg r ≠ .foreign c := by
  unfold unpackBody unpackBodyG at h
  unfold pyBody
  split at h
  · rename_i r'
    simp only [durComponent_eq]
    rcases tail_nf h with h0 | ⟨a, b, s, h0⟩
    · rw [h0]; simp
    · rw [h0]; simp
  · cases h

theorem pyDuration_nf {v : Str} {p : DurParts} (h : durUnpack A v = some p) (c : String) : pyDuration v ≠ .foreign c := by
  cases v with
  | nil => have : durUnpack A [] = none := rfl; rw [this] at h; cases h
  | cons x t =>
    by_cases h1 : x = '+'
    · subst h1
      have e1 : durUnpack A ('+' :: t) = unpackBody (some '+') t := rfl
      have e2 : pyDuration ('+' :: t) = pyBody false t := rfl
      rw [e1] at h; rw [e2]
      exact body_nf _ _ _ _ _ h
    · by_cases h2 : x = '-'
      · subst h2
        have e1 : durUnpack A ('-' :: t) = unpackBody (some '-') t := rfl
        have e2 : pyDuration ('-' :: t) = pyBody true t := rfl
        rw [e1] at h; rw [e2]
        exact body_nf _ _ _ _ _ h
      · rw [durUnpack_otherG A t h1 h2] at h
        rw [pyDuration_other t h1 h2]
        exact body_nf _ _ _ _ _ h

/-! ### `Duration.unpack` only sees the digit class on the characters of its text -/
section congr
variable {p q : Char → Bool}

theorem tw_congr : ∀ (cs : Str), (∀ c ∈ cs, p c = q c) → cs.takeWhile p = cs.takeWhile q
  | [], _ => rfl
  | c :: cs, h => by
    simp only [List.takeWhile_cons, h c List.mem_cons_self]
    rw [tw_congr cs (fun x hx => h x (List.mem_cons_of_mem _ hx))]

theorem dw_congr : ∀ (cs : Str), (∀ c ∈ cs, p c = q c) → cs.dropWhile p = cs.dropWhile q
  | [], _ => rfl
  | c :: cs, h => by
    simp only [List.dropWhile_cons, h c List.mem_cons_self]
    rw [dw_congr cs (fun x hx => h x (List.mem_cons_of_mem _ hx))]

theorem durGroupU_congr (l : Char) (cs : Str) (h : ∀ c ∈ cs, p c = q c) : durGroupU p l cs = durGroupU q l cs := by
  unfold durGroupU
  rw [tw_congr cs h]

theorem durGroupU_sub (isD : Char → Bool) (l : Char) (cs : Str) : ∀ c ∈ (durGroupU isD l cs).2, c ∈ cs := by
  intro c hc
  have := durGroupU_decomp isD l cs _ _ rfl
  rw [this]
  exact List.mem_append_right _ hc

theorem durSecondsU_congr (cs : Str) (h : ∀ c ∈ cs, p c = q c) : durSecondsU p cs = durSecondsU q cs := by
  rw [durSecondsU_eq, durSecondsU_eq]
  unfold secU
  rw [tw_congr cs h, dw_congr cs h]
  cases hd : cs.dropWhile q with
  | nil => rfl
  | cons c r =>
    have hr : ∀ x ∈ r, p x = q x := by
      intro x hx
      apply h
      have : x ∈ cs.dropWhile q := by rw [hd]; exact List.mem_cons_of_mem _ hx
      exact (List.dropWhile_suffix _).subset this
    dsimp only
    rw [tw_congr r hr, dw_congr r hr]

theorem uTailG_congr (sg : Option Char) (y mo d : Option Str) (r : Str) (h : ∀ c ∈ r, p c = q c) :
    uTailG p sg y mo d r = uTailG q sg y mo d r := by
  cases r with
  | nil => rfl
  | cons c t =>
    by_cases hc : c = 'T'
    · subst hc
      have e : ∀ isD : Char → Bool, uTailG isD sg y mo d ('T' :: t) =
          (if (durSecondsU isD (durGroupU isD 'M' (durGroupU isD 'H' t).2).2).2.isEmpty then
            some ⟨sg, y, mo, d, (durGroupU isD 'H' t).1, (durGroupU isD 'M' (durGroupU isD 'H' t).2).1,
              (durSecondsU isD (durGroupU isD 'M' (durGroupU isD 'H' t).2).2).1⟩ else none) := fun _ => rfl
      have ht : ∀ x ∈ t, p x = q x := fun x hx => h x (List.mem_cons_of_mem _ hx)
      have h1 := durGroupU_congr 'H' t ht
      have ht1 : ∀ x ∈ (durGroupU q 'H' t).2, p x = q x := fun x hx => ht x (durGroupU_sub q 'H' t x hx)
      have h2 := durGroupU_congr 'M' _ ht1
      have ht2 : ∀ x ∈ (durGroupU q 'M' (durGroupU q 'H' t).2).2, p x = q x :=
        fun x hx => ht1 x (durGroupU_sub q 'M' _ x hx)
      have h3 := durSecondsU_congr _ ht2
      rw [e p, e q, h1, h2, h3]
    · have e : ∀ isD : Char → Bool, uTailG isD sg y mo d (c :: t) = none := by
        intro isD
        unfold uTailG
        split
        · rename_i heq; cases heq
        · rename_i heq; simp at heq; exact absurd heq.1 hc
        · rfl
      rw [e p, e q]

theorem unpackBodyG_congr (sg : Option Char) (r : Str) (h : ∀ c ∈ r, p c = q c) :
    unpackBodyG p sg r = unpackBodyG q sg r := by
  cases r with
  | nil => rfl
  | cons c t =>
    by_cases hc : c = 'P'
    · subst hc
      have e : ∀ isD : Char → Bool, unpackBodyG isD sg ('P' :: t) =
          uTailG isD sg (durGroupU isD 'Y' t).1 (durGroupU isD 'M' (durGroupU isD 'Y' t).2).1
            (durGroupU isD 'D' (durGroupU isD 'M' (durGroupU isD 'Y' t).2).2).1
            (durGroupU isD 'D' (durGroupU isD 'M' (durGroupU isD 'Y' t).2).2).2 := fun _ => rfl
      have ht : ∀ x ∈ t, p x = q x := fun x hx => h x (List.mem_cons_of_mem _ hx)
      have h1 := durGroupU_congr 'Y' t ht
      have ht1 : ∀ x ∈ (durGroupU q 'Y' t).2, p x = q x := fun x hx => ht x (durGroupU_sub q 'Y' t x hx)
      have h2 := durGroupU_congr 'M' _ ht1
      have ht2 : ∀ x ∈ (durGroupU q 'M' (durGroupU q 'Y' t).2).2, p x = q x :=
        fun x hx => ht1 x (durGroupU_sub q 'M' _ x hx)
      have h3 := durGroupU_congr 'D' _ ht2
      have ht3 : ∀ x ∈ (durGroupU q 'D' (durGroupU q 'M' (durGroupU q 'Y' t).2).2).2, p x = q x :=
        fun x hx => ht2 x (durGroupU_sub q 'D' _ x hx)
      rw [e p, e q, h1, h2, h3]
      exact uTailG_congr _ _ _ _ _ ht3
    · have e : ∀ isD : Char → Bool, unpackBodyG isD sg (c :: t) = none := by
        intro isD
        unfold unpackBodyG
        split
        · rename_i heq; simp at heq; exact absurd heq.1 hc
        · rfl
      rw [e p, e q]

theorem durUnpack_congr (v : Str) (h : ∀ c ∈ v, p c = q c) : durUnpack p v = durUnpack q v := by
  cases v with
  | nil => rfl
  | cons x t =>
    have ht : ∀ c ∈ t, p c = q c := fun c hc => h c (List.mem_cons_of_mem _ hc)
    by_cases h1 : x = '+'
    · subst h1
      have e : ∀ isD : Char → Bool, durUnpack isD ('+' :: t) = unpackBodyG isD (some '+') t := fun _ => rfl
      rw [e p, e q]; exact unpackBodyG_congr _ _ ht
    · by_cases h2 : x = '-'
      · subst h2
        have e : ∀ isD : Char → Bool, durUnpack isD ('-' :: t) = unpackBodyG isD (some '-') t := fun _ => rfl
        rw [e p, e q]; exact unpackBodyG_congr _ _ ht
      · rw [durUnpack_otherG p t h1 h2, durUnpack_otherG q t h1 h2]
        exact unpackBodyG_congr _ _ h

end congr

/-! ### the emitted tokens -/
theorem A_ascii (c : Char) (hc : LexImage.isAscii c = true) : pyCharEnv.isDigit c = A c := by
  have := ascii_forall (fun c => pyCharEnv.isDigit c == A c) (by decide +kernel) c hc
  simpa using this

theorem durUpper_asc (c : Char) (hc : LexImage.isAscii c = true) : LexImage.isAscii (durUpper c) = true :=
  ascii_forall (fun c => LexImage.isAscii (durUpper c)) (by decide +kernel) c hc

/-- the value of an emitted duration token is ASCII -/
theorem scanDuration_ascii {cs v r : Str} (ha : cs.all LexImage.isAscii = true) (h : scanDuration pyCharEnv cs = some (v, r)) :
    v.all LexImage.isAscii = true := by
  rw [scanDuration_eq] at h
  cases hk : kw pyCharEnv "duration'".toList cs with
  | none => rw [hk] at h; cases h
  | some x =>
    obtain ⟨m0, r0⟩ := x
    rw [hk] at h
    simp only at h
    cases hi : durInner r0 with
    | none => rw [hi] at h; cases h
    | some y =>
      obtain ⟨B, r1⟩ := y
      rw [hi] at h
      simp only at h
      split at h
      · simp only [Option.some.injEq, Prod.mk.injEq] at h
        obtain ⟨rfl, rfl⟩ := h
        have hd := durInner_decomp hi
        obtain ⟨hcs, -⟩ := kw_ps _ _ _ _ hk
        rw [hcs, hd] at ha
        simp only [List.all_append, Bool.and_eq_true] at ha
        have hB := List.all_eq_true.1 ha.2.1
        rw [List.all_eq_true]
        intro c hc
        obtain ⟨b, hb, rfl⟩ := List.mem_map.1 hc
        exact durUpper_asc b (hB b hb)
      · cases h

/-- a duration / GUID / integer token the lexer emits on ASCII text has a Python value -/
theorem emitted_pyVal {k : LitKind} {v : Str} (he : Emitted (.lit k v)) (hk : k = .duration ∨ k = .guid ∨ k = .int)
    (c : String) : pyVal k v ≠ .foreign c := by
  rcases hk with rfl | rfl | rfl
  · obtain ⟨cs, r, ha, h⟩ := he
    have hs : scanDuration pyCharEnv cs = some (v, r) := LexRender.lexOne_src h
    obtain ⟨p, hp, -⟩ := scanDuration_ok cs v r ha hs
    have hva := scanDuration_ascii ha hs
    have hcongr : durUnpack D v = durUnpack A v :=
      durUnpack_congr v (fun x hx => A_ascii x (List.all_eq_true.1 hva x hx))
    rw [hcongr] at hp
    exact pyDuration_nf hp c
  · exact pyGuid_nf v c
  · exact pyInt_nf v c

end OQ.AcceptedPyVal
