/- Lemmas/LexImage.lean — helper lemmas for Props/C06Image.lean: what each lexer rule guarantees about its text. -/
import ODataVerif.Model.Lexer
import ODataVerif.Model.Parser
import ODataVerif.Model.SqlPieces
import ODataVerif.Lemmas.SqlTotal
import ODataVerif.Lemmas.Totality
set_option linter.unusedSimpArgs false
set_option linter.unusedVariables false
namespace OQ.LexImage
open Spec (isDig)

def isAscii (c : Char) : Bool := c.toNat < 128

theorem ascii_forall (P : Char → Bool) (h : ∀ n, n < 128 → P (Char.ofNat n) = true)
    (c : Char) (hc : isAscii c = true) : P c = true := by
  have := h c.toNat (by simpa [isAscii] using hc)
  rwa [Char.ofNat_toNat] at this

theorem digit_ascii (c : Char) (hc : isAscii c = true) : pyCharEnv.isDigit c = isDig c := by
  have := ascii_forall (fun c => pyCharEnv.isDigit c == isDig c) (by decide +kernel) c hc
  simpa using this

theorem lower_ascii (c : Char) (h : isAsciiLower c = true) : isAscii c = true := by
  simp only [isAsciiLower, isAscii, Char.le_def, UInt32.le_iff_toNat_le, Bool.and_eq_true, decide_eq_true_eq, Char.toNat_val] at *
  have : 'z'.toNat = 122 := by decide
  omega

theorem asciiUpper_q (c : Char) (h : asciiUpper c = '\'') : c = '\'' := by
  by_cases hl : isAsciiLower c = true
  · have := ascii_forall (fun c => asciiUpper c != '\'' || c == '\'') (by decide +kernel) c (lower_ascii c hl)
    simpa [h] using this
  · simpa [asciiUpper, hl] using h

/-! ### span -/
theorem span_eq (p : Char → Bool) : ∀ cs, span p cs = (cs.takeWhile p, cs.dropWhile p)
  | [] => rfl
  | c :: cs => by
    simp only [span, List.takeWhile_cons, List.dropWhile_cons]
    split <;> simp [span_eq p cs]

theorem span_congr (p q : Char → Bool) : ∀ cs : List Char, (∀ c ∈ cs, p c = q c) → span p cs = span q cs
  | [], _ => rfl
  | c :: cs, h => by
    simp only [span]
    rw [h c (by simp), span_congr p q cs (fun x hx => h x (by simp [hx]))]

def headNot (p : Char → Bool) : List Char → Bool
  | [] => true
  | c :: _ => !p c

theorem span1_spec (p : Char → Bool) (cs a b : List Char) (h : span1 p cs = some (a, b)) :
    a ≠ [] ∧ a.all p = true ∧ headNot p b = true ∧ cs = a ++ b := by
  unfold span1 at h
  rw [span_eq] at h
  split at h
  · simp at h
  · rename_i a' b' hne heq
    simp only [Option.some.injEq, Prod.mk.injEq] at h heq
    obtain ⟨rfl, rfl⟩ := h
    obtain ⟨rfl, rfl⟩ := heq
    refine ⟨hne, by simp, ?_, by simp⟩
    all_goals skip
    generalize hd : List.dropWhile p cs = d
    cases d with
    | nil => rfl
    | cons x xs =>
      have := List.head_dropWhile_not p (l := cs) (by simp [hd])
      simpa [headNot, hd] using this

theorem span1_digit_ascii (cs : List Char) (ha : cs.all isAscii = true) :
    span1 pyCharEnv.isDigit cs = span1 isDig cs := by
  unfold span1
  rw [span_congr pyCharEnv.isDigit isDig cs (fun c hc => digit_ascii c (by simp at ha; exact ha c hc))]



/-! ### numbers -/
theorem takeWhile_app (p : Char → Bool) : ∀ (ds r : List Char), ds.all p = true → headNot p r = true →
    (ds ++ r).takeWhile p = ds
  | [], r, _, hr => by
    cases r with
    | nil => rfl
    | cons c t => simp [headNot] at hr; simp [List.takeWhile_cons, hr]
  | d :: ds, r, hd, hr => by
    simp only [List.all_cons, Bool.and_eq_true] at hd
    simp [List.takeWhile_cons, hd.1, takeWhile_app p ds r hd.2 hr]

/-- the tail of a number after its integer digits -/
def numTail (r : Str) : Bool :=
  match r with
   | [] => true
   | '.' :: r1 =>
       let fp := r1.takeWhile isDig
       !fp.isEmpty &&
       (match r1.drop fp.length with
        | [] => true
        | c :: r2 =>
            (c == 'e' || c == 'E') &&
            (match r2 with
             | '+' :: r3 | '-' :: r3 => allDig r3
             | _ => allDig r2))
   | c :: r2 =>
       (c == 'e' || c == 'E') &&
       (match r2 with
        | '+' :: r3 | '-' :: r3 => allDig r3
        | _ => allDig r2)

theorem isNumBody_app (ds r : Str) (hne : ds ≠ []) (hd : ds.all isDig = true) (hr : headNot isDig r = true) :
    isNumBody (ds ++ r) = numTail r := by
  unfold isNumBody numTail
  simp only [takeWhile_app isDig ds r hd hr, List.drop_left]
  cases ds with
  | nil => exact absurd rfl hne
  | cons => simp; rfl

/-- exponent: `e`/`E`, optional sign, digits -/
def expOk (e : Str) : Bool :=
  match e with
  | c :: r2 => (c == 'e' || c == 'E') && (match r2 with
        | '+' :: r3 | '-' :: r3 => allDig r3
        | _ => allDig r2)
  | [] => false

theorem numTail_exp (e : Str) (h : expOk e = true) : numTail e = true := by
  unfold expOk at h
  split at h
  · rename_i c r2
    simp only [Bool.and_eq_true, Bool.or_eq_true, beq_iff_eq] at h
    obtain ⟨hc, h2⟩ := h
    rcases hc with rfl | rfl <;> simp [numTail, h2]
  · cases h

theorem expOk_headNot (e : Str) (h : expOk e = true) : headNot isDig e = true := by
  unfold expOk at h
  split at h
  · simp only [Bool.and_eq_true, Bool.or_eq_true, beq_iff_eq] at h
    rcases h.1 with rfl | rfl <;> simp [headNot] <;> decide
  · cases h

theorem numTail_frac (fs : Str) (hne : fs ≠ []) (hd : fs.all isDig = true) : numTail ('.' :: fs) = true := by
  have := takeWhile_app isDig fs [] hd rfl
  simp only [List.append_nil] at this
  simp only [numTail, this, List.drop_length]
  cases fs with
  | nil => exact absurd rfl hne
  | cons => simp

theorem numTail_frac_exp (fs e : Str) (hne : fs ≠ []) (hd : fs.all isDig = true) (he : expOk e = true) :
    numTail ('.' :: (fs ++ e)) = true := by
  have := takeWhile_app isDig fs e hd (expOk_headNot e he)
  simp only [List.cons_append, numTail, this, List.drop_left]
  unfold expOk at he
  cases fs with
  | nil => exact absurd rfl hne
  | cons =>
    cases e with
    | nil => cases he
    | cons c r2 => simpa using he


/-! ### case-insensitive pattern letters on ASCII input -/
def ciLetters : List Char := ['t','r','u','e','f','a','l','s','y','m','d','h','p','z']

theorem ci_ascii (p c : Char) (hp : p ∈ ciLetters) (hc : isAscii c = true) :
    ciChar pyCharEnv p c = (c == p || c == asciiUpper p) := by
  have := ascii_forall (fun c => ciLetters.all (fun p => ciChar pyCharEnv p c == (c == p || c == asciiUpper p)))
    (by decide +kernel) c hc
  simp only [List.all_eq_true, beq_iff_eq] at this
  exact this p hp

theorem ci_upper (p c : Char) (hp : p ∈ ciLetters) (hc : isAscii c = true) (h : ciChar pyCharEnv p c = true) :
    pyUpperC c = asciiUpper p ∧ durUpper c = asciiUpper p ∧ asciiUpper c = asciiUpper p := by
  have := ascii_forall (fun c => ciLetters.all (fun p => !ciChar pyCharEnv p c ||
      (pyUpperC c == asciiUpper p && durUpper c == asciiUpper p && asciiUpper c == asciiUpper p)))
    (by decide +kernel) c hc
  simp only [List.all_eq_true] at this
  simpa [h, and_assoc] using this p hp

theorem ci_dur (p c : Char) (hp : p ∈ ciLetters) (hc : isAscii c = true) :
    ciChar pyCharEnv p c = (durUpper c == asciiUpper p) := by
  have := ascii_forall (fun c => ciLetters.all (fun p => ciChar pyCharEnv p c == (durUpper c == asciiUpper p)))
    (by decide +kernel) c hc
  simp only [List.all_eq_true, beq_iff_eq] at this
  exact this p hp

theorem isNumText_sign (sg ds t : Str) (hs : sg = [] ∨ sg = ['+'] ∨ sg = ['-']) (hne : ds ≠ [])
    (hd : ds.all isDig = true) : isNumText (sg ++ ds ++ t) = isNumBody (ds ++ t) := by
  rcases hs with rfl | rfl | rfl
  · cases ds with
    | nil => exact absurd rfl hne
    | cons d ds =>
      simp only [List.all_cons, Bool.and_eq_true] at hd
      simp only [List.nil_append, List.cons_append]
      unfold isNumText
      split
      · rename_i heq; simp only [List.cons.injEq] at heq; obtain ⟨rfl, -⟩ := heq; exact absurd hd.1 (by decide)
      · rename_i heq; simp only [List.cons.injEq] at heq; obtain ⟨rfl, -⟩ := heq; exact absurd hd.1 (by decide)
      · rfl
  · simp [isNumText]
  · simp [isNumText]

theorem scanInteger_spec (cs v r : Str) (ha : cs.all isAscii = true) (h : scanInteger pyCharEnv cs = some (v, r)) :
    ∃ sg ds, v = sg ++ ds ∧ (sg = [] ∨ sg = ['+'] ∨ sg = ['-']) ∧ ds ≠ [] ∧ ds.all isDig = true ∧
      headNot isDig r = true ∧ cs = v ++ r := by
  unfold scanInteger at h
  split at h
  · rename_i t
    simp only [List.all_cons, Bool.and_eq_true] at ha
    rw [span1_digit_ascii t ha.2] at h
    simp only [Option.map_eq_some_iff, Prod.mk.injEq, Prod.exists] at h
    obtain ⟨a, b, h1, rfl, rfl⟩ := h
    obtain ⟨hne, hd, hr, rfl⟩ := span1_spec _ _ _ _ h1
    exact ⟨['+'], a, rfl, by simp, hne, hd, hr, rfl⟩
  · rename_i t
    simp only [List.all_cons, Bool.and_eq_true] at ha
    rw [span1_digit_ascii t ha.2] at h
    simp only [Option.map_eq_some_iff, Prod.mk.injEq, Prod.exists] at h
    obtain ⟨a, b, h1, rfl, rfl⟩ := h
    obtain ⟨hne, hd, hr, rfl⟩ := span1_spec _ _ _ _ h1
    exact ⟨['-'], a, rfl, by simp, hne, hd, hr, rfl⟩
  · rw [span1_digit_ascii cs ha] at h
    obtain ⟨hne, hd, hr, rfl⟩ := span1_spec _ _ _ _ h
    exact ⟨[], v, rfl, by simp, hne, hd, hr, rfl⟩

theorem scanInteger_num (cs v r : Str) (ha : cs.all isAscii = true) (h : scanInteger pyCharEnv cs = some (v, r)) :
    isNumText v = true := by
  obtain ⟨sg, ds, rfl, hs, hne, hd, hr, -⟩ := scanInteger_spec cs v r ha h
  have := isNumText_sign sg ds [] hs hne hd
  simp only [List.append_nil] at this
  rw [this]
  have := isNumBody_app ds [] hne hd rfl
  simp only [List.append_nil] at this
  rw [this]; rfl

theorem scanExponent_spec (cs e r : Str) (ha : cs.all isAscii = true) (h : scanExponent pyCharEnv cs = some (e, r)) :
    expOk e = true := by
  unfold scanExponent at h
  split at h
  · rename_i c t
    simp only [List.all_cons, Bool.and_eq_true] at ha
    split at h
    · rename_i hc
      rw [ci_ascii 'e' c (by decide) ha.1] at hc
      have hc' : c = 'e' ∨ c = 'E' := by simpa [asciiUpper, isAsciiLower] using hc
      split at h
      · rename_i t'
        simp only [List.all_cons, Bool.and_eq_true] at ha
        rw [span1_digit_ascii t' ha.2.2] at h
        simp only [Option.map_eq_some_iff, Prod.mk.injEq, Prod.exists] at h
        obtain ⟨a, b, h1, rfl, rfl⟩ := h
        obtain ⟨hne, hd, hr, -⟩ := span1_spec _ _ _ _ h1
        have : allDig a = true := by cases a <;> simp_all [allDig]
        rcases hc' with rfl | rfl <;> simp [expOk, this]
      · rename_i t'
        simp only [List.all_cons, Bool.and_eq_true] at ha
        rw [span1_digit_ascii t' ha.2.2] at h
        simp only [Option.map_eq_some_iff, Prod.mk.injEq, Prod.exists] at h
        obtain ⟨a, b, h1, rfl, rfl⟩ := h
        obtain ⟨hne, hd, hr, -⟩ := span1_spec _ _ _ _ h1
        have : allDig a = true := by cases a <;> simp_all [allDig]
        rcases hc' with rfl | rfl <;> simp [expOk, this]
      · rename_i hn1 hn2
        rw [span1_digit_ascii t ha.2] at h
        simp only [Option.map_eq_some_iff, Prod.mk.injEq, Prod.exists] at h
        obtain ⟨a, b, h1, rfl, rfl⟩ := h
        obtain ⟨hne, hd, hr, -⟩ := span1_spec _ _ _ _ h1
        have hall : allDig a = true := by cases a <;> simp_all [allDig]
        cases a with
        | nil => exact absurd rfl hne
        | cons d ds =>
          simp only [List.all_cons, Bool.and_eq_true] at hd
          have h1 : d ≠ '+' := by rintro rfl; exact absurd hd.1 (by decide)
          have h2 : d ≠ '-' := by rintro rfl; exact absurd hd.1 (by decide)
          unfold expOk
          rcases hc' with rfl | rfl
          · simp only [beq_self_eq_true, Bool.true_or, Bool.true_and]
            split
            · rename_i heq; simp only [List.cons.injEq] at heq; exact absurd heq.1 h1
            · rename_i heq; simp only [List.cons.injEq] at heq; exact absurd heq.1 h2
            · exact hall
          · simp only [beq_self_eq_true, Bool.or_true, Bool.true_and]
            split
            · rename_i heq; simp only [List.cons.injEq] at heq; exact absurd heq.1 h1
            · rename_i heq; simp only [List.cons.injEq] at heq; exact absurd heq.1 h2
            · exact hall
    · simp at h
  · simp at h


theorem scanDecimal_num (cs v r : Str) (ha : cs.all isAscii = true) (h : scanDecimal pyCharEnv cs = some (v, r)) :
    isNumText v = true := by
  unfold scanDecimal at h
  simp only [Option.bind_eq_bind, Option.bind_eq_some_iff] at h
  obtain ⟨⟨i, r1⟩, h1, h⟩ := h
  obtain ⟨sg, ds, rfl, hs, hne, hd, hr, hcs⟩ := scanInteger_spec cs i r1 ha h1
  have ha1 : r1.all isAscii = true := by rw [hcs] at ha; simp only [List.all_append, Bool.and_eq_true] at ha; exact ha.2
  dsimp only at h
  split at h
  · rename_i t
    simp only [List.all_cons, Bool.and_eq_true] at ha1
    rw [span1_digit_ascii t ha1.2] at h
    split at h
    · rename_i f r' hf
      obtain ⟨hfne, hfd, hfr, hft⟩ := span1_spec _ _ _ _ hf
      have ha2 : r'.all isAscii = true := by
        have := ha1.2; rw [hft] at this; simp only [List.all_append, Bool.and_eq_true] at this; exact this.2
      split at h
      · rename_i e r'' he
        have hexp := scanExponent_spec _ _ _ ha2 he
        simp only [Option.some.injEq, Prod.mk.injEq] at h
        obtain ⟨rfl, -⟩ := h
        have e1 : sg ++ ds ++ '.' :: f ++ e = sg ++ ds ++ ('.' :: (f ++ e)) := by simp [List.append_assoc]
        rw [e1, isNumText_sign sg ds _ hs hne hd, isNumBody_app ds _ hne hd (by simp [headNot]; decide)]
        exact numTail_frac_exp f e hfne hfd hexp
      · simp only [Option.some.injEq, Prod.mk.injEq] at h
        obtain ⟨rfl, -⟩ := h
        rw [isNumText_sign sg ds _ hs hne hd, isNumBody_app ds _ hne hd (by simp [headNot]; decide)]
        exact numTail_frac f hfne hfd
    · simp at h
  · split at h
    · rename_i e r'' he
      have hexp := scanExponent_spec _ _ _ ha1 he
      simp only [Option.some.injEq, Prod.mk.injEq] at h
      obtain ⟨rfl, -⟩ := h
      rw [isNumText_sign sg ds _ hs hne hd, isNumBody_app ds _ hne hd (expOk_headNot e hexp)]
      exact numTail_exp e hexp
    · simp at h



/-! ### keywords / Booleans -/
theorem kw_nil (env : CharEnv) (cs m r : List Char) : kw env [] cs = some (m, r) ↔ m = [] ∧ r = cs := by
  simp only [kw, Option.some.injEq, Prod.mk.injEq]
  constructor <;> (rintro ⟨rfl, rfl⟩; exact ⟨rfl, rfl⟩)

theorem kw_cons (env : CharEnv) (p : Char) (ps cs m r : List Char) :
    kw env (p :: ps) cs = some (m, r) ↔
      ∃ c t m', cs = c :: t ∧ ciChar env p c = true ∧ kw env ps t = some (m', r) ∧ m = c :: m' := by
  cases cs with
  | nil => simp [kw]
  | cons c t =>
    simp only [kw]
    split
    · rename_i hc
      cases hk : kw env ps t with
      | none =>
        simp only [reduceCtorEq, false_iff, not_exists, not_and]
        rintro c' t' m' h1 - h2
        simp only [List.cons.injEq] at h1
        obtain ⟨rfl, rfl⟩ := h1
        rw [hk] at h2; cases h2
      | some q =>
        obtain ⟨m', r'⟩ := q
        simp only [Option.some.injEq, Prod.mk.injEq]
        constructor
        · rintro ⟨rfl, rfl⟩; exact ⟨c, t, m', rfl, hc, hk, rfl⟩
        · rintro ⟨c', t', m'', h1, -, h2, rfl⟩
          simp only [List.cons.injEq] at h1
          obtain ⟨rfl, rfl⟩ := h1
          rw [hk] at h2
          simp only [Option.some.injEq, Prod.mk.injEq] at h2
          obtain ⟨rfl, rfl⟩ := h2
          exact ⟨rfl, rfl⟩
    · rename_i hc
      simp only [reduceCtorEq, false_iff, not_exists, not_and]
      rintro c' t' m' h1 hc'
      simp only [List.cons.injEq] at h1
      obtain ⟨rfl, rfl⟩ := h1
      exact absurd hc' hc

theorem true_toList : "true".toList = ['t','r','u','e'] := by decide
theorem false_toList : "false".toList = ['f','a','l','s','e'] := by decide

theorem scanWord_true (cs v r : Str) (ha : cs.all isAscii = true) (h : scanWord pyCharEnv "true".toList cs = some (v, r)) :
    boolText v = true := by
  rw [true_toList] at h
  unfold scanWord at h
  split at h
  · rename_i m r' hk
    split at h <;> simp only [Option.some.injEq, Prod.mk.injEq, reduceCtorEq] at h
    obtain ⟨rfl, rfl⟩ := h
    simp only [kw_cons, kw_nil] at hk
    obtain ⟨c1, t1, m1, rfl, h1, ⟨c2, t2, m2, rfl, h2, ⟨c3, t3, m3, rfl, h3, ⟨c4, t4, m4, rfl, h4, ⟨rfl, rfl⟩, rfl⟩, rfl⟩, rfl⟩, rfl⟩ := hk
    simp only [List.all_cons, Bool.and_eq_true] at ha
    obtain ⟨a1, a2, a3, a4, -⟩ := ha
    simp only [boolText, pyUpper, List.map_cons, List.map_nil,
      (ci_upper 't' c1 (by decide) a1 h1).1, (ci_upper 'r' c2 (by decide) a2 h2).1,
      (ci_upper 'u' c3 (by decide) a3 h3).1, (ci_upper 'e' c4 (by decide) a4 h4).1]
    decide
  · simp at h

theorem scanWord_false (cs v r : Str) (ha : cs.all isAscii = true) (h : scanWord pyCharEnv "false".toList cs = some (v, r)) :
    boolText v = true := by
  rw [false_toList] at h
  unfold scanWord at h
  split at h
  · rename_i m r' hk
    split at h <;> simp only [Option.some.injEq, Prod.mk.injEq, reduceCtorEq] at h
    obtain ⟨rfl, rfl⟩ := h
    simp only [kw_cons, kw_nil] at hk
    obtain ⟨c1, t1, m1, rfl, h1, ⟨c2, t2, m2, rfl, h2, ⟨c3, t3, m3, rfl, h3, ⟨c4, t4, m4, rfl, h4, ⟨c5, t5, m5, rfl, h5, ⟨rfl, rfl⟩, rfl⟩, rfl⟩, rfl⟩, rfl⟩, rfl⟩ := hk
    simp only [List.all_cons, Bool.and_eq_true] at ha
    obtain ⟨a1, a2, a3, a4, a5, -⟩ := ha
    simp only [boolText, pyUpper, List.map_cons, List.map_nil,
      (ci_upper 'f' c1 (by decide) a1 h1).1, (ci_upper 'a' c2 (by decide) a2 h2).1,
      (ci_upper 'l' c3 (by decide) a3 h3).1, (ci_upper 's' c4 (by decide) a4 h4).1,
      (ci_upper 'e' c5 (by decide) a5 h5).1]
    decide
  · simp at h



/-! ### date / time / datetime / GUID: no quote -/
theorem digit_q : pyCharEnv.isDigit '\'' = false := by decide +kernel
theorem hex_q : isHex pyCharEnv '\'' = false := by decide +kernel
theorem icr_q (lo hi : Char) (h : '(' ≤ lo) : inCharRange lo hi '\'' = false := by
  simp only [inCharRange, Bool.and_eq_false_imp, decide_eq_true_eq, decide_eq_false_iff_not]
  intro h'
  have : '(' ≤ '\'' := Char.le_trans h h'
  exact absurd this (by decide)

theorem noq_of_all (P : Char → Bool) (hP : P '\'' = false) (v : Str) (h : v.all P = true) : v.contains '\'' = false := by
  rw [Bool.eq_false_iff]
  intro hc
  rw [List.contains_iff_mem] at hc
  rw [List.all_eq_true] at h
  have := h _ hc
  rw [hP] at this; cases this

theorem takeN_all (p : Char → Bool) : ∀ (n : Nat) (cs m r : List Char), takeN p n cs = some (m, r) → m.all p = true
  | 0, cs, m, r, h => by simp [takeN] at h; simp [h.1]
  | _ + 1, [], m, r, h => by simp [takeN] at h
  | n + 1, c :: cs, m, r, h => by
      simp only [takeN] at h
      split at h
      · rename_i hc
        split at h
        · rename_i m' r' heq
          simp only [Option.some.injEq, Prod.mk.injEq] at h
          obtain ⟨rfl, rfl⟩ := h
          simp [hc, takeN_all p n cs m' _ heq]
        · simp at h
      · simp at h

theorem takeUpTo_all (p : Char → Bool) : ∀ (n : Nat) (cs : List Char), (takeUpTo p n cs).1.all p = true
  | 0, cs => by simp [takeUpTo]
  | _ + 1, [] => by simp [takeUpTo]
  | n + 1, c :: cs => by
      simp only [takeUpTo]
      split
      · rename_i hc
        have := takeUpTo_all p n cs
        simp [hc, this]
      · simp

/-- `v` contains no quote -/
abbrev NoQ (v : Str) : Prop := '\'' ∉ v

theorem noQ_contains (v : Str) (h : NoQ v) : v.contains '\'' = false := by
  rw [Bool.eq_false_iff]; intro hc; exact h (List.contains_iff_mem.mp hc)

theorem noQ_digits (v : Str) (h : v.all pyCharEnv.isDigit = true) : NoQ v := by
  intro hc
  rw [List.all_eq_true] at h
  have := h _ hc
  rw [digit_q] at this; cases this

theorem scanDatePart_noq (cs v r : Str) (h : scanDatePart pyCharEnv cs = some (v, r)) : NoQ v := by
  unfold scanDatePart at h
  split at h
  · split at h <;> simp only [Option.some.injEq, Prod.mk.injEq, reduceCtorEq] at h
    rename_i hc
    obtain ⟨rfl, -⟩ := h
    intro hm
    simp only [List.mem_cons, List.not_mem_nil, or_false] at hm
    rcases hm with rfl | rfl | rfl | rfl | hm | rfl | rfl | hm | rfl | rfl <;>
      first
      | (revert hm; decide)
      | (simp [digit_q, icr_q] at hc)
  · simp at h


theorem scanHourMinute_noq (cs v r : Str) (h : scanHourMinute pyCharEnv cs = some (v, r)) : NoQ v := by
  unfold scanHourMinute at h
  split at h
  · split at h <;> simp only [Option.some.injEq, Prod.mk.injEq, reduceCtorEq] at h
    rename_i hc
    obtain ⟨rfl, -⟩ := h
    intro hm
    simp only [List.mem_cons, List.not_mem_nil, or_false] at hm
    rcases hm with rfl | rfl | hm | rfl | rfl <;>
      first
      | (revert hm; decide)
      | (simp [digit_q, icr_q] at hc)
  · simp at h

theorem scanFraction_noq (cs : Str) : NoQ (scanFraction pyCharEnv cs).1 := by
  unfold scanFraction
  split
  · rename_i r
    have := takeUpTo_all pyCharEnv.isDigit 12 r
    split
    · simp [NoQ]
    · rename_i ds r' hne heq
      rw [heq] at this
      have := noQ_digits ds this
      intro hm
      simp only [List.mem_cons] at hm
      rcases hm with hm | hm
      · revert hm; decide
      · exact this hm
  · simp [NoQ]

theorem scanSeconds_noq (cs v r : Str) (h : scanSeconds pyCharEnv cs = some (v, r)) : NoQ v := by
  unfold scanSeconds at h
  split at h
  · rename_i s1 s2 r0
    have hf := scanFraction_noq r0
    split at h <;> simp only [Option.some.injEq, Prod.mk.injEq, reduceCtorEq] at h
    rename_i hc
    obtain ⟨rfl, -⟩ := h
    intro hm
    simp only [List.mem_cons] at hm
    rcases hm with hm | hm | rfl | rfl | hm
    · revert hm; decide
    · revert hm; decide
    · simp [digit_q, icr_q] at hc
    · simp [digit_q, icr_q] at hc
    · exact hf hm
  · rename_i s1 s2 r0 _
    have hf := scanFraction_noq r0
    split at h <;> simp only [Option.some.injEq, Prod.mk.injEq, reduceCtorEq] at h
    rename_i hc
    obtain ⟨rfl, -⟩ := h
    intro hm
    simp only [List.mem_cons] at hm
    rcases hm with hm | rfl | rfl | hm
    · revert hm; decide
    · simp [digit_q, icr_q] at hc
    · simp [digit_q, icr_q] at hc
    · exact hf hm
  · simp at h

theorem ciz_q : ciChar pyCharEnv 'z' '\'' = false := by decide +kernel
theorem cit_q : ciChar pyCharEnv 't' '\'' = false := by decide +kernel

theorem scanOffset_noq (cs : Str) : NoQ (scanOffset pyCharEnv cs).1 := by
  unfold scanOffset
  split
  · rename_i c r
    split
    · rename_i hc
      intro hm
      simp only [List.mem_cons, List.not_mem_nil, or_false] at hm
      subst hm
      rw [ciz_q] at hc; cases hc
    · split
      · rename_i hc
        split
        · rename_i hm r' heq
          have := scanHourMinute_noq _ _ _ heq
          intro hmem
          simp only [List.mem_cons] at hmem
          rcases hmem with rfl | hmem
          · simp at hc
          · exact this hmem
        · simp [NoQ]
      · simp [NoQ]
  · simp [NoQ]

theorem noQ_append {a b : Str} (ha : NoQ a) (hb : NoQ b) : NoQ (a ++ b) := by
  intro hm; rcases List.mem_append.mp hm with h | h
  · exact ha h
  · exact hb h

theorem noQ_upper {a : Str} (ha : NoQ a) : NoQ (a.map asciiUpper) := by
  intro hm
  obtain ⟨c, hc, hq⟩ := List.mem_map.mp hm
  have := asciiUpper_q c hq
  subst this
  exact ha hc

theorem scanDateTime_noq (cs v r : Str) (h : scanDateTime pyCharEnv cs = some (v, r)) : NoQ v := by
  unfold scanDateTime at h
  simp only [Option.bind_eq_bind, Option.bind_eq_some_iff] at h
  obtain ⟨⟨d, r1⟩, h1, h⟩ := h
  have hd := scanDatePart_noq _ _ _ h1
  split at h
  · rename_i _ t r2 _
    split at h
    · rename_i ht
      simp only [Option.bind_eq_bind, Option.bind_eq_some_iff] at h
      obtain ⟨⟨hm, r3⟩, h2, h⟩ := h
      dsimp only at h
      have hhm := scanHourMinute_noq _ _ _ h2
      have htq : NoQ [t] := by
        intro hm; simp only [List.mem_cons, List.not_mem_nil, or_false] at hm; subst hm
        rw [cit_q] at ht; cases ht
      cases hs : scanSeconds pyCharEnv r3 with
      | none =>
        simp only [hs, Option.pure_def, Option.some.injEq, Prod.mk.injEq] at h
        obtain ⟨rfl, -⟩ := h
        have ho := scanOffset_noq r3
        refine noQ_upper ?_
        have := noQ_append (noQ_append (noQ_append hd (noQ_append htq hhm)) (by simp [NoQ] : NoQ [])) ho
        simpa [List.append_assoc] using this
      | some p =>
        obtain ⟨s, r4⟩ := p
        have hsq := scanSeconds_noq _ _ _ hs
        simp only [hs, Option.pure_def, Option.some.injEq, Prod.mk.injEq] at h
        obtain ⟨rfl, -⟩ := h
        have ho := scanOffset_noq r4
        refine noQ_upper ?_
        have := noQ_append (noQ_append (noQ_append hd (noQ_append htq hhm)) hsq) ho
        simpa [List.append_assoc] using this
    · simp at h
  · simp at h

theorem scanTime_noq (cs v r : Str) (h : scanTime pyCharEnv cs = some (v, r)) : NoQ v := by
  unfold scanTime at h
  simp only [Option.bind_eq_bind, Option.bind_eq_some_iff] at h
  obtain ⟨⟨d, r1⟩, h1, ⟨s, r2⟩, h2, h⟩ := h
  simp only [Option.pure_def, Option.some.injEq, Prod.mk.injEq] at h
  obtain ⟨rfl, -⟩ := h
  exact noQ_append (scanHourMinute_noq _ _ _ h1) (scanSeconds_noq _ _ _ h2)

theorem noQ_hex (v : Str) (h : v.all (isHex pyCharEnv) = true) : NoQ v := by
  intro hc
  rw [List.all_eq_true] at h
  have := h _ hc
  rw [hex_q] at this; cases this

theorem noQ_dash {a : Str} (ha : NoQ a) : NoQ ('-' :: a) := by
  intro hm; simp only [List.mem_cons] at hm
  rcases hm with hm | hm
  · revert hm; decide
  · exact ha hm

theorem scanGuid_noq (cs v r : Str) (h : scanGuid pyCharEnv cs = some (v, r)) : NoQ v := by
  unfold scanGuid at h
  simp only [Option.bind_eq_bind, Option.bind_eq_some_iff] at h
  obtain ⟨⟨a, r1⟩, h1, h⟩ := h
  have q1 := noQ_hex _ (takeN_all _ _ _ _ _ h1)
  split at h <;> simp only [Option.bind_some, Option.bind_none, Option.bind_eq_some_iff, reduceCtorEq] at h
  obtain ⟨⟨b, r2⟩, h2, h⟩ := h
  have q2 := noQ_hex _ (takeN_all _ _ _ _ _ h2)
  split at h <;> simp only [Option.bind_some, Option.bind_none, Option.bind_eq_some_iff, reduceCtorEq] at h
  obtain ⟨⟨c, r3⟩, h3, h⟩ := h
  have q3 := noQ_hex _ (takeN_all _ _ _ _ _ h3)
  split at h <;> simp only [Option.bind_some, Option.bind_none, Option.bind_eq_some_iff, reduceCtorEq] at h
  obtain ⟨⟨d, r4⟩, h4, h⟩ := h
  have q4 := noQ_hex _ (takeN_all _ _ _ _ _ h4)
  split at h <;> simp only [Option.bind_some, Option.bind_none, Option.bind_eq_some_iff, reduceCtorEq] at h
  obtain ⟨⟨e, r5⟩, h5, h⟩ := h
  have q5 := noQ_hex _ (takeN_all _ _ _ _ _ h5)
  simp only [Option.pure_def, Option.some.injEq, Prod.mk.injEq] at h
  obtain ⟨rfl, -⟩ := h
  have := noQ_append q1 (noQ_dash (noQ_append q2 (noQ_dash (noQ_append q3 (noQ_dash (noQ_append q4 (noQ_dash q5)))))))
  simpa [List.append_assoc] using this



/-! ### identifiers: no double quote -/
abbrev NoDQ (v : Str) : Prop := '"' ∉ v

theorem word_dq : pyCharEnv.isWord '"' = false := by decide +kernel
theorem identStart_dq : isIdentStart pyCharEnv '"' = false := by decide +kernel

theorem identTail_nodq : ∀ (n : Nat) (cs : List Char), NoDQ (identTail pyCharEnv n cs).1 := by
  intro n cs
  fun_induction identTail pyCharEnv n cs
  all_goals try (simp [NoDQ]; done)
  · rename_i n c t hc a b heq ih
    rw [heq] at ih
    intro hm
    simp only [List.mem_cons] at hm
    rcases hm with hm | rfl | hm
    · revert hm; decide
    · rw [word_dq] at hc; cases hc
    · exact ih hm
  · rename_i n c t _ hc a b heq ih
    rw [heq] at ih
    intro hm
    simp only [List.mem_cons] at hm
    rcases hm with rfl | hm
    · rw [word_dq] at hc; cases hc
    · exact ih hm

theorem splitDots_nodq : ∀ (s : List Char), NoDQ s → ∀ p ∈ splitDots s, NoDQ p := by
  intro s
  fun_induction splitDots s
  · intro _ p hp; simp at hp; subst hp; simp [NoDQ]
  · rename_i t ih
    intro hs p hp
    simp only [List.mem_cons] at hp
    rcases hp with rfl | hp
    · simp [NoDQ]
    · exact ih (fun h => hs (List.mem_cons_of_mem _ h)) p hp
  · rename_i c t hne h r heq ih
    intro hs p hp
    rw [heq] at ih
    have ih' := ih (fun h => hs (List.mem_cons_of_mem _ h))
    simp only [List.mem_cons] at hp
    rcases hp with rfl | hp
    · intro hm
      simp only [List.mem_cons] at hm
      rcases hm with rfl | hm
      · exact hs (by simp)
      · exact ih' h (by simp) hm
    · exact ih' p (by simp [hp])
  · rename_i c t hne heq ih
    intro hs p hp
    simp only [List.mem_cons, List.not_mem_nil, or_false] at hp
    subst hp
    intro hm
    simp only [List.mem_cons, List.not_mem_nil, or_false] at hm
    subst hm
    exact hs (by simp)

theorem scanIdent_nodq (cs : Str) (i : Ident) (r : Str) (h : scanIdent pyCharEnv cs = some (i, r)) :
    i.name.contains '"' = false ∧ i.ns.all (fun n => !n.contains '"') = true := by
  unfold scanIdent at h
  split at h
  · rename_i c t
    split at h <;> simp only [Option.some.injEq, Prod.mk.injEq, reduceCtorEq] at h
    rename_i hc
    obtain ⟨rfl, -⟩ := h
    have ht := identTail_nodq 127 t
    have hs : NoDQ (c :: (identTail pyCharEnv 127 t).1) := by
      intro hm
      simp only [List.mem_cons] at hm
      rcases hm with rfl | hm
      · rw [identStart_dq] at hc; cases hc
      · exact ht hm
    have hp := splitDots_nodq _ hs
    simp only [identOfText]
    constructor
    · rw [Bool.eq_false_iff]
      intro hcon
      rw [List.contains_iff_mem] at hcon
      cases hl : (splitDots (c :: (identTail pyCharEnv 127 t).1)).getLast? with
      | none => simp [hl] at hcon
      | some x =>
        simp only [hl, Option.getD_some] at hcon
        exact hp x (List.mem_of_getLast? hl) hcon
    · rw [List.all_eq_true]
      intro n hn
      have := hp n (List.dropLast_subset _ hn)
      simp only [Bool.not_eq_true', Bool.eq_false_iff]
      intro hcon
      exact this (List.contains_iff_mem.mp hcon)
  · simp at h

end OQ.LexImage
