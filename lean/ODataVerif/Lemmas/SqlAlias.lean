/-
  Lemmas/SqlAlias.lean — the table alias is a homomorphic decoration of the emitted pieces: rendering with
  alias `a` is rendering without alias and then prefixing every quoted identifier piece with `"a".`.
-/
import ODataVerif.Model.Sql
namespace OQ.SqlAlias

/-- prefix every column piece with the alias qualifier -/
def qual (a : Str) : Piece → List Piece
  | .dq n => [.dq a, .tok .dot, .dq n]
  | p => [p]

def qualify (a : Str) (ps : List Piece) : List Piece := ps.flatMap (qual a)

@[simp] theorem qualify_nil (a) : qualify a [] = [] := rfl
@[simp] theorem qualify_append (a xs ys) : qualify a (xs ++ ys) = qualify a xs ++ qualify a ys := by
  simp [qualify]
@[simp] theorem qualify_cons (a p xs) : qualify a (p :: xs) = qual a p ++ qualify a xs := by
  simp [qualify]
@[simp] theorem qual_tok (a t) : qual a (.tok t) = [.tok t] := rfl
@[simp] theorem qual_sq (a s) : qual a (.sq s) = [.sq s] := rfl
@[simp] theorem qual_raw (a s) : qual a (.raw s) = [.raw s] := rfl
@[simp] theorem qual_ws (a s) : qual a (.ws s) = [.ws s] := rfl
@[simp] theorem qual_w (a s) : qual a (w s) = [w s] := rfl
@[simp] theorem qual_o (a s) : qual a (o s) = [o s] := rfl
@[simp] theorem qual_sp (a) : qual a sp = [sp] := rfl
@[simp] theorem qual_lp (a) : qual a lp = [lp] := rfl
@[simp] theorem qual_rp (a) : qual a rp = [rp] := rfl
@[simp] theorem qual_comma (a) : qual a comma = [comma] := rfl

theorem qualify_parenP (a ps) : qualify a (parenP ps) = parenP (qualify a ps) := by
  simp [parenP]

theorem qualify_joinComma (a) : ∀ xs : List (List Piece), qualify a (joinComma xs) = joinComma (xs.map (qualify a))
  | [] => rfl
  | [x] => by simp [joinComma]
  | x :: y :: r => by
      have ih := qualify_joinComma a (y :: r)
      simp [joinComma] at ih ⊢
      simp [ih]

theorem qualify_wrapOperand (a e p oe ps) :
    qualify a (wrapOperand e p oe ps) = wrapOperand e p oe (qualify a ps) := by
  unfold wrapOperand; split <;> simp [qualify_parenP]

theorem qualify_boolWrapL (a op l ps) : qualify a (boolWrapL op l ps) = boolWrapL op l (qualify a ps) := by
  unfold boolWrapL; split
  · split <;> simp [qualify_parenP]
  · rfl
theorem qualify_boolWrapR (a r ps) : qualify a (boolWrapR r ps) = boolWrapR r (qualify a ps) := by
  unfold boolWrapR; split <;> simp [qualify_parenP]

theorem qualify_cmpPieces (a op r) : qualify a (cmpPieces op r) = cmpPieces op r := by
  unfold cmpPieces; split
  · simp
  · split
    · simp
    · cases op <;> simp [cmpSym]

theorem qualify_sqlPattern (a arg ps pre suf) :
    qualify a (sqlPattern arg ps pre suf) = sqlPattern arg (qualify a ps) pre suf := by
  unfold sqlPattern
  split
  · dsimp only; split <;> simp
  · dsimp only
    split <;> split <;> simp [qualify_wrapOperand]

theorem getD_map_qualify (a) (items : List (List Piece)) (i : Nat) :
    (items.map (qualify a)).getD i [] = qualify a (items.getD i []) := by
  simp only [List.getD_eq_getElem?_getD, List.getElem?_map]
  cases items[i]? <;> simp

theorem qualify_instItem (a args items it) :
    qualify a (instItem args items it) = instItem args (items.map (qualify a)) it ∨ (∃ n, it = .p (.dq n)) := by
  cases it with
  | p x => cases x <;> simp [instItem]
  | arg i => left; simp only [instItem, getD_map_qualify]
  | argW i pr oe => left; simp only [instItem, getD_map_qualify, qualify_wrapOperand]
  | pat i pre suf => left; simp only [instItem, getD_map_qualify, qualify_sqlPattern]

end OQ.SqlAlias

namespace OQ.SqlAlias

def noDq : TItem → Bool
  | .p (.dq _) => false
  | _ => true

theorem likeTpl_noDq (name pre suf tys tpl) (h : likeTpl name pre suf tys = .ok tpl) : tpl.all noDq = true := by
  unfold likeTpl at h
  split at h <;> first | (injection h with h; subst h; first | rfl | decide) | cases h

/-- no template contains a column piece of its own: columns only come from the rendered arguments -/
theorem selectTpl_noDq (d key tys tpl) (h : selectTpl d key tys = .ok tpl) : tpl.all noDq = true := by
  unfold selectTpl at h
  cases d <;> (dsimp only at h; split at h) <;>
    first
    | exact likeTpl_noDq _ _ _ _ _ h
    | (injection h with h; subst h; first | rfl | decide)
    | (repeat' split at h) <;> first | (injection h with h; subst h; first | rfl | decide) | cases h

theorem qualify_instantiate (a args items) : ∀ tpl : List TItem, tpl.all noDq = true →
    qualify a (instantiate tpl args items) = instantiate tpl args (items.map (qualify a))
  | [], _ => rfl
  | it :: rest, h => by
      have h' : noDq it = true ∧ rest.all noDq = true := by simpa using h
      have ih := qualify_instantiate a args items rest h'.2
      have hi : qualify a (instItem args items it) = instItem args (items.map (qualify a)) it := by
        rcases qualify_instItem a args items it with h1 | ⟨n, hn⟩
        · exact h1
        · subst hn; simp [noDq] at h'
      simp only [instantiate, List.flatMap_cons, qualify_append] at ih ⊢
      rw [hi, ih]

/-! ### pieces without columns are untouched -/
def noDqP : Piece → Bool
  | .dq _ => false
  | _ => true

theorem qualify_id (a) : ∀ ps : List Piece, ps.all noDqP = true → qualify a ps = ps
  | [], _ => rfl
  | p :: r, h => by
      have h' : noDqP p = true ∧ r.all noDqP = true := by simpa using h
      have ih := qualify_id a r h'.2
      cases p <;> simp_all [noDqP, qual]

theorem joinPlus_noDq : ∀ xs : List (List Piece), (∀ x ∈ xs, x.all noDqP = true) → (joinPlus xs).all noDqP = true
  | [], _ => rfl
  | [x], h => by simpa [joinPlus] using h x (by simp)
  | x :: y :: r, h => by
      have ih := joinPlus_noDq (y :: r) (fun z hz => h z (by simp [hz]))
      have hx := h x (by simp)
      simp only [joinPlus, List.all_append, List.all_cons, hx, ih]
      rfl

/-- the interval list of `durationPieces`, named -/
def optIv (x : Option Str) (u : String) : List (List Piece) :=
  match x with
  | some n => if n.isEmpty then [] else [intervalP n u]
  | none => []
def durIvs (p : DurParts) : List (List Piece) :=
  optIv p.years "YEAR" ++ optIv p.months "MONTH" ++ optIv p.days "DAY" ++ optIv p.hours "HOUR"
    ++ optIv p.minutes "MINUTE" ++ optIv p.seconds "SECOND"
def durSign (p : DurParts) : List Piece :=
  match p.sign with
  | some c => [.tok (.op [c])]
  | none => []

theorem durationPieces_eq (isD v) : durationPieces isD v =
    (match durUnpack isD v with
     | none => .foreign "ValueError"
     | some p =>
        match durIvs p with
        | [] => .lib .value
        | [one] => .ok (durSign p ++ one)
        | ivs => .ok (durSign p ++ parenP (joinPlus ivs))) := by
  unfold durationPieces
  cases durUnpack isD v with
  | none => rfl
  | some p =>
    show (match durIvs p with
          | [] => Outcome.lib LibExc.value
          | [one] => Outcome.ok (durSign p ++ one)
          | _ => Outcome.ok (durSign p ++ parenP (joinPlus (durIvs p)))) = _
    cases h : durIvs p with
    | nil => simp [h]
    | cons a r => cases r <;> simp [h]

theorem optIv_noDq (x u) : ∀ z ∈ optIv x u, z.all noDqP = true := by
  intro z hz
  unfold optIv at hz
  cases x with
  | none => simp at hz
  | some n =>
    by_cases hn : n.isEmpty
    · simp [hn] at hz
    · simp [hn] at hz; subst hz; rfl

theorem durIvs_noDq (p) : ∀ z ∈ durIvs p, z.all noDqP = true := by
  intro z hz
  simp only [durIvs, List.mem_append] at hz
  rcases hz with ((((h1 | h1) | h1) | h1) | h1) | h1 <;> exact optIv_noDq _ _ z h1

theorem durationPieces_noDq (isD v ps) (h : durationPieces isD v = .ok ps) : ps.all noDqP = true := by
  rw [durationPieces_eq] at h
  split at h
  · cases h
  · rename_i p _
    have hsg : (durSign p).all noDqP = true := by unfold durSign; cases p.sign <;> rfl
    have hall := durIvs_noDq p
    split at h
    · cases h
    · injection h with h; subst h
      rename_i one heq
      have := hall one (by rw [heq]; simp)
      simp [List.all_append, hsg, this]
    · injection h with h; subst h
      have hj := joinPlus_noDq _ hall
      simp only [List.all_append, hsg, parenP, List.all_cons, hj]
      rfl

theorem litPieces_noDq (isD d k v ps) (h : litPieces isD d k v = .ok ps) : ps.all noDqP = true := by
  unfold litPieces at h
  cases k <;> dsimp only at h
  case duration => exact durationPieces_noDq isD v ps h
  case geo => cases h
  all_goals
    cases d <;> (try simp only [reduceIte, reduceCtorEq] at h) <;>
      (try split at h) <;> injection h with h <;> subst h <;> rfl

theorem identPieces_alias (d a n) (ha : a ≠ []) : identPieces d (some a) n = qualify a (identPieces d none n) := by
  have : a.isEmpty = false := by cases a <;> simp_all
  simp [identPieces, this, qualify, qual]

/-- run `f` on a successful outcome -/
def omap {α β} (f : α → β) (x : Outcome α) : Outcome β := x.bind (fun a => .ok (f a))
@[simp] theorem omap_ok {α β} (f : α → β) (a) : omap f (.ok a) = .ok (f a) := rfl
@[simp] theorem omap_lib {α β} (f : α → β) (e) : omap f (.lib e : Outcome α) = .lib e := rfl
@[simp] theorem omap_foreign {α β} (f : α → β) (c) : omap f (.foreign c : Outcome α) = .foreign c := rfl
@[simp] theorem omap_ni {α β} (f : α → β) : omap f (.notImplemented : Outcome α) = .notImplemented := rfl
@[simp] theorem bind_ok' {α β} (a : α) (f : α → Outcome β) : (Outcome.ok a).bind f = f a := rfl
@[simp] theorem bind_lib' {α β} (e) (f : α → Outcome β) : (Outcome.lib e : Outcome α).bind f = .lib e := rfl
@[simp] theorem bind_foreign' {α β} (c) (f : α → Outcome β) : (Outcome.foreign c : Outcome α).bind f = .foreign c := rfl
@[simp] theorem bind_ni' {α β} (f : α → Outcome β) : (Outcome.notImplemented : Outcome α).bind f = .notImplemented := rfl

end OQ.SqlAlias

namespace OQ.SqlAlias

/-- `preCheck` only ever short-circuits with an exception -/
theorem preCheck_not_ok (d key n ps) : preCheck d key n ≠ some (.ok ps) := by
  unfold preCheck
  split
  · simp
  · split <;> simp
  · split
    · simp
    · split
      · simp
      · split <;> simp

variable (isD : Char → Bool) (d : Dialect) (a : Str)

mutual
theorem alias_visit (ha : a ≠ []) : (e : Expr) →
    sqlVisit isD d (some a) e = omap (qualify a) (sqlVisit isD d none e)
  | .ident i => by rw [sqlVisit, sqlVisit]; simp [identPieces_alias d a i.name ha]
  | .attr _ _ => by rw [sqlVisit, sqlVisit]; rfl
  | .named _ _ => by rw [sqlVisit, sqlVisit]; rfl
  | .coll _ _ _ => by rw [sqlVisit, sqlVisit]; rfl
  | .lit k v => by
      rw [sqlVisit, sqlVisit]
      cases h : litPieces isD d k v with
      | ok ps => simp [qualify_id a ps (litPieces_noDq isD d k v ps h)]
      | _ => rfl
  | .list xs => by
      rw [sqlVisit, sqlVisit, alias_visitList ha xs]
      cases sqlVisitList isD d none xs <;> simp [omap, qualify_parenP, qualify_joinComma]
  | .binop op l r => by
      rw [sqlVisit, sqlVisit, alias_visit ha l, alias_visit ha r]
      cases sqlVisit isD d none l <;> simp [omap]
      cases sqlVisit isD d none r <;> simp [qualify_wrapOperand]
  | .compare op l r => by
      rw [sqlVisit, sqlVisit, alias_visit ha l, alias_visit ha r]
      cases sqlVisit isD d none l <;> simp [omap]
      cases sqlVisit isD d none r <;> simp
      split <;> simp [qualify_wrapOperand, qualify_cmpPieces]
  | .boolop op l r => by
      rw [sqlVisit, sqlVisit, alias_visit ha l, alias_visit ha r]
      cases sqlVisit isD d none l <;> simp [omap]
      cases sqlVisit isD d none r <;> simp [qualify_boolWrapL, qualify_boolWrapR]
  | .unary op e => by
      rw [sqlVisit, sqlVisit, alias_visit ha e]
      cases sqlVisit isD d none e <;> simp [omap, qualify_wrapOperand]
      split <;> simp
  | .call f args => by
      rw [sqlVisit, sqlVisit]
      skip
      split
      · rfl
      · split
        · rename_i err herr
          cases err with
          | ok ps => exact absurd herr (preCheck_not_ok _ _ _ _)
          | _ => rfl
        · rw [alias_visitList ha args]
          cases sqlVisitList isD d none args with
          | ok items =>
            simp only [omap, Outcome.bind_ok, Outcome.bind]
            cases hs : selectTpl d (String.ofList (pyLower (funcKey f))) (List.map inferType args.toList) with
            | ok tpl =>
              simp only [Outcome.bind_ok, Outcome.pure_eq, Outcome.bind]
              rw [qualify_instantiate a _ _ tpl (selectTpl_noDq _ _ _ _ hs)]
            | _ => rfl
          | _ => rfl
theorem alias_visitList (ha : a ≠ []) : (xs : Exprs) →
    sqlVisitList isD d (some a) xs = omap (List.map (qualify a)) (sqlVisitList isD d none xs)
  | .nil => by rw [sqlVisitList, sqlVisitList]; rfl
  | .cons h t => by
      rw [sqlVisitList, sqlVisitList, alias_visit ha h, alias_visitList ha t]
      cases sqlVisit isD d none h <;> simp [omap]
      cases sqlVisitList isD d none t <;> simp
end

end OQ.SqlAlias
