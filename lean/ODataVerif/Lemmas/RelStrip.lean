/-
  Lemmas/RelStrip.lean — the STRIP LEMMA for C04: the specification's "drop the leading variable segment" reading of a
  lambda body (Spec/RelElab.lean `elabRAux` with `var = some v`) agrees with the visitors' `IdentifierStripper`
  (Model/Rewrite.lean `strip`, typed view Model/OrmRel.lean `stripVar`) followed by a variable-free reading.

  Plan: (1) `Expr.ofTree ∘ Expr.toTree` is null-normalisation `normNull`; (2) a typed stripper `stripN` with
  `(stripN x e).toTree = strip x.toTree e.toTree`, hence `stripVar x e = some (stripN x e)`; (3) `pathSegs (stripN v e)`
  drops the leading `v`, hence `keyOf` / `ownerOf` / `relI` / `relS` / `relLeaf` agree; (4) induction along `elabRAux`.
-/
import ODataVerif.Model.OrmRel
import ODataVerif.Props.C17
namespace OQ.RelStrip
open Spec

mutual
/-- every lambda variable occurring in the expression has an empty namespace (the parser only builds such) -/
def lamVarsPlain : Expr → Bool
  | .ident _ => true
  | .attr o _ => lamVarsPlain o
  | .lit _ _ => true
  | .list xs => lamVarsPlainList xs
  | .binop _ l r | .compare _ l r | .boolop _ l r => lamVarsPlain l && lamVarsPlain r
  | .unary _ e => lamVarsPlain e
  | .named _ e => lamVarsPlain e
  | .call _ args => lamVarsPlainList args
  | .coll o _ l => lamVarsPlain o && lamVarsPlainLam l
def lamVarsPlainList : Exprs → Bool
  | .nil => true
  | .cons h t => lamVarsPlain h && lamVarsPlainList t
def lamVarsPlainLam : OptLam → Bool
  | .none => true
  | .some v b => v.ns.isEmpty && lamVarsPlain b
end

mutual
def normNull : Expr → Expr
  | .ident i => .ident i
  | .attr o n => .attr (normNull o) n
  | .lit k s => if k = .null then .lit .null [] else .lit k s
  | .list xs => .list (normNullList xs)
  | .binop o l r => .binop o (normNull l) (normNull r)
  | .compare o l r => .compare o (normNull l) (normNull r)
  | .boolop o l r => .boolop o (normNull l) (normNull r)
  | .unary o e => .unary o (normNull e)
  | .named n e => .named n (normNull e)
  | .call f args => .call f (normNullList args)
  | .coll ow o l => .coll (normNull ow) o (normNullLam l)
def normNullList : Exprs → Exprs
  | .nil => .nil
  | .cons h t => .cons (normNull h) (normNullList t)
def normNullLam : OptLam → OptLam
  | .none => .none
  | .some v b => .some v (normNull b)
end

theorem toTree_lit_null (s : Str) : (Expr.lit .null s).toTree = Tree.leaf "Null" := by
  simp [Expr.toTree]
theorem toTree_lit (k : LitKind) (s : Str) (h : k ≠ .null) : (Expr.lit k s).toTree = .node k.className (.cons (.str s) .nil) := by
  cases k <;> simp_all [Expr.toTree]

mutual
theorem toTree_normNull : (e : Expr) → (normNull e).toTree = e.toTree
  | .ident i => by simp [normNull]
  | .attr o n => by simp [normNull, Expr.toTree, toTree_normNull o]
  | .lit k s => by
      by_cases h : k = .null
      · subst h; simp [normNull, toTree_lit_null]
      · simp [normNull, h]
  | .list xs => by simp [normNull, Expr.toTree, toTrees_normNull xs]
  | .binop o l r => by simp [normNull, Expr.toTree, toTree_normNull l, toTree_normNull r]
  | .compare o l r => by simp [normNull, Expr.toTree, toTree_normNull l, toTree_normNull r]
  | .boolop o l r => by simp [normNull, Expr.toTree, toTree_normNull l, toTree_normNull r]
  | .unary o e => by simp [normNull, Expr.toTree, toTree_normNull e]
  | .named n e => by simp [normNull, Expr.toTree, toTree_normNull e]
  | .call f args => by simp [normNull, Expr.toTree, toTrees_normNull args]
  | .coll ow o l => by simp [normNull, Expr.toTree, toTree_normNull ow, toTree_normNullLam l]
theorem toTrees_normNull : (xs : Exprs) → (normNullList xs).toTrees = xs.toTrees
  | .nil => by simp [normNullList]
  | .cons h t => by simp [normNullList, Exprs.toTrees, toTree_normNull h, toTrees_normNull t]
theorem toTree_normNullLam : (l : OptLam) → (normNullLam l).toTree = l.toTree
  | .none => by simp [normNullLam]
  | .some v b => by simp [normNullLam, OptLam.toTree, toTree_normNull b]
end

theorem ofTree_ident (i : Ident) : Ident.ofTree i.toTree = some i := by
  simp [Ident.toTree, Ident.ofTree]

theorem arith_rt (o : ArithOp) : ArithOp.ofClassName o.className = some o := by cases o <;> rfl
theorem cmp_rt (o : CmpOp) : CmpOp.ofClassName o.className = some o := by cases o <;> rfl
theorem bool_rt (o : BoolOp) : BoolOp.ofClassName o.className = some o := by cases o <;> rfl
theorem un_rt (o : UnOp) : UnOp.ofClassName o.className = some o := by cases o <;> rfl
theorem coll_rt (o : CollOp) : CollOp.ofClassName o.className = some o := by cases o <;> rfl
theorem lit_rt (k : LitKind) : LitKind.ofClassName k.className = some k := by cases k <;> decide


theorem ofTree_lit (k : LitKind) (s : Str) (h : k ≠ .null) :
    Expr.ofTree (.node k.className (.cons (.str s) .nil)) = some (.lit k s) := by
  have h2 := lit_rt k
  cases k <;> first | exact absurd rfl h | (simp only [LitKind.className] at h2; simp [Expr.ofTree, LitKind.className, h2])

mutual
theorem ofTree_toTree : (e : Expr) → Expr.ofTree e.toTree = some (normNull e)
  | .ident i => by simp [Expr.toTree, Ident.toTree, Expr.ofTree, normNull]
  | .attr o n => by simp [Expr.toTree, Expr.ofTree, normNull, ofTree_toTree o]
  | .lit k s => by
      by_cases h : k = .null
      · subst h; simp [normNull, toTree_lit_null, Tree.leaf, Expr.ofTree]
      · simp [normNull, h, toTree_lit k s h, ofTree_lit k s h]
  | .list xs => by simp [Expr.toTree, Expr.ofTree, normNull, ofTrees_toTrees xs]
  | .binop o l r => by simp [Expr.toTree, Tree.leaf, Expr.ofTree, normNull, ofTree_toTree l, ofTree_toTree r, arith_rt]
  | .compare o l r => by simp [Expr.toTree, Tree.leaf, Expr.ofTree, normNull, ofTree_toTree l, ofTree_toTree r, cmp_rt]
  | .boolop o l r => by simp [Expr.toTree, Tree.leaf, Expr.ofTree, normNull, ofTree_toTree l, ofTree_toTree r, bool_rt]
  | .unary o e => by simp [Expr.toTree, Tree.leaf, Expr.ofTree, normNull, ofTree_toTree e, un_rt]
  | .named n e => by simp [Expr.toTree, Expr.ofTree, normNull, ofTree_toTree e, ofTree_ident]
  | .call f args => by simp [Expr.toTree, Expr.ofTree, normNull, ofTrees_toTrees args, ofTree_ident]
  | .coll ow o l => by simp [Expr.toTree, Tree.leaf, Expr.ofTree, normNull, ofTree_toTree ow, ofTree_optLam l, coll_rt]
theorem ofTrees_toTrees : (xs : Exprs) → Exprs.ofTrees xs.toTrees = some (normNullList xs)
  | .nil => by simp [Exprs.toTrees, Exprs.ofTrees, normNullList]
  | .cons h t => by simp [Exprs.toTrees, Exprs.ofTrees, normNullList, ofTree_toTree h, ofTrees_toTrees t]
theorem ofTree_optLam : (l : OptLam) → OptLam.ofTree l.toTree = some (normNullLam l)
  | .none => by simp [OptLam.toTree, OptLam.ofTree, normNullLam]
  | .some v b => by simp [OptLam.toTree, OptLam.ofTree, normNullLam, ofTree_toTree b, ofTree_ident]
end

def isAttrE : Expr → Bool
  | .attr _ _ => true
  | _ => false

mutual
def stripN (x : Ident) : Expr → Expr
  | .ident i => .ident i
  | .attr o n =>
      if o = .ident x then .ident ⟨n, []⟩
      else if isAttrE o then .attr (stripN x o) n else .attr (normNull o) n
  | .lit k s => if k = .null then .lit .null [] else .lit k s
  | .list xs => .list (stripNList x xs)
  | .binop o l r => .binop o (stripN x l) (stripN x r)
  | .compare o l r => .compare o (stripN x l) (stripN x r)
  | .boolop o l r => .boolop o (stripN x l) (stripN x r)
  | .unary o e => .unary o (stripN x e)
  | .named n e => .named n (stripN x e)
  | .call f args => .call f (stripNList x args)
  | .coll ow o l => .coll (stripN x ow) o (stripNLam x l)
def stripNList (x : Ident) : Exprs → Exprs
  | .nil => .nil
  | .cons h t => .cons (stripN x h) (stripNList x t)
def stripNLam (x : Ident) : OptLam → OptLam
  | .none => .none
  | .some v b => .some v (stripN x b)
end

theorem normNull_eq_ident (o : Expr) (i : Ident) (h : normNull o = .ident i) : o = .ident i := by
  cases o <;> simp [normNull] at h ⊢
  · exact h
  · split at h <;> cases h

theorem toTree_eq_ident (o : Expr) (i : Ident) : o.toTree = i.toTree ↔ o = .ident i := by
  constructor
  · intro h
    have h1 := ofTree_toTree o
    have h2 := ofTree_toTree (.ident i)
    rw [h] at h1
    simp only [Expr.toTree] at h2
    rw [h2] at h1
    simp [normNull] at h1
    exact normNull_eq_ident o i h1.symm
  · intro h; subst h; simp [Expr.toTree]

theorem isAttr_toTree (o : Expr) : isAttr o.toTree = isAttrE o := by
  cases o with
  | lit k s => cases k <;> simp [Expr.toTree, isAttr, isAttrE, Tree.leaf, LitKind.className]
  | _ => simp [Expr.toTree, isAttr, isAttrE, Ident.toTree]

theorem strip_identTree (x : Tree) (i : Ident) : strip x i.toTree = i.toTree := by
  simp [strip, Ident.toTree, stripFields]

theorem strip_leaf (x : Tree) (k : String) : strip x (Tree.leaf k) = Tree.leaf k := by
  unfold Tree.leaf strip
  by_cases h : k = "Attribute" <;> simp [h, stripFields]

theorem stripFields_expr (x : Tree) (e : Expr) (rest : TreeList) :
    stripFields x (.cons e.toTree rest) = .cons (strip x e.toTree) (stripFields x rest) := by
  obtain ⟨k, fs, h⟩ := C16.toTree_isNode e
  rw [h]; simp [stripFields]
theorem stripFields_ident (x : Tree) (i : Ident) (rest : TreeList) :
    stripFields x (.cons i.toTree rest) = .cons i.toTree (stripFields x rest) := by
  have := strip_identTree x i
  simp only [Ident.toTree] at this ⊢
  simp [stripFields, this]
theorem stripFields_leaf (x : Tree) (k : String) (rest : TreeList) :
    stripFields x (.cons (Tree.leaf k) rest) = .cons (Tree.leaf k) (stripFields x rest) := by
  have := strip_leaf x k
  simp only [Tree.leaf] at this ⊢
  simp [stripFields, this]
theorem stripItems_expr (x : Tree) (e : Expr) (rest : TreeList) :
    stripItems x (.cons e.toTree rest) = .cons (strip x e.toTree) (stripItems x rest) := by
  obtain ⟨k, fs, h⟩ := C16.toTree_isNode e
  rw [h]; simp [stripItems]

theorem strip_node (x : Tree) (k : String) (fs : TreeList) (h : k ≠ "Attribute") :
    strip x (.node k fs) = .node k (stripFields x fs) := by
  unfold strip; simp [h]


theorem stripN_attr (x : Ident) (o : Expr) (n : Str) :
    stripN x (.attr o n) = if o = .ident x then .ident ⟨n, []⟩
      else if isAttrE o then .attr (stripN x o) n else .attr (normNull o) n := by
  simp [stripN]

mutual
theorem toTree_stripN (x : Ident) : (e : Expr) → (stripN x e).toTree = strip x.toTree e.toTree
  | .ident i => by simp [stripN, Expr.toTree, strip_identTree]
  | .attr o n => by
      show _ = strip x.toTree (mkAttr o.toTree n)
      rw [C17.strip_mkAttr, stripN_attr, isAttr_toTree]
      by_cases h1 : o = .ident x
      · subst h1; simp [Expr.toTree, mkIdent, Ident.toTree]
      · have h2 : ¬ o.toTree = x.toTree := fun h => h1 ((toTree_eq_ident o x).1 h)
        simp only [h1, h2, if_false]
        by_cases h3 : isAttrE o = true
        · simp [h3, Expr.toTree, mkAttr, toTree_stripN x o]
        · simp [h3, Expr.toTree, mkAttr, toTree_normNull]
  | .lit k s => by
      by_cases h : k = .null
      · subst h; simp [stripN, toTree_lit_null, strip_leaf]
      · have : k.className ≠ "Attribute" := by cases k <;> simp [LitKind.className]
        simp [stripN, h, toTree_lit k s h, strip_node _ _ _ this, stripFields]
  | .list xs => by
      simp [stripN, Expr.toTree, strip_node, stripFields, toTrees_stripN x xs]
  | .binop o l r => by
      simp [stripN, Expr.toTree, strip_node, stripFields_leaf, stripFields_expr, stripFields, toTree_stripN x l, toTree_stripN x r]
  | .compare o l r => by
      simp [stripN, Expr.toTree, strip_node, stripFields_leaf, stripFields_expr, stripFields, toTree_stripN x l, toTree_stripN x r]
  | .boolop o l r => by
      simp [stripN, Expr.toTree, strip_node, stripFields_leaf, stripFields_expr, stripFields, toTree_stripN x l, toTree_stripN x r]
  | .unary o e => by
      simp [stripN, Expr.toTree, strip_node, stripFields_leaf, stripFields_expr, stripFields, toTree_stripN x e]
  | .named n e => by
      simp [stripN, Expr.toTree, strip_node, stripFields_ident, stripFields_expr, stripFields, toTree_stripN x e]
  | .call f args => by
      simp [stripN, Expr.toTree, strip_node, stripFields_ident, stripFields, toTrees_stripN x args]
  | .coll ow o l => by
      cases l with
      | none => simp [stripN, stripNLam, Expr.toTree, OptLam.toTree, strip_node, stripFields_leaf, stripFields_expr, stripFields, toTree_stripN x ow]
      | some v b =>
          simp [stripN, stripNLam, Expr.toTree, OptLam.toTree, strip_node, stripFields_leaf, stripFields_expr, stripFields_ident, stripFields,
            toTree_stripN x ow, toTree_stripN x b]
theorem toTrees_stripN (x : Ident) : (xs : Exprs) → (stripNList x xs).toTrees = stripItems x.toTree xs.toTrees
  | .nil => by simp [stripNList, Exprs.toTrees, stripItems]
  | .cons h t => by simp [stripNList, Exprs.toTrees, stripItems_expr, toTree_stripN x h, toTrees_stripN x t]
end


mutual
theorem normNull_idem : (e : Expr) → normNull (normNull e) = normNull e
  | .ident i => by simp [normNull]
  | .attr o n => by simp [normNull, normNull_idem o]
  | .lit k s => by by_cases h : k = .null <;> simp [normNull, h]
  | .list xs => by simp [normNull, normNullList_idem xs]
  | .binop o l r => by simp [normNull, normNull_idem l, normNull_idem r]
  | .compare o l r => by simp [normNull, normNull_idem l, normNull_idem r]
  | .boolop o l r => by simp [normNull, normNull_idem l, normNull_idem r]
  | .unary o e => by simp [normNull, normNull_idem e]
  | .named n e => by simp [normNull, normNull_idem e]
  | .call f args => by simp [normNull, normNullList_idem args]
  | .coll ow o l => by simp [normNull, normNull_idem ow, normNullLam_idem l]
theorem normNullList_idem : (xs : Exprs) → normNullList (normNullList xs) = normNullList xs
  | .nil => by simp [normNullList]
  | .cons h t => by simp [normNullList, normNull_idem h, normNullList_idem t]
theorem normNullLam_idem : (l : OptLam) → normNullLam (normNullLam l) = normNullLam l
  | .none => by simp [normNullLam]
  | .some v b => by simp [normNullLam, normNull_idem b]
end

mutual
theorem normNull_stripN (x : Ident) : (e : Expr) → normNull (stripN x e) = stripN x e
  | .ident i => by simp [stripN, normNull]
  | .attr o n => by
      rw [stripN_attr]
      by_cases h1 : o = .ident x
      · simp [h1, normNull]
      · by_cases h3 : isAttrE o = true
        · simp [h1, h3, normNull, normNull_stripN x o]
        · simp [h1, h3, normNull, normNull_idem]
  | .lit k s => by by_cases h : k = .null <;> simp [stripN, normNull, h]
  | .list xs => by simp [stripN, normNull, normNullList_stripN x xs]
  | .binop o l r => by simp [stripN, normNull, normNull_stripN x l, normNull_stripN x r]
  | .compare o l r => by simp [stripN, normNull, normNull_stripN x l, normNull_stripN x r]
  | .boolop o l r => by simp [stripN, normNull, normNull_stripN x l, normNull_stripN x r]
  | .unary o e => by simp [stripN, normNull, normNull_stripN x e]
  | .named n e => by simp [stripN, normNull, normNull_stripN x e]
  | .call f args => by simp [stripN, normNull, normNullList_stripN x args]
  | .coll ow o l => by simp [stripN, normNull, normNull_stripN x ow, normNullLam_stripN x l]
theorem normNullList_stripN (x : Ident) : (xs : Exprs) → normNullList (stripNList x xs) = stripNList x xs
  | .nil => by simp [stripNList, normNullList]
  | .cons h t => by simp [stripNList, normNullList, normNull_stripN x h, normNullList_stripN x t]
theorem normNullLam_stripN (x : Ident) : (l : OptLam) → normNullLam (stripNLam x l) = stripNLam x l
  | .none => by simp [stripNLam, normNullLam]
  | .some v b => by simp [stripNLam, normNullLam, normNull_stripN x b]
end

theorem stripVar_eq (x : Ident) (e : Expr) : stripVar x e = some (stripN x e) := by
  unfold stripVar
  rw [← toTree_stripN, ofTree_toTree, normNull_stripN]


/-! ### lamVarsPlain is preserved -/
mutual
theorem plain_normNull : (e : Expr) → lamVarsPlain (normNull e) = lamVarsPlain e
  | .ident i => by simp [normNull]
  | .attr o n => by simp [normNull, lamVarsPlain, plain_normNull o]
  | .lit k s => by by_cases h : k = .null <;> simp [normNull, lamVarsPlain, h]
  | .list xs => by simp [normNull, lamVarsPlain, plain_normNullList xs]
  | .binop o l r => by simp [normNull, lamVarsPlain, plain_normNull l, plain_normNull r]
  | .compare o l r => by simp [normNull, lamVarsPlain, plain_normNull l, plain_normNull r]
  | .boolop o l r => by simp [normNull, lamVarsPlain, plain_normNull l, plain_normNull r]
  | .unary o e => by simp [normNull, lamVarsPlain, plain_normNull e]
  | .named n e => by simp [normNull, lamVarsPlain, plain_normNull e]
  | .call f args => by simp [normNull, lamVarsPlain, plain_normNullList args]
  | .coll ow o l => by simp [normNull, lamVarsPlain, plain_normNull ow, plain_normNullLam l]
theorem plain_normNullList : (xs : Exprs) → lamVarsPlainList (normNullList xs) = lamVarsPlainList xs
  | .nil => by simp [normNullList]
  | .cons h t => by simp [normNullList, lamVarsPlainList, plain_normNull h, plain_normNullList t]
theorem plain_normNullLam : (l : OptLam) → lamVarsPlainLam (normNullLam l) = lamVarsPlainLam l
  | .none => by simp [normNullLam]
  | .some v b => by simp [normNullLam, lamVarsPlainLam, plain_normNull b]
end

mutual
theorem plain_stripN (x : Ident) : (e : Expr) → lamVarsPlain (stripN x e) = lamVarsPlain e
  | .ident i => by simp [stripN]
  | .attr o n => by
      rw [stripN_attr]
      by_cases h1 : o = .ident x
      · simp [h1, lamVarsPlain]
      · by_cases h3 : isAttrE o = true
        · simp [h1, h3, lamVarsPlain, plain_stripN x o]
        · simp [h1, h3, lamVarsPlain, plain_normNull]
  | .lit k s => by by_cases h : k = .null <;> simp [stripN, lamVarsPlain, h]
  | .list xs => by simp [stripN, lamVarsPlain, plain_stripNList x xs]
  | .binop o l r => by simp [stripN, lamVarsPlain, plain_stripN x l, plain_stripN x r]
  | .compare o l r => by simp [stripN, lamVarsPlain, plain_stripN x l, plain_stripN x r]
  | .boolop o l r => by simp [stripN, lamVarsPlain, plain_stripN x l, plain_stripN x r]
  | .unary o e => by simp [stripN, lamVarsPlain, plain_stripN x e]
  | .named n e => by simp [stripN, lamVarsPlain, plain_stripN x e]
  | .call f args => by simp [stripN, lamVarsPlain, plain_stripNList x args]
  | .coll ow o l => by simp [stripN, lamVarsPlain, plain_stripN x ow, plain_stripNLam x l]
theorem plain_stripNList (x : Ident) : (xs : Exprs) → lamVarsPlainList (stripNList x xs) = lamVarsPlainList xs
  | .nil => by simp [stripNList]
  | .cons h t => by simp [stripNList, lamVarsPlainList, plain_stripN x h, plain_stripNList x t]
theorem plain_stripNLam (x : Ident) : (l : OptLam) → lamVarsPlainLam (stripNLam x l) = lamVarsPlainLam l
  | .none => by simp [stripNLam]
  | .some v b => by simp [stripNLam, lamVarsPlainLam, plain_stripN x b]
end

theorem strip_plain (v : Ident) (body body' : Expr) (hs : stripVar v body = some body')
    (h : lamVarsPlain body = true) : lamVarsPlain body' = true := by
  rw [stripVar_eq] at hs
  cases hs
  rw [plain_stripN]; exact h


/-! ### paths -/
def dropV (v : Str) : List Str → List Str
  | s :: rest => if s == v && !rest.isEmpty then rest else s :: rest
  | [] => []

def adj (var : Option Str) (segs : List Str) : List Str :=
  match var, segs with
  | some v, s :: rest => if s == v && !rest.isEmpty then rest else segs
  | _, _ => segs

theorem adj_none (segs : List Str) : adj none segs = segs := by simp [adj]
theorem adj_some (v : Str) (segs : List Str) : adj (some v) segs = dropV v segs := by
  cases segs <;> simp [adj, dropV]

theorem pathSegs_ident (i : Ident) : pathSegs (.ident i) = if i.ns = [] then some [i.name] else none := by
  obtain ⟨c, ns⟩ := i
  cases ns <;> simp [pathSegs]
theorem pathSegs_attr (o : Expr) (n : Str) : pathSegs (.attr o n) = (pathSegs o).map (· ++ [n]) := by
  simp [pathSegs]

theorem pathSegs_ne_nil : (e : Expr) → (segs : List Str) → pathSegs e = some segs → segs ≠ []
  | .ident i, segs, h => by
      rw [pathSegs_ident] at h; split at h <;> simp at h; subst h; simp
  | .attr o n, segs, h => by
      rw [pathSegs_attr] at h
      cases ho : pathSegs o with
      | none => simp [ho] at h
      | some s => simp [ho] at h; subst h; simp
  | .lit _ _, _, h => by simp [pathSegs] at h
  | .list _, _, h => by simp [pathSegs] at h
  | .binop _ _ _, _, h => by simp [pathSegs] at h
  | .compare _ _ _, _, h => by simp [pathSegs] at h
  | .boolop _ _ _, _, h => by simp [pathSegs] at h
  | .unary _ _, _, h => by simp [pathSegs] at h
  | .named _ _, _, h => by simp [pathSegs] at h
  | .call _ _, _, h => by simp [pathSegs] at h
  | .coll _ _ _, _, h => by simp [pathSegs] at h

theorem pathSegs_head : (e : Expr) → (s : Str) → (rest : List Str) → pathSegs e = some (s :: rest) → pathHeads e = [s]
  | .ident i, s, rest, h => by
      rw [pathSegs_ident] at h; split at h <;> simp at h; simp [pathHeads, h.1]
  | .attr o n, s, rest, h => by
      rw [pathSegs_attr] at h
      cases ho : pathSegs o with
      | none => simp [ho] at h
      | some sg =>
          simp [ho] at h
          cases sg with
          | nil => exact absurd rfl (pathSegs_ne_nil o _ ho)
          | cons s' r' =>
              simp at h
              simp [pathHeads, pathSegs_head o s' r' ho, h.1]
  | .lit _ _, _, _, h => by simp [pathSegs] at h
  | .list _, _, _, h => by simp [pathSegs] at h
  | .binop _ _ _, _, _, h => by simp [pathSegs] at h
  | .compare _ _ _, _, _, h => by simp [pathSegs] at h
  | .boolop _ _ _, _, _, h => by simp [pathSegs] at h
  | .unary _ _, _, _, h => by simp [pathSegs] at h
  | .named _ _, _, _, h => by simp [pathSegs] at h
  | .call _ _, _, _, h => by simp [pathSegs] at h
  | .coll _ _ _, _, _, h => by simp [pathSegs] at h

theorem pathSegs_normNull (e : Expr) (h : isAttrE e = false) : pathSegs (normNull e) = pathSegs e := by
  cases e with
  | attr o n => simp [isAttrE] at h
  | lit k s => by_cases hk : k = .null <;> simp [normNull, pathSegs, hk]
  | _ => simp [normNull, pathSegs]

theorem dropV_snoc (v : Str) (segs : List Str) (n : Str) (h : 2 ≤ segs.length) :
    dropV v (segs ++ [n]) = dropV v segs ++ [n] := by
  match segs, h with
  | s :: t :: r, _ => simp [dropV]; split <;> simp

theorem pathSegs_stripN (v : Str) : (e : Expr) → pathSegs (stripN ⟨v, []⟩ e) = (pathSegs e).map (dropV v)
  | .ident i => by
      simp only [stripN, pathSegs_ident]
      split <;> simp [dropV]
  | .attr o n => by
      rw [stripN_attr]
      by_cases h1 : o = .ident ⟨v, []⟩
      · subst h1; simp [pathSegs, dropV]
      · by_cases h3 : isAttrE o = true
        · simp only [h1, h3, if_true, if_false, pathSegs_attr, pathSegs_stripN v o]
          cases ho : pathSegs o with
          | none => simp
          | some sg =>
              simp
              refine (dropV_snoc v sg n ?_).symm
              cases o with
              | attr o2 n2 =>
                  rw [pathSegs_attr] at ho
                  cases ho2 : pathSegs o2 with
                  | none => simp [ho2] at ho
                  | some s2 =>
                      simp [ho2] at ho; subst ho
                      have := pathSegs_ne_nil o2 s2 ho2
                      cases s2 with
                      | nil => exact absurd rfl this
                      | cons _ _ => simp
              | _ => simp [isAttrE] at h3
        · have h3' : isAttrE o = false := by simpa using h3
          rw [if_neg h1, if_neg h3, pathSegs_attr, pathSegs_attr, pathSegs_normNull o h3']
          cases ho : pathSegs o with
          | none => simp
          | some sg =>
              simp
              cases o with
              | ident i =>
                  rw [pathSegs_ident] at ho
                  split at ho <;> simp at ho
                  subst ho
                  have : ¬ (i.name = v) := by
                    intro hn; apply h1; obtain ⟨c, ns⟩ := i; simp_all
                  simp [dropV, this]
              | _ => simp [pathSegs, isAttrE] at ho h3'
  | .lit k s => by by_cases hk : k = .null <;> simp [stripN, pathSegs, hk]
  | .list _ => by simp [stripN, pathSegs]
  | .binop _ _ _ => by simp [stripN, pathSegs]
  | .compare _ _ _ => by simp [stripN, pathSegs]
  | .boolop _ _ _ => by simp [stripN, pathSegs]
  | .unary _ _ => by simp [stripN, pathSegs]
  | .named _ _ => by simp [stripN, pathSegs]
  | .call _ _ => by simp [stripN, pathSegs]
  | .coll _ _ _ => by simp [stripN, pathSegs]


def H (v : Str) (var var' : Option Str) (hs : List Str) : Prop :=
  (var = some v ∧ var' = none) ∨ (var' = var ∧ v ∉ hs)

theorem H.mono {v : Str} {var var' : Option Str} {hs hs' : List Str} (h : H v var var' hs)
    (hsub : ∀ x, x ∈ hs' → x ∈ hs) : H v var var' hs' := by
  rcases h with h | ⟨h1, h2⟩
  · exact Or.inl h
  · exact Or.inr ⟨h1, fun hm => h2 (hsub _ hm)⟩

theorem segs_strip (v : Str) (var var' : Option Str) (e : Expr) (h : H v var var' (pathHeads e)) :
    (pathSegs (stripN ⟨v, []⟩ e)).map (adj var') = (pathSegs e).map (adj var) := by
  rw [pathSegs_stripN]
  rcases h with ⟨rfl, rfl⟩ | ⟨rfl, h2⟩
  · cases pathSegs e <;> simp [adj_none, adj_some]
  · cases hp : pathSegs e with
    | none => simp
    | some sg =>
        cases sg with
        | nil => exact absurd rfl (pathSegs_ne_nil e _ hp)
        | cons s rest =>
            have := pathSegs_head e s rest hp
            rw [this] at h2
            have hsv : ¬ s = v := by intro hh; apply h2; simp [hh]
            simp [dropV, hsv]

def keyK : Option (List Str) → Option (Str × Str)
  | some segs => (match segs.reverse with
       | last :: _ => some (joinSlash segs, last)
       | [] => none)
  | none => none
def ownK : Option (List Str) → Option (List Str × Str)
  | some segs => (match segs.reverse with
       | coll :: revPath => some (revPath.reverse, coll)
       | [] => none)
  | none => none

theorem keyOf_eq (var : Option Str) (e : Expr) : keyOf var e = keyK ((pathSegs e).map (adj var)) := by
  unfold keyOf
  cases pathSegs e <;> rfl
theorem ownerOf_eq (var : Option Str) (e : Expr) : ownerOf var e = ownK ((pathSegs e).map (adj var)) := by
  unfold ownerOf
  cases pathSegs e <;> rfl

theorem keyOf_strip (v : Str) (var var' : Option Str) (e : Expr) (h : H v var var' (pathHeads e)) :
    keyOf var' (stripN ⟨v, []⟩ e) = keyOf var e := by
  rw [keyOf_eq, keyOf_eq, segs_strip v var var' e h]
theorem ownerOf_strip (v : Str) (var var' : Option Str) (e : Expr) (h : H v var var' (pathHeads e)) :
    ownerOf var' (stripN ⟨v, []⟩ e) = ownerOf var e := by
  rw [ownerOf_eq, ownerOf_eq, segs_strip v var var' e h]
theorem colOfKind_strip (kindOf : Str → Option ColK) (v : Str) (var var' : Option Str) (k : ColK) (e : Expr)
    (h : H v var var' (pathHeads e)) :
    colOfKind kindOf var' k (stripN ⟨v, []⟩ e) = colOfKind kindOf var k e := by
  unfold colOfKind
  rw [keyOf_strip v var var' e h]


theorem relI_lit_var (kindOf : Str → Option ColK) (var var' : Option Str) (k : LitKind) (s : Str) :
    relI kindOf var' (.lit k s) = relI kindOf var (.lit k s) := by
  cases k with
  | int =>
      cases s with
      | nil => simp [relI]
      | cons c cs =>
          by_cases hc : c = '-'
          · subst hc; simp [relI]
          · simp [relI, hc]
  | _ => simp [relI]
theorem relS_lit_var (kindOf : Str → Option ColK) (var var' : Option Str) (k : LitKind) (s : Str) :
    relS kindOf var' (.lit k s) = relS kindOf var (.lit k s) := by
  cases k <;> simp [relS]

theorem stripN_lit (x : Ident) (k : LitKind) (s : Str) :
    stripN x (.lit k s) = if k = .null then .lit .null [] else .lit k s := by simp [stripN]

mutual
theorem relI_strip (kindOf : Str → Option ColK) (v : Str) (var var' : Option Str) :
    (e : Expr) → H v var var' (pathHeads e) → relI kindOf var' (stripN ⟨v, []⟩ e) = relI kindOf var e
  | .ident i, h => by
      have hc := colOfKind_strip kindOf v var var' .int (.ident i) h
      simp only [stripN] at hc
      simp [stripN, relI, hc]
  | .attr o n, h => by
      have hc := colOfKind_strip kindOf v var var' .int (.attr o n) h
      rw [stripN_attr] at hc ⊢
      by_cases h1 : o = .ident ⟨v, []⟩
      · rw [if_pos h1] at hc ⊢; simp [relI, hc]
      · rw [if_neg h1] at hc ⊢
        by_cases h3 : isAttrE o = true
        · rw [if_pos h3] at hc ⊢; simp [relI, hc]
        · rw [if_neg h3] at hc ⊢; simp [relI, hc]
  | .lit k s, _ => by
      rw [stripN_lit]
      by_cases hk : k = .null
      · subst hk; simp [relI]
      · rw [if_neg hk]; exact relI_lit_var kindOf var var' k s
  | .unary .neg e, h => by
      simp [stripN, relI, relI_strip kindOf v var var' e (by simpa [pathHeads] using h)]
  | .unary .not_ e, _ => by simp [stripN, relI]
  | .binop k l r, h => by
      have hl := relI_strip kindOf v var var' l (h.mono (by simp [pathHeads]; intro x hx; exact Or.inl hx))
      have hr := relI_strip kindOf v var var' r (h.mono (by simp [pathHeads]; intro x hx; exact Or.inr hx))
      simp [stripN, relI, hl, hr]
  | .call ⟨n, []⟩ (.cons a .nil), h => by
      have ha := relS_strip kindOf v var var' a (h.mono (by simp [pathHeads, pathHeadsList]))
      simp only [stripN, stripNList, relI, ha]
  | .call ⟨n, []⟩ .nil, _ => by simp [stripN, stripNList, relI]
  | .call ⟨n, []⟩ (.cons a (.cons b t)), _ => by simp [stripN, stripNList, relI]
  | .call ⟨n, _ :: _⟩ args, _ => by simp [stripN, relI]
  | .list _, _ => by simp [stripN, relI]
  | .compare _ _ _, _ => by simp [stripN, relI]
  | .boolop _ _ _, _ => by simp [stripN, relI]
  | .named _ _, _ => by simp [stripN, relI]
  | .coll _ _ _, _ => by simp [stripN, relI]
theorem relS_strip (kindOf : Str → Option ColK) (v : Str) (var var' : Option Str) :
    (e : Expr) → H v var var' (pathHeads e) → relS kindOf var' (stripN ⟨v, []⟩ e) = relS kindOf var e
  | .ident i, h => by
      have hc := colOfKind_strip kindOf v var var' .str (.ident i) h
      simp only [stripN] at hc
      simp [stripN, relS, hc]
  | .attr o n, h => by
      have hc := colOfKind_strip kindOf v var var' .str (.attr o n) h
      rw [stripN_attr] at hc ⊢
      by_cases h1 : o = .ident ⟨v, []⟩
      · rw [if_pos h1] at hc ⊢; simp [relS, hc]
      · rw [if_neg h1] at hc ⊢
        by_cases h3 : isAttrE o = true
        · rw [if_pos h3] at hc ⊢; simp [relS, hc]
        · rw [if_neg h3] at hc ⊢; simp [relS, hc]
  | .lit k s, _ => by
      rw [stripN_lit]
      by_cases hk : k = .null
      · subst hk; simp [relS]
      · rw [if_neg hk]; exact relS_lit_var kindOf var var' k s
  | .call ⟨n, []⟩ (.cons a .nil), h => by
      have ha := relS_strip kindOf v var var' a (h.mono (by simp [pathHeads, pathHeadsList]))
      simp only [stripN, stripNList, relS, ha]
  | .call ⟨n, []⟩ .nil, _ => by simp [stripN, stripNList, relS]
  | .call ⟨n, []⟩ (.cons a (.cons b t)), _ => by simp [stripN, stripNList, relS]
  | .call ⟨n, _ :: _⟩ args, _ => by simp [stripN, relS]
  | .unary _ _, _ => by simp [stripN, relS]
  | .binop _ _ _, _ => by simp [stripN, relS]
  | .list _, _ => by simp [stripN, relS]
  | .compare _ _ _, _ => by simp [stripN, relS]
  | .boolop _ _ _, _ => by simp [stripN, relS]
  | .named _ _, _ => by simp [stripN, relS]
  | .coll _ _ _, _ => by simp [stripN, relS]
end


theorem relIs_strip (kindOf : Str → Option ColK) (v : Str) (var var' : Option Str) :
    (xs : Exprs) → H v var var' (pathHeadsList xs) → relIs kindOf var' (stripNList ⟨v, []⟩ xs) = relIs kindOf var xs
  | .nil, _ => by simp [stripNList, relIs]
  | .cons a t, h => by
      have ha := relI_strip kindOf v var var' a (h.mono (by simp [pathHeadsList]; intro x hx; exact Or.inl hx))
      have ht := relIs_strip kindOf v var var' t (h.mono (by simp [pathHeadsList]; intro x hx; exact Or.inr hx))
      simp only [stripNList, relIs, ha, ht]
theorem relSs_strip (kindOf : Str → Option ColK) (v : Str) (var var' : Option Str) :
    (xs : Exprs) → H v var var' (pathHeadsList xs) → relSs kindOf var' (stripNList ⟨v, []⟩ xs) = relSs kindOf var xs
  | .nil, _ => by simp [stripNList, relSs]
  | .cons a t, h => by
      have ha := relS_strip kindOf v var var' a (h.mono (by simp [pathHeadsList]; intro x hx; exact Or.inl hx))
      have ht := relSs_strip kindOf v var var' t (h.mono (by simp [pathHeadsList]; intro x hx; exact Or.inr hx))
      simp only [stripNList, relSs, ha, ht]

def isListE : Expr → Bool
  | .list _ => true
  | _ => false
def isNullLit : Expr → Bool
  | .lit .null _ => true
  | _ => false

theorem isListE_stripN (x : Ident) (e : Expr) : isListE (stripN x e) = isListE e := by
  cases e with
  | attr o n => rw [stripN_attr]; split <;> (try split) <;> simp [isListE]
  | lit k s => rw [stripN_lit]; split <;> simp [isListE]
  | _ => simp [stripN, isListE]
theorem isNullLit_stripN (x : Ident) (e : Expr) : isNullLit (stripN x e) = isNullLit e := by
  cases e with
  | attr o n => rw [stripN_attr]; split <;> (try split) <;> simp [isNullLit]
  | lit k s => rw [stripN_lit]; split <;> cases k <;> simp_all [isNullLit]
  | _ => simp [stripN, isNullLit]

theorem relLeaf_cmp_gen (kindOf : Str → Option ColK) (var : Option Str) (op : CmpOp) (l r : Expr)
    (h1 : op = .in_ → isListE r = false) (h2 : isNullLit r = false) :
    relLeaf kindOf var (.compare op l r) =
      match cmpKOf op with
      | none => none
      | some k =>
          match relI kindOf var l, relI kindOf var r with
          | some a, some b => some (.cmpI k a b)
          | _, _ =>
              match relS kindOf var l, relS kindOf var r with
              | some a, some b => some (.cmpS k a b)
              | _, _ => none := by
  refine relLeaf.eq_3 kindOf var op l r ?_ ?_
  · intro xs ho hr; subst hr; simp [isListE] at h1; exact h1 ho
  · intro s hr; subst hr; simp [isNullLit] at h2

theorem relLeaf_strip (kindOf : Str → Option ColK) (v : Str) (var var' : Option Str) :
    (e : Expr) → H v var var' (pathHeads e) → relLeaf kindOf var' (stripN ⟨v, []⟩ e) = relLeaf kindOf var e
  | .compare op l r, h => by
      have hHl : H v var var' (pathHeads l) := h.mono (by simp [pathHeads]; intro x hx; exact Or.inl hx)
      have hHr : H v var var' (pathHeads r) := h.mono (by simp [pathHeads]; intro x hx; exact Or.inr hx)
      have hlI := relI_strip kindOf v var var' l hHl
      have hlS := relS_strip kindOf v var var' l hHl
      have hlK := keyOf_strip v var var' l hHl
      have hrI := relI_strip kindOf v var var' r hHr
      have hrS := relS_strip kindOf v var var' r hHr
      have e1 : stripN ⟨v, []⟩ (.compare op l r) = .compare op (stripN ⟨v, []⟩ l) (stripN ⟨v, []⟩ r) := by simp [stripN]
      rw [e1]
      by_cases hN : isNullLit r = true
      · cases r with
        | lit k s =>
            cases k <;> simp [isNullLit] at hN
            simp only [stripN, if_true, relLeaf, hlK]
        | _ => simp [isNullLit] at hN
      · have hN' : isNullLit r = false := by simpa using hN
        by_cases hL : op = .in_ ∧ isListE r = true
        · obtain ⟨ho, hL⟩ := hL
          subst ho
          cases r with
          | list xs =>
              have hxI := relIs_strip kindOf v var var' xs (by simpa [pathHeads] using hHr)
              have hxS := relSs_strip kindOf v var var' xs (by simpa [pathHeads] using hHr)
              simp only [stripN, relLeaf, hlI, hlS, hxI, hxS]
          | _ => simp [isListE] at hL
        · have hL' : op = .in_ → isListE r = false := by
            intro ho; simpa [ho] using hL
          rw [relLeaf_cmp_gen kindOf var op l r hL' hN',
            relLeaf_cmp_gen kindOf var' op _ _ (by rw [isListE_stripN]; exact hL') (by rw [isNullLit_stripN]; exact hN'),
            hlI, hlS, hrI, hrS]
  | .call ⟨n, []⟩ (.cons a (.cons b .nil)), h => by
      have ha := relS_strip kindOf v var var' a (h.mono (by simp [pathHeads, pathHeadsList]; intro x hx; exact Or.inl hx))
      have hb := relS_strip kindOf v var var' b (h.mono (by simp [pathHeads, pathHeadsList]; intro x hx; exact Or.inr hx))
      simp only [stripN, stripNList, relLeaf, ha, hb]
  | .call ⟨n, []⟩ .nil, _ => by simp [stripN, stripNList, relLeaf]
  | .call ⟨n, []⟩ (.cons a .nil), _ => by simp [stripN, stripNList, relLeaf]
  | .call ⟨n, []⟩ (.cons a (.cons b (.cons c t))), _ => by simp [stripN, stripNList, relLeaf]
  | .call ⟨n, _ :: _⟩ args, _ => by simp [stripN, relLeaf]
  | .ident _, _ => by simp [stripN, relLeaf]
  | .attr o n, _ => by rw [stripN_attr]; split <;> (try split) <;> simp [relLeaf]
  | .lit k s, _ => by rw [stripN_lit]; split <;> simp [relLeaf]
  | .list _, _ => by simp [stripN, relLeaf]
  | .binop _ _ _, _ => by simp [stripN, relLeaf]
  | .boolop _ _ _, _ => by simp [stripN, relLeaf]
  | .unary _ _, _ => by simp [stripN, relLeaf]
  | .named _ _, _ => by simp [stripN, relLeaf]
  | .coll _ _ _, _ => by simp [stripN, relLeaf]


/-! ### path heads -/
mutual
theorem pathHeads_normNull : (e : Expr) → pathHeads (normNull e) = pathHeads e
  | .ident i => by simp [normNull]
  | .attr o n => by simp [normNull, pathHeads, pathHeads_normNull o]
  | .lit k s => by by_cases h : k = .null <;> simp [normNull, pathHeads, h]
  | .list xs => by simp [normNull, pathHeads, pathHeadsList_normNull xs]
  | .binop o l r => by simp [normNull, pathHeads, pathHeads_normNull l, pathHeads_normNull r]
  | .compare o l r => by simp [normNull, pathHeads, pathHeads_normNull l, pathHeads_normNull r]
  | .boolop o l r => by simp [normNull, pathHeads, pathHeads_normNull l, pathHeads_normNull r]
  | .unary o e => by simp [normNull, pathHeads, pathHeads_normNull e]
  | .named n e => by simp [normNull, pathHeads, pathHeads_normNull e]
  | .call f args => by simp [normNull, pathHeads, pathHeadsList_normNull args]
  | .coll ow o l => by simp [normNull, pathHeads, pathHeads_normNull ow, pathHeadsLam_normNull l]
theorem pathHeadsList_normNull : (xs : Exprs) → pathHeadsList (normNullList xs) = pathHeadsList xs
  | .nil => by simp [normNullList]
  | .cons h t => by simp [normNullList, pathHeadsList, pathHeads_normNull h, pathHeadsList_normNull t]
theorem pathHeadsLam_normNull : (l : OptLam) → pathHeadsLam (normNullLam l) = pathHeadsLam l
  | .none => by simp [normNullLam]
  | .some v b => by simp [normNullLam, pathHeadsLam, pathHeads_normNull b]
end

mutual
theorem pathHeads_stripN (v : Str) : (e : Expr) → v ∉ pathHeads e → pathHeads (stripN ⟨v, []⟩ e) = pathHeads e
  | .ident i, _ => by simp [stripN]
  | .attr o n, h => by
      rw [stripN_attr]
      by_cases h1 : o = .ident ⟨v, []⟩
      · subst h1; simp [pathHeads] at h
      · rw [if_neg h1]
        by_cases h3 : isAttrE o = true
        · rw [if_pos h3]; simp only [pathHeads] at h ⊢; exact pathHeads_stripN v o h
        · rw [if_neg h3]; simp only [pathHeads]; exact pathHeads_normNull o
  | .lit k s, _ => by by_cases h : k = .null <;> simp [stripN, pathHeads, h]
  | .list xs, h => by simp only [pathHeads] at h; simp [stripN, pathHeads, pathHeadsList_stripN v xs h]
  | .binop o l r, h => by
      simp only [pathHeads, List.mem_append, not_or] at h
      simp [stripN, pathHeads, pathHeads_stripN v l h.1, pathHeads_stripN v r h.2]
  | .compare o l r, h => by
      simp only [pathHeads, List.mem_append, not_or] at h
      simp [stripN, pathHeads, pathHeads_stripN v l h.1, pathHeads_stripN v r h.2]
  | .boolop o l r, h => by
      simp only [pathHeads, List.mem_append, not_or] at h
      simp [stripN, pathHeads, pathHeads_stripN v l h.1, pathHeads_stripN v r h.2]
  | .unary o e, h => by simp only [pathHeads] at h; simp [stripN, pathHeads, pathHeads_stripN v e h]
  | .named n e, h => by simp only [pathHeads] at h; simp [stripN, pathHeads, pathHeads_stripN v e h]
  | .call f args, h => by simp only [pathHeads] at h; simp [stripN, pathHeads, pathHeadsList_stripN v args h]
  | .coll ow o l, h => by
      simp only [pathHeads, List.mem_append, not_or] at h
      simp [stripN, pathHeads, pathHeads_stripN v ow h.1, pathHeadsLam_stripN v l h.2]
theorem pathHeadsList_stripN (v : Str) : (xs : Exprs) → v ∉ pathHeadsList xs →
    pathHeadsList (stripNList ⟨v, []⟩ xs) = pathHeadsList xs
  | .nil, _ => by simp [stripNList]
  | .cons a t, h => by
      simp only [pathHeadsList, List.mem_append, not_or] at h
      simp [stripNList, pathHeadsList, pathHeads_stripN v a h.1, pathHeadsList_stripN v t h.2]
theorem pathHeadsLam_stripN (v : Str) : (l : OptLam) → v ∉ pathHeadsLam l →
    pathHeadsLam (stripNLam ⟨v, []⟩ l) = pathHeadsLam l
  | .none, _ => by simp [stripNLam]
  | .some w b, h => by
      simp only [pathHeadsLam] at h
      simp [stripNLam, pathHeadsLam, pathHeads_stripN v b h]
end

/-! ### the shape of `elabRAux` -/
def extOuter (var : Option Str) (outer : List Str) : List Str :=
  match var with
  | some x => x :: outer
  | none => outer

def isLeafShape : Expr → Bool
  | .boolop _ _ _ => false
  | .unary .not_ _ => false
  | .coll _ .any .none => false
  | .coll _ _ (.some _ _) => false
  | _ => true

theorem elabRAux_coll_some (kindOf : Str → Option ColK) (outer : List Str) (var : Option Str)
    (ow : Expr) (op : CollOp) (w : Ident) (body : Expr) :
    elabRAux kindOf outer var (.coll ow op (.some w body)) =
      if (pathHeads ow).any (fun h => outer.contains h) then none
      else
        (match ownerOf var ow, elabRAux kindOf (extOuter var outer) (some w.name) body with
         | some (path, coll), some b => some (if op == .any then .any path coll b else .all path coll b)
         | _, _ => none) := by
  cases var <;> simp only [elabRAux, extOuter] <;> rfl

theorem elabRAux_leaf (kindOf : Str → Option ColK) (outer : List Str) (var : Option Str) (e : Expr)
    (h : isLeafShape e = true) :
    elabRAux kindOf outer var e =
      if (pathHeads e).any (fun h => outer.contains h) then none
      else (relLeaf kindOf var e).map .scalar := by
  rw [elabRAux.eq_7]
  all_goals (intros; subst_vars; simp [isLeafShape] at h)


theorem isLeafShape_stripN (x : Ident) (e : Expr) : isLeafShape (stripN x e) = isLeafShape e := by
  cases e with
  | attr o n => rw [stripN_attr]; split <;> (try split) <;> simp [isLeafShape]
  | lit k s => rw [stripN_lit]; split <;> simp [isLeafShape]
  | unary o e => cases o <;> simp [stripN, isLeafShape]
  | coll ow o l => cases o <;> cases l <;> simp [stripN, stripNLam, isLeafShape]
  | _ => simp [stripN, isLeafShape]

def Mode (v : Str) (outer outer2 : List Str) (var var' : Option Str) : Prop :=
  (var = some v ∧ var' = none ∧ outer2 = []) ∨ (var' = var ∧ v ∈ outer)

theorem mode_check {v : Str} {outer outer2 : List Str} {var var' : Option Str}
    (hm : Mode v outer outer2 var var') (hsub : ∀ x, x ∈ outer2 → x ∈ outer) (t : Expr)
    (hc : (pathHeads t).any (fun h => outer.contains h) = false) :
    H v var var' (pathHeads t) ∧ (pathHeads (stripN ⟨v, []⟩ t)).any (fun h => outer2.contains h) = false := by
  rcases hm with ⟨h1, h2, h3⟩ | ⟨h1, h2⟩
  · refine ⟨Or.inl ⟨h1, h2⟩, ?_⟩
    subst h3; simp
  · have hv : v ∉ pathHeads t := by
      intro hin
      simp only [List.any_eq_false] at hc
      have := hc v hin
      simp [h2] at this
    refine ⟨Or.inr ⟨h1, hv⟩, ?_⟩
    rw [pathHeads_stripN v t hv]
    simp only [List.any_eq_false] at hc ⊢
    intro x hx hcon
    apply hc x hx
    simp only [List.contains_iff_mem] at hcon ⊢
    exact hsub x hcon

theorem mode_ext {v : Str} {outer outer2 : List Str} {var var' : Option Str}
    (hm : Mode v outer outer2 var var') (hsub : ∀ x, x ∈ outer2 → x ∈ outer) (w : Str) :
    Mode v (extOuter var outer) (extOuter var' outer2) (some w) (some w) ∧
      (∀ x, x ∈ extOuter var' outer2 → x ∈ extOuter var outer) := by
  rcases hm with ⟨h1, h2, h3⟩ | ⟨h1, h2⟩
  · subst h1 h2 h3
    exact ⟨Or.inr ⟨rfl, by simp [extOuter]⟩, by simp [extOuter]⟩
  · subst h1
    cases var' with
    | none => exact ⟨Or.inr ⟨rfl, by simpa [extOuter] using h2⟩, by simpa [extOuter] using hsub⟩
    | some y =>
        refine ⟨Or.inr ⟨rfl, by simp [extOuter, h2]⟩, ?_⟩
        intro x hx
        simp only [extOuter, List.mem_cons] at hx ⊢
        rcases hx with hx | hx
        · exact Or.inl hx
        · exact Or.inr (hsub x hx)

theorem leaf_strip (kindOf : Str → Option ColK) (v : Str) (e : Expr) (outer outer2 : List Str)
    (var var' : Option Str) (f : RCond) (hl : isLeafShape e = true)
    (hm : Mode v outer outer2 var var') (hsub : ∀ x, x ∈ outer2 → x ∈ outer)
    (he : elabRAux kindOf outer var e = some f) :
    elabRAux kindOf outer2 var' (stripN ⟨v, []⟩ e) = some f := by
  rw [elabRAux_leaf kindOf outer var e hl] at he
  rw [elabRAux_leaf kindOf outer2 var' _ (by rw [isLeafShape_stripN]; exact hl)]
  by_cases hc : (pathHeads e).any (fun h => outer.contains h) = true
  · rw [if_pos hc] at he; cases he
  · rw [if_neg hc] at he
    have hc' : (pathHeads e).any (fun h => outer.contains h) = false := by simpa using hc
    obtain ⟨hH, hc2⟩ := mode_check hm hsub e hc'
    rw [hc2, relLeaf_strip kindOf v var var' e hH]
    simpa using he

theorem elab_strip (kindOf : Str → Option ColK) (v : Str) :
    (e : Expr) → (outer outer2 : List Str) → (var var' : Option Str) → (f : RCond) →
    Mode v outer outer2 var var' → (∀ x, x ∈ outer2 → x ∈ outer) →
    elabRAux kindOf outer var e = some f → elabRAux kindOf outer2 var' (stripN ⟨v, []⟩ e) = some f
  | .boolop .and_ l r, outer, outer2, var, var', f, hm, hsub, he => by
      simp only [elabRAux] at he
      cases hl : elabRAux kindOf outer var l with
      | none => simp [hl] at he
      | some a =>
        cases hr : elabRAux kindOf outer var r with
        | none => simp [hl, hr] at he
        | some b =>
          simp only [stripN, elabRAux, elab_strip kindOf v l outer outer2 var var' a hm hsub hl,
            elab_strip kindOf v r outer outer2 var var' b hm hsub hr]
          simpa [hl, hr] using he
  | .boolop .or_ l r, outer, outer2, var, var', f, hm, hsub, he => by
      simp only [elabRAux] at he
      cases hl : elabRAux kindOf outer var l with
      | none => simp [hl] at he
      | some a =>
        cases hr : elabRAux kindOf outer var r with
        | none => simp [hl, hr] at he
        | some b =>
          simp only [stripN, elabRAux, elab_strip kindOf v l outer outer2 var var' a hm hsub hl,
            elab_strip kindOf v r outer outer2 var var' b hm hsub hr]
          simpa [hl, hr] using he
  | .unary .not_ e, outer, outer2, var, var', f, hm, hsub, he => by
      simp only [elabRAux] at he
      cases hl : elabRAux kindOf outer var e with
      | none => simp [hl] at he
      | some a =>
          simp only [stripN, elabRAux, elab_strip kindOf v e outer outer2 var var' a hm hsub hl]
          simpa [hl] using he
  | .coll ow .any .none, outer, outer2, var, var', f, hm, hsub, he => by
      simp only [elabRAux] at he
      by_cases hc : (pathHeads ow).any (fun h => outer.contains h) = true
      · rw [if_pos hc] at he; cases he
      · rw [if_neg hc] at he
        have hc' : (pathHeads ow).any (fun h => outer.contains h) = false := by simpa using hc
        obtain ⟨hH, hc2⟩ := mode_check hm hsub ow hc'
        simp only [stripN, stripNLam, elabRAux]
        rw [hc2, ownerOf_strip v var var' ow hH]
        simpa using he
  | .coll ow op (.some w body), outer, outer2, var, var', f, hm, hsub, he => by
      rw [elabRAux_coll_some] at he
      by_cases hc : (pathHeads ow).any (fun h => outer.contains h) = true
      · rw [if_pos hc] at he; cases he
      · rw [if_neg hc] at he
        have hc' : (pathHeads ow).any (fun h => outer.contains h) = false := by simpa using hc
        obtain ⟨hH, hc2⟩ := mode_check hm hsub ow hc'
        obtain ⟨hm', hsub'⟩ := mode_ext hm hsub w.name
        simp only [stripN, stripNLam]
        rw [elabRAux_coll_some, hc2, ownerOf_strip v var var' ow hH]
        cases hb : elabRAux kindOf (extOuter var outer) (some w.name) body with
        | none =>
            rw [hb] at he
            cases ho : ownerOf var ow <;> simp [ho] at he
        | some b =>
            rw [elab_strip kindOf v body _ _ _ _ b hm' hsub' hb]
            rw [hb] at he
            simpa using he
  | .coll ow .all .none, outer, outer2, var, var', f, hm, hsub, he =>
      leaf_strip kindOf v _ outer outer2 var var' f rfl hm hsub he
  | .unary .neg e, outer, outer2, var, var', f, hm, hsub, he =>
      leaf_strip kindOf v _ outer outer2 var var' f rfl hm hsub he
  | .ident _, outer, outer2, var, var', f, hm, hsub, he =>
      leaf_strip kindOf v _ outer outer2 var var' f rfl hm hsub he
  | .attr _ _, outer, outer2, var, var', f, hm, hsub, he =>
      leaf_strip kindOf v _ outer outer2 var var' f rfl hm hsub he
  | .lit _ _, outer, outer2, var, var', f, hm, hsub, he =>
      leaf_strip kindOf v _ outer outer2 var var' f rfl hm hsub he
  | .list _, outer, outer2, var, var', f, hm, hsub, he =>
      leaf_strip kindOf v _ outer outer2 var var' f rfl hm hsub he
  | .binop _ _ _, outer, outer2, var, var', f, hm, hsub, he =>
      leaf_strip kindOf v _ outer outer2 var var' f rfl hm hsub he
  | .compare _ _ _, outer, outer2, var, var', f, hm, hsub, he =>
      leaf_strip kindOf v _ outer outer2 var var' f rfl hm hsub he
  | .named _ _, outer, outer2, var, var', f, hm, hsub, he =>
      leaf_strip kindOf v _ outer outer2 var var' f rfl hm hsub he
  | .call _ _, outer, outer2, var, var', f, hm, hsub, he =>
      leaf_strip kindOf v _ outer outer2 var var' f rfl hm hsub he

/-- THE STRIP LEMMA: the specification's "drop the leading variable segment" reading of a lambda body agrees with the
    visitors' IdentifierStripper followed by a variable-free reading -/
theorem strip_elab (kindOf : Str → Option ColK) (v : Ident) (hv : v.ns = []) (outer : List Str) (body body' : Expr) (b : RCond)
    (hs : stripVar v body = some body') (he : elabRAux kindOf outer (some v.name) body = some b) :
    elabRAux kindOf [] none body' = some b := by
  rw [stripVar_eq] at hs
  cases hs
  have hvv : v = ⟨v.name, []⟩ := by cases v; simp_all
  rw [hvv]
  exact elab_strip kindOf v.name body outer [] (some v.name) none b (Or.inl ⟨rfl, rfl, rfl⟩) (by simp) he


theorem check_mono {outer outer2 : List Str} (hsub : ∀ x, x ∈ outer2 → x ∈ outer) (hs : List Str)
    (hc : hs.any (fun h => outer.contains h) = false) : hs.any (fun h => outer2.contains h) = false := by
  simp only [List.any_eq_false, List.contains_iff_mem] at hc ⊢
  intro x hx hcon
  exact hc x hx (hsub x hcon)

theorem extOuter_mono {outer outer2 : List Str} (hsub : ∀ x, x ∈ outer2 → x ∈ outer) (var : Option Str) :
    ∀ x, x ∈ extOuter var outer2 → x ∈ extOuter var outer := by
  cases var with
  | none => simpa [extOuter] using hsub
  | some y =>
      intro x hx
      simp only [extOuter, List.mem_cons] at hx ⊢
      rcases hx with hx | hx
      · exact Or.inl hx
      · exact Or.inr (hsub x hx)

theorem leaf_mono (kindOf : Str → Option ColK) (e : Expr) (outer outer2 : List Str)
    (var : Option Str) (f : RCond) (hl : isLeafShape e = true)
    (hsub : ∀ x, x ∈ outer2 → x ∈ outer)
    (he : elabRAux kindOf outer var e = some f) :
    elabRAux kindOf outer2 var e = some f := by
  rw [elabRAux_leaf kindOf outer var e hl] at he
  rw [elabRAux_leaf kindOf outer2 var e hl]
  by_cases hc : (pathHeads e).any (fun h => outer.contains h) = true
  · rw [if_pos hc] at he; cases he
  · rw [if_neg hc] at he
    have hc' : (pathHeads e).any (fun h => outer.contains h) = false := by simpa using hc
    rw [check_mono hsub _ hc']
    simpa using he

theorem elabRAux_mono' (kindOf : Str → Option ColK) :
    (e : Expr) → (outer outer2 : List Str) → (var : Option Str) → (f : RCond) →
    (∀ x, x ∈ outer2 → x ∈ outer) →
    elabRAux kindOf outer var e = some f → elabRAux kindOf outer2 var e = some f
  | .boolop .and_ l r, outer, outer2, var, f, hsub, he => by
      simp only [elabRAux] at he ⊢
      cases hl : elabRAux kindOf outer var l with
      | none => simp [hl] at he
      | some a =>
        cases hr : elabRAux kindOf outer var r with
        | none => simp [hl, hr] at he
        | some b =>
          rw [elabRAux_mono' kindOf l outer outer2 var a hsub hl, elabRAux_mono' kindOf r outer outer2 var b hsub hr]
          simpa [hl, hr] using he
  | .boolop .or_ l r, outer, outer2, var, f, hsub, he => by
      simp only [elabRAux] at he ⊢
      cases hl : elabRAux kindOf outer var l with
      | none => simp [hl] at he
      | some a =>
        cases hr : elabRAux kindOf outer var r with
        | none => simp [hl, hr] at he
        | some b =>
          rw [elabRAux_mono' kindOf l outer outer2 var a hsub hl, elabRAux_mono' kindOf r outer outer2 var b hsub hr]
          simpa [hl, hr] using he
  | .unary .not_ e, outer, outer2, var, f, hsub, he => by
      simp only [elabRAux] at he ⊢
      cases hl : elabRAux kindOf outer var e with
      | none => simp [hl] at he
      | some a =>
          rw [elabRAux_mono' kindOf e outer outer2 var a hsub hl]
          simpa [hl] using he
  | .coll ow .any .none, outer, outer2, var, f, hsub, he => by
      simp only [elabRAux] at he ⊢
      by_cases hc : (pathHeads ow).any (fun h => outer.contains h) = true
      · rw [if_pos hc] at he; cases he
      · rw [if_neg hc] at he
        have hc' : (pathHeads ow).any (fun h => outer.contains h) = false := by simpa using hc
        rw [check_mono hsub _ hc']
        simpa using he
  | .coll ow op (.some w body), outer, outer2, var, f, hsub, he => by
      rw [elabRAux_coll_some] at he ⊢
      by_cases hc : (pathHeads ow).any (fun h => outer.contains h) = true
      · rw [if_pos hc] at he; cases he
      · rw [if_neg hc] at he
        have hc' : (pathHeads ow).any (fun h => outer.contains h) = false := by simpa using hc
        rw [check_mono hsub _ hc']
        cases hb : elabRAux kindOf (extOuter var outer) (some w.name) body with
        | none =>
            rw [hb] at he
            cases ho : ownerOf var ow <;> simp [ho] at he
        | some b =>
            rw [elabRAux_mono' kindOf body _ _ _ b (extOuter_mono hsub var) hb]
            rw [hb] at he
            simpa using he
  | .coll ow .all .none, outer, outer2, var, f, hsub, he => leaf_mono kindOf _ outer outer2 var f rfl hsub he
  | .unary .neg e, outer, outer2, var, f, hsub, he => leaf_mono kindOf _ outer outer2 var f rfl hsub he
  | .ident _, outer, outer2, var, f, hsub, he => leaf_mono kindOf _ outer outer2 var f rfl hsub he
  | .attr _ _, outer, outer2, var, f, hsub, he => leaf_mono kindOf _ outer outer2 var f rfl hsub he
  | .lit _ _, outer, outer2, var, f, hsub, he => leaf_mono kindOf _ outer outer2 var f rfl hsub he
  | .list _, outer, outer2, var, f, hsub, he => leaf_mono kindOf _ outer outer2 var f rfl hsub he
  | .binop _ _ _, outer, outer2, var, f, hsub, he => leaf_mono kindOf _ outer outer2 var f rfl hsub he
  | .compare _ _ _, outer, outer2, var, f, hsub, he => leaf_mono kindOf _ outer outer2 var f rfl hsub he
  | .named _ _, outer, outer2, var, f, hsub, he => leaf_mono kindOf _ outer outer2 var f rfl hsub he
  | .call _ _, outer, outer2, var, f, hsub, he => leaf_mono kindOf _ outer outer2 var f rfl hsub he

theorem elabRAux_mono (kindOf : Str → Option ColK) (outer outer2 : List Str) (var : Option Str) (e : Expr) (f : RCond)
    (hsub : ∀ x, x ∈ outer2 → x ∈ outer) (he : elabRAux kindOf outer var e = some f) :
    elabRAux kindOf outer2 var e = some f :=
  elabRAux_mono' kindOf e outer outer2 var f hsub he


end OQ.RelStrip
