/-
  Lemmas/RelSoundMain.lean — the two inductions behind Props/C04.lean: the Django plan (`dj_core`) and the SQLAlchemy
  plan (`sa_core`) evaluate to the relational reference semantics.  Uses the relational basics of Lemmas/RelSound.lean and
  the strip lemma of Lemmas/RelStrip.lean.
-/
import ODataVerif.Lemmas.RelSound
import ODataVerif.Lemmas.RelStrip
namespace OQ.RelSound
open Spec
open RelStrip (lamVarsPlain lamVarsPlainList lamVarsPlainLam strip_elab strip_plain)

theorem any_congr_mem {α} (l : List α) (p q : α → Bool) (h : ∀ a, a ∈ l → p a = q a) : l.any p = l.any q := by
  induction l with
  | nil => rfl
  | cons x t ih =>
    simp only [List.any_cons]
    rw [h x (by simp), ih (fun a ha => h a (by simp [ha]))]

theorem dj_exists (sch : Schema) (db : DB) (hs : SchOk sch) (hd : IdsOk db)
    (root : Str) (segs back : List Str) (child : Str) (h : reverseRelationship sch root segs = some (back, child))
    (r : Row) (pk : Int) (hr : r ∈ db.table root) (hpk : idOf r = some pk) (P : Row → Bool) :
    (db.table child).any (fun c => reachesBack sch db child c back pk && P c) = (rowsVia sch db root r segs).any P := by
  rw [← any_contains_and (db.table child) (rowsVia sch db root r segs) P
    (fun x hx => rowsVia_sub sch db root child r x segs (reverse_tbl sch hs root segs back child h).1 hr hx)]
  apply any_congr_mem
  intro c hc
  rw [reverse_reaches' sch db hs hd root segs back child h r c pk hr hc hpk]

theorem v3_not_eq_tt (x : V3) : (V3.not x == V3.tt) = (x == V3.ff) := by cases x <;> rfl

/-- Django core: by induction on the fuel (lambda nesting) -/
theorem dj_core (sch : Schema) (kindOf : Str → Option ColK) (db : DB) (hs : SchOk sch) (hd : IdsOk db)
    (hu : KeysOk sch db) :
    ∀ (fuel : Nat) (root : Str) (e : Expr) (f : RCond) (p : Plan),
      lamVarsPlain e = true → elabRAux kindOf [] none e = some f → djPlan sch kindOf fuel root e = .ok p →
      ∀ r, r ∈ db.table root → lambdaClean sch db root r f = true → (evalR sch db root r f).isSome = true →
        evalR sch db root r f = some (evalDjPlan sch db root r p) := by
  intro fuel
  induction fuel with
  | zero => intro root e f p _ _ hp; simp [djPlan] at hp
  | succ fuel ih =>
    intro root e f p hpl he hp r hr hc hdef
    have leafCase : isLeafShape e = true → evalR sch db root r f = some (evalDjPlan sch db root r p) := by
      intro hl
      rw [elabRAux_leaf kindOf none e hl] at he
      rw [djPlan_leaf sch kindOf fuel root e hl] at hp
      cases hb : relLeaf kindOf none e with
      | none => simp [hb] at he
      | some b =>
        simp only [hb, Option.map_some, Option.some.injEq] at he
        simp only [hb, pure, Except.pure, Except.ok.injEq] at hp
        subst he; subst hp
        simp [evalR, evalDjPlan]
    cases e with
    | boolop o l x =>
      simp only [lamVarsPlain, Bool.and_eq_true] at hpl
      cases o with
      | and_ =>
        simp only [elabRAux] at he
        simp only [djPlan, bind, Except.bind] at hp
        cases h1 : elabRAux kindOf [] none l <;> cases h2 : elabRAux kindOf [] none x <;> simp [h1, h2] at he
        cases h3 : djPlan sch kindOf fuel root l <;> simp only [h3] at hp
        · cases hp
        cases h4 : djPlan sch kindOf fuel root x <;> simp only [h4] at hp
        · cases hp
        simp only [pure, Except.pure, Except.ok.injEq] at hp
        subst he; subst hp
        simp only [lambdaClean, Bool.and_eq_true] at hc
        simp only [evalR] at hdef ⊢
        rename_i a b pa pb
        cases h5 : evalR sch db root r a <;> cases h6 : evalR sch db root r b <;> simp [h5, h6] at hdef
        have e1 := ih root l a pa hpl.1 h1 h3 r hr hc.1 (by simp [h5])
        have e2 := ih root x b pb hpl.2 h2 h4 r hr hc.2 (by simp [h6])
        rw [h5] at e1; rw [h6] at e2
        simp only [Option.some.injEq] at e1 e2
        simp [evalDjPlan, e1, e2]
      | or_ =>
        simp only [elabRAux] at he
        simp only [djPlan, bind, Except.bind] at hp
        cases h1 : elabRAux kindOf [] none l <;> cases h2 : elabRAux kindOf [] none x <;> simp [h1, h2] at he
        cases h3 : djPlan sch kindOf fuel root l <;> simp only [h3] at hp
        · cases hp
        cases h4 : djPlan sch kindOf fuel root x <;> simp only [h4] at hp
        · cases hp
        simp only [pure, Except.pure, Except.ok.injEq] at hp
        subst he; subst hp
        simp only [lambdaClean, Bool.and_eq_true] at hc
        simp only [evalR] at hdef ⊢
        rename_i a b pa pb
        cases h5 : evalR sch db root r a <;> cases h6 : evalR sch db root r b <;> simp [h5, h6] at hdef
        have e1 := ih root l a pa hpl.1 h1 h3 r hr hc.1 (by simp [h5])
        have e2 := ih root x b pb hpl.2 h2 h4 r hr hc.2 (by simp [h6])
        rw [h5] at e1; rw [h6] at e2
        simp only [Option.some.injEq] at e1 e2
        simp [evalDjPlan, e1, e2]
    | unary o x =>
      cases o with
      | neg => exact leafCase rfl
      | not_ =>
        simp only [lamVarsPlain] at hpl
        simp only [elabRAux] at he
        simp only [djPlan, bind, Except.bind] at hp
        cases h1 : elabRAux kindOf [] none x <;> simp [h1] at he
        cases h3 : djPlan sch kindOf fuel root x <;> simp only [h3] at hp
        · cases hp
        simp only [pure, Except.pure, Except.ok.injEq] at hp
        subst he; subst hp
        simp only [lambdaClean] at hc
        simp only [evalR] at hdef ⊢
        rename_i a pa
        cases h5 : evalR sch db root r a <;> simp [h5] at hdef
        have e1 := ih root x a pa hpl h1 h3 r hr hc (by simp [h5])
        rw [h5] at e1
        simp only [Option.some.injEq] at e1
        simp [evalDjPlan, e1]
    | coll ow op lam =>
      obtain ⟨pk, hpk⟩ := hd.hasId root r hr
      cases lam with
      | none =>
        cases op with
        | all => simp [elabRAux_coll_all_none] at he
        | any =>
          simp only [elabRAux] at he
          simp at he
          obtain ⟨path, coll, how, rfl⟩ := he
          have hsegs := ownerOf_none ow path coll how
          simp only [djPlan, hsegs] at hp
          cases hrev : reverseRelationship sch root (path ++ [coll]) with
          | none => simp [hrev] at hp
          | some bc =>
            obtain ⟨back, child⟩ := bc
            simp [hrev, pure, Except.pure] at hp
            subst hp
            simp only [evalR] at hdef ⊢
            cases hcr : collRows sch db root r path coll with
            | none => simp [hcr] at hdef
            | some tr =>
              obtain ⟨t', rows⟩ := tr
              obtain ⟨tm, rel, h1, h2, h3, h4, h5⟩ := collRows_some sch db hu root t' r path coll rows hcr
              simp only [Option.map_some, evalDjPlan, hpk]
              rw [dj_exists sch db hs hd root _ back child hrev r pk hr hpk, ← h4]
              cases rows <;> simp
      | some v body =>
        simp only [lamVarsPlain, lamVarsPlainLam, Bool.and_eq_true, List.isEmpty_iff] at hpl
        obtain ⟨hplo, hvns, hplb⟩ := hpl
        simp only [elabRAux] at he
        cases how : ownerOf none ow with
        | none => simp [how] at he
        | some pc =>
        obtain ⟨path, coll⟩ := pc
        cases hb : elabRAux kindOf [] (some v.name) body with
        | none => simp [how, hb] at he
        | some bf =>
        simp [how, hb] at he
        have hsegs := ownerOf_none ow path coll how
        simp only [djPlan, hsegs] at hp
        cases hrev : reverseRelationship sch root (path ++ [coll]) with
        | none => simp [hrev] at hp
        | some bc =>
        obtain ⟨back, child⟩ := bc
        simp only [hrev] at hp
        cases hst : stripVar v body with
        | none => simp [hst] at hp
        | some body' =>
        simp only [hst, bind, Except.bind] at hp
        cases hbp : djPlan sch kindOf fuel child body' with
        | error err => simp [hbp] at hp
        | ok pb =>
        simp only [hbp] at hp
        have hb' := strip_elab kindOf v hvns [] body body' bf hst hb
        have hpl' := strip_plain v body body' hst hplb
        have IH := ih child body' bf pb hpl' hb' hbp
        have htc := (reverse_tbl sch hs root _ back child hrev).1
        cases op with
        | any =>
          simp [pure, Except.pure] at he hp
          subst he; subst hp
          simp only [evalR] at hdef ⊢
          simp only [lambdaClean] at hc
          cases hcr : collRows sch db root r path coll with
          | none => simp [hcr] at hdef
          | some tr =>
            obtain ⟨t', rows⟩ := tr
            obtain ⟨tm, rel, h1, h2, h3, h4, h5⟩ := collRows_some sch db hu root t' r path coll rows hcr
            have : t' = child := by rw [htc] at h5; exact (Option.some.inj h5).symm
            subst this
            simp only [hcr] at hdef hc ⊢
            have hsome : ∀ c, c ∈ rows → ¬ evalR sch db t' c bf = none := by simpa using hdef
            rw [List.all_eq_true] at hc
            have hvs : ∀ c, c ∈ rows → evalR sch db t' c bf = some (evalDjPlan sch db t' c pb) := by
              intro c hcm
              have h6 := hc c hcm
              simp only [Bool.and_eq_true] at h6
              exact IH c (rowsVia_sub sch db root t' r c _ htc hr (h4 ▸ hcm)) h6.1
                (Option.isSome_iff_ne_none.mpr (hsome c hcm))
            rw [List.map_congr_left hvs]
            simp only [evalDjPlan, hpk]
            rw [dj_exists sch db hs hd root _ back t' hrev r pk hr hpk, ← h4]
            simp [List.any_map, Function.comp_def]
        | all =>
          simp [pure, Except.pure] at he hp
          subst he; subst hp
          simp only [evalR] at hdef ⊢
          simp only [lambdaClean] at hc
          cases hcr : collRows sch db root r path coll with
          | none => simp [hcr] at hdef
          | some tr =>
            obtain ⟨t', rows⟩ := tr
            obtain ⟨tm, rel, h1, h2, h3, h4, h5⟩ := collRows_some sch db hu root t' r path coll rows hcr
            have : t' = child := by rw [htc] at h5; exact (Option.some.inj h5).symm
            subst this
            simp only [hcr] at hdef hc ⊢
            have hsome : ∀ c, c ∈ rows → ¬ evalR sch db t' c bf = none := by simpa using hdef
            rw [List.all_eq_true] at hc
            have hvs : ∀ c, c ∈ rows → evalR sch db t' c bf = some (evalDjPlan sch db t' c pb) := by
              intro c hcm
              have h6 := hc c hcm
              simp only [Bool.and_eq_true] at h6
              exact IH c (rowsVia_sub sch db root t' r c _ htc hr (h4 ▸ hcm)) h6.1
                (Option.isSome_iff_ne_none.mpr (hsome c hcm))
            have hunk : ∀ c, c ∈ rows → evalDjPlan sch db t' c pb ≠ V3.unk := by
              intro c hcm
              have h6 := hc c hcm
              simp only [Bool.and_eq_true, hvs c hcm] at h6
              simpa using h6.2
            rw [List.map_congr_left hvs]
            simp only [evalDjPlan, hpk]
            rw [dj_exists sch db hs hd root _ back t' hrev r pk hr hpk, ← h4]
            simp only [List.any_map, List.all_map, Function.comp_def]
            have : (rows.any fun c => V3.not (evalDjPlan sch db t' c pb) == V3.tt) =
                (rows.any fun c => !(evalDjPlan sch db t' c pb == V3.tt)) := by
              apply any_congr_mem
              intro c hcm
              have := hunk c hcm
              cases hv : evalDjPlan sch db t' c pb <;> simp_all [V3.not]
            rw [this]
            simp [List.all_eq_not_any_not]
    | ident => exact leafCase rfl
    | attr => exact leafCase rfl
    | lit => exact leafCase rfl
    | list => exact leafCase rfl
    | binop => exact leafCase rfl
    | compare => exact leafCase rfl
    | named => exact leafCase rfl
    | call => exact leafCase rfl


theorem evalSa_exists_eq (sch : Schema) (db : DB) (joins : List (List Str)) (tbl : Str) (r : Row) (child : Str)
    (fwd : List Str) (b : Plan) :
    evalSaPlan sch db joins tbl r (.exists_ child fwd (some b)) =
      (let vs := (rowsVia sch db tbl r fwd).map (fun c => evalSaPlan sch db [] child c b)
       if vs.any (· == none) then none else some (V3.ofBool (vs.any (· == some .tt)))) := by
  simp [evalSaPlan]
theorem evalSa_exists_none_eq (sch : Schema) (db : DB) (joins : List (List Str)) (tbl : Str) (r : Row) (child : Str)
    (fwd : List Str) :
    evalSaPlan sch db joins tbl r (.exists_ child fwd none) = some (V3.ofBool (!(rowsVia sch db tbl r fwd).isEmpty)) := by
  simp [evalSaPlan]
theorem evalSa_nen_eq (sch : Schema) (db : DB) (joins : List (List Str)) (tbl : Str) (r : Row) (child : Str)
    (fwd : List Str) (b : Plan) :
    evalSaPlan sch db joins tbl r (.notExistsNot child fwd b) =
      (let vs := (rowsVia sch db tbl r fwd).map (fun c => evalSaPlan sch db [] child c b)
       if vs.any (· == none) then none else some (V3.ofBool (!vs.any (fun v => v.map V3.not == some .tt)))) := by
  simp [evalSaPlan]

theorem navTo_toOneVia (sch : Schema) (db : DB) (t : Str) (ro : Option Row) (p : List Str) (tm : Str) (row : Option Row)
    (h : navTo sch db t ro p = some (tm, row)) : toOneVia sch t p = some tm := by
  rw [← navTo_fst sch db t ro p, h]; rfl

/-- SQLAlchemy core: by induction on the fuel (lambda nesting); only the uniqueness of referenced keys is needed -/
theorem sa_core (sch : Schema) (kindOf : Str → Option ColK) (db : DB) (hu : KeysOk sch db) :
    ∀ (fuel : Nat) (root : Str) (e : Expr) (f : RCond) (j : List (List Str)) (p : Plan),
      lamVarsPlain e = true → elabRAux kindOf [] none e = some f → saPlanAux sch kindOf fuel root e = .ok (j, p) →
      ∀ r, lambdaClean sch db root r f = true → (evalR sch db root r f).isSome = true →
      ∀ joins : List (List Str), (∀ x, x ∈ j → x ∈ joins) →
        evalSaPlan sch db joins root r p = evalR sch db root r f := by
  intro fuel
  induction fuel with
  | zero => intro root e f j p _ _ hp; simp [saPlanAux] at hp
  | succ fuel ih =>
    intro root e f j p hpl he hp r hc hdef joins hj
    have leafCase : isLeafShape e = true → evalSaPlan sch db joins root r p = evalR sch db root r f := by
      intro hl
      rw [elabRAux_leaf kindOf none e hl] at he
      rw [saPlanAux_leaf sch kindOf fuel root e hl] at hp
      cases hb : relLeaf kindOf none e with
      | none => simp [hb] at he
      | some b =>
        simp only [hb, Option.map_some, Option.some.injEq] at he
        simp only [hb, pure, Except.pure, Except.ok.injEq, Prod.mk.injEq] at hp
        obtain ⟨rfl, rfl⟩ := hp
        subst he
        simp [evalR, evalSaPlan]
        exact hj
    cases e with
    | boolop o l x =>
      simp only [lamVarsPlain, Bool.and_eq_true] at hpl
      cases o with
      | and_ =>
        simp only [elabRAux] at he
        simp only [saPlanAux, bind, Except.bind] at hp
        cases h1 : elabRAux kindOf [] none l <;> cases h2 : elabRAux kindOf [] none x <;> simp [h1, h2] at he
        cases h3 : saPlanAux sch kindOf fuel root l <;> simp only [h3] at hp
        · cases hp
        rename_i a b ja
        obtain ⟨ja, pa⟩ := ja
        simp only at hp
        cases h4 : saPlanAux sch kindOf fuel root x <;> simp only [h4] at hp
        · cases hp
        rename_i jb
        obtain ⟨jb, pb⟩ := jb
        simp only [pure, Except.pure, Except.ok.injEq, Prod.mk.injEq] at hp
        obtain ⟨rfl, rfl⟩ := hp
        subst he
        simp only [lambdaClean, Bool.and_eq_true] at hc
        simp only [evalR] at hdef ⊢
        cases h5 : evalR sch db root r a <;> cases h6 : evalR sch db root r b <;> simp [h5, h6] at hdef
        have e1 := ih root l a ja pa hpl.1 h1 h3 r hc.1 (by simp [h5]) joins (fun x hx => hj x (by simp [hx]))
        have e2 := ih root x b jb pb hpl.2 h2 h4 r hc.2 (by simp [h6]) joins (fun x hx => hj x (by simp [hx]))
        simp [evalSaPlan, e1, e2, h5, h6]
      | or_ =>
        simp only [elabRAux] at he
        simp only [saPlanAux, bind, Except.bind] at hp
        cases h1 : elabRAux kindOf [] none l <;> cases h2 : elabRAux kindOf [] none x <;> simp [h1, h2] at he
        cases h3 : saPlanAux sch kindOf fuel root l <;> simp only [h3] at hp
        · cases hp
        rename_i a b ja
        obtain ⟨ja, pa⟩ := ja
        simp only at hp
        cases h4 : saPlanAux sch kindOf fuel root x <;> simp only [h4] at hp
        · cases hp
        rename_i jb
        obtain ⟨jb, pb⟩ := jb
        simp only [pure, Except.pure, Except.ok.injEq, Prod.mk.injEq] at hp
        obtain ⟨rfl, rfl⟩ := hp
        subst he
        simp only [lambdaClean, Bool.and_eq_true] at hc
        simp only [evalR] at hdef ⊢
        cases h5 : evalR sch db root r a <;> cases h6 : evalR sch db root r b <;> simp [h5, h6] at hdef
        have e1 := ih root l a ja pa hpl.1 h1 h3 r hc.1 (by simp [h5]) joins (fun x hx => hj x (by simp [hx]))
        have e2 := ih root x b jb pb hpl.2 h2 h4 r hc.2 (by simp [h6]) joins (fun x hx => hj x (by simp [hx]))
        simp [evalSaPlan, e1, e2, h5, h6]
    | unary o x =>
      cases o with
      | neg => exact leafCase rfl
      | not_ =>
        simp only [lamVarsPlain] at hpl
        simp only [elabRAux] at he
        simp only [saPlanAux, bind, Except.bind] at hp
        cases h1 : elabRAux kindOf [] none x <;> simp [h1] at he
        cases h3 : saPlanAux sch kindOf fuel root x <;> simp only [h3] at hp
        · cases hp
        rename_i a ja
        obtain ⟨ja, pa⟩ := ja
        simp only [pure, Except.pure, Except.ok.injEq, Prod.mk.injEq] at hp
        obtain ⟨rfl, rfl⟩ := hp
        subst he
        simp only [lambdaClean] at hc
        simp only [evalR] at hdef ⊢
        cases h5 : evalR sch db root r a <;> simp [h5] at hdef
        have e1 := ih root x a ja pa hpl h1 h3 r hc (by simp [h5]) joins hj
        simp [evalSaPlan, e1, h5]
    | coll ow op lam =>
      cases lam with
      | none =>
        cases op with
        | all => simp [elabRAux_coll_all_none] at he
        | any =>
          simp only [elabRAux] at he
          simp at he
          obtain ⟨path, coll, how, rfl⟩ := he
          have hsegs := ownerOf_none ow path coll how
          simp only [saPlanAux, hsegs, List.reverse_append, List.reverse_cons, List.reverse_nil, List.nil_append,
            List.singleton_append, List.reverse_reverse] at hp
          cases hnv : navTo sch [] root none path with
          | none => simp [hnv] at hp
          | some tr =>
            obtain ⟨tbl, rw0⟩ := tr
            simp only [hnv] at hp
            cases hrel : sch.rel tbl coll with
            | none => simp [hrel] at hp
            | some rel =>
              simp [hrel, pure, Except.pure] at hp
              obtain ⟨rfl, rfl⟩ := hp
              simp only [evalR] at hdef ⊢
              cases hcr : collRows sch db root r path coll with
              | none => simp [hcr] at hdef
              | some tr =>
                obtain ⟨t', rows⟩ := tr
                obtain ⟨tm, rel', h1, h2, h3, h4, h5⟩ := collRows_some sch db hu root t' r path coll rows hcr
                rw [evalSa_exists_none_eq, ← h4]; simp
      | some v body =>
        simp only [lamVarsPlain, lamVarsPlainLam, Bool.and_eq_true, List.isEmpty_iff] at hpl
        obtain ⟨hplo, hvns, hplb⟩ := hpl
        simp only [elabRAux] at he
        cases how : ownerOf none ow with
        | none => simp [how] at he
        | some pc =>
        obtain ⟨path, coll⟩ := pc
        cases hb : elabRAux kindOf [] (some v.name) body with
        | none => simp [how, hb] at he
        | some bf =>
        simp [how, hb] at he
        have hsegs := ownerOf_none ow path coll how
        simp only [saPlanAux, hsegs, List.reverse_append, List.reverse_cons, List.reverse_nil, List.nil_append,
          List.singleton_append, List.reverse_reverse] at hp
        cases hnv : navTo sch [] root none path with
        | none => simp [hnv] at hp
        | some tr =>
        obtain ⟨tbl, rw0⟩ := tr
        simp only [hnv] at hp
        cases hrel : sch.rel tbl coll with
        | none => simp [hrel] at hp
        | some rel =>
        simp only [hrel] at hp
        cases hst : stripVar v body with
        | none => simp [hst] at hp
        | some body' =>
        simp only [hst, bind, Except.bind] at hp
        cases hbp : saPlanAux sch kindOf fuel rel.dst body' with
        | error err => simp [hbp] at hp
        | ok jpb =>
        obtain ⟨jb, pb⟩ := jpb
        simp only [hbp] at hp
        have hb' := strip_elab kindOf v hvns [] body body' bf hst hb
        have hpl' := strip_plain v body body' hst hplb
        cases hjb : jb with
        | cons _ _ => simp [hjb] at hp
        | nil =>
        subst hjb
        have IH := fun c h1 h2 => ih rel.dst body' bf [] pb hpl' hb' hbp c h1 h2 [] (fun x hx => hx)
        have htm := navTo_toOneVia sch [] root none path tbl rw0 hnv
        cases op with
        | any =>
          simp [pure, Except.pure] at he hp
          obtain ⟨rfl, rfl⟩ := hp
          subst he
          simp only [evalR] at hdef ⊢
          simp only [lambdaClean] at hc
          cases hcr : collRows sch db root r path coll with
          | none => simp [hcr] at hdef
          | some tr =>
            obtain ⟨t', rows⟩ := tr
            obtain ⟨tm, rel', h1, h2, h3, h4, h5⟩ := collRows_some sch db hu root t' r path coll rows hcr
            have : tm = tbl := by rw [htm] at h1; exact (Option.some.inj h1).symm
            subst this
            have : rel' = rel := by rw [hrel] at h2; exact (Option.some.inj h2).symm
            subst this
            subst h3
            simp only [hcr] at hdef hc ⊢
            have hsome : ∀ c, c ∈ rows → ¬ evalR sch db rel'.dst c bf = none := by simpa using hdef
            rw [List.all_eq_true] at hc
            have hvs : ∀ c, c ∈ rows → evalSaPlan sch db [] rel'.dst c pb = evalR sch db rel'.dst c bf := by
              intro c hcm
              have h6 := hc c hcm
              simp only [Bool.and_eq_true] at h6
              exact IH c h6.1 (Option.isSome_iff_ne_none.mpr (hsome c hcm))
            rw [evalSa_exists_eq, ← h4, List.map_congr_left hvs]
        | all =>
          simp [pure, Except.pure] at he hp
          obtain ⟨rfl, rfl⟩ := hp
          subst he
          simp only [evalR] at hdef ⊢
          simp only [lambdaClean] at hc
          cases hcr : collRows sch db root r path coll with
          | none => simp [hcr] at hdef
          | some tr =>
            obtain ⟨t', rows⟩ := tr
            obtain ⟨tm, rel', h1, h2, h3, h4, h5⟩ := collRows_some sch db hu root t' r path coll rows hcr
            have : tm = tbl := by rw [htm] at h1; exact (Option.some.inj h1).symm
            subst this
            have : rel' = rel := by rw [hrel] at h2; exact (Option.some.inj h2).symm
            subst this
            subst h3
            simp only [hcr] at hdef hc ⊢
            have hsome : ∀ c, c ∈ rows → ¬ evalR sch db rel'.dst c bf = none := by simpa using hdef
            rw [List.all_eq_true] at hc
            have hvs : ∀ c, c ∈ rows → evalSaPlan sch db [] rel'.dst c pb = evalR sch db rel'.dst c bf := by
              intro c hcm
              have h6 := hc c hcm
              simp only [Bool.and_eq_true] at h6
              exact IH c h6.1 (Option.isSome_iff_ne_none.mpr (hsome c hcm))
            rw [evalSa_nen_eq, ← h4, List.map_congr_left hvs]
            simp only []
            split
            · rfl
            · congr 2
              simp only [List.any_map, Function.comp_def, List.all_eq_not_any_not]
              congr 1
              apply any_congr_mem
              intro c hcm
              have h6 := hc c hcm
              simp only [Bool.and_eq_true] at h6
              have h7 := hsome c hcm
              cases hv : evalR sch db rel'.dst c bf with
              | none => exact absurd hv h7
              | some x => cases x <;> simp_all [V3.not]
    | ident => exact leafCase rfl
    | attr => exact leafCase rfl
    | lit => exact leafCase rfl
    | list => exact leafCase rfl
    | binop => exact leafCase rfl
    | compare => exact leafCase rfl
    | named => exact leafCase rfl
    | call => exact leafCase rfl


/-- the two ORMs agree with each other on every expression both translate (no reference to the specification) -/
theorem agree_core (sch : Schema) (kindOf : Str → Option ColK) (db : DB) (hs : SchOk sch) (hd : IdsOk db) :
    ∀ (fuel : Nat) (root : Str) (e : Expr) (p : Plan) (j : List (List Str)) (q : Plan),
      djPlan sch kindOf fuel root e = .ok p → saPlanAux sch kindOf fuel root e = .ok (j, q) →
      ∀ r, r ∈ db.table root → ∀ joins : List (List Str), (∀ x, x ∈ j → x ∈ joins) →
        evalSaPlan sch db joins root r q = some (evalDjPlan sch db root r p) := by
  intro fuel
  induction fuel with
  | zero => intro root e p j q hp; simp [djPlan] at hp
  | succ fuel ih =>
    intro root e p j q hp hq r hr joins hj
    have leafCase : isLeafShape e = true → evalSaPlan sch db joins root r q = some (evalDjPlan sch db root r p) := by
      intro hl
      rw [djPlan_leaf sch kindOf fuel root e hl] at hp
      rw [saPlanAux_leaf sch kindOf fuel root e hl] at hq
      cases hb : relLeaf kindOf none e with
      | none => simp [hb] at hp
      | some b =>
        simp only [hb, pure, Except.pure, Except.ok.injEq] at hp
        simp only [hb, pure, Except.pure, Except.ok.injEq, Prod.mk.injEq] at hq
        obtain ⟨rfl, rfl⟩ := hq
        subst hp
        simp [evalDjPlan, evalSaPlan]
        exact hj
    cases e with
    | boolop o l x =>
      cases o with
      | and_ =>
        simp only [djPlan, bind, Except.bind] at hp
        simp only [saPlanAux, bind, Except.bind] at hq
        cases h1 : djPlan sch kindOf fuel root l <;> simp only [h1] at hp
        · cases hp
        cases h2 : djPlan sch kindOf fuel root x <;> simp only [h2] at hp
        · cases hp
        rename_i pa pb
        cases h3 : saPlanAux sch kindOf fuel root l <;> simp only [h3] at hq
        · cases hq
        rename_i ja
        obtain ⟨ja, qa⟩ := ja
        simp only at hq
        cases h4 : saPlanAux sch kindOf fuel root x <;> simp only [h4] at hq
        · cases hq
        rename_i jb
        obtain ⟨jb, qb⟩ := jb
        simp only [pure, Except.pure, Except.ok.injEq, Prod.mk.injEq] at hp hq
        obtain ⟨rfl, rfl⟩ := hq
        subst hp
        have e1 := ih root l pa ja qa h1 h3 r hr joins (fun x hx => hj x (by simp [hx]))
        have e2 := ih root x pb jb qb h2 h4 r hr joins (fun x hx => hj x (by simp [hx]))
        simp [evalSaPlan, evalDjPlan, e1, e2]
      | or_ =>
        simp only [djPlan, bind, Except.bind] at hp
        simp only [saPlanAux, bind, Except.bind] at hq
        cases h1 : djPlan sch kindOf fuel root l <;> simp only [h1] at hp
        · cases hp
        cases h2 : djPlan sch kindOf fuel root x <;> simp only [h2] at hp
        · cases hp
        rename_i pa pb
        cases h3 : saPlanAux sch kindOf fuel root l <;> simp only [h3] at hq
        · cases hq
        rename_i ja
        obtain ⟨ja, qa⟩ := ja
        simp only at hq
        cases h4 : saPlanAux sch kindOf fuel root x <;> simp only [h4] at hq
        · cases hq
        rename_i jb
        obtain ⟨jb, qb⟩ := jb
        simp only [pure, Except.pure, Except.ok.injEq, Prod.mk.injEq] at hp hq
        obtain ⟨rfl, rfl⟩ := hq
        subst hp
        have e1 := ih root l pa ja qa h1 h3 r hr joins (fun x hx => hj x (by simp [hx]))
        have e2 := ih root x pb jb qb h2 h4 r hr joins (fun x hx => hj x (by simp [hx]))
        simp [evalSaPlan, evalDjPlan, e1, e2]
    | unary o x =>
      cases o with
      | neg => exact leafCase rfl
      | not_ =>
        simp only [djPlan, bind, Except.bind] at hp
        simp only [saPlanAux, bind, Except.bind] at hq
        cases h1 : djPlan sch kindOf fuel root x <;> simp only [h1] at hp
        · cases hp
        rename_i pa
        cases h3 : saPlanAux sch kindOf fuel root x <;> simp only [h3] at hq
        · cases hq
        rename_i ja
        obtain ⟨ja, qa⟩ := ja
        simp only [pure, Except.pure, Except.ok.injEq, Prod.mk.injEq] at hp hq
        obtain ⟨rfl, rfl⟩ := hq
        subst hp
        have e1 := ih root x pa ja qa h1 h3 r hr joins hj
        simp [evalSaPlan, evalDjPlan, e1]
    | coll ow op lam =>
      obtain ⟨pk, hpk⟩ := hd.hasId root r hr
      simp only [djPlan] at hp
      simp only [saPlanAux] at hq
      cases hsegs : pathSegs ow with
      | none => simp [hsegs] at hp
      | some segs =>
      simp only [hsegs] at hp hq
      cases hrev : reverseRelationship sch root segs with
      | none => simp [hrev] at hp
      | some bc =>
      obtain ⟨back, child⟩ := bc
      simp only [hrev] at hp
      cases hsr : segs.reverse with
      | nil => simp [hsr] at hq
      | cons coll revPath =>
      simp only [hsr] at hq
      have hsegs' : segs = revPath.reverse ++ [coll] := by
        have : segs = (coll :: revPath).reverse := by rw [← hsr, List.reverse_reverse]
        simpa using this
      cases hnv : navTo sch [] root none revPath.reverse with
      | none => simp [hnv] at hq
      | some tr =>
      obtain ⟨tbl, rw0⟩ := tr
      simp only [hnv] at hq
      cases hrel : sch.rel tbl coll with
      | none => simp [hrel] at hq
      | some rel =>
      simp only [hrel] at hq
      have htc := (reverse_tbl sch hs root _ back child hrev).1
      have hchild : child = rel.dst := by
        have h2 := toOneVia_tblVia sch root tbl _ (navTo_toOneVia sch [] root none _ tbl rw0 hnv)
        rw [hsegs', tblVia_append, h2] at htc
        simp [tblVia, hrel] at htc
        exact htc.symm
      subst hchild
      rw [← hsegs'] at hq
      cases lam with
      | none =>
        cases op with
        | all => simp at hp
        | any =>
          simp [pure, Except.pure] at hp hq
          obtain ⟨rfl, rfl⟩ := hq
          subst hp
          rw [evalSa_exists_none_eq]
          simp only [evalDjPlan, hpk]
          rw [dj_exists sch db hs hd root _ back rel.dst hrev r pk hr hpk]
          cases rowsVia sch db root r segs <;> simp
      | some v body =>
        simp only at hp hq
        cases hst : stripVar v body with
        | none => simp [hst] at hp
        | some body' =>
        simp only [hst, bind, Except.bind] at hp hq
        cases hbp : djPlan sch kindOf fuel rel.dst body' with
        | error err => simp [hbp] at hp
        | ok pb =>
        cases hbq : saPlanAux sch kindOf fuel rel.dst body' with
        | error err => simp [hbq] at hq
        | ok jqb =>
        obtain ⟨jb, qb⟩ := jqb
        simp only [hbp] at hp
        simp only [hbq] at hq
        cases hjb : jb with
        | cons _ _ => simp [hjb] at hq
        | nil =>
        subst hjb
        have IH := fun c hc => ih rel.dst body' pb [] qb hbp hbq c hc [] (fun x hx => hx)
        have hvs : ∀ c, c ∈ rowsVia sch db root r segs →
            evalSaPlan sch db [] rel.dst c qb = some (evalDjPlan sch db rel.dst c pb) :=
          fun c hcm => IH c (rowsVia_sub sch db root rel.dst r c _ htc hr hcm)
        cases op with
        | any =>
          simp [pure, Except.pure] at hp hq
          obtain ⟨rfl, rfl⟩ := hq
          subst hp
          rw [evalSa_exists_eq, List.map_congr_left hvs]
          simp only [evalDjPlan, hpk]
          rw [dj_exists sch db hs hd root _ back rel.dst hrev r pk hr hpk]
          simp [List.any_map, Function.comp_def]
        | all =>
          simp [pure, Except.pure] at hp hq
          obtain ⟨rfl, rfl⟩ := hq
          subst hp
          rw [evalSa_nen_eq, List.map_congr_left hvs]
          simp only [evalDjPlan, hpk]
          rw [dj_exists sch db hs hd root _ back rel.dst hrev r pk hr hpk]
          simp [List.any_map, Function.comp_def]
    | ident => exact leafCase rfl
    | attr => exact leafCase rfl
    | lit => exact leafCase rfl
    | list => exact leafCase rfl
    | binop => exact leafCase rfl
    | compare => exact leafCase rfl
    | named => exact leafCase rfl
    | call => exact leafCase rfl

end OQ.RelSound
