/-
  Lemmas/OrmTotal2.lean — the SQLAlchemy visitor model (ORM and Core): the handlers do not leak on the table's
  arities, and only a list node is visited to a Python list (what the `in` branch of `visit_Compare` relies on).
-/
import ODataVerif.Lemmas.OrmTotal
namespace OQ.OrmTotal
open OQ.Spec

section
variable (fields : List Str) (core : Bool)

def SaArgsOk : Exprs → Prop
  | .nil => True
  | .cons h t => nl (saVisit fields core h) = true ∧ SaArgsOk t

theorem saVisitList_nl : (xs : Exprs) → SaArgsOk fields core xs → nl (saVisitList fields core xs) = true
  | .nil, _ => by rw [saVisitList]; rfl
  | .cons h t, hx => by
      rw [saVisitList]
      exact nl_bind _ _ hx.1 (fun ⟨_, _⟩ => nl_bind _ _ (saVisitList_nl t hx.2) (fun _ => rfl))

theorem saFunc_nl (key : String) (args : Exprs) (ha : SaArgsOk fields core args)
    (hn : arityOk key args.length = true) : nl (saFunc fields core key args) = true := by
  unfold saFunc
  dsimp only
  split
  case h_24 => rfl
  case h_5 => -- concat
    exact nl_bind _ _ (saVisitList_nl fields core _ ha) (fun items => rfl)
  case h_7 => -- substring
    simp only [arityOk, Bool.or_eq_true, beq_iff_eq] at hn
    rcases hn with hn | hn
    · obtain ⟨a, b, rfl⟩ := len2 _ hn
      obtain ⟨h1, h2, -⟩ := ha
      dsimp only; nl_auto
    · obtain ⟨a, b, c, rfl⟩ := len3 _ hn
      obtain ⟨h1, h2, h3, -⟩ := ha
      dsimp only; nl_auto
  case h_23 => -- now
    simp only [arityOk, beq_iff_eq] at hn
    rw [len0 _ hn]; rfl
  all_goals
    simp only [arityOk, beq_iff_eq] at hn
    first
    | (obtain ⟨a, rfl⟩ := len1 _ hn
       obtain ⟨h1, -⟩ := ha
       dsimp only; nl_auto)
    | (obtain ⟨a, b, rfl⟩ := len2 _ hn
       obtain ⟨h1, h2, -⟩ := ha
       dsimp only; nl_auto)

/-! ### only a list node yields a Python list -/
def notList : Outcome (OTree × OKind) → Bool
  | .ok (_, .list) => false
  | _ => true

theorem notList_bind {α} (x : Outcome α) (f : α → Outcome (OTree × OKind))
    (hf : ∀ a, notList (f a) = true) : notList (x >>= f) = true := by
  cases x with
  | ok a => exact hf a
  | lib e => rfl
  | notImplemented => rfl
  | foreign c => rfl

macro "notlist_auto" : tactic =>
  `(tactic| repeat (first
      | rfl
      | refine notList_bind _ _ (fun _ => ?_)))

theorem saFunc_notList (key : String) (args : Exprs) : notList (saFunc fields core key args) = true := by
  unfold saFunc
  dsimp only
  split
  all_goals first
    | rfl
    | (refine notList_bind _ _ (fun _ => ?_); rfl)
    | (split <;> notlist_auto)

theorem saVisit_notList (e : Expr) (h : ∀ xs, e ≠ .list xs) : notList (saVisit fields core e) = true := by
  cases e
  case list xs => exact absurd rfl (h xs)
  case lit k v =>
    cases k <;> rw [saVisit] <;> first | rfl | (intro hh; cases hh) | notlist_auto
  all_goals
    rw [saVisit]
    repeat' (first
      | rfl
      | exact saFunc_notList fields core _ _
      | refine notList_bind _ _ (fun _ => ?_)
      | split
      | (show notList (if _ then _ else _) = true))
end

end OQ.OrmTotal
