/-
  Lemmas/AcceptedLex2.lean — "trim" lemmas for the fixed-format rules (GUID, date, time, datetime): the matched text alone is
  matched again, completely.
-/
import ODataVerif.Lemmas.AcceptedLex
namespace OQ.AcceptedLex
open OQ.LexRender OQ.Spec
set_option linter.unusedSimpArgs false
set_option linter.unusedVariables false

/-! ### takeN / takeUpTo -/
theorem takeN_inv (p : Char → Bool) : ∀ (n : Nat) (cs m r : Str), takeN p n cs = some (m, r) →
    cs = m ++ r ∧ m.length = n ∧ ∀ c ∈ m, p c = true
  | 0, cs, m, r, h => by simp [takeN] at h; obtain ⟨rfl, rfl⟩ := h; simp
  | _ + 1, [], m, r, h => by simp [takeN] at h
  | n + 1, c :: cs, m, r, h => by
      simp only [takeN] at h
      split at h
      · rename_i hc
        split at h
        · rename_i m' r' heq
          simp only [Option.some.injEq, Prod.mk.injEq] at h
          obtain ⟨rfl, rfl⟩ := h
          obtain ⟨rfl, hl, hp⟩ := takeN_inv p n cs m' _ heq
          refine ⟨rfl, by simp [hl], ?_⟩
          intro x hx
          rcases List.mem_cons.1 hx with rfl | hx
          · exact hc
          · exact hp x hx
        · simp at h
      · simp at h

theorem takeN_ps {p : Char → Bool} {n : Nat} {cs m r : Str} (h : takeN p n cs = some (m, r)) :
    cs = m ++ r ∧ (∀ c ∈ m, p c = true) ∧ m.length = n ∧ ∀ y, takeN p n (m ++ y) = some (m, y) := by
  obtain ⟨h1, h2, h3⟩ := takeN_inv p n cs m r h
  exact ⟨h1, h3, h2, fun y => LitLex.takeN_all' p n m y h2 h3⟩

theorem takeUpTo_inv (p : Char → Bool) : ∀ (n : Nat) (cs : Str),
    cs = (takeUpTo p n cs).1 ++ (takeUpTo p n cs).2 ∧ (takeUpTo p n cs).1.length ≤ n ∧ ∀ c ∈ (takeUpTo p n cs).1, p c = true
  | 0, cs => by simp [takeUpTo]
  | _ + 1, [] => by simp [takeUpTo]
  | n + 1, c :: cs => by
      simp only [takeUpTo]
      split
      · rename_i hc
        obtain ⟨h1, h2, h3⟩ := takeUpTo_inv p n cs
        refine ⟨by simp [← h1], by simp; omega, ?_⟩
        intro x hx
        rcases List.mem_cons.1 hx with rfl | hx
        · exact hc
        · exact h3 x hx
      · simp

/-! ### GUID -/
theorem hex_minus : isHex E '-' = false := by decide +kernel

theorem scanGuid_ps {cs v r : Str} (h : scanGuid E cs = some (v, r)) :
    cs = v ++ r ∧ (∀ y, scanGuid E (v ++ y) = some (v, y)) ∧ (∃ c t, v = c :: t ∧ isHex E c = true) ∧
    (∀ c ∈ v, isHex E c = true ∨ c = '-') := by
  unfold scanGuid at h
  simp only [Option.bind_eq_bind, Option.bind_eq_some_iff] at h
  obtain ⟨⟨a, r1⟩, h1, h⟩ := h
  obtain ⟨rfl, ha, hal, fa⟩ := takeN_ps h1
  split at h <;> simp only [Option.bind_some, Option.bind_none, Option.bind_eq_some_iff, reduceCtorEq] at h
  rename_i t1 heq1
  dsimp only at heq1; subst heq1
  obtain ⟨⟨b, r2⟩, h2, h⟩ := h
  obtain ⟨rfl, hb, hbl, fb⟩ := takeN_ps h2
  split at h <;> simp only [Option.bind_some, Option.bind_none, Option.bind_eq_some_iff, reduceCtorEq] at h
  rename_i t2 heq2
  dsimp only at heq2; subst heq2
  obtain ⟨⟨c, r3⟩, h3, h⟩ := h
  obtain ⟨rfl, hc, hcl, fc⟩ := takeN_ps h3
  split at h <;> simp only [Option.bind_some, Option.bind_none, Option.bind_eq_some_iff, reduceCtorEq] at h
  rename_i t3 heq3
  dsimp only at heq3; subst heq3
  obtain ⟨⟨d, r4⟩, h4, h⟩ := h
  obtain ⟨rfl, hd, hdl, fd⟩ := takeN_ps h4
  split at h <;> simp only [Option.bind_some, Option.bind_none, Option.bind_eq_some_iff, reduceCtorEq] at h
  rename_i t4 heq4
  dsimp only at heq4; subst heq4
  obtain ⟨⟨e, r5⟩, h5, h⟩ := h
  obtain ⟨rfl, he, hel, fe⟩ := takeN_ps h5
  simp only [Option.pure_def, Option.some.injEq, Prod.mk.injEq] at h
  obtain ⟨rfl, rfl⟩ := h
  refine ⟨by simp, ?_, ?_, ?_⟩
  · intro y
    have e1 : a ++ '-' :: b ++ '-' :: c ++ '-' :: d ++ '-' :: e ++ y
        = a ++ ('-' :: (b ++ ('-' :: (c ++ ('-' :: (d ++ ('-' :: (e ++ y)))))))) := by simp
    rw [e1]
    simp only [scanGuid, Option.bind_eq_bind, fa, Option.bind_some, fb, fc, fd, fe, Option.pure_def]
  · cases a with
    | nil => simp at hal
    | cons x xs => exact ⟨x, _, rfl, ha x List.mem_cons_self⟩
  · intro x hx
    simp only [List.mem_append, List.mem_cons] at hx
    rcases hx with ((((hx | rfl | hx) | rfl | hx) | rfl | hx) | rfl | hx)
    · exact Or.inl (ha x hx)
    · exact Or.inr rfl
    · exact Or.inl (hb x hx)
    · exact Or.inr rfl
    · exact Or.inl (hc x hx)
    · exact Or.inr rfl
    · exact Or.inl (hd x hx)
    · exact Or.inr rfl
    · exact Or.inl (he x hx)

/-- failure of the GUID rule on a text implies failure on every prefix -/
theorem scanGuid_prefix {a r : Str} (h : scanGuid E (a ++ r) = none) : scanGuid E a = none := by
  cases hs : scanGuid E a with
  | none => rfl
  | some x =>
    obtain ⟨v, r'⟩ := x
    obtain ⟨rfl, hf, -, -⟩ := scanGuid_ps hs
    have := hf (r' ++ r)
    rw [List.append_assoc] at h
    rw [h] at this; cases this

/-! ### dates and clocks -/
theorem scanDatePart_ps {cs v r : Str} (h : scanDatePart E cs = some (v, r)) :
    cs = v ++ r ∧ (∀ y, scanDatePart E (v ++ y) = some (v, y)) ∧
    (∃ y1 y2 y3 y4 t, v = y1 :: y2 :: y3 :: y4 :: '-' :: t ∧ E.isDigit y1 = true) := by
  unfold scanDatePart at h
  split at h
  · rename_i y1 y2 y3 y4 m1 m2 d1 d2 r0
    split at h <;> simp only [Option.some.injEq, Prod.mk.injEq, reduceCtorEq] at h
    rename_i hcond
    obtain ⟨rfl, rfl⟩ := h
    refine ⟨rfl, ?_, ⟨y1, y2, y3, y4, _, rfl, ?_⟩⟩
    · intro y
      simp only [List.cons_append, List.nil_append, scanDatePart, hcond, if_true]
    · simp only [Bool.and_eq_true] at hcond
      exact hcond.1.1.1.1.1
  · simp at h

theorem scanDatePart_prefix {a r : Str} (h : scanDatePart E (a ++ r) = none) : scanDatePart E a = none := by
  cases hs : scanDatePart E a with
  | none => rfl
  | some x =>
    obtain ⟨v, r'⟩ := x
    obtain ⟨rfl, hf, -⟩ := scanDatePart_ps hs
    have := hf (r' ++ r)
    rw [List.append_assoc] at h
    rw [h] at this; cases this

theorem r01_cases {c : Char} (h : inCharRange '0' '1' c = true) : c = '0' ∨ c = '1' := by
  simp only [inCharRange, Bool.and_eq_true, decide_eq_true_eq, le_char_iff] at h
  have e0 : '0'.toNat = 48 := rfl
  have e1 : '1'.toNat = 49 := rfl
  have : c.toNat = 48 ∨ c.toNat = 49 := by omega
  rcases this with h | h
  · exact Or.inl (Char.toNat_inj.1 h)
  · exact Or.inr (Char.toNat_inj.1 h)

theorem scanHourMinute_ps {cs v r : Str} (h : scanHourMinute E cs = some (v, r)) :
    cs = v ++ r ∧ (∀ y, scanHourMinute E (v ++ y) = some (v, y)) ∧
    (∃ h1 h2 m1 m2, v = [h1, h2, ':', m1, m2] ∧ (h1 = '0' ∨ h1 = '1' ∨ h1 = '2')) := by
  unfold scanHourMinute at h
  split at h
  · rename_i h1 h2 m1 m2 r0
    split at h <;> simp only [Option.some.injEq, Prod.mk.injEq, reduceCtorEq] at h
    rename_i hcond
    obtain ⟨rfl, rfl⟩ := h
    refine ⟨rfl, ?_, ⟨h1, h2, m1, m2, rfl, ?_⟩⟩
    · intro y
      simp only [List.cons_append, List.nil_append, scanHourMinute, hcond, if_true]
    · simp only [Bool.and_eq_true, Bool.or_eq_true, beq_iff_eq] at hcond
      rcases hcond.1.1 with h | h
      · rcases r01_cases h.1 with e | e
        · exact Or.inl e
        · exact Or.inr (Or.inl e)
      · exact Or.inr (Or.inr h.1)
  · simp at h

/-- what may follow the seconds of a clock for the match to stay the same: nothing, or neither a digit nor a `.` -/
def FracEnd (y : Str) : Prop := ∀ c t, y = c :: t → c ≠ '.' ∧ E.isDigit c = false

theorem fracEnd_nil : FracEnd [] := by intro c t h; cases h

theorem scanFraction_none {y : Str} (hy : FracEnd y) : scanFraction E y = ([], y) := by
  cases y with
  | nil => rfl
  | cons c t =>
    have := (hy c t rfl).1
    unfold scanFraction
    split
    · rename_i heq; simp at heq; exact absurd heq.1 this
    · rfl

theorem scanFraction_ps {cs f r : Str} (h : scanFraction E cs = (f, r)) :
    cs = f ++ r ∧ ∀ y, FracEnd y → scanFraction E (f ++ y) = (f, y) := by
  unfold scanFraction at h
  split at h
  · rename_i r0
    obtain ⟨h1, h2, h3⟩ := takeUpTo_inv E.isDigit 12 r0
    split at h
    · rename_i r' heq
      simp only [Prod.mk.injEq] at h
      obtain ⟨rfl, rfl⟩ := h
      exact ⟨rfl, fun y hy => by simpa using scanFraction_none hy⟩
    · rename_i ds r' hne heq
      rw [heq] at h1 h2 h3
      dsimp only at h1 h2 h3
      simp only [Prod.mk.injEq] at h
      obtain ⟨rfl, rfl⟩ := h
      refine ⟨by rw [h1]; simp, ?_⟩
      intro y hy
      have := LitLex.takeUpTo_all' E.isDigit 12 ds y h2 h3 (fun c t e => (hy c t e).2)
      cases ds with
      | nil => exact (hne rfl).elim
      | cons d ds' =>
        simp only [List.cons_append] at this ⊢
        simp only [scanFraction, this]
  · simp only [Prod.mk.injEq] at h
    obtain ⟨rfl, rfl⟩ := h
    exact ⟨rfl, fun y hy => by simpa using scanFraction_none hy⟩

theorem scanSeconds_ps {cs s r : Str} (h : scanSeconds E cs = some (s, r)) :
    cs = s ++ r ∧ (∃ t, s = ':' :: t) ∧ ∀ y, FracEnd y → scanSeconds E (s ++ y) = some (s, y) := by
  unfold scanSeconds at h
  split at h
  · rename_i s1 s2 r0
    obtain ⟨hd, hf⟩ := scanFraction_ps (cs := r0) (f := (scanFraction E r0).1) (r := (scanFraction E r0).2) rfl
    split at h <;> simp only [Option.some.injEq, Prod.mk.injEq, reduceCtorEq] at h
    rename_i hcond
    obtain ⟨rfl, rfl⟩ := h
    refine ⟨by simp [← hd], ⟨_, rfl⟩, ?_⟩
    intro y hy
    simp only [List.cons_append, scanSeconds, hcond, if_true, hf y hy]
  · rename_i s1 s2 r0 hne
    obtain ⟨hd, hf⟩ := scanFraction_ps (cs := r0) (f := (scanFraction E r0).1) (r := (scanFraction E r0).2) rfl
    split at h <;> simp only [Option.some.injEq, Prod.mk.injEq, reduceCtorEq] at h
    rename_i hcond
    obtain ⟨rfl, rfl⟩ := h
    refine ⟨by simp [← hd], ⟨_, rfl⟩, ?_⟩
    intro y hy
    have hs1 : s1 ≠ ':' := by
      rintro rfl
      simp only [Bool.and_eq_true] at hcond
      exact absurd hcond.1 (by decide)
    simp only [List.cons_append]
    rw [LexRender.scanSeconds_single s1 s2 _ hs1]
    simp only [hcond, if_true, hf y hy]
  · simp at h

theorem z_cases {c : Char} (h : ciChar E 'z' c = true) : c = 'z' ∨ c = 'Z' := by
  simp [ciChar, isAsciiLower, asciiUpper, pyCharEnv, CharTables.ciExtras] at h
  rcases h with rfl | rfl
  · exact Or.inl rfl
  · exact Or.inr (by decide)

theorem scanSeconds_head {c : Char} {t : Str} (h : c ≠ ':') : scanSeconds E (c :: t) = none := by
  unfold scanSeconds
  split
  · rename_i heq; simp at heq; exact absurd heq.1 h
  · rename_i heq; simp at heq; exact absurd heq.1 h
  · rfl

theorem scanSeconds_nil : scanSeconds E [] = none := rfl

theorem scanOffset_ps {cs o r : Str} (h : scanOffset E cs = (o, r)) :
    cs = o ++ r ∧ scanOffset E o = (o, []) ∧ FracEnd o ∧ scanSeconds E o = none := by
  have hnil : scanOffset E [] = ([], []) ∧ FracEnd [] ∧ scanSeconds E [] = none := ⟨rfl, fracEnd_nil, rfl⟩
  unfold scanOffset at h
  split at h
  · rename_i c r0
    split at h
    · rename_i hz
      simp only [Prod.mk.injEq] at h
      obtain ⟨rfl, rfl⟩ := h
      refine ⟨rfl, by simp [scanOffset, hz], ?_, ?_⟩
      · intro c' t e
        simp only [List.cons.injEq] at e
        obtain ⟨rfl, -⟩ := e
        rcases z_cases hz with rfl | rfl <;> exact ⟨by decide, by decide +kernel⟩
      · apply scanSeconds_head
        rcases z_cases hz with rfl | rfl <;> decide
    · rename_i hz
      split at h
      · rename_i hpm
        split at h
        · rename_i hm r' heq
          simp only [Prod.mk.injEq] at h
          obtain ⟨rfl, rfl⟩ := h
          obtain ⟨rfl, hf, -⟩ := scanHourMinute_ps heq
          have := hf []
          rw [List.append_nil] at this
          simp only [Bool.or_eq_true, beq_iff_eq] at hpm
          refine ⟨rfl, by simp [scanOffset, hz, hpm, this], ?_, ?_⟩
          · intro c' t e
            simp only [List.cons.injEq] at e
            obtain ⟨rfl, -⟩ := e
            rcases hpm with rfl | rfl <;> exact ⟨by decide, by decide +kernel⟩
          · apply scanSeconds_head
            rcases hpm with rfl | rfl <;> decide
        · simp only [Prod.mk.injEq] at h
          obtain ⟨rfl, rfl⟩ := h
          exact ⟨rfl, hnil⟩
      · simp only [Prod.mk.injEq] at h
        obtain ⟨rfl, rfl⟩ := h
        exact ⟨rfl, hnil⟩
  · simp only [Prod.mk.injEq] at h
    obtain ⟨rfl, rfl⟩ := h
    exact ⟨rfl, hnil⟩

theorem scanTime_trim {cs v r : Str} (h : scanTime E cs = some (v, r)) :
    cs = v ++ r ∧ scanTime E v = some (v, []) ∧
    (∃ h1 h2 t, v = h1 :: h2 :: ':' :: t ∧ (h1 = '0' ∨ h1 = '1' ∨ h1 = '2')) := by
  unfold scanTime at h
  simp only [Option.bind_eq_bind, Option.bind_eq_some_iff] at h
  obtain ⟨⟨hm, r1⟩, h1, ⟨s, r2⟩, h2, h⟩ := h
  simp only [Option.pure_def, Option.some.injEq, Prod.mk.injEq] at h
  obtain ⟨rfl, rfl⟩ := h
  obtain ⟨rfl, fhm, ⟨a, b, c, d, rfl, ha⟩⟩ := scanHourMinute_ps h1
  obtain ⟨rfl, -, fs⟩ := scanSeconds_ps h2
  refine ⟨by simp, ?_, ⟨a, b, _, rfl, ha⟩⟩
  have e1 := fhm s
  have e2 := fs [] fracEnd_nil
  rw [List.append_nil] at e2
  simp only [scanTime, Option.bind_eq_bind, e1, Option.bind_some, e2, Option.pure_def]

theorem t_cases' {c : Char} (h : ciChar E 't' c = true) : c = 't' ∨ c = 'T' := LexRender.t_cases h

theorem scanDateTime_trim {cs v r : Str} (h : scanDateTime E cs = some (v, r)) :
    ∃ a, cs = a ++ r ∧ v = a.map asciiUpper ∧ scanDateTime E a = some (v, []) ∧
      (∃ y1 y2 y3 y4 t, a = y1 :: y2 :: y3 :: y4 :: '-' :: t ∧ E.isDigit y1 = true) := by
  unfold scanDateTime at h
  simp only [Option.bind_eq_bind, Option.bind_eq_some_iff] at h
  obtain ⟨⟨d, r1⟩, h1, h⟩ := h
  obtain ⟨rfl, fd, ⟨y1, y2, y3, y4, td, rfl, hy1⟩⟩ := scanDatePart_ps h1
  split at h
  · rename_i _ t r2 heq
    dsimp only at heq
    subst heq
    split at h
    · rename_i ht
      simp only [Option.bind_eq_bind, Option.bind_eq_some_iff] at h
      obtain ⟨⟨hm, r3⟩, h2, h⟩ := h
      dsimp only at h
      obtain ⟨rfl, fhm, -⟩ := scanHourMinute_ps h2
      cases hs : scanSeconds E r3 with
      | none =>
        simp only [hs, Option.pure_def, Option.some.injEq, Prod.mk.injEq] at h
        obtain ⟨rfl, rfl⟩ := h
        obtain ⟨ho, fo, foe, fos⟩ := scanOffset_ps (cs := r3) (o := (scanOffset E r3).1) (r := (scanOffset E r3).2) rfl
        refine ⟨(y1 :: y2 :: y3 :: y4 :: '-' :: td) ++ t :: hm ++ (scanOffset E r3).1, ?_, by simp, ?_,
          ⟨y1, y2, y3, y4, _, rfl, hy1⟩⟩
        · conv => lhs; rw [ho]
          simp
        · have e1 := fd (t :: (hm ++ (scanOffset E r3).1))
          have e2 := fhm ((scanOffset E r3).1)
          have e0 : (y1 :: y2 :: y3 :: y4 :: '-' :: td) ++ t :: hm ++ (scanOffset E r3).1
              = (y1 :: y2 :: y3 :: y4 :: '-' :: td) ++ (t :: (hm ++ (scanOffset E r3).1)) := by simp
          rw [e0]
          simp only [scanDateTime, Option.bind_eq_bind, e1, Option.bind_some, ht, if_true, e2, fos, fo,
            Option.pure_def, List.append_nil]
      | some p =>
        obtain ⟨s, r4⟩ := p
        simp only [hs, Option.pure_def, Option.some.injEq, Prod.mk.injEq] at h
        obtain ⟨rfl, rfl⟩ := h
        obtain ⟨rfl, -, fs⟩ := scanSeconds_ps hs
        obtain ⟨ho, fo, foe, fos⟩ := scanOffset_ps (cs := r4) (o := (scanOffset E r4).1) (r := (scanOffset E r4).2) rfl
        refine ⟨(y1 :: y2 :: y3 :: y4 :: '-' :: td) ++ t :: hm ++ s ++ (scanOffset E r4).1, ?_, by simp, ?_,
          ⟨y1, y2, y3, y4, _, rfl, hy1⟩⟩
        · conv => lhs; rw [ho]
          simp
        · have e1 := fd (t :: (hm ++ (s ++ (scanOffset E r4).1)))
          have e2 := fhm (s ++ (scanOffset E r4).1)
          have e3 := fs _ foe
          have e0 : (y1 :: y2 :: y3 :: y4 :: '-' :: td) ++ t :: hm ++ s ++ (scanOffset E r4).1
              = (y1 :: y2 :: y3 :: y4 :: '-' :: td) ++ (t :: (hm ++ (s ++ (scanOffset E r4).1))) := by simp
          rw [e0]
          simp only [scanDateTime, Option.bind_eq_bind, e1, Option.bind_some, ht, if_true, e2, e3, fo,
            Option.pure_def, List.append_nil]
          simp
    · simp at h
  · simp at h

end OQ.AcceptedLex
